(* C03, text level: proofs about Codec/Model.v. *)
From Coq Require Import List NArith Bool Lia.
From RV Require Import Codec.Model.
Import ListNotations.
Open Scope N_scope.

(* ------------------------------------------------------------ generic *)
Lemma str_eqb_refl : forall s, str_eqb s s = true.
Proof. induction s as [|x s IH]; simpl; [reflexivity|]. now rewrite N.eqb_refl, IH. Qed.

Lemma str_eqb_eq : forall a b, str_eqb a b = true <-> a = b.
Proof.
  induction a as [|x a IH]; destruct b as [|y b]; simpl; split; intro H; try reflexivity; try discriminate.
  - apply andb_true_iff in H as [H1 H2]. apply N.eqb_eq in H1. apply IH in H2. congruence.
  - inversion H; subst. now rewrite N.eqb_refl, str_eqb_refl.
Qed.

Lemma replace1_cons : forall c r x s,
  replace1 c r (x :: s) = (if x =? c then r else [x]) ++ replace1 c r s.
Proof. reflexivity. Qed.

Lemma replace1_app : forall c r a b, replace1 c r (a ++ b) = replace1 c r a ++ replace1 c r b.
Proof. intros. unfold replace1. apply flat_map_app. Qed.

Lemma span_app_stop : forall p a c r,
  forallb p a = true -> p c = false -> span p (a ++ c :: r) = (a, c :: r).
Proof.
  induction a as [|x a IH]; intros c r Ha Hc; simpl.
  - now rewrite Hc.
  - simpl in Ha. apply andb_true_iff in Ha as [Hx Ha]. rewrite Hx, (IH c r Ha Hc). reflexivity.
Qed.

Lemma span_all : forall p a, forallb p a = true -> span p a = (a, []).
Proof.
  induction a as [|x a IH]; intros Ha; simpl; [reflexivity|].
  simpl in Ha. apply andb_true_iff in Ha as [Hx Ha]. now rewrite Hx, (IH Ha).
Qed.

Lemma span_spec : forall p s a b, span p s = (a, b) ->
  s = a ++ b /\ forallb p a = true /\ match b with [] => True | c :: _ => p c = false end.
Proof.
  induction s as [|x s IH]; intros a b H; simpl in H.
  - inversion H; subst. repeat split.
  - destruct (p x) eqn:Px.
    + destruct (span p s) as [a' b'] eqn:E. inversion H; subst.
      destruct (IH a' b eq_refl) as (H1 & H2 & H3). subst s. repeat split; simpl; auto. now rewrite Px, H2.
    + inversion H; subst. repeat split. exact Px.
Qed.

Lemma drop_while_stop : forall p c r, p c = false -> drop_while p (c :: r) = c :: r.
Proof. intros. simpl. now rewrite H. Qed.

Lemma forallb_app_iff : forall (p : N -> bool) a b, forallb p (a ++ b) = forallb p a && forallb p b.
Proof. intros. apply forallb_app. Qed.

(* ------------------------------------------------------------ K1: the writer's escaping *)
Definition valid_str (s : str) : bool := forallb (fun c => c <? 1114112) s.

Lemma nt_encode_body_app : forall a b, nt_encode_body (a ++ b) = nt_encode_body a ++ nt_encode_body b.
Proof. intros. unfold nt_encode_body. now rewrite !replace1_app. Qed.

Lemma nt_encode_body_single : forall x, nt_encode_body [x] = nt_esc1 x.
Proof.
  intros x. unfold nt_esc1.
  destruct (N.eqb_spec x 92) as [->|N92]; [reflexivity|].
  destruct (N.eqb_spec x 10) as [->|N10]; [reflexivity|].
  destruct (N.eqb_spec x 34) as [->|N34]; [reflexivity|].
  destruct (N.eqb_spec x 13) as [->|N13]; [reflexivity|].
  apply N.eqb_neq in N92, N10, N34, N13.
  unfold nt_encode_body, replace1. simpl. rewrite N92. simpl. rewrite N10. simpl. rewrite N34. simpl.
  rewrite N13. reflexivity.
Qed.

(* the four chained str.replace calls are one pass over the characters *)
Lemma nt_encode_body_flat : forall s, nt_encode_body s = flat_map nt_esc1 s.
Proof.
  induction s as [|x s IH]; [reflexivity|].
  change (x :: s) with ([x] ++ s). rewrite nt_encode_body_app, nt_encode_body_single, IH. reflexivity.
Qed.

Lemma unesc_other : forall c r, (c =? 92) = false -> unesc (c :: r) = c :: unesc r.
Proof. intros c r H. cbn [unesc]. now rewrite H. Qed.

Lemma unesc_esc : forall d x r, lookup d nt_escapes = Some x -> unesc (92 :: d :: r) = x :: unesc r.
Proof. intros d x r H. cbn [unesc]. rewrite N.eqb_refl, H. reflexivity. Qed.

Lemma unesc_encode : forall s, unesc (flat_map nt_esc1 s) = s.
Proof.
  induction s as [|x s IH]; [reflexivity|].
  cbn [flat_map]. unfold nt_esc1 at 1.
  destruct (N.eqb_spec x 92) as [->|N92];
    [cbn [app]; rewrite (unesc_esc 92 92) by reflexivity; now rewrite IH|].
  destruct (N.eqb_spec x 10) as [->|N10];
    [cbn [app]; rewrite (unesc_esc 110 10) by reflexivity; now rewrite IH|].
  destruct (N.eqb_spec x 34) as [->|N34];
    [cbn [app]; rewrite (unesc_esc 34 34) by reflexivity; now rewrite IH|].
  destruct (N.eqb_spec x 13) as [->|N13];
    [cbn [app]; rewrite (unesc_esc 114 13) by reflexivity; now rewrite IH|].
  cbn [app]. rewrite unesc_other by (now apply N.eqb_neq). now rewrite IH.
Qed.

Lemma unesc_no_backslash : forall s, forallb (fun c => negb (c =? 92)) s = true -> unesc s = s.
Proof.
  induction s as [|x s IH]; intros H; [reflexivity|].
  simpl in H. apply andb_true_iff in H as [Hx Hs]. apply negb_true_iff in Hx.
  rewrite unesc_other by exact Hx. now rewrite IH.
Qed.

Theorem nt_literal_roundtrip_raw : forall s, unesc (nt_encode_body s) = s.
Proof. intros. rewrite nt_encode_body_flat. apply unesc_encode. Qed.

Theorem nt_literal_roundtrip : forall s, valid_str s = true -> unquote (nt_encode_body s) = Some s.
Proof. intros s H. unfold unquote. rewrite nt_literal_roundtrip_raw. unfold valid_str in H. now rewrite H. Qed.

(* the reader's literal pattern finds exactly the body the writer produced *)
Lemma scan_body_encode : forall s rest,
  scan_body (flat_map nt_esc1 s ++ 34 :: rest) = Some (flat_map nt_esc1 s, rest).
Proof.
  induction s as [|x s IH]; intros rest; [reflexivity|].
  cbn [flat_map]. unfold nt_esc1 at 1 3.
  destruct (N.eqb_spec x 92) as [->|N92]; [cbn [app scan_body]; cbn; now rewrite IH|].
  destruct (N.eqb_spec x 10) as [->|N10]; [cbn [app scan_body]; cbn; now rewrite IH|].
  destruct (N.eqb_spec x 34) as [->|N34]; [cbn [app scan_body]; cbn; now rewrite IH|].
  destruct (N.eqb_spec x 13) as [->|N13]; [cbn [app scan_body]; cbn; now rewrite IH|].
  cbn [app scan_body]. apply N.eqb_neq in N92, N34. rewrite N34, N92, IH. reflexivity.
Qed.

(* no raw CR or LF ever appears in an encoded body *)
Definition no_nl (s : str) : bool := forallb (fun c => negb ((c =? 10) || (c =? 13))) s.

Lemma no_nl_app : forall a b, no_nl (a ++ b) = no_nl a && no_nl b.
Proof. intros. apply forallb_app. Qed.

Lemma no_nl_cons : forall c s, no_nl (c :: s) = negb ((c =? 10) || (c =? 13)) && no_nl s.
Proof. reflexivity. Qed.

Lemma no_nl_encode : forall s, no_nl (flat_map nt_esc1 s) = true.
Proof.
  induction s as [|x s IH]; [reflexivity|].
  cbn [flat_map]. rewrite no_nl_app, IH, andb_true_r. unfold nt_esc1.
  destruct (N.eqb_spec x 92) as [->|N92]; [reflexivity|].
  destruct (N.eqb_spec x 10) as [->|N10]; [reflexivity|].
  destruct (N.eqb_spec x 34) as [->|N34]; [reflexivity|].
  destruct (N.eqb_spec x 13) as [->|N13]; [reflexivity|].
  simpl. apply N.eqb_neq in N10, N13. now rewrite N10, N13.
Qed.

(* ------------------------------------------------------------ K1: IRIs *)
Lemma mem_true_in : forall c l, mem c l = true <-> In c l.
Proof.
  intros c l. unfold mem. rewrite existsb_exists. split.
  - intros (x & Hin & Hx). apply N.eqb_eq in Hx. now subst.
  - intros H. exists c. split; [exact H|apply N.eqb_refl].
Qed.

(* table facts, re-checked against the reflected tables on every build: everything the reader's IRI pattern refuses
   after the scheme is refused by the writer too (since fix commit 4d2427e4; before it, the pattern refused all of \s) *)
Lemma refused_sub_invalid : forall c, mem c uriref_refused = true -> mem c invalid_uri = true.
Proof.
  intros c H. apply mem_true_in in H. unfold uriref_refused in H.
  repeat (destruct H as [<-|H]; [reflexivity|]). destruct H.
Qed.
Lemma gt_refused : mem 62 uriref_refused = true. Proof. reflexivity. Qed.
Lemma backslash_invalid : mem 92 invalid_uri = true. Proof. reflexivity. Qed.
Lemma nl_refused : mem 10 uriref_refused = true /\ mem 13 uriref_refused = true. Proof. split; reflexivity. Qed.
Lemma nl_invalid : mem 10 invalid_uri = true /\ mem 13 invalid_uri = true. Proof. split; reflexivity. Qed.

Lemma valid_uri_no_backslash : forall u, valid_uri u = true -> forallb (fun c => negb (c =? 92)) u = true.
Proof.
  intros u H. unfold valid_uri in H. rewrite forallb_forall in *. intros c Hc. specialize (H c Hc).
  destruct (N.eqb_spec c 92) as [->|]; [|reflexivity]. now rewrite backslash_invalid in H.
Qed.

Lemma scan_uriref_ok : forall u rest, wf_iri u = true -> iri_readable u = true ->
  scan_uriref (60 :: u ++ 62 :: rest) = Some (u, rest).
Proof.
  intros u rest Hwf Hrd. unfold wf_iri in Hwf. apply andb_true_iff in Hwf as [Hv Hs].
  unfold has_scheme in Hs. unfold iri_readable in Hrd.
  destruct (span (fun c => negb (c =? 58)) u) as [scheme r1] eqn:E.
  destruct (span_spec _ _ _ _ E) as (Hu & Hsch & Hhd).
  destruct scheme as [|s0 scheme]; [discriminate|]. destruct r1 as [|c path]; [discriminate|].
  apply negb_false_iff, N.eqb_eq in Hhd. subst c.
  apply andb_true_iff in Hrd as [_ Hpath].
  unfold scan_uriref. rewrite N.eqb_refl.
  replace (u ++ 62 :: rest) with ((s0 :: scheme) ++ 58 :: (path ++ 62 :: rest))
    by (rewrite Hu, <- app_assoc; reflexivity).
  rewrite (span_app_stop _ _ 58 _ Hsch) by reflexivity.
  rewrite (span_app_stop _ _ 62 rest Hpath) by (unfold uri_tail_char; now rewrite gt_refused).
  rewrite N.eqb_refl. rewrite Hu. reflexivity.
Qed.

Lemma rd_uriref_ok : forall u rest, wf_iri u = true -> iri_readable u = true -> valid_str u = true ->
  rd_uriref (60 :: u ++ 62 :: rest) = Some (u, rest).
Proof.
  intros u rest Hwf Hrd Hv. unfold rd_uriref. rewrite scan_uriref_ok by assumption.
  unfold unquote. rewrite unesc_no_backslash.
  - unfold valid_str in Hv. now rewrite Hv.
  - apply valid_uri_no_backslash. unfold wf_iri in Hwf. now apply andb_true_iff in Hwf as [? _].
Qed.

(* an IRI the writer accepts and the reader can take back contains neither CR nor LF *)
Lemma iri_no_nl : forall u, iri_readable u = true -> no_nl u = true.
Proof.
  intros u H. unfold iri_readable in H.
  destruct (span (fun c => negb (c =? 58)) u) as [scheme r1] eqn:E.
  destruct (span_spec _ _ _ _ E) as (Hu & _ & Hhd). subst u.
  apply andb_true_iff in H as [H1 H2]. rewrite no_nl_app. apply andb_true_iff. split; [exact H1|].
  destruct r1 as [|c path]; [reflexivity|].
  apply negb_false_iff, N.eqb_eq in Hhd. subst c. rewrite no_nl_cons. change (negb ((58 =? 10) || (58 =? 13))) with true. cbn [andb].
  unfold no_nl. rewrite forallb_forall in *. intros c Hc. specialize (H2 c Hc). unfold uri_tail_char in H2.
  apply negb_true_iff in H2.
  destruct (N.eqb_spec c 10) as [->|]; [now rewrite (proj1 nl_refused) in H2|].
  destruct (N.eqb_spec c 13) as [->|]; [now rewrite (proj2 nl_refused) in H2|]. reflexivity.
Qed.

(* since fix commit 4d2427e4: whatever the writer accepts, the reader can take back *)
Lemma wf_iri_readable : forall u, wf_iri u = true -> iri_readable u = true.
Proof.
  intros u H. unfold wf_iri in H. apply andb_true_iff in H as [Hv _]. unfold iri_readable.
  destruct (span (fun c => negb (c =? 58)) u) as [scheme r1] eqn:E.
  destruct (span_spec _ _ _ _ E) as (Hu & _ & _). subst u.
  unfold valid_uri in Hv. rewrite forallb_app in Hv. apply andb_true_iff in Hv as [Hs Hr].
  apply andb_true_iff. split.
  - rewrite forallb_forall in *. intros c Hc. specialize (Hs c Hc). apply negb_true_iff in Hs.
    destruct (N.eqb_spec c 10) as [->|]; [now rewrite (proj1 nl_invalid) in Hs|].
    destruct (N.eqb_spec c 13) as [->|]; [now rewrite (proj2 nl_invalid) in Hs|]. reflexivity.
  - destruct r1 as [|c path]; [reflexivity|]. cbn [forallb] in Hr. apply andb_true_iff in Hr as [_ Hp].
    rewrite forallb_forall in *. intros x Hx. specialize (Hp x Hx). unfold uri_tail_char.
    apply negb_true_iff in Hp. destruct (mem x uriref_refused) eqn:R; [|reflexivity].
    apply refused_sub_invalid in R. congruence.
Qed.

(* ------------------------------------------------------------ K1: blank node labels *)
Lemma strip_dots_id : forall l, (l = [] \/ (last l 0 =? 46) = false) -> strip_dots l = (l, []).
Proof.
  induction l as [|c r IH]; intros H; [reflexivity|].
  destruct H as [H|H]; [discriminate|].
  destruct r as [|d r'].
  - simpl in *. now rewrite H.
  - assert (Hr : strip_dots (d :: r') = (d :: r', [])) by (apply IH; right; exact H).
    cbn [strip_dots] in *. rewrite Hr. reflexivity.
Qed.

Lemma name_char_space : name_char 32 = false. Proof. reflexivity. Qed.

Lemma scan_nodeid_ok : forall l rest, wf_label l = true ->
  scan_nodeid (95 :: 58 :: l ++ 32 :: rest) = Some (l, 32 :: rest).
Proof.
  intros l rest H. unfold wf_label in H. destruct l as [|c r]; [discriminate|].
  apply andb_true_iff in H as [H Hlast]. apply andb_true_iff in H as [Hc Hr].
  apply negb_true_iff in Hlast.
  cbn [scan_nodeid app]. rewrite !N.eqb_refl, Hc. cbn [andb].
  rewrite (span_app_stop _ _ 32 rest Hr name_char_space).
  rewrite strip_dots_id.
  - reflexivity.
  - destruct r as [|d r']; [now left|right]. exact Hlast.
Qed.

Lemma name_char_no_nl : forall c, name_char c = true -> negb ((c =? 10) || (c =? 13)) = true.
Proof.
  intros c H. destruct (N.eqb_spec c 10) as [->|]; [discriminate|].
  destruct (N.eqb_spec c 13) as [->|]; [discriminate|]. reflexivity.
Qed.

Lemma label_no_nl : forall l, wf_label l = true -> no_nl l = true.
Proof.
  intros l H. unfold wf_label in H. destruct l as [|c r]; [discriminate|].
  apply andb_true_iff in H as [H _]. apply andb_true_iff in H as [Hc Hr].
  unfold no_nl. cbn [forallb]. apply andb_true_iff. split.
  - apply name_char_no_nl. unfold name_char. now rewrite Hc.
  - rewrite forallb_forall in *. intros x Hx. apply name_char_no_nl. now apply Hr.
Qed.

(* ------------------------------------------------------------ K1: language tags *)
Lemma lang_tail_ext : forall r b t rest, lang_tail b r = (t, []) ->
  t = r /\ lang_tail b (r ++ 32 :: rest) = (r, 32 :: rest).
Proof.
  induction r as [|c r IH]; intros b t rest H.
  - simpl in H. inversion H; subst. split; [reflexivity|].
    cbn [app lang_tail]. replace (is_alnum 32) with false by reflexivity. rewrite andb_false_r.
    reflexivity.
  - cbn [lang_tail] in H. cbn [app lang_tail].
    destruct (b && is_alnum c) eqn:E1.
    + destruct (lang_tail true r) as [t' z] eqn:E2. inversion H; subst.
      destruct (IH true t' rest E2) as [-> ->]. split; reflexivity.
    + destruct r as [|d r'].
      * rewrite andb_false_r in H. inversion H.
      * cbn [app]. destruct ((c =? 45) && is_alnum d) eqn:E3.
        -- destruct (lang_tail true (d :: r')) as [t' z] eqn:E2. inversion H; subst.
           destruct (IH true t' rest E2) as [-> Hx]. cbn [app] in Hx. rewrite Hx. split; reflexivity.
        -- inversion H.
Qed.

Lemma scan_lang_ok : forall l rest, valid_langtag l = true ->
  scan_lang (l ++ 32 :: rest) = Some (l, 32 :: rest).
Proof.
  intros l rest H. unfold valid_langtag, scan_lang in *.
  destruct (span is_alpha l) as [a r] eqn:E. destruct (span_spec _ _ _ _ E) as (Hl & Ha & Hhd).
  destruct a as [|a0 a]; [discriminate|].
  destruct (lang_tail false r) as [t z] eqn:E2. destruct z; [|discriminate].
  destruct (lang_tail_ext r false t rest E2) as [-> Hext].
  destruct r as [|c r'].
  - rewrite app_nil_r in Hl. subst l.
    rewrite (span_app_stop _ _ 32 rest Ha) by reflexivity.
    cbn [lang_tail]. replace (is_alnum 32) with false by reflexivity. cbn. now rewrite app_nil_r.
  - subst l. rewrite <- app_assoc. cbn [app].
    change (a0 :: a ++ c :: r' ++ 32 :: rest) with ((a0 :: a) ++ c :: r' ++ 32 :: rest).
    rewrite (span_app_stop _ _ c (r' ++ 32 :: rest) Ha Hhd).
    change (c :: r' ++ 32 :: rest) with ((c :: r') ++ 32 :: rest). rewrite Hext. reflexivity.
Qed.

Lemma valid_langtag_nonempty : forall l, valid_langtag l = true -> exists c r, l = c :: r.
Proof.
  intros [|c r] H; [discriminate|]. now exists c, r.
Qed.

Lemma alnum_no_nl : forall c, (is_alnum c || (c =? 45)) = true -> negb ((c =? 10) || (c =? 13)) = true.
Proof.
  intros c H. destruct (N.eqb_spec c 10) as [->|]; [discriminate|].
  destruct (N.eqb_spec c 13) as [->|]; [discriminate|]. reflexivity.
Qed.

Lemma lang_tail_chars : forall r b t z, lang_tail b r = (t, z) ->
  forallb (fun c => is_alnum c || (c =? 45)) t = true.
Proof.
  induction r as [|c r IH]; intros b t z H.
  - simpl in H. inversion H. reflexivity.
  - cbn [lang_tail] in H. destruct (b && is_alnum c) eqn:E1.
    + destruct (lang_tail true r) as [t' z'] eqn:E2. inversion H; subst.
      apply andb_true_iff in E1 as [_ E1]. cbn [forallb]. rewrite E1. simpl. eapply IH; eauto.
    + destruct ((c =? 45) && match r with d :: _ => is_alnum d | [] => false end) eqn:E3.
      * destruct (lang_tail true r) as [t' z'] eqn:E2. inversion H; subst.
        apply andb_true_iff in E3 as [E3 _]. cbn [forallb]. rewrite E3, orb_true_r. simpl. eapply IH; eauto.
      * inversion H. reflexivity.
Qed.

Lemma lang_no_nl : forall l, valid_langtag l = true -> no_nl l = true.
Proof.
  intros l H. unfold valid_langtag, scan_lang in H.
  destruct (span is_alpha l) as [a r] eqn:E. destruct (span_spec _ _ _ _ E) as (Hl & Ha & _).
  destruct a as [|a0 a]; [discriminate|].
  destruct (lang_tail false r) as [t z] eqn:E2. destruct z; [|discriminate].
  destruct (lang_tail_ext r false t [] E2) as [-> _].
  pose proof (lang_tail_chars _ _ _ _ E2) as Hr.
  subst l. rewrite no_nl_app. apply andb_true_iff. split; unfold no_nl; rewrite forallb_forall in *.
  - intros c Hc. apply alnum_no_nl. specialize (Ha c Hc). unfold is_alnum. now rewrite Ha.
  - intros c Hc. apply alnum_no_nl. now apply Hr.
Qed.

(* ------------------------------------------------------------ K1: one written triple, read back *)
Definition pystr_node (n : node) : bool := match n with Iri u => valid_str u | Bnode l => valid_str l end.
Definition pystr_triple (t : triple) : bool :=
  let '(s, p, o) := t in
  pystr_node s && valid_str p &&
  match o with
  | ONode n => pystr_node n
  | OLit lex lang dt => valid_str lex && match lang with Some l => valid_str l | None => true end
                        && match dt with Some d => valid_str d | None => true end
  end.

Lemma rd_subject_ok : forall n rest, wf_node n = true -> node_readable n = true -> pystr_node n = true ->
  rd_subject (n3_node n ++ 32 :: rest) = Some (n, 32 :: rest).
Proof.
  intros [u|l] rest Hwf Hrd Hv; simpl in Hwf, Hrd, Hv.
  - cbn [n3_node]. rewrite <- !app_assoc. cbn [app]. unfold rd_subject. rewrite N.eqb_refl.
    now rewrite rd_uriref_ok.
  - cbn [n3_node app]. unfold rd_subject. replace (95 =? 60) with false by reflexivity. rewrite N.eqb_refl.
    now rewrite scan_nodeid_ok.
Qed.

(* the optional @lang / ^^<iri> group of r_literal, as a function of what follows the closing quote *)
Definition lit_info (r1 : str) : option (option str * option str * str) :=
  match r1 with
  | c :: r2 =>
    if c =? 64 then
      match scan_lang r2 with
      | Some (l, r3) => Some (Some l, None, r3)
      | None => Some (None, None, r1)
      end
    else match strip_prefix [94; 94] r1 with
         | Some r2 =>
           match r2 with
           | d :: _ => if d =? 60 then
                         match scan_uriref r2 with
                         | Some (u, r3) => match unquote u with
                                           | Some u' => Some (None, Some u', r3)
                                           | None => None
                                           end
                         | None => Some (None, None, r1)
                         end
                       else Some (None, None, r1)
           | [] => Some (None, None, r1)
           end
         | None => Some (None, None, r1)
         end
  | [] => Some (None, None, r1)
  end.

Lemma rd_literal_unfold : forall q r,
  rd_literal (q :: r) =
  match scan_body r with
  | None => None
  | Some (body, r1) =>
    match lit_info r1, unquote body with
    | Some (lang, dt, rest), Some lex => Some (OLit lex lang dt, rest)
    | _, _ => None
    end
  end.
Proof. reflexivity. Qed.

Lemma lit_info_plain : forall rest, lit_info (32 :: rest) = Some (None, None, 32 :: rest).
Proof. reflexivity. Qed.

Lemma lit_info_lang : forall l rest, valid_langtag l = true ->
  lit_info (64 :: l ++ 32 :: rest) = Some (Some l, None, 32 :: rest).
Proof. intros l rest H. unfold lit_info. rewrite N.eqb_refl, scan_lang_ok by exact H. reflexivity. Qed.

Lemma unquote_iri : forall d, wf_iri d = true -> valid_str d = true -> unquote d = Some d.
Proof.
  intros d Hwf Hv. unfold unquote. rewrite unesc_no_backslash.
  - unfold valid_str in Hv. now rewrite Hv.
  - apply valid_uri_no_backslash. unfold wf_iri in Hwf. now apply andb_true_iff in Hwf as [? _].
Qed.

Lemma lit_info_dt : forall d rest, wf_iri d = true -> iri_readable d = true -> valid_str d = true ->
  lit_info (94 :: 94 :: 60 :: d ++ 62 :: 32 :: rest) = Some (None, Some d, 32 :: rest).
Proof.
  intros d rest Hwf Hrd Hv. unfold lit_info. replace (94 =? 64) with false by reflexivity.
  cbn [strip_prefix]. rewrite !N.eqb_refl. rewrite scan_uriref_ok by assumption.
  now rewrite unquote_iri.
Qed.

Lemma truthy_cons : forall c r, truthy (Some (c :: r)) = Some (c :: r).
Proof. reflexivity. Qed.

Lemma rd_literal_ok : forall lex lang dt rest,
  wf_obj (OLit lex lang dt) = true -> valid_str lex = true ->
  match dt with Some d => iri_readable d = true /\ valid_str d = true | None => True end ->
  rd_literal (quote_literal lex lang dt ++ 32 :: rest) = Some (OLit lex lang dt, 32 :: rest).
Proof.
  intros lex lang dt rest Hwf Hlex Hdt.
  assert (Hu : unquote (flat_map nt_esc1 lex) = Some lex)
    by (rewrite <- nt_encode_body_flat; now apply nt_literal_roundtrip).
  unfold quote_literal, nt_quote_encode. rewrite nt_encode_body_flat.
  destruct lang as [l|]; destruct dt as [d|]; simpl in Hwf; try discriminate.
  - destruct (valid_langtag_nonempty l Hwf) as (c & r & ->). rewrite truthy_cons.
    rewrite <- !app_assoc. cbn [app]. rewrite rd_literal_unfold, scan_body_encode.
    change (64 :: c :: r ++ 32 :: rest) with (64 :: (c :: r) ++ 32 :: rest).
    rewrite lit_info_lang by exact Hwf. now rewrite Hu.
  - destruct Hdt as [Hrd Hv].
    assert (exists c r, d = c :: r) as (c & r & Hd).
    { destruct d as [|c r]; [|now exists c, r]. discriminate. }
    replace (truthy None) with (@None str) by reflexivity.
    rewrite Hd, truthy_cons, <- Hd.
    rewrite <- !app_assoc. cbn [app]. rewrite <- ?app_assoc. cbn [app].
    rewrite rd_literal_unfold, scan_body_encode.
    rewrite lit_info_dt by assumption. now rewrite Hu.
  - cbn [truthy]. rewrite <- !app_assoc. cbn [app].
    rewrite rd_literal_unfold, scan_body_encode, lit_info_plain. now rewrite Hu.
Qed.

Definition obj_readable (o : obj) : bool :=
  match o with ONode n => node_readable n | OLit _ _ (Some d) => iri_readable d | _ => true end.
Definition pystr_obj (o : obj) : bool :=
  match o with
  | ONode n => pystr_node n
  | OLit lex lang dt => valid_str lex && match lang with Some l => valid_str l | None => true end
                        && match dt with Some d => valid_str d | None => true end
  end.

Lemma rd_object_ok : forall o rest, wf_obj o = true -> obj_readable o = true -> pystr_obj o = true ->
  rd_object (obj_text o ++ 32 :: rest) = Some (o, 32 :: rest).
Proof.
  intros [n|lex lang dt] rest Hwf Hrd Hv.
  - destruct n as [u|l]; simpl in Hwf, Hrd, Hv.
    + cbn [obj_text n3_node]. rewrite <- !app_assoc. cbn [app]. unfold rd_object. rewrite N.eqb_refl.
      now rewrite rd_uriref_ok.
    + cbn [obj_text n3_node app]. unfold rd_object. replace (95 =? 60) with false by reflexivity.
      rewrite N.eqb_refl. now rewrite scan_nodeid_ok.
  - cbn [obj_text]. unfold rd_object.
    assert (Hq : exists q, quote_literal lex lang dt ++ 32 :: rest = 34 :: q).
    { unfold quote_literal, nt_quote_encode. rewrite <- !app_assoc. cbn [app]. eauto. }
    destruct Hq as (q & Hq). rewrite Hq. replace (34 =? 60) with false by reflexivity.
    replace (34 =? 95) with false by reflexivity. rewrite N.eqb_refl. rewrite <- Hq.
    simpl in Hv. apply andb_true_iff in Hv as [Hv Hvd]. apply andb_true_iff in Hv as [Hlex _].
    apply rd_literal_ok; [exact Hwf|exact Hlex|].
    destruct dt as [d|]; [|exact I]. split; [|exact Hvd].
    destruct lang; simpl in Hrd; exact Hrd.
Qed.

(* the text of one row without its final LF *)
Definition row_line (t : triple) : str :=
  let '(s, p, o) := t in n3_node s ++ 32 :: 60 :: p ++ 62 :: 32 :: obj_text o ++ [32; 46].

Lemma nt_row_line : forall t, wf_triple t = true -> nt_row t = Some (row_line t ++ [10]).
Proof.
  intros [[s p] o] H. unfold wf_triple in H.
  apply andb_true_iff in H as [H Ho]. apply andb_true_iff in H as [Hs Hp].
  unfold nt_row.
  assert (node_ok s = true) as ->.
  { destruct s; simpl in *; [|reflexivity]. unfold wf_iri in Hs. now apply andb_true_iff in Hs as [? _]. }
  assert (valid_uri p = true) as -> by (unfold wf_iri in Hp; now apply andb_true_iff in Hp as [? _]).
  assert (obj_ok o = true) as ->.
  { destruct o as [[u|l]|lex lang dt]; simpl in *; try reflexivity.
    - unfold wf_iri in Ho. now apply andb_true_iff in Ho as [? _].
    - destruct (truthy lang); [reflexivity|]. destruct dt as [d|]; [|reflexivity].
      destruct lang; [discriminate|]. destruct d; [reflexivity|]. cbn [truthy].
      unfold wf_iri in Ho. now apply andb_true_iff in Ho as [? _]. }
  cbn [andb]. unfold row_line. f_equal. repeat (rewrite <- ?app_assoc; cbn [app]). reflexivity.
Qed.

Lemma n3_node_head : forall n, exists c q, n3_node n = c :: q /\ is_sp c = false /\ (c =? 35) = false.
Proof. intros [u|l]; cbn [n3_node app]; eauto. Qed.

Lemma obj_text_head : forall o, exists c q, obj_text o = c :: q /\ is_sp c = false.
Proof.
  intros [[u|l]|lex lang dt]; cbn [obj_text n3_node app]; eauto.
  unfold quote_literal, nt_quote_encode. cbn [app]. eauto.
Qed.

Theorem parseline_row : forall t,
  wf_triple t = true -> triple_readable t = true -> pystr_triple t = true ->
  parseline (row_line t) = Got t.
Proof.
  intros [[s p] o] Hwf Hrd Hv.
  unfold wf_triple in Hwf. apply andb_true_iff in Hwf as [Hwf Hwo]. apply andb_true_iff in Hwf as [Hws Hwp].
  unfold triple_readable in Hrd. apply andb_true_iff in Hrd as [Hrd Hro]. apply andb_true_iff in Hrd as [Hrs Hrp].
  unfold pystr_triple in Hv. apply andb_true_iff in Hv as [Hv Hvo]. apply andb_true_iff in Hv as [Hvs Hvp].
  unfold row_line, parseline.
  destruct (n3_node_head s) as (c & q & Hq & Hsp & Hhash).
  rewrite Hq. cbn [app]. rewrite (drop_while_stop _ c _ Hsp), Hhash.
  change (c :: q ++ 32 :: 60 :: p ++ 62 :: 32 :: obj_text o ++ [32; 46])
    with ((c :: q) ++ 32 :: 60 :: p ++ 62 :: 32 :: obj_text o ++ [32; 46]).
  rewrite <- Hq. rewrite rd_subject_ok by assumption.
  unfold eat_wspace. cbn [drop_while]. replace (is_sp 32) with true by reflexivity.
  replace (is_sp 60) with false by reflexivity. rewrite N.eqb_refl.
  rewrite rd_uriref_ok by assumption.
  destruct (obj_text_head o) as (c' & q' & Hq' & Hsp').
  rewrite Hq'. cbn [app drop_while]. replace (is_sp 32) with true by reflexivity. rewrite Hsp'.
  change (c' :: q' ++ [32; 46]) with ((c' :: q') ++ 32 :: [46]). rewrite <- Hq'.
  rewrite rd_object_ok.
  - reflexivity.
  - exact Hwo.
  - destruct o as [n|lex lang dt]; [exact Hro|]. destruct dt; [|reflexivity]. destruct lang; exact Hro.
  - exact Hvo.
Qed.

(* ------------------------------------------------------------ K1: lines and documents *)
Lemma split_lines_line : forall a cur r, no_nl a = true ->
  split_lines cur (a ++ 10 :: r) = (rev cur ++ a) :: split_lines [] r.
Proof.
  induction a as [|c a IH]; intros cur r H.
  - cbn [app split_lines]. rewrite N.eqb_refl, app_nil_r. reflexivity.
  - simpl in H. apply andb_true_iff in H as [Hc Ha]. apply negb_true_iff, orb_false_iff in Hc as [H10 H13].
    cbn [app split_lines]. rewrite H10, H13, IH by exact Ha. cbn [rev]. now rewrite <- app_assoc.
Qed.

Lemma node_no_nl : forall n, wf_node n = true -> node_readable n = true -> no_nl (n3_node n) = true.
Proof.
  intros [u|l] Hwf Hrd; simpl in Hwf, Hrd; cbn [n3_node].
  - rewrite no_nl_app, no_nl_app, (iri_no_nl u Hrd). reflexivity.
  - rewrite no_nl_app, (label_no_nl l Hwf). reflexivity.
Qed.

Lemma obj_no_nl : forall o, wf_obj o = true -> obj_readable o = true -> no_nl (obj_text o) = true.
Proof.
  intros [n|lex lang dt] Hwf Hrd.
  - now apply node_no_nl.
  - cbn [obj_text]. unfold quote_literal, nt_quote_encode. rewrite nt_encode_body_flat.
    rewrite !no_nl_app, no_nl_encode. cbn [no_nl forallb andb].
    destruct lang as [l|]; destruct dt as [d|]; simpl in Hwf; try discriminate.
    + destruct (valid_langtag_nonempty l Hwf) as (c & r & ->). rewrite truthy_cons.
      apply (lang_no_nl _ Hwf).
    + assert (exists c r, d = c :: r) as (c & r & Hd).
      { destruct d as [|c r]; [|now exists c, r]. discriminate. }
      replace (truthy None) with (@None str) by reflexivity. rewrite Hd, truthy_cons, <- Hd.
      simpl in Hrd. rewrite !no_nl_app, (iri_no_nl d Hrd). reflexivity.
    + reflexivity.
Qed.

Lemma row_line_no_nl : forall t, wf_triple t = true -> triple_readable t = true -> no_nl (row_line t) = true.
Proof.
  intros [[s p] o] Hwf Hrd.
  unfold wf_triple in Hwf. apply andb_true_iff in Hwf as [Hwf Hwo]. apply andb_true_iff in Hwf as [Hws Hwp].
  unfold triple_readable in Hrd. apply andb_true_iff in Hrd as [Hrd Hro]. apply andb_true_iff in Hrd as [Hrs Hrp].
  unfold row_line. rewrite no_nl_app, (node_no_nl s Hws Hrs).
  rewrite !no_nl_cons, no_nl_app, (iri_no_nl p Hrp).
  rewrite !no_nl_cons, no_nl_app. rewrite obj_no_nl; [reflexivity|exact Hwo|].
  destruct o as [n|lex lang dt]; [exact Hro|]. destruct dt; [|reflexivity]. destruct lang; exact Hro.
Qed.

Definition good_triple (t : triple) : bool := wf_triple t && triple_readable t && pystr_triple t.

Theorem nt_roundtrip_row : forall t, good_triple t = true ->
  exists s, nt_row t = Some s /\ parse_doc s = Some [t].
Proof.
  intros t H. unfold good_triple in H. apply andb_true_iff in H as [H Hv]. apply andb_true_iff in H as [Hwf Hrd].
  exists (row_line t ++ [10]). split; [now apply nt_row_line|].
  unfold parse_doc. rewrite split_lines_line by (now apply row_line_no_nl).
  cbn [rev app split_lines parse_lines]. rewrite parseline_row by assumption. reflexivity.
Qed.

Theorem nt_roundtrip_doc : forall ts, forallb good_triple ts = true ->
  exists s, nt_doc ts = Some s /\ parse_doc s = Some ts.
Proof.
  induction ts as [|t ts IH]; intros H.
  - exists []. split; reflexivity.
  - simpl in H. apply andb_true_iff in H as [Ht Hts]. destruct (IH Hts) as (s & Hs & Hp).
    unfold good_triple in Ht. apply andb_true_iff in Ht as [Ht Hv]. apply andb_true_iff in Ht as [Hwf Hrd].
    exists ((row_line t ++ [10]) ++ s). split.
    + cbn [nt_doc]. rewrite nt_row_line, Hs by exact Hwf. reflexivity.
    + unfold parse_doc in *. rewrite <- app_assoc. cbn [app].
      rewrite split_lines_line by (now apply row_line_no_nl).
      cbn [rev app parse_lines]. rewrite parseline_row by assumption. now rewrite Hp.
Qed.

(* ------------------------------------------------------------ K1: the buffered reader (readline as written) *)
Lemma find_line_hit : forall line t, no_nl line = true -> find_line (line ++ 10 :: t) = Some (line, t).
Proof.
  induction line as [|c l IH]; intros t H; [reflexivity|].
  rewrite no_nl_cons in H. apply andb_true_iff in H as [Hc Hl]. apply negb_true_iff, orb_false_iff in Hc as [H10 H13].
  cbn [app find_line]. rewrite H10, H13, (IH t Hl). reflexivity.
Qed.

Lemma find_line_none : forall b, no_nl b = true -> find_line b = None.
Proof.
  induction b as [|c l IH]; intros H; [reflexivity|].
  rewrite no_nl_cons in H. apply andb_true_iff in H as [Hc Hl]. apply negb_true_iff, orb_false_iff in Hc as [H10 H13].
  cbn [find_line]. rewrite H10, H13, (IH Hl). reflexivity.
Qed.

(* where a buffer/file cut can fall relative to the first line of the remaining text *)
Lemma cut_cases : forall buf file line rest,
  buf ++ file = line ++ 10 :: rest ->
  (exists t, buf = line ++ 10 :: t /\ t ++ file = rest) \/
  (exists m, line = buf ++ m /\ file = m ++ 10 :: rest).
Proof.
  induction buf as [|c b IH]; intros file line rest H.
  - right. exists line. split; [reflexivity|exact H].
  - destruct line as [|x l].
    + cbn [app] in H. inversion H; subst. left. exists b. split; reflexivity.
    + cbn [app] in H. inversion H; subst. destruct (IH file l rest H2) as [(t & -> & Ht)|(m & -> & Hf)].
      * left. exists t. split; [reflexivity|exact Ht].
      * right. exists m. split; [reflexivity|exact Hf].
Qed.

Lemma readline_line : forall n, (1 <= n)%nat -> forall fuel buf file line rest,
  buf ++ file = line ++ 10 :: rest -> no_nl line = true -> (length file <= fuel)%nat ->
  exists b f, readline n fuel buf file = RlLine line b f /\ b ++ f = rest.
Proof.
  intros n Hn. induction fuel as [|k IH]; intros buf file line rest Heq Hnl Hfuel.
  - destruct (cut_cases _ _ _ _ Heq) as [(t & -> & Ht)|(m & -> & Hf)].
    + exists t, file. cbn [readline]. rewrite find_line_hit by exact Hnl. split; [reflexivity|exact Ht].
    + subst file. rewrite app_length in Hfuel. cbn [length] in Hfuel. exfalso. lia.
  - destruct (cut_cases _ _ _ _ Heq) as [(t & -> & Ht)|(m & -> & Hf)].
    + exists t, file. cbn [readline]. rewrite find_line_hit by exact Hnl. split; [reflexivity|exact Ht].
    + rewrite no_nl_app in Hnl. apply andb_true_iff in Hnl as [Hb Hm].
      cbn [readline]. rewrite (find_line_none buf Hb).
      assert (Hne : exists c q, firstn n file = c :: q).
      { subst file. destruct n as [|n']; [lia|]. destruct m as [|c m']; cbn [app firstn]; eauto. }
      destruct Hne as (c & q & Hch). rewrite Hch.
      apply IH.
      * rewrite <- Hch, <- app_assoc, firstn_skipn. exact Heq.
      * rewrite no_nl_app. now rewrite Hb, Hm.
      * rewrite skipn_length. assert (1 <= length file)%nat.
        { subst file. rewrite app_length. cbn [length]. lia. }
        lia.
Qed.

Definition doc_text (ts : list triple) : str := flat_map (fun t => row_line t ++ [10]) ts.

Lemma nt_doc_text : forall ts, forallb good_triple ts = true -> nt_doc ts = Some (doc_text ts).
Proof.
  induction ts as [|t ts IH]; intros H; [reflexivity|].
  simpl in H. apply andb_true_iff in H as [Ht Hts].
  unfold good_triple in Ht. apply andb_true_iff in Ht as [Ht _]. apply andb_true_iff in Ht as [Hwf _].
  cbn [nt_doc doc_text flat_map]. rewrite (nt_row_line t Hwf), (IH Hts). reflexivity.
Qed.

Lemma read_all_doc : forall n, (1 <= n)%nat -> forall ts, forallb good_triple ts = true ->
  forall fuel buf file, buf ++ file = doc_text ts -> (length ts < fuel)%nat ->
  read_all n fuel buf file = Some (map row_line ts).
Proof.
  intros n Hn. induction ts as [|t ts IH]; intros Hg fuel buf file Heq Hfuel.
  - destruct fuel as [|k]; [lia|]. cbn [doc_text flat_map] in Heq.
    apply app_eq_nil in Heq as [-> ->]. cbn [read_all length readline find_line]. rewrite firstn_nil. reflexivity.
  - destruct fuel as [|k]; [cbn [length] in Hfuel; lia|].
    simpl in Hg. apply andb_true_iff in Hg as [Ht Hts].
    assert (Hnl : no_nl (row_line t) = true).
    { unfold good_triple in Ht. apply andb_true_iff in Ht as [Ht _]. apply andb_true_iff in Ht as [Hwf Hrd].
      now apply row_line_no_nl. }
    cbn [doc_text flat_map] in Heq. rewrite <- app_assoc in Heq. cbn [app] in Heq.
    destruct (readline_line n Hn (S (S (length file))) buf file (row_line t) (doc_text ts) Heq Hnl) as (b & f & Hr & Hbf);
      [lia|].
    cbn [read_all]. rewrite Hr. rewrite (IH Hts k b f Hbf) by (cbn [length] in Hfuel; lia). reflexivity.
Qed.

Lemma parse_lines_rows : forall ts, forallb good_triple ts = true -> parse_lines (map row_line ts) = Some ts.
Proof.
  induction ts as [|t ts IH]; intros H; [reflexivity|].
  simpl in H. apply andb_true_iff in H as [Ht Hts].
  unfold good_triple in Ht. apply andb_true_iff in Ht as [Ht Hv]. apply andb_true_iff in Ht as [Hwf Hrd].
  cbn [map parse_lines]. rewrite parseline_row by assumption. now rewrite (IH Hts).
Qed.

(* documents of any length, any chunk size >= 1 (the code uses 2048) *)
Theorem nt_roundtrip_doc_buffered : forall n, (1 <= n)%nat -> forall ts, forallb good_triple ts = true ->
  exists s, nt_doc ts = Some s /\ parse_doc_buf n s = Some ts.
Proof.
  intros n Hn ts H. exists (doc_text ts). split; [now apply nt_doc_text|].
  unfold parse_doc_buf. rewrite (read_all_doc n Hn ts H _ [] (doc_text ts) eq_refl).
  - now apply parse_lines_rows.
  - assert (length ts <= length (doc_text ts))%nat; [|lia].
    clear H. induction ts as [|t ts IH]; [cbn; lia|]. cbn [doc_text flat_map length].
    rewrite !app_length. cbn [length]. fold (doc_text ts). lia.
Qed.

Theorem nt_roundtrip_row_buffered : forall n, (1 <= n)%nat -> forall t, good_triple t = true ->
  exists s, nt_row t = Some s /\ parse_doc_buf n s = Some [t].
Proof.
  intros n Hn t H. destruct (nt_roundtrip_doc_buffered n Hn [t]) as (s & Hs & Hp); [simpl; now rewrite H|].
  cbn [nt_doc] in Hs. destruct (nt_row t) as [a|]; [|discriminate]. inversion Hs; subst.
  exists a. split; [reflexivity|]. now rewrite app_nil_r in Hp.
Qed.

(* the fuel of the buffered reader is an artefact of the definition: it never runs out *)
Lemma find_line_none_no_nl : forall b, find_line b = None -> no_nl b = true.
Proof.
  induction b as [|c l IH]; intros H; [reflexivity|].
  cbn [find_line] in H. rewrite no_nl_cons.
  destruct (c =? 10) eqn:H10; [discriminate|]. destruct (c =? 13) eqn:H13.
  - destruct l as [|d l']; [discriminate|]. destruct (d =? 10); discriminate.
  - destruct (find_line l) as [[a t]|] eqn:E; [discriminate|]. now rewrite IH.
Qed.

Lemma find_line_shorter : forall b l t, find_line b = Some (l, t) -> (length t + 1 <= length b)%nat.
Proof.
  induction b as [|c r IH]; intros l t H; [discriminate|].
  cbn [find_line] in H. cbn [length].
  destruct (c =? 10); [inversion H; subst; lia|].
  destruct (c =? 13).
  - destruct r as [|d r']; [inversion H; subst; cbn; lia|].
    destruct (d =? 10); inversion H; subst; cbn [length]; lia.
  - destruct (find_line r) as [[a t']|] eqn:E; [|discriminate]. inversion H; subst.
    specialize (IH a t eq_refl). lia.
Qed.

Lemma readline_total : forall n, (1 <= n)%nat -> forall fuel buf file, (length file + 1 <= fuel)%nat ->
  match readline n fuel buf file with
  | RlFuel => False
  | RlEof => True
  | RlLine l b f => (length b + length f + 1 <= length buf + length file)%nat
  end.
Proof.
  intros n Hn. induction fuel as [|k IH]; intros buf file Hf; [lia|].
  cbn [readline]. destruct (find_line buf) as [[l t]|] eqn:E.
  - apply find_line_shorter in E. lia.
  - destruct (firstn n file) as [|c q] eqn:Hch.
    + destruct buf as [|b0 buf']; [exact I|]. destruct (forallb is_space (b0 :: buf')); [exact I|].
      assert (Hfile : file = []).
      { destruct file as [|x file']; [reflexivity|]. destruct n; [lia|]. discriminate. }
      subst file. pose proof (find_line_none_no_nl _ E) as Hnl.
      destruct k as [|k']; cbn [readline]; rewrite (find_line_hit _ [] Hnl); cbn [length]; lia.
    + assert (Hlen : (1 <= length file)%nat) by (destruct file; [destruct n; discriminate|cbn; lia]).
      specialize (IH (buf ++ c :: q) (skipn n file)).
      rewrite skipn_length in IH.
      assert (Hk : (length file - n + 1 <= k)%nat) by lia. specialize (IH Hk).
      destruct (readline n k (buf ++ c :: q) (skipn n file)) as [| |l b f]; [exact IH|exact I|].
      rewrite app_length, <- Hch, firstn_length in IH. lia.
Qed.

Lemma read_all_total : forall n, (1 <= n)%nat -> forall fuel buf file,
  (length buf + length file + 1 <= fuel)%nat -> read_all n fuel buf file <> None.
Proof.
  intros n Hn. induction fuel as [|k IH]; intros buf file Hf; [lia|].
  cbn [read_all]. pose proof (readline_total n Hn (S (S (length file))) buf file) as Hr.
  destruct (readline n (S (S (length file))) buf file) as [| |l b f].
  - exfalso. apply Hr. lia.
  - discriminate.
  - assert (Hle : (length b + length f + 1 <= k)%nat) by (specialize (Hr ltac:(lia)); lia).
    specialize (IH b f Hle). destruct (read_all n k b f); [discriminate|contradiction].
Qed.

Theorem parse_doc_buf_fuel : forall n s, (1 <= n)%nat -> read_all n (S (S (length s))) [] s <> None.
Proof. intros n s Hn. apply read_all_total; [exact Hn|cbn [length]; lia]. Qed.

(* ------------------------------------------------------------ K1: the suite's checker *)
Lemma list_triple_eqb_refl : forall l, list_eqb triple_eqb l l = true.
Proof.
  assert (Hn : forall n, node_eqb n n = true) by (intros [u|l]; simpl; apply str_eqb_refl).
  assert (Ho : forall o, obj_eqb o o = true).
  { intros [n|lex lang dt]; simpl; [apply Hn|]. rewrite str_eqb_refl.
    destruct lang, dt; simpl; rewrite ?str_eqb_refl; reflexivity. }
  induction l as [|[[s p] o] l IH]; [reflexivity|]. simpl. now rewrite Hn, str_eqb_refl, Ho, IH.
Qed.

Definition nt_wf (c : nt_case) : bool :=
  match c with NtTriple t => pystr_triple t | _ => true end.

Theorem nt_spec_model : forall c, nt_wf c = true -> nt_kf c = 0 -> nt_spec c (nt_model c) = true.
Proof.
  intros [t|s|s] Hv Hk; try reflexivity.
  simpl in Hv. unfold nt_kf in Hk. unfold nt_spec, nt_model.
  destruct (wf_triple t) eqn:Hwf.
  - destruct (triple_readable t) eqn:Hrd; [|discriminate].
    destruct (nt_roundtrip_row_buffered bufsiz) with (t := t) as (s & Hs & Hp).
    { unfold bufsiz. lia. }
    { unfold good_triple. now rewrite Hwf, Hrd, Hv. }
    rewrite Hs, Hp. apply (list_triple_eqb_refl [t]).
  - destruct (nt_row t); reflexivity.
Qed.

(* ================================================================== K2 *)
Definition ttl_short_body (s : str) : str :=
  replace1 13 [92; 114] (replace1 34 [92; 34] (replace1 92 [92; 92] (replace1 10 [92; 110] s))).
Definition ttl_esc_short (x : N) : str :=
  if x =? 10 then [92; 92; 110] else if x =? 92 then [92; 92] else
  if x =? 34 then [92; 34] else if x =? 13 then [92; 114] else [x].

Lemma ttl_short_body_app : forall a b, ttl_short_body (a ++ b) = ttl_short_body a ++ ttl_short_body b.
Proof. intros. unfold ttl_short_body. now rewrite !replace1_app. Qed.

Lemma ttl_short_body_single : forall x, ttl_short_body [x] = ttl_esc_short x.
Proof.
  intros x. unfold ttl_esc_short.
  destruct (N.eqb_spec x 10) as [->|N10]; [reflexivity|].
  destruct (N.eqb_spec x 92) as [->|N92]; [reflexivity|].
  destruct (N.eqb_spec x 34) as [->|N34]; [reflexivity|].
  destruct (N.eqb_spec x 13) as [->|N13]; [reflexivity|].
  apply N.eqb_neq in N92, N10, N34, N13.
  unfold ttl_short_body, replace1. simpl. rewrite N10. simpl. rewrite N92. simpl. rewrite N34. simpl.
  rewrite N13. reflexivity.
Qed.

Lemma ttl_short_body_flat : forall s, ttl_short_body s = flat_map ttl_esc_short s.
Proof.
  induction s as [|x s IH]; [reflexivity|].
  change (x :: s) with ([x] ++ s). rewrite ttl_short_body_app, ttl_short_body_single, IH. reflexivity.
Qed.

Lemma strconst_esc : forall tr d x r, lookup d n3_escapes = Some x ->
  strconst tr (92 :: d :: r) = match strconst tr r with Some (v, t) => Some (x :: v, t) | None => None end.
Proof. intros tr d x r H. cbn [strconst]. replace (92 =? 34) with false by reflexivity.
  replace ((92 =? 10) || (92 =? 13)) with false by reflexivity. rewrite N.eqb_refl, H. reflexivity. Qed.

Lemma strconst_plain : forall tr c r,
  (c =? 34) = false -> (c =? 10) = false -> (c =? 13) = false -> (c =? 92) = false ->
  strconst tr (c :: r) = match strconst tr r with Some (v, t) => Some (c :: v, t) | None => None end.
Proof. intros tr c r H1 H2 H3 H4. cbn [strconst]. rewrite H1, H2, H3, H4. reflexivity. Qed.

Lemma strconst_nl_triple : forall r,
  strconst true (10 :: r) = match strconst true r with Some (v, t) => Some (10 :: v, t) | None => None end.
Proof. reflexivity. Qed.

(* one-quote form: every string without a line feed *)
Lemma strconst_short : forall s rest, mem 10 s = false ->
  strconst false (flat_map ttl_esc_short s ++ 34 :: rest) = Some (s, rest).
Proof.
  induction s as [|x s IH]; intros rest H; [reflexivity|].
  unfold mem in H. cbn [existsb] in H. apply orb_false_iff in H as [Hx Hs]. rewrite N.eqb_sym in Hx.
  cbn [flat_map]. unfold ttl_esc_short at 1. rewrite Hx.
  destruct (N.eqb_spec x 92) as [->|N92];
    [cbn [app]; rewrite (strconst_esc false 92 92) by reflexivity; now rewrite IH|].
  destruct (N.eqb_spec x 34) as [->|N34];
    [cbn [app]; rewrite (strconst_esc false 34 34) by reflexivity; now rewrite IH|].
  destruct (N.eqb_spec x 13) as [->|N13];
    [cbn [app]; rewrite (strconst_esc false 114 13) by reflexivity; now rewrite IH|].
  apply N.eqb_neq in N92, N34, N13. cbn [app]. rewrite strconst_plain by assumption. now rewrite IH.
Qed.

Lemma esc_short_head : forall x s, exists c q, flat_map ttl_esc_short (x :: s) = c :: q /\ (c =? 34) = false.
Proof.
  intros x s. cbn [flat_map]. unfold ttl_esc_short.
  destruct (N.eqb_spec x 10); [cbn [app]; eauto|].
  destruct (N.eqb_spec x 92); [cbn [app]; eauto|].
  destruct (N.eqb_spec x 34); [cbn [app]; eauto|].
  destruct (N.eqb_spec x 13); [cbn [app]; eauto|].
  cbn [app]. exists x, (flat_map ttl_esc_short s). split; [reflexivity|]. now apply N.eqb_neq.
Qed.

Theorem ttl_short_roundtrip : forall s, mem 10 s = false -> ttl_read (ttl_quote_encode s) = Some s.
Proof.
  intros s H. unfold ttl_quote_encode. rewrite H.
  change (replace1 13 [92; 114] (replace1 34 [92; 34] (replace1 92 [92; 92] (replace1 10 [92; 110] s))))
    with (ttl_short_body s).
  rewrite ttl_short_body_flat. unfold ttl_read.
  assert (Hp : strip_prefix [34; 34; 34] ([34] ++ flat_map ttl_esc_short s ++ [34]) = None).
  { destruct s as [|x s]; [reflexivity|].
    destruct (esc_short_head x s) as (c & q & -> & Hc). cbn [app strip_prefix]. rewrite N.eqb_refl.
    rewrite N.eqb_sym in Hc. now rewrite Hc. }
  rewrite Hp. cbn [app strip_prefix]. rewrite N.eqb_refl.
  now rewrite strconst_short.
Qed.

Theorem rt_spec_model : forall c, rt_kf c = 0 -> rt_spec c (rt_model c) = true.
Proof. intros c H. unfold rt_kf in H. subst c. reflexivity. Qed.

(* ------------------------------------------------------------ readings of the boolean checkers *)
Lemma opt_str_eqb_eq : forall a b : option str, opt_eqb str_eqb a b = true <-> a = b.
Proof.
  intros [a|] [b|]; simpl; split; intro H; try discriminate; try reflexivity.
  - apply str_eqb_eq in H. now subst.
  - inversion H. apply str_eqb_refl.
Qed.

Lemma node_eqb_eq : forall a b, node_eqb a b = true <-> a = b.
Proof.
  intros [a|a] [b|b]; simpl; split; intro H; try discriminate; try (apply str_eqb_eq in H; now subst);
    inversion H; apply str_eqb_refl.
Qed.

Lemma obj_eqb_eq : forall a b, obj_eqb a b = true <-> a = b.
Proof.
  intros [a|l g d] [b|l' g' d']; simpl; split; intro H; try discriminate.
  - apply node_eqb_eq in H. now subst.
  - inversion H. now apply node_eqb_eq.
  - apply andb_true_iff in H as [H H3]. apply andb_true_iff in H as [H1 H2].
    apply str_eqb_eq in H1. apply opt_str_eqb_eq in H2. apply opt_str_eqb_eq in H3. now subst.
  - inversion H; subst. rewrite str_eqb_refl. simpl.
    rewrite (proj2 (opt_str_eqb_eq g' g') eq_refl), (proj2 (opt_str_eqb_eq d' d') eq_refl). reflexivity.
Qed.

Lemma triple_eqb_eq : forall a b, triple_eqb a b = true <-> a = b.
Proof.
  intros [[s p] o] [[s' p'] o']. simpl. split; intro H.
  - apply andb_true_iff in H as [H H3]. apply andb_true_iff in H as [H1 H2].
    apply node_eqb_eq in H1. apply str_eqb_eq in H2. apply obj_eqb_eq in H3. now subst.
  - inversion H; subst. rewrite (proj2 (node_eqb_eq s' s') eq_refl), str_eqb_refl, (proj2 (obj_eqb_eq o' o') eq_refl).
    reflexivity.
Qed.

Lemma triples_eqb_eq : forall a b, list_eqb triple_eqb a b = true <-> a = b.
Proof.
  induction a as [|x a IH]; destruct b as [|y b]; simpl; split; intro H; try discriminate; try reflexivity.
  - apply andb_true_iff in H as [H1 H2]. apply triple_eqb_eq in H1. apply IH in H2. now subst.
  - inversion H; subst. rewrite (proj2 (triple_eqb_eq y y) eq_refl). now apply IH.
Qed.

(* what nt_spec says about an observed (text, triples read back) for a triple the writer accepts *)
Theorem nt_spec_reading : forall t text back,
  nt_spec (NtTriple t) (ObsTriple text back) = true <->
  (wf_triple t = true -> (exists s, text = Some s) /\ back = Some [t]).
Proof.
  intros t text back. unfold nt_spec. destruct (wf_triple t); split; intro H.
  - intros _. destruct text as [s|]; [|discriminate]. split; [eauto|].
    destruct back as [b|]; simpl in H; [|discriminate]. apply triples_eqb_eq in H. now subst.
  - destruct (H eq_refl) as [[s ->] ->]. simpl. apply (proj2 (triples_eqb_eq [t] [t]) eq_refl).
  - intros; discriminate.
  - reflexivity.
Qed.

Theorem ttl_spec_reading : forall s text back,
  ttl_spec (TtlString s) (ObsString text back) = true <-> back = Some s.
Proof. intros. unfold ttl_spec. apply opt_str_eqb_eq. Qed.

(* ------------------------------------------------------------ witnesses *)
(* ------------------------------------------------------------ F15b is repaired: the full statements *)
Lemma wf_triple_readable : forall t, wf_triple t = true -> triple_readable t = true.
Proof.
  intros [[s p] o] H. unfold wf_triple in H. apply andb_true_iff in H as [H Ho]. apply andb_true_iff in H as [Hs Hp].
  unfold triple_readable. rewrite (wf_iri_readable p Hp), andb_true_r.
  apply andb_true_iff. split.
  - destruct s as [u|l]; [exact (wf_iri_readable u Hs)|reflexivity].
  - destruct o as [[u|l]|lex lang dt]; simpl in Ho; try reflexivity; [exact (wf_iri_readable u Ho)|].
    destruct lang, dt; try reflexivity; try discriminate. exact (wf_iri_readable _ Ho).
Qed.

Lemma nt_kf_zero : forall c, nt_kf c = 0.
Proof.
  intros [t|s|s]; try reflexivity. unfold nt_kf. destruct (wf_triple t) eqn:E; [|reflexivity].
  now rewrite (wf_triple_readable t E).
Qed.

Definition full_triple (t : triple) : bool := wf_triple t && pystr_triple t.
Lemma full_good : forall t, full_triple t = true -> good_triple t = true.
Proof.
  intros t H. unfold full_triple in H. apply andb_true_iff in H as [H1 H2]. unfold good_triple.
  now rewrite H1, H2, (wf_triple_readable t H1).
Qed.
Lemma full_good_list : forall ts, forallb full_triple ts = true -> forallb good_triple ts = true.
Proof.
  induction ts as [|t ts IH]; intros H; [reflexivity|]. simpl in *. apply andb_true_iff in H as [H1 H2].
  now rewrite (full_good t H1), (IH H2).
Qed.

Theorem nt_roundtrip_full : forall n, (1 <= n)%nat -> forall t, wf_triple t = true -> pystr_triple t = true ->
  exists s, nt_row t = Some s /\ parse_doc s = Some [t] /\ parse_doc_buf n s = Some [t].
Proof.
  intros n Hn t H1 H2. assert (Hg : good_triple t = true) by (apply full_good; unfold full_triple; now rewrite H1, H2).
  destruct (nt_roundtrip_row t Hg) as (s & Hs & Hp). destruct (nt_roundtrip_row_buffered n Hn t Hg) as (s' & Hs' & Hp').
  exists s. rewrite Hs in Hs'. inversion Hs'; subst. auto.
Qed.

Theorem nt_roundtrip_doc_full : forall n, (1 <= n)%nat -> forall ts, forallb full_triple ts = true ->
  exists s, nt_doc ts = Some s /\ parse_doc s = Some ts /\ parse_doc_buf n s = Some ts.
Proof.
  intros n Hn ts H. pose proof (full_good_list ts H) as Hg.
  destruct (nt_roundtrip_doc ts Hg) as (s & Hs & Hp). destruct (nt_roundtrip_doc_buffered n Hn ts Hg) as (s' & Hs' & Hp').
  exists s. rewrite Hs in Hs'. inversion Hs'; subst. auto.
Qed.

Theorem nt_spec_model_full : forall c, nt_wf c = true -> nt_spec c (nt_model c) = true.
Proof. intros c H. apply nt_spec_model; [exact H|apply nt_kf_zero]. Qed.

(* ------------------------------------------------------------ witnesses *)
(* <http://e/a U+00A0 b> : the witness of finding F15b, read back since fix commit 4d2427e4 *)
Definition w_nbsp_iri : str := [104; 116; 116; 112; 58; 47; 47; 101; 47; 97; 160; 98].
Definition w_nbsp_triple : triple := (Iri w_nbsp_iri, [104; 58; 112], ONode (Iri [104; 58; 111])).

Lemma nbsp_iri_roundtrips :
  wf_triple w_nbsp_triple = true /\
  exists s, nt_row w_nbsp_triple = Some s /\ parse_doc_buf bufsiz s = Some [w_nbsp_triple].
Proof.
  split; [reflexivity|].
  destruct (nt_roundtrip_full bufsiz) with (t := w_nbsp_triple) as (s & Hs & _ & Hb);
    [unfold bufsiz; lia|reflexivity|reflexivity|].
  now exists s.
Qed.

(* the historical reader class [^\s DQ LT GT] refused a character that the writer lets through: with it the
   inclusion refused_sub_invalid fails, e.g. for U+00A0 (a str.isspace character) *)
Lemma historical_class_refuted : exists c, is_space c = true /\ mem c invalid_uri = false /\ mem c uriref_refused = false.
Proof. exists 160. repeat split. Qed.

(* the reflected single-character tables agree with the modelled writers *)
Lemma nt_quote_table_agrees :
  forallb (fun p => str_eqb (nt_encode_body [fst p]) (snd p)) nt_quote_table = true.
Proof. vm_compute. reflexivity. Qed.
Lemma n3_short_quote_table_agrees :
  forallb (fun p => str_eqb (ttl_short_body [fst p]) (snd p)) n3_short_quote_table = true.
Proof. vm_compute. reflexivity. Qed.
