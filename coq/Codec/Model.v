(* C03, text level.  Executable models of
     K1  rdflib/plugins/serializers/nt.py  (_quote_encode, _quoteLiteral, _nt_row)
         rdflib/plugins/parsers/ntriples.py (readline, parseline, uriref, nodeid, literal, the
         regexes r_uriref r_nodeid r_literal r_tail r_wspace(s)) and rdflib/compat.py
         (decodeUnicodeEscape = unquote when validate is False)
     K2  rdflib/term.py Literal._quote_encode (both branches) and
         rdflib/plugins/parsers/notation3.py SinkParser.strconst / _unicodeEscape
   over strings = lists of code points.  Character classes that Python decides
   (the IRI character class of the reader, str.isspace, _invalid_uri_chars, _string_escape_map) are taken from the reflected
   tables in Gen/Tables_codec.v.  No proofs in this file. *)
From Coq Require Export List NArith Bool.
From RV Require Export Gen.Tables_codec.
Export ListNotations.
Open Scope N_scope.

Definition str := list N.

Definition mem (c : N) (l : list N) : bool := existsb (N.eqb c) l.
Definition between (a b c : N) : bool := (a <=? c) && (c <=? b).
Definition is_alpha (c : N) : bool := between 65 90 c || between 97 122 c.
Definition is_digit (c : N) : bool := between 48 57 c.
Definition is_alnum (c : N) : bool := is_alpha c || is_digit c.
Definition is_hex (c : N) : bool := is_digit c || between 65 70 c || between 97 102 c.
Definition is_sp (c : N) : bool := (c =? 32) || (c =? 9).          (* [ \t] *)
Definition is_space (c : N) : bool := mem c py_isspace.             (* str.isspace *)

Fixpoint str_eqb (a b : str) : bool :=
  match a, b with
  | [], [] => true
  | x :: a', y :: b' => (x =? y) && str_eqb a' b'
  | _, _ => false
  end.

Fixpoint span (p : N -> bool) (s : str) : str * str :=
  match s with
  | [] => ([], [])
  | c :: r => if p c then let '(a, b) := span p r in (c :: a, b) else ([], s)
  end.

Fixpoint drop_while (p : N -> bool) (s : str) : str :=
  match s with
  | [] => []
  | c :: r => if p c then drop_while p r else s
  end.

(* s.startswith(p) -> remainder *)
Fixpoint strip_prefix (p s : str) : option str :=
  match p, s with
  | [], _ => Some s
  | x :: p', y :: s' => if x =? y then strip_prefix p' s' else None
  | _ :: _, [] => None
  end.

Definition hexval (c : N) : N :=
  if is_digit c then c - 48 else if between 65 70 c then c - 55 else c - 87.
Definition hexnum (l : str) : N := fold_left (fun a c => 16 * a + hexval c) l 0.

(* str.replace(c, r) for a one-character pattern *)
Definition replace1 (c : N) (r : str) (s : str) : str :=
  flat_map (fun x => if x =? c then r else [x]) s.

(* ================================================================== K1 *)
(* serializers/nt.py:_quote_encode - four chained str.replace calls *)
Definition nt_encode_body (s : str) : str :=
  replace1 13 [92; 114] (replace1 34 [92; 34] (replace1 10 [92; 110] (replace1 92 [92; 92] s))).
Definition nt_quote_encode (s : str) : str := [34] ++ nt_encode_body s ++ [34].

(* the same as one pass over the characters (proved equal in Proofs.v) *)
Definition nt_esc1 (x : N) : str :=
  if x =? 92 then [92; 92] else if x =? 10 then [92; 110] else
  if x =? 34 then [92; 34] else if x =? 13 then [92; 114] else [x].

(* compat.decodeUnicodeEscape: re.sub of \\([tbnrf'''\\]|u[hex]{4}|U[hex]{8}) left to right,
   non-overlapping.  A \U escape above 0x10FFFF makes chr() raise; the raw
   result keeps the number and [unquote] turns it into None. *)
Fixpoint lookup (c : N) (t : list (N * N)) : option N :=
  match t with
  | [] => None
  | (k, v) :: r => if c =? k then Some v else lookup c r
  end.

Fixpoint unesc (s : str) : str :=
  match s with
  | [] => []
  | c :: r =>
    if c =? 92 then
      match r with
      | [] => [c]
      | d :: r1 =>
        match lookup d nt_escapes with
        | Some x => x :: unesc r1
        | None =>
          if d =? 117 then
            match r1 with
            | h1 :: h2 :: h3 :: h4 :: r2 =>
                if forallb is_hex [h1; h2; h3; h4] then hexnum [h1; h2; h3; h4] :: unesc r2
                else c :: unesc r
            | _ => c :: unesc r
            end
          else if d =? 85 then
            match r1 with
            | h1 :: h2 :: h3 :: h4 :: h5 :: h6 :: h7 :: h8 :: r2 =>
                if forallb is_hex [h1; h2; h3; h4; h5; h6; h7; h8]
                then hexnum [h1; h2; h3; h4; h5; h6; h7; h8] :: unesc r2
                else c :: unesc r
            | _ => c :: unesc r
            end
          else c :: unesc r
        end
      end
    else c :: unesc r
  end.

Definition unquote (s : str) : option str :=
  let r := unesc s in if forallb (fun c => c <? 1114112) r then Some r else None.

(* terms as the reader hands them to the constructors URIRef / BNode / Literal *)
Inductive node := Iri (u : str) | Bnode (l : str).
Inductive obj := ONode (n : node) | OLit (lex : str) (lang : option str) (dt : option str).
Definition triple := (node * str * obj)%type.      (* the predicate is an IRI *)

Definition opt_eqb {A} (f : A -> A -> bool) (a b : option A) : bool :=
  match a, b with Some x, Some y => f x y | None, None => true | _, _ => false end.
Definition node_eqb (a b : node) : bool :=
  match a, b with Iri x, Iri y => str_eqb x y | Bnode x, Bnode y => str_eqb x y | _, _ => false end.
Definition obj_eqb (a b : obj) : bool :=
  match a, b with
  | ONode x, ONode y => node_eqb x y
  | OLit l g d, OLit l' g' d' => str_eqb l l' && opt_eqb str_eqb g g' && opt_eqb str_eqb d d'
  | _, _ => false
  end.
Definition triple_eqb (a b : triple) : bool :=
  let '(s, p, o) := a in let '(s', p', o') := b in node_eqb s s' && str_eqb p p' && obj_eqb o o'.
Fixpoint list_eqb {A} (f : A -> A -> bool) (a b : list A) : bool :=
  match a, b with
  | [], [] => true
  | x :: a', y :: b' => f x y && list_eqb f a' b'
  | _, _ => false
  end.

(* ---- writer *)
Definition valid_uri (u : str) : bool := forallb (fun c => negb (mem c invalid_uri)) u.   (* term._is_valid_uri *)
Definition truthy (o : option str) : option str :=
  match o with Some (c :: r) => Some (c :: r) | _ => None end.   (* `if l_.language:` / `elif l_.datatype:` *)

Definition n3_node (n : node) : str :=
  match n with Iri u => [60] ++ u ++ [62] | Bnode l => [95; 58] ++ l end.

Definition quote_literal (lex : str) (lang dt : option str) : str :=
  nt_quote_encode lex ++
  match truthy lang with
  | Some l => 64 :: l
  | None => match truthy dt with Some d => [94; 94; 60] ++ d ++ [62] | None => [] end
  end.

Definition obj_text (o : obj) : str :=
  match o with ONode n => n3_node n | OLit lex lang dt => quote_literal lex lang dt end.

(* _nt_row; None = URIRef.n3() raised (also for the datatype, which _quoteLiteral writes with .n3()) *)
Definition node_ok (n : node) : bool := match n with Iri u => valid_uri u | Bnode _ => true end.
Definition obj_ok (o : obj) : bool :=
  match o with
  | ONode n => node_ok n
  | OLit _ lang dt => match truthy lang with
                      | Some _ => true
                      | None => match truthy dt with Some d => valid_uri d | None => true end
                      end
  end.
Definition nt_row (t : triple) : option str :=
  let '(s, p, o) := t in
  if node_ok s && valid_uri p && obj_ok o
  then Some (n3_node s ++ [32] ++ [60] ++ p ++ [62] ++ [32] ++ obj_text o ++ [32; 46; 10])
  else None.

Fixpoint nt_doc (ts : list triple) : option str :=
  match ts with
  | [] => Some []
  | t :: r => match nt_row t, nt_doc r with Some a, Some b => Some (a ++ b) | _, _ => None end
  end.

(* ---- reader *)
(* r_uriref: LT, then one or more non-colon characters, a colon, then any run of characters other than \s DQ LT GT, then GT;
   anchored at the start (the caller has seen LT) *)
Definition uri_tail_char (c : N) : bool := negb (mem c uriref_refused).
Definition scan_uriref (s : str) : option (str * str) :=
  match s with
  | c :: r =>
    if c =? 60 then
      let '(scheme, r1) := span (fun c => negb (c =? 58)) r in
      match scheme, r1 with
      | _ :: _, _ :: r2 =>                       (* r1 starts with ':' *)
        let '(path, r3) := span uri_tail_char r2 in
        match r3 with
        | e :: r4 => if e =? 62 then Some (scheme ++ [58] ++ path, r4) else None
        | [] => None
        end
      | _, _ => None
      end
    else None
  | [] => None
  end.

(* r_nodeid = _:([A-Za-z0-9_:]([-A-Za-z0-9_:\.]*[-A-Za-z0-9_:])?) *)
Definition name_start (c : N) : bool := is_alnum c || (c =? 95) || (c =? 58).
Definition name_char (c : N) : bool := name_start c || (c =? 45) || (c =? 46).
Fixpoint strip_dots (l : str) : str * str :=     (* (kept, trailing dots given back) *)
  match l with
  | [] => ([], [])
  | c :: r => let '(k, d) := strip_dots r in
              match k with
              | [] => if c =? 46 then ([], c :: d) else ([c], d)
              | _ => (c :: k, d)
              end
  end.
Definition scan_nodeid (s : str) : option (str * str) :=
  match s with
  | a :: b :: c :: r =>
    if (a =? 95) && (b =? 58) && name_start c then
      let '(run, rest) := span name_char r in
      let '(k, d) := strip_dots run in Some (c :: k, d ++ rest)
    else None
  | _ => None
  end.

(* r_literal body, after the opening quote: runs of characters other than DQ and backslash, or backslash + any
   character but LF; up to the closing quote.  Result: (raw body, rest after the closing quote) *)
Fixpoint scan_body (s : str) : option (str * str) :=
  match s with
  | [] => None
  | c :: r =>
    if c =? 34 then Some ([], r)
    else if c =? 92 then
      match r with
      | d :: r1 => if d =? 10 then None
                   else match scan_body r1 with Some (b, t) => Some (c :: d :: b, t) | None => None end
      | [] => None
      end
    else match scan_body r with Some (b, t) => Some (c :: b, t) | None => None end
  end.

(* the sub-tags (hyphen + alphanumerics, repeated) after the leading letters; in_sub = a '-' has been consumed already *)
Fixpoint lang_tail (in_sub : bool) (s : str) : str * str :=
  match s with
  | [] => ([], [])
  | c :: r =>
    if in_sub && is_alnum c then let '(t, z) := lang_tail true r in (c :: t, z)
    else if (c =? 45) && match r with d :: _ => is_alnum d | [] => false end
         then let '(t, z) := lang_tail true r in (c :: t, z)
    else ([], s)
  end.
Definition scan_lang (s : str) : option (str * str) :=     (* after '@' *)
  let '(a, r) := span is_alpha s in
  match a with
  | [] => None
  | _ => let '(t, z) := lang_tail false r in Some (a ++ t, z)
  end.

(* term._lang_tag_regex letters, then hyphen+alphanumerics groups, (\Z: the whole string) *)
Definition valid_langtag (l : str) : bool :=
  match scan_lang l with Some (_, []) => true | _ => false end.
Inductive res (A : Type) := Err | Skip | Got (a : A).
Arguments Err {A}. Arguments Skip {A}. Arguments Got {A} a.

Definition rd_uriref (s : str) : option (str * str) :=
  match scan_uriref s with
  | Some (u, r) => match unquote u with Some u' => Some (u', r) | None => None end
  | None => None
  end.

(* subject(): uriref() or nodeid() else error *)
Definition rd_subject (s : str) : option (node * str) :=
  match s with
  | c :: _ =>
    if c =? 60 then match rd_uriref s with Some (u, r) => Some (Iri u, r) | None => None end
    else if c =? 95 then match scan_nodeid s with Some (l, r) => Some (Bnode l, r) | None => None end
    else None
  | [] => None
  end.

Definition rd_literal (s : str) : option (obj * str) :=    (* s starts with '''' *)
  match s with
  | _ :: r =>
    match scan_body r with
    | None => None
    | Some (body, r1) =>
      let info : option (option str * option str * str) :=
        match r1 with
        | c :: r2 =>
          if c =? 64 then
            match scan_lang r2 with
            | Some (l, r3) => Some (Some l, None, r3)
            | None => Some (None, None, r1)           (* the optional group matches nothing *)
            end
          else match strip_prefix [94; 94] r1 with
               | Some r2 =>
                 match r2 with
                 | d :: _ => if d =? 60 then
                               match scan_uriref r2 with
                               | Some (u, r3) => match unquote u with
                                                 | Some u' => Some (None, Some u', r3)
                                                 | None => None
                                                 end
                               | None => Some (None, None, r1)
                               end
                             else Some (None, None, r1)
                 | [] => Some (None, None, r1)
                 end
               | None => Some (None, None, r1)
               end
        | [] => Some (None, None, r1)
        end in
      match info, unquote body with
      | Some (lang, dt, rest), Some lex => Some (OLit lex lang dt, rest)
      | _, _ => None
      end
    end
  | [] => None
  end.

Definition rd_object (s : str) : option (obj * str) :=
  match s with
  | c :: _ =>
    if c =? 60 then match rd_uriref s with Some (u, r) => Some (ONode (Iri u), r) | None => None end
    else if c =? 95 then match scan_nodeid s with Some (l, r) => Some (ONode (Bnode l), r) | None => None end
    else if c =? 34 then rd_literal s
    else None
  | [] => None
  end.

(* between the terms parseline eats r_wspace = [ \t]* (zero or more, since fix commit 4cbe7459) *)
Definition eat_wspace (s : str) : str := drop_while is_sp s.

(* r_tail: blanks, a dot, blanks, optionally # and anything but LF; then the line must be empty *)
Definition tail_ok (s : str) : bool :=
  match drop_while is_sp s with
  | c :: r =>
    (c =? 46) &&
    match drop_while is_sp r with
    | [] => true
    | h :: t => (h =? 35) && negb (mem 10 t)
    end
  | [] => false
  end.

Definition parseline (line : str) : res triple :=
  match drop_while is_sp line with
  | [] => Skip
  | c :: r0 =>
    if c =? 35 then Skip else
    match rd_subject (c :: r0) with
    | None => Err
    | Some (s, l1) =>
      let l2 := eat_wspace l1 in
      match l2 with
      | c2 :: _ =>
        if c2 =? 60 then
          match rd_uriref l2 with
          | None => Err
          | Some (p, l3) =>
            match rd_object (eat_wspace l3) with
            | None => Err
            | Some (o, l5) => if tail_ok l5 then Got (s, p, o) else Err
            end
          end
        else Err
      | [] => Err
      end
    end
  end.

(* readline: lines end in CRLF, CR or LF; an unterminated last line counts unless it is all whitespace
   (str.isspace - the same characters as \s).  This is the reader with an unbounded buffer; the buffered one
   follows (parse_doc_buf), Proofs.v shows that written documents are read alike by both. *)
Fixpoint split_lines (cur : str) (s : str) : list str :=
  match s with
  | [] => match cur with [] => [] | _ => if forallb is_space cur then [] else [rev cur] end
  | c :: r =>
    if c =? 10 then rev cur :: split_lines [] r
    else if c =? 13 then
      match r with
      | d :: r' => if d =? 10 then rev cur :: split_lines [] r' else rev cur :: split_lines [] r
      | [] => [rev cur]
      end
    else split_lines (c :: cur) r
  end.

Fixpoint parse_lines (ls : list str) : option (list triple) :=
  match ls with
  | [] => Some []
  | l :: r =>
    match parseline l with
    | Err => None
    | Skip => parse_lines r
    | Got t => match parse_lines r with Some ts => Some (t :: ts) | None => None end
    end
  end.

Definition parse_doc (s : str) : option (list triple) := parse_lines (split_lines [] s).

(* readline as written: a buffer that is refilled bufsiz characters at a time from the file; r_line.match on the
   buffer; when nothing matches, one more chunk is appended; at end of file a non-blank remainder gets a final LF,
   a blank one (str.isspace) ends the input.  A CR at the very end of the buffer is taken as a line end on its own, so
   a CRLF cut by a chunk boundary yields one extra empty line (which parseline skips).  [fuel] bounds the number of
   chunk reads of one call / the number of lines; parse_doc_buf supplies enough. *)
Fixpoint find_line (b : str) : option (str * str) :=       (* r_line.match: (group 1, buffer after the match) *)
  match b with
  | [] => None
  | c :: r =>
    if c =? 10 then Some ([], r)
    else if c =? 13 then
      match r with
      | d :: r' => if d =? 10 then Some ([], r') else Some ([], r)
      | [] => Some ([], [])
      end
    else match find_line r with Some (l, t) => Some (c :: l, t) | None => None end
  end.

Inductive rl_result := RlFuel | RlEof | RlLine (line buf file : str).

Fixpoint readline (n fuel : nat) (buf file : str) : rl_result :=
  match find_line buf with
  | Some (l, t) => RlLine l t file
  | None =>
    match fuel with
    | O => RlFuel
    | S k =>
      let ch := firstn n file in
      match ch with
      | [] => match buf with
              | [] => RlEof
              | _ => if forallb is_space buf then RlEof else readline n k (buf ++ [10]) file
              end
      | _ :: _ => readline n k (buf ++ ch) (skipn n file)
      end
    end
  end.

Fixpoint read_all (n fuel : nat) (buf file : str) : option (list str) :=
  match fuel with
  | O => None
  | S k =>
    match readline n (S (S (length file))) buf file with
    | RlFuel => None
    | RlEof => Some []
    | RlLine l b f => match read_all n k b f with Some ls => Some (l :: ls) | None => None end
    end
  end.

Definition bufsiz : nat := 2048.

Definition parse_doc_buf (n : nat) (s : str) : option (list triple) :=
  match read_all n (S (S (length s))) [] s with
  | Some ls => parse_lines ls
  | None => None
  end.

(* ---- what rdflib accepts when writing, plus ''the IRI has a scheme'' *)
Definition has_scheme (u : str) : bool :=
  match span (fun c => negb (c =? 58)) u with (_ :: _, _ :: _) => true | _ => false end.
Definition wf_iri (u : str) : bool := valid_uri u && has_scheme u.
Definition wf_label (l : str) : bool :=
  match l with
  | c :: r => name_start c && forallb name_char r && negb (last l 0 =? 46)
  | [] => false
  end.
Definition wf_node (n : node) : bool := match n with Iri u => wf_iri u | Bnode l => wf_label l end.
Definition wf_obj (o : obj) : bool :=
  match o with
  | ONode n => wf_node n
  | OLit _ None None => true
  | OLit _ (Some l) None => valid_langtag l
  | OLit _ None (Some d) => wf_iri d
  | OLit _ (Some _) (Some _) => false           (* Literal() refuses both *)
  end.
Definition wf_triple (t : triple) : bool := let '(s, p, o) := t in wf_node s && wf_iri p && wf_obj o.

(* what the reader needs of an IRI: no CR / LF in the scheme part (they would cut the line) and only characters
   its IRI pattern accepts after the scheme.  Before fix commit 4d2427e4 the pattern refused every \s character and
   this was an extra hypothesis (finding F15b); now it follows from wf_iri (Proofs.v: wf_iri_readable), the
   definition is kept so that the trigger nt_kf comes back to life if the two character classes drift apart again *)
Definition iri_readable (u : str) : bool :=
  let '(scheme, rest) := span (fun c => negb (c =? 58)) u in
  forallb (fun c => negb ((c =? 10) || (c =? 13))) scheme &&
  match rest with _ :: path => forallb uri_tail_char path | [] => true end.
Definition node_readable (n : node) : bool := match n with Iri u => iri_readable u | Bnode _ => true end.
Definition triple_readable (t : triple) : bool :=
  let '(s, p, o) := t in
  node_readable s && iri_readable p &&
  match o with ONode n => node_readable n | OLit _ _ (Some d) => iri_readable d | _ => true end.

(* ================================================================== K2 *)
Fixpoint contains3 (s : str) : bool :=           (* '''''''' in s *)
  match s with
  | a :: ((b :: c :: _) as t) => ((a =? 34) && (b =? 34) && (c =? 34)) || contains3 t
  | _ => false
  end.
Fixpoint rep3 (s : str) : str :=                 (* s.replace('''''''', '\\''\\''\\''') *)
  match s with
  | a :: t =>
    match t with
    | b :: c :: r => if (a =? 34) && (b =? 34) && (c =? 34) then [92; 34; 92; 34; 92; 34] ++ rep3 r else a :: rep3 t
    | _ => a :: rep3 t
    end
  | [] => []
  end.
(* if encoded[-1] == DQ: encoded = encoded[:-1] + backslash DQ   (the code as repaired by the fix commit 13d00653:
   the final quote is escaped first - after the backslashes have been doubled it is always bare - and the triple
   quotes are looked for in the result) *)
Definition patch_last (e : str) : str :=
  match rev e with
  | l :: _ => if l =? 34 then removelast e ++ [92; 34] else e
  | [] => e
  end.

Definition ttl_quote_encode (s : str) : str :=
  if mem 10 s then
    let e1 := patch_last (replace1 92 [92; 92] s) in
    let e2 := if contains3 e1 then rep3 e1 else e1 in
    [34; 34; 34] ++ replace1 13 [92; 114] e2 ++ [34; 34; 34]
  else
    [34] ++ replace1 13 [92; 114] (replace1 34 [92; 34] (replace1 92 [92; 92] (replace1 10 [92; 110] s))) ++ [34].

(* ''abfrtvn\\\''''' -> ''\a\b\f\r\t\v\n\\\''''' *)
Definition n3_escapes : list (N * N) :=
  [(97, 7); (98, 8); (102, 12); (114, 13); (116, 9); (118, 11); (110, 10); (92, 92); (34, 34); (39, 39)].

(* SinkParser.strconst with delim = '''' (triple = false) or '''''''' (triple = true), started just after the
   opening delimiter; -> (value, rest of the input after the closing delimiter); None = an exception *)
Fixpoint strconst (triple : bool) (s : str) : option (str * str) :=
  let cons (c : N) (k : option (str * str)) :=
    match k with Some (v, t) => Some (c :: v, t) | None => None end in
  match s with
  | [] => None
  | c :: r =>
    if c =? 34 then
      if negb triple then Some ([], r)
      else match strip_prefix [34; 34; 34; 34] r with
           | Some t => Some ([34; 34], t)
           | None =>
           match strip_prefix [34; 34; 34] r with
           | Some t => Some ([34], t)
           | None =>
           match strip_prefix [34; 34] r with
           | Some t => Some ([], t)
           | None => cons c (strconst triple r)
           end end end
    else if (c =? 10) || (c =? 13) then (if triple then cons c (strconst triple r) else None)
    else if c =? 92 then
      match r with
      | [] => None
      | d :: r1 =>
        match lookup d n3_escapes with
        | Some x => cons x (strconst triple r1)
        | None =>
          if d =? 117 then
            match r1 with
            | h1 :: h2 :: h3 :: h4 :: r2 =>
                if forallb is_hex [h1; h2; h3; h4] then cons (hexnum [h1; h2; h3; h4]) (strconst triple r2)
                else cons c (cons d (cons h1 (cons h2 (cons h3 (cons h4 (strconst triple r2))))))
            | _ => None
            end
          else if d =? 85 then
            match r1 with
            | h1 :: h2 :: h3 :: h4 :: h5 :: h6 :: h7 :: h8 :: r2 =>
                if forallb is_hex [h1; h2; h3; h4; h5; h6; h7; h8] then
                  (if hexnum [h1; h2; h3; h4; h5; h6; h7; h8] <? 1114112
                   then cons (hexnum [h1; h2; h3; h4; h5; h6; h7; h8]) (strconst triple r2) else None)
                else cons c (cons d (cons h1 (cons h2 (cons h3 (cons h4 (cons h5 (cons h6 (cons h7 (cons h8
                       (strconst triple r2))))))))))
            | _ => None
            end
          else None
        end
      end
    else cons c (strconst triple r)
  end.

(* reading back what the writer produced: opening delimiter, strconst, and nothing may be left over *)
Definition ttl_read (text : str) : option str :=
  match strip_prefix [34; 34; 34] text with
  | Some body => match strconst true body with Some (v, []) => Some v | _ => None end
  | None =>
    match strip_prefix [34] text with
    | Some body => match strconst false body with Some (v, []) => Some v | _ => None end
    | None => None
    end
  end.

(* ================================================================== suites *)
(* nt suite.  mode 0: write a triple and read the text back; mode 1: unquote on a raw string;
   mode 2: the reader on an arbitrary document *)
Inductive nt_case :=
| NtTriple (t : triple)
| NtUnquote (s : str)
| NtDoc (s : str).
Inductive nt_obs :=
| ObsTriple (text : option str) (back : option (list triple))
| ObsUnquote (r : option str)
| ObsDoc (r : option (list triple)).

Definition nt_model (c : nt_case) : nt_obs :=
  match c with
  | NtTriple t => match nt_row t with
                  | Some s => ObsTriple (Some s) (parse_doc_buf bufsiz s)
                  | None => ObsTriple None None
                  end
  | NtUnquote s => ObsUnquote (unquote s)
  | NtDoc s => ObsDoc (parse_doc_buf bufsiz s)
  end.

Definition nt_obs_eqb (a b : nt_obs) : bool :=
  match a, b with
  | ObsTriple x y, ObsTriple x' y' => opt_eqb str_eqb x x' && opt_eqb (list_eqb triple_eqb) y y'
  | ObsUnquote x, ObsUnquote x' => opt_eqb str_eqb x x'
  | ObsDoc y, ObsDoc y' => opt_eqb (list_eqb triple_eqb) y y'
  | _, _ => false
  end.

(* the property, on one triple: whatever was written is read back as exactly that triple *)
Definition nt_spec (c : nt_case) (o : nt_obs) : bool :=
  match c, o with
  | NtTriple t, ObsTriple text back =>
      if wf_triple t then
        match text with Some _ => opt_eqb (list_eqb triple_eqb) back (Some [t]) | None => false end
      else true
  | NtTriple _, _ => false
  | NtUnquote s, ObsUnquote _ => true
  | NtDoc s, ObsDoc _ => true
  | _, _ => false
  end.

Definition nt_kf (c : nt_case) : N :=
  match c with
  | NtTriple t => if wf_triple t && negb (triple_readable t) then 1 else 0
  | _ => 0
  end.

(* turtle string suite.  mode 0: Literal(s)._quote_encode() and reading it back;
   mode 1/2: strconst on raw input with the one-quote / three-quote delimiter *)
Inductive ttl_case :=
| TtlString (s : str)
| TtlRaw (triple : bool) (s : str).
Inductive ttl_obs :=
| ObsString (text : str) (back : option str)
| ObsRaw (r : option (str * str)).

Definition ttl_model (c : ttl_case) : ttl_obs :=
  match c with
  | TtlString s => let e := ttl_quote_encode s in ObsString e (ttl_read e)
  | TtlRaw tr s => ObsRaw (strconst tr s)
  end.
Definition ttl_obs_eqb (a b : ttl_obs) : bool :=
  match a, b with
  | ObsString x y, ObsString x' y' => str_eqb x x' && opt_eqb str_eqb y y'
  | ObsRaw x, ObsRaw x' => opt_eqb (fun p q => str_eqb (fst p) (fst q) && str_eqb (snd p) (snd q)) x x'
  | _, _ => false
  end.
Definition ttl_spec (c : ttl_case) (o : ttl_obs) : bool :=
  match c, o with
  | TtlString s, ObsString _ back => opt_eqb str_eqb back (Some s)
  | TtlRaw _ _, ObsRaw _ => true
  | _, _ => false
  end.

(* graph-level suite: DIFFERENTIAL TESTING WITH A PYTHON ORACLE, no model behind it.  The harness computes the
   input-side trigger number of the known finding that applies (0 = none) and observes
     1 = the round trip is exact (isomorphic up to blank-node renaming),
     3 = not exact, a trigger applies, and everything the finding does not concern is intact / the damage is the one
         the finding predicts (harness/c03.py: residual_ok),
     0 = anything else (a difference the findings do not explain, an exception, a timeout).
   Where a trigger applies the outcome 1 or 3 is not predicted (2); 0 never agrees with the model. *)
Definition rt_case := N.
Definition rt_model (c : rt_case) : N := if c =? 0 then 1 else 2.
Definition rt_obs_eqb (m o : N) : bool := (m =? o) || ((m =? 2) && ((o =? 1) || (o =? 3))).
Definition rt_spec (c : rt_case) (o : N) : bool := o =? 1.
Definition rt_kf (c : rt_case) : N := c.
