(* C09 - xsd:double / xsd:float on the fragment where everything is exact:
   the special values (INF, -INF, NaN), signed zero, and integer-valued doubles below 2^53 written as
        [+-]? digits ( . 0* )? ( [eE] +? digits )?          (value digits * 10^exp < 2^53)
   python's float(str) on such forms (exact, no rounding; also its extra spellings inf / infinity / nan in any
   case, which are outside the XSD lexical space), the lexicaliser _float_lexical (repaired by a107abc9: INF, -INF,
   NaN, else repr(), which for an integer-valued double below 2^53 < 10^16 is the digits followed by ".0"),
   Literal.__new__ / normalize() / eq.  Every other form of the double lexical space (fractions, negative
   exponents, values needing rounding) is OUTSIDE this model: fl_parse returns None for it and the harness gives
   such forms to the conformance suite (differential testing) only.  Definitions only. *)
From Coq Require Import List NArith ZArith Bool.
Import ListNotations.
From RV Require Export Literal.Model.
Local Open Scope N_scope.

Inductive fval := FNaN | FInf (neg : bool) | FInt (neg : bool) (n : N).   (* FInt true 0 is -0.0 *)

Definition two53 : N := 9007199254740992.
Definition in53 (neg : bool) (n : N) : option fval := if n <? two53 then Some (FInt neg n) else None.

Definition all_zero_digits (f : str) : bool := forallb (N.eqb 48) f.

(* the numeral part, shared by the python side and the XSD side: digits, optional point and zeros,
   optional non-negative exponent; the integer it denotes *)
Definition int_numeral (b : str) : option N :=
  let '(ip, r1) := span_digits b in
  let '(fp, r2) := match r1 with
                   | c :: r => if c =? 46 then span_digits r else ([], r1)
                   | [] => ([], r1)
                   end in
  if is_nil ip || negb (all_zero_digits fp) then None
  else match r2 with
       | [] => Some (dec_value ip)
       | c :: r =>
           if (c =? 101) || (c =? 69) then
             let r' := match r with x :: y => if x =? 43 then y else r | [] => r end in
             let '(ed, r'') := span_digits r' in
             if is_nil ed || negb (is_nil r'') then None else Some (dec_value ip * 10 ^ dec_value ed)
           else None
       end.

(* float(str) on the fragment *)
Definition fl_parse (l : str) : option fval :=
  let '(neg, b) := split_sign l in
  let lb := map lower_ascii b in
  if str_eqb lb s_inf || str_eqb lb s_infinity then Some (FInf neg)
  else if str_eqb lb s_nan then Some FNaN
  else match int_numeral b with Some n => in53 neg n | None => None end.

(* _float_lexical *)
Definition fl_print (v : fval) : str :=
  match v with
  | FNaN => [78; 97; 78]
  | FInf neg => (if neg then [45] else []) ++ [73; 78; 70]
  | FInt neg n => (if neg then [45] else []) ++ digs n ++ [46; 48]
  end.

(* python == on floats *)
Definition fval_eq (a b : fval) : bool :=
  match a, b with
  | FInf x, FInf y => Bool.eqb x y
  | FInt x n, FInt y m => (n =? m) && ((n =? 0) || Bool.eqb x y)
  | _, _ => false
  end.

(* rows of the reflected tables: converter float, by-value checker, numeric; generic rule float -> double with
   a lexicaliser *)
Inductive fdt := FDouble | FFloat.
Definition fdt_name (d : fdt) : str :=
  match d with FDouble => [100; 111; 117; 98; 108; 101] | FFloat => [102; 108; 111; 97; 116] end.

Definition frow_ok (d : fdt) : bool :=
  match find (fun r => match r with (((ns, nm), _), _, _) => (ns =? 0) && str_eqb nm (fdt_name d) end) xsd_table with
  | Some (_, CvFloat, CkByValue, true) => true
  | _ => false
  end.
Definition frule_ok : bool :=
  match find (fun r => match r with (tag, _, _) => tag =? 1 end) generic_rules with
  | Some (_, true, Some nm) => str_eqb nm (fdt_name FDouble)
  | _ => false
  end.

Record flit := { f_lex : str; f_ill : option bool; f_val : option fval }.

(* Literal(l, datatype=d, normalize=norm) for l in the fragment; None: l is outside the model *)
Definition fconstruct (d : fdt) (l : str) (norm : bool) : option flit :=
  if frow_ok d && frule_ok then
    match fl_parse l with
    | Some v => Some {| f_lex := if norm then fl_print v else l; f_ill := Some false; f_val := Some v |}
    | None => None
    end
  else None.

Definition fnormalize (x : flit) : flit :=
  match f_val x with
  | Some v => {| f_lex := fl_print v; f_ill := None; f_val := Some v |}
  | None => x
  end.

(* Literal.eq, numeric fast path (both numeric, not ill-typed, values present) *)
Definition feq_m (a b : flit) : eqres :=
  match f_val a, f_val b with
  | Some x, Some y => eqres_of (fval_eq x y)
  | _, _ => if str_eqb (f_lex a) (f_lex b) then ETrue else ETypeError
  end.

(* ================================================================== *)
(* XSD side *)

Inductive xfval := XNaN | XInf (neg : bool) | XFin (neg : bool) (n : N).

(* the part of the XSD 1.1 double / float lexical space this model is about: INF, +INF, -INF, NaN, and the
   numerals above; value: exact *)
Definition xsd_fvalue (l : str) : option xfval :=
  if str_eqb l [78; 97; 78] then Some XNaN
  else let '(neg, b) := split_sign l in
       if str_eqb b [73; 78; 70] then Some (XInf neg)
       else match b with
            | c :: _ => if is_dig c then
                          match int_numeral b with
                          | Some n => if n <? two53 then Some (XFin neg n) else None
                          | None => None
                          end
                        else None
            | [] => None
            end.

(* XSD equality of double values: NaN is not equal to itself, the two zeros are equal *)
Definition xf_eqb (a b : xfval) : bool :=
  match a, b with
  | XInf x, XInf y => Bool.eqb x y
  | XFin x n, XFin y m => (n =? m) && ((n =? 0) || Bool.eqb x y)
  | _, _ => false
  end.

(* identity of values (signed zeros are different values) *)
Definition fdenotes (v : fval) (x : xfval) : bool :=
  match v, x with
  | FNaN, XNaN => true
  | FInf a, XInf b => Bool.eqb a b
  | FInt a n, XFin b m => Bool.eqb a b && (n =? m)
  | _, _ => false
  end.

Definition xf_of (v : fval) : xfval :=
  match v with FNaN => XNaN | FInf n => XInf n | FInt s n => XFin s n end.

Definition fval_wf (v : fval) : bool := match v with FInt _ n => n <? two53 | _ => true end.

(* ================================================================== *)
(* cases, observations, checker *)

Inductive fcase :=
| FLex (d : fdt) (l : str) (norm : bool)
| FPy (v : fval)
| FPair (l1 : str) (n1 : bool) (l2 : str) (n2 : bool).      (* both xsd:double *)

Inductive fobs :=
| OFLex (x n1 n2 re : flit) (e : eqres) (same : bool)
| OFPy (x back : flit) (e : eqres)
| OFPair (same : bool) (e : eqres)
| OFOut.     (* the form is outside the fragment: never produced by the implementation side *)

Definition fval_same (a b : fval) : bool :=
  match a, b with
  | FNaN, FNaN => true
  | FInf x, FInf y => Bool.eqb x y
  | FInt x n, FInt y m => Bool.eqb x y && (n =? m)
  | _, _ => false
  end.

Definition flit_eqb (a b : flit) : bool :=
  str_eqb (f_lex a) (f_lex b) && opt_eqb Bool.eqb (f_ill a) (f_ill b) && opt_eqb fval_same (f_val a) (f_val b).

Definition fobs_eqb (a b : fobs) : bool :=
  match a, b with
  | OFLex x n1 n2 re e s, OFLex x' n1' n2' re' e' s' =>
      flit_eqb x x' && flit_eqb n1 n1' && flit_eqb n2 n2' && flit_eqb re re' && eqres_eqb e e' && Bool.eqb s s'
  | OFPy x b e, OFPy x' b' e' => flit_eqb x x' && flit_eqb b b' && eqres_eqb e e'
  | OFPair s e, OFPair s' e' => Bool.eqb s s' && eqres_eqb e e'
  | _, _ => false
  end.

Definition fmodel_obs (c : fcase) : fobs :=
  match c with
  | FLex d l norm =>
      match fconstruct d l norm with
      | Some x =>
          let n1 := fnormalize x in
          let n2 := fnormalize n1 in
          match fconstruct d (f_lex x) true with
          | Some re => OFLex x n1 n2 re (feq_m x n1) (str_eqb (f_lex x) (f_lex n1))
          | None => OFOut
          end
      | None => OFOut
      end
  | FPy v =>
      if frule_ok then
        let x := {| f_lex := fl_print v; f_ill := None; f_val := Some v |} in
        match fconstruct FDouble (f_lex x) normalize_literals_default with
        | Some back => OFPy x back (feq_m x back)
        | None => OFOut
        end
      else OFOut
  | FPair l1 n1 l2 n2 =>
      match fconstruct FDouble l1 n1, fconstruct FDouble l2 n2 with
      | Some a, Some b => OFPair (str_eqb (f_lex a) (f_lex b)) (feq_m a b)
      | _, _ => OFOut
      end
  end.

Definition fval_is (v : option fval) (x : xfval) : bool := match v with Some w => fdenotes w x | None => false end.
Definition xf_same (a b : xfval) : bool :=
  match a, b with
  | XNaN, XNaN => true
  | XInf x, XInf y => Bool.eqb x y
  | XFin x n, XFin y m => Bool.eqb x y && (n =? m)
  | _, _ => false
  end.
Definition flex_is (l : str) (x : xfval) : bool := match xsd_fvalue l with Some y => xf_same y x | None => false end.

(* "eq holds whenever term equality does" cannot be asked of NaN: XSD equality itself says NaN <> NaN *)
Definition nan_form (l : str) : bool := str_eqb (map lower_ascii (snd (split_sign l))) s_nan.

Definition fvalid_ok (l : str) (norm : bool) (xv : xfval) (x n1 re : flit) (e : eqres) : bool :=
  opt_eqb Bool.eqb (f_ill x) (Some false)
  && fval_is (f_val x) xv && flex_is (f_lex x) xv
  && (norm || str_eqb (f_lex x) l)
  && fval_is (f_val n1) xv && flex_is (f_lex n1) xv
  && fval_is (f_val re) xv && flex_is (f_lex re) xv && opt_eqb Bool.eqb (f_ill re) (Some false)
  && eqres_eqb e (eqres_of (xf_eqb xv xv)).

Definition fspec_ok (c : fcase) (o : fobs) : bool :=
  match c, o with
  | FLex d l norm, OFLex x n1 n2 re e same =>
      (match xsd_fvalue l with Some xv => fvalid_ok l norm xv x n1 re e | None => true end)
      && str_eqb (f_lex n2) (f_lex n1) && opt_eqb fval_same (f_val n2) (f_val n1)
      && implb' norm (str_eqb (f_lex re) (f_lex x))
      && implb' (same && negb (nan_form l)) (eqres_eqb e ETrue)
  | FPy v, OFPy x back e =>
      flex_is (f_lex x) (xf_of v) && opt_eqb fval_same (f_val x) (Some v)
      && opt_eqb fval_same (f_val back) (Some v) && opt_eqb Bool.eqb (f_ill back) (Some false)
      && str_eqb (f_lex back) (f_lex x) && eqres_eqb e (eqres_of (xf_eqb (xf_of v) (xf_of v)))
  | FPair l1 n1 l2 n2, OFPair same e =>
      implb' (same && negb (nan_form l1)) (eqres_eqb e ETrue)
      && match xsd_fvalue l1, xsd_fvalue l2 with
         | Some x1, Some x2 => eqres_eqb e (eqres_of (xf_eqb x1 x2))
         | _, _ => true
         end
  | _, _ => false
  end.

(* the fragment: the model has something to say about the case *)
Definition in_fragment (l : str) : bool := match fl_parse l with Some _ => true | None => false end.
Definition fwf (c : fcase) : bool :=
  match c with
  | FLex _ l _ => in_fragment l
  | FPy v => fval_wf v
  | FPair l1 _ l2 _ => in_fragment l1 && in_fragment l2
  end.

Definition fkf (c : fcase) : N := 0.
