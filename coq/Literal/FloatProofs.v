(* C09 - proofs about coq/Literal/FloatModel.v (the exact fragment of xsd:double / xsd:float) *)
From Coq Require Import List NArith ZArith Bool Lia.
Import ListNotations.
From RV Require Import Literal.Model Literal.Token Literal.Proofs Literal.Decimal Literal.FloatModel.
Local Open Scope N_scope.

Lemma frows : forall d, frow_ok d = true /\ frule_ok = true.
Proof. destruct d; split; vm_compute; reflexivity. Qed.

Lemma fconstruct_eq : forall d l norm, fconstruct d l norm =
  match fl_parse l with
  | Some v => Some {| f_lex := if norm then fl_print v else l; f_ill := Some false; f_val := Some v |}
  | None => None
  end.
Proof. intros d l norm. unfold fconstruct. destruct (frows d) as [A B]. rewrite A, B. reflexivity. Qed.

(* the numeral python writes for an integer-valued double below 2^53 *)
Lemma int_numeral_print : forall n, int_numeral (digs n ++ [46; 48]) = Some n.
Proof.
  intro n. unfold int_numeral. rewrite span_digits_app; [|apply digs_digits|reflexivity].
  cbn [N.eqb Pos.eqb span_digits is_dig N.leb N.compare Pos.compare Pos.compare_cont andb].
  destruct (digs_cons n) as (c & r & E & _). rewrite E. cbn [is_nil orb all_zero_digits forallb N.eqb Pos.eqb andb negb].
  rewrite <- E, digs_value. reflexivity.
Qed.

Lemma print_int_shape : forall neg n, exists c r, fl_print (FInt neg n) = sign_str neg ++ c :: r /\ is_dig c = true
  /\ c :: r = digs n ++ [46; 48].
Proof.
  intros neg n. destruct (digs_cons n) as (c & r & E & D). exists c, (r ++ [46; 48]).
  unfold fl_print, sign_str. rewrite E. split; [destruct neg; reflexivity|]. split; [exact D|reflexivity].
Qed.

(* float(repr-form) reads back the value; the form is in the XSD lexical space and denotes it *)
Lemma fl_roundtrip : forall v, fval_wf v = true -> fl_parse (fl_print v) = Some v /\ xsd_fvalue (fl_print v) = Some (xf_of v).
Proof.
  intros [|neg|neg n] W.
  - split; vm_compute; reflexivity.
  - destruct neg; split; vm_compute; reflexivity.
  - cbn [fval_wf] in W. destruct (print_int_shape neg n) as (c & r & E & D & B). rewrite E.
    assert (Hc : c < 65) by (apply is_dig_range in D; lia).
    destruct (not_special c r Hc) as [S1 S2].
    split.
    + unfold fl_parse. rewrite (split_sign_sign_str neg c r D), S1, S2, B, int_numeral_print. unfold in53. rewrite W. reflexivity.
    + unfold xsd_fvalue.
      assert (N1 : str_eqb (sign_str neg ++ c :: r) [78; 97; 78] = false).
      { apply is_dig_range in D. destruct neg; cbn [sign_str app str_eqb]; [reflexivity|].
        replace (c =? 78) with false by (symmetry; apply N.eqb_neq; lia). reflexivity. }
      rewrite N1, (split_sign_sign_str neg c r D).
      assert (N2 : str_eqb (c :: r) [73; 78; 70] = false).
      { apply is_dig_range in D. cbn [str_eqb]. replace (c =? 73) with false by (symmetry; apply N.eqb_neq; lia). reflexivity. }
      rewrite N2, D, B, int_numeral_print, W. reflexivity.
Qed.

Lemma fl_parse_wf : forall l v, fl_parse l = Some v -> fval_wf v = true /\ (v = FNaN -> nan_form l = true).
Proof.
  intros l v H. unfold fl_parse in H. unfold nan_form. destruct (split_sign l) as [neg b]. cbn [snd].
  destruct (str_eqb (map lower_ascii b) s_inf || str_eqb (map lower_ascii b) s_infinity).
  - inversion H. split; [reflexivity|discriminate].
  - destruct (str_eqb (map lower_ascii b) s_nan) eqn:E.
    + inversion H. split; reflexivity.
    + destruct (int_numeral b) as [n|]; [|discriminate]. unfold in53 in H. destruct (n <? two53) eqn:B; [|discriminate].
      inversion H. split; [exact B|discriminate].
Qed.

(* every form of the fragment's XSD lexical space is read with exactly the XSD value *)
Lemma fl_valid : forall l xv, xsd_fvalue l = Some xv -> exists v, fl_parse l = Some v /\ fdenotes v xv = true.
Proof.
  intros l xv H. unfold xsd_fvalue in H.
  destruct (str_eqb l [78; 97; 78]) eqn:E1.
  - apply str_eqb_eq in E1. subst l. inversion H. exists FNaN. split; reflexivity.
  - unfold fl_parse. destruct (split_sign l) as [neg b].
    destruct (str_eqb b [73; 78; 70]) eqn:E2.
    + apply str_eqb_eq in E2. subst b. inversion H. exists (FInf neg). split; [reflexivity|]. cbn. apply Bool.eqb_reflx.
    + destruct b as [|c r]; [discriminate|]. destruct (is_dig c) eqn:D; [|discriminate].
      assert (Hc : c < 65) by (apply is_dig_range in D; lia).
      destruct (not_special c r Hc) as [S1 S2]. rewrite S1, S2.
      destruct (int_numeral (c :: r)) as [n|]; [|discriminate]. unfold in53.
      destruct (n <? two53); [|discriminate]. inversion H. exists (FInt neg n). split; [reflexivity|].
      cbn. rewrite Bool.eqb_reflx, N.eqb_refl. reflexivity.
Qed.

Lemma fdenotes_same : forall v x, fdenotes v x = true -> xf_same (xf_of v) x = true.
Proof. intros [|a|a n] [|b|b m] H; try discriminate; exact H. Qed.

Lemma fdenotes_of : forall v, fdenotes v (xf_of v) = true.
Proof. intros [|a|a n]; cbn; rewrite ?Bool.eqb_reflx, ?N.eqb_refl; reflexivity. Qed.

Lemma xf_same_refl : forall x, xf_same x x = true.
Proof. intros [|a|a n]; cbn; rewrite ?Bool.eqb_reflx, ?N.eqb_refl; reflexivity. Qed.

(* python == against XSD equality *)
Lemma fval_eq_xsd : forall a b x y, fdenotes a x = true -> fdenotes b y = true -> fval_eq a b = xf_eqb x y.
Proof.
  intros [|a|a n] [|b|b m] [|x|x p] [|y|y q] H1 H2; try discriminate; try reflexivity; cbn in *.
  - apply Bool.eqb_prop in H1, H2. subst. reflexivity.
  - apply andb_true_iff in H1, H2. destruct H1 as [A1 A2], H2 as [B1 B2].
    apply Bool.eqb_prop in A1, B1. apply N.eqb_eq in A2, B2. subst. reflexivity.
Qed.

Lemma fval_eq_refl : forall v, v <> FNaN -> fval_eq v v = true.
Proof.
  intros [|a|a n] H; [congruence| |]; cbn; [apply Bool.eqb_reflx|].
  rewrite N.eqb_refl, Bool.eqb_reflx, orb_true_r. reflexivity.
Qed.

Lemma fval_same_refl : forall v, opt_eqb fval_same v v = true.
Proof. intros [[|a|a n]|]; cbn; rewrite ?Bool.eqb_reflx, ?N.eqb_refl; reflexivity. Qed.

(* the pipeline on the fragment *)
Definition double_faithful : Prop :=
  (* value -> form -> value, and the form is valid and denotes the value *)
  (forall v, fval_wf v = true -> fl_parse (fl_print v) = Some v /\ xsd_fvalue (fl_print v) = Some (xf_of v))
  (* every valid form of the fragment is read with exactly the XSD value (signed zero included) *)
  /\ (forall l xv, xsd_fvalue l = Some xv -> exists v, fl_parse l = Some v /\ fdenotes v xv = true)
  (* construction, normalize(), re-reading *)
  /\ (forall d l norm v, fl_parse l = Some v ->
        fconstruct d l norm = Some {| f_lex := if norm then fl_print v else l; f_ill := Some false; f_val := Some v |}
        /\ fconstruct d (fl_print v) true = Some {| f_lex := fl_print v; f_ill := Some false; f_val := Some v |}
        /\ fnormalize (fnormalize {| f_lex := l; f_ill := Some false; f_val := Some v |})
           = fnormalize {| f_lex := l; f_ill := Some false; f_val := Some v |}).

Lemma double_faithful_all : double_faithful.
Proof.
  split; [exact fl_roundtrip|]. split; [exact fl_valid|].
  intros d l norm v P. destruct (fl_parse_wf l v P) as [W _]. destruct (fl_roundtrip v W) as [R _].
  split; [rewrite fconstruct_eq, P; reflexivity|]. split; [rewrite fconstruct_eq, R; reflexivity|reflexivity].
Qed.

(* the tie on the fragment *)
Theorem fspec_ok_model_partial : forall c, fwf c = true -> fspec_ok c (fmodel_obs c) = true.
Proof.
  intros [d l norm|v|l1 n1 l2 n2] W; cbn [fwf] in W.
  - unfold in_fragment in W. destruct (fl_parse l) as [v|] eqn:P; [|discriminate].
    destruct (fl_parse_wf l v P) as [Wv NaNf]. destruct (fl_roundtrip v Wv) as [R X].
    cbn [fmodel_obs]. rewrite (fconstruct_eq d l norm), P. cbn [f_lex].
    assert (Pl : fl_parse (if norm then fl_print v else l) = Some v) by (destruct norm; assumption).
    rewrite fconstruct_eq, Pl. cbn [fspec_ok fnormalize f_val f_lex f_ill feq_m].
    rewrite !str_eqb_refl, fval_same_refl. cbn [andb].
    assert (C4 : implb' (str_eqb (if norm then fl_print v else l) (fl_print v) && negb (nan_form l))
                   (eqres_eqb (eqres_of (fval_eq v v)) ETrue) = true).
    { destruct (nan_form l) eqn:NF; [rewrite andb_false_r; reflexivity|].
      rewrite fval_eq_refl; [destruct (str_eqb _ _); reflexivity|]. intro Ev. specialize (NaNf Ev). discriminate. }
    rewrite C4.
    assert (C3 : implb' norm (str_eqb (fl_print v) (if norm then fl_print v else l)) = true)
      by (destruct norm; [apply str_eqb_refl|reflexivity]). rewrite C3, !andb_true_r.
    destruct (xsd_fvalue l) as [xv|] eqn:V; [|reflexivity].
    destruct (fl_valid l xv V) as (v' & P' & Dn). rewrite P in P'. inversion P'; subst v'.
    unfold fvalid_ok, fval_is, flex_is. cbn [f_lex f_val f_ill opt_eqb Bool.eqb]. rewrite Dn, X, (fdenotes_same v xv Dn).
    rewrite (fval_eq_xsd v v xv xv Dn Dn).
    assert (EE : forall r, eqres_eqb (eqres_of r) (eqres_of r) = true) by (destruct r; reflexivity). rewrite EE.
    destruct norm; cbn [orb andb].
    + rewrite X, (fdenotes_same v xv Dn). reflexivity.
    + rewrite V, xf_same_refl, str_eqb_refl. reflexivity.
  - cbn [fmodel_obs]. rewrite (proj2 (frows FDouble)). cbn [f_lex].
    destruct (fl_roundtrip v W) as [R X]. rewrite fconstruct_eq, R, default_normalize.
    cbn [fspec_ok f_lex f_val f_ill feq_m]. unfold flex_is. rewrite X, xf_same_refl, !fval_same_refl, str_eqb_refl.
    rewrite (fval_eq_xsd v v _ _ (fdenotes_of v) (fdenotes_of v)).
    destruct (xf_eqb (xf_of v) (xf_of v)); reflexivity.
  - apply andb_true_iff in W. destruct W as [W1 W2]. unfold in_fragment in W1, W2.
    destruct (fl_parse l1) as [v1|] eqn:P1; [|discriminate]. destruct (fl_parse l2) as [v2|] eqn:P2; [|discriminate].
    destruct (fl_parse_wf l1 v1 P1) as [Wv1 NaN1]. destruct (fl_parse_wf l2 v2 P2) as [Wv2 _].
    cbn [fmodel_obs]. rewrite !fconstruct_eq, P1, P2. cbn [fspec_ok f_lex f_val feq_m].
    apply andb_true_iff. split.
    + destruct (str_eqb (if n1 then fl_print v1 else l1) (if n2 then fl_print v2 else l2)) eqn:S; [|reflexivity].
      destruct (nan_form l1) eqn:NF; [reflexivity|]. cbn [negb andb implb'].
      apply str_eqb_eq in S.
      assert (Q1 : fl_parse (if n1 then fl_print v1 else l1) = Some v1) by (destruct n1; [apply fl_roundtrip; exact Wv1|exact P1]).
      assert (Q2 : fl_parse (if n2 then fl_print v2 else l2) = Some v2) by (destruct n2; [apply fl_roundtrip; exact Wv2|exact P2]).
      rewrite S, Q2 in Q1. inversion Q1; subst v2.
      rewrite fval_eq_refl; [reflexivity|]. intro Ev. specialize (NaN1 Ev). discriminate.
    + destruct (xsd_fvalue l1) as [x1|] eqn:V1; [|reflexivity]. destruct (xsd_fvalue l2) as [x2|] eqn:V2; [|reflexivity].
      destruct (fl_valid l1 x1 V1) as (a & A1 & A2). destruct (fl_valid l2 x2 V2) as (b & B1 & B2).
      rewrite P1 in A1. rewrite P2 in B1. inversion A1; inversion B1; subst a b.
      rewrite (fval_eq_xsd v1 v2 x1 x2 A2 B2). destruct (xf_eqb x1 x2); reflexivity.
Qed.
