(* C09 - xsd:hexBinary and xsd:base64Binary: model of the codecs rdflib uses
   (term._unhexlify = str.encode + binascii.unhexlify, binascii.hexlify,
   base64.b64decode = ascii-encode + binascii.a2b_base64 in non-strict mode, base64.b64encode),
   of Literal.__new__ / normalize() (as repaired by d1e79be9) / eq for these two datatypes,
   and - independently - the XSD lexical spaces and lexical-to-value maps.
   Values are byte strings (lists of N below 256).  Definitions only. *)
From Coq Require Import List NArith Bool.
Import ListNotations.
From RV Require Export Literal.Model.
Local Open Scope N_scope.

Definition bytes := list N.

(* ------------------------------------------------------------------ *)
(* binascii.unhexlify on str.encode(): every non-ASCII character encodes to bytes >= 0x80, not hex digits *)

Definition hexval (c : N) : option N :=
  if (48 <=? c) && (c <=? 57) then Some (c - 48)
  else if (65 <=? c) && (c <=? 70) then Some (c - 55)
  else if (97 <=? c) && (c <=? 102) then Some (c - 87)
  else None.

Fixpoint unhex (l : str) : option bytes :=
  match l with
  | [] => Some []
  | a :: b :: r =>
      match hexval a, hexval b, unhex r with
      | Some x, Some y, Some bs => Some (16 * x + y :: bs)
      | _, _, _ => None
      end
  | _ => None
  end.

(* binascii.hexlify: lower-case digits *)
Definition hexchr (v : N) : N := if v <? 10 then 48 + v else 87 + v.
Fixpoint hexlify (bs : bytes) : str :=
  match bs with
  | [] => []
  | b :: r => hexchr (b / 16) :: hexchr (b mod 16) :: hexlify r
  end.

(* ------------------------------------------------------------------ *)
(* base64 *)

Definition b64val (c : N) : option N :=
  if (65 <=? c) && (c <=? 90) then Some (c - 65)
  else if (97 <=? c) && (c <=? 122) then Some (c - 71)
  else if (48 <=? c) && (c <=? 57) then Some (c + 4)
  else if c =? 43 then Some 62
  else if c =? 47 then Some 63
  else None.

Definition emit (b : N) (r : option bytes) : option bytes :=
  match r with Some bs => Some (b :: bs) | None => None end.

(* binascii.a2b_base64(strict_mode=False): characters outside the alphabet are skipped; a pad that
   completes a quad with at least two data characters ends the decoding (the rest is ignored);
   pads elsewhere are skipped; input must not end inside a quad.
   qp = quad_pos, left = leftchar, pads = pads seen since the last data character (counted only when qp >= 2) *)
Fixpoint a2b (l : str) (qp left pads : N) : option bytes :=
  match l with
  | [] => if qp =? 0 then Some [] else None
  | c :: r =>
      if c =? 61 then
        if 2 <=? qp then (if 4 <=? qp + (pads + 1) then Some [] else a2b r qp left (pads + 1))
        else a2b r qp left pads
      else
        match b64val c with
        | None => a2b r qp left pads
        | Some v =>
            if qp =? 0 then a2b r 1 v 0
            else if qp =? 1 then emit (left * 4 + v / 16) (a2b r 2 (v mod 16) 0)
            else if qp =? 2 then emit (left * 16 + v / 4) (a2b r 3 (v mod 4) 0)
            else emit (left * 64 + v) (a2b r 0 0 0)
        end
  end.

(* base64.b64decode(str): str.encode("ascii") first *)
Definition b64decode (l : str) : option bytes :=
  if forallb (fun c => c <? 128) l then a2b l 0 0 0 else None.

Definition b64chr (v : N) : N :=
  if v <? 26 then 65 + v else if v <? 52 then 71 + v else if v <? 62 then v - 4
  else if v =? 62 then 43 else 47.

Fixpoint b64encode (bs : bytes) : str :=
  match bs with
  | a :: b :: c :: r =>
      b64chr (a / 4) :: b64chr ((a mod 4) * 16 + b / 16) :: b64chr ((b mod 16) * 4 + c / 64) :: b64chr (c mod 64)
      :: b64encode r
  | [a; b] => [b64chr (a / 4); b64chr ((a mod 4) * 16 + b / 16); b64chr ((b mod 16) * 4); 61]
  | [a] => [b64chr (a / 4); b64chr ((a mod 4) * 16); 61; 61]
  | [] => []
  end.

(* ------------------------------------------------------------------ *)
(* the two datatypes and their rows in the reflected tables *)

Inductive bdt := BHex | BB64.

Definition bdt_name (d : bdt) : str :=
  match d with
  | BHex => [104; 101; 120; 66; 105; 110; 97; 114; 121]
  | BB64 => [98; 97; 115; 101; 54; 52; 66; 105; 110; 97; 114; 121]
  end.

Definition brow_of (d : bdt) : option (conv * chk * bool) :=
  match find (fun r => match r with (((ns, nm), _), _, _) => (ns =? 0) && str_eqb nm (bdt_name d) end) xsd_table with
  | Some (_, cv, ck, nu) => Some (cv, ck, nu)
  | None => None
  end.

(* the lexicaliser _castPythonToLiteral finds for a bytes value and this datatype:
   first specific rule with python type bytes (tag 5) and this datatype *)
Definition blex_of (d : bdt) : N :=
  match find (fun r => match r with ((tag, nm), _) => (tag =? 5) && str_eqb nm (bdt_name d) end) specific_rules with
  | Some (_, lx) => lx
  | None => 0
  end.

Definition bdecode_with (cv : conv) (l : str) : option bytes :=
  match cv with
  | CvHex => unhex l
  | CvB64 => b64decode l
  | _ => None
  end.

Definition bencode_with (lx : N) (bs : bytes) : option str :=
  if lx =? 1 then Some (hexlify bs) else if lx =? 2 then Some (b64encode bs) else None.

Definition bdecode (d : bdt) (l : str) : option bytes :=
  match brow_of d with Some (cv, _, _) => bdecode_with cv l | None => None end.
Definition bencode (d : bdt) (bs : bytes) : option str := bencode_with (blex_of d) bs.

Record blit := { b_lex : str; b_ill : option bool; b_val : option bytes }.

(* Literal(l, datatype=d, normalize=norm), l a str (or the ASCII bytes of a lexical form) *)
Definition bconstruct (d : bdt) (l : str) (norm : bool) : blit :=
  let v := bdecode d l in
  let ill := match brow_of d with
             | Some (_, CkByValue, _) => Some (match v with Some _ => false | None => true end)
             | Some _ => Some true       (* another checker: not modelled, the row theorem excludes it *)
             | None => None
             end in
  let lex := match v with
             | Some bs => if norm then (match bencode d bs with Some s => s | None => l end) else l
             | None => l
             end in
  {| b_lex := lex; b_ill := ill; b_val := v |}.

(* Literal.normalize(): the bytes value is lexicalised with _castPythonToLiteral, then Literal(form, datatype) *)
Definition bnormalize (d : bdt) (x : blit) : blit :=
  match b_val x with
  | Some bs => match bencode d bs with
               | Some s => bconstruct d s normalize_literals_default
               | None => x
               end
  | None => x
  end.

Definition bytes_eqb (a b : bytes) : bool := str_eqb a b.

Definition bdt_eqb (a b : bdt) : bool := match a, b with BHex, BHex | BB64, BB64 => true | _, _ => false end.

(* Literal.eq for two literals of these datatypes (not numeric, not string, not XML) *)
Definition beq_m (d1 : bdt) (a : blit) (d2 : bdt) (b : blit) : eqres :=
  if negb (bdt_eqb d1 d2) then EFalse
  else match b_val a, b_val b with
       | Some x, Some y => eqres_of (bytes_eqb x y)
       | _, _ => if str_eqb (b_lex a) (b_lex b) then ETrue else ETypeError
       end.

Definition bterm_eq (d1 : bdt) (a : blit) (d2 : bdt) (b : blit) : bool :=
  bdt_eqb d1 d2 && str_eqb (b_lex a) (b_lex b).

(* ================================================================== *)
(* XSD side *)

(* hexBinary: an even number of hex digits; value: the octets *)
Definition is_hex (c : N) : bool :=
  ((48 <=? c) && (c <=? 57)) || ((65 <=? c) && (c <=? 70)) || ((97 <=? c) && (c <=? 102)).
Definition hexdigit_value (c : N) : N :=
  if c <=? 57 then c - 48 else if c <=? 70 then c - 55 else c - 87.

Fixpoint xsd_hex (l : str) : option bytes :=
  match l with
  | [] => Some []
  | a :: b :: r =>
      if is_hex a && is_hex b then
        match xsd_hex r with
        | Some bs => Some (16 * hexdigit_value a + hexdigit_value b :: bs)
        | None => None
        end
      else None
  | _ => None
  end.

(* base64Binary (XSD 1.1 3.3.16): Base64 characters, each optionally followed by ONE blank, none after the
   last character; without the blanks: quads, the last one possibly XX== (X's low 4 bits zero) or XXX= (low 2 bits zero) *)
Definition is_b64 (c : N) : bool :=
  ((65 <=? c) && (c <=? 90)) || ((97 <=? c) && (c <=? 122)) || ((48 <=? c) && (c <=? 57)) || (c =? 43) || (c =? 47).
Definition b64_value (c : N) : N :=
  if (65 <=? c) && (c <=? 90) then c - 65 else if (97 <=? c) && (c <=? 122) then c - 71
  else if (48 <=? c) && (c <=? 57) then c + 4 else if c =? 43 then 62 else 63.

Definition b64_spacing_ok (l : str) : bool :=
  negb (starts_with_space l) && negb (ends_with_space l) && negb (has_double_space l)
  && forallb (fun c => is_b64 c || (c =? 61) || (c =? 32)) l.

Definition quad_bytes (a b c d : N) : bytes :=
  let n := ((b64_value a * 64 + b64_value b) * 64 + b64_value c) * 64 + b64_value d in
  [n / 65536; (n / 256) mod 256; n mod 256].

Fixpoint xsd_b64_quads (s : str) : option bytes :=
  match s with
  | [] => Some []
  | a :: b :: c :: d :: r =>
      if is_b64 a && is_b64 b then
        if (c =? 61) && (d =? 61) then
          (if is_nil r && (b64_value b mod 16 =? 0) then Some [b64_value a * 4 + b64_value b / 16] else None)
        else if is_b64 c && (d =? 61) then
          (if is_nil r && (b64_value c mod 4 =? 0)
           then Some [b64_value a * 4 + b64_value b / 16; (b64_value b mod 16) * 16 + b64_value c / 4] else None)
        else if is_b64 c && is_b64 d then
          match xsd_b64_quads r with
          | Some bs => Some (quad_bytes a b c d ++ bs)
          | None => None
          end
        else None
      else None
  | _ => None
  end.

Definition xsd_b64 (l : str) : option bytes :=
  if b64_spacing_ok l then xsd_b64_quads (filter (fun c => negb (c =? 32)) l) else None.

Definition xsd_bvalue (d : bdt) (l : str) : option bytes :=
  match d with BHex => xsd_hex l | BB64 => xsd_b64 l end.

(* ================================================================== *)
(* cases, observations, checker *)

Inductive bcase :=
| BLex (d : bdt) (l : str) (norm : bool)
| BPair (d1 : bdt) (l1 : str) (n1 : bool) (d2 : bdt) (l2 : str) (n2 : bool).

Inductive bobs :=
| OBLex (x n1 n2 re : blit) (e : eqres) (same : bool)
| OBPair (same : bool) (e : eqres)
| OBBad.

Definition blit_eqb (a b : blit) : bool :=
  str_eqb (b_lex a) (b_lex b) && opt_eqb Bool.eqb (b_ill a) (b_ill b) && opt_eqb bytes_eqb (b_val a) (b_val b).

Definition bobs_eqb (a b : bobs) : bool :=
  match a, b with
  | OBLex x n1 n2 re e s, OBLex x' n1' n2' re' e' s' =>
      blit_eqb x x' && blit_eqb n1 n1' && blit_eqb n2 n2' && blit_eqb re re' && eqres_eqb e e' && Bool.eqb s s'
  | OBPair s e, OBPair s' e' => Bool.eqb s s' && eqres_eqb e e'
  | _, _ => false
  end.

Definition bmodel_obs (c : bcase) : bobs :=
  match c with
  | BLex d l norm =>
      let x := bconstruct d l norm in
      let n1 := bnormalize d x in
      let n2 := bnormalize d n1 in
      let re := bconstruct d (b_lex x) true in
      OBLex x n1 n2 re (beq_m d x d n1) (bterm_eq d x d n1)
  | BPair d1 l1 n1 d2 l2 n2 =>
      let a := bconstruct d1 l1 n1 in
      let b := bconstruct d2 l2 n2 in
      OBPair (bterm_eq d1 a d2 b) (beq_m d1 a d2 b)
  end.

Definition bval_is (v : option bytes) (bs : bytes) : bool :=
  match v with Some w => bytes_eqb w bs | None => false end.
Definition blex_is (d : bdt) (l : str) (bs : bytes) : bool := bval_is (xsd_bvalue d l) bs.

Definition bvalid_ok (d : bdt) (l : str) (norm : bool) (bs : bytes) (x n1 re : blit) (e : eqres) : bool :=
  opt_eqb Bool.eqb (b_ill x) (Some false)
  && bval_is (b_val x) bs && blex_is d (b_lex x) bs
  && (norm || str_eqb (b_lex x) l)
  && bval_is (b_val n1) bs && blex_is d (b_lex n1) bs && opt_eqb Bool.eqb (b_ill n1) (Some false)
  && bval_is (b_val re) bs && blex_is d (b_lex re) bs && opt_eqb Bool.eqb (b_ill re) (Some false)
  && eqres_eqb e ETrue.

Definition bspec_ok (c : bcase) (o : bobs) : bool :=
  match c, o with
  | BLex d l norm, OBLex x n1 n2 re e same =>
      (match xsd_bvalue d l with
       | Some bs => bvalid_ok d l norm bs x n1 re e
       | None => true
       end)
      && str_eqb (b_lex n2) (b_lex n1) && opt_eqb bytes_eqb (b_val n2) (b_val n1)
      && implb' norm (str_eqb (b_lex re) (b_lex x))
      && implb' same (eqres_eqb e ETrue)
  | BPair d1 l1 n1 d2 l2 n2, OBPair same e =>
      implb' same (eqres_eqb e ETrue)
      && match xsd_bvalue d1 l1, xsd_bvalue d2 l2 with
         | Some x1, Some x2 => if bdt_eqb d1 d2 then eqres_eqb e (eqres_of (bytes_eqb x1 x2)) else true
         | _, _ => true
         end
  | _, _ => false
  end.

Definition bkf (c : bcase) : N := 0.
