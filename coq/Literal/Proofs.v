(* C09 - proofs about coq/Literal/Model.v *)
From Coq Require Import List NArith ZArith Bool Lia.
Import ListNotations.
From RV Require Import Literal.Model Literal.Token.
Local Open Scope N_scope.

(* ------------------------------------------------------------------ *)
(* strings *)

Lemma str_eqb_refl : forall s, str_eqb s s = true.
Proof. induction s; simpl; [reflexivity|]. rewrite N.eqb_refl. exact IHs. Qed.

Lemma str_eqb_eq : forall a b, str_eqb a b = true <-> a = b.
Proof.
  induction a; destruct b; simpl; split; intro H; try reflexivity; try discriminate.
  - apply andb_true_iff in H. destruct H as [H1 H2]. apply N.eqb_eq in H1. apply IHa in H2. congruence.
  - inversion H; subst. rewrite N.eqb_refl. apply str_eqb_refl.
Qed.

(* ------------------------------------------------------------------ *)
(* decimal digits *)

Definition step (a c : N) : N := 10 * a + (c - 48).

Lemma dec_value_app : forall a c, dec_value (a ++ [c]) = 10 * dec_value a + (c - 48).
Proof. intros. unfold dec_value. rewrite fold_left_app. reflexivity. Qed.

Lemma is_dig_range : forall c, is_dig c = true <-> 48 <= c <= 57.
Proof. intro c. unfold is_dig. rewrite andb_true_iff, !N.leb_le. tauto. Qed.

Lemma is_dig_digit : forall k, k < 10 -> is_dig (48 + k) = true.
Proof. intros. apply is_dig_range. lia. Qed.

Lemma digs_fuel_spec : forall fuel n, n < 2 ^ N.of_nat fuel ->
  dec_value (digs_fuel fuel n) = n /\ forallb is_dig (digs_fuel fuel n) = true /\ digs_fuel fuel n <> [].
Proof.
  induction fuel; intros n Hn.
  - simpl in Hn. assert (n = 0) by lia. subst. split; [reflexivity|split; [reflexivity|discriminate]].
  - cbn [digs_fuel]. destruct (n <? 10) eqn:E.
    + apply N.ltb_lt in E. repeat split.
      * unfold dec_value. cbn [fold_left]. lia.
      * cbn [forallb]. rewrite is_dig_digit by assumption. reflexivity.
      * discriminate.
    + apply N.ltb_ge in E.
      assert (Hq : n / 10 < 2 ^ N.of_nat fuel).
      { apply N.div_lt_upper_bound; [lia|].
        rewrite Nat2N.inj_succ, N.pow_succ_r' in Hn. lia. }
      destruct (IHfuel _ Hq) as (V & D & NE).
      repeat split.
      * rewrite dec_value_app, V.
        assert (n mod 10 < 10) by (apply N.mod_lt; lia).
        assert (Hdm : n = 10 * (n / 10) + n mod 10) by (apply N.div_mod; lia).
        rewrite N.add_comm with (n := 48), N.add_sub. symmetry. exact Hdm.
      * rewrite forallb_app, D. cbn [forallb andb]. rewrite is_dig_digit; [reflexivity|apply N.mod_lt; lia].
      * destruct (digs_fuel fuel (n / 10)); [congruence|discriminate].
Qed.

Lemma digs_spec : forall n,
  dec_value (digs n) = n /\ forallb is_dig (digs n) = true /\ digs n <> [].
Proof.
  intro n. unfold digs. apply digs_fuel_spec. rewrite N2Nat.id. apply N.size_gt.
Qed.

(* ------------------------------------------------------------------ *)
(* int(str) on XSD integer forms *)

Lemma dval_dig : forall c, is_dig c = true -> dval c = Some (c - 48).
Proof.
  intros c H. unfold dval. apply is_dig_range in H as R.
  replace (c <? 128) with true by (symmetry; apply N.ltb_lt; lia). rewrite H. reflexivity.
Qed.

Lemma int_space_dig : forall c, is_dig c = true -> int_space c = false.
Proof.
  intros c H. apply is_dig_range in H. unfold int_space, c_isspace.
  replace (c <? 128) with true by (symmetry; apply N.ltb_lt; lia).
  replace (c <=? 13) with false by (symmetry; apply N.leb_gt; lia).
  replace (c =? 32) with false by (symmetry; apply N.eqb_neq; lia).
  rewrite andb_false_r. reflexivity.
Qed.

Lemma int_body_digits : forall r acc, forallb is_dig r = true ->
  int_body acc r = Some (fold_left step r acc).
Proof.
  induction r as [|c r IH]; intros acc H; cbn [int_body fold_left]; [reflexivity|].
  cbn in H. apply andb_true_iff in H. destruct H as [Hc Hr].
  rewrite (dval_dig _ Hc). apply IH. exact Hr.
Qed.

Lemma split_sign_dig : forall c r, is_dig c = true -> split_sign (c :: r) = (false, c :: r).
Proof.
  intros c r H. apply is_dig_range in H. unfold split_sign.
  replace (c =? 43) with false by (symmetry; apply N.eqb_neq; lia).
  replace (c =? 45) with false by (symmetry; apply N.eqb_neq; lia). reflexivity.
Qed.

Lemma py_int_body : forall neg b, b <> [] -> forallb is_dig b = true ->
  match b with
  | c :: r => match dval c with
              | Some d => match int_body d r with Some n => Some (zsign neg n) | None => None end
              | None => None
              end
  | [] => None
  end = Some (zsign neg (dec_value b)).
Proof.
  intros neg b NE D. destruct b as [|c r]; [congruence|].
  cbn in D. apply andb_true_iff in D. destruct D as [Hc Hr].
  rewrite (dval_dig _ Hc), (int_body_digits _ _ Hr).
  unfold dec_value. cbn [fold_left]. reflexivity.
Qed.

(* every form of the XSD integer lexical space is read by int() with the XSD value *)
Lemma py_int_xsd : forall l z, xsd_int_lex l = Some z -> py_int l = Some z.
Proof.
  intros l z H. unfold xsd_int_lex in H.
  destruct (split_sign l) as [neg b] eqn:S.
  destruct (negb (is_nil b) && forallb is_dig b) eqn:E; [|discriminate].
  apply andb_true_iff in E. destruct E as [NE D]. inversion H; subst z; clear H.
  assert (Hb : b <> []) by (destruct b; [discriminate|discriminate]).
  unfold py_int.
  destruct l as [|c r]; [cbn in S; inversion S; subst; congruence|].
  assert (Hsp : drop_while int_space (c :: r) = c :: r).
  { cbn [drop_while]. unfold split_sign in S.
    destruct (c =? 43) eqn:E1; [apply N.eqb_eq in E1; subst; reflexivity|].
    destruct (c =? 45) eqn:E2; [apply N.eqb_eq in E2; subst; reflexivity|].
    inversion S; subst. cbn in D. apply andb_true_iff in D. destruct D as [Dc _].
    rewrite (int_space_dig _ Dc). reflexivity. }
  rewrite Hsp, S. apply py_int_body; assumption.
Qed.

(* str(int) is in the XSD lexical space and denotes the integer *)
Lemma xsd_int_print : forall z, xsd_int_lex (print_z z) = Some z.
Proof.
  intro z. unfold xsd_int_lex, print_z.
  destruct z as [|p|p].
  - reflexivity.
  - destruct (digs_spec (Z.to_N (Z.pos p))) as (V & D & NE).
    destruct (digs (Z.to_N (Z.pos p))) as [|c r] eqn:E; [congruence|].
    cbn in D. apply andb_true_iff in D as D'. destruct D' as [Dc _].
    rewrite (split_sign_dig _ _ Dc). cbn [is_nil negb andb]. cbn [forallb]. rewrite D.
    rewrite V. reflexivity.
  - destruct (digs_spec (N.pos p)) as (V & D & NE).
    change (split_sign (45 :: digs (N.pos p))) with (true, digs (N.pos p)).
    cbv beta iota.
    destruct (digs (N.pos p)) as [|c r] eqn:E; [congruence|].
    cbn [is_nil negb andb]. rewrite D, V. reflexivity.
Qed.

Lemma py_int_print : forall z, py_int (print_z z) = Some z.
Proof. intro z. apply py_int_xsd, xsd_int_print. Qed.

(* ------------------------------------------------------------------ *)
(* the reflected table: rows of the integer datatypes, boolean, string family *)

Definition is_int_dt (d : dt) : bool := match family_of d with FamInt => true | _ => false end.

Definition in_range (r : option Z * option Z) (z : Z) : bool := zle_opt_l (fst r) z && zle_opt_r z (snd r).

(* what rdflib checks for an integer datatype: converter int, numeric, and a checker that
   accepts at least the XSD range (for xsd:long and xsd:unsignedLong it accepts more) *)
Definition int_row_ok (d : dt) : bool :=
  match row_of d with
  | Some (CvInt, CkByValue, true) => true
  | Some (CvInt, CkRange lo hi _, true) =>
      (* the checker's interval contains the XSD interval *)
      (match lo, fst (xsd_range d) with
       | None, _ => true | Some a, Some b => (a <=? b)%Z | Some _, None => false end)
      && (match hi, snd (xsd_range d) with
          | None, _ => true | Some a, Some b => (b <=? a)%Z | Some _, None => false end)
  | _ => false
  end.

Lemma int_rows : forallb (fun d => implb (is_int_dt d) (int_row_ok d)) all_dt = true.
Proof. vm_compute. reflexivity. Qed.

Lemma all_dt_complete : forall d, In d all_dt.
Proof. destruct d; cbn; tauto. Qed.

Lemma int_row : forall d, is_int_dt d = true -> int_row_ok d = true.
Proof.
  intros d H. pose proof int_rows as A. rewrite forallb_forall in A.
  specialize (A d (all_dt_complete d)). rewrite H in A. exact A.
Qed.

(* exact agreement of the checker with the XSD range, for the types where it holds *)
Definition int_row_exact (d : dt) : bool :=
  match row_of d with
  | Some (CvInt, CkByValue, true) =>
      match xsd_range d with (None, None) => true | _ => false end
  | Some (CvInt, CkRange lo hi _, true) =>
      match xsd_range d with
      | (lo', hi') => opt_eqb Z.eqb lo lo' && opt_eqb Z.eqb hi hi'
      end
  | _ => false
  end.

Lemma int_rows_exact :
  filter (fun d => is_int_dt d && negb (int_row_exact d)) all_dt = [DLong; DUnsignedLong].
Proof. vm_compute. reflexivity. Qed.

Lemma bool_row : row_of DBoolean = Some (CvBool, CkLex [s_true; s_false; [49]; [48]], false).
Proof. vm_compute. reflexivity. Qed.

Lemma decimal_row : row_of DDecimal = Some (CvDecimal, CkByValue, true).
Proof. vm_compute. reflexivity. Qed.

Lemma str_rows : forall d, family_of d = FamStr -> row_of d = Some (CvIdent, CkByValue, false).
Proof. destruct d; intro H; try discriminate; vm_compute; reflexivity. Qed.

(* the rules chosen for python values: bool before int, lexicalisers where expected *)
Lemma rules_shape :
  (forall z, cast_python (VInt z) = (print_z z, Some (dt_name DInteger)))
  /\ (forall b, cast_python (VBool b) = ((if b then s_true else s_false), Some (dt_name DBoolean)))
  /\ (forall s, cast_python (VStr s) = (s, None))
  /\ (forall d, cast_python (VDec d) = (fformat d, Some (dt_name DDecimal))).
Proof.
  repeat split; intros; unfold cast_python, generic_rule; cbn; reflexivity.
Qed.

Lemma default_normalize : normalize_literals_default = true.
Proof. reflexivity. Qed.

(* ------------------------------------------------------------------ *)
(* the integer datatypes are faithful *)

Lemma xsd_value_int : forall d l xv, is_int_dt d = true -> xsd_value d l = Some xv ->
  exists z, xsd_int_lex l = Some z /\ xv = XNum z O /\ in_range (xsd_range d) z = true.
Proof.
  intros d l xv Hd H. unfold xsd_value in H. unfold is_int_dt in Hd.
  destruct (family_of d); try discriminate.
  destruct (xsd_int_lex l) as [z|]; [|discriminate].
  destruct (xsd_range d) as [lo hi] eqn:R.
  destruct (zle_opt_l lo z && zle_opt_r z hi) eqn:E; [|discriminate].
  inversion H; subst. exists z. repeat split. unfold in_range. exact E.
Qed.

Lemma xsd_value_int_intro : forall d l z, is_int_dt d = true ->
  xsd_int_lex l = Some z -> in_range (xsd_range d) z = true -> xsd_value d l = Some (XNum z O).
Proof.
  intros d l z Hd H R. unfold xsd_value. unfold is_int_dt in Hd.
  destruct (family_of d); try discriminate. rewrite H.
  unfold in_range in R. destruct (xsd_range d) as [lo hi]. cbn in R. rewrite R. reflexivity.
Qed.

Lemma xsd_int_lex_nonempty : forall l z, xsd_int_lex l = Some z -> is_nil l = false.
Proof.
  intros l z H. destruct l; [|reflexivity]. cbn in H. discriminate.
Qed.

Lemma zle_l_weaken : forall a b z, (match a, b with None, _ => true | Some x, Some y => (x <=? y)%Z | Some _, None => false end) = true ->
  zle_opt_l b z = true -> zle_opt_l a z = true.
Proof.
  intros [a|] [b|] z H1 H2; cbn in *; try reflexivity; try discriminate.
  apply Z.leb_le in H1, H2. apply Z.leb_le. lia.
Qed.

Lemma zle_r_weaken : forall a b z, (match a, b with None, _ => true | Some x, Some y => (y <=? x)%Z | Some _, None => false end) = true ->
  zle_opt_r z b = true -> zle_opt_r z a = true.
Proof.
  intros [a|] [b|] z H1 H2; cbn in *; try reflexivity; try discriminate.
  apply Z.leb_le in H1, H2. apply Z.leb_le. lia.
Qed.

(* row facts in usable form *)
Lemma int_row_facts : forall d, is_int_dt d = true ->
  exists ck, row_of d = Some (CvInt, ck, true) /\
    forall l z, is_nil l = false -> in_range (xsd_range d) z = true -> check_with ck l (Some (VInt z)) = true.
Proof.
  intros d Hd. pose proof (int_row d Hd) as H. unfold int_row_ok in H.
  destruct (row_of d) as [[[cv ck] nu]|]; [|discriminate].
  destruct cv; try discriminate.
  destruct ck as [| |acc|lo hi ne]; try discriminate; destruct nu; try discriminate.
  - exists CkByValue. split; [reflexivity|]. intros. reflexivity.
  - exists (CkRange lo hi ne). split; [reflexivity|]. intros l z NE R.
    apply andb_true_iff in H. destruct H as [H1 H2].
    unfold in_range in R. apply andb_true_iff in R. destruct R as [R1 R2].
    cbn [check_with]. rewrite NE. cbn [negb].
    rewrite (zle_l_weaken _ _ _ H1 R1), (zle_r_weaken _ _ _ H2 R2). destruct ne; reflexivity.
Qed.

Lemma is_int_dt_post : forall d s, is_int_dt d = true -> post d s = s.
Proof. destruct d; intros s H; try discriminate; reflexivity. Qed.

Lemma is_int_dt_plain : forall d, is_int_dt d = true -> is_plain d = false.
Proof. destruct d; intro H; try discriminate; reflexivity. Qed.

Lemma is_int_dt_not_plain : forall d, is_int_dt d = true -> d <> DPlain.
Proof. destruct d; intro H; try discriminate; congruence. Qed.

Lemma xval_eqb_num_refl : forall z, xval_eqb (XNum z O) (XNum z O) = true.
Proof. intro z. cbn. apply Z.eqb_refl. Qed.

Section IntFaithful.
  Variable d : dt.
  Hypothesis Hd : is_int_dt d = true.

  (* construction from a valid form *)
  Lemma int_construct_valid : forall l z norm,
    xsd_value d l = Some (XNum z O) ->
    construct d l norm =
      {| l_lex := if norm then print_z z else l; l_ill := Some false; l_val := Some (VInt z) |}.
  Proof.
    intros l z norm H.
    destruct (xsd_value_int d l _ Hd H) as (z' & L & E & R). inversion E; subst z'; clear E.
    destruct (int_row_facts d Hd) as (ck & Row & Chk).
    unfold construct, parse_m. rewrite Row. cbn [parse_with].
    rewrite (py_int_xsd _ _ L).
    rewrite (Chk l z (xsd_int_lex_nonempty _ _ L) R). cbn [negb].
    rewrite (proj1 rules_shape z). cbn [fst]. rewrite (is_int_dt_post d _ Hd), (is_int_dt_plain d Hd).
    reflexivity.
  Qed.

  Lemma int_print_valid : forall z, in_range (xsd_range d) z = true ->
    xsd_value d (print_z z) = Some (XNum z O).
  Proof. intros. apply xsd_value_int_intro; auto using xsd_int_print. Qed.

  Lemma int_from_python : forall z,
    from_python (VInt z) d = {| l_lex := print_z z; l_ill := None; l_val := Some (VInt z) |}.
  Proof.
    intro z. unfold from_python. rewrite (proj1 rules_shape z). cbn [fst]. rewrite (is_int_dt_post d _ Hd). reflexivity.
  Qed.

  Lemma int_is_numeric : is_numeric d = true.
  Proof. unfold is_numeric. destruct (int_row_facts d Hd) as (ck & Row & _). rewrite Row. reflexivity. Qed.
End IntFaithful.

(* the faithfulness statement for one integer datatype, at the level of the pipeline *)
Definition int_faithful (d : dt) : Prop :=
  (* parse (print v) = v, and the printed form is in the lexical space with value v *)
  (forall z, py_int (print_z z) = Some z /\ xsd_int_lex (print_z z) = Some z)
  /\ (* every valid form is accepted, not flagged, gets the XSD value; with normalisation the stored
        form is print of that value, which is again valid with the same value *)
  (forall l z norm, xsd_value d l = Some (XNum z O) ->
     l_ill (construct d l norm) = Some false
     /\ l_val (construct d l norm) = Some (VInt z)
     /\ xsd_value d (l_lex (construct d l norm)) = Some (XNum z O)
     /\ normalize_m d (construct d l norm) = {| l_lex := print_z z; l_ill := None; l_val := Some (VInt z) |}
     /\ normalize_m d (normalize_m d (construct d l norm)) = normalize_m d (construct d l norm)
     /\ construct d (l_lex (construct d l true)) true = construct d l true).

Lemma int_faithful_all : forall d, is_int_dt d = true -> int_faithful d.
Proof.
  intros d Hd. split.
  - intro z. split; [apply py_int_print|apply xsd_int_print].
  - intros l z norm H.
    destruct (xsd_value_int d l _ Hd H) as (z' & L & E & R). inversion E; subst z'; clear E.
    rewrite (int_construct_valid d Hd l z norm H).
    cbn [l_ill l_val l_lex].
    assert (N1 : normalize_m d {| l_lex := if norm then print_z z else l; l_ill := Some false; l_val := Some (VInt z) |}
                 = {| l_lex := print_z z; l_ill := None; l_val := Some (VInt z) |}).
    { unfold normalize_m. cbn [l_val literal_of_value]. apply int_from_python. exact Hd. }
    repeat split.
    + destruct norm; [apply int_print_valid; assumption|exact H].
    + exact N1.
    + rewrite (int_construct_valid d Hd l z true H). cbn [l_lex].
      apply (int_construct_valid d Hd (print_z z) z true). apply int_print_valid; assumption.
Qed.

(* ------------------------------------------------------------------ *)
(* boolean *)

Lemma bool_faithful :
  (forall b, parse_m DBoolean (fst (cast_python (VBool b))) = Some (VBool b)
             /\ xsd_value DBoolean (fst (cast_python (VBool b))) = Some (XBool b))
  /\ (forall l b norm, xsd_value DBoolean l = Some (XBool b) ->
        construct DBoolean l norm =
          {| l_lex := if norm then (if b then s_true else s_false) else l; l_ill := Some false; l_val := Some (VBool b) |}).
Proof.
  split.
  - intros []; split; vm_compute; reflexivity.
  - intros l b norm H. unfold xsd_value in H. cbn [family_of] in H.
    unfold xsd_bool_lex in H.
    destruct (str_eqb l s_true || str_eqb l [49]) eqn:E1.
    + inversion H; subst b. apply orb_true_iff in E1.
      destruct E1 as [E|E]; apply str_eqb_eq in E; subst l; destruct norm; vm_compute; reflexivity.
    + destruct (str_eqb l s_false || str_eqb l [48]) eqn:E2; [|discriminate].
      inversion H; subst b. apply orb_true_iff in E2.
      destruct E2 as [E|E]; apply str_eqb_eq in E; subst l; destruct norm; vm_compute; reflexivity.
Qed.

(* ------------------------------------------------------------------ *)
(* string family: the value is the string offered; in the XSD lexical spaces the
   white-space rewriting is the identity except for what str.strip() strips *)

Lemma str_construct : forall d l norm, family_of d = FamStr ->
  construct d l norm = {| l_lex := post d l; l_ill := (match d with DPlain => None | _ => Some false end);
                          l_val := Some (VStr (if is_ws_type d then post d l else l)) |}.
Proof.
  intros d l norm H. unfold construct, parse_m. rewrite (str_rows d H). cbn [parse_with check_with negb].
  rewrite (proj1 (proj2 (proj2 rules_shape)) l). cbn [fst].
  destruct d; try discriminate; destruct norm; reflexivity.
Qed.

(* the stored value of a string-family literal is its stored form *)
Lemma str_value_is_form : forall d l norm, family_of d = FamStr ->
  l_val (construct d l norm) = Some (VStr (l_lex (construct d l norm))) .
Proof.
  intros d l norm H. rewrite (str_construct d l norm H). cbn [l_val l_lex].
  destruct d; try discriminate; reflexivity.
Qed.

(* a form in the lexical space is kept as it is *)
Lemma str_valid_kept : forall d l xv, family_of d = FamStr -> xsd_value d l = Some xv -> post d l = l /\ xv = XStr l.
Proof.
  intros d l xv H V. unfold xsd_value in V. rewrite H in V.
  destruct d; try discriminate; try (inversion V; split; reflexivity).
  - destruct (no_tab_nl l) eqn:E; [|discriminate]. inversion V. split; [apply post_nstring_valid; exact E|reflexivity].
  - destruct (xsd_token_ok l) eqn:E; [|discriminate]. inversion V. split; [apply post_token_valid; exact E|reflexivity].
Qed.

(* whatever is offered, the stored form is in the lexical space and the value is that form *)
Lemma str_stored_valid : forall d s, family_of d = FamStr -> xsd_value d (post d s) = Some (XStr (post d s)).
Proof.
  intros d s H. unfold xsd_value. rewrite H.
  destruct d; try discriminate; try reflexivity.
  - rewrite post_nstring_ok. reflexivity.
  - rewrite post_token_ok. reflexivity.
Qed.

(* ------------------------------------------------------------------ *)
(* generic: idempotence of normalisation from parse . print = id *)

Section Generic.
  Variables (V : Type) (parse : str -> option V) (print : V -> str).
  Hypothesis parse_print : forall v, parse (print v) = Some v.

  Definition g_normalize (l : str) : str := match parse l with Some v => print v | None => l end.
  Definition g_value (l : str) : option V := parse l.

  Lemma g_normalize_idempotent : forall l,
    g_normalize (g_normalize l) = g_normalize l /\ (g_value l <> None -> g_value (g_normalize l) = g_value l).
  Proof.
    intro l. unfold g_normalize, g_value. destruct (parse l) as [v|] eqn:E.
    - rewrite parse_print. split; [reflexivity|]. intros _. reflexivity.
    - rewrite E. split; [reflexivity|]. congruence.
  Qed.
End Generic.

(* the integer converter/printer pair is an instance *)
Lemma int_instance : forall l,
  g_normalize Z py_int print_z (g_normalize Z py_int print_z l) = g_normalize Z py_int print_z l.
Proof. intro l. apply (g_normalize_idempotent Z py_int print_z py_int_print l). Qed.

(* construction-time normalisation is idempotent for every integer datatype, every form
   (valid, over-accepted, out of range, unreadable) *)
Lemma int_construct_idempotent : forall d l, is_int_dt d = true ->
  l_lex (construct d (l_lex (construct d l true)) true) = l_lex (construct d l true)
  /\ l_val (construct d (l_lex (construct d l true)) true) = l_val (construct d l true).
Proof.
  intros d l Hd. destruct (int_row_facts d Hd) as (ck & Row & _).
  unfold construct, parse_m. rewrite Row. cbn [parse_with].
  destruct (py_int l) as [z|] eqn:E.
  - cbn [l_lex l_val]. repeat rewrite (proj1 rules_shape z). cbn [fst].
    repeat rewrite (is_int_dt_post d _ Hd). rewrite py_int_print.
    repeat rewrite (proj1 rules_shape z). cbn [fst]. split; reflexivity.
  - cbn [l_lex l_val]. repeat rewrite (is_int_dt_post d _ Hd). rewrite E. split; reflexivity.
Qed.

(* Literal.normalize() is idempotent for every modelled datatype and every literal that
   construction can produce *)
Lemma normalize_m_idempotent : forall d l norm,
  normalize_m d (normalize_m d (construct d l norm)) = normalize_m d (construct d l norm).
Proof.
  intros d l norm. remember (construct d l norm) as x eqn:X.
  unfold normalize_m at 2 3. destruct (l_val x) as [v|] eqn:E.
  - destruct v; try (unfold normalize_m; cbn [literal_of_value from_python l_val]; reflexivity).
    (* a str value: only the identity converter produces one *)
    cbn [literal_of_value].
    assert (Hs : family_of d = FamStr).
    { subst x. unfold construct, parse_m in E. cbn [l_val] in E.
      destruct d; try reflexivity; exfalso; revert E;
        (match goal with |- context [row_of ?x] => let r := eval vm_compute in (row_of x) in change (row_of x) with r end);
        cbn [parse_with]; try (destruct (py_int l); discriminate); try (destruct (py_decimal l); discriminate); discriminate. }
    (* the value is the stored form, re-processing it changes nothing *)
    assert (Hp : post d s = s).
    { subst x. rewrite (str_construct d l norm Hs) in E. cbn [l_val] in E. injection E as E'.
      destruct (is_ws_type d) eqn:W; [subst s; apply post_idem|].
      destruct d; try discriminate; reflexivity. }
    rewrite (str_construct d s _ Hs). unfold normalize_m. cbn [l_val literal_of_value].
    rewrite Hp. destruct (is_ws_type d); rewrite (str_construct d s _ Hs), Hp; destruct (is_ws_type d); reflexivity.
  - unfold normalize_m. rewrite E. reflexivity.
Qed.

(* ------------------------------------------------------------------ *)
(* eq against the value space, integer datatypes *)

Lemma int_eq_vs_value : forall d1 d2 l1 l2 z1 z2 n1 n2,
  is_int_dt d1 = true -> is_int_dt d2 = true ->
  xsd_value d1 l1 = Some (XNum z1 O) -> xsd_value d2 l2 = Some (XNum z2 O) ->
  eq_m d1 (construct d1 l1 n1) d2 (construct d2 l2 n2) = eqres_of (z1 =? z2)%Z.
Proof.
  intros d1 d2 l1 l2 z1 z2 n1 n2 H1 H2 V1 V2.
  rewrite (int_construct_valid d1 H1 l1 z1 n1 V1), (int_construct_valid d2 H2 l2 z2 n2 V2).
  unfold eq_m. rewrite (int_is_numeric d1 H1), (int_is_numeric d2 H2). reflexivity.
Qed.

(* term equality implies eq, for literals of integer datatypes built from valid forms *)
Lemma int_same_implies_eq : forall d l1 l2 z1 z2 n1 n2,
  is_int_dt d = true ->
  xsd_value d l1 = Some (XNum z1 O) -> xsd_value d l2 = Some (XNum z2 O) ->
  term_eq d (construct d l1 n1) d (construct d l2 n2) = true ->
  eq_m d (construct d l1 n1) d (construct d l2 n2) = ETrue.
Proof.
  intros d l1 l2 z1 z2 n1 n2 Hd V1 V2 T.
  rewrite (int_eq_vs_value d d l1 l2 z1 z2 n1 n2 Hd Hd V1 V2).
  rewrite (int_construct_valid d Hd l1 z1 n1 V1), (int_construct_valid d Hd l2 z2 n2 V2) in T.
  unfold term_eq in T. cbn [l_lex] in T. apply andb_true_iff in T. destruct T as [_ T].
  apply str_eqb_eq in T.
  destruct (xsd_value_int d l1 _ Hd V1) as (a & L1 & E1 & _). inversion E1; subst a.
  destruct (xsd_value_int d l2 _ Hd V2) as (b & L2 & E2 & _). inversion E2; subst b.
  assert (z1 = z2).
  { assert (X1 : xsd_int_lex (if n1 then print_z z1 else l1) = Some z1) by (destruct n1; [apply xsd_int_print|exact L1]).
    assert (X2 : xsd_int_lex (if n2 then print_z z2 else l2) = Some z2) by (destruct n2; [apply xsd_int_print|exact L2]).
    rewrite T in X1. congruence. }
  subst. rewrite Z.eqb_refl. reflexivity.
Qed.

