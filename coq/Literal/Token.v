(* C09 - white-space processing of xsd:normalizedString / xsd:token
   (_normalise_XSD_STRING, _strip_and_collapse_whitespace as repaired: strip(" ")) *)
From Coq Require Import List NArith Bool Lia.
Import ListNotations.
From RV Require Import Literal.Model.
Local Open Scope N_scope.

Definition is_tab (c : N) : bool := (c =? 9) || (c =? 10) || (c =? 13).

Lemma no_tab_nl_cons : forall c r, no_tab_nl (c :: r) = negb (is_tab c) && no_tab_nl r.
Proof. reflexivity. Qed.

Lemma norm_ws_cons : forall c r, norm_ws (c :: r) = (if is_tab c then 32 else c) :: norm_ws r.
Proof. reflexivity. Qed.

Lemma norm_ws_no_tab : forall s, no_tab_nl (norm_ws s) = true.
Proof.
  induction s as [|c r IH]; [reflexivity|].
  rewrite norm_ws_cons, no_tab_nl_cons, IH, andb_true_r.
  destruct (is_tab c) eqn:E; [reflexivity|]. rewrite E. reflexivity.
Qed.

Lemma norm_ws_id : forall s, no_tab_nl s = true -> norm_ws s = s.
Proof.
  induction s as [|c r IH]; intro H; [reflexivity|].
  rewrite no_tab_nl_cons in H. apply andb_true_iff in H. destruct H as [Hc Hr].
  rewrite norm_ws_cons, (IH Hr). apply negb_true_iff in Hc. rewrite Hc. reflexivity.
Qed.

Lemma no_tab_drop_while : forall f s, no_tab_nl s = true -> no_tab_nl (drop_while f s) = true.
Proof.
  induction s as [|c r IH]; intro H; [reflexivity|].
  cbn [drop_while]. destruct (f c); [|exact H].
  rewrite no_tab_nl_cons in H. apply andb_true_iff in H. apply IH. tauto.
Qed.

Lemma no_tab_rstrip32 : forall s, no_tab_nl s = true -> no_tab_nl (rstrip32 s) = true.
Proof.
  induction s as [|c r IH]; intro H; [reflexivity|].
  rewrite no_tab_nl_cons in H. apply andb_true_iff in H. destruct H as [Hc Hr].
  cbn [rstrip32]. specialize (IH Hr). destruct (rstrip32 r) as [|a r'].
  - destruct (c =? 32); [reflexivity|]. rewrite no_tab_nl_cons, Hc. reflexivity.
  - rewrite no_tab_nl_cons, Hc, IH. reflexivity.
Qed.

Lemma no_tab_collapse_from : forall s p, no_tab_nl s = true -> no_tab_nl (collapse_from p s) = true.
Proof.
  induction s as [|c r IH]; intros p H; [reflexivity|].
  rewrite no_tab_nl_cons in H. apply andb_true_iff in H. destruct H as [Hc Hr].
  cbn [collapse_from]. destruct (c =? 32).
  - destruct p; [apply IH; exact Hr|]. rewrite no_tab_nl_cons, (IH true Hr). reflexivity.
  - rewrite no_tab_nl_cons, Hc, (IH false Hr). reflexivity.
Qed.

(* ---- leading blanks ---- *)

Lemma starts_drop_while : forall s, starts_with_space (drop_while (N.eqb 32) s) = false.
Proof.
  induction s as [|c r IH]; [reflexivity|].
  cbn [drop_while]. destruct (32 =? c) eqn:E; [exact IH|].
  cbn [starts_with_space]. rewrite N.eqb_sym. exact E.
Qed.

Lemma drop_while_id : forall s, starts_with_space s = false -> drop_while (N.eqb 32) s = s.
Proof.
  destruct s as [|c r]; intro H; [reflexivity|].
  cbn [starts_with_space] in H. cbn [drop_while]. rewrite N.eqb_sym, H. reflexivity.
Qed.

(* ---- trailing blanks ---- *)

Lemma rstrip32_cons : forall c r,
  rstrip32 (c :: r) = match rstrip32 r with [] => if c =? 32 then [] else [c] | r' => c :: r' end.
Proof. reflexivity. Qed.

Lemma collapse_from_cons : forall p c r,
  collapse_from p (c :: r) =
  if c =? 32 then (if p then collapse_from true r else 32 :: collapse_from true r) else c :: collapse_from false r.
Proof. reflexivity. Qed.

Lemma ends_cons2 : forall c a r, ends_with_space (c :: a :: r) = ends_with_space (a :: r).
Proof. reflexivity. Qed.

Lemma ends_rstrip32 : forall s, ends_with_space (rstrip32 s) = false.
Proof.
  induction s as [|c r IH]; [reflexivity|].
  cbn [rstrip32]. destruct (rstrip32 r) as [|a r'].
  - destruct (c =? 32) eqn:E; [reflexivity|]. cbn. exact E.
  - rewrite ends_cons2. exact IH.
Qed.

Lemma rstrip32_id : forall s, ends_with_space s = false -> rstrip32 s = s.
Proof.
  induction s as [|c r IH]; intro H; [reflexivity|].
  destruct r as [|a r''].
  - cbn in H. cbn [rstrip32]. rewrite H. reflexivity.
  - rewrite ends_cons2 in H. rewrite rstrip32_cons, (IH H). reflexivity.
Qed.

Lemma starts_rstrip32 : forall s, starts_with_space s = false -> starts_with_space (rstrip32 s) = false.
Proof.
  destruct s as [|c r]; intro H; [reflexivity|].
  cbn [starts_with_space] in H. cbn [rstrip32].
  destruct (rstrip32 r); [rewrite H|]; cbn [starts_with_space]; exact H.
Qed.

Lemma starts_strip32 : forall s, starts_with_space (strip32 s) = false.
Proof. intro s. apply starts_rstrip32, starts_drop_while. Qed.

Lemma ends_strip32 : forall s, ends_with_space (strip32 s) = false.
Proof. intro s. apply ends_rstrip32. Qed.

Lemma strip32_id : forall s, starts_with_space s = false -> ends_with_space s = false -> strip32 s = s.
Proof. intros s H1 H2. unfold strip32. rewrite (drop_while_id s H1). apply rstrip32_id. exact H2. Qed.

(* ---- re.sub(" +", " ") ---- *)

Lemma starts_collapse : forall s, starts_with_space s = false -> starts_with_space (collapse s) = false.
Proof.
  destruct s as [|c r]; intro H; [reflexivity|].
  cbn [starts_with_space] in H. unfold collapse. cbn [collapse_from]. rewrite H. cbn. exact H.
Qed.

Lemma ends_collapse_from : forall s p, s <> [] -> ends_with_space s = false ->
  collapse_from p s <> [] /\ ends_with_space (collapse_from p s) = false.
Proof.
  induction s as [|c r IH]; intros p NE H; [congruence|].
  destruct r as [|a r''].
  - cbn in H. cbn [collapse_from]. rewrite H. split; [discriminate|]. cbn. exact H.
  - rewrite ends_cons2 in H.
    assert (NE' : a :: r'' <> []) by discriminate.
    rewrite collapse_from_cons.
    destruct (c =? 32).
    + destruct p.
      * apply IH; assumption.
      * destruct (IH true NE' H) as [N1 E1]. split; [discriminate|].
        destruct (collapse_from true (a :: r'')) as [|y Y]; [congruence|]. rewrite ends_cons2. exact E1.
    + destruct (IH false NE' H) as [N1 E1]. split; [discriminate|].
      destruct (collapse_from false (a :: r'')) as [|y Y]; [congruence|]. rewrite ends_cons2. exact E1.
Qed.

Lemma ends_collapse : forall s, ends_with_space s = false -> ends_with_space (collapse s) = false.
Proof.
  intros s H. destruct s as [|c r]; [reflexivity|].
  apply (ends_collapse_from (c :: r) false); [discriminate|exact H].
Qed.

Lemma hds_cons : forall a b r, has_double_space (a :: b :: r) = ((a =? 32) && (b =? 32)) || has_double_space (b :: r).
Proof. reflexivity. Qed.

Lemma hds_cons_nonspace : forall c r, (c =? 32) = false -> has_double_space (c :: r) = has_double_space r.
Proof.
  intros c r H. destruct r as [|b r]; [reflexivity|]. rewrite hds_cons, H. reflexivity.
Qed.

Lemma hds_cons_space : forall r, starts_with_space r = false -> has_double_space (32 :: r) = has_double_space r.
Proof.
  intros r H. destruct r as [|b r]; [reflexivity|]. rewrite hds_cons. cbn [starts_with_space] in H. rewrite H.
  rewrite andb_false_r. reflexivity.
Qed.

Lemma collapse_from_nds : forall s p,
  has_double_space (collapse_from p s) = false /\ (p = true -> starts_with_space (collapse_from p s) = false).
Proof.
  induction s as [|c r IH]; intro p; [split; reflexivity|].
  cbn [collapse_from]. destruct (c =? 32) eqn:E.
  - destruct p.
    + apply IH.
    + destruct (IH true) as [H1 H2]. split; [|discriminate].
      rewrite hds_cons_space; [exact H1|apply H2; reflexivity].
  - destruct (IH false) as [H1 _]. split.
    + rewrite hds_cons_nonspace; assumption.
    + intros _. cbn. exact E.
Qed.

Lemma collapse_from_id : forall u p, has_double_space u = false ->
  (p = true -> starts_with_space u = false) -> collapse_from p u = u.
Proof.
  induction u as [|c r IH]; intros p H S; [reflexivity|].
  cbn [collapse_from]. destruct (c =? 32) eqn:E.
  - apply N.eqb_eq in E. subst c.
    destruct p; [specialize (S eq_refl); cbn in S; discriminate|].
    assert (Sr : starts_with_space r = false).
    { destruct r as [|b r']; [reflexivity|]. rewrite hds_cons in H. apply orb_false_iff in H. destruct H as [H _].
      cbn in H. cbn. exact H. }
    rewrite (hds_cons_space r Sr) in H.
    rewrite (IH true H (fun _ => Sr)). reflexivity.
  - rewrite (hds_cons_nonspace c r E) in H. rewrite (IH false H); [reflexivity|discriminate].
Qed.

(* ---- the two datatypes ---- *)

(* a valid token is kept as it is *)
Lemma post_token_valid : forall l, xsd_token_ok l = true -> post DToken l = l.
Proof.
  intros l H. unfold xsd_token_ok in H.
  repeat (apply andb_true_iff in H; destruct H as [H ?]).
  rewrite negb_true_iff in *.
  unfold post. rewrite (norm_ws_id l H), strip32_id by assumption.
  apply collapse_from_id; [assumption|discriminate].
Qed.

(* whatever is offered, the stored form is a valid token / normalizedString *)
Lemma post_token_ok : forall s, xsd_token_ok (post DToken s) = true.
Proof.
  intro s. unfold post, xsd_token_ok.
  assert (NT : no_tab_nl (collapse (strip32 (norm_ws s))) = true).
  { apply no_tab_collapse_from. unfold strip32. apply no_tab_rstrip32, no_tab_drop_while, norm_ws_no_tab. }
  rewrite NT, (proj1 (collapse_from_nds _ false)),
    (starts_collapse _ (starts_strip32 _)), (ends_collapse _ (ends_strip32 _)). reflexivity.
Qed.

Lemma post_nstring_ok : forall s, no_tab_nl (post DNormalizedString s) = true.
Proof. intro s. apply norm_ws_no_tab. Qed.

Lemma post_nstring_valid : forall l, no_tab_nl l = true -> post DNormalizedString l = l.
Proof. intros l H. apply norm_ws_id. exact H. Qed.

Lemma post_idem : forall d s, post d (post d s) = post d s.
Proof.
  intros d s. destruct d; try reflexivity.
  - apply post_nstring_valid, post_nstring_ok.
  - apply post_token_valid, post_token_ok.
Qed.
