(* C09 - model of the lexical <-> value machinery of rdflib/term.py for the
   datatypes whose Python side is integer arithmetic:
     Literal.__new__ (str branch and python-object branch), Literal.normalize,
     _castLexicalToPython, _castPythonToLiteral, the _well_formed_* checkers,
     _parseBoolean, _normalise_XSD_STRING, _strip_and_collapse_whitespace,
     Literal.__eq__ / Literal.eq (no language tags),
   with CPython's int(str), Decimal(str), format(Decimal, "f"), str.strip
   - the code as repaired by the "fix:" commits a107abc9 (float lexicaliser; only the
   rule table is affected here), d92a3854 (normalizedString/token: value = processed
   string, strip(" ")) and d1e79be9 (normalize() of binary values; outside this model).
   The datatype table, the rule list and the character classes come from
   Gen/Tables_literal.v (reflected from the tree under test on every run).
   Second half: the XSD side, written independently (lexical spaces and
   lexical-to-value maps of XML Schema part 2), and the boolean specification
   checker.  Strings are lists of code points.  No proofs in this file. *)
From Coq Require Import List NArith ZArith Bool.
Import ListNotations.
From RV Require Export Gen.Tables_literal.
Local Open Scope N_scope.

Definition str := list N.

Fixpoint str_eqb (a b : str) : bool :=
  match a, b with
  | [], [] => true
  | x :: a', y :: b' => N.eqb x y && str_eqb a' b'
  | _, _ => false
  end.

Definition memN (c : N) (l : list N) : bool := existsb (N.eqb c) l.

Fixpoint drop_while (f : N -> bool) (l : str) : str :=
  match l with
  | [] => []
  | c :: r => if f c then drop_while f r else l
  end.

(* ------------------------------------------------------------------ *)
(* CPython character classes                                           *)

Definition py_isspace (c : N) : bool := memN c py_space_table.           (* Py_UNICODE_ISSPACE *)
Definition c_isspace (c : N) : bool := ((9 <=? c) && (c <=? 13)) || (c =? 32).   (* Py_ISSPACE *)
(* int(): non-ASCII white space is first rewritten to ' ', ASCII is left alone *)
Definition int_space (c : N) : bool := if c <? 128 then c_isspace c else py_isspace c.
Definition is_dig (c : N) : bool := (48 <=? c) && (c <=? 57).
(* Py_UNICODE_TODECIMAL *)
Definition dval (c : N) : option N :=
  if c <? 128 then (if is_dig c then Some (c - 48) else None)
  else match find (fun b => (b <=? c) && (c <? b + 10)) py_digit_bases with
       | Some b => Some (c - b)
       | None => None
       end.

(* ------------------------------------------------------------------ *)
(* Python values                                                       *)

Inductive dec :=
| DFin (neg : bool) (coef : N) (exp : Z)      (* Decimal.as_tuple() *)
| DInf (neg : bool)
| DNaN (neg : bool).

Inductive val :=
| VInt (z : Z) | VBool (b : bool) | VDec (d : dec) | VStr (s : str) | VOther.

(* ------------------------------------------------------------------ *)
(* int(str), base 10 *)

(* after the first digit: digit | '_' digit, then trailing white space only *)
Fixpoint int_body (acc : N) (l : str) {struct l} : option N :=
  match l with
  | [] => Some acc
  | c :: r =>
      match dval c with
      | Some d => int_body (10 * acc + d) r
      | None =>
          if c =? 95 then
            match r with
            | c2 :: r2 => match dval c2 with
                          | Some d => int_body (10 * acc + d) r2
                          | None => None
                          end
            | [] => None
            end
          else if forallb int_space l then Some acc else None
      end
  end.

Definition split_sign (l : str) : bool * str :=
  match l with
  | c :: r => if c =? 43 then (false, r) else if c =? 45 then (true, r) else (false, l)
  | [] => (false, l)
  end.

Definition zsign (neg : bool) (n : N) : Z := if neg then (- Z.of_N n)%Z else Z.of_N n.

Definition py_int (s : str) : option Z :=
  let '(neg, b) := split_sign (drop_while int_space s) in
  match b with
  | c :: r => match dval c with
              | Some d => match int_body d r with
                          | Some n => Some (zsign neg n)
                          | None => None
                          end
              | None => None
              end
  | [] => None
  end.

(* str(int) *)
Fixpoint digs_fuel (fuel : nat) (n : N) : str :=
  match fuel with
  | O => [48 + n mod 10]
  | S f => if n <? 10 then [48 + n] else digs_fuel f (n / 10) ++ [48 + n mod 10]
  end.
Definition digs (n : N) : str := digs_fuel (N.to_nat (N.size n)) n.

Definition print_z (z : Z) : str :=
  match z with
  | Zneg p => 45 :: digs (Npos p)
  | _ => digs (Z.to_N z)
  end.

(* ------------------------------------------------------------------ *)
(* Decimal(str) (_decimal: numeric_as_ascii with strip_ws and ignore_underscores,
   then mpd_qset_string) and format(d, "f") *)

Definition strip (s : str) : str :=
  drop_while py_isspace (rev (drop_while py_isspace (rev s))).

Fixpoint dec_ascii (s : str) : option str :=
  match s with
  | [] => Some []
  | c :: r =>
      if c =? 95 then dec_ascii r
      else
        let k := if (0 <? c) && (c <=? 127) then Some c
                 else if py_isspace c then Some 32
                 else match dval c with Some d => Some (48 + d) | None => None end in
        match k, dec_ascii r with
        | Some a, Some r' => Some (a :: r')
        | _, _ => None
        end
  end.

Fixpoint span_digits (l : str) : str * str :=
  match l with
  | c :: r => if is_dig c then let '(a, b) := span_digits r in (c :: a, b) else ([], l)
  | [] => ([], [])
  end.

Definition dec_value (ds : str) : N := fold_left (fun a c => 10 * a + (c - 48)) ds 0.

Definition lower_ascii (c : N) : N := if (65 <=? c) && (c <=? 90) then c + 32 else c.

Definition s_inf : str := [105; 110; 102].
Definition s_infinity : str := [105; 110; 102; 105; 110; 105; 116; 121].
Definition s_nan : str := [110; 97; 110].

Definition is_nil {A} (l : list A) : bool := match l with [] => true | _ => false end.

Definition dec_grammar (a : str) : option dec :=
  let '(neg, b) := split_sign a in
  let lb := map lower_ascii b in
  if str_eqb lb s_inf || str_eqb lb s_infinity then Some (DInf neg)
  else if str_eqb lb s_nan then Some (DNaN neg)
  else
    let '(ip, r1) := span_digits b in
    let '(fp, r2) := match r1 with
                     | c :: r => if c =? 46 then span_digits r else ([], r1)
                     | [] => ([], r1)
                     end in
    if is_nil (ip ++ fp) then None
    else
      let coef := dec_value (ip ++ fp) in
      let scale := Z.of_nat (length fp) in
      match r2 with
      | [] => Some (DFin neg coef (- scale))
      | c :: r =>
          if (c =? 101) || (c =? 69) then
            let '(eneg, r') := split_sign r in
            let '(ed, r'') := span_digits r' in
            if is_nil ed || negb (is_nil r'') then None
            else Some (DFin neg coef (zsign eneg (dec_value ed) - scale))
          else None
      end.

(* NOT modelled: sNaN and NaN payloads ("nan123"), the exponent limits of the
   context (|exp| < 10^18); the harness does not generate them for this model *)
Definition py_decimal (s : str) : option dec :=
  match dec_ascii (strip s) with
  | Some a => dec_grammar a
  | None => None
  end.

Definition zeros (n : nat) : str := repeat 48 n.

Definition fformat (d : dec) : str :=
  match d with
  | DFin neg coef exp =>
      (if neg then [45] else []) ++
      (if (0 <=? exp)%Z then (if coef =? 0 then [48] else digs coef ++ zeros (Z.to_nat exp))
       else
         let ds := digs coef in
         let k := Z.to_nat (- exp) in
         if (k <? length ds)%nat
         then firstn (length ds - k) ds ++ [46] ++ skipn (length ds - k) ds
         else [48; 46] ++ zeros (k - length ds) ++ ds)
  | DInf neg => (if neg then [45] else []) ++ [73; 110; 102; 105; 110; 105; 116; 121]
  | DNaN neg => (if neg then [45] else []) ++ [78; 97; 78]
  end.

(* ------------------------------------------------------------------ *)
(* _parseBoolean *)

Definition s_true : str := [116; 114; 117; 101].
Definition s_false : str := [102; 97; 108; 115; 101].
Definition py_bool (l : str) : bool :=
  let s := map lower_ascii l in str_eqb s [49] || str_eqb s s_true.

(* ------------------------------------------------------------------ *)
(* datatypes of the model and their rows in the reflected tables *)

Inductive dt :=
| DPlain   (* no datatype *)
| DInteger | DNonPositiveInteger | DLong | DNonNegativeInteger | DNegativeInteger | DInt
| DUnsignedLong | DPositiveInteger | DShort | DUnsignedInt | DByte | DUnsignedShort | DUnsignedByte
| DBoolean | DDecimal | DString | DNormalizedString | DToken.

Definition all_dt : list dt :=
  [DPlain; DInteger; DNonPositiveInteger; DLong; DNonNegativeInteger; DNegativeInteger; DInt;
   DUnsignedLong; DPositiveInteger; DShort; DUnsignedInt; DByte; DUnsignedShort; DUnsignedByte;
   DBoolean; DDecimal; DString; DNormalizedString; DToken].

Definition dt_name (d : dt) : str :=
  match d with
  | DPlain => []
  | DInteger => [105; 110; 116; 101; 103; 101; 114]
  | DNonPositiveInteger => [110; 111; 110; 80; 111; 115; 105; 116; 105; 118; 101; 73; 110; 116; 101; 103; 101; 114]
  | DLong => [108; 111; 110; 103]
  | DNonNegativeInteger => [110; 111; 110; 78; 101; 103; 97; 116; 105; 118; 101; 73; 110; 116; 101; 103; 101; 114]
  | DNegativeInteger => [110; 101; 103; 97; 116; 105; 118; 101; 73; 110; 116; 101; 103; 101; 114]
  | DInt => [105; 110; 116]
  | DUnsignedLong => [117; 110; 115; 105; 103; 110; 101; 100; 76; 111; 110; 103]
  | DPositiveInteger => [112; 111; 115; 105; 116; 105; 118; 101; 73; 110; 116; 101; 103; 101; 114]
  | DShort => [115; 104; 111; 114; 116]
  | DUnsignedInt => [117; 110; 115; 105; 103; 110; 101; 100; 73; 110; 116]
  | DByte => [98; 121; 116; 101]
  | DUnsignedShort => [117; 110; 115; 105; 103; 110; 101; 100; 83; 104; 111; 114; 116]
  | DUnsignedByte => [117; 110; 115; 105; 103; 110; 101; 100; 66; 121; 116; 101]
  | DBoolean => [98; 111; 111; 108; 101; 97; 110]
  | DDecimal => [100; 101; 99; 105; 109; 97; 108]
  | DString => [115; 116; 114; 105; 110; 103]
  | DNormalizedString => [110; 111; 114; 109; 97; 108; 105; 122; 101; 100; 83; 116; 114; 105; 110; 103]
  | DToken => [116; 111; 107; 101; 110]
  end.

Definition dt_eqb (a b : dt) : bool := str_eqb (dt_name a) (dt_name b).

(* _toPythonMapping[datatype] / _check_well_formed_types.get(datatype, _well_formed_by_value)
   / datatype in _NUMERIC_LITERAL_TYPES; the key None maps to "no converter" *)
Definition row_of (d : dt) : option (conv * chk * bool) :=
  match d with
  | DPlain => Some (CvIdent, CkByValue, false)
  | _ => match find (fun r => match r with (((ns, nm), _), _, _) => (ns =? 0) && str_eqb nm (dt_name d) end) xsd_table with
         | Some (_, cv, ck, nu) => Some (cv, ck, nu)
         | None => None
         end
  end.

Definition is_numeric (d : dt) : bool :=
  match row_of d with Some (_, _, nu) => nu | None => false end.

Definition parse_with (cv : conv) (l : str) : option val :=
  match cv with
  | CvIdent => Some (VStr l)
  | CvInt => match py_int l with Some z => Some (VInt z) | None => None end
  | CvDecimal => match py_decimal l with Some d => Some (VDec d) | None => None end
  | CvBool => Some (VBool (py_bool l))
  | _ => None    (* modelled in Binary / Temporal / Float models, or not at all *)
  end.

Definition zle_opt_l (lo : option Z) (z : Z) : bool := match lo with Some a => (a <=? z)%Z | None => true end.
Definition zle_opt_r (z : Z) (hi : option Z) : bool := match hi with Some a => (z <=? a)%Z | None => true end.

Definition check_with (ck : chk) (l : str) (v : option val) : bool :=
  match ck with
  | CkByValue => match v with Some _ => true | None => false end
  | CkUnknown => false
  | CkLex acc => existsb (str_eqb l) acc
  | CkRange lo hi ne =>
      match v with
      | Some (VInt z) => (if ne then negb (is_nil l) else true) && zle_opt_l lo z && zle_opt_r z hi
      | _ => false
      end
  end.

(* _castLexicalToPython *)
Definition parse_m (d : dt) (l : str) : option val :=
  match row_of d with Some (cv, _, _) => parse_with cv l | None => None end.

(* ------------------------------------------------------------------ *)
(* _castPythonToLiteral over the reflected rule list *)

(* isinstance(v, T), T by tag: 0 str, 1 float, 2 bool, 3 int, 4 Decimal *)
Definition isinstance (v : val) (tag : N) : bool :=
  match v with
  | VStr _ => tag =? 0
  | VBool _ => (tag =? 2) || (tag =? 3)
  | VInt _ => tag =? 3
  | VDec _ => tag =? 4
  | VOther => false
  end.

Definition py_str (v : val) : str :=
  match v with
  | VInt z => print_z z
  | VBool b => if b then [84; 114; 117; 101] else [70; 97; 108; 115; 101]
  | VStr s => s
  | VDec d => fformat d      (* str(Decimal) is not modelled; never used: the Decimal rule has a lexicaliser *)
  | VOther => []
  end.

(* the lexicalisers attached to the rules: bool -> str(i).lower(), Decimal -> f"{i:f}" *)
Definition lexicaliser (tag : N) (v : val) : str :=
  match v with
  | VBool b => if tag =? 2 then (if b then s_true else s_false) else py_str v
  | VDec d => fformat d
  | _ => py_str v
  end.

Definition generic_rule (v : val) : option (N * bool * option str) :=
  find (fun r => match r with (tag, _, _) => isinstance v tag end) generic_rules.

(* lexical form and datatype name chosen for a python value (specific rules
   concern gYear, gYearMonth, hexBinary, base64Binary only: no modelled datatype) *)
Definition cast_python (v : val) : str * option str :=
  match generic_rule v with
  | Some (tag, has_cast, dname) => (if has_cast then lexicaliser tag v else py_str v, dname)
  | None => (py_str v, None)
  end.

(* ------------------------------------------------------------------ *)
(* Literal.__new__ *)

Record lit := { l_lex : str; l_ill : option bool; l_val : option val }.

Definition norm_ws (s : str) : str :=
  map (fun c => if (c =? 9) || (c =? 10) || (c =? 13) then 32 else c) s.

(* re.sub(" +", " ", s) *)
Fixpoint collapse_from (prev_space : bool) (s : str) : str :=
  match s with
  | c :: r => if c =? 32 then (if prev_space then collapse_from true r else 32 :: collapse_from true r)
              else c :: collapse_from false r
  | [] => []
  end.
Definition collapse (s : str) : str := collapse_from false s.

(* str.strip(" ") *)
Fixpoint rstrip32 (s : str) : str :=
  match s with
  | [] => []
  | c :: r => match rstrip32 r with
              | [] => if c =? 32 then [] else [c]
              | r' => c :: r'
              end
  end.
Definition strip32 (s : str) : str := rstrip32 (drop_while (N.eqb 32) s).

Definition post (d : dt) (s : str) : str :=
  match d with
  | DNormalizedString => norm_ws s
  | DToken => collapse (strip32 (norm_ws s))
  | _ => s
  end.

Definition is_ws_type (d : dt) : bool :=
  match d with DNormalizedString | DToken => true | _ => false end.

Definition is_plain (d : dt) : bool := match d with DPlain => true | _ => false end.

(* str branch; ill_typed stays None without a datatype and for a datatype that is not recognised *)
Definition construct (d : dt) (l : str) (norm : bool) : lit :=
  let v := parse_m d l in
  let ill := match row_of d with
             | Some (_, ck, _) => if is_plain d then None else Some (negb (check_with ck l v))
             | None => None
             end in
  let lex := match v with
             | Some x => if norm then fst (cast_python x) else l
             | None => l
             end in
  let lex' := post d lex in
  (* normalizedString / token: a str value is replaced by the white-space-processed string *)
  let v' := match v with
            | Some (VStr _) => if is_ws_type d then Some (VStr lex') else v
            | _ => v
            end in
  {| l_lex := lex'; l_ill := ill; l_val := v' |}.

(* python-object branch, explicit datatype d (DPlain = none given) *)
Inductive dtres := RNone | RDt (d : dt) | ROther.

Definition dt_of_name (n : option str) : dtres :=
  match n with
  | None => RNone
  | Some s => match find (fun d => str_eqb (dt_name d) s) (tl all_dt) with Some d => RDt d | None => ROther end
  end.

Definition from_python (v : val) (d : dt) : lit :=
  {| l_lex := post d (fst (cast_python v)); l_ill := None; l_val := Some v |}.

(* Literal(value, datatype=d): a str value takes the str branch again *)
Definition literal_of_value (v : val) (d : dt) : lit :=
  match v with
  | VStr s => construct d s normalize_literals_default
  | _ => from_python v d
  end.

Definition normalize_m (d : dt) (x : lit) : lit :=
  match l_val x with
  | Some v => literal_of_value v d
  | None => x
  end.

(* ------------------------------------------------------------------ *)
(* == on python values, Literal.__eq__, Literal.eq *)

Definition z_of_bool (b : bool) : Z := if b then 1%Z else 0%Z.

(* coef * 10^exp compared exactly *)
Definition fin_eqb (n1 : bool) (c1 : N) (e1 : Z) (n2 : bool) (c2 : N) (e2 : Z) : bool :=
  let m := Z.min e1 e2 in
  (zsign n1 c1 * 10 ^ (e1 - m) =? zsign n2 c2 * 10 ^ (e2 - m))%Z.

Definition dec_eqb (a b : dec) : bool :=
  match a, b with
  | DFin n1 c1 e1, DFin n2 c2 e2 => fin_eqb n1 c1 e1 n2 c2 e2
  | DInf n1, DInf n2 => Bool.eqb n1 n2
  | _, _ => false
  end.

Definition dec_of_z (z : Z) : dec := DFin (z <? 0)%Z (Z.abs_N z) 0.

Definition val_eqb (a b : val) : bool :=
  match a, b with
  | VInt x, VInt y => (x =? y)%Z
  | VBool x, VBool y => Bool.eqb x y
  | VBool x, VInt y | VInt y, VBool x => (z_of_bool x =? y)%Z
  | VDec x, VDec y => dec_eqb x y
  | VDec x, VInt y | VInt y, VDec x => dec_eqb x (dec_of_z y)
  | VDec x, VBool y | VBool y, VDec x => dec_eqb x (dec_of_z (z_of_bool y))
  | VStr x, VStr y => str_eqb x y
  | _, _ => false
  end.

Inductive eqres := ETrue | EFalse | ETypeError | EOtherError.
Definition eqres_of (b : bool) : eqres := if b then ETrue else EFalse.
Definition eqres_eqb (a b : eqres) : bool :=
  match a, b with
  | ETrue, ETrue | EFalse, EFalse | ETypeError, ETypeError | EOtherError, EOtherError => true
  | _, _ => false
  end.

Definition term_eq (d1 : dt) (a : lit) (d2 : dt) (b : lit) : bool :=
  dt_eqb d1 d2 && str_eqb (l_lex a) (l_lex b).

Definition not_ill (x : lit) : bool := match l_ill x with Some true => false | _ => true end.
Definition coalesce_string (d : dt) : dt := match d with DPlain => DString | _ => d end.

Definition eq_m (d1 : dt) (a : lit) (d2 : dt) (b : lit) : eqres :=
  match (if is_numeric d1 && is_numeric d2 && not_ill a && not_ill b then
           match l_val a, l_val b with Some x, Some y => Some (val_eqb x y) | _, _ => None end
         else None) with
  | Some r => eqres_of r
  | None =>
      let e1 := coalesce_string d1 in
      let e2 := coalesce_string d2 in
      if dt_eqb e1 DString && dt_eqb e2 DString then eqres_of (str_eqb (l_lex a) (l_lex b))
      else if negb (dt_eqb e1 e2) then EFalse
      else match l_val a, l_val b with
           | Some x, Some y => eqres_of (val_eqb x y)
           | _, _ => if str_eqb (l_lex a) (l_lex b) then ETrue
                     else if dt_eqb d1 DString then EFalse else ETypeError
           end
  end.

(* ================================================================== *)
(* XSD side (XML Schema part 2), independent of the code above        *)

Inductive xval := XNum (m : Z) (scale : nat) (* m / 10^scale *) | XBool (b : bool) | XStr (s : str).

Definition xval_eqb (a b : xval) : bool :=
  match a, b with
  | XNum m1 s1, XNum m2 s2 => (m1 * 10 ^ Z.of_nat s2 =? m2 * 10 ^ Z.of_nat s1)%Z
  | XBool x, XBool y => Bool.eqb x y
  | XStr x, XStr y => str_eqb x y
  | _, _ => false
  end.

(* integer: optional sign, one or more digits *)
Definition xsd_int_lex (l : str) : option Z :=
  let '(neg, b) := split_sign l in
  if negb (is_nil b) && forallb is_dig b then Some (zsign neg (dec_value b)) else None.

(* decimal: optional sign, then digits with an optional point anywhere, at least one digit *)
Definition xsd_dec_lex (l : str) : option (Z * nat) :=
  let '(neg, b) := split_sign l in
  let '(ip, r) := span_digits b in
  match r with
  | [] => if is_nil ip then None else Some (zsign neg (dec_value ip), O)
  | c :: f => if (c =? 46) && forallb is_dig f && negb (is_nil (ip ++ f))
              then Some (zsign neg (dec_value (ip ++ f)), length f) else None
  end.

Definition xsd_bool_lex (l : str) : option bool :=
  if str_eqb l s_true || str_eqb l [49] then Some true
  else if str_eqb l s_false || str_eqb l [48] then Some false else None.

Definition xsd_range (d : dt) : option Z * option Z :=
  match d with
  | DNonPositiveInteger => (None, Some 0)
  | DNegativeInteger => (None, Some (-1))
  | DNonNegativeInteger => (Some 0, None)
  | DPositiveInteger => (Some 1, None)
  | DLong => (Some (-9223372036854775808), Some 9223372036854775807)
  | DInt => (Some (-2147483648), Some 2147483647)
  | DShort => (Some (-32768), Some 32767)
  | DByte => (Some (-128), Some 127)
  | DUnsignedLong => (Some 0, Some 18446744073709551615)
  | DUnsignedInt => (Some 0, Some 4294967295)
  | DUnsignedShort => (Some 0, Some 65535)
  | DUnsignedByte => (Some 0, Some 255)
  | _ => (None, None)
  end%Z.

Inductive family := FamInt | FamDec | FamBool | FamStr.
Definition family_of (d : dt) : family :=
  match d with
  | DPlain | DString | DNormalizedString | DToken => FamStr
  | DBoolean => FamBool
  | DDecimal => FamDec
  | _ => FamInt
  end.

Fixpoint has_double_space (s : str) : bool :=
  match s with
  | a :: ((b :: _) as r) => ((a =? 32) && (b =? 32)) || has_double_space r
  | _ => false
  end.

Definition no_tab_nl (s : str) : bool := forallb (fun c => negb ((c =? 9) || (c =? 10) || (c =? 13))) s.

Fixpoint ends_with_space (s : str) : bool :=
  match s with
  | [] => false
  | [c] => c =? 32
  | _ :: r => ends_with_space r
  end.

Definition starts_with_space (s : str) : bool := match s with c :: _ => c =? 32 | [] => false end.

Definition xsd_token_ok (s : str) : bool :=
  no_tab_nl s && negb (has_double_space s) && negb (starts_with_space s) && negb (ends_with_space s).

(* the lexical-to-value map L2V of datatype d; None = outside the lexical space *)
Definition xsd_value (d : dt) (l : str) : option xval :=
  match family_of d with
  | FamInt => match xsd_int_lex l with
              | Some z => let '(lo, hi) := xsd_range d in
                          if zle_opt_l lo z && zle_opt_r z hi then Some (XNum z O) else None
              | None => None
              end
  | FamDec => match xsd_dec_lex l with Some (m, s) => Some (XNum m s) | None => None end
  | FamBool => match xsd_bool_lex l with Some b => Some (XBool b) | None => None end
  | FamStr => match d with
              | DNormalizedString => if no_tab_nl l then Some (XStr l) else None
              | DToken => if xsd_token_ok l then Some (XStr l) else None
              | _ => Some (XStr l)
              end
  end.

(* the XSD value a python value stands for *)
Definition denote (v : val) : option xval :=
  match v with
  | VInt z => Some (XNum z O)
  | VBool b => Some (XBool b)
  | VStr s => Some (XStr s)
  | VDec (DFin neg c e) =>
      if (0 <=? e)%Z then Some (XNum (zsign neg c * 10 ^ e) O) else Some (XNum (zsign neg c) (Z.to_nat (- e)))
  | _ => None
  end.

Definition denotes (v : option val) (x : xval) : bool :=
  match v with
  | Some w => match denote w with Some y => xval_eqb y x | None => false end
  | None => false
  end.

Definition lex_denotes (d : dt) (l : str) (x : xval) : bool :=
  match xsd_value d l with Some y => xval_eqb y x | None => false end.

(* datatypes whose value spaces XSD relates: numeric ones among each other
   (integer types derive from decimal), everything with itself, plain ~ xsd:string *)
Definition comparable (d1 d2 : dt) : bool :=
  match family_of d1, family_of d2 with
  | (FamInt | FamDec), (FamInt | FamDec) => true
  | _, _ => dt_eqb (coalesce_string d1) (coalesce_string d2)
  end.

(* the datatype the documentation gives for a python value *)
Definition documented_dt (v : val) : dtres :=
  match v with
  | VInt _ => RDt DInteger | VBool _ => RDt DBoolean | VDec _ => RDt DDecimal
  | VStr _ => RNone | VOther => ROther
  end.

(* ================================================================== *)
(* cases, observations, model, specification checker                  *)

Inductive case :=
| CLex (d : dt) (l : str) (norm : bool)
    (* x = Literal(l, datatype=d, normalize=norm); n1 = x.normalize(); n2 = n1.normalize();
       re = Literal(str(x), datatype=d, normalize=True); x.eq(n1); x == n1 *)
| CPy (v : val)
    (* x = Literal(v); back = Literal(str(x), datatype=x.datatype); x.eq(back) *)
| CEq (d1 : dt) (l1 : str) (n1 : bool) (d2 : dt) (l2 : str) (n2 : bool)
    (* a == b, a.eq(b) *)
| CConf (family region : N).
    (* conformance-only sample outside the Coq model: the harness computes the flags *)

Inductive obs :=
| OLex (x n1 n2 re : lit) (eqn : eqres) (same : bool)
| OPy (dr : dtres) (x back : lit) (eqb : eqres)
| OEq (same : bool) (e : eqres)
| OConf (flags : N).

Definition opt_eqb {A} (f : A -> A -> bool) (a b : option A) : bool :=
  match a, b with Some x, Some y => f x y | None, None => true | _, _ => false end.

Definition dec_same (a b : dec) : bool :=
  match a, b with
  | DFin n1 c1 e1, DFin n2 c2 e2 => Bool.eqb n1 n2 && (c1 =? c2) && (e1 =? e2)%Z
  | DInf n1, DInf n2 | DNaN n1, DNaN n2 => Bool.eqb n1 n2
  | _, _ => false
  end.

(* identity of python values as observed (type and content), not == *)
Definition val_same (a b : val) : bool :=
  match a, b with
  | VInt x, VInt y => (x =? y)%Z
  | VBool x, VBool y => Bool.eqb x y
  | VDec x, VDec y => dec_same x y
  | VStr x, VStr y => str_eqb x y
  | VOther, VOther => true
  | _, _ => false
  end.

Definition lit_eqb (a b : lit) : bool :=
  str_eqb (l_lex a) (l_lex b) && opt_eqb Bool.eqb (l_ill a) (l_ill b) && opt_eqb val_same (l_val a) (l_val b).

Definition dtres_eqb (a b : dtres) : bool :=
  match a, b with
  | RNone, RNone | ROther, ROther => true
  | RDt x, RDt y => dt_eqb x y
  | _, _ => false
  end.

Definition obs_eqb (a b : obs) : bool :=
  match a, b with
  | OLex x n1 n2 re e s, OLex x' n1' n2' re' e' s' =>
      lit_eqb x x' && lit_eqb n1 n1' && lit_eqb n2 n2' && lit_eqb re re' && eqres_eqb e e' && Bool.eqb s s'
  | OPy r x b e, OPy r' x' b' e' => dtres_eqb r r' && lit_eqb x x' && lit_eqb b b' && eqres_eqb e e'
  | OEq s e, OEq s' e' => Bool.eqb s s' && eqres_eqb e e'
  | OConf f, OConf f' => f =? f'
  | _, _ => false
  end.

(* flags the known deviations produce in the conformance-only samples
   (region numbers are assigned by harness/c09.py from the *input* alone) *)
Definition conf_expected (region : N) : N :=
  match region with
  | 3 => 1      (* bytes: lexical form is the repr of the bytes object (F14f) *)
  | 4 => 2      (* valid date/time/duration form flagged ill-typed, given another value, or raising (F14g) *)
  | 7 => 4      (* negative duration with year-month and day-time parts: the constructor raises (F14g) *)
  | _ => 0
  end.

Definition model_obs (c : case) : obs :=
  match c with
  | CLex d l norm =>
      let x := construct d l norm in
      let n1 := normalize_m d x in
      let n2 := normalize_m d n1 in
      let re := construct d (l_lex x) true in
      OLex x n1 n2 re (eq_m d x d n1) (term_eq d x d n1)
  | CPy v =>
      let '(lx, dn) := cast_python v in
      let dr := dt_of_name dn in
      let d := match dr with RDt d => d | _ => DPlain end in
      let x := from_python v d in
      let back := construct d (l_lex x) normalize_literals_default in
      OPy dr x back (eq_m d x d back)
  | CEq d1 l1 n1 d2 l2 n2 =>
      let a := construct d1 l1 n1 in
      let b := construct d2 l2 n2 in
      OEq (term_eq d1 a d2 b) (eq_m d1 a d2 b)
  | CConf _ region => OConf (conf_expected region)
  end.

Definition ill_ok (d : dt) (i : option bool) (expected : bool) : bool :=
  match d with
  | DPlain => opt_eqb Bool.eqb i None
  | _ => opt_eqb Bool.eqb i (Some expected)
  end.

Definition implb' (a b : bool) : bool := if a then b else true.

(* a valid form: accepted, not flagged, the XSD value; the stored form, the normal form and the
   re-read form denote that value; without normalisation the form is kept; x.eq(x.normalize()) *)
Definition lex_valid_ok (d : dt) (l : str) (norm : bool) (xv : xval) (x n1 re : lit) (e : eqres) : bool :=
  ill_ok d (l_ill x) false
  && denotes (l_val x) xv && lex_denotes d (l_lex x) xv
  && (norm || str_eqb (l_lex x) l)
  && denotes (l_val n1) xv && lex_denotes d (l_lex n1) xv
  && denotes (l_val re) xv && lex_denotes d (l_lex re) xv && ill_ok d (l_ill re) false
  && eqres_eqb e ETrue.

(* "eq holds whenever term equality does" is demanded for every literal except decimals built from
   forms outside the lexical space (python's Decimal("NaN") is not == to itself) *)
Definition eq_scope (d : dt) (l : str) : bool :=
  match family_of d with
  | FamDec => match xsd_value d l with Some _ => true | None => false end
  | _ => true
  end.

Definition spec_ok (c : case) (o : obs) : bool :=
  match c, o with
  | CLex d l norm, OLex x n1 n2 re e same =>
      (* nothing is demanded about the flag or value of a form outside the lexical space *)
      (match xsd_value d l with
       | Some xv => lex_valid_ok d l norm xv x n1 re e
       | None => true
       end)
      (* normalising a normalised literal changes nothing *)
      && str_eqb (l_lex n2) (l_lex n1) && opt_eqb val_same (l_val n2) (l_val n1)
      && implb' norm (str_eqb (l_lex re) (l_lex x))
      (* term equality implies value equality *)
      && implb' (same && eq_scope d l) (eqres_eqb e ETrue)
  | CPy v, OPy dr x back e =>
      dtres_eqb dr (documented_dt v)
      && (let d := match dr with RDt d => d | _ => DPlain end in
          match denote v with
          | Some xv =>
              lex_denotes d (l_lex x) xv
              && opt_eqb val_same (l_val x) (Some v)
              && denotes (l_val back) xv && ill_ok d (l_ill back) false
              && str_eqb (l_lex back) (l_lex x)
              && eqres_eqb e ETrue
          | None => false
          end)
  | CEq d1 l1 n1 d2 l2 n2, OEq same e =>
      implb' (same && eq_scope d1 l1 && eq_scope d2 l2) (eqres_eqb e ETrue)
      && match xsd_value d1 l1, xsd_value d2 l2 with
         | Some x1, Some x2 =>
             if comparable d1 d2 then eqres_eqb e (eqres_of (xval_eqb x1 x2)) else true
         | _, _ => true
         end
  | CConf _ _, OConf flags => flags =? 0
  | _, _ => false
  end.

(* ------------------------------------------------------------------ *)
(* known-finding triggers (regions described on the input alone)       *)

Definition special_dec (v : val) : bool :=
  match v with VDec (DFin _ _ _) => false | VDec _ => true | _ => false end.

(* the case kinds the MODEL covers: lexical forms, python values other than the placeholder, pairs.
   CConf cases carry only a law number and a region computed by harness/c09.py: they are differential tests of
   rdflib against the oracle written in the harness, nothing about them is modelled here *)
Definition wf (c : case) : bool := match c with CPy VOther => false | CConf _ _ => false | _ => true end.

Definition kf (c : case) : N :=
  match c with
  | CPy v => if special_dec v then 3 else 0
          (* 3: Decimal NaN / Infinity have no xsd:decimal lexical form (F14b) *)
  | CConf _ region =>
      match region with 3 => 6 | 4 => 7 | 7 => 7 | _ => 0 end
  | _ => 0
  end.
