(* C09 - the specification checker accepts the model on every case kind
   (lexical forms of every modelled datatype, python values, pairs, conformance cases) *)
From Coq Require Import List NArith ZArith Bool Lia.
Import ListNotations.
From RV Require Import Literal.Model Literal.Token Literal.Proofs Literal.Decimal.
Local Open Scope N_scope.

(* ------------------------------------------------------------------ *)
(* generalities *)

Lemma dt_eqb_refl : forall d, dt_eqb d d = true.
Proof. intro d. apply str_eqb_refl. Qed.

Lemma dt_eqb_eq : forall a b, dt_eqb a b = true -> a = b.
Proof. destruct a, b; intro H; try reflexivity; vm_compute in H; discriminate. Qed.

Lemma implb'_true_r : forall b, implb' b true = true.
Proof. destruct b; reflexivity. Qed.

Lemma opt_val_same_refl : forall v, opt_eqb val_same v v = true.
Proof.
  destruct v as [v|]; [|reflexivity]. cbn. destruct v; cbn.
  - apply Z.eqb_refl.
  - destruct b; reflexivity.
  - destruct d as [n c e|n|n]; cbn; try (destruct n; reflexivity).
    rewrite N.eqb_refl, Z.eqb_refl. destruct n; reflexivity.
  - apply str_eqb_refl.
  - reflexivity.
Qed.

Definition good_val (v : val) : bool :=
  match v with VDec (DNaN _) | VOther => false | _ => true end.

Lemma val_eqb_refl : forall v, good_val v = true -> val_eqb v v = true.
Proof.
  destruct v; cbn; intro H; try discriminate.
  - apply Z.eqb_refl.
  - destruct b; reflexivity.
  - destruct d as [n c e|n|n]; try discriminate; cbn; [apply fin_eqb_refl|destruct n; reflexivity].
  - apply str_eqb_refl.
Qed.

(* equal stored forms and equal values: eq says True *)
Lemma eq_m_same : forall d a b,
  str_eqb (l_lex a) (l_lex b) = true -> l_val a = l_val b ->
  (forall v, l_val a = Some v -> good_val v = true) -> eq_m d a d b = ETrue.
Proof.
  intros d a b Hl Hv Hg. unfold eq_m. rewrite <- Hv, Hl, dt_eqb_refl. cbn [negb].
  destruct (l_val a) as [v|].
  - rewrite (val_eqb_refl v (Hg v eq_refl)).
    destruct (is_numeric d && is_numeric d && not_ill a && not_ill b); [reflexivity|].
    destruct (dt_eqb (coalesce_string d) DString && dt_eqb (coalesce_string d) DString); reflexivity.
  - destruct (is_numeric d && is_numeric d && not_ill a && not_ill b);
      destruct (dt_eqb (coalesce_string d) DString && dt_eqb (coalesce_string d) DString); reflexivity.
Qed.

(* the shape of the checker on a lexical-form case *)
Lemma clex_reduce : forall d l norm,
  let x := construct d l norm in
  let n1 := normalize_m d x in
  let re := construct d (l_lex x) true in
  let e := eq_m d x d n1 in
  (forall xv, xsd_value d l = Some xv -> lex_valid_ok d l norm xv x n1 re e = true) ->
  (norm = true -> l_lex re = l_lex x) ->
  (eq_scope d l = true -> e = ETrue) ->
  spec_ok (CLex d l norm) (model_obs (CLex d l norm)) = true.
Proof.
  intros d l norm x n1 re e C1 C3 C4. cbn [model_obs spec_ok]. fold x. fold n1. fold re. fold e.
  assert (Hn : normalize_m d n1 = n1) by (unfold n1, x; apply normalize_m_idempotent). rewrite Hn.
  rewrite str_eqb_refl, opt_val_same_refl.
  assert (H1 : match xsd_value d l with Some xv => lex_valid_ok d l norm xv x n1 re e | None => true end = true).
  { destruct (xsd_value d l) as [xv|]; [apply C1; reflexivity|reflexivity]. }
  rewrite H1.
  assert (H3 : implb' norm (str_eqb (l_lex re) (l_lex x)) = true).
  { destruct norm; [|reflexivity]. cbn [implb']. rewrite (C3 eq_refl). apply str_eqb_refl. }
  rewrite H3.
  assert (H4 : implb' (term_eq d x d n1 && eq_scope d l) (eqres_eqb e ETrue) = true).
  { destruct (eq_scope d l); [|rewrite andb_false_r; reflexivity]. rewrite (C4 eq_refl). apply implb'_true_r. }
  rewrite H4. reflexivity.
Qed.

(* ------------------------------------------------------------------ *)
(* integer datatypes *)

Lemma int_construct_gen : forall d, is_int_dt d = true -> exists ck, forall l norm,
  construct d l norm =
    {| l_lex := match py_int l with Some z => if norm then print_z z else l | None => l end;
       l_ill := Some (negb (check_with ck l (match py_int l with Some z => Some (VInt z) | None => None end)));
       l_val := match py_int l with Some z => Some (VInt z) | None => None end |}.
Proof.
  intros d Hd. destruct (int_row_facts d Hd) as (ck & Row & _). exists ck. intros l norm.
  unfold construct, parse_m. rewrite Row. cbn [parse_with]. rewrite (is_int_dt_plain d Hd).
  destruct (py_int l) as [z|].
  - rewrite (proj1 rules_shape z). cbn [fst]. rewrite (is_int_dt_post d _ Hd). reflexivity.
  - rewrite (is_int_dt_post d _ Hd). reflexivity.
Qed.

Lemma int_dt_eqb_facts : forall d, is_int_dt d = true ->
  dt_eqb d DString = false /\ coalesce_string d = d.
Proof. destruct d; intro H; try discriminate; split; reflexivity. Qed.

(* x.eq(x.normalize()) is always True *)
Lemma int_eq_normalized : forall d l norm, is_int_dt d = true ->
  eq_m d (construct d l norm) d (normalize_m d (construct d l norm)) = ETrue.
Proof.
  intros d l norm Hd. destruct (int_construct_gen d Hd) as (ck & G). rewrite (G l norm).
  destruct (int_dt_eqb_facts d Hd) as (F1 & F2).
  unfold normalize_m. cbn [l_val]. destruct (py_int l) as [z|] eqn:E.
  - cbn [literal_of_value]. rewrite (int_from_python d Hd z).
    unfold eq_m. cbn [l_val l_ill l_lex]. rewrite F2, F1, dt_eqb_refl. cbn [andb negb val_eqb]. rewrite Z.eqb_refl.
    match goal with |- context [if ?c then _ else _] => destruct c end; reflexivity.
  - apply eq_m_same; [apply str_eqb_refl|reflexivity|]. cbn [l_val]. intros v H. discriminate.
Qed.

Lemma ill_ok_int : forall d b, is_int_dt d = true -> ill_ok d (Some b) b = true.
Proof. destruct d; intros b H; try discriminate; destruct b; reflexivity. Qed.

Lemma clex_int : forall d l norm, is_int_dt d = true ->
  spec_ok (CLex d l norm) (model_obs (CLex d l norm)) = true.
Proof.
  intros d l norm Hd. apply clex_reduce.
  - intros xv V.
    destruct (xsd_value_int d l xv Hd V) as (z & L & E & R). subst xv.
    destruct (int_faithful_all d Hd) as (_ & F).
    destruct (F l z norm V) as (_ & _ & _ & I4 & _ & _).
    unfold lex_valid_ok. rewrite (int_eq_normalized d l norm Hd), I4.
    rewrite (int_construct_valid d Hd l z norm V). cbn [l_lex l_val l_ill].
    assert (V' : xsd_value d (if norm then print_z z else l) = Some (XNum z O))
      by (destruct norm; [apply int_print_valid; assumption|exact V]).
    rewrite (int_construct_valid d Hd _ z true V'). cbn [l_val l_lex l_ill].
    unfold denotes, lex_denotes. cbn [denote].
    rewrite V', (int_print_valid d Hd z R), xval_eqb_num_refl, (ill_ok_int d false Hd).
    cbn [andb eqres_eqb]. destruct norm; cbn [orb andb]; [reflexivity|]. rewrite str_eqb_refl. reflexivity.
  - intros Hn. subst norm. apply (int_construct_idempotent d l Hd).
  - intros _. apply int_eq_normalized. exact Hd.
Qed.

(* ------------------------------------------------------------------ *)
(* boolean *)

Definition bool_str (b : bool) : str := if b then s_true else s_false.

Lemma bool_construct : forall l norm, construct DBoolean l norm =
  {| l_lex := if norm then bool_str (py_bool l) else l;
     l_ill := Some (negb (existsb (str_eqb l) [s_true; s_false; [49]; [48]]));
     l_val := Some (VBool (py_bool l)) |}.
Proof.
  intros l norm. unfold construct, parse_m. rewrite bool_row. cbn [parse_with].
  rewrite (proj1 (proj2 rules_shape) (py_bool l)). destruct norm; reflexivity.
Qed.

Lemma bool_from_python : forall b, from_python (VBool b) DBoolean =
  {| l_lex := bool_str b; l_ill := None; l_val := Some (VBool b) |}.
Proof. intro b. unfold from_python. rewrite (proj1 (proj2 rules_shape) b). reflexivity. Qed.

Lemma py_bool_bool_str : forall b, py_bool (bool_str b) = b.
Proof. destruct b; reflexivity. Qed.

Lemma bool_not_numeric : is_numeric DBoolean = false.
Proof. unfold is_numeric. rewrite bool_row. reflexivity. Qed.

(* two boolean literals: eq compares the values *)
Lemma bool_eq_m : forall a b x y, l_val a = Some (VBool x) -> l_val b = Some (VBool y) ->
  eq_m DBoolean a DBoolean b = eqres_of (Bool.eqb x y).
Proof.
  intros a b x y Ha Hb. unfold eq_m. rewrite bool_not_numeric, Ha, Hb. reflexivity.
Qed.

Lemma bool_valid_forms : forall l xv, xsd_value DBoolean l = Some xv ->
  l = s_true \/ l = [49] \/ l = s_false \/ l = [48].
Proof.
  intros l xv H. unfold xsd_value in H. cbn [family_of] in H. unfold xsd_bool_lex in H.
  destruct (str_eqb l s_true || str_eqb l [49]) eqn:E1.
  - apply orb_true_iff in E1. destruct E1 as [E|E]; apply str_eqb_eq in E; tauto.
  - destruct (str_eqb l s_false || str_eqb l [48]) eqn:E2; [|discriminate].
    apply orb_true_iff in E2. destruct E2 as [E|E]; apply str_eqb_eq in E; tauto.
Qed.

Lemma clex_bool : forall l norm, spec_ok (CLex DBoolean l norm) (model_obs (CLex DBoolean l norm)) = true.
Proof.
  intros l norm. destruct (xsd_value DBoolean l) as [xv|] eqn:V.
  - destruct (bool_valid_forms l xv V) as [E|[E|[E|E]]]; subst l; destruct norm; vm_compute; reflexivity.
  - apply clex_reduce.
    + intros xv V'. rewrite V in V'. discriminate.
    + intros Hn. subst norm. rewrite !bool_construct. cbn [l_lex]. rewrite py_bool_bool_str. reflexivity.
    + intros _. rewrite bool_construct. unfold normalize_m. cbn [l_val literal_of_value].
      rewrite bool_from_python. erewrite bool_eq_m; [|reflexivity|reflexivity]. rewrite Bool.eqb_reflx. reflexivity.
Qed.

(* ------------------------------------------------------------------ *)
(* plain, xsd:string, normalizedString, token *)

Lemma str_renormalize : forall d l norm, family_of d = FamStr ->
  normalize_m d (construct d l norm) = construct d l norm.
Proof.
  intros d l norm H. rewrite (str_construct d l norm H). unfold normalize_m. cbn [l_val literal_of_value].
  rewrite (str_construct d _ _ H).
  destruct d; try discriminate; cbn [is_ws_type]; rewrite ?post_idem; reflexivity.
Qed.

Lemma str_reread : forall d l norm, family_of d = FamStr ->
  construct d (l_lex (construct d l norm)) true = construct d l norm.
Proof.
  intros d l norm H. rewrite (str_construct d l norm H). cbn [l_lex]. rewrite (str_construct d _ _ H).
  destruct d; try discriminate; cbn [is_ws_type]; rewrite ?post_idem; reflexivity.
Qed.

Lemma str_eq_self : forall d l norm, family_of d = FamStr ->
  eq_m d (construct d l norm) d (construct d l norm) = ETrue.
Proof.
  intros d l norm H. apply eq_m_same; [apply str_eqb_refl|reflexivity|].
  intros v Hv. rewrite (str_value_is_form d l norm H) in Hv. inversion Hv. reflexivity.
Qed.

Lemma ill_ok_str : forall d, family_of d = FamStr ->
  ill_ok d (match d with DPlain => None | _ => Some false end) false = true.
Proof. destruct d; intro H; try discriminate; reflexivity. Qed.

Lemma clex_str : forall d l norm, family_of d = FamStr ->
  spec_ok (CLex d l norm) (model_obs (CLex d l norm)) = true.
Proof.
  intros d l norm H. apply clex_reduce; rewrite ?(str_renormalize d l norm H), ?(str_reread d l norm H).
  - intros xv V. destruct (str_valid_kept d l xv H V) as [P E]. subst xv.
    unfold lex_valid_ok. rewrite (str_eq_self d l norm H).
    rewrite (str_construct d l norm H), P. cbn [l_lex l_val l_ill].
    assert (Hv : (if is_ws_type d then l else l) = l) by (destruct (is_ws_type d); reflexivity). rewrite Hv.
    unfold denotes, lex_denotes. cbn [denote]. rewrite V. cbn [xval_eqb]. rewrite !str_eqb_refl, (ill_ok_str d H).
    rewrite orb_true_r. reflexivity.
  - reflexivity.
  - intros _. apply str_eq_self. exact H.
Qed.

(* ------------------------------------------------------------------ *)
(* decimal *)

Lemma dec_normalize : forall l norm d, py_decimal l = Some d ->
  normalize_m DDecimal (construct DDecimal l norm) = {| l_lex := fformat d; l_ill := None; l_val := Some (VDec d) |}.
Proof.
  intros l norm d P. rewrite dec_construct, P. unfold normalize_m. cbn [l_val literal_of_value]. apply dec_from_python.
Qed.

Lemma dec_eq_normalized : forall l norm neg c e, py_decimal l = Some (DFin neg c e) ->
  eq_m DDecimal (construct DDecimal l norm) DDecimal (normalize_m DDecimal (construct DDecimal l norm)) = ETrue.
Proof.
  intros l norm neg c e P. rewrite (dec_normalize l norm _ P). rewrite dec_construct, P.
  unfold eq_m. rewrite dec_is_numeric. cbn [not_ill l_ill l_val andb val_eqb dec_eqb]. rewrite fin_eqb_refl. reflexivity.
Qed.

Lemma clex_dec : forall l norm, spec_ok (CLex DDecimal l norm) (model_obs (CLex DDecimal l norm)) = true.
Proof.
  intros l norm. apply clex_reduce.
  - intros xv V. destruct (dec_valid l xv V) as (neg & c & s & E & P). subst xv.
    unfold lex_valid_ok. rewrite (dec_eq_normalized l norm _ _ _ P), (dec_normalize l norm _ P).
    destruct (dec_print_exact neg c s) as [PP XP].
    assert (Hx : construct DDecimal l norm =
                 {| l_lex := if norm then fformat (DFin neg c (- Z.of_nat s)) else l; l_ill := Some false;
                    l_val := Some (VDec (DFin neg c (- Z.of_nat s))) |}) by (rewrite dec_construct, P; reflexivity).
    rewrite Hx. cbn [l_lex l_val l_ill].
    assert (Pl : py_decimal (if norm then fformat (DFin neg c (- Z.of_nat s)) else l) = Some (DFin neg c (- Z.of_nat s)))
      by (destruct norm; assumption).
    assert (Vl : xsd_value DDecimal (if norm then fformat (DFin neg c (- Z.of_nat s)) else l) = Some (XNum (zsign neg c) s))
      by (destruct norm; assumption).
    rewrite dec_construct, Pl. cbn [l_lex l_val l_ill].
    rewrite (denote_fin_exact neg c s). unfold lex_denotes. rewrite Vl, XP, xval_eqb_refl.
    cbn [andb ill_ok opt_eqb Bool.eqb eqres_eqb]. destruct norm; cbn [orb andb]; [reflexivity|]. rewrite str_eqb_refl. reflexivity.
  - intros Hn. subst norm. rewrite !dec_construct. cbn [l_lex].
    destruct (py_decimal l) as [d|] eqn:P.
    + rewrite py_decimal_print. apply fformat_reparse.
    + rewrite P. reflexivity.
  - intros S. unfold eq_scope in S. cbn [family_of] in S.
    destruct (xsd_value DDecimal l) as [xv|] eqn:V; [|discriminate].
    destruct (dec_valid l xv V) as (neg & c & s & E & P). apply (dec_eq_normalized l norm _ _ _ P).
Qed.

Lemma family_dec : forall d, family_of d = FamDec -> d = DDecimal.
Proof. destruct d; intro H; try discriminate; reflexivity. Qed.

Lemma family_bool : forall d, family_of d = FamBool -> d = DBoolean.
Proof. destruct d; intro H; try discriminate; reflexivity. Qed.

Lemma family_int : forall d, family_of d = FamInt -> is_int_dt d = true.
Proof. intros d H. unfold is_int_dt. rewrite H. reflexivity. Qed.

Lemma clex_all : forall d l norm, spec_ok (CLex d l norm) (model_obs (CLex d l norm)) = true.
Proof.
  intros d l norm. destruct (family_of d) eqn:F.
  - apply clex_int, family_int, F.
  - rewrite (family_dec d F). apply clex_dec.
  - rewrite (family_bool d F). apply clex_bool.
  - apply clex_str, F.
Qed.

(* ------------------------------------------------------------------ *)
(* python values *)

Lemma integer_is_int : is_int_dt DInteger = true.
Proof. reflexivity. Qed.

Lemma cpy_int : forall z, spec_ok (CPy (VInt z)) (model_obs (CPy (VInt z))) = true.
Proof.
  intro z. cbn [model_obs]. rewrite (proj1 rules_shape z).
  change (dt_of_name (Some (dt_name DInteger))) with (RDt DInteger). cbv iota beta.
  rewrite (int_from_python DInteger integer_is_int z). cbn [l_lex].
  assert (R : in_range (xsd_range DInteger) z = true) by reflexivity.
  assert (V : xsd_value DInteger (print_z z) = Some (XNum z O)) by (apply int_print_valid; [reflexivity|exact R]).
  rewrite default_normalize, (int_construct_valid DInteger integer_is_int _ z true V).
  cbn [spec_ok documented_dt dtres_eqb denote l_lex l_val l_ill].
  unfold lex_denotes, denotes. cbn [denote]. rewrite V, xval_eqb_num_refl, dt_eqb_refl, str_eqb_refl.
  cbn [opt_eqb val_same]. rewrite Z.eqb_refl.
  unfold eq_m. rewrite (int_is_numeric DInteger integer_is_int). cbn [not_ill l_ill l_val andb val_eqb]. rewrite Z.eqb_refl.
  reflexivity.
Qed.

Lemma cpy_bool : forall b, spec_ok (CPy (VBool b)) (model_obs (CPy (VBool b))) = true.
Proof. destruct b; vm_compute; reflexivity. Qed.

Lemma plain_str : family_of DPlain = FamStr.
Proof. reflexivity. Qed.

Lemma cpy_str : forall s, spec_ok (CPy (VStr s)) (model_obs (CPy (VStr s))) = true.
Proof.
  intro s. cbn [model_obs]. rewrite (proj1 (proj2 (proj2 rules_shape)) s).
  change (dt_of_name None) with RNone. cbv iota beta.
  assert (X : from_python (VStr s) DPlain = {| l_lex := s; l_ill := None; l_val := Some (VStr s) |}).
  { unfold from_python. rewrite (proj1 (proj2 (proj2 rules_shape)) s). reflexivity. }
  rewrite X. cbn [l_lex]. rewrite (str_construct DPlain s _ plain_str). cbn [post is_ws_type].
  cbn [spec_ok documented_dt dtres_eqb denote l_lex l_val l_ill].
  unfold lex_denotes, denotes. cbn [denote xsd_value family_of xval_eqb opt_eqb val_same ill_ok].
  rewrite !str_eqb_refl.
  rewrite eq_m_same; [reflexivity|apply str_eqb_refl|reflexivity|].
  cbn [l_val]. intros v H. inversion H. reflexivity.
Qed.

Lemma denote_reparse : forall neg c e xv, denote (VDec (DFin neg c e)) = Some xv ->
  denotes (Some (VDec (dec_reparse (DFin neg c e)))) xv = true.
Proof.
  intros neg c e xv H. unfold denotes. unfold dec_reparse. destruct (0 <? e)%Z eqn:E.
  - apply Z.ltb_lt in E. cbn [denote] in *. replace (0 <=? e)%Z with true in H by (symmetry; apply Z.leb_le; lia).
    inversion H; subst xv. cbn [Z.leb Z.compare xval_eqb Z.of_nat].
    rewrite zsign_mul_pow by lia. rewrite Z.pow_0_r, !Z.mul_1_r. apply Z.eqb_refl.
  - rewrite H. apply xval_eqb_refl.
Qed.

Lemma cpy_dec : forall neg c e, spec_ok (CPy (VDec (DFin neg c e))) (model_obs (CPy (VDec (DFin neg c e)))) = true.
Proof.
  intros neg c e. set (d := DFin neg c e). cbn [model_obs]. rewrite (proj2 (proj2 (proj2 rules_shape)) d).
  change (dt_of_name (Some (dt_name DDecimal))) with (RDt DDecimal). cbv iota beta.
  rewrite (dec_from_python d). cbn [l_lex]. rewrite dec_construct, py_decimal_print, default_normalize, fformat_reparse.
  cbn [spec_ok documented_dt dtres_eqb l_lex l_val l_ill].
  destruct (denote (VDec d)) as [xv|] eqn:Dn; [|subst d; cbn in Dn; destruct (0 <=? e)%Z; discriminate].
  subst d. rewrite (dec_print_denotes neg c e xv Dn), (denote_reparse neg c e xv Dn), dt_eqb_refl, str_eqb_refl.
  rewrite (opt_val_same_refl (Some (VDec (DFin neg c e)))).
  cbn [ill_ok opt_eqb Bool.eqb andb].
  unfold eq_m. rewrite dec_is_numeric. cbn [not_ill l_ill l_val andb val_eqb]. rewrite dec_eqb_reparse. reflexivity.
Qed.

Lemma cpy_all : forall v, wf (CPy v) = true -> kf (CPy v) = 0 -> spec_ok (CPy v) (model_obs (CPy v)) = true.
Proof.
  intros v W K. destruct v as [z|b|d|s|].
  - apply cpy_int.
  - apply cpy_bool.
  - destruct d as [neg c e|neg|neg]; [apply cpy_dec|cbn in K; discriminate|cbn in K; discriminate].
  - apply cpy_str.
  - cbn in W. discriminate.
Qed.

(* ------------------------------------------------------------------ *)
(* pairs: term equality implies eq *)

Lemma int_stored : forall d l n, is_int_dt d = true ->
  l_val (construct d l n) = match py_int (l_lex (construct d l n)) with Some z => Some (VInt z) | None => None end.
Proof.
  intros d l n Hd. destruct (int_construct_gen d Hd) as (ck & G). rewrite G. cbn [l_val l_lex].
  destruct (py_int l) as [z|] eqn:E.
  - destruct n; [rewrite py_int_print|rewrite E]; reflexivity.
  - rewrite E. reflexivity.
Qed.

Lemma bool_stored : forall l n,
  l_val (construct DBoolean l n) = Some (VBool (py_bool (l_lex (construct DBoolean l n)))).
Proof.
  intros l n. rewrite bool_construct. cbn [l_val l_lex]. destruct n; [rewrite py_bool_bool_str|]; reflexivity.
Qed.

Lemma dec_stored : forall l n xv, xsd_value DDecimal l = Some xv ->
  exists neg c e, l_val (construct DDecimal l n) = Some (VDec (DFin neg c e))
    /\ py_decimal (l_lex (construct DDecimal l n)) = Some (DFin neg c e).
Proof.
  intros l n xv V. destruct (dec_valid l xv V) as (neg & c & s & E & P).
  exists neg, c, (- Z.of_nat s)%Z. rewrite dec_construct, P. cbn [l_val l_lex]. split; [reflexivity|].
  destruct n; [apply dec_print_exact|exact P].
Qed.

Lemma ceq_same : forall d l1 n1 l2 n2,
  str_eqb (l_lex (construct d l1 n1)) (l_lex (construct d l2 n2)) = true ->
  eq_scope d l1 = true -> eq_scope d l2 = true ->
  eq_m d (construct d l1 n1) d (construct d l2 n2) = ETrue.
Proof.
  intros d l1 n1 l2 n2 L S1 S2. apply str_eqb_eq in L as L'.
  destruct (family_of d) eqn:F.
  - (* integer datatypes *)
    pose proof (family_int d F) as Hd.
    apply eq_m_same; [exact L| |].
    + rewrite (int_stored d l1 n1 Hd), (int_stored d l2 n2 Hd), L'. reflexivity.
    + intros v Hv. rewrite (int_stored d l1 n1 Hd) in Hv.
      destruct (py_int (l_lex (construct d l1 n1))); inversion Hv. reflexivity.
  - (* decimal, valid forms *)
    rewrite (family_dec d F) in *. unfold eq_scope in S1, S2. cbn [family_of] in S1, S2.
    destruct (xsd_value DDecimal l1) as [x1|] eqn:V1; [|discriminate].
    destruct (xsd_value DDecimal l2) as [x2|] eqn:V2; [|discriminate].
    destruct (dec_stored l1 n1 x1 V1) as (g1 & c1 & e1 & A1 & B1).
    destruct (dec_stored l2 n2 x2 V2) as (g2 & c2 & e2 & A2 & B2).
    apply eq_m_same; [exact L| |].
    + rewrite A1, A2. rewrite L' in B1. rewrite B1 in B2. inversion B2. reflexivity.
    + intros v Hv. rewrite A1 in Hv. inversion Hv. reflexivity.
  - (* boolean *)
    rewrite (family_bool d F) in *.
    apply eq_m_same; [exact L| |].
    + rewrite (bool_stored l1 n1), (bool_stored l2 n2), L'. reflexivity.
    + intros v Hv. rewrite (bool_stored l1 n1) in Hv. inversion Hv. reflexivity.
  - (* string family *)
    apply eq_m_same; [exact L| |].
    + rewrite (str_value_is_form d l1 n1 F), (str_value_is_form d l2 n2 F), L'. reflexivity.
    + intros v Hv. rewrite (str_value_is_form d l1 n1 F) in Hv. inversion Hv. reflexivity.
Qed.

(* ------------------------------------------------------------------ *)
(* pairs: eq against equality of XSD values *)

Lemma family_coalesce : forall d, family_of (coalesce_string d) = family_of d.
Proof. destruct d; reflexivity. Qed.

Lemma comparable_families : forall d1 d2, comparable d1 d2 = true ->
  (match family_of d1 with FamInt | FamDec => true | _ => false end = true /\
   match family_of d2 with FamInt | FamDec => true | _ => false end = true)
  \/ (coalesce_string d1 = coalesce_string d2 /\ family_of d1 = family_of d2).
Proof.
  intros d1 d2 H. unfold comparable in H.
  destruct (family_of d1) eqn:F1; destruct (family_of d2) eqn:F2;
    try (left; split; reflexivity);
    right; apply dt_eqb_eq in H; (split; [exact H|]);
    rewrite <- (family_coalesce d1), <- (family_coalesce d2), H in *; congruence.
Qed.

(* numeric literals built from valid forms: value, flag *)
Definition num_val (d : dt) (l : str) (n : bool) (m : Z) (s : nat) : Prop :=
  l_ill (construct d l n) = Some false /\
  exists v, l_val (construct d l n) = Some v /\
    match v with
    | VInt z => s = O /\ z = m
    | VDec (DFin neg c e) => e = (- Z.of_nat s)%Z /\ zsign neg c = m
    | _ => False
    end.

Lemma num_val_int : forall d l n xv, is_int_dt d = true -> xsd_value d l = Some xv ->
  exists m, xv = XNum m O /\ num_val d l n m O.
Proof.
  intros d l n xv Hd V. destruct (xsd_value_int d l xv Hd V) as (z & _ & E & _). subst xv.
  exists z. split; [reflexivity|]. unfold num_val. rewrite (int_construct_valid d Hd l z n V). split; [reflexivity|].
  exists (VInt z). split; [reflexivity|split; reflexivity].
Qed.

Lemma num_val_dec : forall l n xv, xsd_value DDecimal l = Some xv ->
  exists m s, xv = XNum m s /\ num_val DDecimal l n m s.
Proof.
  intros l n xv V. destruct (dec_valid l xv V) as (neg & c & s & E & P). subst xv.
  exists (zsign neg c), s. split; [reflexivity|]. unfold num_val. rewrite dec_construct, P. split; [reflexivity|].
  exists (VDec (DFin neg c (- Z.of_nat s))). split; [reflexivity|split; reflexivity].
Qed.

Lemma numeric_family : forall d, match family_of d with FamInt | FamDec => true | _ => false end = true ->
  is_numeric d = true /\
  forall l n xv, xsd_value d l = Some xv -> exists m s, xv = XNum m s /\ num_val d l n m s.
Proof.
  intros d H. destruct (family_of d) eqn:F; try discriminate.
  - pose proof (family_int d F) as Hd. split; [apply int_is_numeric; exact Hd|].
    intros l n xv V. destruct (num_val_int d l n xv Hd V) as (m & E & NV). exists m, O. tauto.
  - rewrite (family_dec d F). split; [apply dec_is_numeric|]. intros l n xv V. apply num_val_dec. exact V.
Qed.

Lemma pow10_0 : forall x, (x * 10 ^ Z.of_nat 0)%Z = x.
Proof. intro x. cbn. lia. Qed.

Lemma fin_eqb_spec_r0 : forall n1 c1 (s1 : nat) n2 c2,
  fin_eqb n1 c1 (- Z.of_nat s1) n2 c2 0 = (zsign n1 c1 * 10 ^ Z.of_nat 0 =? zsign n2 c2 * 10 ^ Z.of_nat s1)%Z.
Proof. intros. exact (fin_eqb_spec n1 c1 s1 n2 c2 O). Qed.

Lemma num_eq : forall d1 l1 n1 m1 s1 d2 l2 n2 m2 s2,
  is_numeric d1 = true -> is_numeric d2 = true ->
  num_val d1 l1 n1 m1 s1 -> num_val d2 l2 n2 m2 s2 ->
  eq_m d1 (construct d1 l1 n1) d2 (construct d2 l2 n2) = eqres_of (xval_eqb (XNum m1 s1) (XNum m2 s2)).
Proof.
  intros d1 l1 n1 m1 s1 d2 l2 n2 m2 s2 N1 N2 (I1 & v1 & V1 & H1) (I2 & v2 & V2 & H2).
  unfold eq_m. rewrite N1, N2. unfold not_ill. rewrite I1, I2, V1, V2. cbn [andb]. f_equal.
  cbn [xval_eqb].
  destruct v1 as [z1| |[g1 c1 e1| |]| |]; try contradiction;
  destruct v2 as [z2| |[g2 c2 e2| |]| |]; try contradiction.
  - destruct H1 as [-> ->], H2 as [-> ->]. cbn [val_eqb]. rewrite !pow10_0. reflexivity.
  - destruct H1 as [-> ->], H2 as [-> <-]. cbn [val_eqb dec_eqb dec_of_z].
    rewrite fin_eqb_spec_r0, zsign_abs. apply Z.eqb_sym.
  - destruct H1 as [-> <-], H2 as [-> ->]. cbn [val_eqb dec_eqb dec_of_z].
    rewrite fin_eqb_spec_r0, zsign_abs. reflexivity.
  - destruct H1 as [-> <-], H2 as [-> <-]. cbn [val_eqb dec_eqb]. apply fin_eqb_spec.
Qed.

Lemma str_not_numeric : forall d, family_of d = FamStr -> is_numeric d = false.
Proof. intros d H. unfold is_numeric. rewrite (str_rows d H). reflexivity. Qed.

Lemma ceq_value : forall d1 l1 n1 d2 l2 n2 x1 x2,
  xsd_value d1 l1 = Some x1 -> xsd_value d2 l2 = Some x2 -> comparable d1 d2 = true ->
  eq_m d1 (construct d1 l1 n1) d2 (construct d2 l2 n2) = eqres_of (xval_eqb x1 x2).
Proof.
  intros d1 l1 n1 d2 l2 n2 x1 x2 V1 V2 C.
  destruct (comparable_families d1 d2 C) as [[F1 F2]|[Ec Ef]].
  - (* numeric datatypes *)
    destruct (numeric_family d1 F1) as [N1 K1]. destruct (numeric_family d2 F2) as [N2 K2].
    destruct (K1 l1 n1 x1 V1) as (m1 & s1 & -> & NV1). destruct (K2 l2 n2 x2 V2) as (m2 & s2 & -> & NV2).
    apply num_eq; assumption.
  - destruct (family_of d1) eqn:F1.
    + (* integer, same datatype *)
      symmetry in Ef.
      destruct (numeric_family d1) as [N1 K1]; [rewrite F1; reflexivity|].
      destruct (numeric_family d2) as [N2 K2]; [rewrite Ef; reflexivity|].
      destruct (K1 l1 n1 x1 V1) as (m1 & s1 & -> & NV1). destruct (K2 l2 n2 x2 V2) as (m2 & s2 & -> & NV2).
      apply num_eq; assumption.
    + symmetry in Ef.
      destruct (numeric_family d1) as [N1 K1]; [rewrite F1; reflexivity|].
      destruct (numeric_family d2) as [N2 K2]; [rewrite Ef; reflexivity|].
      destruct (K1 l1 n1 x1 V1) as (m1 & s1 & -> & NV1). destruct (K2 l2 n2 x2 V2) as (m2 & s2 & -> & NV2).
      apply num_eq; assumption.
    + (* boolean: four valid forms each *)
      symmetry in Ef. rewrite (family_bool d1 F1) in *. rewrite (family_bool d2 Ef) in *.
      assert (X1 : x1 = XBool (py_bool l1)).
      { destruct (bool_valid_forms l1 x1 V1) as [E|[E|[E|E]]]; subst l1; vm_compute in V1; inversion V1; reflexivity. }
      assert (X2 : x2 = XBool (py_bool l2)).
      { destruct (bool_valid_forms l2 x2 V2) as [E|[E|[E|E]]]; subst l2; vm_compute in V2; inversion V2; reflexivity. }
      subst x1 x2. erewrite bool_eq_m; [reflexivity| |]; rewrite bool_construct; reflexivity.
    + (* string family, same datatype up to plain ~ xsd:string *)
      symmetry in Ef. rename Ef into F2.
      destruct (str_valid_kept d1 l1 x1 F1 V1) as [P1 ->]. destruct (str_valid_kept d2 l2 x2 F2 V2) as [P2 ->].
      rewrite (str_construct d1 l1 n1 F1), (str_construct d2 l2 n2 F2), P1, P2.
      assert (H1 : (if is_ws_type d1 then l1 else l1) = l1) by (destruct (is_ws_type d1); reflexivity).
      assert (H2 : (if is_ws_type d2 then l2 else l2) = l2) by (destruct (is_ws_type d2); reflexivity).
      rewrite H1, H2. unfold eq_m. rewrite (str_not_numeric d1 F1). cbn [andb l_val l_lex].
      rewrite <- Ec, dt_eqb_refl. cbn [negb xval_eqb val_eqb].
      destruct (dt_eqb (coalesce_string d1) DString && dt_eqb (coalesce_string d1) DString); reflexivity.
Qed.

(* ------------------------------------------------------------------ *)
(* the tie theorem, every case kind *)

Lemma ceq_all : forall d1 l1 n1 d2 l2 n2,
  spec_ok (CEq d1 l1 n1 d2 l2 n2) (model_obs (CEq d1 l1 n1 d2 l2 n2)) = true.
Proof.
  intros d1 l1 n1 d2 l2 n2. cbn [model_obs spec_ok]. apply andb_true_iff. split.
  - destruct (term_eq d1 (construct d1 l1 n1) d2 (construct d2 l2 n2)) eqn:T; [|reflexivity].
    destruct (eq_scope d1 l1) eqn:S1; [|reflexivity]. destruct (eq_scope d2 l2) eqn:S2; [|reflexivity].
    cbn [andb implb']. unfold term_eq in T. apply andb_true_iff in T. destruct T as [Td Tl].
    apply dt_eqb_eq in Td. subst d2. rewrite (ceq_same d1 l1 n1 l2 n2 Tl S1 S2). reflexivity.
  - destruct (xsd_value d1 l1) as [x1|] eqn:V1; [|reflexivity].
    destruct (xsd_value d2 l2) as [x2|] eqn:V2; [|reflexivity].
    destruct (comparable d1 d2) eqn:C; [|reflexivity].
    rewrite (ceq_value d1 l1 n1 d2 l2 n2 x1 x2 V1 V2 C). destruct (xval_eqb x1 x2); reflexivity.
Qed.

Theorem spec_ok_model : forall c, wf c = true -> kf c = 0 -> spec_ok c (model_obs c) = true.
Proof.
  intros [d l norm|v|d1 l1 n1 d2 l2 n2|fam region] W K.
  - apply clex_all.
  - apply cpy_all; assumption.
  - apply ceq_all.
  - discriminate.
Qed.

(* glue only: a conformance case outside every finding region expects "no law failed" - this says nothing about
   rdflib or XSD, the judgement is made by the oracle in harness/c09.py *)
Lemma conf_glue : forall fam region, kf (CConf fam region) = 0 ->
  spec_ok (CConf fam region) (model_obs (CConf fam region)) = true.
Proof.
  intros fam region K. cbn [kf] in K. cbn [model_obs spec_ok]. unfold conf_expected.
  destruct region as [|p]; [reflexivity|].
  do 3 (destruct p as [p|p|]; try discriminate; try reflexivity).
Qed.

(* ------------------------------------------------------------------ *)
(* statements collected for Props/C09.v *)

Lemma dec_reparse_canonical : forall neg c e, (e <= 0)%Z -> dec_reparse (DFin neg c e) = DFin neg c e.
Proof. intros neg c e H. unfold dec_reparse. replace (0 <? e)%Z with false by (symmetry; apply Z.ltb_ge; exact H). reflexivity. Qed.

(* valid decimal forms through the pipeline *)
Lemma dec_pipeline : forall l xv norm, xsd_value DDecimal l = Some xv ->
  exists neg c s, xv = XNum (zsign neg c) s /\
    let d := DFin neg c (- Z.of_nat s) in
    construct DDecimal l norm = {| l_lex := if norm then fformat d else l; l_ill := Some false; l_val := Some (VDec d) |}
    /\ denotes (Some (VDec d)) xv = true
    /\ xsd_value DDecimal (fformat d) = Some xv
    /\ normalize_m DDecimal (construct DDecimal l norm) = {| l_lex := fformat d; l_ill := None; l_val := Some (VDec d) |}
    /\ construct DDecimal (fformat d) true = {| l_lex := fformat d; l_ill := Some false; l_val := Some (VDec d) |}.
Proof.
  intros l xv norm V. destruct (dec_valid l xv V) as (neg & c & s & E & P). exists neg, c, s. split; [exact E|].
  cbv zeta. destruct (dec_print_exact neg c s) as [PP XP]. subst xv.
  split; [rewrite dec_construct, P; reflexivity|]. split; [apply denote_fin_exact|]. split; [exact XP|].
  split; [apply (dec_normalize l norm _ P)|]. rewrite dec_construct, PP. reflexivity.
Qed.

(* construction-time normalisation of decimals is idempotent for every form, valid or not *)
Lemma dec_construct_idempotent : forall l,
  l_lex (construct DDecimal (l_lex (construct DDecimal l true)) true) = l_lex (construct DDecimal l true).
Proof.
  intro l. rewrite !dec_construct. cbn [l_lex]. destruct (py_decimal l) as [d|] eqn:P.
  - rewrite py_decimal_print. apply fformat_reparse.
  - rewrite P. reflexivity.
Qed.

(* where the code's check is exactly the XSD range, an out-of-range XSD integer is flagged *)
Lemma opt_eqb_Z_eq : forall a b, opt_eqb Z.eqb a b = true -> a = b.
Proof. intros [a|] [b|] H; cbn in H; try discriminate; try reflexivity. apply Z.eqb_eq in H. congruence. Qed.

Lemma int_exact_flags : forall d l z norm, is_int_dt d = true -> int_row_exact d = true ->
  xsd_int_lex l = Some z -> in_range (xsd_range d) z = false -> l_ill (construct d l norm) = Some true.
Proof.
  intros d l z norm Hd Hx L R. unfold construct, parse_m. unfold int_row_exact in Hx.
  destruct (row_of d) as [[[cv ck] nu]|]; [|discriminate].
  destruct cv; try discriminate. destruct ck as [| |acc|lo hi ne]; try discriminate; destruct nu; try discriminate.
  - destruct (xsd_range d) as [[?|] [?|]]; try discriminate.
  - destruct (xsd_range d) as [lo' hi']. apply andb_true_iff in Hx. destruct Hx as [H1 H2].
    apply opt_eqb_Z_eq in H1, H2. subst lo' hi'.
    cbn [parse_with l_ill]. rewrite (py_int_xsd _ _ L), (is_int_dt_plain d Hd). cbn [check_with].
    unfold in_range in R. cbn [fst snd] in R.
    rewrite <- andb_assoc, R, andb_false_r. reflexivity.
Qed.

(* string family, full strength *)
Definition str_faithful (d : dt) : Prop :=
  (* construction: never flagged; the stored form is the white-space-processed string and the value is the stored form *)
  (forall l norm, construct d l norm =
      {| l_lex := post d l; l_ill := (match d with DPlain => None | _ => Some false end);
         l_val := Some (VStr (if is_ws_type d then post d l else l)) |}
      /\ l_val (construct d l norm) = Some (VStr (l_lex (construct d l norm))))
  (* a form of the lexical space is kept as it is and its value is the XSD value *)
  /\ (forall l xv, xsd_value d l = Some xv -> post d l = l /\ xv = XStr l)
  (* whatever is offered, the stored form is in the lexical space and denotes itself *)
  /\ (forall s, xsd_value d (post d s) = Some (XStr (post d s)))
  (* normalize() and re-reading change nothing *)
  /\ (forall l norm, normalize_m d (construct d l norm) = construct d l norm
                     /\ construct d (l_lex (construct d l norm)) true = construct d l norm).

Lemma str_faithful_all : forall d, family_of d = FamStr -> str_faithful d.
Proof.
  intros d H. split; [|split; [|split]].
  - intros l norm. split; [apply str_construct; exact H|apply str_value_is_form; exact H].
  - intros l xv V. apply (str_valid_kept d l xv H V).
  - intro s. apply str_stored_valid. exact H.
  - intros l norm. split; [apply str_renormalize; exact H|apply str_reread; exact H].
Qed.

(* ------------------------------------------------------------------ *)
(* Prop-level readings of the checker *)

Lemma eqres_eqb_true : forall e, eqres_eqb e ETrue = true -> e = ETrue.
Proof. destruct e; cbn; congruence. Qed.

Lemma spec_ok_lex_valid_reading : forall d l norm x n1 n2 re e same xv,
  spec_ok (CLex d l norm) (OLex x n1 n2 re e same) = true -> xsd_value d l = Some xv ->
  ill_ok d (l_ill x) false = true /\ denotes (l_val x) xv = true /\ lex_denotes d (l_lex x) xv = true
  /\ (norm = false -> l_lex x = l)
  /\ denotes (l_val n1) xv = true /\ lex_denotes d (l_lex n1) xv = true
  /\ denotes (l_val re) xv = true /\ lex_denotes d (l_lex re) xv = true
  /\ l_lex n2 = l_lex n1 /\ (norm = true -> l_lex re = l_lex x) /\ e = ETrue.
Proof.
  intros d l norm x n1 n2 re e same xv H V. cbn [spec_ok] in H. rewrite V in H. unfold lex_valid_ok in H.
  repeat (apply andb_true_iff in H; destruct H as [H ?]).
  repeat (match goal with |- _ /\ _ => split end); try assumption.
  - intro Hn. subst norm. cbn [orb] in *. apply str_eqb_eq. assumption.
  - apply str_eqb_eq. assumption.
  - intro Hn. subst norm. cbn [implb'] in *. apply str_eqb_eq. assumption.
  - apply eqres_eqb_true. assumption.
Qed.

Lemma spec_ok_lex_any_reading : forall d l norm x n1 n2 re e same,
  spec_ok (CLex d l norm) (OLex x n1 n2 re e same) = true ->
  l_lex n2 = l_lex n1 /\ (norm = true -> l_lex re = l_lex x)
  /\ (same = true -> eq_scope d l = true -> e = ETrue).
Proof.
  intros d l norm x n1 n2 re e same H. cbn [spec_ok] in H.
  repeat (apply andb_true_iff in H; destruct H as [H ?]).
  repeat (match goal with |- _ /\ _ => split end).
  - apply str_eqb_eq. assumption.
  - intro Hn. subst norm. cbn [implb'] in *. apply str_eqb_eq. assumption.
  - intros Hs Hc. subst same. rewrite Hc in *. cbn [andb implb'] in *. apply eqres_eqb_true. assumption.
Qed.

Lemma spec_ok_eq_reading : forall d1 l1 n1 d2 l2 n2 same e x1 x2,
  spec_ok (CEq d1 l1 n1 d2 l2 n2) (OEq same e) = true ->
  (same = true -> eq_scope d1 l1 = true -> eq_scope d2 l2 = true -> e = ETrue)
  /\ (xsd_value d1 l1 = Some x1 -> xsd_value d2 l2 = Some x2 -> comparable d1 d2 = true ->
      e = eqres_of (xval_eqb x1 x2)).
Proof.
  intros d1 l1 n1 d2 l2 n2 same e x1 x2 H. cbn [spec_ok] in H.
  apply andb_true_iff in H. destruct H as [H1 H2]. split.
  - intros Hs S1 S2. subst same. rewrite S1, S2 in H1. apply eqres_eqb_true. exact H1.
  - intros V1 V2 C. rewrite V1, V2, C in H2.
    destruct e, (xval_eqb x1 x2); cbn in *; congruence.
Qed.

Lemma spec_ok_py_reading : forall v dr x back e xv,
  spec_ok (CPy v) (OPy dr x back e) = true -> denote v = Some xv ->
  let d := match dr with RDt d => d | _ => DPlain end in
  dtres_eqb dr (documented_dt v) = true /\ lex_denotes d (l_lex x) xv = true
  /\ denotes (l_val back) xv = true /\ ill_ok d (l_ill back) false = true /\ l_lex back = l_lex x /\ e = ETrue.
Proof.
  intros v dr x back e xv H D. cbn [spec_ok] in H. rewrite D in H.
  apply andb_true_iff in H. destruct H as [Hd H].
  repeat (apply andb_true_iff in H; destruct H as [H ?]).
  cbv zeta. repeat (match goal with |- _ /\ _ => split end); try assumption.
  - apply str_eqb_eq. assumption.
  - apply eqres_eqb_true. assumption.
Qed.

(* ------------------------------------------------------------------ *)
(* the code as modelled: F14b, and what it does with forms outside the lexical spaces
   (not demanded by the property, kept as documentation) *)

(* F14b: Decimal('NaN') is given datatype xsd:decimal and the form NaN *)
Lemma decimal_nan_refuted :
  dt_of_name (snd (cast_python (VDec (DNaN false)))) = RDt DDecimal
  /\ xsd_value DDecimal (fst (cast_python (VDec (DNaN false)))) = None.
Proof. vm_compute. split; reflexivity. Qed.

Lemma invalid_forms_accepted_examples :
  (* "1_0"^^xsd:integer is read as 10, 2^63 is accepted as xsd:long, "1e5"^^xsd:decimal is read *)
  (xsd_value DInteger [49; 95; 48] = None /\ l_ill (construct DInteger [49; 95; 48] true) = Some false)
  /\ (let l := [57; 50; 50; 51; 51; 55; 50; 48; 51; 54; 56; 53; 52; 55; 55; 53; 56; 48; 56] in
      xsd_value DLong l = None /\ l_ill (construct DLong l true) = Some false)
  /\ (xsd_value DDecimal [49; 101; 53] = None /\ l_lex (construct DDecimal [49; 101; 53] true) = [49; 48; 48; 48; 48; 48]).
Proof. vm_compute. repeat split. Qed.
