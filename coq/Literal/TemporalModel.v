(* C09 - xsd:date, xsd:time, xsd:dateTime: integer-field model of what rdflib does with lexical forms of
   the XSD shape
        date      [-]YYYY[Y..]-MM-DD[tz]          (rdflib.xsd_datetime.parse_xsd_date -> date.fromisoformat)
        time      hh:mm:ss[.f+][tz]               (time.fromisoformat)
        dateTime  [-]YYYY[Y..]-MM-DDThh:mm:ss[.f+][tz]   (datetime.fromisoformat)
        tz        Z | (+|-)hh:mm
   (python 3.12: range checks of the date/time constructors, fraction truncated to 6 digits, any offset below
   24 h, "Z" and "-00:00" are UTC; parse_xsd_date drops the time zone), of the isoformat() lexicalisers, and of
   Literal.__new__ / normalize() / eq for these datatypes.  Forms that are not of this shape are OUTSIDE the model
   (python accepts further ISO 8601 forms); the harness offers only forms of the shape to this model.
   Second half: the XSD lexical spaces and seven-property values, the guard under which python's datetime can carry
   the value, the checker, and the trigger for finding F14g = valid forms outside the guard.  Definitions only. *)
From Coq Require Import List NArith ZArith Bool.
Import ListNotations.
From RV Require Export Literal.Model.
Local Open Scope N_scope.

Inductive tdt := TDate | TTime | TDateTime.

Inductive tval :=
| VDate (y m d : N)
| VTime (h mi s us : N) (tz : option Z)                    (* tz: utcoffset in minutes *)
| VDateTime (y m d h mi s us : N) (tz : option Z).

(* ------------------------------------------------------------------ *)
(* fixed-width numerals *)

Definition d2 (n : N) : str := [48 + n / 10; 48 + n mod 10].
Definition d4 (n : N) : str := [48 + n / 1000; 48 + (n / 100) mod 10; 48 + (n / 10) mod 10; 48 + n mod 10].
Definition d6 (n : N) : str :=
  [48 + n / 100000; 48 + (n / 10000) mod 10; 48 + (n / 1000) mod 10; 48 + (n / 100) mod 10; 48 + (n / 10) mod 10; 48 + n mod 10].

Definition dig (c : N) : option N := if is_dig c then Some (c - 48) else None.

Definition take2 (l : str) : option (N * str) :=
  match l with
  | a :: b :: r => match dig a, dig b with Some x, Some y => Some (10 * x + y, r) | _, _ => None end
  | _ => None
  end.

Definition take4 (l : str) : option (N * str) :=
  match take2 l with
  | Some (hi, r) => match take2 r with Some (lo, r') => Some (100 * hi + lo, r') | None => None end
  | None => None
  end.

Definition expect (c : N) (l : str) : option str :=
  match l with x :: r => if x =? c then Some r else None | [] => None end.

(* ------------------------------------------------------------------ *)
(* the shape, shared by the python side and the XSD side: fields as written *)

(* time of day: hh:mm:ss and the fraction digits (None: no point) *)
Definition shape_hms (l : str) : option (N * N * N * option str * str) :=
  match take2 l with
  | Some (h, r1) =>
      match expect 58 r1 with
      | Some r2 =>
          match take2 r2 with
          | Some (mi, r3) =>
              match expect 58 r3 with
              | Some r4 =>
                  match take2 r4 with
                  | Some (s, r5) =>
                      match r5 with
                      | c :: r6 => if c =? 46 then
                                     let '(fd, r7) := span_digits r6 in
                                     if is_nil fd then None else Some (h, mi, s, Some fd, r7)
                                   else Some (h, mi, s, None, r5)
                      | [] => Some (h, mi, s, None, [])
                      end
                  | None => None
                  end
              | None => None
              end
          | None => None
          end
      | None => None
      end
  | None => None
  end.

(* time zone: nothing, Z, or sign hh:mm; must use up the string. Result: (negative, hh, mm) *)
Inductive tzshape := TzNone | TzZ | TzOff (neg : bool) (hh mm : N).

Definition shape_tz (l : str) : option tzshape :=
  match l with
  | [] => Some TzNone
  | [90] => Some TzZ
  | c :: r =>
      if (c =? 43) || (c =? 45) then
        match take2 r with
        | Some (hh, r1) =>
            match expect 58 r1 with
            | Some r2 => match take2 r2 with
                         | Some (mm, []) => Some (TzOff (c =? 45) hh mm)
                         | _ => None
                         end
            | None => None
            end
        | None => None
        end
      else None
  end.

(* calendar date: optional minus, year digits (at least four), -MM-DD *)
Definition shape_ymd (l : str) : option (bool * str * N * N * str) :=
  let '(neg, b) := match l with c :: r => if c =? 45 then (true, r) else (false, l) | [] => (false, l) end in
  let '(yd, r1) := span_digits b in
  if (length yd <? 4)%nat then None else
  match expect 45 r1 with
  | Some r2 =>
      match take2 r2 with
      | Some (m, r3) =>
          match expect 45 r3 with
          | Some r4 => match take2 r4 with Some (d, r5) => Some (neg, yd, m, d, r5) | None => None end
          | None => None
          end
      | None => None
      end
  | None => None
  end.

(* ------------------------------------------------------------------ *)
(* python side *)

Definition is_leap (y : N) : bool := (y mod 4 =? 0) && (negb (y mod 100 =? 0) || (y mod 400 =? 0)).
Definition days_in_month (y m : N) : N :=
  if m =? 2 then (if is_leap y then 29 else 28)
  else if (m =? 4) || (m =? 6) || (m =? 9) || (m =? 11) then 30 else 31.

Definition py_date_ok (neg : bool) (yd : str) (m d : N) : option (N * N * N) :=
  (* date.fromisoformat wants exactly YYYY-MM-DD; the date constructor checks the ranges *)
  if neg || negb (length yd =? 4)%nat then None
  else let y := dec_value yd in
       if (1 <=? y) && (1 <=? m) && (m <=? 12) && (1 <=? d) && (d <=? days_in_month y m) then Some (y, m, d) else None.

(* fraction: the first six digits count, the others are dropped *)
Definition frac_us (fd : option str) : N :=
  match fd with Some f => dec_value (firstn 6 (f ++ zeros 6)) | None => 0 end.

Definition py_time_ok (h mi s : N) : bool := (h <? 24) && (mi <? 60) && (s <? 60).

Definition py_tz (t : tzshape) : option (option Z) :=
  match t with
  | TzNone => Some None
  | TzZ => Some (Some 0%Z)
  | TzOff neg hh mm =>
      let off := hh * 60 + mm in
      if off <? 1440 then Some (Some (if neg then (- Z.of_N off)%Z else Z.of_N off)) else None
  end.

Definition py_parse (d : tdt) (l : str) : option tval :=
  match d with
  | TDate =>
      match shape_ymd l with
      | Some (neg, yd, m, dd, rest) =>
          match shape_tz rest with          (* parse_xsd_date cuts the zone off without looking at it *)
          | Some _ => match py_date_ok neg yd m dd with Some (y, m', d') => Some (VDate y m' d') | None => None end
          | None => None
          end
      | None => None
      end
  | TTime =>
      match shape_hms l with
      | Some (h, mi, s, fd, rest) =>
          match shape_tz rest with
          | Some t => match py_tz t with
                      | Some tz => if py_time_ok h mi s then Some (VTime h mi s (frac_us fd) tz) else None
                      | None => None
                      end
          | None => None
          end
      | None => None
      end
  | TDateTime =>
      match shape_ymd l with
      | Some (neg, yd, m, dd, _ :: rest) =>        (* any separator character *)
          match shape_hms rest with
          | Some (h, mi, s, fd, rest') =>
              match shape_tz rest', py_date_ok neg yd m dd with
              | Some t, Some (y, m', d') =>
                  match py_tz t with
                  | Some tz => if py_time_ok h mi s then Some (VDateTime y m' d' h mi s (frac_us fd) tz) else None
                  | None => None
                  end
              | _, _ => None
              end
          | None => None
          end
      | _ => None
      end
  end.

(* isoformat() *)
Definition print_tz (tz : option Z) : str :=
  match tz with
  | None => []
  | Some off => let a := Z.abs_N off in
                (if (off <? 0)%Z then 45 else 43) :: d2 (a / 60) ++ [58] ++ d2 (a mod 60)
  end.
Definition print_ymd (y m d : N) : str := d4 y ++ [45] ++ d2 m ++ [45] ++ d2 d.
Definition print_hms (h mi s us : N) : str :=
  d2 h ++ [58] ++ d2 mi ++ [58] ++ d2 s ++ (if us =? 0 then [] else 46 :: d6 us).

Definition py_print (v : tval) : str :=
  match v with
  | VDate y m d => print_ymd y m d
  | VTime h mi s us tz => print_hms h mi s us ++ print_tz tz
  | VDateTime y m d h mi s us tz => print_ymd y m d ++ [84] ++ print_hms h mi s us ++ print_tz tz
  end.

(* rows of the reflected tables *)
Definition tdt_name (d : tdt) : str :=
  match d with
  | TDate => [100; 97; 116; 101]
  | TTime => [116; 105; 109; 101]
  | TDateTime => [100; 97; 116; 101; 84; 105; 109; 101]
  end.

Definition trow_of (d : tdt) : option (conv * chk * bool) :=
  match find (fun r => match r with (((ns, nm), _), _, _) => (ns =? 0) && str_eqb nm (tdt_name d) end) xsd_table with
  | Some (_, cv, ck, nu) => Some (cv, ck, nu)
  | None => None
  end.

(* the converter of the row must be the one modelled for d, the checker by-value, and the generic rule for the
   python class must have a lexicaliser and this datatype (datetime before date: isinstance) *)
Definition trow_ok (d : tdt) : bool :=
  match trow_of d, d with
  | Some (CvDate, CkByValue, false), TDate
  | Some (CvTime, CkByValue, false), TTime
  | Some (CvDateTime, CkByValue, false), TDateTime => true
  | _, _ => false
  end.

Definition tclass_tag (d : tdt) : N := match d with TDate => 6 | TDateTime => 7 | TTime => 8 end.
(* isinstance(v, T): a datetime is a date *)
Definition tisinstance (d : tdt) (tag : N) : bool :=
  match d with TDate => tag =? 6 | TDateTime => (tag =? 7) || (tag =? 6) | TTime => tag =? 8 end.
Definition trule_ok (d : tdt) : bool :=
  match find (fun r => match r with (tag, _, _) => tisinstance d tag end) generic_rules with
  | Some (tag, true, Some nm) => (tag =? tclass_tag d) && str_eqb nm (tdt_name d)
  | _ => false
  end.

Record tlit := { t_lex : str; t_ill : option bool; t_val : option tval }.

Definition tconstruct (d : tdt) (l : str) (norm : bool) : tlit :=
  let v := if trow_ok d then py_parse d l else None in
  {| t_lex := match v with Some x => if norm && trule_ok d then py_print x else l | None => l end;
     t_ill := Some (match v with Some _ => false | None => true end);
     t_val := v |}.

(* Literal.normalize(): Literal(value, datatype=d), the python-object branch *)
Definition tnormalize (d : tdt) (x : tlit) : tlit :=
  match t_val x with
  | Some v => {| t_lex := if trule_ok d then py_print v else t_lex x; t_ill := None; t_val := Some v |}
  | None => x
  end.

(* eq of a literal with its normal form: same datatype, not numeric; both values present: v == v;
   no value: same lexical form *)
Definition teq_self (a b : tlit) : eqres :=
  match t_val a, t_val b with
  | Some _, Some _ => ETrue
  | _, _ => if str_eqb (t_lex a) (t_lex b) then ETrue else ETypeError
  end.

(* ================================================================== *)
(* XSD side *)

Inductive xtval :=
| XDate (y : Z) (m d : N) (tz : option Z)
| XTime (h mi s : N) (frac : str) (tz : option Z)
| XDateTime (y : Z) (m d h mi s : N) (frac : str) (tz : option Z).

Definition z_is_leap (y : Z) : bool := ((y mod 4 =? 0) && (negb (y mod 100 =? 0) || (y mod 400 =? 0)))%Z.
Definition xsd_days_in_month (y : Z) (m : N) : N :=
  if m =? 2 then (if z_is_leap y then 29 else 28)
  else if (m =? 4) || (m =? 6) || (m =? 9) || (m =? 11) then 30 else 31.

(* yearFrag: at least four digits, no leading zero beyond four, -0000 is not a year *)
Definition xsd_year (neg : bool) (yd : str) : option Z :=
  let ok := match yd with c :: _ => ((length yd =? 4)%nat || negb (c =? 48)) | [] => false end in
  let y := dec_value yd in
  if ok && negb (neg && (y =? 0)) then Some (if neg then (- Z.of_N y)%Z else Z.of_N y) else None.

Definition xsd_ymd (neg : bool) (yd : str) (m d : N) : option (Z * N * N) :=
  match xsd_year neg yd with
  | Some y => if (1 <=? m) && (m <=? 12) && (1 <=? d) && (d <=? xsd_days_in_month y m) then Some (y, m, d) else None
  | None => None
  end.

Definition all_zero (f : str) : bool := forallb (N.eqb 48) f.

(* hh:mm:ss(.s+)? with hh < 24, or 24:00:00(.0+)? *)
Definition xsd_hms_ok (h mi s : N) (fd : option str) : bool :=
  ((h <? 24) && (mi <? 60) && (s <? 60))
  || ((h =? 24) && (mi =? 0) && (s =? 0) && match fd with Some f => all_zero f | None => true end).

(* (+|-)hh:mm up to 14:00, or Z *)
Definition xsd_tz (t : tzshape) : option (option Z) :=
  match t with
  | TzNone => Some None
  | TzZ => Some (Some 0%Z)
  | TzOff neg hh mm =>
      if ((hh <=? 13) && (mm <=? 59)) || ((hh =? 14) && (mm =? 0))
      then Some (Some (if neg then (- Z.of_N (hh * 60 + mm))%Z else Z.of_N (hh * 60 + mm))) else None
  end.

Definition frac_of (fd : option str) : str := match fd with Some f => f | None => [] end.

Definition xsd_tvalue (d : tdt) (l : str) : option xtval :=
  match d with
  | TDate =>
      match shape_ymd l with
      | Some (neg, yd, m, dd, rest) =>
          match shape_tz rest with
          | Some t => match xsd_ymd neg yd m dd, xsd_tz t with
                      | Some (y, m', d'), Some tz => Some (XDate y m' d' tz)
                      | _, _ => None
                      end
          | None => None
          end
      | None => None
      end
  | TTime =>
      match shape_hms l with
      | Some (h, mi, s, fd, rest) =>
          match shape_tz rest with
          | Some t => match xsd_tz t with
                      | Some tz => if xsd_hms_ok h mi s fd then Some (XTime h mi s (frac_of fd) tz) else None
                      | None => None
                      end
          | None => None
          end
      | None => None
      end
  | TDateTime =>
      match shape_ymd l with
      | Some (neg, yd, m, dd, 84 :: rest) =>
          match shape_hms rest with
          | Some (h, mi, s, fd, rest') =>
              match shape_tz rest', xsd_ymd neg yd m dd with
              | Some t, Some (y, m', d') =>
                  match xsd_tz t with
                  | Some tz => if xsd_hms_ok h mi s fd then Some (XDateTime y m' d' h mi s (frac_of fd) tz) else None
                  | None => None
                  end
              | _, _ => None
              end
          | None => None
          end
      | _ => None
      end
  end.

(* the fraction as microseconds, if it has no more than six significant digits *)
Definition frac_exact (f : str) : option N :=
  if all_zero (skipn 6 f) then Some (dec_value (firstn 6 (f ++ zeros 6))) else None.

Definition tz_eqb (a b : option Z) : bool := opt_eqb Z.eqb a b.

(* python value v carries exactly the XSD value x *)
Definition tdenotes (v : tval) (x : xtval) : bool :=
  match v, x with
  | VDate y m d, XDate y' m' d' tz => (Z.of_N y =? y')%Z && (m =? m') && (d =? d') && tz_eqb None tz
  | VTime h mi s us tz, XTime h' mi' s' f tz' =>
      (h =? h') && (mi =? mi') && (s =? s') && opt_eqb N.eqb (Some us) (frac_exact f) && tz_eqb tz tz'
  | VDateTime y m d h mi s us tz, XDateTime y' m' d' h' mi' s' f tz' =>
      (Z.of_N y =? y')%Z && (m =? m') && (d =? d') && (h =? h') && (mi =? mi') && (s =? s')
      && opt_eqb N.eqb (Some us) (frac_exact f) && tz_eqb tz tz'
  | _, _ => false
  end.

(* the guard: python's date / time / datetime can carry the value *)
Definition year_ok (y : Z) : bool := ((1 <=? y) && (y <=? 9999))%Z.
Definition in_guard (x : xtval) : bool :=
  match x with
  | XDate y _ _ tz => year_ok y && tz_eqb None tz
  | XTime h _ _ f _ => (h <? 24) && match frac_exact f with Some _ => true | None => false end
  | XDateTime y _ _ h _ _ f _ => year_ok y && (h <? 24) && match frac_exact f with Some _ => true | None => false end
  end.

(* ================================================================== *)
(* cases, observations, checker *)

Inductive tcase := TLex (d : tdt) (l : str) (norm : bool) | TPy (v : tval).

Inductive tobs :=
| OTLex (x n1 n2 re : tlit) (e : eqres) (same : bool)
| OTPy (d : option tdt) (x back : tlit) (e : eqres)
| OTBad.

Definition tval_eqb (a b : tval) : bool :=
  match a, b with
  | VDate y m d, VDate y' m' d' => (y =? y') && (m =? m') && (d =? d')
  | VTime h mi s us tz, VTime h' mi' s' us' tz' => (h =? h') && (mi =? mi') && (s =? s') && (us =? us') && tz_eqb tz tz'
  | VDateTime y m d h mi s us tz, VDateTime y' m' d' h' mi' s' us' tz' =>
      (y =? y') && (m =? m') && (d =? d') && (h =? h') && (mi =? mi') && (s =? s') && (us =? us') && tz_eqb tz tz'
  | _, _ => false
  end.

Definition tlit_eqb (a b : tlit) : bool :=
  str_eqb (t_lex a) (t_lex b) && opt_eqb Bool.eqb (t_ill a) (t_ill b) && opt_eqb tval_eqb (t_val a) (t_val b).

Definition tdt_eqb (a b : tdt) : bool :=
  match a, b with TDate, TDate | TTime, TTime | TDateTime, TDateTime => true | _, _ => false end.

Definition tobs_eqb (a b : tobs) : bool :=
  match a, b with
  | OTLex x n1 n2 re e s, OTLex x' n1' n2' re' e' s' =>
      tlit_eqb x x' && tlit_eqb n1 n1' && tlit_eqb n2 n2' && tlit_eqb re re' && eqres_eqb e e' && Bool.eqb s s'
  | OTPy d x b e, OTPy d' x' b' e' => opt_eqb tdt_eqb d d' && tlit_eqb x x' && tlit_eqb b b' && eqres_eqb e e'
  | _, _ => false
  end.

Definition tdt_of (v : tval) : tdt := match v with VDate _ _ _ => TDate | VTime _ _ _ _ _ => TTime | _ => TDateTime end.

(* well-formed python values: what the constructors of date / time / datetime accept, with a utcoffset in whole
   minutes that XSD can express (at most 14:00 either way; python allows anything below 24 h, and isoformat()
   then writes a zone that is not in the XSD lexical space) *)
Definition tz_wf (tz : option Z) : bool := match tz with Some o => (Z.abs_N o <=? 840) | None => true end.
Definition tval_wf (v : tval) : bool :=
  match v with
  | VDate y m d => (1 <=? y) && (y <=? 9999) && (1 <=? m) && (m <=? 12) && (1 <=? d) && (d <=? days_in_month y m)
  | VTime h mi s us tz => py_time_ok h mi s && (us <? 1000000) && tz_wf tz
  | VDateTime y m d h mi s us tz =>
      (1 <=? y) && (y <=? 9999) && (1 <=? m) && (m <=? 12) && (1 <=? d) && (d <=? days_in_month y m)
      && py_time_ok h mi s && (us <? 1000000) && tz_wf tz
  end.

Definition tmodel_obs (c : tcase) : tobs :=
  match c with
  | TLex d l norm =>
      let x := tconstruct d l norm in
      let n1 := tnormalize d x in
      let n2 := tnormalize d n1 in
      let re := tconstruct d (t_lex x) true in
      OTLex x n1 n2 re (teq_self x n1) (str_eqb (t_lex x) (t_lex n1))
  | TPy v =>
      let d := tdt_of v in
      if trule_ok d then
        let x := {| t_lex := py_print v; t_ill := None; t_val := Some v |} in
        let back := tconstruct d (t_lex x) normalize_literals_default in
        OTPy (Some d) x back (teq_self x back)
      else OTBad
  end.

Definition tval_is (v : option tval) (x : xtval) : bool := match v with Some w => tdenotes w x | None => false end.
(* form l is in the lexical space of d and denotes the same value as x (identity of the seven properties,
   fractions compared as microseconds) *)
Definition xt_same (a b : xtval) : bool :=
  match a, b with
  | XDate y m d tz, XDate y' m' d' tz' => (y =? y')%Z && (m =? m') && (d =? d') && tz_eqb tz tz'
  | XTime h mi s f tz, XTime h' mi' s' f' tz' =>
      (h =? h') && (mi =? mi') && (s =? s') && opt_eqb N.eqb (frac_exact f) (frac_exact f')
      && (match frac_exact f with Some _ => true | None => false end) && tz_eqb tz tz'
  | XDateTime y m d h mi s f tz, XDateTime y' m' d' h' mi' s' f' tz' =>
      (y =? y')%Z && (m =? m') && (d =? d') && (h =? h') && (mi =? mi') && (s =? s')
      && opt_eqb N.eqb (frac_exact f) (frac_exact f')
      && (match frac_exact f with Some _ => true | None => false end) && tz_eqb tz tz'
  | _, _ => false
  end.
Definition tlex_is (d : tdt) (l : str) (x : xtval) : bool :=
  match xsd_tvalue d l with Some y => xt_same y x | None => false end.

Definition tvalid_ok (d : tdt) (l : str) (norm : bool) (xv : xtval) (x n1 re : tlit) (e : eqres) : bool :=
  opt_eqb Bool.eqb (t_ill x) (Some false)
  && tval_is (t_val x) xv && tlex_is d (t_lex x) xv
  && (norm || str_eqb (t_lex x) l)
  && tval_is (t_val n1) xv && tlex_is d (t_lex n1) xv
  && tval_is (t_val re) xv && tlex_is d (t_lex re) xv && opt_eqb Bool.eqb (t_ill re) (Some false)
  && eqres_eqb e ETrue.

(* the XSD value of a well-formed python value *)
Definition xt_of (v : tval) : xtval :=
  match v with
  | VDate y m d => XDate (Z.of_N y) m d None
  | VTime h mi s us tz => XTime h mi s (d6 us) tz
  | VDateTime y m d h mi s us tz => XDateTime (Z.of_N y) m d h mi s (d6 us) tz
  end.

Definition tspec_ok (c : tcase) (o : tobs) : bool :=
  match c, o with
  | TLex d l norm, OTLex x n1 n2 re e same =>
      (match xsd_tvalue d l with
       | Some xv => tvalid_ok d l norm xv x n1 re e
       | None => true
       end)
      && str_eqb (t_lex n2) (t_lex n1) && opt_eqb tval_eqb (t_val n2) (t_val n1)
      && implb' norm (str_eqb (t_lex re) (t_lex x))
      && implb' same (eqres_eqb e ETrue)
  | TPy v, OTPy d x back e =>
      opt_eqb tdt_eqb d (Some (tdt_of v))
      && tlex_is (tdt_of v) (t_lex x) (xt_of v)
      && opt_eqb tval_eqb (t_val x) (Some v)
      && opt_eqb tval_eqb (t_val back) (Some v) && opt_eqb Bool.eqb (t_ill back) (Some false)
      && str_eqb (t_lex back) (t_lex x) && eqres_eqb e ETrue
  | _, _ => false
  end.

Definition twf (c : tcase) : bool := match c with TPy v => tval_wf v | _ => true end.

(* F14g: a valid form whose value python's datetime cannot carry *)
Definition tkf (c : tcase) : N :=
  match c with
  | TLex d l _ => match xsd_tvalue d l with Some xv => if in_guard xv then 0 else 7 | None => 0 end
  | TPy _ => 0
  end.
