(* C09 - xsd:decimal: python's Decimal(str) and format(d, "f") against the XSD lexical space *)
From Coq Require Import List NArith ZArith Bool Lia.
Import ListNotations.
From RV Require Import Literal.Model Literal.Token Literal.Proofs.
Local Open Scope N_scope.

(* ------------------------------------------------------------------ *)
(* digit strings *)

Lemma fold_step_acc : forall b acc,
  fold_left (fun a c => 10 * a + (c - 48)) b acc
  = acc * 10 ^ N.of_nat (length b) + fold_left (fun a c => 10 * a + (c - 48)) b 0.
Proof.
  induction b as [|c r IH]; intro acc.
  - cbn. lia.
  - cbn [fold_left length]. rewrite IH. rewrite (IH (10 * 0 + (c - 48))).
    rewrite Nat2N.inj_succ, N.pow_succ_r'. lia.
Qed.

Lemma dec_value_app2 : forall a b, dec_value (a ++ b) = dec_value a * 10 ^ N.of_nat (length b) + dec_value b.
Proof. intros a b. unfold dec_value. rewrite fold_left_app. apply fold_step_acc. Qed.

Lemma zeros_length : forall n, length (zeros n) = n.
Proof. intro n. apply repeat_length. Qed.

Lemma zeros_digits : forall n, forallb is_dig (zeros n) = true.
Proof. induction n; [reflexivity|]. cbn. exact IHn. Qed.

Lemma dec_value_zeros : forall n, dec_value (zeros n) = 0.
Proof.
  induction n; [reflexivity|].
  change (zeros (S n)) with ([48] ++ zeros n). rewrite dec_value_app2, IHn. reflexivity.
Qed.

Lemma zeros_snoc : forall n, zeros n ++ [48] = zeros (S n).
Proof. induction n; [reflexivity|]. cbn. f_equal. exact IHn. Qed.

Lemma dec_value_lead_zeros : forall n ds, dec_value (zeros n ++ ds) = dec_value ds.
Proof. intros. rewrite dec_value_app2, dec_value_zeros. reflexivity. Qed.

Lemma dec_value_lead_zero : forall ds, dec_value (48 :: ds) = dec_value ds.
Proof. intro ds. apply (dec_value_lead_zeros 1 ds). Qed.

(* ---- str(int) is independent of the fuel, and its recursion equation ---- *)

Lemma digs_fuel_enough : forall f1 f2 n, n < 2 ^ N.of_nat f1 -> n < 2 ^ N.of_nat f2 ->
  digs_fuel f1 n = digs_fuel f2 n.
Proof.
  induction f1 as [|f IH]; intros f2 n H1 H2.
  - cbn in H1. assert (n = 0) by lia. subst. destruct f2; reflexivity.
  - cbn [digs_fuel]. destruct (n <? 10) eqn:E.
    + destruct f2 as [|f'].
      * cbn in H2. assert (n = 0) by lia. subst. reflexivity.
      * cbn [digs_fuel]. rewrite E. reflexivity.
    + apply N.ltb_ge in E. destruct f2 as [|f'].
      * cbn in H2. lia.
      * cbn [digs_fuel]. replace (n <? 10) with false by (symmetry; apply N.ltb_ge; exact E).
        f_equal. apply IH.
        -- apply N.div_lt_upper_bound; [lia|]. rewrite Nat2N.inj_succ, N.pow_succ_r' in H1. lia.
        -- apply N.div_lt_upper_bound; [lia|]. rewrite Nat2N.inj_succ, N.pow_succ_r' in H2. lia.
Qed.

Lemma size_bound : forall n, n < 2 ^ N.of_nat (N.to_nat (N.size n)).
Proof. intro n. rewrite N2Nat.id. apply N.size_gt. Qed.

Lemma digs_small : forall n, n < 10 -> digs n = [48 + n].
Proof.
  intros n H. unfold digs. destruct (N.to_nat (N.size n)) eqn:E.
  - pose proof (size_bound n) as B. rewrite E in B. cbn in B. assert (n = 0) by lia. subst. reflexivity.
  - cbn [digs_fuel]. replace (n <? 10) with true by (symmetry; apply N.ltb_lt; exact H). reflexivity.
Qed.

Lemma digs_step : forall n, 10 <= n -> digs n = digs (n / 10) ++ [48 + n mod 10].
Proof.
  intros n H. unfold digs at 1. pose proof (size_bound n) as B.
  destruct (N.to_nat (N.size n)) as [|f] eqn:E.
  - cbn in B. lia.
  - cbn [digs_fuel]. replace (n <? 10) with false by (symmetry; apply N.ltb_ge; exact H).
    f_equal. unfold digs. apply digs_fuel_enough.
    + apply N.div_lt_upper_bound; [lia|]. rewrite Nat2N.inj_succ, N.pow_succ_r' in B. lia.
    + apply size_bound.
Qed.

(* appending zeros multiplies by ten *)
Lemma digs_times_pow10 : forall e c, c <> 0 -> digs (c * 10 ^ N.of_nat e) = digs c ++ zeros e.
Proof.
  induction e as [|e IH]; intros c Hc.
  - cbn [N.of_nat]. rewrite N.pow_0_r, N.mul_1_r, app_nil_r. reflexivity.
  - rewrite Nat2N.inj_succ, N.pow_succ_r'.
    assert (Hq : c * (10 * 10 ^ N.of_nat e) = 10 * (c * 10 ^ N.of_nat e)) by lia.
    rewrite Hq.
    assert (Hpos : 1 <= c * 10 ^ N.of_nat e).
    { assert (10 ^ N.of_nat e <> 0) by (apply N.pow_nonzero; lia). nia. }
    rewrite digs_step by lia.
    rewrite N.mul_comm, N.div_mul by lia. rewrite N.mod_mul by lia.
    rewrite (IH c Hc), <- app_assoc. change [48 + 0] with [48]. rewrite zeros_snoc. reflexivity.
Qed.

(* ------------------------------------------------------------------ *)
(* span_digits *)

Definition head_not_digit (r : str) : bool := match r with c :: _ => negb (is_dig c) | [] => true end.

Lemma span_digits_app : forall ip r, forallb is_dig ip = true -> head_not_digit r = true ->
  span_digits (ip ++ r) = (ip, r).
Proof.
  induction ip as [|c ip IH]; intros r D H.
  - cbn [app]. destruct r as [|c r]; [reflexivity|]. cbn in H. cbn [span_digits].
    apply negb_true_iff in H. rewrite H. reflexivity.
  - cbn in D. apply andb_true_iff in D. destruct D as [Dc Di].
    cbn [app span_digits]. rewrite Dc, (IH r Di H). reflexivity.
Qed.

Lemma span_digits_all : forall ip, forallb is_dig ip = true -> span_digits ip = (ip, []).
Proof. intros ip D. rewrite <- (app_nil_r ip) at 1. apply span_digits_app; [exact D|reflexivity]. Qed.

Lemma span_digits_spec : forall l ip r, span_digits l = (ip, r) ->
  l = ip ++ r /\ forallb is_dig ip = true /\ head_not_digit r = true.
Proof.
  induction l as [|c l IH]; intros ip r H.
  - cbn in H. inversion H. repeat split.
  - cbn [span_digits] in H. destruct (is_dig c) eqn:E.
    + destruct (span_digits l) as [a b] eqn:S. inversion H; subst ip r.
      destruct (IH a b eq_refl) as (E1 & E2 & E3). subst l. repeat split.
      * cbn. rewrite E, E2. reflexivity.
      * exact E3.
    + inversion H; subst ip r. repeat split. cbn. rewrite E. reflexivity.
Qed.

(* ------------------------------------------------------------------ *)
(* the two shapes of a plain decimal numeral: digits, or digits '.' digits *)

Lemma lower_ascii_low : forall c, c < 65 -> lower_ascii c = c.
Proof.
  intros c H. unfold lower_ascii. replace (65 <=? c) with false by (symmetry; apply N.leb_gt; exact H). reflexivity.
Qed.

(* a body that starts with a digit or a point is not inf / infinity / nan *)
Lemma not_special : forall c b, c < 65 ->
  str_eqb (map lower_ascii (c :: b)) s_inf || str_eqb (map lower_ascii (c :: b)) s_infinity = false
  /\ str_eqb (map lower_ascii (c :: b)) s_nan = false.
Proof.
  intros c b H. cbn [map]. rewrite (lower_ascii_low c H). unfold s_inf, s_infinity, s_nan. cbn [str_eqb].
  replace (c =? 105) with false by (symmetry; apply N.eqb_neq; lia).
  replace (c =? 110) with false by (symmetry; apply N.eqb_neq; lia). split; reflexivity.
Qed.

Definition body_head_ok (b : str) : bool := match b with c :: _ => c <? 65 | [] => false end.

Lemma digits_head_ok : forall ip r, forallb is_dig ip = true -> ip <> [] -> body_head_ok (ip ++ r) = true.
Proof.
  intros [|c ip] r D NE; [congruence|]. cbn in D. apply andb_true_iff in D. destruct D as [Dc _].
  apply is_dig_range in Dc. cbn. apply N.ltb_lt. lia.
Qed.

(* shape A: digits only *)
Lemma grammar_digits : forall a neg ip, split_sign a = (neg, ip) -> forallb is_dig ip = true -> ip <> [] ->
  dec_grammar a = Some (DFin neg (dec_value ip) 0)
  /\ xsd_dec_lex a = Some (zsign neg (dec_value ip), O).
Proof.
  intros a neg ip S D NE. unfold dec_grammar, xsd_dec_lex. rewrite S.
  destruct ip as [|c r] eqn:Eip; [congruence|]. rewrite <- Eip in *.
  assert (Hc : c < 65).
  { subst ip. cbn in D. apply andb_true_iff in D. destruct D as [Dc _]. apply is_dig_range in Dc. lia. }
  assert (Hs := not_special c r Hc). rewrite <- Eip in Hs. destruct Hs as [H1 H2]. rewrite H1, H2.
  rewrite (span_digits_all ip D). rewrite app_nil_r.
  subst ip. split; reflexivity.
Qed.

(* shape B: digits '.' digits, at least one digit *)
Lemma grammar_point : forall a neg ip fp, split_sign a = (neg, ip ++ 46 :: fp) ->
  forallb is_dig ip = true -> forallb is_dig fp = true -> ip ++ fp <> [] ->
  dec_grammar a = Some (DFin neg (dec_value (ip ++ fp)) (- Z.of_nat (length fp)))
  /\ xsd_dec_lex a = Some (zsign neg (dec_value (ip ++ fp)), length fp).
Proof.
  intros a neg ip fp S Di Df NE. unfold dec_grammar, xsd_dec_lex. rewrite S.
  assert (Hh : exists c b, ip ++ 46 :: fp = c :: b /\ c < 65).
  { destruct ip as [|c ip'].
    - exists 46, fp. split; [reflexivity|lia].
    - exists c, (ip' ++ 46 :: fp). split; [reflexivity|].
      cbn in Di. apply andb_true_iff in Di. destruct Di as [Dc _]. apply is_dig_range in Dc. lia. }
  destruct Hh as (c & b & Eb & Hc). rewrite Eb.
  destruct (not_special c b Hc) as [H1 H2]. rewrite H1, H2. rewrite <- Eb.
  rewrite (span_digits_app ip (46 :: fp) Di eq_refl).
  replace (46 =? 46) with true by reflexivity.
  rewrite (span_digits_all fp Df). cbn [andb]. rewrite Df.
  destruct (ip ++ fp) as [|x y] eqn:E; [congruence|]. cbn [is_nil negb andb]. split; reflexivity.
Qed.

(* ------------------------------------------------------------------ *)
(* characters of the decimal lexical space pass strip() and numeric_as_ascii() unchanged *)

Definition dec_char (c : N) : bool := (43 <=? c) && (c <=? 57).

Lemma dec_char_nonspace : forall c, dec_char c = true -> py_isspace c = false.
Proof.
  intros c H. unfold dec_char in H. apply andb_true_iff in H. destruct H as [H1 H2].
  apply N.leb_le in H1, H2.
  assert (A : forallb (fun c => negb (py_isspace c)) [43; 44; 45; 46; 47; 48; 49; 50; 51; 52; 53; 54; 55; 56; 57] = true)
    by (vm_compute; reflexivity).
  rewrite forallb_forall in A. apply negb_true_iff. apply A. cbn. lia.
Qed.

Lemma drop_while_nonspace : forall s, forallb (fun c => negb (py_isspace c)) s = true -> drop_while py_isspace s = s.
Proof.
  destruct s as [|c r]; intro H; [reflexivity|]. cbn [forallb] in H. apply andb_true_iff in H. destruct H as [Hc _].
  apply negb_true_iff in Hc. cbn [drop_while]. rewrite Hc. reflexivity.
Qed.

Lemma forallb_rev : forall (f : N -> bool) s, forallb f s = true -> forallb f (rev s) = true.
Proof.
  intros f s H. rewrite forallb_forall in *. intros x Hx. apply H. apply in_rev. exact Hx.
Qed.

Lemma strip_nonspace : forall s, forallb (fun c => negb (py_isspace c)) s = true -> strip s = s.
Proof.
  intros s H. unfold strip. rewrite (drop_while_nonspace (rev s) (forallb_rev _ _ H)).
  rewrite rev_involutive. apply drop_while_nonspace. exact H.
Qed.

Lemma dec_ascii_chars : forall s, forallb dec_char s = true -> dec_ascii s = Some s.
Proof.
  induction s as [|c r IH]; intro H; [reflexivity|].
  cbn in H. apply andb_true_iff in H. destruct H as [Hc Hr].
  unfold dec_char in Hc. apply andb_true_iff in Hc. destruct Hc as [H1 H2]. apply N.leb_le in H1, H2.
  cbn [dec_ascii].
  replace (c =? 95) with false by (symmetry; apply N.eqb_neq; lia).
  replace (0 <? c) with true by (symmetry; apply N.ltb_lt; lia).
  replace (c <=? 127) with true by (symmetry; apply N.leb_le; lia).
  cbn [andb]. rewrite (IH Hr). reflexivity.
Qed.

Lemma dec_chars_nonspace : forall s, forallb dec_char s = true -> forallb (fun c => negb (py_isspace c)) s = true.
Proof.
  intros s H. rewrite forallb_forall in *. intros x Hx. apply negb_true_iff, dec_char_nonspace, H, Hx.
Qed.

Lemma py_decimal_chars : forall s, forallb dec_char s = true -> py_decimal s = dec_grammar s.
Proof.
  intros s H. unfold py_decimal. rewrite (strip_nonspace s (dec_chars_nonspace s H)), (dec_ascii_chars s H). reflexivity.
Qed.

Lemma digits_dec_chars : forall s, forallb is_dig s = true -> forallb dec_char s = true.
Proof.
  intros s H. rewrite forallb_forall in *. intros x Hx. specialize (H x Hx). apply is_dig_range in H.
  unfold dec_char. apply andb_true_iff. split; apply N.leb_le; lia.
Qed.

Lemma split_sign_chars : forall a neg b, split_sign a = (neg, b) -> forallb dec_char b = true -> forallb dec_char a = true.
Proof.
  intros a neg b S H. unfold split_sign in S. destruct a as [|c r]; [inversion S; subst; exact H|].
  destruct (c =? 43) eqn:E1.
  - inversion S; subst. apply N.eqb_eq in E1. subst. cbn. exact H.
  - destruct (c =? 45) eqn:E2.
    + inversion S; subst. apply N.eqb_eq in E2. subst. cbn. exact H.
    + inversion S; subst. exact H.
Qed.

(* ------------------------------------------------------------------ *)
(* every form of the XSD decimal lexical space is read with the XSD value *)

Lemma py_decimal_xsd : forall l m s, xsd_dec_lex l = Some (m, s) ->
  exists neg c, py_decimal l = Some (DFin neg c (- Z.of_nat s)) /\ zsign neg c = m.
Proof.
  intros l m s H. unfold xsd_dec_lex in H.
  destruct (split_sign l) as [neg b] eqn:S.
  destruct (span_digits b) as [ip r] eqn:Sp.
  destruct (span_digits_spec b ip r Sp) as (Eb & Di & Hr).
  destruct r as [|c f].
  - (* digits only *)
    destruct (is_nil ip) eqn:NE; [discriminate|]. inversion H; subst m s. rewrite app_nil_r in Eb. subst b.
    assert (NE' : ip <> []) by (destruct ip; [discriminate|discriminate]).
    destruct (grammar_digits l neg ip S Di NE') as [G _].
    exists neg, (dec_value ip). split; [|reflexivity].
    rewrite py_decimal_chars; [exact G|]. apply (split_sign_chars l neg ip S), digits_dec_chars, Di.
  - destruct ((c =? 46) && forallb is_dig f && negb (is_nil (ip ++ f))) eqn:C; [|discriminate].
    apply andb_true_iff in C. destruct C as [C NE]. apply andb_true_iff in C. destruct C as [Cc Df].
    apply N.eqb_eq in Cc. subst c. inversion H; subst m s.
    assert (NE' : ip ++ f <> []) by (destruct (ip ++ f); [discriminate|discriminate]).
    subst b. destruct (grammar_point l neg ip f S Di Df NE') as [G _].
    exists neg, (dec_value (ip ++ f)). split; [|reflexivity].
    rewrite py_decimal_chars; [exact G|]. apply (split_sign_chars l neg _ S).
    rewrite forallb_app. rewrite (digits_dec_chars ip Di). cbn. apply digits_dec_chars, Df.
Qed.

(* ------------------------------------------------------------------ *)
(* format(d, "f") *)

Definition sign_str (neg : bool) : str := if neg then [45] else [].

Definition fbody (coef : N) (exp : Z) : str :=
  if (0 <=? exp)%Z then (if coef =? 0 then [48] else digs coef ++ zeros (Z.to_nat exp))
  else
    let ds := digs coef in
    let k := Z.to_nat (- exp) in
    if (k <? length ds)%nat
    then firstn (length ds - k) ds ++ [46] ++ skipn (length ds - k) ds
    else [48; 46] ++ zeros (k - length ds) ++ ds.

Lemma fformat_fin : forall neg coef exp, fformat (DFin neg coef exp) = sign_str neg ++ fbody coef exp.
Proof. reflexivity. Qed.

Lemma split_sign_sign_str : forall neg c r, is_dig c = true -> split_sign (sign_str neg ++ c :: r) = (neg, c :: r).
Proof.
  intros [|] c r H; cbn [sign_str app].
  - reflexivity.
  - apply split_sign_dig. exact H.
Qed.

Lemma sign_str_chars : forall neg b, forallb dec_char b = true -> forallb dec_char (sign_str neg ++ b) = true.
Proof. intros [|] b H; cbn [sign_str app]; [cbn; exact H|exact H]. Qed.

Lemma digs_digits : forall n, forallb is_dig (digs n) = true.
Proof. intro n. apply digs_spec. Qed.

Lemma digs_value : forall n, dec_value (digs n) = n.
Proof. intro n. apply digs_spec. Qed.

Lemma digs_cons : forall n, exists c r, digs n = c :: r /\ is_dig c = true.
Proof.
  intro n. destruct (digs_spec n) as (_ & D & NE). destruct (digs n) as [|c r]; [congruence|].
  exists c, r. split; [reflexivity|]. cbn in D. apply andb_true_iff in D. tauto.
Qed.

(* exponent >= 0: digits only, value coef * 10^exp *)
Lemma fbody_nonneg : forall coef exp, (0 <= exp)%Z ->
  forallb is_dig (fbody coef exp) = true /\ (exists c r, fbody coef exp = c :: r /\ is_dig c = true)
  /\ dec_value (fbody coef exp) = coef * 10 ^ Z.to_N exp.
Proof.
  intros coef exp H. unfold fbody. replace (0 <=? exp)%Z with true by (symmetry; apply Z.leb_le; exact H).
  destruct (coef =? 0) eqn:E.
  - apply N.eqb_eq in E. subst. split; [reflexivity|split]; [exists 48, []; split; reflexivity|reflexivity].
  - split; [|split].
    + rewrite forallb_app, digs_digits, zeros_digits. reflexivity.
    + destruct (digs_cons coef) as (c & r & Ed & Dc). exists c, (r ++ zeros (Z.to_nat exp)). rewrite Ed. split; [reflexivity|exact Dc].
    + rewrite dec_value_app2, digs_value, dec_value_zeros, zeros_length, Z_nat_N. lia.
Qed.

(* exponent < 0: digits '.' digits, value coef, -exp fraction digits *)
Lemma fbody_neg : forall coef exp, (exp < 0)%Z ->
  exists ip fp, fbody coef exp = ip ++ 46 :: fp
    /\ forallb is_dig ip = true /\ forallb is_dig fp = true
    /\ (exists c r, ip = c :: r /\ is_dig c = true)
    /\ dec_value (ip ++ fp) = coef /\ length fp = Z.to_nat (- exp).
Proof.
  intros coef exp H. unfold fbody. replace (0 <=? exp)%Z with false by (symmetry; apply Z.leb_gt; exact H).
  cbv zeta. set (ds := digs coef). set (k := Z.to_nat (- exp)).
  assert (Dd : forallb is_dig ds = true) by apply digs_digits.
  destruct (k <? length ds)%nat eqn:E.
  - apply Nat.ltb_lt in E.
    exists (firstn (length ds - k) ds), (skipn (length ds - k) ds).
    assert (FS := firstn_skipn (length ds - k) ds).
    assert (Dsplit : forallb is_dig (firstn (length ds - k) ds) && forallb is_dig (skipn (length ds - k) ds) = true).
    { rewrite <- forallb_app, FS. exact Dd. }
    apply andb_true_iff in Dsplit. destruct Dsplit as [D1 D2].
    split; [reflexivity|]. split; [exact D1|]. split; [exact D2|]. split; [|split].
    + destruct (digs_cons coef) as (c & r & Ed & Dc). fold ds in Ed.
      destruct (length ds - k)%nat as [|j] eqn:J; [lia|].
      rewrite Ed. cbn [firstn]. exists c, (firstn j r). split; [reflexivity|exact Dc].
    + rewrite FS. apply digs_value.
    + rewrite skipn_length. lia.
  - apply Nat.ltb_ge in E.
    exists [48], (zeros (k - length ds) ++ ds).
    split; [reflexivity|]. split; [reflexivity|]. split; [|split; [|split]].
    + rewrite forallb_app, zeros_digits. exact Dd.
    + exists 48, []. split; reflexivity.
    + cbn [app]. rewrite dec_value_lead_zero, dec_value_lead_zeros. apply digs_value.
    + rewrite app_length, zeros_length. lia.
Qed.

(* the normal form python reaches by reading its own output *)
Definition dec_reparse (d : dec) : dec :=
  match d with
  | DFin neg c e => if (0 <? e)%Z then DFin neg (c * 10 ^ Z.to_N e) 0 else d
  | _ => d
  end.

Lemma fformat_chars_fin : forall neg coef exp, forallb dec_char (fformat (DFin neg coef exp)) = true.
Proof.
  intros neg coef exp. rewrite fformat_fin. apply sign_str_chars.
  destruct (Z_lt_le_dec exp 0) as [H|H].
  - destruct (fbody_neg coef exp H) as (ip & fp & E & D1 & D2 & _). rewrite E, forallb_app.
    rewrite (digits_dec_chars ip D1). cbn [forallb]. rewrite (digits_dec_chars fp D2). reflexivity.
  - apply digits_dec_chars. apply (fbody_nonneg coef exp H).
Qed.

Lemma print_fin_nonneg : forall neg coef exp, (0 <= exp)%Z ->
  py_decimal (fformat (DFin neg coef exp)) = Some (DFin neg (coef * 10 ^ Z.to_N exp) 0)
  /\ xsd_dec_lex (fformat (DFin neg coef exp)) = Some (zsign neg (coef * 10 ^ Z.to_N exp), O).
Proof.
  intros neg coef exp H. rewrite (py_decimal_chars _ (fformat_chars_fin neg coef exp)).
  destruct (fbody_nonneg coef exp H) as (D & (c & r & E & Dc) & V).
  assert (S : split_sign (fformat (DFin neg coef exp)) = (neg, fbody coef exp)).
  { rewrite fformat_fin, E. apply split_sign_sign_str. exact Dc. }
  assert (NE : fbody coef exp <> []) by (rewrite E; discriminate).
  destruct (grammar_digits _ neg _ S D NE) as [G X]. rewrite G, X, V. split; reflexivity.
Qed.

Lemma print_fin_neg : forall neg coef exp, (exp < 0)%Z ->
  py_decimal (fformat (DFin neg coef exp)) = Some (DFin neg coef exp)
  /\ xsd_dec_lex (fformat (DFin neg coef exp)) = Some (zsign neg coef, Z.to_nat (- exp)).
Proof.
  intros neg coef exp H. rewrite (py_decimal_chars _ (fformat_chars_fin neg coef exp)).
  destruct (fbody_neg coef exp H) as (ip & fp & E & D1 & D2 & (c & r & Ei & Dc) & V & L).
  assert (S : split_sign (fformat (DFin neg coef exp)) = (neg, ip ++ 46 :: fp)).
  { rewrite fformat_fin, E, Ei. cbn [app]. apply split_sign_sign_str. exact Dc. }
  assert (NE : ip ++ fp <> []) by (rewrite Ei; discriminate).
  destruct (grammar_point _ neg ip fp S D1 D2 NE) as [G X]. rewrite G, X, V, L.
  rewrite Z2Nat.id by lia. rewrite Z.opp_involutive. split; reflexivity.
Qed.

(* exponent 0 is the boundary of the two lemmas: same form either way *)
Lemma print_fin_zero : forall neg coef,
  py_decimal (fformat (DFin neg coef 0)) = Some (DFin neg coef 0)
  /\ xsd_dec_lex (fformat (DFin neg coef 0)) = Some (zsign neg coef, O).
Proof.
  intros neg coef. destruct (print_fin_nonneg neg coef 0 (Z.le_refl 0)) as [P X].
  cbn [Z.to_N] in P, X. rewrite N.pow_0_r, N.mul_1_r in P, X. split; assumption.
Qed.

(* parse (print d): python reads back its own output, for every Decimal of the model *)
Lemma py_decimal_print : forall d, py_decimal (fformat d) = Some (dec_reparse d).
Proof.
  intros [neg c e|neg|neg].
  - unfold dec_reparse. destruct (0 <? e)%Z eqn:E.
    + apply Z.ltb_lt in E. apply print_fin_nonneg. lia.
    + apply Z.ltb_ge in E. destruct (Z.eq_dec e 0) as [->|NE].
      * apply print_fin_zero.
      * apply print_fin_neg. lia.
  - destruct neg; vm_compute; reflexivity.
  - destruct neg; vm_compute; reflexivity.
Qed.

Lemma fformat_reparse : forall d, fformat (dec_reparse d) = fformat d.
Proof.
  intros [neg c e|neg|neg]; try reflexivity.
  unfold dec_reparse. destruct (0 <? e)%Z eqn:E; [|reflexivity].
  apply Z.ltb_lt in E. rewrite !fformat_fin. f_equal. unfold fbody.
  replace (0 <=? 0)%Z with true by reflexivity.
  replace (0 <=? e)%Z with true by (symmetry; apply Z.leb_le; lia).
  destruct (c =? 0) eqn:C.
  - apply N.eqb_eq in C. subst c. rewrite N.mul_0_l. reflexivity.
  - apply N.eqb_neq in C.
    assert (P : 10 ^ Z.to_N e <> 0) by (apply N.pow_nonzero; lia).
    replace (c * 10 ^ Z.to_N e =? 0) with false by (symmetry; apply N.eqb_neq; nia).
    rewrite <- (Z_nat_N e), (digs_times_pow10 _ c C). cbn [Z.to_nat zeros repeat]. rewrite app_nil_r. reflexivity.
Qed.

Lemma dec_reparse_idem : forall d, dec_reparse (dec_reparse d) = dec_reparse d.
Proof.
  intros [neg c e|neg|neg]; try reflexivity.
  unfold dec_reparse. destruct (0 <? e)%Z eqn:E; [reflexivity|]. rewrite E. reflexivity.
Qed.

(* printing is in the XSD lexical space and denotes the value *)
Lemma zsign_mul_pow : forall neg c e, (0 <= e)%Z -> zsign neg (c * 10 ^ Z.to_N e) = (zsign neg c * 10 ^ e)%Z.
Proof.
  intros neg c e H. unfold zsign.
  assert (Z.of_N (c * 10 ^ Z.to_N e) = (Z.of_N c * 10 ^ e)%Z).
  { rewrite N2Z.inj_mul, N2Z.inj_pow, Z2N.id by exact H. reflexivity. }
  destruct neg; lia.
Qed.

Lemma xsd_print_fin : forall neg c e,
  xsd_value DDecimal (fformat (DFin neg c e)) =
    Some (if (0 <=? e)%Z then XNum (zsign neg c * 10 ^ e) O else XNum (zsign neg c) (Z.to_nat (- e))).
Proof.
  intros neg c e. unfold xsd_value. cbn [family_of].
  destruct (0 <=? e)%Z eqn:E.
  - apply Z.leb_le in E. rewrite (proj2 (print_fin_nonneg neg c e E)), (zsign_mul_pow neg c e E). reflexivity.
  - apply Z.leb_gt in E. rewrite (proj2 (print_fin_neg neg c e E)). reflexivity.
Qed.

Lemma xval_eqb_refl : forall x, xval_eqb x x = true.
Proof. destruct x; cbn; [apply Z.eqb_refl|destruct b; reflexivity|apply str_eqb_refl]. Qed.

Lemma dec_print_denotes : forall neg c e xv, denote (VDec (DFin neg c e)) = Some xv ->
  lex_denotes DDecimal (fformat (DFin neg c e)) xv = true.
Proof.
  intros neg c e xv H. unfold lex_denotes. rewrite xsd_print_fin. cbn [denote] in H.
  destruct (0 <=? e)%Z; inversion H; apply xval_eqb_refl.
Qed.

(* numeric equality of python Decimals *)
Lemma fin_eqb_refl : forall n c e, fin_eqb n c e n c e = true.
Proof. intros. unfold fin_eqb. apply Z.eqb_refl. Qed.

Lemma dec_eqb_reparse : forall neg c e, dec_eqb (DFin neg c e) (dec_reparse (DFin neg c e)) = true.
Proof.
  intros neg c e. unfold dec_reparse. destruct (0 <? e)%Z eqn:E; [|apply fin_eqb_refl].
  apply Z.ltb_lt in E. cbn [dec_eqb]. unfold fin_eqb.
  replace (Z.min e 0) with 0%Z by lia. rewrite !Z.sub_0_r, Z.pow_0_r, Z.mul_1_r.
  rewrite zsign_mul_pow by lia. apply Z.eqb_refl.
Qed.

(* ------------------------------------------------------------------ *)
(* the construction pipeline for xsd:decimal *)

Lemma dec_construct : forall l norm, construct DDecimal l norm =
  {| l_lex := match py_decimal l with Some d => if norm then fformat d else l | None => l end;
     l_ill := Some (match py_decimal l with Some _ => false | None => true end);
     l_val := match py_decimal l with Some d => Some (VDec d) | None => None end |}.
Proof.
  intros l norm. unfold construct, parse_m. rewrite decimal_row. cbn [parse_with].
  destruct (py_decimal l) as [d|]; [|reflexivity].
  rewrite (proj2 (proj2 (proj2 rules_shape)) d). destruct norm; reflexivity.
Qed.

Lemma dec_from_python : forall d, from_python (VDec d) DDecimal = {| l_lex := fformat d; l_ill := None; l_val := Some (VDec d) |}.
Proof. intro d. unfold from_python. rewrite (proj2 (proj2 (proj2 rules_shape)) d). reflexivity. Qed.

Lemma dec_is_numeric : is_numeric DDecimal = true.
Proof. unfold is_numeric. rewrite decimal_row. reflexivity. Qed.

Lemma dec_valid : forall l xv, xsd_value DDecimal l = Some xv ->
  exists neg c s, xv = XNum (zsign neg c) s /\ py_decimal l = Some (DFin neg c (- Z.of_nat s)).
Proof.
  intros l xv H. unfold xsd_value in H. cbn [family_of] in H.
  destruct (xsd_dec_lex l) as [[m s]|] eqn:X; [|discriminate]. inversion H; subst xv.
  destruct (py_decimal_xsd l m s X) as (neg & c & P & Z). exists neg, c, s. subst m. split; [reflexivity|exact P].
Qed.

(* printing a value read from a valid form: exactly that value again *)
Lemma dec_print_exact : forall neg c (s : nat),
  py_decimal (fformat (DFin neg c (- Z.of_nat s))) = Some (DFin neg c (- Z.of_nat s))
  /\ xsd_value DDecimal (fformat (DFin neg c (- Z.of_nat s))) = Some (XNum (zsign neg c) s).
Proof.
  intros neg c s. unfold xsd_value. cbn [family_of]. destruct s as [|s'].
  - cbn [Z.of_nat Z.opp]. destruct (print_fin_zero neg c) as [P X]. rewrite P, X. split; reflexivity.
  - assert (H : (- Z.of_nat (S s') < 0)%Z) by lia.
    destruct (print_fin_neg neg c _ H) as [P X]. rewrite P, X.
    rewrite Z.opp_involutive, Nat2Z.id. split; reflexivity.
Qed.

Lemma denote_fin_exact : forall neg c (s : nat),
  denotes (Some (VDec (DFin neg c (- Z.of_nat s)))) (XNum (zsign neg c) s) = true.
Proof.
  intros neg c s. unfold denotes. cbn [denote]. destruct s as [|s'].
  - cbn [Z.of_nat Z.opp Z.leb Z.compare]. cbn [xval_eqb Z.of_nat]. rewrite Z.pow_0_r, !Z.mul_1_r. apply Z.eqb_refl.
  - replace (0 <=? - Z.of_nat (S s'))%Z with false by (symmetry; apply Z.leb_gt; lia).
    rewrite Z.opp_involutive, Nat2Z.id. apply xval_eqb_refl.
Qed.

(* ------------------------------------------------------------------ *)
(* python's == on Decimals against equality of XSD values *)

Lemma fin_eqb_spec : forall n1 c1 (s1 : nat) n2 c2 (s2 : nat),
  fin_eqb n1 c1 (- Z.of_nat s1) n2 c2 (- Z.of_nat s2)
  = (zsign n1 c1 * 10 ^ Z.of_nat s2 =? zsign n2 c2 * 10 ^ Z.of_nat s1)%Z.
Proof.
  intros n1 c1 s1 n2 c2 s2. unfold fin_eqb.
  set (a := zsign n1 c1). set (b := zsign n2 c2).
  set (m := Z.min (- Z.of_nat s1) (- Z.of_nat s2)).
  set (k1 := (- Z.of_nat s1 - m)%Z). set (k2 := (- Z.of_nat s2 - m)%Z).
  set (mn := Z.min (Z.of_nat s1) (Z.of_nat s2)).
  assert (K1 : (0 <= k1)%Z) by (subst k1 m; lia).
  assert (K2 : (0 <= k2)%Z) by (subst k2 m; lia).
  assert (MN : (0 <= mn)%Z) by (subst mn; lia).
  assert (H2 : Z.of_nat s2 = (k1 + mn)%Z) by (subst k1 m mn; lia).
  assert (H1 : Z.of_nat s1 = (k2 + mn)%Z) by (subst k2 m mn; lia).
  rewrite H1, H2, !Z.pow_add_r by assumption.
  set (A := (10 ^ k1)%Z). set (B := (10 ^ k2)%Z). set (P := (10 ^ mn)%Z).
  assert (HP : P <> 0%Z) by (subst P; apply Z.pow_nonzero; lia).
  destruct (Z.eqb_spec (a * A) (b * B)) as [E|E]; destruct (Z.eqb_spec (a * (A * P)) (b * (B * P))) as [F|F];
    try reflexivity; exfalso.
  - apply F. rewrite !Z.mul_assoc, E. reflexivity.
  - apply E. rewrite !Z.mul_assoc in F. apply Z.mul_cancel_r in F; assumption.
Qed.

Lemma zsign_abs : forall z, zsign (z <? 0)%Z (Z.abs_N z) = z.
Proof.
  intro z. unfold zsign. destruct (z <? 0)%Z eqn:E.
  - apply Z.ltb_lt in E. rewrite N2Z.inj_abs_N. lia.
  - apply Z.ltb_ge in E. rewrite N2Z.inj_abs_N. lia.
Qed.
