(* C09 - proofs about coq/Literal/TemporalModel.v *)
From Coq Require Import List NArith ZArith Bool Lia.
Import ListNotations.
From RV Require Import Literal.Model Literal.Token Literal.Proofs Literal.Decimal Literal.TemporalModel.
Local Open Scope N_scope.

Ltac Zify.zify_post_hook ::= Z.div_mod_to_equations.
Ltac modfacts :=
  repeat match goal with
         | |- context [N.modulo ?a ?k] =>
             lazymatch goal with
             | _ : a = k * (a / k) + a mod k |- _ => fail
             | _ => pose proof (N.mod_lt a k ltac:(discriminate)); pose proof (N.div_mod a k ltac:(discriminate))
             end
         end.
Ltac nlia := modfacts; lia.

(* ------------------------------------------------------------------ *)
(* fixed-width numerals *)

Lemma dig_digit : forall k, k < 10 -> dig (48 + k) = Some k /\ is_dig (48 + k) = true.
Proof.
  intros k H. unfold dig. rewrite (is_dig_digit k H). split; [f_equal; lia|reflexivity].
Qed.

Lemma take2_d2 : forall n r, n < 100 -> take2 (d2 n ++ r) = Some (n, r).
Proof.
  intros n r H. unfold d2. cbn [app take2].
  destruct (dig_digit (n / 10)) as [A _]; [nlia|]. destruct (dig_digit (n mod 10)) as [B _]; [nlia|].
  rewrite A, B. f_equal. f_equal. nlia.
Qed.

Lemma take4_d4 : forall n r, n < 10000 -> take4 (d4 n ++ r) = Some (n, r).
Proof.
  intros n r H. unfold take4, d4. cbn [app take2].
  destruct (dig_digit (n / 1000)) as [A _]; [nlia|]. destruct (dig_digit (n / 100 mod 10)) as [B _]; [nlia|].
  destruct (dig_digit (n / 10 mod 10)) as [C _]; [nlia|]. destruct (dig_digit (n mod 10)) as [D _]; [nlia|].
  rewrite A, B. cbn [take2]. rewrite C, D. f_equal. f_equal. nlia.
Qed.

Lemma d2_digits : forall n, n < 100 -> forallb is_dig (d2 n) = true.
Proof.
  intros n H. unfold d2. cbn [forallb].
  rewrite (proj2 (dig_digit (n / 10) ltac:(nlia))), (proj2 (dig_digit (n mod 10) ltac:(nlia))). reflexivity.
Qed.

Lemma d4_digits : forall n, n < 10000 -> forallb is_dig (d4 n) = true /\ dec_value (d4 n) = n /\ length (d4 n) = 4%nat.
Proof.
  intros n H. unfold d4. cbn [forallb].
  rewrite (proj2 (dig_digit (n / 1000) ltac:(nlia))), (proj2 (dig_digit (n / 100 mod 10) ltac:(nlia))),
    (proj2 (dig_digit (n / 10 mod 10) ltac:(nlia))), (proj2 (dig_digit (n mod 10) ltac:(nlia))).
  split; [reflexivity|]. split; [|reflexivity]. unfold dec_value. cbn [fold_left]. nlia.
Qed.

Lemma d6_facts : forall n, n < 1000000 ->
  forallb is_dig (d6 n) = true /\ dec_value (d6 n) = n /\ length (d6 n) = 6%nat.
Proof.
  intros n H. unfold d6. cbn [forallb].
  rewrite (proj2 (dig_digit (n / 100000) ltac:(nlia))), (proj2 (dig_digit (n / 10000 mod 10) ltac:(nlia))),
    (proj2 (dig_digit (n / 1000 mod 10) ltac:(nlia))), (proj2 (dig_digit (n / 100 mod 10) ltac:(nlia))),
    (proj2 (dig_digit (n / 10 mod 10) ltac:(nlia))), (proj2 (dig_digit (n mod 10) ltac:(nlia))).
  split; [reflexivity|]. split; [|reflexivity]. unfold dec_value. cbn [fold_left]. nlia.
Qed.

Lemma frac_d6 : forall n, n < 1000000 -> frac_us (Some (d6 n)) = n /\ frac_exact (d6 n) = Some n.
Proof.
  intros n H. destruct (d6_facts n H) as (_ & V & _).
  assert (E : firstn 6 (d6 n ++ zeros 6) = d6 n) by reflexivity.
  unfold frac_us, frac_exact. rewrite E, V. split; reflexivity.
Qed.

(* ------------------------------------------------------------------ *)
(* reading back what isoformat() writes *)

Definition tz_pwf (tz : option Z) : bool := match tz with Some o => (Z.abs_N o <? 1440) | None => true end.

Lemma shape_tz_print : forall tz, tz_pwf tz = true ->
  exists t, shape_tz (print_tz tz) = Some t /\ py_tz t = Some tz
            /\ (tz_wf tz = true -> xsd_tz t = Some tz).
Proof.
  intros [o|] H; [|exists TzNone; repeat split].
  cbn [tz_pwf] in H. apply N.ltb_lt in H. set (a := Z.abs_N o) in *.
  exists (TzOff (o <? 0)%Z (a / 60) (a mod 60)).
  assert (Ha : a / 60 < 100) by nlia. assert (Hb : a mod 60 < 100) by nlia.
  assert (Hv : (if (o <? 0)%Z then (- Z.of_N a)%Z else Z.of_N a) = o).
  { subst a. rewrite N2Z.inj_abs_N. destruct (o <? 0)%Z eqn:E; [apply Z.ltb_lt in E|apply Z.ltb_ge in E]; lia. }
  split; [|split].
  - unfold print_tz. fold a.
    destruct (o <? 0)%Z; unfold shape_tz; cbv beta iota; cbn [N.eqb Pos.eqb orb];
      rewrite (take2_d2 _ _ Ha); cbn [app expect N.eqb Pos.eqb];
      rewrite <- (app_nil_r (d2 (a mod 60))), (take2_d2 _ _ Hb); reflexivity.
  - cbn [py_tz]. replace (a / 60 * 60 + a mod 60) with a by nlia.
    replace (a <? 1440) with true by (symmetry; apply N.ltb_lt; exact H). rewrite Hv. reflexivity.
  - intro W. cbn [tz_wf] in W. fold a in W. apply N.leb_le in W. cbn [xsd_tz].
    replace (a / 60 * 60 + a mod 60) with a by nlia. rewrite Hv.
    destruct (N.eq_dec a 840) as [E|NE].
    + rewrite E. reflexivity.
    + replace ((a / 60 <=? 13) && (a mod 60 <=? 59)) with true; [reflexivity|].
      symmetry. apply andb_true_iff. split; apply N.leb_le; nlia.
Qed.

Lemma print_tz_head : forall tz, head_not_digit (print_tz tz) = true /\ (forall c r, print_tz tz = c :: r -> (c =? 46) = false).
Proof.
  intros [o|]; [|split; [reflexivity|discriminate]].
  unfold print_tz. destruct (o <? 0)%Z; split; try reflexivity; intros c r E; inversion E; reflexivity.
Qed.

Lemma shape_ymd_print : forall y m d rest, y < 10000 -> m < 100 -> d < 100 ->
  shape_ymd (print_ymd y m d ++ rest) = Some (false, d4 y, m, d, rest).
Proof.
  intros y m d rest Hy Hm Hd. unfold shape_ymd, print_ymd.
  destruct (d4_digits y Hy) as (D & _ & L).
  assert (E0 : (48 + y / 1000 =? 45) = false) by (apply N.eqb_neq; nlia).
  rewrite <- !app_assoc. unfold d4 at 1 2 3. cbn [app]. rewrite E0.
  match goal with |- context [span_digits (?a :: ?b :: ?c :: ?e :: ?X)] =>
    change (a :: b :: c :: e :: X) with (d4 y ++ X) end.
  rewrite span_digits_app; [|exact D|reflexivity]. rewrite L. cbn [Nat.ltb Nat.leb].
  cbn [app expect N.eqb Pos.eqb]. rewrite (take2_d2 m _ Hm). cbn [app expect N.eqb Pos.eqb]. rewrite (take2_d2 d _ Hd). reflexivity.
Qed.

Lemma shape_hms_print : forall h mi s us tz, h < 100 -> mi < 100 -> s < 100 -> us < 1000000 ->
  shape_hms (print_hms h mi s us ++ print_tz tz) =
    Some (h, mi, s, (if us =? 0 then None else Some (d6 us)), print_tz tz).
Proof.
  intros h mi s us tz Hh Hm Hs Hu. unfold shape_hms, print_hms. rewrite <- !app_assoc.
  rewrite (take2_d2 h _ Hh). cbn [app expect N.eqb Pos.eqb]. rewrite (take2_d2 mi _ Hm). cbn [app expect N.eqb Pos.eqb].
  rewrite (take2_d2 s _ Hs). destruct (print_tz_head tz) as [T1 T2].
  destruct (us =? 0).
  - cbn [app]. destruct (print_tz tz) as [|c r] eqn:E; [reflexivity|]. rewrite (T2 c r eq_refl). reflexivity.
  - cbn [app N.eqb Pos.eqb]. destruct (d6_facts us Hu) as (D & _ & _).
    rewrite (span_digits_app (d6 us) _ D T1). reflexivity.
Qed.

(* ------------------------------------------------------------------ *)
(* value -> form -> value *)

Definition tval_pwf (v : tval) : bool :=
  match v with
  | VDate y m d => (1 <=? y) && (y <=? 9999) && (1 <=? m) && (m <=? 12) && (1 <=? d) && (d <=? days_in_month y m)
  | VTime h mi s us tz => py_time_ok h mi s && (us <? 1000000) && tz_pwf tz
  | VDateTime y m d h mi s us tz =>
      (1 <=? y) && (y <=? 9999) && (1 <=? m) && (m <=? 12) && (1 <=? d) && (d <=? days_in_month y m)
      && py_time_ok h mi s && (us <? 1000000) && tz_pwf tz
  end.

Lemma tz_wf_pwf : forall tz, tz_wf tz = true -> tz_pwf tz = true.
Proof. intros [o|] H; [|reflexivity]. cbn in *. apply N.leb_le in H. apply N.ltb_lt. lia. Qed.

Lemma tval_wf_pwf : forall v, tval_wf v = true -> tval_pwf v = true.
Proof.
  intros [y m d|h mi s us tz|y m d h mi s us tz] H; [exact H| |]; cbn [tval_wf tval_pwf] in *;
    apply andb_true_iff in H; destruct H as [H T]; rewrite H, (tz_wf_pwf _ T); reflexivity.
Qed.

Lemma days_le_31 : forall y m, days_in_month y m <= 31.
Proof. intros. unfold days_in_month. destruct (m =? 2); [destruct (is_leap y); lia|]. destruct ((m =? 4) || (m =? 6) || (m =? 9) || (m =? 11)); lia. Qed.

Ltac split_andb H :=
  repeat match type of H with
         | (_ && _) = true => let H' := fresh H in apply andb_true_iff in H; destruct H as [H H']
         end.

Lemma py_date_ok_wf : forall y m d,
  (1 <=? y) && (y <=? 9999) && (1 <=? m) && (m <=? 12) && (1 <=? d) && (d <=? days_in_month y m) = true ->
  y < 10000 /\ m < 100 /\ d < 100 /\ py_date_ok false (d4 y) m d = Some (y, m, d).
Proof.
  intros y m d H. pose proof H as H0. split_andb H.
  apply N.leb_le in H, H1, H2, H3, H4, H5. pose proof (days_le_31 y m).
  assert (Hy : y < 10000) by lia. split; [exact Hy|]. split; [lia|]. split; [lia|].
  unfold py_date_ok. destruct (d4_digits y Hy) as (_ & V & L). rewrite L, V. cbn [Nat.eqb negb orb].
  replace ((1 <=? y) && (1 <=? m) && (m <=? 12) && (1 <=? d) && (d <=? days_in_month y m)) with true; [reflexivity|].
  symmetry. repeat (apply andb_true_iff; split); apply N.leb_le; lia.
Qed.

Lemma py_time_ok_lt : forall h mi s, py_time_ok h mi s = true -> h < 100 /\ mi < 100 /\ s < 100.
Proof. intros h mi s H. unfold py_time_ok in H. split_andb H. apply N.ltb_lt in H, H0, H1. lia. Qed.

Lemma frac_us_print : forall us, us < 1000000 -> frac_us (if us =? 0 then None else Some (d6 us)) = us.
Proof.
  intros us H. destruct (N.eqb_spec us 0) as [->|_]; [reflexivity|]. apply frac_d6. exact H.
Qed.

(* date / time / datetime .fromisoformat reads back what .isoformat() writes *)
Lemma py_roundtrip : forall v, tval_pwf v = true -> py_parse (tdt_of v) (py_print v) = Some v.
Proof.
  intros [y m d|h mi s us tz|y m d h mi s us tz] W; cbn [tdt_of py_print py_parse tval_pwf] in *.
  - destruct (py_date_ok_wf y m d W) as (Hy & Hm & Hd & OK).
    rewrite <- (app_nil_r (print_ymd y m d)), (shape_ymd_print y m d [] Hy Hm Hd). cbn [shape_tz]. rewrite OK. reflexivity.
  - split_andb W. destruct (py_time_ok_lt _ _ _ W) as (Hh & Hm & Hs). apply N.ltb_lt in W1.
    rewrite (shape_hms_print h mi s us tz Hh Hm Hs W1).
    destruct (shape_tz_print tz W0) as (t & S & P & _). rewrite S, P, W, (frac_us_print us W1). reflexivity.
  - split_andb W. destruct (py_time_ok_lt _ _ _ W2) as (Hh & Hm & Hs). apply N.ltb_lt in W1.
    assert (WD : (1 <=? y) && (y <=? 9999) && (1 <=? m) && (m <=? 12) && (1 <=? d) && (d <=? days_in_month y m) = true)
      by (rewrite W, W7, W6, W5, W4, W3; reflexivity).
    destruct (py_date_ok_wf y m d WD) as (Hy & Hmo & Hd & OK).
    rewrite (shape_ymd_print y m d _ Hy Hmo Hd). cbn [app].
    rewrite (shape_hms_print h mi s us tz Hh Hm Hs W1).
    destruct (shape_tz_print tz W0) as (t & S & P & _). rewrite S, OK, P, W2, (frac_us_print us W1). reflexivity.
Qed.

(* ------------------------------------------------------------------ *)
(* what isoformat() writes is in the XSD lexical space and denotes the value *)

Lemma leap_eq : forall y, z_is_leap (Z.of_N y) = is_leap y.
Proof.
  intro y. unfold z_is_leap, is_leap.
  assert (M : forall k, k <> 0 -> (Z.of_N y mod Z.of_N k =? 0)%Z = (y mod k =? 0)).
  { intros k Hk. rewrite <- N2Z.inj_mod. destruct (N.eqb_spec (y mod k) 0) as [E|E].
    - rewrite E. reflexivity.
    - apply Z.eqb_neq. lia. }
  change 4%Z with (Z.of_N 4). change 100%Z with (Z.of_N 100). change 400%Z with (Z.of_N 400).
  rewrite !M by discriminate. reflexivity.
Qed.

Lemma xsd_days_eq : forall y m, xsd_days_in_month (Z.of_N y) m = days_in_month y m.
Proof. intros. unfold xsd_days_in_month, days_in_month. rewrite leap_eq. reflexivity. Qed.

Lemma xsd_ymd_print : forall y m d,
  (1 <=? y) && (y <=? 9999) && (1 <=? m) && (m <=? 12) && (1 <=? d) && (d <=? days_in_month y m) = true ->
  xsd_ymd false (d4 y) m d = Some (Z.of_N y, m, d).
Proof.
  intros y m d H. destruct (py_date_ok_wf y m d H) as (Hy & _ & _ & _). split_andb H.
  destruct (d4_digits y Hy) as (_ & V & L).
  unfold xsd_ymd, xsd_year. rewrite V. unfold d4 at 1. rewrite L. cbn [Nat.eqb orb andb negb].
  rewrite xsd_days_eq, H3, H2, H1, H0. reflexivity.
Qed.

Lemma frac_exact_print : forall us, us < 1000000 ->
  frac_exact (frac_of (if us =? 0 then None else Some (d6 us))) = Some us.
Proof.
  intros us H. destruct (N.eqb_spec us 0) as [->|_]; [reflexivity|]. apply frac_d6. exact H.
Qed.

Lemma xsd_hms_ok_py : forall h mi s fd, py_time_ok h mi s = true -> xsd_hms_ok h mi s fd = true.
Proof. intros h mi s fd H. unfold xsd_hms_ok. unfold py_time_ok in H. rewrite H. reflexivity. Qed.

Lemma tz_eqb_refl : forall t, tz_eqb t t = true.
Proof. intros [o|]; cbn; [apply Z.eqb_refl|reflexivity]. Qed.

Lemma print_xsd_valid : forall v, tval_wf v = true ->
  exists x, xsd_tvalue (tdt_of v) (py_print v) = Some x /\ xt_same x (xt_of v) = true /\ in_guard x = true.
Proof.
  intros [y m d|h mi s us tz|y m d h mi s us tz] W; cbn [tdt_of py_print xsd_tvalue tval_wf xt_of] in *.
  - destruct (py_date_ok_wf y m d W) as (Hy & Hm & Hd & _).
    rewrite <- (app_nil_r (print_ymd y m d)), (shape_ymd_print y m d [] Hy Hm Hd). cbn [shape_tz xsd_tz].
    rewrite (xsd_ymd_print y m d W). eexists. split; [reflexivity|]. split_andb W. apply N.leb_le in W, W4.
    cbn [xt_same in_guard tz_eqb opt_eqb]. rewrite Z.eqb_refl, !N.eqb_refl. split; [reflexivity|].
    unfold year_ok. replace (1 <=? Z.of_N y)%Z with true by (symmetry; apply Z.leb_le; lia).
    replace (Z.of_N y <=? 9999)%Z with true by (symmetry; apply Z.leb_le; lia). reflexivity.
  - split_andb W. destruct (py_time_ok_lt _ _ _ W) as (Hh & Hm & Hs). apply N.ltb_lt in W1.
    rewrite (shape_hms_print h mi s us tz Hh Hm Hs W1).
    destruct (shape_tz_print tz (tz_wf_pwf _ W0)) as (t & S & _ & X). rewrite S, (X W0), (xsd_hms_ok_py _ _ _ _ W).
    eexists. split; [reflexivity|]. cbn [xt_same in_guard]. rewrite (frac_exact_print us W1), (proj2 (frac_d6 us W1)).
    rewrite !N.eqb_refl, tz_eqb_refl. cbn [opt_eqb]. rewrite N.eqb_refl. unfold py_time_ok in W. split_andb W. rewrite W. split; reflexivity.
  - split_andb W. destruct (py_time_ok_lt _ _ _ W2) as (Hh & Hm & Hs). apply N.ltb_lt in W1.
    assert (WD : (1 <=? y) && (y <=? 9999) && (1 <=? m) && (m <=? 12) && (1 <=? d) && (d <=? days_in_month y m) = true)
      by (rewrite W, W7, W6, W5, W4, W3; reflexivity).
    destruct (py_date_ok_wf y m d WD) as (Hy & Hmo & Hd & _).
    rewrite (shape_ymd_print y m d _ Hy Hmo Hd). cbn [app].
    rewrite (shape_hms_print h mi s us tz Hh Hm Hs W1).
    destruct (shape_tz_print tz (tz_wf_pwf _ W0)) as (t & S & _ & X).
    rewrite S, (xsd_ymd_print y m d WD), (X W0), (xsd_hms_ok_py _ _ _ _ W2).
    eexists. split; [reflexivity|]. cbn [xt_same in_guard]. rewrite (frac_exact_print us W1), (proj2 (frac_d6 us W1)).
    rewrite Z.eqb_refl, !N.eqb_refl, tz_eqb_refl. cbn [opt_eqb]. rewrite N.eqb_refl.
    apply N.leb_le in W, W7. unfold year_ok. replace (1 <=? Z.of_N y)%Z with true by (symmetry; apply Z.leb_le; lia).
    replace (Z.of_N y <=? 9999)%Z with true by (symmetry; apply Z.leb_le; lia).
    unfold py_time_ok in W2. split_andb W2. rewrite W2. split; reflexivity.
Qed.

(* ------------------------------------------------------------------ *)
(* pipeline facts and the (partial) tie *)

Lemma trows : forall d, trow_ok d = true /\ trule_ok d = true.
Proof. destruct d; split; vm_compute; reflexivity. Qed.

Lemma tconstruct_eq : forall d l norm, tconstruct d l norm =
  {| t_lex := match py_parse d l with Some x => if norm then py_print x else l | None => l end;
     t_ill := Some (match py_parse d l with Some _ => false | None => true end);
     t_val := py_parse d l |}.
Proof.
  intros d l norm. unfold tconstruct. rewrite (proj1 (trows d)), (proj2 (trows d)), andb_true_r. reflexivity.
Qed.

Lemma tnormalize_eq : forall d x v, t_val x = Some v ->
  tnormalize d x = {| t_lex := py_print v; t_ill := None; t_val := Some v |}.
Proof. intros d x v H. unfold tnormalize. rewrite H, (proj2 (trows d)). reflexivity. Qed.

Lemma tval_eqb_refl : forall v, tval_eqb v v = true.
Proof. destruct v; cbn; rewrite ?N.eqb_refl, ?tz_eqb_refl; reflexivity. Qed.

Lemma tdt_eqb_refl : forall d, tdt_eqb d d = true.
Proof. destruct d; reflexivity. Qed.

(* normalize() twice = once, for every form of the shape *)
Lemma tnormalize_idem : forall d l norm,
  tnormalize d (tnormalize d (tconstruct d l norm)) = tnormalize d (tconstruct d l norm).
Proof.
  intros d l norm. rewrite tconstruct_eq. destruct (py_parse d l) as [v|] eqn:E.
  - erewrite (tnormalize_eq d _ v); [|reflexivity]. erewrite (tnormalize_eq d _ v); reflexivity.
  - reflexivity.
Qed.

(* a literal made from a well-formed python value: its form is valid, denotes the value and reads back *)
Lemma tz_eqb_sym : forall a b, tz_eqb a b = tz_eqb b a.
Proof. intros [a|] [b|]; cbn; try reflexivity. apply Z.eqb_sym. Qed.

Ltac eqb_subst :=
  repeat match goal with
         | Q : (_ =? _)%Z = true |- _ => apply Z.eqb_eq in Q
         | Q : (_ =? _) = true |- _ => apply N.eqb_eq in Q
         end; subst.

Lemma tdenotes_of : forall v x, tval_wf v = true -> xt_same x (xt_of v) = true -> tdenotes v x = true.
Proof.
  intros [y m d|h mi s us tz|y m d h mi s us tz] x W H;
    destruct x as [xy xm xd xtz|xh xmi xs xf xtz|xy xm xd xh xmi xs xf xtz]; try discriminate;
    cbn [xt_of xt_same tdenotes] in *.
  - split_andb H. eqb_subst. rewrite Z.eqb_refl, !N.eqb_refl, tz_eqb_sym. cbn [andb]. assumption.
  - cbn [tval_wf] in W. split_andb W. apply N.ltb_lt in W1. rewrite (proj2 (frac_d6 us W1)) in H.
    split_andb H. destruct (frac_exact xf) as [u|]; [|discriminate]. cbn [opt_eqb] in *. eqb_subst.
    rewrite !N.eqb_refl, tz_eqb_sym. cbn [andb]. assumption.
  - cbn [tval_wf] in W. split_andb W. apply N.ltb_lt in W1. rewrite (proj2 (frac_d6 us W1)) in H.
    split_andb H. destruct (frac_exact xf) as [u|]; [|discriminate]. cbn [opt_eqb] in *. eqb_subst.
    rewrite Z.eqb_refl, !N.eqb_refl, tz_eqb_sym. cbn [andb]. assumption.
Qed.

Definition temporal_faithful : Prop :=
  forall v, tval_wf v = true ->
    let d := tdt_of v in
    (* value -> form -> value; the form is in the lexical space, inside the guard, and denotes the value *)
    py_parse d (py_print v) = Some v
    /\ (exists x, xsd_tvalue d (py_print v) = Some x /\ xt_same x (xt_of v) = true /\ in_guard x = true /\ tdenotes v x = true)
    (* the literal built from the form: accepted, not flagged, that value; normalize() and re-reading are fixpoints *)
    /\ (forall norm, tconstruct d (py_print v) norm = {| t_lex := py_print v; t_ill := Some false; t_val := Some v |})
    /\ (forall norm, tnormalize d (tconstruct d (py_print v) norm) = {| t_lex := py_print v; t_ill := None; t_val := Some v |}).

Lemma temporal_faithful_all : temporal_faithful.
Proof.
  intros v W d. pose proof (py_roundtrip v (tval_wf_pwf v W)) as R. fold d in R.
  destruct (print_xsd_valid v W) as (x & X1 & X2 & X3). fold d in X1.
  assert (C : forall norm, tconstruct d (py_print v) norm = {| t_lex := py_print v; t_ill := Some false; t_val := Some v |}).
  { intro norm. rewrite tconstruct_eq, R. destruct norm; reflexivity. }
  split; [exact R|]. split; [exists x; repeat split; try assumption; apply tdenotes_of; assumption|].
  split; [exact C|]. intro norm. rewrite C. apply tnormalize_eq. reflexivity.
Qed.

(* cases the tie theorem covers: python values, and lexical forms that are the isoformat of a well-formed value
   (for the other valid forms inside the guard the tie is checked by the run only) *)
Definition twf_core (c : tcase) : bool :=
  match c with
  | TPy v => tval_wf v
  | TLex d l _ => match py_parse d l with
                  | Some v => tval_wf v && str_eqb l (py_print v) && tdt_eqb d (tdt_of v)
                  | None => false
                  end
  end.

Lemma tdt_eqb_eq : forall a b, tdt_eqb a b = true -> a = b.
Proof. destruct a, b; intro H; try reflexivity; discriminate. Qed.

Lemma tspec_ok_model_partial : forall c, twf_core c = true -> tspec_ok c (tmodel_obs c) = true.
Proof.
  intros [d l norm|v] W; cbn [twf_core] in W.
  - destruct (py_parse d l) as [v|] eqn:P; [|discriminate]. split_andb W.
    apply str_eqb_eq in W1. apply tdt_eqb_eq in W0. subst l d.
    destruct (temporal_faithful_all v W) as (R & (x & X1 & X2 & X3 & X4) & C & N).
    cbn [tmodel_obs tspec_ok]. rewrite (N norm), (C norm). cbn [t_lex t_val t_ill]. rewrite (C true).
    erewrite (tnormalize_eq _ _ v); [|reflexivity]. cbn [t_lex t_val t_ill].
    rewrite X1. unfold tvalid_ok, tval_is, tlex_is. cbn [t_lex t_val t_ill teq_self]. rewrite X1, X4.
    assert (XX : xt_same x x = true).
    { destruct x; cbn [xt_same in_guard] in *; rewrite ?Z.eqb_refl, ?N.eqb_refl, ?tz_eqb_refl; cbn [andb];
        try reflexivity; destruct (frac_exact frac); try (split_andb X3; discriminate); cbn; rewrite N.eqb_refl; reflexivity. }
    rewrite XX, !str_eqb_refl. cbn [opt_eqb]. rewrite tval_eqb_refl. cbn. destruct norm; reflexivity.
  - cbn [tmodel_obs]. rewrite (proj2 (trows (tdt_of v))), default_normalize.
    destruct (temporal_faithful_all v W) as (R & (x & X1 & X2 & X3 & X4) & C & N).
    cbn [t_lex]. rewrite (C true). cbn [tspec_ok t_lex t_val t_ill teq_self opt_eqb].
    unfold tlex_is. rewrite X1, X2, tdt_eqb_refl, tval_eqb_refl, str_eqb_refl. reflexivity.
Qed.

(* F14g, in the model: valid forms outside the guard *)
Lemma temporal_outside_guard_refuted :
  (* 24:00:00 is a valid dateTime; the code flags it *)
  (let l := [50;48;50;48;45;48;49;45;48;49;84;50;52;58;48;48;58;48;48] in
   xsd_tvalue TDateTime l <> None /\ t_ill (tconstruct TDateTime l true) = Some true)
  (* a date with a time zone is valid; the zone is lost *)
  /\ (let l := [50;48;50;48;45;48;49;45;48;49;90] in
      xsd_tvalue TDate l = Some (XDate 2020 1 1 (Some 0%Z))
      /\ t_lex (tconstruct TDate l true) = [50;48;50;48;45;48;49;45;48;49]
      /\ tval_is (t_val (tconstruct TDate l true)) (XDate 2020 1 1 (Some 0%Z)) = false)
  (* seven fraction digits: silently truncated *)
  /\ (let l := [49;50;58;48;48;58;48;48;46;49;50;51;52;53;54;55] in
      xsd_tvalue TTime l <> None /\ t_val (tconstruct TTime l true) = Some (VTime 12 0 0 123456 None)).
Proof. vm_compute. repeat split; discriminate. Qed.

(* ================================================================== *)
(* every valid form inside the guard is read with the XSD value *)

Lemma dec_value_cons : forall c r, dec_value (c :: r) = (c - 48) * 10 ^ N.of_nat (length r) + dec_value r.
Proof. intros c r. change (c :: r) with ([c] ++ r). rewrite dec_value_app2. unfold dec_value at 1. cbn [fold_left]. lia. Qed.

Lemma dec_value_bound : forall l, forallb is_dig l = true -> dec_value l < 10 ^ N.of_nat (length l).
Proof.
  induction l as [|c r IH]; intro H; [cbn; lia|].
  cbn [forallb] in H. apply andb_true_iff in H. destruct H as [Hc Hr]. apply is_dig_range in Hc.
  rewrite dec_value_cons. cbn [length]. rewrite Nat2N.inj_succ, N.pow_succ_r'. specialize (IH Hr). nia.
Qed.

Lemma frac_digits6 : forall f, forallb is_dig f = true ->
  forallb is_dig (firstn 6 (f ++ zeros 6)) = true /\ length (firstn 6 (f ++ zeros 6)) = 6%nat.
Proof.
  intros f H. split.
  - assert (A : forallb is_dig (f ++ zeros 6) = true) by (rewrite forallb_app, H; reflexivity).
    rewrite <- (firstn_skipn 6 (f ++ zeros 6)), forallb_app in A. apply andb_true_iff in A. tauto.
  - apply firstn_length_le. rewrite app_length. cbn. lia.
Qed.

Lemma frac_us_bound : forall fd, (match fd with Some f => forallb is_dig f = true | None => True end) -> frac_us fd < 1000000.
Proof.
  intros [f|] H; [|cbn; lia]. unfold frac_us. destruct (frac_digits6 f H) as [D L].
  pose proof (dec_value_bound _ D) as B. rewrite L in B. exact B.
Qed.

Lemma frac_guard : forall fd u, frac_exact (frac_of fd) = Some u -> frac_us fd = u.
Proof.
  intros [f|] u H; unfold frac_exact, frac_of in H.
  - destruct (all_zero (skipn 6 f)); inversion H. reflexivity.
  - cbn in H. inversion H. reflexivity.
Qed.

(* inversion of the shapes: the digit strings are digits *)
Lemma shape_hms_digits : forall l h mi s fd rest, shape_hms l = Some (h, mi, s, fd, rest) ->
  match fd with Some f => forallb is_dig f = true | None => True end.
Proof.
  intros l h mi s fd rest H. unfold shape_hms in H.
  destruct (take2 l) as [[h' r1]|]; [|discriminate]. destruct (expect 58 r1) as [r2|]; [|discriminate].
  destruct (take2 r2) as [[mi' r3]|]; [|discriminate]. destruct (expect 58 r3) as [r4|]; [|discriminate].
  destruct (take2 r4) as [[s' r5]|]; [|discriminate].
  destruct r5 as [|c r6]; [inversion H; exact I|].
  destruct (c =? 46); [|inversion H; exact I].
  destruct (span_digits r6) as [f r7] eqn:S. destruct (is_nil f); [discriminate|]. inversion H; subst.
  apply (span_digits_spec _ _ _ S).
Qed.

Lemma shape_ymd_digits : forall l neg yd m d rest, shape_ymd l = Some (neg, yd, m, d, rest) ->
  forallb is_dig yd = true /\ (4 <= length yd)%nat.
Proof.
  intros l neg yd m d rest H. unfold shape_ymd in H.
  destruct (match l with [] => (false, l) | c :: r => if c =? 45 then (true, r) else (false, l) end) as [ng b].
  destruct (span_digits b) as [y r1] eqn:S. destruct (length y <? 4)%nat eqn:L; [discriminate|].
  destruct (expect 45 r1) as [r2|]; [|discriminate]. destruct (take2 r2) as [[m' r3]|]; [|discriminate].
  destruct (expect 45 r3) as [r4|]; [|discriminate]. destruct (take2 r4) as [[d' r5]|]; [|discriminate].
  inversion H; subst. split; [apply (span_digits_spec _ _ _ S)|]. apply Nat.ltb_ge in L. exact L.
Qed.

(* the date part under the guard *)
Lemma date_guard : forall neg yd m d y m' d', forallb is_dig yd = true -> (4 <= length yd)%nat ->
  xsd_ymd neg yd m d = Some (y, m', d') -> year_ok y = true ->
  exists y0, py_date_ok neg yd m d = Some (y0, m, d) /\ y = Z.of_N y0 /\ m' = m /\ d' = d
    /\ (1 <=? y0) && (y0 <=? 9999) && (1 <=? m) && (m <=? 12) && (1 <=? d) && (d <=? days_in_month y0 m) = true.
Proof.
  intros neg yd m d y m' d' D L H G. unfold xsd_ymd, xsd_year in H.
  destruct yd as [|c r]; [cbn in L; lia|].
  set (y0 := dec_value (c :: r)) in *.
  destruct (((length (c :: r) =? 4)%nat || negb (c =? 48)) && negb (neg && (y0 =? 0))) eqn:OK; [|discriminate].
  apply andb_true_iff in OK. destruct OK as [OK1 OK2].
  destruct ((1 <=? m) && (m <=? 12) && (1 <=? d) && (d <=? xsd_days_in_month (if neg then (- Z.of_N y0)%Z else Z.of_N y0) m)) eqn:R;
    [|discriminate].
  inversion H; subst y m' d'; clear H.
  unfold year_ok in G. apply andb_true_iff in G. destruct G as [G1 G2]. apply Z.leb_le in G1, G2.
  destruct neg; [lia|].
  assert (L4 : length (c :: r) = 4%nat).
  { destruct (Nat.eqb_spec (length (c :: r)) 4) as [E|NE]; [exact E|]. cbn [orb] in OK1. apply negb_true_iff in OK1.
    apply N.eqb_neq in OK1. cbn [forallb] in D. apply andb_true_iff in D. destruct D as [Dc _]. apply is_dig_range in Dc.
    exfalso. unfold y0 in G2. rewrite dec_value_cons in G2. cbn [length] in L, NE.
    assert (P : 10 ^ 4 <= 10 ^ N.of_nat (length r)) by (apply N.pow_le_mono_r; lia).
    change (10 ^ 4) with 10000 in P. nia. }
  exists y0. rewrite xsd_days_eq in R. split_andb R.
  unfold py_date_ok. fold y0. rewrite L4. cbn [orb negb Nat.eqb].
  assert (Y1 : (1 <=? y0) = true) by (apply N.leb_le; lia). assert (Y2 : (y0 <=? 9999) = true) by (apply N.leb_le; lia).
  rewrite Y1, R, R2, R1, R0. cbn [andb]. repeat split; rewrite ?Y2; reflexivity.
Qed.

Lemma hms_guard : forall h mi s fd, xsd_hms_ok h mi s fd = true -> (h <? 24) = true -> py_time_ok h mi s = true.
Proof.
  intros h mi s fd H G. unfold xsd_hms_ok in H. apply orb_true_iff in H. destruct H as [H|H]; [exact H|].
  split_andb H. apply N.eqb_eq in H. apply N.ltb_lt in G. lia.
Qed.

Lemma tz_guard : forall t tz, xsd_tz t = Some tz -> py_tz t = Some tz /\ tz_wf tz = true.
Proof.
  intros [| |neg hh mm] tz H; cbn [xsd_tz py_tz] in *; try (inversion H; split; reflexivity).
  destruct (((hh <=? 13) && (mm <=? 59)) || ((hh =? 14) && (mm =? 0))) eqn:E; [|discriminate]. inversion H; subst tz.
  assert (B : hh * 60 + mm <= 840).
  { apply orb_true_iff in E. destruct E as [E|E]; split_andb E;
      [apply N.leb_le in E, E0|apply N.eqb_eq in E, E0]; lia. }
  replace (hh * 60 + mm <? 1440) with true by (symmetry; apply N.ltb_lt; lia).
  split; [reflexivity|]. cbn [tz_wf]. apply N.leb_le. destruct neg; rewrite ?Zabs2N.inj_opp, Zabs2N.id; exact B.
Qed.

Lemma valid_guard_parse : forall d l xv, xsd_tvalue d l = Some xv -> in_guard xv = true ->
  exists v, py_parse d l = Some v /\ tdenotes v xv = true /\ tval_wf v = true /\ tdt_of v = d.
Proof.
  intros d l xv H G. destruct d; cbn [xsd_tvalue py_parse] in *.
  - destruct (shape_ymd l) as [[[[[neg yd] m] dd] rest]|] eqn:S; [|discriminate].
    destruct (shape_ymd_digits _ _ _ _ _ _ S) as [D L].
    destruct (shape_tz rest) as [t|]; [|discriminate].
    destruct (xsd_ymd neg yd m dd) as [[[y m'] d']|] eqn:X; [|discriminate].
    destruct (xsd_tz t) as [tz|]; [|discriminate]. inversion H; subst xv. cbn [in_guard] in G. split_andb G.
    destruct (date_guard _ _ _ _ _ _ _ D L X G) as (y0 & P & -> & -> & -> & W). rewrite P.
    exists (VDate y0 m dd). split; [reflexivity|]. cbn [tdenotes tval_wf tdt_of]. rewrite Z.eqb_refl, !N.eqb_refl, G0, W. repeat split.
  - destruct (shape_hms l) as [[[[[h mi] s] fd] rest]|] eqn:S; [|discriminate].
    pose proof (shape_hms_digits _ _ _ _ _ _ S) as FD.
    destruct (shape_tz rest) as [t|]; [|discriminate]. destruct (xsd_tz t) as [tz|] eqn:T; [|discriminate].
    destruct (xsd_hms_ok h mi s fd) eqn:O; [|discriminate]. inversion H; subst xv. cbn [in_guard] in G. split_andb G.
    destruct (tz_guard _ _ T) as [PT WT]. rewrite PT, (hms_guard _ _ _ _ O G).
    destruct (frac_exact (frac_of fd)) as [u|] eqn:F; [|discriminate].
    exists (VTime h mi s (frac_us fd) tz). split; [reflexivity|]. cbn [tdenotes tval_wf tdt_of].
    rewrite F, (frac_guard fd u F), !N.eqb_refl, tz_eqb_refl, (hms_guard _ _ _ _ O G), WT. cbn [opt_eqb]. rewrite N.eqb_refl.
    pose proof (frac_us_bound fd FD) as B. rewrite (frac_guard fd u F) in B.
    replace (u <? 1000000) with true by (symmetry; apply N.ltb_lt; exact B). repeat split.
  - destruct (shape_ymd l) as [[[[[neg yd] m] dd] rest0]|] eqn:S; [|discriminate].
    destruct (shape_ymd_digits _ _ _ _ _ _ S) as [D L].
    destruct rest0 as [|sep rest]; [discriminate|].
    destruct (N.eqb_spec sep 84) as [->|NE];
      [|exfalso; revert H; destruct sep as [|p]; try discriminate;
        repeat (destruct p as [p|p|]; try discriminate); congruence].
    destruct (shape_hms rest) as [[[[[h mi] s] fd] rest']|] eqn:S2; [|discriminate].
    pose proof (shape_hms_digits _ _ _ _ _ _ S2) as FD.
    destruct (shape_tz rest') as [t|]; [|discriminate].
    destruct (xsd_ymd neg yd m dd) as [[[y m'] d']|] eqn:X; [|discriminate].
    destruct (xsd_tz t) as [tz|] eqn:T; [|discriminate].
    destruct (xsd_hms_ok h mi s fd) eqn:O; [|discriminate]. inversion H; subst xv. cbn [in_guard] in G. split_andb G.
    destruct (date_guard _ _ _ _ _ _ _ D L X G) as (y0 & P & -> & -> & -> & W).
    destruct (tz_guard _ _ T) as [PT WT]. rewrite P, PT, (hms_guard _ _ _ _ O G1).
    destruct (frac_exact (frac_of fd)) as [u|] eqn:F; [|discriminate].
    exists (VDateTime y0 m dd h mi s (frac_us fd) tz). split; [reflexivity|]. cbn [tdenotes tval_wf tdt_of].
    rewrite F, (frac_guard fd u F), Z.eqb_refl, !N.eqb_refl, tz_eqb_refl, (hms_guard _ _ _ _ O G1), WT, W. cbn [opt_eqb]. rewrite N.eqb_refl.
    pose proof (frac_us_bound fd FD) as B. rewrite (frac_guard fd u F) in B.
    replace (u <? 1000000) with true by (symmetry; apply N.ltb_lt; exact B). repeat split.
Qed.

(* ------------------------------------------------------------------ *)
(* what the readers return is a value python can build *)

Lemma py_date_ok_inv : forall neg yd m d y m' d', forallb is_dig yd = true ->
  py_date_ok neg yd m d = Some (y, m', d') ->
  m' = m /\ d' = d /\ (1 <=? y) && (y <=? 9999) && (1 <=? m) && (m <=? 12) && (1 <=? d) && (d <=? days_in_month y m) = true.
Proof.
  intros neg yd m d y m' d' D H. unfold py_date_ok in H.
  destruct (neg || negb (length yd =? 4)%nat) eqn:E; [discriminate|].
  apply orb_false_iff in E. destruct E as [_ E]. apply negb_false_iff in E. apply Nat.eqb_eq in E.
  destruct ((1 <=? dec_value yd) && (1 <=? m) && (m <=? 12) && (1 <=? d) && (d <=? days_in_month (dec_value yd) m)) eqn:R;
    [|discriminate].
  inversion H; subst. split; [reflexivity|]. split; [reflexivity|]. split_andb R.
  pose proof (dec_value_bound yd D) as B. rewrite E in B. change (10 ^ N.of_nat 4) with 10000 in B.
  replace (dec_value yd <=? 9999) with true by (symmetry; apply N.leb_le; lia).
  rewrite R, R3, R2, R1, R0. reflexivity.
Qed.

Lemma py_tz_pwf : forall t tz, py_tz t = Some tz -> tz_pwf tz = true.
Proof.
  intros [| |neg hh mm] tz H; cbn [py_tz] in H; try (inversion H; reflexivity).
  destruct (hh * 60 + mm <? 1440) eqn:E; [|discriminate]. inversion H; subst. cbn [tz_pwf].
  destruct neg; rewrite ?Zabs2N.inj_opp, Zabs2N.id; exact E.
Qed.

Lemma py_parse_pwf : forall d l v, py_parse d l = Some v -> tval_pwf v = true /\ tdt_of v = d.
Proof.
  intros d l v H. destruct d; cbn [py_parse] in H.
  - destruct (shape_ymd l) as [[[[[neg yd] m] dd] rest]|] eqn:S; [|discriminate].
    destruct (shape_ymd_digits _ _ _ _ _ _ S) as [D _].
    destruct (shape_tz rest); [|discriminate].
    destruct (py_date_ok neg yd m dd) as [[[y m'] d']|] eqn:P; [|discriminate]. inversion H; subst v.
    destruct (py_date_ok_inv _ _ _ _ _ _ _ D P) as (-> & -> & W). split; [exact W|reflexivity].
  - destruct (shape_hms l) as [[[[[h mi] s] fd] rest]|] eqn:S; [|discriminate].
    pose proof (shape_hms_digits _ _ _ _ _ _ S) as FD.
    destruct (shape_tz rest) as [t|]; [|discriminate]. destruct (py_tz t) as [tz|] eqn:T; [|discriminate].
    destruct (py_time_ok h mi s) eqn:O; [|discriminate]. inversion H; subst v. cbn [tval_pwf tdt_of].
    rewrite O, (py_tz_pwf _ _ T). pose proof (frac_us_bound fd FD) as B.
    replace (frac_us fd <? 1000000) with true by (symmetry; apply N.ltb_lt; exact B). split; reflexivity.
  - destruct (shape_ymd l) as [[[[[neg yd] m] dd] rest0]|] eqn:S; [|discriminate].
    destruct (shape_ymd_digits _ _ _ _ _ _ S) as [D _].
    destruct rest0 as [|sep rest]; [discriminate|].
    destruct (shape_hms rest) as [[[[[h mi] s] fd] rest']|] eqn:S2; [|discriminate].
    pose proof (shape_hms_digits _ _ _ _ _ _ S2) as FD.
    destruct (shape_tz rest') as [t|]; [|discriminate].
    destruct (py_date_ok neg yd m dd) as [[[y m'] d']|] eqn:P; [|discriminate].
    destruct (py_tz t) as [tz|] eqn:T; [|discriminate].
    destruct (py_time_ok h mi s) eqn:O; [|discriminate]. inversion H; subst v. cbn [tval_pwf tdt_of].
    destruct (py_date_ok_inv _ _ _ _ _ _ _ D P) as (-> & -> & W).
    rewrite W, O, (py_tz_pwf _ _ T). pose proof (frac_us_bound fd FD) as B.
    replace (frac_us fd <? 1000000) with true by (symmetry; apply N.ltb_lt; exact B). split; reflexivity.
Qed.

(* construction-time normalisation is idempotent for every form of the shape *)
Lemma tconstruct_idem : forall d l,
  t_lex (tconstruct d (t_lex (tconstruct d l true)) true) = t_lex (tconstruct d l true).
Proof.
  intros d l. rewrite (tconstruct_eq d l true). cbn [t_lex]. destruct (py_parse d l) as [v|] eqn:P.
  - destruct (py_parse_pwf d l v P) as [W E]. pose proof (py_roundtrip v W) as R. rewrite E in R.
    rewrite tconstruct_eq, R. reflexivity.
  - rewrite tconstruct_eq, P. reflexivity.
Qed.

Lemma xt_same_refl : forall x, in_guard x = true -> xt_same x x = true.
Proof.
  destruct x; cbn [xt_same in_guard]; intro G; rewrite ?Z.eqb_refl, ?N.eqb_refl, ?tz_eqb_refl; cbn [andb];
    try reflexivity; split_andb G; destruct (frac_exact frac); try discriminate; cbn; rewrite N.eqb_refl; reflexivity.
Qed.

Lemma xt_same_via : forall v x' xv, tval_wf v = true -> tdenotes v xv = true -> xt_same x' (xt_of v) = true ->
  xt_same x' xv = true.
Proof.
  intros [y m d|h mi s us tz|y m d h mi s us tz] x' xv W Dn S;
    destruct x' as [ay am ad atz|ah ami as_ af atz|ay am ad ah ami as_ af atz]; try discriminate;
    destruct xv as [by_ bm bd btz|bh bmi bs bf btz|by_ bm bd bh bmi bs bf btz]; try discriminate;
    cbn [xt_of xt_same tdenotes] in *.
  - split_andb S. split_andb Dn. eqb_subst. rewrite Z.eqb_refl, !N.eqb_refl. cbn [andb].
    destruct atz, btz; cbn in *; try discriminate; reflexivity.
  - cbn [tval_wf] in W. split_andb W. apply N.ltb_lt in W1. rewrite (proj2 (frac_d6 us W1)) in S.
    split_andb S. split_andb Dn. destruct (frac_exact af) as [u|]; [|discriminate].
    destruct (frac_exact bf) as [w|]; [|discriminate]. cbn [opt_eqb] in *. eqb_subst. rewrite !N.eqb_refl. cbn [andb].
    destruct atz, tz, btz; cbn in *; try discriminate; try reflexivity. eqb_subst. apply Z.eqb_refl.
  - cbn [tval_wf] in W. split_andb W. apply N.ltb_lt in W1. rewrite (proj2 (frac_d6 us W1)) in S.
    split_andb S. split_andb Dn. destruct (frac_exact af) as [u|]; [|discriminate].
    destruct (frac_exact bf) as [w|]; [|discriminate]. cbn [opt_eqb] in *. eqb_subst. rewrite Z.eqb_refl, !N.eqb_refl. cbn [andb].
    destruct atz, tz, btz; cbn in *; try discriminate; try reflexivity. eqb_subst. apply Z.eqb_refl.
Qed.

(* the tie, every case of the temporal suite *)
Theorem tspec_ok_model : forall c, twf c = true -> tkf c = 0 -> tspec_ok c (tmodel_obs c) = true.
Proof.
  intros [d l norm|v] W K.
  - cbn [tmodel_obs tspec_ok]. rewrite (tnormalize_idem d l norm), str_eqb_refl.
    assert (R1 : forall o : option tval, opt_eqb tval_eqb o o = true) by (destruct o; [apply tval_eqb_refl|reflexivity]).
    rewrite R1.
    assert (E : teq_self (tconstruct d l norm) (tnormalize d (tconstruct d l norm)) = ETrue).
    { rewrite tconstruct_eq. destruct (py_parse d l) as [v|] eqn:P.
      - erewrite tnormalize_eq; [|reflexivity]. reflexivity.
      - unfold tnormalize, teq_self. cbn [t_val t_lex]. rewrite str_eqb_refl. reflexivity. }
    rewrite E. cbn [eqres_eqb].
    assert (IT : forall b, implb' b true = true) by (destruct b; reflexivity). rewrite IT.
    assert (C3 : implb' norm (str_eqb (t_lex (tconstruct d (t_lex (tconstruct d l norm)) true)) (t_lex (tconstruct d l norm))) = true).
    { destruct norm; [|reflexivity]. cbn [implb']. rewrite tconstruct_idem. apply str_eqb_refl. }
    rewrite C3, !andb_true_r.
    destruct (xsd_tvalue d l) as [xv|] eqn:V; [|reflexivity].
    cbn [tkf] in K. rewrite V in K. destruct (in_guard xv) eqn:G; [|discriminate].
    destruct (valid_guard_parse d l xv V G) as (v & P & Dn & Wv & Ed). subst d.
    destruct (temporal_faithful_all v Wv) as (R & (x' & X1 & X2 & X3 & X4) & C & N).
    assert (X5 : xt_same x' xv = true) by (apply (xt_same_via v); assumption).
    assert (Hx : tconstruct (tdt_of v) l norm =
                 {| t_lex := if norm then py_print v else l; t_ill := Some false; t_val := Some v |})
      by (rewrite tconstruct_eq, P; reflexivity).
    rewrite Hx. erewrite tnormalize_eq; [|reflexivity]. cbn [t_lex t_val t_ill].
    assert (Hre : tconstruct (tdt_of v) (if norm then py_print v else l) true =
                  {| t_lex := py_print v; t_ill := Some false; t_val := Some v |})
      by (destruct norm; [apply C|rewrite tconstruct_eq, P; reflexivity]).
    rewrite Hre. unfold tvalid_ok, tval_is, tlex_is. cbn [t_lex t_val t_ill]. rewrite Dn, X1, X5.
    destruct norm; cbn [orb]; [rewrite X1, X5; reflexivity|].
    rewrite V, (xt_same_refl xv G), str_eqb_refl. reflexivity.
  - apply tspec_ok_model_partial. exact W.
Qed.
