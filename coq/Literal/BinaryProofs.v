(* C09 - proofs about coq/Literal/BinaryModel.v *)
From Coq Require Import List NArith ZArith Bool Lia.
Import ListNotations.
From RV Require Import Literal.Model Literal.Token Literal.Proofs Literal.BinaryModel.
Local Open Scope N_scope.

Ltac Zify.zify_post_hook ::= Z.div_mod_to_equations.

(* zify knows N.div but not N.modulo: supply the defining facts of every a mod k in the goal *)
Ltac modfacts :=
  repeat match goal with
         | |- context [N.modulo ?a ?k] =>
             lazymatch goal with
             | _ : a = k * (a / k) + a mod k |- _ => fail
             | _ => pose proof (N.mod_lt a k ltac:(discriminate)); pose proof (N.div_mod a k ltac:(discriminate))
             end
         end.
Ltac nlia := modfacts; lia.

Ltac ncmp :=
  repeat match goal with
         | |- context [N.leb ?a ?b] => destruct (N.leb_spec a b)
         | |- context [N.ltb ?a ?b] => destruct (N.ltb_spec a b)
         | |- context [N.eqb ?a ?b] => destruct (N.eqb_spec a b)
         end; cbn [andb orb negb]; try nlia; try reflexivity; try (f_equal; nlia).

Definition is_bytes (bs : bytes) : bool := forallb (fun b => b <? 256) bs.

Lemma is_bytes_cons : forall b r, is_bytes (b :: r) = true <-> b < 256 /\ is_bytes r = true.
Proof. intros. unfold is_bytes. cbn [forallb]. rewrite andb_true_iff, N.ltb_lt. tauto. Qed.

(* induction two / three elements at a time *)
Lemma pair_ind : forall (P : list N -> Prop),
  P [] -> (forall a, P [a]) -> (forall a b r, P r -> P (a :: b :: r)) -> forall l, P l.
Proof.
  intros P H0 H1 H2 l. assert (H : P l /\ forall a, P (a :: l)); [|tauto].
  induction l as [|x l [IH1 IH2]]; split; auto.
Qed.

Lemma triple_ind : forall (P : list N -> Prop),
  P [] -> (forall a, P [a]) -> (forall a b, P [a; b]) -> (forall a b c r, P r -> P (a :: b :: c :: r)) -> forall l, P l.
Proof.
  intros P H0 H1 H2 H3 l. assert (H : P l /\ (forall a, P (a :: l)) /\ forall a b, P (a :: b :: l)); [|tauto].
  induction l as [|x l (IH1 & IH2 & IH3)]; repeat split; auto.
Qed.

(* ------------------------------------------------------------------ *)
(* hexBinary *)

Lemma hexval_hexchr : forall v, v < 16 ->
  hexval (hexchr v) = Some v /\ is_hex (hexchr v) = true /\ hexdigit_value (hexchr v) = v.
Proof.
  intros v H. unfold hexchr. destruct (N.ltb_spec v 10); unfold hexval, is_hex, hexdigit_value; repeat split; ncmp.
Qed.

Lemma is_hex_hexval : forall c, is_hex c = true -> hexval c = Some (hexdigit_value c) /\ hexdigit_value c < 16.
Proof.
  intros c Hx. unfold is_hex in Hx. unfold hexval, hexdigit_value.
  revert Hx. ncmp; intro Hx; try discriminate; split; ncmp.
Qed.

Lemma unhex_hexlify : forall bs, is_bytes bs = true -> unhex (hexlify bs) = Some bs /\ xsd_hex (hexlify bs) = Some bs.
Proof.
  induction bs as [|b r IH]; intro H; [split; reflexivity|].
  apply is_bytes_cons in H. destruct H as [Hb Hr]. destruct (IH Hr) as [I1 I2].
  assert (H1 : b / 16 < 16) by nlia. assert (H2 : b mod 16 < 16) by nlia.
  destruct (hexval_hexchr _ H1) as (A1 & A2 & A3). destruct (hexval_hexchr _ H2) as (B1 & B2 & B3).
  cbn [hexlify unhex xsd_hex]. rewrite A1, B1, I1, A2, B2, I2, A3, B3. cbn [andb].
  split; f_equal; f_equal; nlia.
Qed.

(* every form of the XSD lexical space is read with the XSD value *)
Lemma unhex_xsd : forall l bs, xsd_hex l = Some bs -> unhex l = Some bs.
Proof.
  intro l. induction l as [| a | a b r IH] using pair_ind; intros bs H.
  - exact H.
  - discriminate.
  - cbn [xsd_hex] in H. destruct (is_hex a && is_hex b) eqn:E; [|discriminate].
    apply andb_true_iff in E. destruct E as [Ea Eb].
    destruct (xsd_hex r) as [bs'|] eqn:X; [|discriminate]. inversion H; subst bs.
    cbn [unhex]. rewrite (proj1 (is_hex_hexval a Ea)), (proj1 (is_hex_hexval b Eb)), (IH bs' eq_refl). reflexivity.
Qed.

Lemma unhex_bytes : forall l bs, unhex l = Some bs -> is_bytes bs = true.
Proof.
  intro l. induction l as [| a | a b r IH] using pair_ind; intros bs H.
  - inversion H. reflexivity.
  - discriminate.
  - cbn [unhex] in H. destruct (hexval a) as [x|] eqn:Ha; [|discriminate].
    destruct (hexval b) as [y|] eqn:Hb; [|discriminate]. destruct (unhex r) as [bs'|]; [|discriminate].
    assert (Hx : x < 16) by (revert Ha; unfold hexval; ncmp; intro Q; inversion Q; nlia).
    assert (Hy : y < 16) by (revert Hb; unfold hexval; ncmp; intro Q; inversion Q; nlia).
    assert (E : bs = (16 * x + y) :: bs') by congruence. rewrite E.
    apply is_bytes_cons. split; [nlia|apply IH; reflexivity].
Qed.

(* ------------------------------------------------------------------ *)
(* base64 *)

Lemma b64_chr_facts : forall v, v < 64 ->
  b64val (b64chr v) = Some v /\ is_b64 (b64chr v) = true /\ b64_value (b64chr v) = v
  /\ b64chr v < 128 /\ (b64chr v =? 61) = false /\ (b64chr v =? 32) = false.
Proof.
  intros v H. unfold b64chr.
  destruct (N.ltb_spec v 26); [|destruct (N.ltb_spec v 52); [|destruct (N.ltb_spec v 62); [|destruct (N.eqb_spec v 62)]]];
    unfold b64val, is_b64, b64_value; repeat split; ncmp.
Qed.

Lemma is_b64_facts : forall c, is_b64 c = true ->
  b64val c = Some (b64_value c) /\ b64_value c < 64 /\ (c =? 61) = false /\ (c =? 32) = false /\ c < 128.
Proof.
  intros c Hx. unfold is_b64 in Hx. unfold b64val, b64_value. revert Hx. ncmp; intro Hx; try discriminate; repeat split; ncmp.
Qed.

(* one step of a2b_base64 on a data character / a pad / a skipped character *)
Lemma a2b_d0 : forall c v r l p, (c =? 61) = false -> b64val c = Some v -> a2b (c :: r) 0 l p = a2b r 1 v 0.
Proof. intros c v r l p H1 H2. cbn [a2b]. rewrite H1, H2. reflexivity. Qed.
Lemma a2b_d1 : forall c v r l p, (c =? 61) = false -> b64val c = Some v ->
  a2b (c :: r) 1 l p = emit (l * 4 + v / 16) (a2b r 2 (v mod 16) 0).
Proof. intros c v r l p H1 H2. cbn [a2b]. rewrite H1, H2. reflexivity. Qed.
Lemma a2b_d2 : forall c v r l p, (c =? 61) = false -> b64val c = Some v ->
  a2b (c :: r) 2 l p = emit (l * 16 + v / 4) (a2b r 3 (v mod 4) 0).
Proof. intros c v r l p H1 H2. cbn [a2b]. rewrite H1, H2. reflexivity. Qed.
Lemma a2b_d3 : forall c v r l p, (c =? 61) = false -> b64val c = Some v ->
  a2b (c :: r) 3 l p = emit (l * 64 + v) (a2b r 0 0 0).
Proof. intros c v r l p H1 H2. cbn [a2b]. rewrite H1, H2. reflexivity. Qed.
Lemma a2b_pad_2_0 : forall r l, a2b (61 :: r) 2 l 0 = a2b r 2 l 1.
Proof. reflexivity. Qed.
Lemma a2b_pad_2_1 : forall r l, a2b (61 :: r) 2 l 1 = Some [].
Proof. reflexivity. Qed.
Lemma a2b_pad_3_0 : forall r l, a2b (61 :: r) 3 l 0 = Some [].
Proof. reflexivity. Qed.
Lemma a2b_space : forall r qp l p, a2b (32 :: r) qp l p = a2b r qp l p.
Proof. reflexivity. Qed.

Lemma a2b_quad : forall c1 c2 c3 c4 v1 v2 v3 v4 r,
  (c1 =? 61) = false -> b64val c1 = Some v1 -> (c2 =? 61) = false -> b64val c2 = Some v2 ->
  (c3 =? 61) = false -> b64val c3 = Some v3 -> (c4 =? 61) = false -> b64val c4 = Some v4 ->
  a2b (c1 :: c2 :: c3 :: c4 :: r) 0 0 0 =
  emit (v1 * 4 + v2 / 16) (emit (v2 mod 16 * 16 + v3 / 4) (emit (v3 mod 4 * 64 + v4) (a2b r 0 0 0))).
Proof.
  intros. rewrite (a2b_d0 c1 v1), (a2b_d1 c2 v2), (a2b_d2 c3 v3), (a2b_d3 c4 v4) by assumption. reflexivity.
Qed.

(* value -> form -> value *)
Lemma a2b_encode : forall bs, is_bytes bs = true -> a2b (b64encode bs) 0 0 0 = Some bs.
Proof.
  intro bs. induction bs as [| a | a b | a b c r IH] using triple_ind; intro H.
  - reflexivity.
  - apply is_bytes_cons in H. destruct H as [Ha _]. cbn [b64encode].
    destruct (b64_chr_facts (a / 4)) as (A1 & _ & _ & _ & A5 & _); [nlia|].
    destruct (b64_chr_facts (a mod 4 * 16)) as (B1 & _ & _ & _ & B5 & _); [nlia|].
    rewrite (a2b_d0 _ _ _ _ _ A5 A1), (a2b_d1 _ _ _ _ _ B5 B1), a2b_pad_2_0, a2b_pad_2_1. cbn [emit].
    f_equal. f_equal. nlia.
  - apply is_bytes_cons in H. destruct H as [Ha H]. apply is_bytes_cons in H. destruct H as [Hb _]. cbn [b64encode].
    destruct (b64_chr_facts (a / 4)) as (A1 & _ & _ & _ & A5 & _); [nlia|].
    destruct (b64_chr_facts (a mod 4 * 16 + b / 16)) as (B1 & _ & _ & _ & B5 & _); [nlia|].
    destruct (b64_chr_facts (b mod 16 * 4)) as (C1 & _ & _ & _ & C5 & _); [nlia|].
    rewrite (a2b_d0 _ _ _ _ _ A5 A1), (a2b_d1 _ _ _ _ _ B5 B1), (a2b_d2 _ _ _ _ _ C5 C1), a2b_pad_3_0. cbn [emit].
    f_equal. f_equal; [nlia|]. f_equal. nlia.
  - apply is_bytes_cons in H. destruct H as [Ha H]. apply is_bytes_cons in H. destruct H as [Hb H].
    apply is_bytes_cons in H. destruct H as [Hc Hr]. cbn [b64encode].
    destruct (b64_chr_facts (a / 4)) as (A1 & _ & _ & _ & A5 & _); [nlia|].
    destruct (b64_chr_facts (a mod 4 * 16 + b / 16)) as (B1 & _ & _ & _ & B5 & _); [nlia|].
    destruct (b64_chr_facts (b mod 16 * 4 + c / 64)) as (C1 & _ & _ & _ & C5 & _); [nlia|].
    destruct (b64_chr_facts (c mod 64)) as (D1 & _ & _ & _ & D5 & _); [nlia|].
    rewrite (a2b_quad _ _ _ _ _ _ _ _ _ A5 A1 B5 B1 C5 C1 D5 D1), (IH Hr). cbn [emit].
    f_equal. f_equal; [nlia|]. f_equal; [nlia|]. f_equal. nlia.
Qed.

Lemma encode_chars : forall bs, is_bytes bs = true ->
  forallb (fun c => (is_b64 c || (c =? 61)) && negb (c =? 32) && (c <? 128)) (b64encode bs) = true.
Proof.
  intro bs. induction bs as [| a | a b | a b c r IH] using triple_ind; intro H.
  - reflexivity.
  - apply is_bytes_cons in H. destruct H as [Ha _]. cbn [b64encode forallb].
    destruct (b64_chr_facts (a / 4)) as (_ & A2 & _ & A4 & _ & A6); [nlia|].
    destruct (b64_chr_facts (a mod 4 * 16)) as (_ & B2 & _ & B4 & _ & B6); [nlia|].
    apply N.ltb_lt in A4, B4. rewrite A2, A4, A6, B2, B4, B6. reflexivity.
  - apply is_bytes_cons in H. destruct H as [Ha H]. apply is_bytes_cons in H. destruct H as [Hb _]. cbn [b64encode forallb].
    destruct (b64_chr_facts (a / 4)) as (_ & A2 & _ & A4 & _ & A6); [nlia|].
    destruct (b64_chr_facts (a mod 4 * 16 + b / 16)) as (_ & B2 & _ & B4 & _ & B6); [nlia|].
    destruct (b64_chr_facts (b mod 16 * 4)) as (_ & C2 & _ & C4 & _ & C6); [nlia|].
    apply N.ltb_lt in A4, B4, C4. rewrite A2, A4, A6, B2, B4, B6, C2, C4, C6. reflexivity.
  - apply is_bytes_cons in H. destruct H as [Ha H]. apply is_bytes_cons in H. destruct H as [Hb H].
    apply is_bytes_cons in H. destruct H as [Hc Hr]. cbn [b64encode forallb].
    destruct (b64_chr_facts (a / 4)) as (_ & A2 & _ & A4 & _ & A6); [nlia|].
    destruct (b64_chr_facts (a mod 4 * 16 + b / 16)) as (_ & B2 & _ & B4 & _ & B6); [nlia|].
    destruct (b64_chr_facts (b mod 16 * 4 + c / 64)) as (_ & C2 & _ & C4 & _ & C6); [nlia|].
    destruct (b64_chr_facts (c mod 64)) as (_ & D2 & _ & D4 & _ & D6); [nlia|].
    apply N.ltb_lt in A4, B4, C4, D4. rewrite A2, A4, A6, B2, B4, B6, C2, C4, C6, D2, D4, D6, (IH Hr). reflexivity.
Qed.

(* a string without blanks: spacing is fine and filtering blanks changes nothing *)
Lemma no_blank_facts : forall l, forallb (fun c => negb (c =? 32)) l = true ->
  starts_with_space l = false /\ ends_with_space l = false /\ has_double_space l = false
  /\ filter (fun c => negb (c =? 32)) l = l.
Proof.
  induction l as [|c r IH]; intro H; [repeat split|].
  cbn [forallb] in H. apply andb_true_iff in H. destruct H as [Hc Hr]. destruct (IH Hr) as (I1 & I2 & I3 & I4).
  apply negb_true_iff in Hc as Hc'.
  split; [exact Hc'|]. split; [|split].
  - destruct r as [|y r']; [cbn; exact Hc'|]. rewrite ends_cons2. exact I2.
  - rewrite hds_cons_nonspace; assumption.
  - cbn [filter]. rewrite Hc, I4. reflexivity.
Qed.

Lemma quad_bytes_encode : forall a b c, a < 256 -> b < 256 -> c < 256 ->
  quad_bytes (b64chr (a / 4)) (b64chr (a mod 4 * 16 + b / 16)) (b64chr (b mod 16 * 4 + c / 64)) (b64chr (c mod 64))
  = [a; b; c].
Proof.
  intros a b c Ha Hb Hc. unfold quad_bytes.
  destruct (b64_chr_facts (a / 4)) as (_ & _ & A3 & _); [nlia|].
  destruct (b64_chr_facts (a mod 4 * 16 + b / 16)) as (_ & _ & B3 & _); [nlia|].
  destruct (b64_chr_facts (b mod 16 * 4 + c / 64)) as (_ & _ & C3 & _); [nlia|].
  destruct (b64_chr_facts (c mod 64)) as (_ & _ & D3 & _); [nlia|].
  rewrite A3, B3, C3, D3. cbv zeta.
  assert (E : ((a / 4 * 64 + (a mod 4 * 16 + b / 16)) * 64 + (b mod 16 * 4 + c / 64)) * 64 + c mod 64
              = a * 65536 + b * 256 + c) by nlia.
  rewrite E. f_equal; [nlia|]. f_equal; [nlia|]. f_equal. nlia.
Qed.

Lemma xsd_quads_encode : forall bs, is_bytes bs = true -> xsd_b64_quads (b64encode bs) = Some bs.
Proof.
  intro bs. induction bs as [| a | a b | a b c r IH] using triple_ind; intro H.
  - reflexivity.
  - apply is_bytes_cons in H. destruct H as [Ha _]. cbn [b64encode xsd_b64_quads].
    destruct (b64_chr_facts (a / 4)) as (_ & A2 & A3 & _); [nlia|].
    destruct (b64_chr_facts (a mod 4 * 16)) as (_ & B2 & B3 & _); [nlia|].
    rewrite A2, B2, A3, B3. cbn [andb N.eqb Pos.eqb is_nil].
    replace (a mod 4 * 16 mod 16 =? 0) with true by (symmetry; apply N.eqb_eq; nlia).
    f_equal. f_equal. nlia.
  - apply is_bytes_cons in H. destruct H as [Ha H]. apply is_bytes_cons in H. destruct H as [Hb _].
    cbn [b64encode xsd_b64_quads].
    destruct (b64_chr_facts (a / 4)) as (_ & A2 & A3 & _); [nlia|].
    destruct (b64_chr_facts (a mod 4 * 16 + b / 16)) as (_ & B2 & B3 & _); [nlia|].
    destruct (b64_chr_facts (b mod 16 * 4)) as (_ & C2 & C3 & _ & C5 & _); [nlia|].
    rewrite A2, B2, C2, A3, B3, C3, C5. cbn [andb N.eqb Pos.eqb is_nil].
    replace (b mod 16 * 4 mod 4 =? 0) with true by (symmetry; apply N.eqb_eq; nlia).
    f_equal. f_equal; [nlia|]. f_equal. nlia.
  - apply is_bytes_cons in H. destruct H as [Ha H]. apply is_bytes_cons in H. destruct H as [Hb H].
    apply is_bytes_cons in H. destruct H as [Hc Hr]. cbn [b64encode xsd_b64_quads].
    destruct (b64_chr_facts (a / 4)) as (_ & A2 & _); [nlia|].
    destruct (b64_chr_facts (a mod 4 * 16 + b / 16)) as (_ & B2 & _); [nlia|].
    destruct (b64_chr_facts (b mod 16 * 4 + c / 64)) as (_ & C2 & _ & _ & C5 & _); [nlia|].
    destruct (b64_chr_facts (c mod 64)) as (_ & D2 & _ & _ & D5 & _); [nlia|].
    rewrite A2, B2, C2, D2, C5, D5, (IH Hr). cbn [andb]. rewrite quad_bytes_encode by assumption. reflexivity.
Qed.

Lemma forallb_weaken : forall (f g : N -> bool) l, (forall c, f c = true -> g c = true) ->
  forallb f l = true -> forallb g l = true.
Proof. intros f g l H. rewrite !forallb_forall. auto. Qed.

(* the encoder's output: in the XSD lexical space with that value, and read back by b64decode *)
Lemma b64_encode_roundtrip : forall bs, is_bytes bs = true ->
  b64decode (b64encode bs) = Some bs /\ xsd_b64 (b64encode bs) = Some bs.
Proof.
  intros bs H. pose proof (encode_chars bs H) as C. split.
  - unfold b64decode. rewrite (forallb_weaken _ (fun c => c <? 128) _ (fun c Hc => proj2 (proj1 (andb_true_iff _ _) Hc)) C).
    apply a2b_encode. exact H.
  - unfold xsd_b64, b64_spacing_ok.
    assert (NB : forallb (fun c => negb (c =? 32)) (b64encode bs) = true).
    { apply (forallb_weaken _ _ _ (fun c Hc => proj2 (proj1 (andb_true_iff _ _) (proj1 (proj1 (andb_true_iff _ _) Hc)))) C). }
    destruct (no_blank_facts _ NB) as (S1 & S2 & S3 & S4). rewrite S1, S2, S3, S4. cbn [negb andb].
    assert (CH : forallb (fun c => is_b64 c || (c =? 61) || (c =? 32)) (b64encode bs) = true).
    { apply (forallb_weaken _ _ _ (fun c Hc => proj2 (orb_true_iff _ _) (or_introl (proj1 (proj1 (andb_true_iff _ _) (proj1 (proj1 (andb_true_iff _ _) Hc)))))) C). }
    rewrite CH. apply xsd_quads_encode. exact H.
Qed.

(* blanks are skipped by the decoder *)
Lemma a2b_filter : forall l qp left p, a2b l qp left p = a2b (filter (fun c => negb (c =? 32)) l) qp left p.
Proof.
  induction l as [|c r IH]; intros qp left p; [reflexivity|].
  cbn [filter]. destruct (c =? 32) eqn:E.
  - apply N.eqb_eq in E. subst c. cbn [negb]. rewrite a2b_space. apply IH.
  - cbn [negb]. cbn [a2b]. destruct (c =? 61).
    + destruct (2 <=? qp); [destruct (4 <=? qp + (p + 1)); [reflexivity|apply IH]|apply IH].
    + destruct (b64val c); [|apply IH].
      destruct (qp =? 0); [apply IH|]. destruct (qp =? 1); [rewrite IH; reflexivity|].
      destruct (qp =? 2); rewrite IH; reflexivity.
Qed.

(* quads of the XSD grammar are decoded with the XSD value *)
Lemma a2b_xsd_quads : forall n s, (length s <= n)%nat -> forall bs, xsd_b64_quads s = Some bs -> a2b s 0 0 0 = Some bs.
Proof.
  induction n as [|n IH]; intros s L bs H.
  - destruct s; [inversion H; reflexivity|cbn in L; nlia].
  - destruct s as [|a [|b [|c [|d r]]]]; try discriminate; [inversion H; reflexivity|].
    cbn [xsd_b64_quads] in H.
    destruct (is_b64 a && is_b64 b) eqn:Eab; [|discriminate].
    apply andb_true_iff in Eab. destruct Eab as [Ea Eb].
    destruct (is_b64_facts a Ea) as (A1 & A2 & A3 & _). destruct (is_b64_facts b Eb) as (B1 & B2 & B3 & _).
    rewrite (a2b_d0 a _ _ _ _ A3 A1), (a2b_d1 b _ _ _ _ B3 B1).
    destruct ((c =? 61) && (d =? 61)) eqn:Ecd.
    + apply andb_true_iff in Ecd. destruct Ecd as [Ec Ed]. apply N.eqb_eq in Ec, Ed. subst c d.
      destruct (is_nil r && (b64_value b mod 16 =? 0)); [|discriminate]. inversion H; subst bs.
      rewrite a2b_pad_2_0, a2b_pad_2_1. reflexivity.
    + destruct (is_b64 c && (d =? 61)) eqn:Ecd2.
      * apply andb_true_iff in Ecd2. destruct Ecd2 as [Ec Ed]. apply N.eqb_eq in Ed. subst d.
        destruct (is_b64_facts c Ec) as (C1 & C2 & C3 & _).
        destruct (is_nil r && (b64_value c mod 4 =? 0)); [|discriminate]. inversion H; subst bs.
        rewrite (a2b_d2 c _ _ _ _ C3 C1), a2b_pad_3_0. reflexivity.
      * destruct (is_b64 c && is_b64 d) eqn:Ecd3; [|discriminate].
        apply andb_true_iff in Ecd3. destruct Ecd3 as [Ec Ed].
        destruct (is_b64_facts c Ec) as (C1 & C2 & C3 & _). destruct (is_b64_facts d Ed) as (D1 & D2 & D3 & _).
        destruct (xsd_b64_quads r) as [bs'|] eqn:X; [|discriminate]. inversion H; subst bs.
        rewrite (a2b_d2 c _ _ _ _ C3 C1), (a2b_d3 d _ _ _ _ D3 D1).
        assert (Lr : (length r <= n)%nat) by (cbn in L; lia).
        rewrite (IH r Lr bs' X). cbn [emit]. unfold quad_bytes. cbv zeta. cbn [app].
        set (va := b64_value a) in *. set (vb := b64_value b) in *. set (vc := b64_value c) in *. set (vd := b64_value d) in *.
        f_equal. f_equal; [nlia|]. f_equal; [nlia|]. f_equal. nlia.
Qed.

(* every form of the XSD base64Binary lexical space is read by b64decode with the XSD value *)
Lemma b64decode_xsd : forall l bs, xsd_b64 l = Some bs -> b64decode l = Some bs.
Proof.
  intros l bs H. unfold xsd_b64 in H. destruct (b64_spacing_ok l) eqn:S; [|discriminate].
  unfold b64_spacing_ok in S. apply andb_true_iff in S. destruct S as [_ C].
  unfold b64decode.
  assert (A : forallb (fun c => c <? 128) l = true).
  { apply (forallb_weaken (fun c => is_b64 c || (c =? 61) || (c =? 32)) _ l); [|exact C].
    intros c Hc. apply N.ltb_lt. apply orb_true_iff in Hc. destruct Hc as [Hc|Hc].
    - apply orb_true_iff in Hc. destruct Hc as [Hc|Hc]; [apply is_b64_facts in Hc; tauto|apply N.eqb_eq in Hc; lia].
    - apply N.eqb_eq in Hc. lia. }
  rewrite A, a2b_filter. apply (a2b_xsd_quads _ _ (le_n _)). exact H.
Qed.

(* whatever the decoder returns is a byte string *)
Lemma a2b_bytes : forall l qp left p bs,
  (qp = 1 -> left < 64) -> (qp = 2 -> left < 16) -> (qp = 3 -> left < 4) -> qp < 4 ->
  a2b l qp left p = Some bs -> is_bytes bs = true.
Proof.
  induction l as [|c r IH]; intros qp left p bs I1 I2 I3 Q H.
  - cbn in H. destruct (qp =? 0); inversion H. reflexivity.
  - cbn [a2b] in H. destruct (c =? 61).
    + destruct (2 <=? qp).
      * destruct (4 <=? qp + (p + 1)); [inversion H; reflexivity|]. apply (IH _ _ _ _ I1 I2 I3 Q H).
      * apply (IH _ _ _ _ I1 I2 I3 Q H).
    + destruct (b64val c) as [v|] eqn:V; [|apply (IH _ _ _ _ I1 I2 I3 Q H)].
      assert (Hv : v < 64) by (revert V; unfold b64val; ncmp; intro W; inversion W; nlia).
      destruct (N.eqb_spec qp 0) as [E0|N0].
      { apply (IH 1 v 0 bs (fun _ => Hv)); [intro; discriminate|intro; discriminate|lia|exact H]. }
      destruct (N.eqb_spec qp 1) as [E1|N1].
      { destruct (a2b r 2 (v mod 16) 0) as [bs'|] eqn:R; [|discriminate]. cbn [emit] in H.
        assert (E : bs = (left * 4 + v / 16) :: bs') by congruence. rewrite E.
        apply is_bytes_cons. split; [specialize (I1 E1); nlia|].
        apply (IH 2 (v mod 16) 0 bs'); [intro; discriminate|intros _; nlia|intro; discriminate|lia|exact R]. }
      destruct (N.eqb_spec qp 2) as [E2|N2].
      { destruct (a2b r 3 (v mod 4) 0) as [bs'|] eqn:R; [|discriminate]. cbn [emit] in H.
        assert (E : bs = (left * 16 + v / 4) :: bs') by congruence. rewrite E.
        apply is_bytes_cons. split; [specialize (I2 E2); nlia|].
        apply (IH 3 (v mod 4) 0 bs'); [intro; discriminate|intro; discriminate|intros _; nlia|lia|exact R]. }
      destruct (a2b r 0 0 0) as [bs'|] eqn:R; [|discriminate]. cbn [emit] in H.
      assert (E : bs = (left * 64 + v) :: bs') by congruence. rewrite E.
      assert (Q3 : qp = 3) by lia.
      apply is_bytes_cons. split; [specialize (I3 Q3); nlia|].
      apply (IH 0 0 0 bs'); [intro; discriminate|intro; discriminate|intro; discriminate|lia|exact R].
Qed.

Lemma b64decode_bytes : forall l bs, b64decode l = Some bs -> is_bytes bs = true.
Proof.
  intros l bs H. unfold b64decode in H. destruct (forallb (fun c => c <? 128) l); [|discriminate].
  apply (a2b_bytes l 0 0 0 bs); try (intro; discriminate); [lia|exact H].
Qed.

(* ------------------------------------------------------------------ *)
(* the pipeline, both datatypes at once *)

Definition bdec (d : bdt) (l : str) : option bytes := match d with BHex => unhex l | BB64 => b64decode l end.
Definition benc (d : bdt) (bs : bytes) : str := match d with BHex => hexlify bs | BB64 => b64encode bs end.

(* rows of the reflected tables: converter, by-value checker, lexicaliser *)
Lemma brows : forall d,
  brow_of d = Some (match d with BHex => CvHex | BB64 => CvB64 end, CkByValue, false)
  /\ blex_of d = match d with BHex => 1 | BB64 => 2 end.
Proof. destruct d; split; vm_compute; reflexivity. Qed.

Lemma bdecode_eq : forall d l, bdecode d l = bdec d l.
Proof. intros d l. unfold bdecode. rewrite (proj1 (brows d)). destruct d; reflexivity. Qed.

Lemma bencode_eq : forall d bs, bencode d bs = Some (benc d bs).
Proof. intros d bs. unfold bencode. rewrite (proj2 (brows d)). destruct d; reflexivity. Qed.

(* the three laws of the codec *)
Lemma law_valid : forall d l bs, xsd_bvalue d l = Some bs -> bdec d l = Some bs.
Proof. destruct d; intros l bs H; [apply unhex_xsd|apply b64decode_xsd]; exact H. Qed.

Lemma law_roundtrip : forall d bs, is_bytes bs = true -> bdec d (benc d bs) = Some bs /\ xsd_bvalue d (benc d bs) = Some bs.
Proof. destruct d; intros bs H; [apply unhex_hexlify|apply b64_encode_roundtrip]; exact H. Qed.

Lemma law_bytes : forall d l bs, bdec d l = Some bs -> is_bytes bs = true.
Proof. destruct d; intros l bs H; [apply (unhex_bytes l)|apply (b64decode_bytes l)]; exact H. Qed.

Lemma bconstruct_eq : forall d l norm, bconstruct d l norm =
  {| b_lex := match bdec d l with Some bs => if norm then benc d bs else l | None => l end;
     b_ill := Some (match bdec d l with Some _ => false | None => true end);
     b_val := bdec d l |}.
Proof.
  intros d l norm. unfold bconstruct. rewrite bdecode_eq, (proj1 (brows d)).
  destruct (bdec d l) as [bs|]; [rewrite bencode_eq|]; reflexivity.
Qed.

Lemma bconstruct_some : forall d l norm bs, bdec d l = Some bs ->
  bconstruct d l norm = {| b_lex := if norm then benc d bs else l; b_ill := Some false; b_val := Some bs |}.
Proof. intros d l norm bs H. rewrite bconstruct_eq, H. reflexivity. Qed.

Lemma bconstruct_none : forall d l norm, bdec d l = None ->
  bconstruct d l norm = {| b_lex := l; b_ill := Some true; b_val := None |}.
Proof. intros d l norm H. rewrite bconstruct_eq, H. reflexivity. Qed.

(* re-reading the encoder's output *)
Lemma bconstruct_enc : forall d bs norm, is_bytes bs = true ->
  bconstruct d (benc d bs) norm = {| b_lex := benc d bs; b_ill := Some false; b_val := Some bs |}.
Proof.
  intros d bs norm H. rewrite (bconstruct_some d _ norm bs (proj1 (law_roundtrip d bs H))). destruct norm; reflexivity.
Qed.

Lemma bnormalize_some : forall d x bs, b_val x = Some bs -> is_bytes bs = true ->
  bnormalize d x = {| b_lex := benc d bs; b_ill := Some false; b_val := Some bs |}.
Proof. intros d x bs V H. unfold bnormalize. rewrite V, bencode_eq. apply bconstruct_enc. exact H. Qed.

Lemma bytes_eqb_refl : forall b, bytes_eqb b b = true.
Proof. intro b. apply str_eqb_refl. Qed.

Lemma bdt_eqb_refl : forall d, bdt_eqb d d = true.
Proof. destruct d; reflexivity. Qed.

Lemma bdt_eqb_eq : forall a b, bdt_eqb a b = true -> a = b.
Proof. destruct a, b; intro H; try reflexivity; discriminate. Qed.

(* the stored value is what the decoder reads from the stored form *)
Lemma bstored : forall d l norm, b_val (bconstruct d l norm) = bdec d (b_lex (bconstruct d l norm)).
Proof.
  intros d l norm. rewrite bconstruct_eq. cbn [b_val b_lex]. destruct (bdec d l) as [bs|] eqn:E; [|rewrite E; reflexivity].
  destruct norm; [|rewrite E; reflexivity]. symmetry. apply law_roundtrip. apply (law_bytes d l). exact E.
Qed.

Lemma beq_same_form : forall d a b, str_eqb (b_lex a) (b_lex b) = true -> b_val a = b_val b -> beq_m d a d b = ETrue.
Proof.
  intros d a b L V. unfold beq_m. rewrite bdt_eqb_refl, <- V, L. cbn [negb].
  destruct (b_val a); [rewrite bytes_eqb_refl|]; reflexivity.
Qed.

(* a valid form through the pipeline *)
Definition bin_faithful (d : bdt) : Prop :=
  (* value -> form -> value, for every byte string; the form is in the lexical space *)
  (forall bs, is_bytes bs = true -> bdec d (benc d bs) = Some bs /\ xsd_bvalue d (benc d bs) = Some bs)
  (* every valid form is accepted with the XSD value, not flagged; normalisation gives the encoder's form,
     which is valid with the same value; normalize() and re-reading are fixpoints there *)
  /\ (forall l bs norm, xsd_bvalue d l = Some bs ->
        is_bytes bs = true
        /\ bconstruct d l norm = {| b_lex := if norm then benc d bs else l; b_ill := Some false; b_val := Some bs |}
        /\ bnormalize d (bconstruct d l norm) = {| b_lex := benc d bs; b_ill := Some false; b_val := Some bs |}
        /\ bconstruct d (benc d bs) true = {| b_lex := benc d bs; b_ill := Some false; b_val := Some bs |})
  (* for every form whatsoever: normalize() twice = once, construction-time normalisation is idempotent *)
  /\ (forall l norm, bnormalize d (bnormalize d (bconstruct d l norm)) = bnormalize d (bconstruct d l norm))
  /\ (forall l, b_lex (bconstruct d (b_lex (bconstruct d l true)) true) = b_lex (bconstruct d l true)).

Lemma bnormalize_idem : forall d l norm,
  bnormalize d (bnormalize d (bconstruct d l norm)) = bnormalize d (bconstruct d l norm).
Proof.
  intros d l norm. destruct (bdec d l) as [bs|] eqn:E.
  - pose proof (law_bytes d l bs E) as B.
    rewrite (bnormalize_some d (bconstruct d l norm) bs); [|rewrite bconstruct_eq; exact E|exact B].
    apply bnormalize_some; [reflexivity|exact B].
  - rewrite (bconstruct_none d l norm E). reflexivity.
Qed.

Lemma bconstruct_idem : forall d l,
  b_lex (bconstruct d (b_lex (bconstruct d l true)) true) = b_lex (bconstruct d l true).
Proof.
  intros d l. destruct (bdec d l) as [bs|] eqn:E.
  - rewrite (bconstruct_some d l true bs E). cbn [b_lex]. rewrite (bconstruct_enc d bs true (law_bytes d l bs E)). reflexivity.
  - rewrite (bconstruct_none d l true E). cbn [b_lex]. rewrite (bconstruct_none d l true E). reflexivity.
Qed.

Lemma bin_faithful_all : forall d, bin_faithful d.
Proof.
  intro d. split; [apply law_roundtrip|]. split; [|split; [apply bnormalize_idem|apply bconstruct_idem]].
  intros l bs norm V. pose proof (law_valid d l bs V) as D. pose proof (law_bytes d l bs D) as B.
  split; [exact B|]. split; [apply bconstruct_some; exact D|]. split.
  - apply bnormalize_some; [rewrite bconstruct_eq; exact D|exact B].
  - apply bconstruct_enc. exact B.
Qed.

(* the tie *)
Lemma bspec_ok_model : forall c, bspec_ok c (bmodel_obs c) = true.
Proof.
  intros [d l norm|d1 l1 n1 d2 l2 n2]; cbn [bmodel_obs bspec_ok].
  - rewrite (bnormalize_idem d l norm), str_eqb_refl.
    assert (R1 : forall v : option bytes, opt_eqb bytes_eqb v v = true) by (destruct v; [apply bytes_eqb_refl|reflexivity]).
    rewrite R1.
    assert (E : beq_m d (bconstruct d l norm) d (bnormalize d (bconstruct d l norm)) = ETrue).
    { destruct (bdec d l) as [bs|] eqn:D.
      - rewrite (bnormalize_some d _ bs); [|rewrite bconstruct_eq; exact D|apply (law_bytes d l); exact D].
        rewrite (bconstruct_some d l norm bs D). unfold beq_m. rewrite bdt_eqb_refl. cbn [negb b_val]. rewrite bytes_eqb_refl. reflexivity.
      - rewrite (bconstruct_none d l norm D). unfold bnormalize, beq_m. cbn [b_val b_lex]. rewrite bdt_eqb_refl, str_eqb_refl. reflexivity. }
    rewrite E. cbn [eqres_eqb]. assert (IT : forall b, implb' b true = true) by (destruct b; reflexivity). rewrite IT.
    assert (C3 : implb' norm (str_eqb (b_lex (bconstruct d (b_lex (bconstruct d l norm)) true)) (b_lex (bconstruct d l norm))) = true).
    { destruct norm; [|reflexivity]. cbn [implb']. rewrite bconstruct_idem. apply str_eqb_refl. }
    rewrite C3, !andb_true_r.
    destruct (xsd_bvalue d l) as [bs|] eqn:V; [|reflexivity].
    destruct (bin_faithful_all d) as (RT & F & _ & _). destruct (F l bs norm V) as (B & X & N1 & RE).
    unfold bvalid_ok. rewrite N1, X. cbn [b_lex b_val b_ill].
    assert (V' : xsd_bvalue d (if norm then benc d bs else l) = Some bs) by (destruct norm; [apply RT; exact B|exact V]).
    rewrite (bconstruct_some d _ true bs (law_valid d _ bs V')). cbn [b_lex b_val b_ill].
    unfold blex_is, bval_is. rewrite V', (proj2 (RT bs B)), bytes_eqb_refl. cbn [opt_eqb Bool.eqb andb eqres_eqb].
    destruct norm; cbn [orb]; [reflexivity|rewrite str_eqb_refl; reflexivity].
  - apply andb_true_iff. split.
    + destruct (bterm_eq d1 (bconstruct d1 l1 n1) d2 (bconstruct d2 l2 n2)) eqn:T; [|reflexivity].
      unfold bterm_eq in T. apply andb_true_iff in T. destruct T as [Td Tl]. apply bdt_eqb_eq in Td. subst d2.
      cbn [implb']. rewrite beq_same_form; [reflexivity|exact Tl|].
      rewrite !bstored. apply str_eqb_eq in Tl. rewrite Tl. reflexivity.
    + destruct (xsd_bvalue d1 l1) as [x1|] eqn:V1; [|reflexivity].
      destruct (xsd_bvalue d2 l2) as [x2|] eqn:V2; [|reflexivity].
      destruct (bdt_eqb d1 d2) eqn:Ed; [|reflexivity]. apply bdt_eqb_eq in Ed as Ed'. subst d2.
      rewrite (bconstruct_some d1 l1 n1 x1 (law_valid _ _ _ V1)), (bconstruct_some d1 l2 n2 x2 (law_valid _ _ _ V2)).
      unfold beq_m. rewrite bdt_eqb_refl. cbn [negb b_val]. destruct (bytes_eqb x1 x2); reflexivity.
Qed.
