(* C14 - the suite that replays the hypotheses of C14_skolem_roundtrip on the
   real urljoin / urlparse / BNode.skolemize / URIRef.de_skolemize, for concrete
   blank-node ids, and the round trip of a graph built from them.
   Definitions and the small tie theorem. *)
From RV Require Import Iso.Model Iso.Skolem.

Definition str_eqb : str -> str -> bool := list_eqb N.eqb.

(* characters urljoin/urlparse leave alone inside the last path segment:
   no '/', '?', '#', ';', no space or control character *)
Definition safe_char (c : N) : bool :=
  N.ltb 32 c && negb (N.eqb c 47) && negb (N.eqb c 63) && negb (N.eqb c 35)
  && negb (N.eqb c 59) && negb (N.eqb c 127).
(* ... and the id is not a dot segment *)
Definition safe (i : str) : bool :=
  forallb safe_char i && negb (str_eqb i [46%N]) && negb (str_eqb i [46%N; 46%N]).

Record id_obs := {
  io_join : str;      (* str(BNode(i).skolemize()) = urljoin(authority, rgenid + i) *)
  io_path : str;      (* urlparse(that).path *)
  io_clean : bool;    (* params = query = fragment = "" *)
  io_isrd : bool;     (* RDFLibGenid._is_rdflib_skolem(that) *)
  io_back : str       (* str(RDFLibGenid(that).de_skolemize()) *)
}.

Record skcase := { k_ids : list str; k_iris : list str }.
Record skobs := {
  ko_ids : list id_obs;
  ko_iris : list (bool * bool);   (* per IRI: _is_rdflib_skolem, _is_external_skolem *)
  ko_round : bool;                (* g.skolemize().de_skolemize() has exactly the triples of g *)
  ko_big : bool                   (* a chain of 5000 blank nodes through the EXTERNAL branch (basepath
                                     /.well-known/genid/) comes back as a chain of 5000 nodes: the memo of
                                     external skolem IRIs is a function for the whole process *)
}.

Definition expect (i : str) : id_obs :=
  {| io_join := authority ++ rgenid ++ i; io_path := rgenid ++ i; io_clean := true;
     io_isrd := true; io_back := i |}.

Definition sk_model_obs (c : skcase) : skobs :=
  {| ko_ids := map expect (k_ids c); ko_iris := map (fun _ => (false, false)) (k_iris c);
     ko_round := true; ko_big := true |}.

Definition id_obs_eqb (a b : id_obs) : bool :=
  str_eqb (io_join a) (io_join b) && str_eqb (io_path a) (io_path b)
  && Bool.eqb (io_clean a) (io_clean b) && Bool.eqb (io_isrd a) (io_isrd b)
  && str_eqb (io_back a) (io_back b).

Definition sk_obs_eqb (a b : skobs) : bool :=
  list_eqb id_obs_eqb (ko_ids a) (ko_ids b)
  && list_eqb (pair_eqb Bool.eqb Bool.eqb) (ko_iris a) (ko_iris b)
  && Bool.eqb (ko_round a) (ko_round b) && Bool.eqb (ko_big a) (ko_big b).

(* in scope (safe ids, no IRI that already looks like a skolem IRI): the
   hypotheses hold for every id and the round trip is the identity *)
Definition sk_spec_ok (c : skcase) (o : skobs) : bool :=
  ko_big o &&
  if forallb safe (k_ids c) && forallb (fun f => negb (fst f) && negb (snd f)) (ko_iris o)
  then list_eqb id_obs_eqb (ko_ids o) (map expect (k_ids c)) && ko_round o
  else true.

Lemma str_eqb_spec : forall a b, reflect (a = b) (str_eqb a b).
Proof. apply list_eqb_spec, N.eqb_spec. Qed.

Lemma id_obs_eqb_refl a : id_obs_eqb a a = true.
Proof.
  unfold id_obs_eqb. rewrite !eqb_reflx.
  destruct (str_eqb_spec (io_join a) (io_join a)), (str_eqb_spec (io_path a) (io_path a)),
    (str_eqb_spec (io_back a) (io_back a)); simpl; congruence.
Qed.

Lemma list_id_obs_eqb_refl l : list_eqb id_obs_eqb l l = true.
Proof. induction l as [|a l IH]; simpl; auto. now rewrite id_obs_eqb_refl. Qed.

Theorem sk_spec_ok_model c : sk_spec_ok c (sk_model_obs c) = true.
Proof.
  unfold sk_spec_ok, sk_model_obs. cbn [ko_ids ko_iris ko_round ko_big andb].
  destruct (forallb safe (k_ids c) && _); auto.
  now rewrite list_id_obs_eqb_refl.
Qed.

(* the concrete [safe] implies the no-'/' side condition of the round-trip theorem *)
Theorem safe_no47 i : safe i = true -> no47 i = true.
Proof.
  unfold safe, no47. rewrite !andb_true_iff, !forallb_forall. intros [[H _] _] c Hc.
  specialize (H c Hc). unfold safe_char in H. rewrite !andb_true_iff in H. tauto.
Qed.

(* reading of an accepted in-scope observation: the three urllib facts assumed
   by C14_skolem_roundtrip were observed for every id of the case *)
Theorem sk_spec_reading c o :
  sk_spec_ok c o = true -> forallb safe (k_ids c) = true ->
  forallb (fun f => negb (fst f) && negb (snd f)) (ko_iris o) = true ->
  list_eqb id_obs_eqb (ko_ids o) (map expect (k_ids c)) = true /\ ko_round o = true.
Proof.
  unfold sk_spec_ok. intros H H1 H2. apply andb_true_iff in H. destruct H as [_ H].
  rewrite H1, H2 in H. simpl in H. now apply andb_true_iff in H.
Qed.
