(* C14 - proofs about the canonicaliser model Iso/Canon.v.
   SOUNDNESS at full strength: whenever the model of compare.isomorphic answers
   True (any fuel, any pair of graphs, blank predicates included) the graphs are
   isomorphic - under the hash assumption MA3 (a sum of hashes determines the
   multiset of hashed strings) and injectivity of the rendering of a canonical
   triple.  The proof needs no property of the search: every colouring that
   reaches canonical_triples came out of _refine, whose final "hash collision"
   merge leaves pairwise different colour hashes, so the labels are one-to-one
   on the blank nodes that get one (a missing label is Python's KeyError). *)
From Coq Require Import Permutation.
From RV Require Import Iso.Model Iso.Proofs Iso.Canon.

Lemma str_cmp_eq a b : str_cmp a b = Eq <-> a = b.
Proof.
  revert b. induction a as [|x a IH]; intros [|y b]; simpl; try (split; congruence).
  destruct (N.compare x y) eqn:E.
  - apply N.compare_eq_iff in E. subst. rewrite IH. split; congruence.
  - split; [discriminate|]. intros [= -> _]. rewrite N.compare_refl in E. discriminate.
  - split; [discriminate|]. intros [= -> _]. rewrite N.compare_refl in E. discriminate.
Qed.

Lemma str_eqb_eq a b : str_eqb a b = true <-> a = b.
Proof.
  unfold str_eqb. rewrite <- str_cmp_eq. destruct (str_cmp a b); split; congruence.
Qed.

Section S.
  Variable hashfunc : str -> N.
  Variable n3 : term -> str.
  Variable hexs : N -> str.
  Variable decs : nat -> str.
  Variable tstr : ctriple -> str.

  Notation m_refine := (m_refine hashfunc n3 hexs decs).
  Notation m_traces := (m_traces hashfunc n3 hexs decs tstr).
  Notation m_experimental := (m_experimental hashfunc n3 hexs decs).
  Notation traces_step := (traces_step hashfunc n3 hexs decs).
  Notation final_coloring := (final_coloring hashfunc n3 hexs decs tstr).
  Notation m_canonical_triples := (m_canonical_triples hashfunc n3 hexs decs tstr).
  Notation m_to_hash := (m_to_hash hashfunc n3 hexs decs tstr).
  Notation m_isomorphic := (m_isomorphic hashfunc n3 hexs decs tstr).
  Notation m_iso_eq := (m_iso_eq hashfunc n3 hexs decs tstr).

  (* colours of a colouring have pairwise different hashes *)
  Definition distinct_hashes (cs : list color) : Prop := NoDup (map hash_color cs).

  Lemma merge_ins_hash_in c acc h :
    In h (map hash_color (merge_ins c acc)) -> In h (map hash_color acc) \/ h = hash_color c.
  Proof.
    induction acc as [|x r IH]; simpl.
    - intros [H|[]]; auto.
    - destruct (str_eqb (hash_color x) (hash_color c)) eqn:E; simpl.
      + intros [H|H]; auto.
      + intros [H|H]; auto. destruct (IH H); auto.
  Qed.

  Lemma merge_ins_distinct c acc : distinct_hashes acc -> distinct_hashes (merge_ins c acc).
  Proof.
    unfold distinct_hashes. induction acc as [|x r IH]; simpl; intros Hn.
    - repeat constructor. simpl. tauto.
    - inversion Hn as [|? ? Hx Hr]; subst.
      destruct (str_eqb (hash_color x) (hash_color c)) eqn:E; simpl.
      + constructor; auto.
      + constructor; [|auto]. intros H. destruct (merge_ins_hash_in _ _ _ H) as [H1|H1]; [tauto|].
        apply str_eqb_eq in H1. congruence.
  Qed.

  Lemma merge_colors_distinct cs : distinct_hashes (merge_colors cs).
  Proof.
    unfold merge_colors.
    assert (G : forall acc, distinct_hashes acc ->
                            distinct_hashes (fold_left (fun acc c => merge_ins c acc) cs acc)).
    { induction cs as [|c r IH]; simpl; intros acc H; auto. apply IH. now apply merge_ins_distinct. }
    apply G. constructor.
  Qed.

  Lemma refine_distinct g fuel cs sq r : m_refine g fuel cs sq = Some r -> distinct_hashes r.
  Proof.
    unfold Canon.m_refine. destruct (refine_loop _ _ _ _ _ _ _ _) ; [|discriminate].
    intros [= <-]. apply merge_colors_distinct.
  Qed.

  Lemma traces_step_best g fuel coloring st cand :
    Forall distinct_hashes (t_best st) ->
    Forall distinct_hashes (t_best (traces_step g fuel coloring st cand)).
  Proof.
    intros Hb. unfold Canon.traces_step.
    destruct (t_fail st); auto. destruct cand as [candidate ci].
    match goal with |- context [if ?c then _ else _] => destruct c end; [cbn [t_best]; auto|].
    destruct (individuate hashfunc n3 hexs decs coloring ci candidate) as [copy newc].
    destruct (Canon.m_refine hashfunc n3 hexs decs g fuel copy [newc]) as [refined|] eqn:Er;
      [|cbn [t_best]; auto].
    destruct (Canon.m_experimental hashfunc n3 hexs decs g fuel copy) as [experimental|];
      [|cbn [t_best]; auto].
    apply refine_distinct in Er.
    destruct (oscore_cmp (t_best_score st) (map (ckey) refined)) as [[| |]|]; cbn [t_best]; auto.
    match goal with |- context [if ?c then _ else _] => destruct c end; cbn [t_best]; auto.
    apply Forall_app. split; auto.
  Qed.

  Lemma traces_fold_best g fuel coloring cands : forall st,
    Forall distinct_hashes (t_best st) ->
    Forall distinct_hashes (t_best (fold_left (traces_step g fuel coloring) cands st)).
  Proof.
    induction cands as [|c r IH]; simpl; intros st H; auto.
    apply IH. now apply traces_step_best.
  Qed.

  Lemma min_cert_In g rest : forall cur cc d,
    min_cert tstr g cur cc rest = Some d -> d = cur \/ In d rest.
  Proof.
    induction rest as [|x r IH]; simpl; intros cur cc d.
    - intros [= <-]. auto.
    - destruct (cert_of tstr g x) as [c|]; [|discriminate].
      destruct (cert_cmp c cc); intros H; apply IH in H; destruct H; auto.
  Qed.

  Lemma pick_leaf_In g ds d : pick_leaf tstr g ds = Some d -> In d ds.
  Proof.
    destruct ds as [|x [|y r]]; [discriminate|intros [= <-]; simpl; auto|].
    unfold pick_leaf. destruct (cert_of tstr g x) as [c|]; [|discriminate].
    intros H. apply min_cert_In in H. destruct H as [->|H]; [left; reflexivity|right; exact H].
  Qed.

  Lemma all_some_In {A} (l : list (option A)) xs x :
    all_some l = Some xs -> In x xs -> In (Some x) l.
  Proof.
    revert xs. induction l as [|[a|] r IH]; simpl; intros xs.
    - intros [= <-] [].
    - destruct (all_some r) as [ys|]; [|discriminate]. intros [= <-] [->|H]; auto. right. eapply IH; eauto.
    - discriminate.
  Qed.

  Lemma traces_distinct g fuel : forall cs r,
    m_traces g fuel cs = Some r -> distinct_hashes r /\ m_discrete r = true.
  Proof.
    induction fuel as [|k IH]; intros cs r; [discriminate|]. cbn [Canon.m_traces].
    set (st := fold_left _ _ _).
    assert (Hb : Forall distinct_hashes (t_best st)).
    { apply traces_fold_best. constructor. }
    destruct (t_fail st); [discriminate|].
    destruct (filter m_discrete (t_best st)) as [|d ds] eqn:Ef.
    - destruct (all_some _) as [leaves|] eqn:Ea; [|discriminate].
      intros H. apply pick_leaf_In in H. apply (all_some_In _ _ _ Ea) in H.
      apply in_map_iff in H. destruct H as [b [Hb1 _]]. now apply IH in Hb1.
    - intros H. apply pick_leaf_In in H. rewrite <- Ef in H.
      apply filter_In in H. destruct H as [Hd1 Hd2]. split; auto.
      rewrite Forall_forall in Hb. auto.
  Qed.

  Lemma final_distinct g fuel cs : final_coloring g fuel = Some cs -> distinct_hashes cs.
  Proof.
    unfold Canon.final_coloring.
    destruct (Canon.m_refine _ _ _ _ _ _ _ _) as [r|] eqn:Er; [|discriminate].
    destruct (m_discrete r).
    - intros [= <-]. eapply refine_distinct; eauto.
    - intros H. now apply traces_distinct in H.
  Qed.

  (* ---- labels ---- *)
  Lemma label_get_In l k v : label_get l k = Some v -> In (k, v) l.
  Proof.
    induction l as [|[k' v'] r IH]; simpl; [discriminate|].
    destruct (label_get r k) as [w|].
    - intros [= <-]. right. now apply IH.
    - destruct (term_eqb_spec k k'); [|discriminate]. intros [= <-]. subst. auto.
  Qed.

  Lemma NoDup_snd_inj (l : list (term * str)) x y h :
    NoDup (map snd l) -> In (x, h) l -> In (y, h) l -> x = y.
  Proof.
    induction l as [|[a b] r IH]; simpl; [tauto|]. intros Hn Hx Hy.
    inversion Hn as [|? ? Ha Hr]; subst.
    destruct Hx as [Hx|Hx], Hy as [Hy|Hy]; try congruence; auto.
    - injection Hx as -> ->. exfalso. apply Ha. change h with (snd (y, h)). now apply in_map.
    - injection Hy as -> ->. exfalso. apply Ha. change h with (snd (x, h)). now apply in_map.
  Qed.

  Definition lab_of (l : list (term * str)) (n : N) : str :=
    match label_get l (Blank n) with Some h => h | None => [] end.
  Definition relab (lab : N -> str) (t : term) : cterm :=
    match t with Const n => CC n | Blank n => CB (cb ++ lab n) end.
  Definition relab_t (lab : N -> str) (t : triple) : ctriple :=
    let '(s, p, o) := t in (relab lab s, relab lab p, relab lab o).

  Lemma canon_term_spec l t c :
    canon_term l t = Some c ->
    c = relab (lab_of l) t /\ forall x, In x (blanks_tm t) -> label_get l (Blank x) <> None.
  Proof.
    destruct t as [n|n]; simpl.
    - intros [= <-]. split; [reflexivity|intros x []].
    - unfold lab_of. destruct (label_get l (Blank n)) eqn:E; [|discriminate].
      intros [= <-]. split; auto. intros x [<-|[]]. congruence.
  Qed.

  Lemma canon_all_spec l g cts :
    canon_all l g = Some cts ->
    cts = map (relab_t (lab_of l)) g /\ forall x, In x (blanks g) -> label_get l (Blank x) <> None.
  Proof.
    revert cts. induction g as [|[[s p] o] r IH]; simpl; intros cts.
    - intros [= <-]. split; [reflexivity|intros x []].
    - destruct (canon_term l s) as [a|] eqn:Ea; [|discriminate].
      destruct (canon_term l p) as [b|] eqn:Eb; [|discriminate].
      destruct (canon_term l o) as [c|] eqn:Ec; [|discriminate].
      destruct (canon_all l r) as [cr|]; [|discriminate]. intros [= <-].
      destruct (IH _ eq_refl) as [-> Hr].
      apply canon_term_spec in Ea, Eb, Ec. destruct Ea as [-> Ha], Eb as [-> Hb], Ec as [-> Hc].
      split; auto. intros x. unfold blanks. simpl. rewrite !in_app_iff.
      intros [[H|[H|H]]|H]; auto.
  Qed.

  Lemma labels_inj g cs :
    distinct_hashes cs ->
    (forall x, In x (blanks g) -> label_get (labels_of cs) (Blank x) <> None) ->
    forall x y, In x (blanks g) -> In y (blanks g) ->
                lab_of (labels_of cs) x = lab_of (labels_of cs) y -> x = y.
  Proof.
    intros Hd Hall x y Hx Hy. unfold lab_of.
    destruct (label_get (labels_of cs) (Blank x)) as [hx|] eqn:Ex; [|now apply Hall in Hx].
    destruct (label_get (labels_of cs) (Blank y)) as [hy|] eqn:Ey; [|now apply Hall in Hy].
    intros ->. apply label_get_In in Ex, Ey.
    assert (Hn : NoDup (map snd (labels_of cs))).
    { unfold labels_of. rewrite map_map. simpl. exact Hd. }
    pose proof (NoDup_snd_inj _ _ _ _ Hn Ex Ey) as E. congruence.
  Qed.

  (* what canonical_triples returns: the graph relabelled one-to-one *)
  Theorem canonical_triples_relabels g fuel cts :
    m_canonical_triples g fuel = Some cts ->
    exists lab : N -> str,
      (forall x y, In x (blanks g) -> In y (blanks g) -> lab x = lab y -> x = y)
      /\ cts = map (relab_t lab) g.
  Proof.
    unfold Canon.m_canonical_triples.
    destruct (Canon.final_coloring _ _ _ _ _ _ _) as [cs|] eqn:Ef; [|discriminate].
    intros H. apply canon_all_spec in H. destruct H as [-> Hall].
    exists (lab_of (labels_of cs)). split; auto.
    apply labels_inj; auto. eapply final_distinct; eauto.
  Qed.

  (* ---- equal canonical forms (labels in any type) give isomorphic graphs ---- *)
  Lemma relab_eq lab1 lab2 a b :
    relab lab1 a = relab lab2 b ->
    (exists n, a = Const n /\ b = Const n) \/ (exists x y, a = Blank x /\ b = Blank y /\ lab1 x = lab2 y).
  Proof.
    destruct a as [n|x], b as [m|y]; simpl; try discriminate.
    - intros [= ->]. left. eauto.
    - intros [= E]. right. eauto.
  Qed.

  Theorem canon_sound_gen g1 g2 (lab1 lab2 : N -> str) :
    (forall x y, In x (blanks g1) -> In y (blanks g1) -> lab1 x = lab1 y -> x = y) ->
    (forall x y, In x (blanks g2) -> In y (blanks g2) -> lab2 x = lab2 y -> x = y) ->
    (forall t, In t (map (relab_t lab1) g1) <-> In t (map (relab_t lab2) g2)) ->
    iso g1 g2.
  Proof.
    intros I1 I2 Hs.
    set (f := fun x => match find (fun y => str_eqb (lab2 y) (lab1 x)) (blanks g2) with
                       | Some y => y | None => 0%N end).
    assert (Ff : forall x y, In y (blanks g2) -> lab1 x = lab2 y -> f x = y).
    { intros x y Hy E. unfold f.
      destruct (find (fun y0 => str_eqb (lab2 y0) (lab1 x)) (blanks g2)) as [y'|] eqn:F.
      - apply find_some in F. destruct F as [F1 F2]. apply str_eqb_eq in F2. apply I2; auto. congruence.
      - exfalso. apply (find_none _ _ F) in Hy. rewrite E in Hy.
        assert (str_eqb (lab2 y) (lab2 y) = true) by now apply str_eqb_eq. congruence. }
    (* a triple of g1 and a triple of g2 with the same canonical form: f maps one onto the other *)
    assert (Tm : forall a b, relab lab1 a = relab lab2 b ->
                             (forall x, In x (blanks_tm b) -> In x (blanks g2)) -> rename f a = b).
    { intros a b E Hb. destruct (relab_eq _ _ _ _ E) as [[n [-> ->]]|[x [y [-> [-> E']]]]]; auto.
      simpl. f_equal. apply Ff; auto. apply Hb. simpl. auto. }
    assert (Tt : forall t u, In u g2 -> relab_t lab1 t = relab_t lab2 u -> rename_t f t = u).
    { intros [[s p] o] [[s' p'] o'] Hu E. simpl in E. injection E as E1 E2 E3.
      assert (B : forall x, In x (blanks_t (s', p', o')) -> In x (blanks g2)) by (intros; apply blanks_In; eauto).
      simpl in B. simpl.
      rewrite (Tm s s'), (Tm p p'), (Tm o o'); auto; intros x Hx; apply B; rewrite !in_app_iff; auto. }
    exists f. split.
    - (* injective on the blanks of g1 *)
      intros x y Hx Hy E.
      assert (W : forall z, In z (blanks g1) -> exists w, In w (blanks g2) /\ lab1 z = lab2 w).
      { intros z Hz. apply blanks_In in Hz. destruct Hz as [t [Ht Hz]].
        assert (Hc : In (relab_t lab1 t) (map (relab_t lab2) g2)) by (apply Hs; now apply in_map).
        apply in_map_iff in Hc. destruct Hc as [u [Eu Hu]].
        destruct t as [[s p] o], u as [[s' p'] o']. simpl in Eu. injection Eu as E1 E2 E3.
        assert (B : forall x, In x (blanks_t (s', p', o')) -> In x (blanks g2)) by (intros; apply blanks_In; eauto).
        simpl in B, Hz. rewrite !in_app_iff in Hz.
        assert (R : forall a b, relab lab2 b = relab lab1 a -> In z (blanks_tm a) ->
                                (forall x, In x (blanks_tm b) -> In x (blanks g2)) ->
                                exists w, In w (blanks g2) /\ lab1 z = lab2 w).
        { intros a b E0 Hza Hb. symmetry in E0.
          destruct (relab_eq _ _ _ _ E0) as [[n [-> ->]]|[x0 [y0 [-> [-> E']]]]]; [destruct Hza|].
          simpl in Hza. destruct Hza as [<-|[]]. exists y0. split; auto. apply Hb. simpl. auto. }
        destruct Hz as [Hz|[Hz|Hz]].
        - apply (R s s'); auto. intros x0 H0. apply B. rewrite !in_app_iff. auto.
        - apply (R p p'); auto. intros x0 H0. apply B. rewrite !in_app_iff. auto.
        - apply (R o o'); auto. intros x0 H0. apply B. rewrite !in_app_iff. auto. }
      destruct (W x Hx) as [wx [Hwx Ex]], (W y Hy) as [wy [Hwy Ey]].
      rewrite (Ff x wx), (Ff y wy) in E; auto. subst wy. apply I1; auto. congruence.
    - intros u. rewrite In_rename_g. split.
      + intros [t [Ht ->]].
        assert (Hc : In (relab_t lab1 t) (map (relab_t lab2) g2)) by (apply Hs; now apply in_map).
        apply in_map_iff in Hc. destruct Hc as [u [Eu Hu]]. symmetry in Eu.
        now rewrite (Tt t u Hu Eu).
      + intros Hu.
        assert (Hc : In (relab_t lab2 u) (map (relab_t lab1) g1)) by (apply Hs; now apply in_map).
        apply in_map_iff in Hc. destruct Hc as [t [Et Ht]]. exists t. split; auto.
        symmetry. now apply Tt.
  Qed.

  (* ---- soundness of compare.isomorphic / IsomorphicGraph.__eq__ ---- *)
  Definition sum_h (l : list str) : N := fold_right N.add 0%N (map hashfunc l).
  (* MA3: a sum of hashes determines the multiset of hashed strings *)
  Hypothesis MA3 : forall l1 l2 : list str, sum_h l1 = sum_h l2 -> Permutation l1 l2.
  Hypothesis tstr_inj : forall a b, tstr a = tstr b -> a = b.

  Theorem model_isomorphic_sound fuel g1 g2 :
    m_isomorphic fuel g1 g2 = Some true -> iso g1 g2.
  Proof.
    unfold Canon.m_isomorphic, Canon.m_to_hash.
    destruct (Canon.m_canonical_triples _ _ _ _ _ g1 fuel) as [c1|] eqn:E1; [|discriminate].
    destruct (Canon.m_canonical_triples _ _ _ _ _ g2 fuel) as [c2|] eqn:E2; [|discriminate].
    intros [= H]. apply N.eqb_eq in H.
    assert (Hp : Permutation (map tstr c1) (map tstr c2)).
    { apply MA3. unfold sum_h. now rewrite !map_map. }
    destruct (canonical_triples_relabels _ _ _ E1) as [lab1 [I1 ->]].
    destruct (canonical_triples_relabels _ _ _ E2) as [lab2 [I2 ->]].
    apply (canon_sound_gen g1 g2 lab1 lab2 I1 I2).
    assert (Q : forall (a b : list ctriple), Permutation (map tstr a) (map tstr b) -> forall t, In t a -> In t b).
    { intros a b P t Ht. assert (Hi : In (tstr t) (map tstr b)).
      { eapply Permutation_in; [exact P|]. now apply in_map. }
      apply in_map_iff in Hi. destruct Hi as [t' [Et Ht']]. apply tstr_inj in Et. now subst. }
    intros t. split; apply Q; auto. now apply Permutation_sym.
  Qed.

  Theorem model_iso_eq_sound fuel g1 g2 : m_iso_eq fuel g1 g2 = Some true -> iso g1 g2.
  Proof.
    unfold Canon.m_iso_eq. destruct (negb _); [discriminate|]. apply model_isomorphic_sound.
  Qed.
End S.
