(* C14 - renderings shared by the executable instances of the canonicaliser
   model (n3(), "%x", str(int), canonical triple strings) and a hash instance in
   plain N arithmetic.  The N hash is closed under the global context but slow
   (a cube takes 90 s); the suites use the primitive-integer twin in
   Iso/CanonRun.v.  Definitions only. *)
From RV Require Import Iso.Model Iso.Canon.

(* an FNV-style hash with xor-shift mixing modulo 2^63, in plain N arithmetic
   (the twin on primitive 63-bit integers is in Iso/CanonRun.v).  It must not be linear: a plain polynomial hash makes the SUM over
   the triples "A p B", "B p C" equal to the sum over "B p B", "A p C" - exactly
   the kind of collision assumption MA3 excludes for SHA-256. *)
Definition M63 : N := 9223372036854775807%N.
Definition hfN_step (acc c : N) : N :=
  let x := N.land (N.lxor acc (c + 1) * 1099511628211) M63 in
  let y := N.lxor x (N.shiftr x 29) in
  N.lxor (N.land (y * 6364136223846793005) M63) (N.shiftr y 32).
Definition hfN (s : str) : N :=
  let h := fold_left hfN_step s 1469598103934665603%N in
  let z := N.land (N.lxor h (N.shiftr h 31) * 7046029254386353131) M63 in
  N.lxor z (N.shiftr z 27).

Fixpoint digits (base : N) (fuel : nat) (n : N) (acc : str) : str :=
  match fuel with
  | O => acc
  | S k => let d := (n mod base)%N in
           let c := (if N.ltb d 10 then 48 + d else 87 + d)%N in
           if N.eqb (n / base) 0 then c :: acc else digits base k (n / base)%N (c :: acc)
  end.
Definition hexs_i (n : N) : str := digits 16 48 n [].
Definition decN (n : N) : str := digits 10 48 n [].
Definition decs_i (n : nat) : str := decN (N.of_nat n).
Definition n3_i (t : term) : str :=
  match t with
  | Const n => [60%N] ++ decN n ++ [62%N]           (* <n> *)
  | Blank n => [95%N; 58%N; 110%N] ++ decN n        (* _:n<label> *)
  end.
Definition ct_i (t : cterm) : str :=
  match t with CC n => n3_i (Const n) | CB h => [95%N; 58%N] ++ h end.
Definition tstr_i (t : ctriple) : str :=
  let '(a, b, c) := t in ct_i a ++ [32%N] ++ ct_i b ++ [32%N] ++ ct_i c.

Definition FUEL : nat := 48.
Definition isoN_i (g1 g2 : graph) : option bool :=
  m_isomorphic hfN n3_i hexs_i decs_i tstr_i FUEL g1 g2.
