(* C14 - histories on live IsomorphicGraph objects: equality of to_isomorphic
   graphs must track the CURRENT contents.  A case is a list of graphs (one
   IsomorphicGraph object each, built by to_isomorphic) and a list of operations:
   in-place add / remove of a triple on object i, and comparisons
   objs[i] == objs[j] / objs[i] != objs[j].  Every comparison is judged by the
   verified [iso_dec] on the set contents the history prescribes at that moment. *)
From RV Require Import Iso.Model Iso.Proofs.

Inductive hop :=
| HAdd (i : N) (t : triple)
| HRem (i : N) (t : triple)
| HCmp (i j : N).

Record hcase := { h_graphs : list graph; h_ops : list hop }.
Definition hobs := list (bool * bool).       (* per comparison: (==, !=) *)

Definition g_add (t : triple) (g : graph) : graph := sadd triple_eqb t g.
Definition g_rem (t : triple) (g : graph) : graph := srem triple_eqb t g.

Fixpoint upd (i : nat) (f : graph -> graph) (gs : list graph) : list graph :=
  match gs, i with
  | [], _ => []
  | g :: r, O => f g :: r
  | g :: r, S k => g :: upd k f r
  end.

Definition get (i : N) (gs : list graph) : graph := nth (N.to_nat i) gs [].

(* the set contents after an operation (comparisons change nothing) *)
Definition h_step (gs : list graph) (o : hop) : list graph :=
  match o with
  | HAdd i t => upd (N.to_nat i) (g_add t) gs
  | HRem i t => upd (N.to_nat i) (g_rem t) gs
  | HCmp _ _ => gs
  end.

(* the verdicts the property prescribes: isomorphism of the contents at that moment *)
Fixpoint h_expected (gs : list graph) (ops : list hop) : hobs :=
  match ops with
  | [] => []
  | HCmp i j :: r => let b := iso_dec (get i gs) (get j gs) in (b, negb b) :: h_expected gs r
  | o :: r => h_expected (h_step gs o) r
  end.

Definition h_model_obs (c : hcase) : hobs := h_expected (map (dedup triple_eqb) (h_graphs c)) (h_ops c).

Definition hobs_eqb : hobs -> hobs -> bool := list_eqb (pair_eqb Bool.eqb Bool.eqb).

Definition h_spec_ok (c : hcase) (o : hobs) : bool := hobs_eqb o (h_model_obs c).

(* ------------------------------------------------------------------ *)
Lemma bb_spec : forall a b : bool * bool, reflect (a = b) (pair_eqb Bool.eqb Bool.eqb a b).
Proof.
  apply pair_eqb_spec; intros x y; destruct x, y; simpl; constructor; congruence.
Qed.

Lemma hobs_eqb_spec a b : hobs_eqb a b = true <-> a = b.
Proof. unfold hobs_eqb. destruct (list_eqb_spec _ bb_spec a b); split; congruence. Qed.

Theorem h_spec_ok_model c : h_spec_ok c (h_model_obs c) = true.
Proof. apply hobs_eqb_spec. reflexivity. Qed.

(* contents: add / remove act on the set as Graph.add / Graph.remove prescribe *)
Lemma g_add_In t u g : In u (g_add t g) <-> u = t \/ In u g.
Proof. apply sadd_In, triple_eqb_spec. Qed.
Lemma g_rem_In t u g : In u (g_rem t g) <-> In u g /\ u <> t.
Proof. apply srem_In, triple_eqb_spec. Qed.

(* reading: an accepted observation answers every comparison with "==" true
   exactly when the current contents are isomorphic, and "!=" with its negation *)
Inductive answers : list graph -> list hop -> hobs -> Prop :=
| A_nil gs : answers gs [] []
| A_cmp gs i j r e n o : (e = true <-> iso (get i gs) (get j gs)) -> n = negb e ->
                         answers gs r o -> answers gs (HCmp i j :: r) ((e, n) :: o)
| A_add gs i t r o : answers (h_step gs (HAdd i t)) r o -> answers gs (HAdd i t :: r) o
| A_rem gs i t r o : answers (h_step gs (HRem i t)) r o -> answers gs (HRem i t :: r) o.

Lemma expected_answers ops : forall gs, answers gs ops (h_expected gs ops).
Proof.
  induction ops as [|[i t|i t|i j] r IH]; intros gs; simpl.
  - constructor.
  - apply A_add, IH.
  - apply A_rem, IH.
  - constructor; auto. apply iso_dec_correct.
Qed.

Theorem h_spec_reading c o :
  h_spec_ok c o = true -> answers (map (dedup triple_eqb) (h_graphs c)) (h_ops c) o.
Proof. intros H. apply hobs_eqb_spec in H. subst. apply expected_answers. Qed.
