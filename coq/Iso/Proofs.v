(* C14 - proofs about Iso/Model.v: reflection of the equalities, iso is an
   equivalence, iso_dec decides iso (soundness and completeness of the
   backtracking search), set laws of the diff, the model satisfies the
   specification checker. *)
From RV Require Import Iso.Model.

(* ------------------------------------------------------------------ *)
(* equalities *)

Lemma term_eqb_spec : forall a b, reflect (a = b) (term_eqb a b).
Proof.
  intros [x|x] [y|y]; simpl; try (constructor; congruence);
    destruct (N.eqb_spec x y); constructor; congruence.
Qed.

Lemma triple_eqb_spec : forall a b, reflect (a = b) (triple_eqb a b).
Proof. apply pair_eqb_spec; [apply pair_eqb_spec|]; apply term_eqb_spec. Qed.

Lemma gmem_In t g : gmem t g = true <-> In t g.
Proof. apply memb_In, triple_eqb_spec. Qed.

Lemma gseteqb_spec g h : gseteqb g h = true <-> gseteq g h.
Proof. apply seteqb_spec, triple_eqb_spec. Qed.

Lemma Nmemb_In x l : memb N.eqb x l = true <-> In x l.
Proof. apply memb_In, N.eqb_spec. Qed.

(* ------------------------------------------------------------------ *)
(* renaming *)

Lemma rename_ext f g t :
  (forall x, In x (blanks_tm t) -> f x = g x) -> rename f t = rename g t.
Proof. destruct t; simpl; intros H; [reflexivity|]. rewrite H; auto. Qed.

Lemma rename_t_ext f g t :
  (forall x, In x (blanks_t t) -> f x = g x) -> rename_t f t = rename_t g t.
Proof.
  destruct t as [[s p] o]. simpl. intros H.
  rewrite (rename_ext f g s), (rename_ext f g p), (rename_ext f g o); auto;
    intros x Hx; apply H; rewrite !in_app_iff; auto.
Qed.

Lemma blanks_In x g : In x (blanks g) <-> exists t, In t g /\ In x (blanks_t t).
Proof. unfold blanks. rewrite in_flat_map. tauto. Qed.

Lemma rename_g_ext f g gr :
  (forall x, In x (blanks gr) -> f x = g x) -> rename_g f gr = rename_g g gr.
Proof.
  intros H. apply map_ext_in. intros t Ht. apply rename_t_ext.
  intros x Hx. apply H. apply blanks_In. eauto.
Qed.

Lemma rename_id t : rename (fun x => x) t = t.
Proof. destruct t; reflexivity. Qed.

Lemma rename_t_id t : rename_t (fun x => x) t = t.
Proof. destruct t as [[s p] o]. simpl. now rewrite !rename_id. Qed.

Lemma rename_g_id g : rename_g (fun x => x) g = g.
Proof. unfold rename_g. rewrite <- (map_id g) at 2. apply map_ext, rename_t_id. Qed.

Lemma rename_comp f g t : rename g (rename f t) = rename (fun x => g (f x)) t.
Proof. destruct t; reflexivity. Qed.

Lemma rename_t_comp f g t : rename_t g (rename_t f t) = rename_t (fun x => g (f x)) t.
Proof. destruct t as [[s p] o]. simpl. now rewrite !rename_comp. Qed.

Lemma blanks_tm_rename f t : blanks_tm (rename f t) = map f (blanks_tm t).
Proof. destruct t; reflexivity. Qed.

Lemma blanks_t_rename f t : blanks_t (rename_t f t) = map f (blanks_t t).
Proof. destruct t as [[s p] o]. simpl. now rewrite !map_app, !blanks_tm_rename. Qed.

Lemma In_rename_g f t g : In t (rename_g f g) <-> exists u, In u g /\ t = rename_t f u.
Proof. unfold rename_g. rewrite in_map_iff. split; intros [u [H1 H2]]; exists u; auto. Qed.

(* the blank nodes of the image are the images of the blank nodes *)
Lemma blanks_image f g1 g2 y :
  gseteq (rename_g f g1) g2 ->
  (In y (blanks g2) <-> exists x, In x (blanks g1) /\ y = f x).
Proof.
  intros Hs. rewrite blanks_In. split.
  - intros [t [Ht Hy]]. apply Hs in Ht. apply In_rename_g in Ht. destruct Ht as [u [Hu ->]].
    rewrite blanks_t_rename in Hy. apply in_map_iff in Hy. destruct Hy as [x [<- Hx]].
    exists x. split; auto. apply blanks_In. eauto.
  - intros [x [Hx ->]]. apply blanks_In in Hx. destruct Hx as [u [Hu Hx]].
    exists (rename_t f u). split.
    + apply Hs. apply In_rename_g. eauto.
    + rewrite blanks_t_rename. now apply in_map.
Qed.

(* ------------------------------------------------------------------ *)
(* iso is an equivalence, compatible with set equality *)

Lemma iso_refl g : iso g g.
Proof.
  exists (fun x => x). split; [intros x y _ _ H; exact H|].
  rewrite rename_g_id. intros t; tauto.
Qed.

Lemma iso_seteq_r g h h' : gseteq h h' -> iso g h -> iso g h'.
Proof.
  intros Hs [f [Hi Hf]]. exists f. split; auto.
  intros t. rewrite (Hf t). apply Hs.
Qed.

Lemma blanks_seteq g g' : gseteq g g' -> forall x, In x (blanks g) <-> In x (blanks g').
Proof.
  intros Hs x. rewrite !blanks_In. split; intros [t [Ht Hx]]; exists t; split; auto; apply Hs; auto.
Qed.

Lemma iso_seteq_l g g' h : gseteq g g' -> iso g h -> iso g' h.
Proof.
  intros Hs [f [Hi Hf]]. exists f. split.
  - intros x y Hx Hy. apply Hi; apply (blanks_seteq _ _ Hs); auto.
  - intros t. rewrite <- (Hf t). rewrite !In_rename_g.
    split; intros [u [Hu ->]]; exists u; split; auto; apply Hs; auto.
Qed.

Lemma iso_trans g1 g2 g3 : iso g1 g2 -> iso g2 g3 -> iso g1 g3.
Proof.
  intros [f [Hf1 Hf2]] [g [Hg1 Hg2]]. exists (fun x => g (f x)). split.
  - intros x y Hx Hy H. apply Hf1; auto. apply Hg1; auto;
      apply (blanks_image f g1 g2 _ Hf2); eauto.
  - intros t. rewrite <- (Hg2 t). rewrite !In_rename_g. split.
    + intros [u [Hu ->]]. exists (rename_t f u). split; [|now rewrite rename_t_comp].
      apply Hf2. apply In_rename_g. eauto.
    + intros [u [Hu ->]]. apply Hf2 in Hu. apply In_rename_g in Hu. destruct Hu as [v [Hv ->]].
      exists v. split; auto. now rewrite rename_t_comp.
Qed.

Definition inverse_on (f : N -> N) (l : list N) (y : N) : N :=
  match find (fun x => N.eqb (f x) y) l with Some x => x | None => 0%N end.

Lemma inverse_on_ok f l x : inj_on f l -> In x l -> inverse_on f l (f x) = x.
Proof.
  intros Hi Hx. unfold inverse_on.
  destruct (find (fun x0 => N.eqb (f x0) (f x)) l) as [x'|] eqn:E.
  - apply find_some in E. destruct E as [H1 H2]. apply N.eqb_eq in H2. apply Hi; auto.
  - exfalso. apply (find_none _ _ E) in Hx. now rewrite N.eqb_refl in Hx.
Qed.

Lemma iso_sym g1 g2 : iso g1 g2 -> iso g2 g1.
Proof.
  intros [f [Hi Hf]]. set (k := inverse_on f (blanks g1)).
  assert (Hk : forall t, In t g1 -> rename_t k (rename_t f t) = t).
  { intros t Ht. rewrite rename_t_comp. rewrite <- (rename_t_id t) at 2.
    apply rename_t_ext. intros x Hx. apply inverse_on_ok; auto. apply blanks_In; eauto. }
  exists k. split.
  - intros y1 y2 H1 H2 H.
    apply (blanks_image f g1 g2 _ Hf) in H1. apply (blanks_image f g1 g2 _ Hf) in H2.
    destruct H1 as [x1 [Hx1 ->]], H2 as [x2 [Hx2 ->]].
    unfold k in H. rewrite !inverse_on_ok in H; auto. now subst.
  - intros t. rewrite In_rename_g. split.
    + intros [u [Hu ->]]. apply Hf in Hu. apply In_rename_g in Hu. destruct Hu as [v [Hv ->]].
      now rewrite Hk.
    + intros Ht. exists (rename_t f t). split; [|now rewrite Hk].
      apply Hf. apply In_rename_g. eauto.
Qed.

(* an injective relabelling gives an isomorphic graph *)
Lemma iso_rename f g : inj_on f (blanks g) -> iso g (rename_g f g).
Proof. intros H. exists f. split; auto. intros t; tauto. Qed.

(* ------------------------------------------------------------------ *)
(* the search *)

Lemma try_each_existsb f l : try_each f l = existsb f l.
Proof. induction l as [|y r IH]; simpl; auto. rewrite IH. now destruct (f y). Qed.

Lemma all_of_forallb f l : all_of f l = forallb f l.
Proof. induction l as [|y r IH]; simpl; auto. rewrite IH. now destruct (f y). Qed.

Lemma NoDup_map_inj_on (f : N -> N) l : NoDup (map f l) -> inj_on f l.
Proof.
  induction l as [|a r IH]; simpl; intros Hn x y Hx Hy H; [destruct Hx|].
  inversion Hn as [|? ? Hna Hnr]; subst.
  destruct Hx as [->|Hx], Hy as [->|Hy]; auto.
  - exfalso. apply Hna. rewrite H. now apply in_map.
  - exfalso. apply Hna. rewrite <- H. now apply in_map.
  - apply IH; auto.
Qed.

Lemma inj_on_NoDup_map (f : N -> N) l : NoDup l -> inj_on f l -> NoDup (map f l).
Proof.
  induction l as [|a r IH]; simpl; intros Hn Hi; [constructor|].
  inversion Hn as [|? ? Hna Hnr]; subst. constructor.
  - intros H. apply in_map_iff in H. destruct H as [x [Hx1 Hx2]].
    assert (x = a) by (apply Hi; simpl; auto). subst. tauto.
  - apply IH; auto. intros x y Hx Hy. apply Hi; simpl; auto.
Qed.

Lemma bset_In g x : In x (bset g) <-> In x (blanks g).
Proof. apply dedup_In, N.eqb_spec. Qed.

Lemma bset_NoDup g : NoDup (bset g).
Proof. apply dedup_NoDup, N.eqb_spec. Qed.

Lemma todo_of_In g x : In x (todo_of g) <-> In x (blanks g).
Proof.
  unfold todo_of. rewrite (dedup_In N.eqb N.eqb_spec), in_app_iff, filter_In, Nmemb_In, !bset_In. tauto.
Qed.

Lemma todo_of_NoDup g : NoDup (todo_of g).
Proof. apply dedup_NoDup, N.eqb_spec. Qed.

Section Search.
  Variables g1 g2 : graph.

  Lemma final_ok_iso m : final_ok g1 g2 (bset g1) m = true -> iso g1 g2.
  Proof.
    unfold final_ok. rewrite andb_true_iff, gseteqb_spec, (nodupb_spec N.eqb N.eqb_spec).
    intros [Hs Hn]. exists (app_m m). split; auto.
    intros x y Hx Hy. apply (NoDup_map_inj_on _ _ Hn); now apply bset_In.
  Qed.

  Lemma search_sound todo : forall m avail,
    search g1 g2 (bset g1) todo m avail = true -> iso g1 g2.
  Proof.
    induction todo as [|x r IH]; simpl; intros m avail H.
    - eapply final_ok_iso; eauto.
    - rewrite try_each_existsb in H. apply existsb_exists in H. destruct H as [y [_ Hy]].
      destruct (ok_partial g1 g2 x ((x, y) :: m)); [|discriminate]. eapply IH; eauto.
  Qed.

  Variable f : N -> N.
  Hypothesis f_inj : inj_on f (blanks g1).
  Hypothesis f_img : gseteq (rename_g f g1) g2.

  Definition agree (m : amap) : Prop := forall x y, lookup m x = Some y -> y = f x.

  Lemma assigned_agree m t :
    agree m -> assigned m t = true -> rename_t (app_m m) t = rename_t f t.
  Proof.
    intros Ha Has. apply rename_t_ext. intros x Hx.
    unfold assigned in Has. rewrite forallb_forall in Has. specialize (Has x Hx).
    unfold app_m. destruct (lookup m x) as [y|] eqn:E; [|discriminate]. now apply Ha.
  Qed.

  Lemma ok_partial_agree x m : agree m -> ok_partial g1 g2 x m = true.
  Proof.
    intros Ha. unfold ok_partial. rewrite all_of_forallb. apply forallb_forall. intros t Ht.
    destruct (memb N.eqb x (blanks_t t)); auto.
    destruct (assigned m t) eqn:E; auto.
    rewrite (assigned_agree m t Ha E). apply gmem_In. apply f_img. apply In_rename_g. eauto.
  Qed.

  Lemma search_complete todo : forall m avail,
    NoDup todo ->
    (forall x, In x todo -> In x (blanks g1)) ->
    (forall x, In x todo -> In (f x) avail) ->
    agree m ->
    (forall x, In x (blanks g1) -> In x todo \/ exists y, lookup m x = Some y) ->
    search g1 g2 (bset g1) todo m avail = true.
  Proof.
    induction todo as [|x r IH]; simpl; intros m avail Hnd Hsub Hav Hag Hcov.
    - assert (E : forall z, In z (blanks g1) -> app_m m z = f z).
      { intros z Hz. destruct (Hcov z Hz) as [[]|[y Hy]]. unfold app_m. rewrite Hy. now apply Hag. }
      unfold final_ok. apply andb_true_iff. split.
      + apply gseteqb_spec. rewrite (rename_g_ext (app_m m) f g1 E). exact f_img.
      + apply (nodupb_spec N.eqb N.eqb_spec).
        rewrite (map_ext_in (app_m m) f (bset g1)) by (intros z Hz; apply E; now apply bset_In).
        apply inj_on_NoDup_map; [apply bset_NoDup|].
        intros a b Ha Hb. apply f_inj; now apply bset_In.
    - inversion Hnd as [|? ? Hx Hr]; subst.
      rewrite try_each_existsb. apply existsb_exists. exists (f x). split; [apply Hav; auto|].
      assert (Hag' : agree ((x, f x) :: m)).
      { intros z y. simpl. destruct (N.eqb_spec z x); [intros [= <-]; now subst|apply Hag]. }
      rewrite (ok_partial_agree x _ Hag'). apply IH; auto.
      + intros z Hz. apply (srem_In N.eqb N.eqb_spec). split; [apply Hav; auto|].
        intros E. apply f_inj in E; auto. subst. tauto.
      + intros z Hz. destruct (Hcov z Hz) as [[E|H]|[y Hy]]; auto.
        * right. exists (f x). simpl. subst z. now rewrite N.eqb_refl.
        * right. simpl. destruct (N.eqb_spec z x); eauto.
  Qed.
End Search.

Theorem iso_dec_correct g1 g2 : iso_dec g1 g2 = true <-> iso g1 g2.
Proof.
  unfold iso_dec. split.
  - apply search_sound.
  - intros [f [Hi Hf]]. apply (search_complete g1 g2 f Hi Hf).
    + apply todo_of_NoDup.
    + intros x. apply todo_of_In.
    + intros x Hx. apply bset_In. apply (blanks_image f g1 g2 _ Hf). exists x. split; auto.
      now apply todo_of_In.
    + intros x y. discriminate.
    + intros x Hx. left. now apply todo_of_In.
Qed.

Lemma iso_dec_false g1 g2 : iso_dec g1 g2 = false <-> ~ iso g1 g2.
Proof. rewrite <- iso_dec_correct. destruct (iso_dec g1 g2); split; congruence. Qed.

Lemma iso_dec_refl g : iso_dec g g = true.
Proof. apply iso_dec_correct, iso_refl. Qed.

(* isomorphic duplicate-free graphs have the same number of triples *)
Lemma rename_t_inj_on f g t u :
  inj_on f (blanks g) -> In t g -> In u g -> rename_t f t = rename_t f u -> t = u.
Proof.
  intros Hi Ht Hu H.
  assert (R : forall a b, (forall x, In x (blanks_tm a) -> In x (blanks g)) ->
                          (forall x, In x (blanks_tm b) -> In x (blanks g)) ->
                          rename f a = rename f b -> a = b).
  { intros [a|a] [b|b] Ha Hb E; simpl in *; try congruence.
    injection E as E. f_equal. apply Hi; auto. }
  destruct t as [[s p] o], u as [[s' p'] o']. simpl in H. injection H as H1 H2 H3.
  assert (Bt : forall x, In x (blanks_t (s, p, o)) -> In x (blanks g)) by (intros; apply blanks_In; eauto).
  assert (Bu : forall x, In x (blanks_t (s', p', o')) -> In x (blanks g)) by (intros; apply blanks_In; eauto).
  simpl in Bt, Bu.
  f_equal; [f_equal|]; apply R; auto; intros x Hx;
    first [apply Bt; rewrite !in_app_iff; tauto | apply Bu; rewrite !in_app_iff; tauto].
Qed.

Lemma iso_length g1 g2 : NoDup g1 -> NoDup g2 -> iso g1 g2 -> length g1 = length g2.
Proof.
  intros H1 H2 [f [Hi Hf]].
  assert (Hn : NoDup (rename_g f g1)).
  { unfold rename_g. clear Hf H2. induction g1 as [|t r IH]; simpl; [constructor|].
    inversion H1 as [|? ? Ht Hr]; subst. constructor.
    - intros H. apply in_map_iff in H. destruct H as [u [Hu1 Hu2]].
      apply (rename_t_inj_on f (t :: r)) in Hu1; simpl; auto. now subst.
    - apply IH; auto. intros x y Hx Hy. apply Hi; unfold blanks in *; simpl; rewrite in_app_iff; auto. }
  rewrite <- (map_length (rename_t f) g1). fold (rename_g f g1).
  apply PeanoNat.Nat.le_antisymm; apply NoDup_incl_length; auto; intros t Ht; apply Hf; auto.
Qed.

(* ------------------------------------------------------------------ *)
(* set operators *)

Lemma g_inter_In t g h : In t (g_inter g h) <-> In t g /\ In t h.
Proof. apply sinter_In, triple_eqb_spec. Qed.
Lemma g_diff_In t g h : In t (g_diff g h) <-> In t g /\ ~ In t h.
Proof. apply sdiff_In, triple_eqb_spec. Qed.
Lemma g_union_In t g h : In t (g_union g h) <-> In t g \/ In t h.
Proof. apply sunion_In, triple_eqb_spec. Qed.

Lemma In_dec_t (t : triple) g : In t g \/ ~ In t g.
Proof. destruct (gmem t g) eqn:E; [left; now apply gmem_In|right; rewrite <- gmem_In; congruence]. Qed.

(* graph_diff on ANY two graphs (in particular the canonical ones): a partition *)
Lemma diff_partition cg1 cg2 :
  let both := g_inter cg1 cg2 in let first := g_diff cg1 cg2 in let second := g_diff cg2 cg1 in
  gseteq (g_union both first) cg1 /\ gseteq (g_union both second) cg2
  /\ g_inter first second = [] /\ g_inter both first = [] /\ g_inter both second = [].
Proof.
  cbv zeta. repeat split.
  - rewrite g_union_In, g_inter_In, g_diff_In. tauto.
  - rewrite g_union_In, g_inter_In, g_diff_In. destruct (In_dec_t x cg2); tauto.
  - rewrite g_union_In, g_inter_In, g_diff_In. tauto.
  - rewrite g_union_In, g_inter_In, g_diff_In. destruct (In_dec_t x cg1); tauto.
  - destruct (g_inter (g_diff cg1 cg2) (g_diff cg2 cg1)) as [|t r] eqn:E; auto.
    assert (H : In t (g_inter (g_diff cg1 cg2) (g_diff cg2 cg1))) by (rewrite E; simpl; auto).
    rewrite g_inter_In, !g_diff_In in H. tauto.
  - destruct (g_inter (g_inter cg1 cg2) (g_diff cg1 cg2)) as [|t r] eqn:E; auto.
    assert (H : In t (g_inter (g_inter cg1 cg2) (g_diff cg1 cg2))) by (rewrite E; simpl; auto).
    rewrite !g_inter_In, !g_diff_In in H. tauto.
  - destruct (g_inter (g_inter cg1 cg2) (g_diff cg2 cg1)) as [|t r] eqn:E; auto.
    assert (H : In t (g_inter (g_inter cg1 cg2) (g_diff cg2 cg1))) by (rewrite E; simpl; auto).
    rewrite !g_inter_In, !g_diff_In in H. tauto.
Qed.

(* C14_diff_partition: graph_diff as rdflib computes it, with the canonical
   relabellings abstracted to ANY labelling functions injective on the blank
   nodes of their graph *)
Theorem diff_partition_canon g1 g2 c1 c2 :
  inj_on c1 (blanks g1) -> inj_on c2 (blanks g2) ->
  let cg1 := rename_g c1 g1 in let cg2 := rename_g c2 g2 in
  let both := g_inter cg1 cg2 in let first := g_diff cg1 cg2 in let second := g_diff cg2 cg1 in
  iso (g_union both first) g1 /\ iso (g_union both second) g2 /\ g_inter first second = []
  /\ gseteq (g_union both first) cg1 /\ gseteq (g_union both second) cg2.
Proof.
  intros H1 H2. cbv zeta.
  destruct (diff_partition (rename_g c1 g1) (rename_g c2 g2)) as [A [B [C _]]].
  repeat split; auto.
  - apply iso_sym. eapply iso_seteq_r; [|apply iso_rename; eauto]. intros t; symmetry; apply A.
  - apply iso_sym. eapply iso_seteq_r; [|apply iso_rename; eauto]. intros t; symmetry; apply B.
  - apply A.
  - apply A.
  - apply B.
  - apply B.
Qed.

(* C14_canon_sound: equal canonical forms through injective labellings -> isomorphic *)
Theorem canon_sound g1 g2 c1 c2 :
  inj_on c1 (blanks g1) -> inj_on c2 (blanks g2) ->
  gseteq (rename_g c1 g1) (rename_g c2 g2) -> iso g1 g2.
Proof.
  intros H1 H2 Hs.
  apply iso_trans with (rename_g c1 g1); [now apply iso_rename|].
  apply iso_seteq_l with (rename_g c2 g2); [intros t; symmetry; apply Hs|].
  apply iso_sym. now apply iso_rename.
Qed.

(* with isomorphic inputs and equal canonical forms the diff is (cg, {}, {}) *)
Lemma diff_of_equal cg1 cg2 :
  gseteq cg1 cg2 -> gseteq (g_inter cg1 cg2) cg1 /\ g_diff cg1 cg2 = [] /\ g_diff cg2 cg1 = [].
Proof.
  intros Hs. repeat split.
  - rewrite g_inter_In. tauto.
  - rewrite g_inter_In. intros H; split; auto. now apply Hs.
  - destruct (g_diff cg1 cg2) as [|t r] eqn:E; auto.
    assert (H : In t (g_diff cg1 cg2)) by (rewrite E; simpl; auto).
    rewrite g_diff_In in H. destruct H as [Ha Hb]. apply Hs in Ha. tauto.
  - destruct (g_diff cg2 cg1) as [|t r] eqn:E; auto.
    assert (H : In t (g_diff cg2 cg1)) by (rewrite E; simpl; auto).
    rewrite g_diff_In in H. destruct H as [Ha Hb]. apply Hs in Ha. tauto.
Qed.

(* ------------------------------------------------------------------ *)
(* the model satisfies the specification checker *)

Lemma shift_inj k l : inj_on (fun x => (x + k)%N) l.
Proof. intros x y _ _ H. lia. Qed.

Lemma iso_shift k g : iso (shift_g k g) g.
Proof. apply iso_sym. apply iso_rename. apply shift_inj. Qed.

Lemma isnil_inter_diff a b : isnil (g_inter (g_diff a b) (g_diff b a)) = true.
Proof. destruct (diff_partition a b) as [_ [_ [C _]]]. cbv zeta in C. now rewrite C. Qed.

Lemma gseteqb_refl g : gseteqb g g = true.
Proof. apply gseteqb_spec. intros t; tauto. Qed.

Theorem spec_ok_model c : spec_ok c (model_obs c) = true.
Proof.
  unfold spec_ok, model_obs, model_obs_with.
  set (g1 := c_g1 c). set (g2 := c_g2 c).
  unfold spec_verdicts, spec_canon, spec_diff, spec_skolem. cbn [o_iso o_toiso o_caneq o_alt1 o_alt2 o_cg1 o_cg2 o_both o_first o_second o_sk o_skv].
  fold g1 g2. rewrite !eqb_reflx, iso_dec_refl. cbn [andb].
  set (cg2 := if iso_dec g1 g2 then g1 else shift_g (N.succ (maxblank g1)) g2).
  destruct (diff_partition g1 cg2) as [A [B _]]. cbv zeta in A, B.
  assert (I2 : iso cg2 g2).
  { unfold cg2. destruct (iso_dec g1 g2) eqn:E; [now apply iso_dec_correct|apply iso_shift]. }
  assert (E1 : iso_dec cg2 g2 = true) by now apply iso_dec_correct.
  assert (E2 : Bool.eqb (gseteqb g1 cg2) (iso_dec g1 g2) = true).
  { unfold cg2. destruct (iso_dec g1 g2) eqn:E; [now rewrite gseteqb_refl|].
    destruct (gseteqb g1 (shift_g (N.succ (maxblank g1)) g2)) eqn:F; auto.
    exfalso. apply iso_dec_false in E. apply E. apply gseteqb_spec in F.
    apply iso_sym. eapply iso_seteq_r; [intros t; symmetry; apply F|]. apply iso_sym, iso_shift. }
  assert (E3 : iso_dec (g_union (g_inter g1 cg2) (g_diff g1 cg2)) g1 = true).
  { apply iso_dec_correct. eapply iso_seteq_l; [intros t; symmetry; apply A|apply iso_refl]. }
  assert (E4 : iso_dec (g_union (g_inter g1 cg2) (g_diff cg2 g1)) g2 = true).
  { apply iso_dec_correct. eapply iso_seteq_l; [intros t; symmetry; apply B|exact I2]. }
  rewrite E1, E2, E3, E4, isnil_inter_diff, !gseteqb_refl. reflexivity.
Qed.

(* ------------------------------------------------------------------ *)
(* Prop-level readings of the boolean specification checker *)

Lemma eqb_iff_reading (b i : bool) (P : Prop) :
  (i = true <-> P) -> (Bool.eqb b i = true <-> (b = true <-> P)).
Proof. intros H. destruct b, i; simpl; split; intros; try tauto; try congruence; intuition congruence. Qed.

Lemma isnil_spec g : isnil g = true <-> g = [].
Proof. destruct g; simpl; split; congruence. Qed.

Lemma inter_nil_disjoint a b : g_inter a b = [] <-> (forall t, In t a -> In t b -> False).
Proof.
  split.
  - intros E t Ha Hb. assert (H : In t (g_inter a b)) by (apply g_inter_In; auto). now rewrite E in H.
  - intros H. destruct (g_inter a b) as [|t r] eqn:E; auto.
    assert (Ht : In t (g_inter a b)) by (rewrite E; simpl; auto).
    apply g_inter_In in Ht. exfalso. destruct Ht; eauto.
Qed.

Theorem spec_verdicts_reading c o :
  spec_verdicts c o = true <->
  ((o_iso o = true <-> iso (c_g1 c) (c_g2 c)) /\ (o_toiso o = true <-> iso (c_g1 c) (c_g2 c))
   /\ (o_caneq o = true <-> iso (c_g1 c) (c_g2 c))
   /\ (o_alt1 o = true <-> iso (c_g1 c) (c_g2 c)) /\ (o_alt2 o = true <-> iso (c_g1 c) (c_g2 c))).
Proof.
  unfold spec_verdicts. rewrite !andb_true_iff.
  rewrite !(eqb_iff_reading _ _ _ (iso_dec_correct (c_g1 c) (c_g2 c))). tauto.
Qed.

Theorem spec_canon_reading c o :
  spec_canon c o = true <->
  (iso (o_cg1 o) (c_g1 c) /\ iso (o_cg2 o) (c_g2 c)
   /\ (gseteq (o_cg1 o) (o_cg2 o) <-> iso (c_g1 c) (c_g2 c))).
Proof.
  unfold spec_canon. rewrite !andb_true_iff, !iso_dec_correct.
  rewrite (eqb_iff_reading _ _ _ (iso_dec_correct (c_g1 c) (c_g2 c))), gseteqb_spec. tauto.
Qed.

Theorem spec_diff_reading c o :
  spec_diff c o = true <->
  (iso (g_union (o_both o) (o_first o)) (c_g1 c) /\ iso (g_union (o_both o) (o_second o)) (c_g2 c)
   /\ (forall t, In t (o_first o) -> In t (o_second o) -> False)
   /\ gseteq (o_both o) (g_inter (o_cg1 o) (o_cg2 o))
   /\ gseteq (o_first o) (g_diff (o_cg1 o) (o_cg2 o))
   /\ gseteq (o_second o) (g_diff (o_cg2 o) (o_cg1 o))).
Proof.
  unfold spec_diff. rewrite !andb_true_iff, !iso_dec_correct, !gseteqb_spec, isnil_spec, inter_nil_disjoint. tauto.
Qed.

Theorem spec_skolem_reading c o :
  spec_skolem c o = true <-> iso (o_sk o) (c_g1 c) /\ iso (o_skv o) (c_g1 c).
Proof. unfold spec_skolem. now rewrite andb_true_iff, !iso_dec_correct. Qed.


