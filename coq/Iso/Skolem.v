(* C14 - skolemisation on strings: BNode.skolemize, URIRef.de_skolemize,
   RDFLibGenid._is_rdflib_skolem, Genid._is_external_skolem,
   Graph.skolemize / Graph.de_skolemize (the bnode=None / uriref=None branches).
   Strings are lists of code points.  urllib's urljoin and urlparse are section
   variables: [join i] stands for urljoin(authority, rgenid + i) and [parse s]
   for the (path, params = query = fragment = "") part of urlparse(s). *)
From RV Require Import Iso.Model Iso.Proofs.

Definition str := list N.
Inductive sterm := SIri (s : str) | SBlank (s : str) | SLit (s : str) (tag : N).
Definition striple := (sterm * sterm * sterm)%type.
Definition sgraph := list striple.
Record urlinfo := { u_path : str; u_clean : bool }.

(* "https://rdflib.github.io", "/.well-known/genid/", "/.well-known/genid/rdflib/" *)
Definition authority : str :=
  [104; 116; 116; 112; 115; 58; 47; 47; 114; 100; 102; 108; 105; 98; 46; 103; 105; 116; 104; 117; 98; 46; 105; 111]%N.
Definition genid_q : str :=
  [47; 46; 119; 101; 108; 108; 45; 107; 110; 111; 119; 110; 47; 103; 101; 110; 105; 100]%N.
Definition rgenid_q : str :=
  [47; 46; 119; 101; 108; 108; 45; 107; 110; 111; 119; 110; 47; 103; 101; 110; 105; 100; 47; 114; 100; 102; 108; 105; 98]%N.
Definition genid : str := genid_q ++ [47%N].
Definition rgenid : str := rgenid_q ++ [47%N].

Fixpoint prefixb (p s : str) : bool :=
  match p, s with
  | [], _ => true
  | a :: p', b :: s' => N.eqb a b && prefixb p' s'
  | _ :: _, [] => false
  end.

Fixpoint occurs (p s : str) : bool :=
  prefixb p s || match s with [] => false | _ :: r => occurs p r end.

(* s.rfind(p) == 0 : p occurs at position 0 and at no later position *)
Definition rfind0 (p s : str) : bool :=
  prefixb p s && match s with [] => true | _ :: r => negb (occurs p r) end.

Definition no47 (i : str) : bool := forallb (fun c => negb (N.eqb c 47)) i.

Definition str_of (t : sterm) : str := match t with SIri s | SBlank s | SLit s _ => s end.

Section Sk.
  Variable join : str -> str.
  Variable parse : str -> urlinfo.

  Definition is_rdflib_skolem (s : str) : bool :=
    u_clean (parse s) && rfind0 rgenid (u_path (parse s)).
  Definition is_external_skolem (s : str) : bool := rfind0 genid (u_path (parse s)).

  (* BNode.skolemize with the default authority and basepath *)
  Definition skolemize_tm (t : sterm) : sterm :=
    match t with SBlank i => SIri (join i) | _ => t end.
  (* do_skolemize2: subject and object only *)
  Definition skolemize_t (t : striple) : striple :=
    let '(s, p, o) := t in (skolemize_tm s, p, skolemize_tm o).
  Definition skolemize_g (g : sgraph) : sgraph := map skolemize_t g.

  (* RDFLibGenid(s).de_skolemize() / Genid(s).de_skolemize(); the external branch
     hands out one fresh BNode per IRI through the module-level table [skolems]:
     modelled as a blank node named by the IRI behind a 0 code point *)
  Definition desk (t : sterm) : sterm :=
    let s := str_of t in
    if is_rdflib_skolem s then SBlank (skipn (length rgenid) (u_path (parse s)))
    else if is_external_skolem s then SBlank (0%N :: s) else t.
  (* do_de_skolemize2: the subject whatever its type (the tests take str(s)),
     the object only when it is a URIRef *)
  Definition deskolemize_t (t : striple) : striple :=
    let '(s, p, o) := t in (desk s, p, match o with SIri _ => desk o | _ => o end).
  Definition deskolemize_g (g : sgraph) : sgraph := map deskolemize_t g.

  Variable safe : str -> bool.

  Definition not_skolem (t : sterm) : Prop :=
    is_rdflib_skolem (str_of t) = false /\ is_external_skolem (str_of t) = false.
  Definition subj_ok (t : sterm) : Prop :=
    match t with SBlank i => safe i = true | _ => not_skolem t end.
  Definition obj_ok (t : sterm) : Prop :=
    match t with SBlank i => safe i = true | SIri _ => not_skolem t | SLit _ _ => True end.
  (* blank-node ids are safe, nothing in the graph already looks like a skolem IRI *)
  Definition sk_wf (g : sgraph) : Prop :=
    forall s p o, In (s, p, o) g -> subj_ok s /\ obj_ok o.
End Sk.

Definition abstract_g (num : sterm -> term) (g : sgraph) : graph :=
  map (fun t : striple => let '(s, p, o) := t in (num s, num p, num o)) g.

(* ------------------------------------------------------------------ *)

Lemma prefixb_app p s : prefixb p (p ++ s) = true.
Proof. induction p as [|a p IH]; simpl; auto. now rewrite N.eqb_refl. Qed.

Lemma prefixb_last_In q c s : prefixb (q ++ [c]) s = true -> In c s.
Proof.
  revert s. induction q as [|b q IH]; intros [|a s]; simpl; try discriminate.
  - rewrite andb_true_iff, N.eqb_eq. intros [-> _]. auto.
  - rewrite andb_true_iff. intros [_ H]. right. now apply IH.
Qed.

Lemma prefixb_short q c r i :
  length r <= length q -> prefixb (q ++ [c]) (r ++ i) = true -> In c i.
Proof.
  revert r. induction q as [|b q IH]; intros [|a r] Hl; simpl in Hl; try lia.
  - simpl app at 2. apply prefixb_last_In with (q := []).
  - simpl app at 2. apply prefixb_last_In.
  - simpl. rewrite andb_true_iff. intros [_ H]. apply (IH r); auto. lia.
Qed.

Lemma occurs_none q c i : ~ In c i -> occurs (q ++ [c]) i = false.
Proof.
  induction i as [|a i IH]; intros Hc.
  - simpl. destruct (prefixb (q ++ [c]) []) eqn:E; auto. apply prefixb_last_In in E. destruct E.
  - simpl occurs. rewrite IH by (simpl in Hc; tauto).
    destruct (prefixb (q ++ [c]) (a :: i)) eqn:E; auto. apply prefixb_last_In in E. tauto.
Qed.

Lemma occurs_short q c r i :
  length r <= length q -> ~ In c i -> occurs (q ++ [c]) (r ++ i) = false.
Proof.
  induction r as [|a r IH]; intros Hl Hc.
  - now apply occurs_none.
  - simpl app. simpl occurs. simpl in Hl. rewrite IH by (auto; lia).
    destruct (prefixb (q ++ [c]) (a :: r ++ i)) eqn:E; auto.
    apply (prefixb_short q c (a :: r) i) in E; [tauto|simpl; lia].
Qed.

Lemma no47_In i : no47 i = true -> ~ In 47%N i.
Proof.
  unfold no47. rewrite forallb_forall. intros H Hi. specialize (H _ Hi). now rewrite N.eqb_refl in H.
Qed.

Lemma rfind0_app_last a q c i :
  ~ In c i -> rfind0 ((a :: q) ++ [c]) (((a :: q) ++ [c]) ++ i) = true.
Proof.
  intros Hc. unfold rfind0. rewrite prefixb_app.
  change (((a :: q) ++ [c]) ++ i) with (a :: ((q ++ [c]) ++ i)). cbv iota beta.
  rewrite (occurs_short (a :: q) c (q ++ [c]) i); auto.
  rewrite app_length. simpl. lia.
Qed.

Lemma rfind0_rgenid i : no47 i = true -> rfind0 rgenid (rgenid ++ i) = true.
Proof.
  intros H. change rgenid with ((47%N :: tl rgenid_q) ++ [47%N]).
  apply rfind0_app_last. now apply no47_In.
Qed.

Lemma skipn_app_exact (p s : str) : skipn (length p) (p ++ s) = s.
Proof. induction p; simpl; auto. Qed.

Section Roundtrip.
  Variable join : str -> str.
  Variable parse : str -> urlinfo.
  Variable safe : str -> bool.
  (* what urljoin / urlparse do on safe ids; replayed on the real functions by the harness *)
  Hypothesis safe_hyp : forall i, safe i = true ->
     join i = authority ++ rgenid ++ i /\ u_path (parse (join i)) = rgenid ++ i
     /\ u_clean (parse (join i)) = true /\ no47 i = true.

  Lemma desk_skolem i : safe i = true -> desk parse (SIri (join i)) = SBlank i.
  Proof.
    intros Hs. destruct (safe_hyp i Hs) as [_ [Hp [Hc Hn]]].
    unfold desk, is_rdflib_skolem. simpl str_of. rewrite Hc, Hp, rfind0_rgenid by auto.
    simpl andb. cbv iota. now rewrite skipn_app_exact.
  Qed.

  Lemma desk_not_skolem t : not_skolem parse t -> desk parse t = t.
  Proof. intros [H1 H2]. unfold desk. now rewrite H1, H2. Qed.

  Theorem skolem_roundtrip g :
    sk_wf parse safe g -> deskolemize_g parse (skolemize_g join g) = g.
  Proof.
    intros Hw. unfold deskolemize_g, skolemize_g. rewrite map_map.
    rewrite <- (map_id g) at 2. apply map_ext_in. intros [[s p] o] Ht.
    destruct (Hw s p o Ht) as [Hs Ho]. unfold skolemize_t, deskolemize_t.
    assert (Es : desk parse (skolemize_tm join s) = s).
    { destruct s; simpl in Hs; simpl skolemize_tm;
        [apply desk_not_skolem; auto|now apply desk_skolem|apply desk_not_skolem; auto]. }
    rewrite Es. f_equal.
    destruct o; simpl in Ho; simpl skolemize_tm; auto.
    - now apply desk_not_skolem.
    - now apply desk_skolem.
  Qed.
End Roundtrip.

(* A basepath under /.well-known/genid/ other than the rdflib one (and any
   authority): de_skolemize takes the external branch, every skolem IRI is
   replaced by ONE blank node (the module-level table [skolems]), so the round
   trip renames the blank nodes in subject/object position through an injective
   map - the result is isomorphic, not equal.  (A blank node that also occurs
   as a predicate is not renamed there: outside RDF, cf. finding FC14a.) *)
Section External.
  Variable join : str -> str.
  Variable parse : str -> urlinfo.
  Variable safe : str -> bool.
  Hypothesis ext_hyp : forall i, safe i = true ->
    is_rdflib_skolem parse (join i) = false /\ is_external_skolem parse (join i) = true.

  Definition ext_label (i : str) : str := 0%N :: join i.
  Definition relabel_tm (t : sterm) : sterm :=
    match t with SBlank i => SBlank (ext_label i) | _ => t end.
  Definition relabel_t (t : striple) : striple :=
    let '(s, p, o) := t in (relabel_tm s, p, relabel_tm o).

  Lemma desk_external i : safe i = true -> desk parse (SIri (join i)) = SBlank (ext_label i).
  Proof.
    intros Hs. destruct (ext_hyp i Hs) as [H1 H2]. unfold desk. simpl str_of. now rewrite H1, H2.
  Qed.

  Theorem skolem_roundtrip_external g :
    sk_wf parse safe g -> deskolemize_g parse (skolemize_g join g) = map relabel_t g.
  Proof.
    intros Hw. unfold deskolemize_g, skolemize_g. rewrite map_map.
    apply map_ext_in. intros [[s p] o] Ht.
    destruct (Hw s p o Ht) as [Hs Ho]. unfold skolemize_t, deskolemize_t, relabel_t.
    assert (Es : desk parse (skolemize_tm join s) = relabel_tm s).
    { destruct s; simpl in Hs; simpl skolemize_tm; simpl relabel_tm;
        [apply desk_not_skolem; auto|now apply desk_external|apply desk_not_skolem; auto]. }
    rewrite Es. f_equal.
    destruct o; simpl in Ho; simpl skolemize_tm; simpl relabel_tm; auto.
    - now apply desk_not_skolem.
    - now apply desk_external.
  Qed.

  Lemma ext_label_inj : (forall i j, join i = join j -> i = j) ->
    forall i j, ext_label i = ext_label j -> i = j.
  Proof. intros Hj i j E. injection E as E. now apply Hj. Qed.
End External.
