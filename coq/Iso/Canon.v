(* C14 - executable model of rdflib/compare.py's _TripleCanonicalizer as it is
   after the "fix:" commits 66dfcd58 (equal-score guard), e4e9757a (pairings are
   verified to be automorphisms), 07e5253f (blank predicates enter a colour
   without their label) and fef10715 (tying candidates are kept, the
   smallest leaf is returned):  Color (hash_color, key,
   distinguish), _initial_color, _refine with its work list and the final
   "hash collision" merge, _individuate, _get_candidates, _experimental_path,
   _create_generator, _is_automorphism, _traces, _certificate, canonical_triples,
   _canonicalize_bnodes, to_hash, isomorphic, IsomorphicGraph.__eq__.

   Strings are lists of code points.  The hash function (SHA-256 read as an
   integer), str()/n3()/"%x" are section variables: the model is the Python
   text over them.  Python lists are lists, dicts are insertion-ordered
   association lists, sets are duplicate-free lists in first-insertion order
   (assumption MA-set: the real iteration order of a set is another one; no
   theorem depends on the order).  Color objects have no __eq__; list.remove /
   list.index / "c == color" on them are identity tests, modelled by position
   (candidates) or by structural equality (work list; two colours of one
   colouring never share a node, so this coincides).  The in-place
   nodes.extend() of the collision merge on colour objects shared with the
   caller's list is modelled functionally (assumption MA-alias).
   Loops that Python runs unboundedly take a fuel; None = fuel exhausted or a
   Python exception (KeyError / IndexError).  No proofs in this file. *)
From RV Require Export Iso.Model.

Definition str := list N.

(* the predicate of a colour item: _pred(p) of fix 07e5253f - an IRI as itself, a
   blank node as the fixed BNode("") whatever its label *)
Inductive ipred := PConst (n : N) | PBlank.
Definition ipred_of (p : term) : ipred := match p with Const n => PConst n | Blank _ => PBlank end.

Inductive citem :=
| IOut (p : ipred) (h : str)    (* (1, _pred(p), W.hash_color()) *)
| IIn (p : ipred) (h : str)     (* (W.hash_color(), _pred(p), 3) *)
| IInd (n : nat).               (* (len(color.nodes),)   from _individuate *)

(* Color: .nodes, .color (a tuple of items, or - for the non-blank neighbours -
   the node itself) *)
(* [chash] is Color._hash_color / the _hash_cache entry: hash_color() of the colour,
   computed when the colour is built (every construction site below fills it
   with the hash of [col]/[cnode]) *)
Record color := { nodes : list term; col : list citem; cnode : option term; chash : str }.

(* canonical terms: BNode("cb" + hash) or the term itself *)
Inductive cterm := CC (n : N) | CB (h : str).
Definition ctriple := (cterm * cterm * cterm)%type.

Fixpoint str_cmp (a b : str) : comparison :=
  match a, b with
  | [], [] => Eq
  | [], _ :: _ => Lt
  | _ :: _, [] => Gt
  | x :: a', y :: b' => match N.compare x y with Eq => str_cmp a' b' | c => c end
  end.
Definition str_eqb (a b : str) : bool := match str_cmp a b with Eq => true | _ => false end.

Definition key := (nat * str)%type.
Definition key_cmp (a b : key) : comparison :=
  match Nat.compare (fst a) (fst b) with Eq => str_cmp (snd a) (snd b) | c => c end.
Definition key_eqb (a b : key) : bool := match key_cmp a b with Eq => true | _ => false end.

(* tuple comparison of two scores *)
Fixpoint score_cmp (a b : list key) : comparison :=
  match a, b with
  | [], [] => Eq
  | [], _ :: _ => Lt
  | _ :: _, [] => Gt
  | x :: a', y :: b' => match key_cmp x y with Eq => score_cmp a' b' | c => c end
  end.

Definition is_bnode (t : term) : bool := match t with Blank _ => true | Const _ => false end.
Definition tmem (t : term) (l : list term) : bool := memb term_eqb t l.
Definition tadd (t : term) (l : list term) : list term := sadd term_eqb t l.

Fixpoint remove_first_t (t : term) (l : list term) : list term :=
  match l with [] => [] | x :: r => if term_eqb t x then r else x :: remove_first_t t r end.

Fixpoint replace_nth {A} (i : nat) (x : A) (l : list A) : list A :=
  match l, i with
  | [], _ => []
  | _ :: r, O => x :: r
  | y :: r, S k => y :: replace_nth k x r
  end.

Definition edge (a b : term) (t : triple) : bool :=
  term_eqb (fst (fst t)) a && term_eqb (snd t) b.
Definition pred_of (t : triple) : term := snd (fst t).

Section Canon.
  Variable hashfunc : str -> N.      (* int(sha256(s.encode()).hexdigest(), 16) *)
  Variable n3 : term -> str.         (* Node.n3() *)
  Variable hexs : N -> str.          (* "%x" % value *)
  Variable decs : nat -> str.        (* str(int) *)
  Variable tstr : ctriple -> str.    (* " ".join(x.n3() for x in canonical triple) *)

  Definition sp : str := [32%N].
  (* BNode("").n3() = "_:" *)
  Definition pstr (p : ipred) : str :=
    match p with PConst n => n3 (Const n) | PBlank => [95%N; 58%N] end.
  (* " ".join([stringify(x) for x in item]) *)
  Definition enc_item (it : citem) : str :=
    match it with
    | IOut p h => [49%N] ++ sp ++ pstr p ++ sp ++ h
    | IIn p h => h ++ sp ++ pstr p ++ sp ++ [51%N]
    | IInd n => decs n
    end.

  Definition sum_items (l : list citem) : N :=
    fold_right N.add 0%N (map (fun it => hashfunc (enc_item it)) l).
  Definition hash_items (l : list citem) : str := hexs (sum_items l).

  Definition hash_of (cl : list citem) (cn : option term) : str :=
    match cn with Some t => n3 t | None => hash_items cl end.
  Definition mkc (ns : list term) (cl : list citem) (cn : option term) : color :=
    {| nodes := ns; col := cl; cnode := cn; chash := hash_of cl cn |}.
  Definition hash_color (c : color) : str := chash c.

  Definition ckey (c : color) : key := (length (nodes c), hash_color c).

  (* sorted(l, key=lambda x: x.key(), reverse=True) - stable *)
  Fixpoint ins_desc (x : color) (l : list color) : list color :=
    match l with
    | [] => [x]
    | y :: r => match key_cmp (ckey x) (ckey y) with
                | Lt => y :: ins_desc x r
                | _ => x :: y :: r
                end
    end.
  Definition sort_desc (l : list color) : list color := fold_right ins_desc [] l.

  Definition c_discrete (c : color) : bool := Nat.eqb (length (nodes c)) 1.
  Definition m_discrete (cs : list color) : bool := forallb c_discrete cs.

  Definition color_eqb (a b : color) : bool :=
    list_eqb term_eqb (nodes a) (nodes b) && str_eqb (chash a) (chash b).

  Section G.
    Variable g : graph.

    (* ---- _initial_color ---- *)
    Definition init_step (st : list term * list term) (t : triple) : list term * list term :=
      let '(s, p, o) := t in
      let ns := tadd o (tadd p (tadd s [])) in
      let b := filter is_bnode ns in
      match b with
      | [] => st
      | _ => (fold_left (fun acc x => tadd x acc) b (fst st),
              fold_left (fun acc x => tadd x acc) (filter (fun x => negb (is_bnode x)) ns) (snd st))
      end.

    Definition m_initial_color : list color :=
      let '(bn, others) := fold_left init_step g ([], []) in
      match bn with
      | [] => []
      | _ => mkc bn [] None :: map (fun x => mkc [x] [] (Some x)) others
      end.

    (* ---- Color.distinguish ---- *)
    Definition sig (hW : str) (W : list term) (n : term) : list citem :=
      flat_map (fun node =>
                  map (fun t => IOut (ipred_of (pred_of t)) hW) (filter (edge n node) g)
                  ++ map (fun t => IIn (ipred_of (pred_of t)) hW) (filter (edge node n) g)) W.

    (* colors: dict[str, Color]; colors[h].nodes.append(n) *)
    Fixpoint group_ins (h : str) (newc : list citem) (n : term) (gs : list (str * color))
      : list (str * color) :=
      match gs with
      | [] => [(h, {| nodes := [n]; col := newc; cnode := None; chash := h |})]
      | (h', c) :: r =>
          if str_eqb h h'
          then (h', {| nodes := nodes c ++ [n]; col := col c; cnode := cnode c; chash := chash c |}) :: r
          else (h', c) :: group_ins h newc n r
      end.

    Definition m_distinguish (c W : color) : list color :=
      let hW := hash_color W in
      let base := sum_items (col c) in
      (* hash_color(new_color) = "%x" % (sum over c.color + sum over the new items):
         the first summand is computed once (Python keeps it in _hash_cache) *)
      map snd (fold_left (fun gs n => let sg := sig hW (nodes W) n in
                                      group_ins (hexs (base + sum_items sg)) (col c ++ sg) n gs)
                         (nodes c) []).

    (* ---- _refine ---- *)
    Fixpoint remove_first_c (c : color) (l : list color) : list color :=
      match l with [] => [] | x :: r => if color_eqb c x then r else x :: remove_first_c c r end.
    Fixpoint index_c (c : color) (l : list color) : option nat :=
      match l with
      | [] => None
      | x :: r => if color_eqb c x then Some O
                  else match index_c c r with Some i => Some (S i) | None => None end
      end.

    Definition refine_one (W : color) (st : list color * list color) (c : color)
      : list color * list color :=
      let '(coloring, sequence) := st in
      if Nat.ltb 1 (length (nodes c)) || is_bnode (hd (Const 0) (nodes c)) then
        let colors := sort_desc (m_distinguish c W) in
        let coloring' := remove_first_c c coloring ++ colors in
        let sequence' := match index_c c sequence with
                         | Some si => firstn si sequence ++ colors ++ skipn (S si) sequence
                         | None => tl colors ++ sequence
                         end in
        (coloring', sequence')
      else st.

    Fixpoint refine_loop (fuel : nat) (coloring sequence : list color) : option (list color) :=
      match fuel with
      | O => None
      | S k =>
          match sequence with
          | [] => Some coloring
          | _ :: _ =>
              if m_discrete coloring then Some coloring
              else
                let W := last sequence (mkc [] [] None) in   (* sequence.pop() *)
                let '(coloring', sequence') :=
                  fold_left (refine_one W) coloring (coloring, removelast sequence) in
                refine_loop k coloring' sequence'
          end
      end.

    (* the "hash collision" merge: colours with equal hash are combined *)
    Fixpoint merge_ins (c : color) (acc : list color) : list color :=
      match acc with
      | [] => [c]
      | x :: r => if str_eqb (hash_color x) (hash_color c)
                  then {| nodes := nodes x ++ nodes c; col := col x; cnode := cnode x; chash := chash x |} :: r
                  else x :: merge_ins c r
      end.
    Definition merge_colors (cs : list color) : list color :=
      fold_left (fun acc c => merge_ins c acc) cs [].

    Definition m_refine (fuel : nat) (coloring sequence : list color) : option (list color) :=
      match refine_loop fuel coloring (sort_desc sequence) with
      | Some cs => Some (merge_colors cs)
      | None => None
      end.

    (* ---- _individuate on a copy of colour number ci ---- *)
    Definition individuate (coloring : list color) (ci : nat) (node : term)
      : list color * color :=
      let c := nth ci coloring (mkc [] [] None) in
      let newc := mkc [node] (col c ++ [IInd (length (nodes c))]) None in
      let c' := {| nodes := remove_first_t node (nodes c); col := col c; cnode := cnode c; chash := chash c |} in
      (replace_nth ci c' coloring ++ [newc], newc).

    Fixpoint first_nondiscrete (cs : list color) (i : nat) : option (nat * color) :=
      match cs with
      | [] => None
      | c :: r => if c_discrete c then first_nondiscrete r (S i) else Some (i, c)
      end.

    (* ---- _experimental_path ---- *)
    Fixpoint m_experimental (fuel : nat) (coloring : list color) : option (list color) :=
      match fuel with
      | O => None
      | S k =>
          match first_nondiscrete coloring 0 with
          | None => Some coloring
          | Some (ci, c) =>
              let '(cs, newc) := individuate coloring ci (hd (Const 0) (nodes c)) in
              match m_refine fuel cs [newc] with
              | Some cs' => m_experimental k cs'
              | None => None
              end
          end
      end.

    (* ---- _is_automorphism, _create_generator ---- *)
    Definition amapping := list (term * term).
    Fixpoint map_set (k v : term) (m : amapping) : amapping :=      (* mapping[k] = v *)
      match m with
      | [] => [(k, v)]
      | (k', v') :: r => if term_eqb k k' then (k', v) :: r else (k', v') :: map_set k v r
      end.
    Fixpoint map_get (m : amapping) (k : term) : term :=           (* mapping.get(k, k) *)
      match m with
      | [] => k
      | (k', v) :: r => if term_eqb k k' then v else map_get r k
      end.

    Definition m_is_automorphism (m : amapping) (coloring : list color) : bool :=
      Nat.eqb (length (dedup term_eqb (map snd m))) (length m)
      && forallb (fun c => forallb (fun n => tmem (map_get m n) (nodes c)) (nodes c)) coloring
      && forallb (fun t => let '(s, p, o) := t in gmem (map_get m s, map_get m p, map_get m o) g) g.

    Definition groupings := list (term * list term).
    Fixpoint grp_get (gr : groupings) (k : term) : list term :=
      match gr with [] => [] | (k', v) :: r => if term_eqb k k' then v else grp_get r k end.
    Fixpoint grp_has (gr : groupings) (k : term) : bool :=
      match gr with [] => false | (k', _) :: r => term_eqb k k' || grp_has r k end.
    Fixpoint grp_set (k : term) (v : list term) (gr : groupings) : groupings :=
      match gr with
      | [] => [(k, v)]
      | (k', v') :: r => if term_eqb k k' then (k', v) :: r else (k', v') :: grp_set k v r
      end.

    Definition m_create_generator (c1 c2 : list color) (gr : groupings) (coloring : list color)
      : groupings :=
      let mapping := fold_left (fun m ab => map_set (hd (Const 0) (nodes (fst ab)))
                                                    (hd (Const 0) (nodes (snd ab))) m)
                               (combine c1 c2) [] in
      if m_is_automorphism mapping coloring then
        fold_left (fun gr ab =>
                     let '(a, b) := ab in
                     let s := fold_left (fun acc x => tadd x acc) (grp_get gr a ++ grp_get gr b)
                                        (tadd b (tadd a [])) in
                     fold_left (fun gr n => grp_set n s gr) s gr)
                  mapping gr
      else gr.

    (* dict([(c.nodes[0], c.hash_color()) for c in coloring]): the last entry of a key wins *)
    Definition labels_of (cs : list color) : list (term * str) :=
      map (fun c => (hd (Const 0) (nodes c), hash_color c)) cs.
    Fixpoint label_get (l : list (term * str)) (k : term) : option str :=
      match l with
      | [] => None
      | (k', v) :: r => match label_get r k with
                        | Some v' => Some v'
                        | None => if term_eqb k k' then Some v else None
                        end
      end.

    Definition cb : str := [99%N; 98%N].
    Definition canon_term (l : list (term * str)) (t : term) : option cterm :=
      match t with
      | Const n => Some (CC n)
      | Blank _ => match label_get l t with Some h => Some (CB (cb ++ h)) | None => None end
      end.
    Definition canon_triple (l : list (term * str)) (t : triple) : option ctriple :=
      let '(s, p, o) := t in
      match canon_term l s, canon_term l p, canon_term l o with
      | Some a, Some b, Some c => Some (a, b, c)
      | _, _, _ => None
      end.
    Fixpoint canon_all (l : list (term * str)) (ts : graph) : option (list ctriple) :=
      match ts with
      | [] => Some []
      | t :: r => match canon_triple l t, canon_all l r with
                  | Some a, Some b => Some (a :: b)
                  | _, _ => None
                  end
      end.

    (* ---- _certificate: the sorted canonical triple strings a colouring gives ---- *)
    Fixpoint ins_str (x : str) (l : list str) : list str :=
      match l with
      | [] => [x]
      | y :: r => match str_cmp x y with Gt => y :: ins_str x r | _ => x :: l end
      end.
    Definition sort_strs (l : list str) : list str := fold_right ins_str [] l.
    Fixpoint cert_cmp (a b : list str) : comparison :=
      match a, b with
      | [], [] => Eq
      | [], _ :: _ => Lt
      | _ :: _, [] => Gt
      | x :: a', y :: b' => match str_cmp x y with Eq => cert_cmp a' b' | c => c end
      end.
    Definition cert_of (cs : list color) : option (list str) :=
      match canon_all (labels_of cs) g with
      | Some cts => Some (sort_strs (map tstr cts))
      | None => None
      end.
    (* min(discrete, key=self._certificate): the first minimal element *)
    Fixpoint min_cert (cur : list color) (ccert : list str) (rest : list (list color))
      : option (list color) :=
      match rest with
      | [] => Some cur
      | d :: r => match cert_of d with
                  | None => None
                  | Some c => match cert_cmp c ccert with
                              | Lt => min_cert d c r
                              | _ => min_cert cur ccert r
                              end
                  end
      end.
    Definition pick_leaf (ds : list (list color)) : option (list color) :=
      match ds with
      | [] => None                              (* discrete[0]: IndexError *)
      | [d] => Some d
      | d :: r => match cert_of d with Some c => min_cert d c r | None => None end
      end.
    Fixpoint all_some {A} (l : list (option A)) : option (list A) :=
      match l with
      | [] => Some []
      | Some x :: r => match all_some r with Some xs => Some (x :: xs) | None => None end
      | None :: _ => None
      end.

    (* ---- _traces ---- *)
    Record tstate := {
      t_best : list (list color);
      t_best_score : option (list key);
      t_best_exp : option (list key);
      t_last : option (list color);
      t_last_refined : list color;       (* the loop variable refined_coloring *)
      t_gen : groupings;
      t_visited : list term;
      t_kept : list term;
      t_fail : bool
    }.

    Definition keyset_eqb (a b : list key) : bool :=
      forallb (fun x => existsb (key_eqb x) b) a && forallb (fun x => existsb (key_eqb x) a) b.
    Definition okeyset_eqb (a : list key) (b : option (list key)) : bool :=
      match b with Some b' => keyset_eqb a b' | None => false end.
    Definition oscore_cmp (b : option (list key)) (a : list key) : option comparison :=
      match b with Some b' => Some (score_cmp b' a) | None => None end.

    Definition candidates (coloring : list color) : list (term * nat) :=
      let fix go (cs : list color) (i : nat) :=
        match cs with
        | [] => []
        | c :: r => (if c_discrete c then [] else map (fun n => (n, i)) (nodes c)) ++ go r (S i)
        end in go coloring 0.

    Definition traces_step (fuel : nat) (coloring : list color) (st : tstate) (cand : term * nat)
      : tstate :=
      if t_fail st then st else
      let '(candidate, ci) := cand in
      if grp_has (t_gen st) candidate
         && existsb (fun x => tmem x (t_visited st)) (grp_get (t_gen st) candidate)
      then {| t_best := t_best st; t_best_score := t_best_score st; t_best_exp := t_best_exp st;
              t_last := t_last st; t_last_refined := t_last_refined st; t_gen := t_gen st;
              t_visited := tadd candidate (t_visited st); t_kept := t_kept st; t_fail := false |}
      else
        let visited := tadd candidate (t_visited st) in
        let '(copy, newc) := individuate coloring ci candidate in
        match m_refine fuel copy [newc], m_experimental fuel copy with
        | Some refined, Some experimental =>
            let color_score := map ckey refined in
            let exp_score := map ckey experimental in
            let same := match oscore_cmp (t_best_score st) color_score with
                        | Some Eq => okeyset_eqb exp_score (t_best_exp st)
                        | _ => false
                        end in
            let gen := match t_last st with
                       | Some (_ :: _ as lastc) =>
                           if same then m_create_generator lastc experimental (t_gen st) coloring
                           else t_gen st
                       | _ => t_gen st
                       end in
            let mk best bs be kept :=
              {| t_best := best; t_best_score := bs; t_best_exp := be; t_last := Some experimental;
                 t_last_refined := refined; t_gen := gen; t_visited := visited; t_kept := kept;
                 t_fail := false |} in
            match oscore_cmp (t_best_score st) color_score with
            | None | Some Lt => mk [refined] (Some color_score) (Some exp_score) [candidate]
            | Some Gt => mk (t_best st) (t_best_score st) (t_best_exp st) (t_kept st)
            | Some Eq =>
                (* equal scores: keep the branch unless a verified automorphism relates
                   the candidate to one that was kept *)
                if grp_has gen candidate && existsb (fun x => tmem x (t_kept st)) (grp_get gen candidate)
                then mk (t_best st) (t_best_score st) (t_best_exp st) (t_kept st)
                else mk (t_best st ++ [refined]) (t_best_score st) (t_best_exp st)
                        (tadd candidate (t_kept st))
            end
        | _, _ =>
            {| t_best := t_best st; t_best_score := t_best_score st; t_best_exp := t_best_exp st;
               t_last := t_last st; t_last_refined := t_last_refined st; t_gen := t_gen st;
               t_visited := visited; t_kept := t_kept st; t_fail := true |}
        end.

    Definition tstate0 : tstate :=
      {| t_best := []; t_best_score := None; t_best_exp := None; t_last := None;
         t_last_refined := []; t_gen := []; t_visited := []; t_kept := []; t_fail := false |}.

    (* all discrete elements of [best], or else the leaves below every element of
       [best]; several leaves: the one with the smallest certificate *)
    Fixpoint m_traces (fuel : nat) (coloring : list color) : option (list color) :=
      match fuel with
      | O => None
      | S k =>
          let st := fold_left (traces_step k coloring) (candidates coloring) tstate0 in
          if t_fail st then None else
          match filter m_discrete (t_best st) with
          | d :: ds => pick_leaf (d :: ds)
          | [] => match all_some (map (m_traces k) (t_best st)) with
                  | Some leaves => pick_leaf leaves
                  | None => None
                  end
          end
      end.

    (* ---- canonical_triples ---- *)
    Definition final_coloring (fuel : nat) : option (list color) :=
      let c0 := m_initial_color in
      match m_refine fuel c0 c0 with
      | Some cs => if m_discrete cs then Some cs else m_traces fuel cs
      | None => None
      end.

    Definition m_canonical_triples (fuel : nat) : option (list ctriple) :=
      match final_coloring fuel with
      | Some cs => canon_all (labels_of cs) g
      | None => None
      end.

    Definition m_to_hash (fuel : nat) : option N :=
      match m_canonical_triples fuel with
      | Some cts => Some (fold_right N.add 0%N (map (fun t => hashfunc (tstr t)) cts))
      | None => None
      end.
  End G.

  (* compare.isomorphic *)
  Definition m_isomorphic (fuel : nat) (g1 g2 : graph) : option bool :=
    match m_to_hash g1 fuel, m_to_hash g2 fuel with
    | Some a, Some b => Some (N.eqb a b)
    | _, _ => None
    end.

  (* IsomorphicGraph.__eq__ (both operands IsomorphicGraphs holding duplicate-free contents) *)
  Definition m_iso_eq (fuel : nat) (g1 g2 : graph) : option bool :=
    if negb (Nat.eqb (length g1) (length g2)) then Some false else m_isomorphic fuel g1 g2.
End Canon.
