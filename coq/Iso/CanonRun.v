(* C14 - an executable instance of the canonicaliser model (Iso/Canon.v) and the
   observation/specification of the suite "canon" that ties it to
   rdflib.compare._TripleCanonicalizer.  The instance replaces SHA-256 by a
   FNV-style mixing hash modulo 2^63 (like SHA-256 it is only
   assumed, not proved, to be injective on the multisets that occur); n3()/"%x"/
   str() by injective renderings.  The ORDER of hash strings therefore differs
   from rdflib's, so intermediate list orders differ; what is compared is
   order-free: the partition _refine reaches and the final verdict.
   Definitions only. *)
From Coq Require Import ZArith Uint63.
From RV Require Import Iso.Model Iso.Canon.
From RV Require Export Iso.CanonInst.

(* an FNV-style hash with xor-shift mixing on primitive 63-bit integers
   (vm_compute evaluates them natively; the same function in N arithmetic is
   hfN in Iso/CanonInst.v, 100x slower).  It must not be linear: a plain polynomial
   hash makes the SUM over the triples "A p B", "B p C" equal to the sum over
   "B p B", "A p C" - exactly the kind of collision assumption MA3 excludes. *)
Definition hf_step (acc : int) (c : N) : int :=
  let x := ((acc lxor (Uint63.of_Z (Z.of_N c) + 1)) * 1099511628211)%uint63 in
  let y := (x lxor (x >> 29))%uint63 in
  ((y * 6364136223846793005) lxor (y >> 32))%uint63.
Definition hf (s : str) : N :=
  let h := fold_left hf_step s 1469598103934665603%uint63 in
  let z := ((h lxor (h >> 31)) * 7046029254386353131)%uint63 in
  Z.to_N (Uint63.to_Z (z lxor (z >> 27))%uint63).


Definition refine0 (g : graph) : option (list color) :=
  let c0 := m_initial_color hf n3_i hexs_i decs_i g in m_refine hf n3_i hexs_i decs_i g FUEL c0 c0.
Definition iso_i (g1 g2 : graph) : option bool :=
  m_isomorphic hf n3_i hexs_i decs_i tstr_i FUEL g1 g2.
Definition isoeq_i (g1 g2 : graph) : option bool :=
  m_iso_eq hf n3_i hexs_i decs_i tstr_i FUEL g1 g2.

Record cobs := {
  q_part1 : list (list term);   (* [c.nodes for c in _refine(_initial_color(), ...)] of g1 *)
  q_part2 : list (list term);
  q_iso : bool;                 (* compare.isomorphic(g1, g2) *)
  q_isoeq : bool;               (* to_isomorphic(g1) == to_isomorphic(g2) *)
  q_fail : bool                 (* exception / timeout / fuel *)
}.

Definition canon_model (c : case) : cobs :=
  match refine0 (c_g1 c), refine0 (c_g2 c), iso_i (c_g1 c) (c_g2 c) with
  | Some p1, Some p2, Some b =>
      (* m_iso_eq = length test, then m_isomorphic: evaluated once *)
      let e := if negb (Nat.eqb (length (c_g1 c)) (length (c_g2 c))) then false else b in
      {| q_part1 := map nodes p1; q_part2 := map nodes p2; q_iso := b; q_isoeq := e; q_fail := false |}
  | _, _, _ => {| q_part1 := []; q_part2 := []; q_iso := false; q_isoeq := false; q_fail := true |}
  end.

Definition class_eqb (a b : list term) : bool := seteqb term_eqb a b.
Definition part_eqb (p q : list (list term)) : bool :=
  forallb (fun a => existsb (class_eqb a) q) p && forallb (fun b => existsb (class_eqb b) p) q.

(* The partitions themselves are NOT compared: they depend on the order of the hash
   values.  A class that receives no new item in a refinement step keeps the hash of its
   parent, so two structurally different nodes (x p w1, x p w2 / y p w0 with w0 split off
   later) can end with equal colour sums; whether that happens depends on which colour is
   popped first.  rdflib treats it as a "hash collision" and merges the colours; with
   SHA-256 and with the instance hash it happens for different inputs.  What is order-free
   is checked by [canon_spec_ok] on both partitions: automorphic nodes share a class. *)
Definition canon_obs_eqb (a b : cobs) : bool :=
  Bool.eqb (q_iso a) (q_iso b) && Bool.eqb (q_isoeq a) (q_isoeq b)
  && negb (q_fail a) && negb (q_fail b).

(* the partition is a partition of the blank nodes of the graph plus singleton
   classes of non-blank neighbours *)
Fixpoint ins_nat (x : nat) (l : list nat) : list nat :=
  match l with [] => [x] | y :: r => if Nat.leb x y then x :: l else y :: ins_nat x r end.
Definition profile (p : list (list term)) : list nat :=
  fold_right ins_nat [] (map (@length term) (filter (fun c => existsb is_bnode c) p)).

Definition part_ok (g : graph) (p : list (list term)) : bool :=
  let all := concat p in
  nodupb term_eqb all
  && forallb (fun c => negb (Nat.eqb (length c) 0)) p
  && seteqb term_eqb (filter is_bnode all) (map Blank (bset g))
  && forallb (fun c => forallb is_bnode c || Nat.eqb (length c) 1) p.

(* automorphic blank nodes (same orbit: the graph with u marked is isomorphic to the
   graph with v marked) are in the same class *)
Definition mark (g : graph) (u : N) : graph := (Blank u, Const 999, Const 999)%N :: g.
Definition same_class (p : list (list term)) (u v : N) : bool :=
  existsb (fun c => memb term_eqb (Blank u) c && memb term_eqb (Blank v) c) p.
Definition orbit_closed (g : graph) (p : list (list term)) : bool :=
  let bs := bset g in
  forallb (fun u => forallb (fun v => if N.ltb u v
                                      then (if iso_dec (mark g u) (mark g v) then same_class p u v else true)
                                      else true) bs) bs.

(* the verdicts are the oracle's; each partition is a partition of the blank nodes whose
   classes are unions of automorphism orbits (a consequence of the invariance of
   refinement that does not depend on the order of hash values) *)
Definition canon_spec_ok (c : case) (o : cobs) : bool :=
  let i := iso_dec (c_g1 c) (c_g2 c) in
  negb (q_fail o)
  && Bool.eqb (q_iso o) i && Bool.eqb (q_isoeq o) i
  && part_ok (c_g1 c) (q_part1 o) && part_ok (c_g2 c) (q_part2 o)
  && orbit_closed (c_g1 c) (q_part1 o) && orbit_closed (c_g2 c) (q_part2 o).

(* non-vacuity of the executable instance: a 6-cycle against a relabelled
   6-cycle and against two triangles (refinement cannot split either; the
   search decides) *)
Example canon_instance_nonvacuous :
  let e := fun a b : N => (Blank a, Const 3%N, Blank b) in
  let cyc6 := [e 0 1; e 1 2; e 2 3; e 3 4; e 4 5; e 5 0]%N in
  let cyc6' := [e 9 7; e 12 9; e 7 8; e 8 11; e 10 12; e 11 10]%N in
  let tri2 := [e 0 1; e 1 2; e 2 0; e 3 4; e 4 5; e 5 3]%N in
  iso_i cyc6 cyc6' = Some true /\ iso_i cyc6 tri2 = Some false
  /\ option_map m_discrete (refine0 cyc6) = Some false.
Proof. vm_compute. repeat split. Qed.
