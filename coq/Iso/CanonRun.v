(* C14 - an executable instance of the canonicaliser model (Iso/Canon.v) and the
   observation/specification of the suite "canon" that ties it to
   rdflib.compare._TripleCanonicalizer.  The instance replaces SHA-256 by a
   FNV-style mixing hash modulo 2^63 (like SHA-256 it is only
   assumed, not proved, to be injective on the multisets that occur); n3()/"%x"/
   str() by injective renderings.  The ORDER of hash strings therefore differs
   from rdflib's, so intermediate list orders differ; what is compared is
   order-free: the partition _refine reaches and the final verdict.
   Definitions only. *)
From Coq Require Import ZArith Uint63.
From RV Require Import Iso.Model Iso.Canon.
From RV Require Export Iso.CanonInst.

(* an FNV-style hash with xor-shift mixing on primitive 63-bit integers
   (vm_compute evaluates them natively; the same function in N arithmetic is
   hfN in Iso/CanonInst.v, 100x slower).  It must not be linear: a plain polynomial
   hash makes the SUM over the triples "A p B", "B p C" equal to the sum over
   "B p B", "A p C" - exactly the kind of collision assumption MA3 excludes. *)
Definition hf_step (acc : int) (c : N) : int :=
  let x := ((acc lxor (Uint63.of_Z (Z.of_N c) + 1)) * 1099511628211)%uint63 in
  let y := (x lxor (x >> 29))%uint63 in
  ((y * 6364136223846793005) lxor (y >> 32))%uint63.
Definition hf (s : str) : N :=
  let h := fold_left hf_step s 1469598103934665603%uint63 in
  let z := ((h lxor (h >> 31)) * 7046029254386353131)%uint63 in
  Z.to_N (Uint63.to_Z (z lxor (z >> 27))%uint63).


Definition refine0 (g : graph) : option (list color) :=
  let c0 := m_initial_color hf n3_i hexs_i decs_i g in m_refine hf n3_i hexs_i decs_i g FUEL c0 c0.
Definition iso_i (g1 g2 : graph) : option bool :=
  m_isomorphic hf n3_i hexs_i decs_i tstr_i FUEL g1 g2.
Definition isoeq_i (g1 g2 : graph) : option bool :=
  m_iso_eq hf n3_i hexs_i decs_i tstr_i FUEL g1 g2.

Record cobs := {
  q_part1 : list (list term);   (* [c.nodes for c in _refine(_initial_color(), ...)] of g1 *)
  q_part2 : list (list term);
  q_iso : bool;                 (* compare.isomorphic(g1, g2) *)
  q_isoeq : bool;               (* to_isomorphic(g1) == to_isomorphic(g2) *)
  q_fail : bool;                (* exception / timeout / fuel *)
  q_undet : bool                (* model only: verdicts not determined (finding FC14a, see Iso/Model.v kf) *)
}.

Definition canon_model (c : case) : cobs :=
  match refine0 (c_g1 c), refine0 (c_g2 c), iso_i (c_g1 c) (c_g2 c) with
  | Some p1, Some p2, Some b =>
      (* m_iso_eq = length test, then m_isomorphic: evaluated once *)
      let e := if negb (Nat.eqb (length (c_g1 c)) (length (c_g2 c))) then false else b in
      {| q_part1 := map nodes p1; q_part2 := map nodes p2; q_iso := b; q_isoeq := e; q_fail := false; q_undet := negb (N.eqb (kf c) 0) |}
  | _, _, _ => {| q_part1 := []; q_part2 := []; q_iso := false; q_isoeq := false; q_fail := true; q_undet := false |}
  end.

Definition class_eqb (a b : list term) : bool := seteqb term_eqb a b.
Definition part_eqb (p q : list (list term)) : bool :=
  forallb (fun a => existsb (class_eqb a) q) p && forallb (fun b => existsb (class_eqb b) p) q.

Definition canon_obs_eqb (a b : cobs) : bool :=
  part_eqb (q_part1 a) (q_part1 b) && part_eqb (q_part2 a) (q_part2 b)
  && (q_undet a || q_undet b || (Bool.eqb (q_iso a) (q_iso b) && Bool.eqb (q_isoeq a) (q_isoeq b)))
  && negb (q_fail a) && negb (q_fail b).

(* the partition is a partition of the blank nodes of the graph plus singleton
   classes of non-blank neighbours *)
Fixpoint ins_nat (x : nat) (l : list nat) : list nat :=
  match l with [] => [x] | y :: r => if Nat.leb x y then x :: l else y :: ins_nat x r end.
Definition profile (p : list (list term)) : list nat :=
  fold_right ins_nat [] (map (@length term) (filter (fun c => existsb is_bnode c) p)).

Definition part_ok (g : graph) (p : list (list term)) : bool :=
  let all := concat p in
  nodupb term_eqb all
  && forallb (fun c => negb (Nat.eqb (length c) 0)) p
  && seteqb term_eqb (filter is_bnode all) (map Blank (bset g))
  && forallb (fun c => forallb is_bnode c || Nat.eqb (length c) 1) p.

(* the verdicts are the oracle's; isomorphic graphs get partitions with the same
   profile of class sizes (a consequence of the invariance of refinement) *)
Definition canon_spec_ok (c : case) (o : cobs) : bool :=
  let i := iso_dec (c_g1 c) (c_g2 c) in
  negb (q_fail o)
  && Bool.eqb (q_iso o) i && Bool.eqb (q_isoeq o) i
  && part_ok (c_g1 c) (q_part1 o) && part_ok (c_g2 c) (q_part2 o)
  && (if i then list_eqb Nat.eqb (profile (q_part1 o)) (profile (q_part2 o)) else true).

(* non-vacuity of the executable instance: a 6-cycle against a relabelled
   6-cycle and against two triangles (refinement cannot split either; the
   search decides) *)
Example canon_instance_nonvacuous :
  let e := fun a b : N => (Blank a, Const 3%N, Blank b) in
  let cyc6 := [e 0 1; e 1 2; e 2 3; e 3 4; e 4 5; e 5 0]%N in
  let cyc6' := [e 9 7; e 12 9; e 7 8; e 8 11; e 10 12; e 11 10]%N in
  let tri2 := [e 0 1; e 1 2; e 2 0; e 3 4; e 4 5; e 5 3]%N in
  iso_i cyc6 cyc6' = Some true /\ iso_i cyc6 tri2 = Some false
  /\ option_map m_discrete (refine0 cyc6) = Some false.
Proof. vm_compute. repeat split. Qed.
