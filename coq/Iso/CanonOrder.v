(* C14 - how far the result of _refine is independent of ORDER.
   True and proved here: one refinement step (Color.distinguish) yields the same
   classes with the same hashes whatever the order in which the triples of the
   graph are enumerated (the hash of a colour is a sum); the final "hash
   collision" merge only regroups nodes and leaves pairwise different hashes.
   False, with a recorded counterexample: the final colouring as a set of
   (class, hash) pairs does NOT only depend on the graph - it depends on the
   order in which the work list pops colours, i.e. on the order of the hash
   VALUES.  A class that receives no new item in a step keeps the hash of its
   parent; with x p w1, x p w2, y p w0 (w* : U0, x y : U1) the colours of x and y
   are {type, p h, p h} and {type, p h, p h'} where h' = h exactly when w0 was
   split off before y was looked at - equal sums for structurally different
   nodes, merged as a "collision".  Two hash functions (both as injective as one
   can wish) give different partitions of the same graph. *)
From Coq Require Import Permutation.
From RV Require Import Iso.Model Iso.Proofs Iso.Canon Iso.CanonInst Iso.CanonProofs.

(* a second instance of the hash: the same mixing function, another seed *)
Definition hfN2 (s : str) : N :=
  let h := fold_left hfN_step s 88172645463325252%N in
  let z := N.land (N.lxor h (N.shiftr h 31) * 7046029254386353131) M63 in
  N.lxor z (N.shiftr z 27).

Definition typed_shape (p : N) : graph :=
  [(Blank 0, Const 59, Const 57); (Blank 1, Const 59, Const 57); (Blank 2, Const 59, Const 57);
   (Blank 3, Const 59, Const 58); (Blank 4, Const 59, Const 58);
   (Blank 3, Const p, Blank 1); (Blank 3, Const p, Blank 2); (Blank 4, Const p, Blank 0)]%N.

Definition refined_classes (h : str -> N) (g : graph) : option (list (list term)) :=
  let c0 := m_initial_color h n3_i hexs_i decs_i g in
  option_map (map nodes) (m_refine h n3_i hexs_i decs_i g FUEL c0 c0).

Definition together (x y : term) (p : list (list term)) : bool :=
  existsb (fun c => memb term_eqb x c && memb term_eqb y c) p.

(* the same graph, two hash functions: under the first x (= _:3) and y (= _:4)
   end in ONE class, under the second in two *)
Lemma refine_hash_order_refuted :
  exists g h1 h2 p1 p2,
    refined_classes h1 g = Some p1 /\ refined_classes h2 g = Some p2
    /\ together (Blank 3) (Blank 4) p1 = true /\ together (Blank 3) (Blank 4) p2 = false
    /\ length p1 = 7%nat /\ length p2 = 8%nat.
Proof.
  exists (typed_shape 23), hfN, hfN2.
  eexists. eexists. split; [vm_compute; reflexivity|]. split; [vm_compute; reflexivity|].
  vm_compute. repeat split.
Qed.

(* ------------------------------------------------------------------ *)
Lemma filter_perm {A} (P : A -> bool) l l' : Permutation l l' -> Permutation (filter P l) (filter P l').
Proof.
  induction 1 as [|x l l' H IH|x y l|l l' l'' H1 IH1 H2 IH2]; simpl; auto.
  - destruct (P x); auto.
  - destruct (P x), (P y); auto. apply perm_swap.
  - eapply perm_trans; eauto.
Qed.

Section O.
  Variable hashfunc : str -> N.
  Variable n3 : term -> str.
  Variable hexs : N -> str.
  Variable decs : nat -> str.

  Notation sum_items := (sum_items hashfunc n3 decs).
  Notation m_distinguish := (m_distinguish hashfunc n3 hexs decs).

  (* the hash of a colour is a sum: the order of its items does not matter *)
  Lemma sum_items_perm l l' : Permutation l l' -> sum_items l = sum_items l'.
  Proof.
    unfold Canon.sum_items.
    induction 1 as [|x l l' H IH|x y l|l l' l'' H1 IH1 H2 IH2]; simpl; auto; try lia.
  Qed.

  (* the items a node collects do not depend on the order of the triples, as a multiset *)
  Lemma sig_perm g g' hW W n : Permutation g g' -> Permutation (sig g hW W n) (sig g' hW W n).
  Proof.
    intros H. unfold sig. induction W as [|w W IH]; simpl; auto.
    apply Permutation_app; auto.
    apply Permutation_app; apply Permutation_map; now apply filter_perm.
  Qed.

  Definition proj (gs : list (str * color)) : list (str * list term * str) :=
    map (fun hc => (fst hc, nodes (snd hc), chash (snd hc))) gs.

  Fixpoint pins (h : str) (n : term) (ps : list (str * list term * str)) : list (str * list term * str) :=
    match ps with
    | [] => [(h, [n], h)]
    | (h', ns, ch) :: r => if str_eqb h h' then (h', ns ++ [n], ch) :: r else (h', ns, ch) :: pins h n r
    end.

  Lemma proj_group_ins h newc n gs : proj (group_ins h newc n gs) = pins h n (proj gs).
  Proof.
    induction gs as [|[h' c] r IH]; simpl; auto.
    destruct (str_eqb h h'); simpl; auto. now rewrite IH.
  Qed.

  (* ONE REFINEMENT STEP IS FREE OF THE ORDER OF TRIPLES: Color.distinguish yields the
     same classes (same nodes, same order) with the same hashes for any two
     enumerations of the graph's triples *)
  Theorem distinguish_triple_order_free g g' c W :
    Permutation g g' ->
    map (fun x => (nodes x, chash x)) (m_distinguish g' c W)
    = map (fun x => (nodes x, chash x)) (m_distinguish g c W).
  Proof.
    intros H. unfold Canon.m_distinguish.
    set (step' := fun gs n => _). set (step := fun gs n => _).
    assert (G : forall ns gs gs', proj gs' = proj gs ->
                                  proj (fold_left step' ns gs') = proj (fold_left step ns gs)).
    { induction ns as [|n r IH]; simpl; intros gs gs' E; auto.
      apply IH. unfold step', step. rewrite !proj_group_ins, E.
      now rewrite (sum_items_perm _ _ (sig_perm g g' (hash_color W) (nodes W) n H)). }
    assert (P : forall gs : list (str * color),
               map (fun x => (nodes x, chash x)) (map snd gs)
               = map (fun t : str * list term * str => (snd (fst t), snd t)) (proj gs)).
    { intros gs. unfold proj. rewrite !map_map. reflexivity. }
    rewrite !P. now rewrite (G (nodes c) [] [] eq_refl).
  Qed.

  (* the "hash collision" merge regroups the nodes and nothing else *)
  Lemma merge_ins_nodes c acc :
    Permutation (flat_map nodes (merge_ins c acc)) (flat_map nodes acc ++ nodes c).
  Proof.
    induction acc as [|x r IH]; simpl.
    - now rewrite app_nil_r.
    - destruct (str_eqb (hash_color x) (hash_color c)); simpl.
      + rewrite <- !app_assoc. apply Permutation_app_head. apply Permutation_app_comm.
      + rewrite <- app_assoc. now apply Permutation_app_head.
  Qed.

  Theorem merge_colors_regroups cs :
    Permutation (flat_map nodes (merge_colors cs)) (flat_map nodes cs)
    /\ distinct_hashes (merge_colors cs).
  Proof.
    split; [|apply merge_colors_distinct].
    unfold merge_colors.
    assert (G : forall acc, Permutation (flat_map nodes (fold_left (fun acc c => merge_ins c acc) cs acc))
                                        (flat_map nodes acc ++ flat_map nodes cs)).
    { induction cs as [|c r IH]; simpl; intros acc; [now rewrite app_nil_r|].
      rewrite IH, merge_ins_nodes, <- app_assoc. reflexivity. }
    apply (G []).
  Qed.
End O.
