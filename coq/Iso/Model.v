(* C14 - graphs up to blank-node renaming.
   Part 1: the specification-level objects (terms with blank nodes, graphs as
   finite sets of triples, [iso]) and an executable backtracking decision
   procedure [iso_dec] (proved sound and complete in Iso/Proofs.v) which is the
   oracle that judges rdflib/compare.py.
   Part 2: the observation record of the correspondence check, the model's
   prediction and the boolean specification checker.  No proofs in this file. *)
From RV Require Export Base.ListSet.

(* ------------------------------------------------------------------ *)
(* Terms, triples, graphs *)

Inductive term := Const (n : N) | Blank (n : N).
(* Const n : an IRI or a literal (numbered structurally by the harness);
   Blank n : the blank node whose label is number n *)

Definition term_eqb (a b : term) : bool :=
  match a, b with
  | Const x, Const y => N.eqb x y
  | Blank x, Blank y => N.eqb x y
  | _, _ => false
  end.

Definition triple := (term * term * term)%type.
Definition graph := list triple.           (* read as a set *)

Definition triple_eqb (a b : triple) : bool :=
  pair_eqb (pair_eqb term_eqb term_eqb) term_eqb a b.

Definition gmem (t : triple) (g : graph) : bool := memb triple_eqb t g.
Definition gseteqb (g h : graph) : bool := seteqb triple_eqb g h.
Definition gseteq (g h : graph) : Prop := seteq g h.

Definition rename (f : N -> N) (t : term) : term :=
  match t with Const n => Const n | Blank n => Blank (f n) end.
Definition rename_t (f : N -> N) (t : triple) : triple :=
  let '(s, p, o) := t in (rename f s, rename f p, rename f o).
Definition rename_g (f : N -> N) (g : graph) : graph := map (rename_t f) g.

Definition blanks_tm (t : term) : list N := match t with Blank n => [n] | Const _ => [] end.
Definition blanks_t (t : triple) : list N :=
  let '(s, p, o) := t in blanks_tm s ++ blanks_tm p ++ blanks_tm o.
Definition blanks (g : graph) : list N := flat_map blanks_t g.

Definition inj_on (f : N -> N) (l : list N) : Prop :=
  forall x y, In x l -> In y l -> f x = f y -> x = y.

(* THE specification: some renaming of blank nodes, one-to-one on the blank
   nodes of g1, maps the set g1 onto the set g2 *)
Definition iso (g1 g2 : graph) : Prop :=
  exists f, inj_on f (blanks g1) /\ gseteq (rename_g f g1) g2.

(* ------------------------------------------------------------------ *)
(* Decision procedure: backtracking over partial assignments *)

Definition amap := list (N * N).

Fixpoint lookup (m : amap) (x : N) : option N :=
  match m with
  | [] => None
  | (a, b) :: r => if N.eqb x a then Some b else lookup r x
  end.

Definition app_m (m : amap) (x : N) : N :=
  match lookup m x with Some y => y | None => 0%N end.

Definition assigned (m : amap) (t : triple) : bool :=
  forallb (fun x => match lookup m x with Some _ => true | None => false end) (blanks_t t).

Fixpoint all_of (f : triple -> bool) (l : graph) : bool :=
  match l with [] => true | t :: r => if f t then all_of f r else false end.

(* pruning: every triple of g1 all of whose blank nodes are assigned must
   already have its image in g2 *)
Definition ok_partial (g1 g2 : graph) (x : N) (m : amap) : bool :=
  all_of (fun t => if memb N.eqb x (blanks_t t)
                   then (if assigned m t then gmem (rename_t (app_m m) t) g2 else true)
                   else true) g1.
(* only the triples that mention the blank node assigned last need a look:
   the others were examined when their last blank node was assigned *)

Definition final_ok (g1 g2 : graph) (b1 : list N) (m : amap) : bool :=
  gseteqb (rename_g (app_m m) g1) g2 && nodupb N.eqb (map (app_m m) b1).

(* [existsb] / [&&] written with [if]: vm_compute is call-by-value, the
   alternatives must not be evaluated once one has succeeded, nor the subtree
   below an assignment that the pruning rejects *)
Fixpoint try_each (f : N -> bool) (l : list N) : bool :=
  match l with [] => false | y :: r => if f y then true else try_each f r end.

Fixpoint search (g1 g2 : graph) (b1 : list N) (todo : list N) (m : amap) (avail : list N) : bool :=
  match todo with
  | [] => final_ok g1 g2 b1 m
  | x :: r =>
      try_each (fun y => let m' := (x, y) :: m in
                         if ok_partial g1 g2 x m' then search g1 g2 b1 r m' (srem N.eqb y avail) else false)
               avail
  end.

(* an ordering heuristic (breadth first through shared triples), so that the
   pruning bites early; correctness does not depend on it *)
Definition adjacent (g : graph) (x : N) (done : list N) : bool :=
  existsb (fun t => let b := blanks_t t in
                    memb N.eqb x b && existsb (fun y => memb N.eqb y done) b) g.

Fixpoint order_aux (fuel : nat) (g : graph) (rest done : list N) : list N :=
  match fuel with
  | O => done
  | S k =>
      match rest with
      | [] => done
      | d :: _ =>
          let x := match find (fun x => adjacent g x done) rest with Some x => x | None => d end in
          order_aux k g (srem N.eqb x rest) (done ++ [x])
      end
  end.

Definition bset (g : graph) : list N := dedup N.eqb (blanks g).

Definition todo_of (g : graph) : list N :=
  let b := bset g in
  dedup N.eqb (filter (fun x => memb N.eqb x b) (order_aux (length b) g b []) ++ b).

Definition iso_dec (g1 g2 : graph) : bool :=
  search g1 g2 (bset g1) (todo_of g1) [] (bset g2).

(* ------------------------------------------------------------------ *)
(* The set operators graph_diff is built from (Graph.__mul__, __sub__) and
   the union the property speaks of *)
Definition g_inter (g h : graph) : graph := sinter triple_eqb g h.
Definition g_diff (g h : graph) : graph := sdiff triple_eqb g h.
Definition g_union (g h : graph) : graph := sunion triple_eqb g h.

(* ------------------------------------------------------------------ *)
(* Correspondence check *)

Record case := { c_g1 : graph; c_g2 : graph }.

Record obs := {
  o_iso : bool;        (* compare.isomorphic(g1, g2) *)
  o_toiso : bool;      (* to_isomorphic(g1) == to_isomorphic(g2) *)
  o_caneq : bool;      (* set(to_canonical_graph(g1)) == set(to_canonical_graph(g2)) *)
  o_alt1 : bool;       (* compare.isomorphic(g1, g2) in a process with another PYTHONHASHSEED *)
  o_alt2 : bool;       (* ... and with a third one (set order was part of the repaired defect FC14b) *)
  o_cg1 : graph;       (* to_canonical_graph(g1); canonical labels numbered per case *)
  o_cg2 : graph;
  o_both : graph;      (* graph_diff(g1, g2) *)
  o_first : graph;
  o_second : graph;
  o_sk : graph;        (* g1.skolemize().de_skolemize(), labels as in the case *)
  o_skv : graph        (* g1.skolemize(authority=.., basepath=.., new_graph=.., bnode=..).de_skolemize() for a
                          basepath under /.well-known/genid/ : blank labels may be fresh *)
}.

Definition maxblank (g : graph) : N := fold_left N.max (blanks g) 0%N.
Definition shift_g (k : N) (g : graph) : graph := rename_g (fun x => (x + k)%N) g.

(* The model's prediction for verdict [i] (the oracle's, see [model_obs]); the canonical graphs are *a* valid choice: g1 itself,
   and for g2 the same graph when the inputs are isomorphic, otherwise g2 with
   labels moved away from those of g1.  rdflib's actual labels are hashes the
   model does not compute; [obs_eqb] compares only what is determined. *)
Definition model_obs_with (i : bool) (c : case) : obs :=
  let g1 := c_g1 c in let g2 := c_g2 c in
  let cg1 := g1 in
  let cg2 := if i then g1 else shift_g (N.succ (maxblank g1)) g2 in
  {| o_iso := i; o_toiso := i; o_caneq := i; o_alt1 := i; o_alt2 := i;
     o_cg1 := cg1; o_cg2 := cg2;
     o_both := g_inter cg1 cg2; o_first := g_diff cg1 cg2; o_second := g_diff cg2 cg1;
     o_sk := g1; o_skv := g1 |}.

Definition model_obs (c : case) : obs := model_obs_with (iso_dec (c_g1 c) (c_g2 c)) c.

Definition isnil (g : graph) : bool := match g with [] => true | _ => false end.

(* agreement of two observations on everything the model determines (that the
   canonical graphs are relabellings of the inputs is the checker's business) *)
Definition obs_eqb (a b : obs) : bool :=
  Bool.eqb (o_iso a) (o_iso b) && Bool.eqb (o_toiso a) (o_toiso b) && Bool.eqb (o_caneq a) (o_caneq b)
  && Bool.eqb (o_alt1 a) (o_alt1 b) && Bool.eqb (o_alt2 a) (o_alt2 b)
  && (if o_iso a then Nat.eqb (length (o_both a)) (length (o_both b))
                      && Bool.eqb (isnil (o_first a)) (isnil (o_first b))
                      && Bool.eqb (isnil (o_second a)) (isnil (o_second b))
      else true)
  && gseteqb (o_sk a) (o_sk b).

(* The specification, as a checker over what was observed, written against
   [iso_dec] (= iso) and the set operators only. *)
Definition spec_verdicts (c : case) (o : obs) : bool :=
  let i := iso_dec (c_g1 c) (c_g2 c) in
  Bool.eqb (o_iso o) i && Bool.eqb (o_toiso o) i && Bool.eqb (o_caneq o) i
  && Bool.eqb (o_alt1 o) i && Bool.eqb (o_alt2 o) i.

Definition spec_canon (c : case) (o : obs) : bool :=
  iso_dec (o_cg1 o) (c_g1 c) && iso_dec (o_cg2 o) (c_g2 c)
  && Bool.eqb (gseteqb (o_cg1 o) (o_cg2 o)) (iso_dec (c_g1 c) (c_g2 c)).

Definition spec_diff (c : case) (o : obs) : bool :=
  iso_dec (g_union (o_both o) (o_first o)) (c_g1 c)
  && iso_dec (g_union (o_both o) (o_second o)) (c_g2 c)
  && isnil (g_inter (o_first o) (o_second o))
  && gseteqb (o_both o) (g_inter (o_cg1 o) (o_cg2 o))
  && gseteqb (o_first o) (g_diff (o_cg1 o) (o_cg2 o))
  && gseteqb (o_second o) (g_diff (o_cg2 o) (o_cg1 o)).

Definition spec_skolem (c : case) (o : obs) : bool :=
  iso_dec (o_sk o) (c_g1 c) && iso_dec (o_skv o) (c_g1 c).

Definition spec_ok (c : case) (o : obs) : bool :=
  spec_verdicts c o && spec_canon c o && spec_diff c o && spec_skolem c o.
