(* C14 - the colour-refinement core of rdflib/compare.py (Color.distinguish),
   with the colour hash abstracted: hash_color is a sum of SHA-256 values of the
   colour's items, which is modelled as "equal hash <-> equal multiset of
   items" (assumption MA3), so a colour class is keyed by its item list up to
   permutation.  Proved: one refinement step only splits a colour class (the
   new classes partition its nodes), and the signature a node is split by is
   invariant under an injective renaming of blank nodes PROVIDED no blank node
   stands in predicate position (the predicate itself is part of the item -
   with a blank predicate its label leaks, finding FC14a).
   _refine's work-list, _traces and the individualisation search are not
   modelled. *)
From Coq Require Import Permutation.
From RV Require Import Iso.Model Iso.Proofs.

Inductive item := Out (p : term) (h : N) | Inc (p : term) (h : N).
(* (1, p, W.hash_color())  and  (W.hash_color(), p, 3) *)

Record color := { nodes : list term; col : list item }.

Definition edge (a b : term) (t : triple) : bool :=
  term_eqb (fst (fst t)) a && term_eqb (snd t) b.
Definition pred_of (t : triple) : term := snd (fst t).

(* the items Color.distinguish appends for node n against colour W *)
Definition sig (g : graph) (hW : N) (W : list term) (n : term) : list item :=
  flat_map (fun node =>
              map (fun t => Out (pred_of t) hW) (filter (edge n node) g)
              ++ map (fun t => Inc (pred_of t) hW) (filter (edge node n) g)) W.

Section Group.
  Variable K : Type.
  Variable keq : K -> K -> bool.

  (* colors: dict[str, Color] - insertion ordered; colors[h].nodes.append(n) *)
  Fixpoint insert_group (k : K) (n : term) (gs : list (K * list term)) : list (K * list term) :=
    match gs with
    | [] => [(k, [n])]
    | (k', ns) :: r => if keq k k' then (k', ns ++ [n]) :: r else (k', ns) :: insert_group k n r
    end.

  Definition group_by (key : term -> K) (l : list term) : list (K * list term) :=
    fold_left (fun gs n => insert_group (key n) n gs) l [].

  Definition members (gs : list (K * list term)) : list term := flat_map snd gs.

  Lemma insert_group_perm k n gs : Permutation (members (insert_group k n gs)) (n :: members gs).
  Proof.
    induction gs as [|[k' ns] r IH]; simpl; auto.
    destruct (keq k k'); simpl.
    - unfold members. simpl. rewrite <- app_assoc. simpl.
      symmetry. apply Permutation_middle.
    - unfold members in *. simpl. rewrite IH. symmetry. apply Permutation_middle.
  Qed.

  Lemma fold_group_perm key l : forall gs,
    Permutation (members (fold_left (fun gs n => insert_group (key n) n gs) l gs)) (members gs ++ l).
  Proof.
    induction l as [|n l IH]; intros gs; simpl.
    - now rewrite app_nil_r.
    - rewrite IH, insert_group_perm. simpl. apply Permutation_middle.
  Qed.

  Lemma group_by_perm key l : Permutation (members (group_by key l)) l.
  Proof. unfold group_by. now rewrite fold_group_perm. Qed.
End Group.

(* Color.distinguish(W, graph): the nodes of c regrouped by colour ++ signature;
   [keq] is the equality of hashes, i.e. of item multisets *)
Definition distinguish (keq : list item -> list item -> bool) (g : graph) (c : color) (hW : N) (W : color)
  : list color :=
  map (fun kn => {| nodes := snd kn; col := fst kn |})
      (group_by _ keq (fun n => col c ++ sig g hW (nodes W) n) (nodes c)).

Theorem distinguish_splits keq g c hW W :
  Permutation (flat_map nodes (distinguish keq g c hW W)) (nodes c).
Proof.
  unfold distinguish. rewrite flat_map_concat_map, map_map. simpl.
  rewrite <- flat_map_concat_map. apply group_by_perm.
Qed.

(* --- invariance of the signature under renaming --- *)

Definition nopredb (g : graph) : Prop := forall t, In t g -> blanks_tm (pred_of t) = [].
Definition within (g : graph) (t : term) : Prop := forall x, In x (blanks_tm t) -> In x (blanks g).

Lemma rename_inj_within f g a b :
  inj_on f (blanks g) -> within g a -> within g b -> rename f a = rename f b -> a = b.
Proof.
  intros Hi Ha Hb. destruct a as [a|a], b as [b|b]; simpl; try congruence.
  intros [= E]. f_equal. apply Hi; auto; [apply Ha|apply Hb]; simpl; auto.
Qed.

Lemma term_eqb_rename f g a b :
  inj_on f (blanks g) -> within g a -> within g b ->
  term_eqb (rename f a) (rename f b) = term_eqb a b.
Proof.
  intros Hi Ha Hb.
  destruct (term_eqb_spec a b) as [->|N1]; destruct (term_eqb_spec (rename f b) (rename f b)) as [_|N2];
    try congruence.
  destruct (term_eqb_spec (rename f a) (rename f b)) as [E|_]; auto.
  exfalso. apply N1. eapply rename_inj_within; eauto.
Qed.

Lemma filter_map_comm (A B : Type) (h : A -> B) (P : B -> bool) l :
  filter P (map h l) = map h (filter (fun x => P (h x)) l).
Proof. induction l as [|a l IH]; simpl; auto. destruct (P (h a)); simpl; now rewrite IH. Qed.

Lemma within_triple g s p o : In (s, p, o) g -> within g s /\ within g o.
Proof.
  intros Ht. split; intros x Hx; apply blanks_In; exists (s, p, o); split; auto;
    simpl; rewrite !in_app_iff; auto.
Qed.

Lemma edge_items_rename (mk : term -> N -> item) f g hW a b :
  inj_on f (blanks g) -> nopredb g -> within g a -> within g b ->
  map (fun t => mk (pred_of t) hW) (filter (edge (rename f a) (rename f b)) (rename_g f g))
  = map (fun t => mk (pred_of t) hW) (filter (edge a b) g).
Proof.
  intros Hi Hp Ha Hb. unfold rename_g. rewrite filter_map_comm, map_map.
  rewrite (filter_ext_in (fun x => edge (rename f a) (rename f b) (rename_t f x)) (edge a b)).
  - apply map_ext_in. intros [[s p] o] Ht. apply filter_In in Ht. destruct Ht as [Ht _].
    specialize (Hp _ Ht). unfold pred_of in *. simpl in *.
    destruct p; simpl in *; [reflexivity|discriminate].
  - intros [[s p] o] Ht. destruct (within_triple g s p o Ht) as [Hs Ho].
    unfold edge. simpl. now rewrite !(term_eqb_rename f g).
Qed.

Theorem sig_rename f g hW W n :
  inj_on f (blanks g) -> nopredb g -> within g n -> (forall w, In w W -> within g w) ->
  sig (rename_g f g) hW (map (rename f) W) (rename f n) = sig g hW W n.
Proof.
  intros Hi Hp Hn HW. unfold sig. rewrite flat_map_concat_map, map_map, <- flat_map_concat_map.
  induction W as [|w W IH]; simpl; auto.
  rewrite IH by (intros; apply HW; simpl; auto).
  rewrite (edge_items_rename Out), (edge_items_rename Inc); auto; apply HW; simpl; auto.
Qed.
