(* C14 - INVARIANCE of the refinement under blank-node renaming.
   For a one-to-one renaming f of blank-node labels (blank predicates included
   since fix 07e5253f), every step of the model of _initial_color / Color.distinguish /
   _refine commutes with f: the colouring of the renamed graph IS the renamed
   colouring of the graph (same hashes, same order, nodes renamed).  Hence
   isomorphic graphs get corresponding partitions, and - for graphs on which
   refinement alone ends in a discrete colouring - equal canonical triples.
   The renaming keeps the ORDER of triples and of set iteration; independence
   of that order is the part of completeness that stays unproved (see
   Props/C14.v). *)
From RV Require Import Iso.Model Iso.Proofs Iso.Canon Iso.CanonProofs.

Lemma map_removelast {A B} (h : A -> B) l : removelast (map h l) = map h (removelast l).
Proof.
  induction l as [|a [|b r] IH]; simpl; auto. simpl in IH. now rewrite IH.
Qed.

Lemma map_last {A B} (h : A -> B) l d : last (map h l) (h d) = h (last l d).
Proof. induction l as [|a [|b r] IH]; simpl; auto. Qed.

Lemma map_hd {A B} (h : A -> B) l d : hd (h d) (map h l) = h (hd d l).
Proof. destruct l; auto. Qed.

Lemma map_tl {A B} (h : A -> B) l : tl (map h l) = map h (tl l).
Proof. destruct l; auto. Qed.

Lemma filter_map_comm {A B} (h : A -> B) (P : B -> bool) l :
  filter P (map h l) = map h (filter (fun x => P (h x)) l).
Proof. induction l as [|a l IH]; simpl; auto. destruct (P (h a)); simpl; now rewrite IH. Qed.

Lemma forallb_map' {A B} (h : A -> B) (P : B -> bool) l : forallb P (map h l) = forallb (fun x => P (h x)) l.
Proof. induction l; simpl; auto. now rewrite IHl. Qed.
Lemma forallb_ext' {A} (P Q : A -> bool) l : (forall x, P x = Q x) -> forallb P l = forallb Q l.
Proof. intros H. induction l; simpl; auto. now rewrite H, IHl. Qed.
Lemma existsb_map' {A B} (h : A -> B) (P : B -> bool) l : existsb P (map h l) = existsb (fun x => P (h x)) l.
Proof. induction l; simpl; auto. now rewrite IHl. Qed.
Lemma existsb_ext' {A} (P Q : A -> bool) l : (forall x, P x = Q x) -> existsb P l = existsb Q l.
Proof. intros H. induction l; simpl; auto. now rewrite H, IHl. Qed.

Section E.
  Variable hashfunc : str -> N.
  Variable n3 : term -> str.
  Variable hexs : N -> str.
  Variable decs : nat -> str.
  Variable tstr : ctriple -> str.
  Variable f : N -> N.
  Hypothesis f_inj : forall x y, f x = f y -> x = y.

  Notation rt := (rename f).
  Notation mkc := (mkc hashfunc n3 hexs decs).
  Notation m_distinguish := (m_distinguish hashfunc n3 hexs decs).
  Notation refine_one := (refine_one hashfunc n3 hexs decs).
  Notation refine_loop := (refine_loop hashfunc n3 hexs decs).
  Notation m_refine := (m_refine hashfunc n3 hexs decs).
  Notation m_initial_color := (m_initial_color hashfunc n3 hexs decs).
  Notation sig := (sig).

  Lemma rt_inj a b : rt a = rt b -> a = b.
  Proof. destruct a, b; simpl; try congruence. intros [= E]. f_equal. auto. Qed.

  Lemma term_eqb_rt a b : term_eqb (rt a) (rt b) = term_eqb a b.
  Proof.
    destruct (term_eqb_spec a b) as [->|N1].
    - destruct (term_eqb_spec (rt b) (rt b)); congruence.
    - destruct (term_eqb_spec (rt a) (rt b)) as [E|]; auto. apply rt_inj in E. congruence.
  Qed.

  Lemma is_bnode_rt a : is_bnode (rt a) = is_bnode a.
  Proof. destruct a; auto. Qed.

  Lemma tmem_rt x l : tmem (rt x) (map rt l) = tmem x l.
  Proof. unfold tmem. induction l as [|y r IH]; simpl; auto. now rewrite term_eqb_rt, IH. Qed.

  Lemma tadd_rt x l : tadd (rt x) (map rt l) = map rt (tadd x l).
  Proof.
    unfold tadd, sadd. fold (tmem (rt x) (map rt l)). fold (tmem x l). rewrite tmem_rt.
    destruct (tmem x l); auto. now rewrite map_app.
  Qed.

  Lemma list_eqb_rt l1 l2 : list_eqb term_eqb (map rt l1) (map rt l2) = list_eqb term_eqb l1 l2.
  Proof.
    revert l2. induction l1 as [|a r IH]; intros [|b s]; simpl; auto. now rewrite term_eqb_rt, IH.
  Qed.

  Lemma remove_first_rt x l : remove_first_t (rt x) (map rt l) = map rt (remove_first_t x l).
  Proof. induction l as [|y r IH]; simpl; auto. rewrite term_eqb_rt. destruct (term_eqb x y); simpl; congruence. Qed.

  (* renaming a colour: the nodes change, the colour (items, hash) does not *)
  Definition rc (c : color) : color :=
    {| nodes := map rt (nodes c); col := col c; cnode := option_map rt (cnode c); chash := chash c |}.
  Notation rcs := (map rc).

  Lemma ckey_rc c : ckey (rc c) = ckey c.
  Proof. unfold ckey, hash_color. simpl. now rewrite map_length. Qed.

  Lemma c_discrete_rc c : c_discrete (rc c) = c_discrete c.
  Proof. unfold c_discrete. simpl. now rewrite map_length. Qed.

  Lemma m_discrete_rcs cs : m_discrete (rcs cs) = m_discrete cs.
  Proof. unfold m_discrete. induction cs; simpl; auto. now rewrite c_discrete_rc, IHcs. Qed.

  Lemma ins_desc_rc x l : ins_desc (rc x) (rcs l) = rcs (ins_desc x l).
  Proof.
    induction l as [|y r IH]; simpl; auto. rewrite !ckey_rc.
    destruct (key_cmp (ckey x) (ckey y)); simpl; auto. now rewrite IH.
  Qed.

  Lemma sort_desc_rc l : sort_desc (rcs l) = rcs (sort_desc l).
  Proof. unfold sort_desc. induction l as [|x r IH]; simpl; auto. now rewrite IH, ins_desc_rc. Qed.

  Lemma color_eqb_rc a b : color_eqb (rc a) (rc b) = color_eqb a b.
  Proof. unfold color_eqb. simpl. now rewrite list_eqb_rt. Qed.

  Lemma remove_first_c_rc c l : remove_first_c (rc c) (rcs l) = rcs (remove_first_c c l).
  Proof. induction l as [|x r IH]; simpl; auto. rewrite color_eqb_rc. destruct (color_eqb c x); simpl; congruence. Qed.

  Lemma index_c_rc c l : index_c (rc c) (rcs l) = index_c c l.
  Proof. induction l as [|x r IH]; simpl; auto. rewrite color_eqb_rc, IH. reflexivity. Qed.

  Lemma merge_ins_rc c acc : merge_ins (rc c) (rcs acc) = rcs (merge_ins c acc).
  Proof.
    induction acc as [|x r IH]; simpl; auto. unfold hash_color at 1 2. simpl.
    fold (hash_color x). fold (hash_color c).
    destruct (str_eqb (hash_color x) (hash_color c)); simpl.
    - unfold rc. simpl. now rewrite map_app.
    - now rewrite IH.
  Qed.

  Lemma merge_colors_rc cs : merge_colors (rcs cs) = rcs (merge_colors cs).
  Proof.
    unfold merge_colors.
    assert (G : forall acc, fold_left (fun acc c => merge_ins c acc) (rcs cs) (rcs acc)
                            = rcs (fold_left (fun acc c => merge_ins c acc) cs acc)).
    { induction cs as [|c r IH]; simpl; intros acc; auto. now rewrite merge_ins_rc, IH. }
    apply (G []).
  Qed.

  (* ---- the graph-dependent steps ---- *)
  Variable g : graph.
  Notation g' := (rename_g f g).

  Lemma edge_rt a b t : edge (rt a) (rt b) (rename_t f t) = edge a b t.
  Proof. destruct t as [[s p] o]. unfold edge. simpl. now rewrite !term_eqb_rt. Qed.

  Lemma pred_rt t : ipred_of (pred_of (rename_t f t)) = ipred_of (pred_of t).
  Proof. destruct t as [[s p] o]. unfold pred_of. simpl. now destruct p. Qed.

  Lemma edge_items_rt (mk : ipred -> str -> citem) hW a b :
    map (fun t => mk (ipred_of (pred_of t)) hW) (filter (edge (rt a) (rt b)) g')
    = map (fun t => mk (ipred_of (pred_of t)) hW) (filter (edge a b) g).
  Proof.
    unfold rename_g. rewrite filter_map_comm, map_map.
    rewrite (filter_ext (fun x => edge (rt a) (rt b) (rename_t f x)) (edge a b)) by (intros; apply edge_rt).
    apply map_ext. intros t. now rewrite pred_rt.
  Qed.

  Lemma sig_rt hW W n : sig g' hW (map rt W) (rt n) = sig g hW W n.
  Proof.
    unfold Canon.sig. rewrite flat_map_concat_map, map_map, <- flat_map_concat_map.
    induction W as [|w W IH]; simpl; auto.
    now rewrite IH, (edge_items_rt IOut), (edge_items_rt IIn).
  Qed.

  Definition rgs (gs : list (str * color)) : list (str * color) :=
    map (fun hc => (fst hc, rc (snd hc))) gs.

  Lemma group_ins_rc h newc n gs :
    group_ins h newc (rt n) (rgs gs) = rgs (group_ins h newc n gs).
  Proof.
    induction gs as [|[h' c] r IH]; simpl; auto.
    destruct (str_eqb h h'); simpl.
    - unfold rc. simpl. now rewrite map_app.
    - now rewrite IH.
  Qed.

  Lemma distinguish_rc c W : m_distinguish g' (rc c) (rc W) = rcs (m_distinguish g c W).
  Proof.
    unfold Canon.m_distinguish. unfold hash_color. simpl.
    set (step' := fun gs n => _). set (step := fun gs n => _).
    assert (G : forall ns gs, fold_left step' (map rt ns) (rgs gs) = rgs (fold_left step ns gs)).
    { induction ns as [|n r IH]; simpl; intros gs; auto.
      rewrite <- IH. f_equal. unfold step', step. rewrite sig_rt. apply group_ins_rc. }
    change (@nil (str * color)) with (rgs []) at 1. rewrite (G (nodes c) []). unfold rgs. rewrite !map_map. reflexivity.
  Qed.

  Lemma refine_one_rc W st c :
    refine_one g' (rc W) (rcs (fst st), rcs (snd st)) (rc c)
    = (rcs (fst (refine_one g W st c)), rcs (snd (refine_one g W st c))).
  Proof.
    destruct st as [coloring sequence]. unfold Canon.refine_one. simpl fst. simpl snd.
    simpl nodes. rewrite map_length.
    change (Const 0) with (rt (Const 0)) at 1. rewrite map_hd, is_bnode_rt.
    destruct (Nat.ltb 1 (length (nodes c)) || is_bnode (hd (Const 0) (nodes c))); [|reflexivity].
    rewrite distinguish_rc, sort_desc_rc, remove_first_c_rc, index_c_rc.
    destruct (index_c c sequence) as [si|]; cbn [fst snd].
    - now rewrite !map_app, firstn_map, skipn_map.
    - now rewrite !map_app, map_tl.
  Qed.

  Lemma refine_fold_rc W snapshot : forall st,
    fold_left (refine_one g' (rc W)) (rcs snapshot) (rcs (fst st), rcs (snd st))
    = (rcs (fst (fold_left (refine_one g W) snapshot st)),
       rcs (snd (fold_left (refine_one g W) snapshot st))).
  Proof.
    induction snapshot as [|c r IH]; intros st; cbn [fold_left map]; auto.
    rewrite refine_one_rc. apply IH.
  Qed.

  Lemma mkc_nil_rc : rc (mkc [] [] None) = mkc [] [] None.
  Proof. reflexivity. Qed.

  Lemma refine_loop_rc fuel : forall coloring sequence,
    refine_loop g' fuel (rcs coloring) (rcs sequence)
    = option_map rcs (refine_loop g fuel coloring sequence).
  Proof.
    induction fuel as [|k IH]; intros coloring sequence; [reflexivity|].
    cbn [Canon.refine_loop]. destruct sequence as [|s0 sr]; [reflexivity|]. cbn [map].
    rewrite m_discrete_rcs. destruct (m_discrete coloring); [reflexivity|].
    change (rc s0 :: rcs sr) with (rcs (s0 :: sr)).
    rewrite <- mkc_nil_rc, map_last, map_removelast.
    pose proof (refine_fold_rc (last (s0 :: sr) (mkc [] [] None)) coloring
                               (coloring, removelast (s0 :: sr))) as F.
    cbn [fst snd] in F. rewrite F.
    destruct (fold_left _ coloring _) as [c' s']. cbn [fst snd]. apply IH.
  Qed.

  Theorem refine_rc fuel coloring sequence :
    m_refine g' fuel (rcs coloring) (rcs sequence) = option_map rcs (m_refine g fuel coloring sequence).
  Proof.
    unfold Canon.m_refine. rewrite sort_desc_rc, refine_loop_rc.
    destruct (refine_loop g fuel coloring (sort_desc sequence)); simpl; auto.
    now rewrite merge_colors_rc.
  Qed.

  (* ---- _initial_color ---- *)
  Lemma fold_tadd_rt xs acc :
    fold_left (fun acc x => tadd x acc) (map rt xs) (map rt acc)
    = map rt (fold_left (fun acc x => tadd x acc) xs acc).
  Proof. revert acc. induction xs as [|x r IH]; simpl; intros acc; auto. now rewrite tadd_rt, IH. Qed.

  Lemma init_step_rt st t :
    init_step (map rt (fst st), map rt (snd st)) (rename_t f t)
    = (map rt (fst (init_step st t)), map rt (snd (init_step st t))).
  Proof.
    destruct st as [bn ot], t as [[s p] o]. unfold init_step. simpl rename_t. cbv iota beta.
    set (ns := tadd o (tadd p (tadd s []))).
    assert (E : tadd (rt o) (tadd (rt p) (tadd (rt s) [])) = map rt ns).
    { unfold ns. change (@nil term) with (map rt []) at 1. now rewrite !tadd_rt. }
    rewrite E, !filter_map_comm.
    rewrite (filter_ext (fun x => is_bnode (rt x)) is_bnode) by apply is_bnode_rt.
    rewrite (filter_ext (fun x => negb (is_bnode (rt x))) (fun x => negb (is_bnode x)))
      by (intros; now rewrite is_bnode_rt).
    cbn [fst snd].
    destruct (filter is_bnode ns) as [|b bs] eqn:Eb; cbn [map fst snd]; auto.
    change (rt b :: map rt bs) with (map rt (b :: bs)). now rewrite !fold_tadd_rt.
  Qed.

  Lemma init_fold_rt ts : forall st,
    fold_left init_step (map (rename_t f) ts) (map rt (fst st), map rt (snd st))
    = (map rt (fst (fold_left init_step ts st)), map rt (snd (fold_left init_step ts st))).
  Proof.
    induction ts as [|t r IH]; intros st; simpl; auto. rewrite init_step_rt. apply IH.
  Qed.

  (* the "others" of _initial_color are non-blank terms *)
  Lemma init_step_others st t :
    Forall (fun x => is_bnode x = false) (snd st) ->
    Forall (fun x => is_bnode x = false) (snd (init_step st t)).
  Proof.
    destruct st as [bn ot], t as [[s p] o]. unfold init_step. simpl snd. intros H.
    destruct (filter is_bnode _); auto. simpl snd.
    set (xs := filter (fun x => negb (is_bnode x)) _).
    assert (Hx : Forall (fun x => is_bnode x = false) xs).
    { apply Forall_forall. intros x Hx. apply filter_In in Hx. destruct Hx as [_ Hx].
      now apply negb_true_iff in Hx. }
    clearbody xs. revert ot H. induction xs as [|x r IH]; simpl; intros ot H; auto.
    inversion Hx; subst. apply IH; auto. unfold tadd, sadd. destruct (memb term_eqb x ot); auto.
    apply Forall_app. split; auto.
  Qed.

  Lemma init_fold_others ts : forall st,
    Forall (fun x => is_bnode x = false) (snd st) ->
    Forall (fun x => is_bnode x = false) (snd (fold_left init_step ts st)).
  Proof. induction ts as [|t r IH]; simpl; intros st H; auto. apply IH. now apply init_step_others. Qed.

  Theorem initial_color_rc : m_initial_color g' = rcs (m_initial_color g).
  Proof.
    unfold Canon.m_initial_color, rename_g.
    pose proof (init_fold_rt g ([], [])) as F. simpl in F. rewrite F.
    pose proof (init_fold_others g ([], []) (Forall_nil _)) as O.
    destruct (fold_left init_step g ([], [])) as [bn others]. simpl in *.
    destruct bn as [|b bs]; simpl; auto. f_equal.
    rewrite !map_map. apply map_ext_in. intros x Hx.
    rewrite Forall_forall in O. specialize (O x Hx). destruct x; [reflexivity|discriminate].
  Qed.

  (* isomorphic graphs get corresponding partitions after _refine (same order of
     triples and of set iteration) *)
  Theorem refined_partition_invariant fuel :
    option_map (map nodes) (let c0 := m_initial_color g' in m_refine g' fuel c0 c0)
    = option_map (map (fun c => map rt (nodes c))) (let c0 := m_initial_color g in m_refine g fuel c0 c0).
  Proof.
    cbv zeta. rewrite initial_color_rc, refine_rc.
    destruct (m_refine g fuel _ _); simpl; auto. now rewrite map_map.
  Qed.

  (* ---- canonical triples when refinement alone decides ---- *)
  Lemma label_get_rc cs k :
    label_get (labels_of (rcs cs)) (rt k) = label_get (labels_of cs) k.
  Proof.
    unfold labels_of. induction cs as [|c r IH]; simpl; auto.
    rewrite IH. destruct (label_get _ k); auto.
    change (Const 0) with (rt (Const 0)) at 1. rewrite map_hd, term_eqb_rt. reflexivity.
  Qed.

  Lemma canon_all_rc cs : forall ts,
    canon_all (labels_of (rcs cs)) (map (rename_t f) ts) = canon_all (labels_of cs) ts.
  Proof.
    assert (T : forall t, canon_term (labels_of (rcs cs)) (rt t) = canon_term (labels_of cs) t).
    { intros [n|n]; simpl; auto. change (Blank (f n)) with (rt (Blank n)). now rewrite label_get_rc. }
    induction ts as [|[[s p] o] r IH]; simpl; auto.
    now rewrite !T, IH.
  Qed.

  Definition refine_decides (fuel : nat) : Prop :=
    exists cs, (let c0 := m_initial_color g in m_refine g fuel c0 c0) = Some cs /\ m_discrete cs = true.

  Theorem canonical_triples_label_independent_discrete fuel :
    refine_decides fuel ->
    m_canonical_triples hashfunc n3 hexs decs tstr g' fuel = m_canonical_triples hashfunc n3 hexs decs tstr g fuel.
  Proof.
    intros [cs [Hr Hd]]. unfold m_canonical_triples, final_coloring. cbv zeta in *.
    rewrite initial_color_rc, refine_rc, Hr. simpl. rewrite m_discrete_rcs, Hd.
    unfold rename_g. apply canon_all_rc.
  Qed.
  (* ================================================================== *)
  (* the individualisation search commutes with the renaming as well     *)
  Notation individuate := (individuate hashfunc n3 hexs decs).
  Notation m_experimental := (m_experimental hashfunc n3 hexs decs).
  Notation m_is_automorphism := (m_is_automorphism).
  Notation m_create_generator := (m_create_generator).
  Notation traces_step := (traces_step hashfunc n3 hexs decs).
  Notation m_traces := (m_traces hashfunc n3 hexs decs tstr).
  Notation final_coloring := (final_coloring hashfunc n3 hexs decs tstr).

  Lemma replace_nth_rc i c l : replace_nth i (rc c) (rcs l) = rcs (replace_nth i c l).
  Proof. revert i. induction l as [|x r IH]; intros [|i]; simpl; auto. now rewrite IH. Qed.

  Lemma individuate_rc coloring ci node :
    individuate (rcs coloring) ci (rt node)
    = (rcs (fst (individuate coloring ci node)), rc (snd (individuate coloring ci node))).
  Proof.
    unfold Canon.individuate. rewrite <- mkc_nil_rc, map_nth. cbn [fst snd].
    set (c := nth ci coloring (mkc [] [] None)).
    assert (E1 : mkc [rt node] (col (rc c) ++ [IInd (length (nodes (rc c)))]) None
                 = rc (mkc [node] (col c ++ [IInd (length (nodes c))]) None)).
    { unfold rc at 3. simpl. now rewrite map_length. }
    rewrite E1. f_equal. rewrite map_app. f_equal.
    rewrite <- replace_nth_rc. f_equal. unfold rc. simpl. now rewrite remove_first_rt.
  Qed.

  Lemma first_nondiscrete_rc cs : forall i,
    first_nondiscrete (rcs cs) i
    = option_map (fun jc => (fst jc, rc (snd jc))) (first_nondiscrete cs i).
  Proof.
    induction cs as [|c r IH]; intros i; simpl; auto. rewrite c_discrete_rc.
    destruct (c_discrete c); auto.
  Qed.

  Lemma experimental_rc fuel : forall cs,
    m_experimental g' fuel (rcs cs) = option_map rcs (m_experimental g fuel cs).
  Proof.
    induction fuel as [|k IH]; intros cs; [reflexivity|]. cbn [Canon.m_experimental].
    rewrite first_nondiscrete_rc. destruct (first_nondiscrete cs 0) as [[ci c]|]; [|reflexivity].
    cbn [option_map fst snd]. simpl nodes.
    change (Const 0) with (rt (Const 0)) at 1. rewrite map_hd, individuate_rc.
    destruct (individuate cs ci (hd (Const 0) (nodes c))) as [cs1 newc]. cbn [fst snd].
    change [rc newc] with (rcs [newc]). rewrite refine_rc.
    destruct (m_refine g (S k) cs1 [newc]) as [cs'|]; [|reflexivity]. apply IH.
  Qed.

  Definition rcand (c : term * nat) : term * nat := (rt (fst c), snd c).

  Lemma candidates_rc cs : candidates (rcs cs) = map rcand (candidates cs).
  Proof.
    unfold candidates. generalize 0%nat.
    induction cs as [|c r IH]; intros i; simpl; auto.
    rewrite c_discrete_rc, IH, map_app. f_equal.
    destruct (c_discrete c); simpl; auto. now rewrite !map_map.
  Qed.

  Definition rm (m : amapping) : amapping := map (fun kv => (rt (fst kv), rt (snd kv))) m.
  Definition rgr (gr : groupings) : groupings := map (fun kv => (rt (fst kv), map rt (snd kv))) gr.

  Lemma map_set_rt k v m : map_set (rt k) (rt v) (rm m) = rm (map_set k v m).
  Proof.
    induction m as [|[k' v'] r IH]; simpl; auto. rewrite term_eqb_rt.
    destruct (term_eqb k k'); simpl; auto. now rewrite IH.
  Qed.

  Lemma map_get_rt m k : map_get (rm m) (rt k) = rt (map_get m k).
  Proof.
    induction m as [|[k' v'] r IH]; simpl; auto. rewrite term_eqb_rt. destruct (term_eqb k k'); auto.
  Qed.

  Lemma dedup_acc_rt l : forall acc,
    dedup_acc term_eqb (map rt acc) (map rt l) = map rt (dedup_acc term_eqb acc l).
  Proof.
    induction l as [|x r IH]; simpl; intros acc; auto.
    fold (tadd (rt x) (map rt acc)). fold (tadd x acc). now rewrite tadd_rt, IH.
  Qed.

  Lemma triple_eqb_rt a b : triple_eqb (rename_t f a) (rename_t f b) = triple_eqb a b.
  Proof.
    destruct a as [[s p] o], b as [[s' p'] o']. unfold triple_eqb, pair_eqb. simpl.
    now rewrite !term_eqb_rt.
  Qed.

  Lemma gmem_rt t : gmem (rename_t f t) g' = gmem t g.
  Proof.
    unfold gmem, rename_g. induction g as [|u r IH]; simpl; auto.
    rewrite triple_eqb_rt. f_equal. apply IH.
  Qed.

  Lemma is_automorphism_rc m coloring :
    m_is_automorphism g' (rm m) (rcs coloring) = m_is_automorphism g m coloring.
  Proof.
    unfold Canon.m_is_automorphism. f_equal; [f_equal|].
    - unfold rm. rewrite map_map. simpl.
      rewrite <- (map_map snd rt). unfold dedup. change (@nil term) with (map rt []).
      now rewrite dedup_acc_rt, !map_length.
    - rewrite forallb_map'. apply forallb_ext'. intros c. simpl nodes. rewrite forallb_map'.
      apply forallb_ext'. intros n. now rewrite map_get_rt, tmem_rt.
    - unfold rename_g at 2. rewrite forallb_map'. apply forallb_ext'. intros [[s p] o]. simpl rename_t. cbv iota beta.
      rewrite !map_get_rt. exact (gmem_rt (map_get m s, map_get m p, map_get m o)).
  Qed.

  Lemma grp_get_rt gr k : grp_get (rgr gr) (rt k) = map rt (grp_get gr k).
  Proof. induction gr as [|[k' v] r IH]; simpl; auto. rewrite term_eqb_rt. destruct (term_eqb k k'); auto. Qed.
  Lemma grp_has_rt gr k : grp_has (rgr gr) (rt k) = grp_has gr k.
  Proof. induction gr as [|[k' v] r IH]; simpl; auto. now rewrite term_eqb_rt, IH. Qed.
  Lemma grp_set_rt k v gr : grp_set (rt k) (map rt v) (rgr gr) = rgr (grp_set k v gr).
  Proof.
    induction gr as [|[k' v'] r IH]; simpl; auto. rewrite term_eqb_rt.
    destruct (term_eqb k k'); simpl; auto. now rewrite IH.
  Qed.

  Definition mk_mapping (c1 c2 : list color) (m0 : amapping) : amapping :=
    fold_left (fun m ab => map_set (hd (Const 0) (nodes (fst ab))) (hd (Const 0) (nodes (snd ab))) m)
              (combine c1 c2) m0.
  Definition merge_orbits (mp : amapping) (gr0 : groupings) : groupings :=
    fold_left (fun gr (ab : term * term) =>
                 let '(a, b) := ab in
                 let s := fold_left (fun acc x => tadd x acc) (grp_get gr a ++ grp_get gr b)
                                    (tadd b (tadd a [])) in
                 fold_left (fun gr n => grp_set n s gr) s gr)
              mp gr0.

  Lemma mk_mapping_rc c1 : forall c2 m0,
    mk_mapping (rcs c1) (rcs c2) (rm m0) = rm (mk_mapping c1 c2 m0).
  Proof.
    unfold mk_mapping. induction c1 as [|a r IH]; intros [|b s] m0; simpl; auto.
    change (Const 0) with (rt (Const 0)). rewrite !map_hd, map_set_rt. apply IH.
  Qed.

  Lemma grp_set_fold_rt s0 s : forall gr,
    fold_left (fun gr n => grp_set n (map rt s) gr) (map rt s0) (rgr gr)
    = rgr (fold_left (fun gr n => grp_set n s gr) s0 gr).
  Proof. induction s0 as [|n ns IH]; intros gr; simpl; auto. rewrite grp_set_rt. apply IH. Qed.

  Lemma merge_orbits_rc mp : forall gr,
    merge_orbits (rm mp) (rgr gr) = rgr (merge_orbits mp gr).
  Proof.
    unfold merge_orbits. induction mp as [|[a b] r IH]; intros gr; simpl; auto.
    rewrite <- IH. f_equal. rewrite !grp_get_rt, <- map_app.
    change (@nil term) with (map rt []). rewrite !tadd_rt, fold_tadd_rt.
    apply grp_set_fold_rt.
  Qed.

  Lemma create_generator_rc c1 c2 gr coloring :
    m_create_generator g' (rcs c1) (rcs c2) (rgr gr) (rcs coloring)
    = rgr (m_create_generator g c1 c2 gr coloring).
  Proof.
    unfold Canon.m_create_generator.
    change (fold_left _ (combine (rcs c1) (rcs c2)) []) with (mk_mapping (rcs c1) (rcs c2) (rm [])).
    change (fold_left _ (combine c1 c2) []) with (mk_mapping c1 c2 []).
    rewrite mk_mapping_rc, is_automorphism_rc.
    destruct (m_is_automorphism g (mk_mapping c1 c2 []) coloring); auto.
    exact (merge_orbits_rc (mk_mapping c1 c2 []) gr).
  Qed.

  Definition rst (st : tstate) : tstate :=
    {| t_best := map rcs (t_best st); t_best_score := t_best_score st; t_best_exp := t_best_exp st;
       t_last := option_map rcs (t_last st); t_last_refined := rcs (t_last_refined st);
       t_gen := rgr (t_gen st); t_visited := map rt (t_visited st); t_kept := map rt (t_kept st);
       t_fail := t_fail st |}.

  Lemma map_ckey_rcs l : map (ckey) (rcs l) = map ckey l.
  Proof. rewrite map_map. apply map_ext, ckey_rc. Qed.

  Lemma traces_step_rc fuel coloring st cand :
    traces_step g' fuel (rcs coloring) (rst st) (rcand cand) = rst (traces_step g fuel coloring st cand).
  Proof.
    unfold Canon.traces_step. destruct cand as [candidate ci]. unfold rcand. cbn [fst snd].
    cbn [rst t_fail t_gen t_visited t_kept t_best t_best_score t_best_exp t_last t_last_refined].
    destruct (t_fail st); [reflexivity|].
    rewrite grp_has_rt, grp_get_rt, existsb_map'.
    rewrite (existsb_ext' _ (fun x => tmem x (t_visited st))) by (intros; apply tmem_rt).
    destruct (grp_has (t_gen st) candidate && existsb (fun x => tmem x (t_visited st)) (grp_get (t_gen st) candidate)).
    { unfold rst. cbn. now rewrite tadd_rt. }
    rewrite individuate_rc. destruct (individuate coloring ci candidate) as [copy newc]. cbn [fst snd].
    change [rc newc] with (rcs [newc]). rewrite refine_rc, experimental_rc.
    destruct (m_refine g fuel copy [newc]) as [refined|]; cbn [option_map];
      [|unfold rst; cbn; now rewrite tadd_rt].
    destruct (m_experimental g fuel copy) as [experimental|]; cbn [option_map];
      [|unfold rst; cbn; now rewrite tadd_rt].
    rewrite !map_ckey_rcs.
    assert (G : match option_map rcs (t_last st) with
                | Some (_ :: _ as lastc) =>
                    if match oscore_cmp (t_best_score st) (map ckey refined) with
                       | Some Eq => okeyset_eqb (map ckey experimental) (t_best_exp st)
                       | _ => false
                       end
                    then m_create_generator g' lastc (rcs experimental) (rgr (t_gen st)) (rcs coloring)
                    else rgr (t_gen st)
                | _ => rgr (t_gen st)
                end
                = rgr match t_last st with
                      | Some (_ :: _ as lastc) =>
                          if match oscore_cmp (t_best_score st) (map ckey refined) with
                             | Some Eq => okeyset_eqb (map ckey experimental) (t_best_exp st)
                             | _ => false
                             end
                          then m_create_generator g lastc experimental (t_gen st) coloring
                          else t_gen st
                      | _ => t_gen st
                      end).
    { destruct (t_last st) as [[|l0 lr]|]; cbn [option_map map]; auto.
      change (rc l0 :: rcs lr) with (rcs (l0 :: lr)).
      destruct (match oscore_cmp _ _ with Some Eq => _ | _ => false end); auto.
      apply create_generator_rc. }
    rewrite G.
    set (X := match t_last st with Some (_ :: _ as lastc) => _ | _ => t_gen st end).
    destruct (oscore_cmp (t_best_score st) (map ckey refined)) as [[| |]|];
      try (unfold rst; cbn; rewrite ?tadd_rt; reflexivity).
    rewrite grp_has_rt, grp_get_rt, existsb_map'.
    rewrite (existsb_ext' _ (fun x => tmem x (t_kept st))) by (intros; apply tmem_rt).
    destruct (grp_has X candidate && existsb (fun x => tmem x (t_kept st)) (grp_get X candidate));
      unfold rst; cbn; rewrite ?tadd_rt, ?map_app; reflexivity.
  Qed.

  Lemma traces_fold_rc fuel coloring cands : forall st,
    fold_left (traces_step g' fuel (rcs coloring)) (map rcand cands) (rst st)
    = rst (fold_left (traces_step g fuel coloring) cands st).
  Proof.
    induction cands as [|c r IH]; intros st; cbn [fold_left map]; auto.
    rewrite traces_step_rc. apply IH.
  Qed.

  Lemma filter_discrete_rcs l : filter m_discrete (map rcs l) = map rcs (filter m_discrete l).
  Proof.
    induction l as [|x r IH]; simpl; auto. rewrite m_discrete_rcs. destruct (m_discrete x); simpl; now rewrite IH.
  Qed.

  Lemma cert_of_rc cs : cert_of tstr g' (rcs cs) = cert_of tstr g cs.
  Proof. unfold cert_of, rename_g. now rewrite canon_all_rc. Qed.

  Lemma min_cert_rc rest : forall cur cc,
    min_cert tstr g' (rcs cur) cc (map rcs rest) = option_map rcs (min_cert tstr g cur cc rest).
  Proof.
    induction rest as [|d r IH]; intros cur cc; cbn [min_cert map]; auto.
    rewrite cert_of_rc. destruct (cert_of tstr g d) as [c|]; auto.
    destruct (cert_cmp c cc); apply IH.
  Qed.

  Lemma pick_leaf_rc ds : pick_leaf tstr g' (map rcs ds) = option_map rcs (pick_leaf tstr g ds).
  Proof.
    destruct ds as [|x [|y r]]; auto. unfold pick_leaf. cbn [map].
    rewrite cert_of_rc. destruct (cert_of tstr g x) as [c|]; auto.
    exact (min_cert_rc (y :: r) x c).
  Qed.

  Lemma all_some_rc (l : list (option (list color))) :
    all_some (map (option_map rcs) l) = option_map (map rcs) (all_some l).
  Proof.
    induction l as [|[a|] r IH]; simpl; auto. rewrite IH. destruct (all_some r); auto.
  Qed.

  Theorem traces_rc fuel : forall coloring,
    m_traces g' fuel (rcs coloring) = option_map rcs (m_traces g fuel coloring).
  Proof.
    induction fuel as [|k IH]; intros coloring; [reflexivity|]. cbn [Canon.m_traces].
    rewrite candidates_rc.
    set (st := fold_left (traces_step g k coloring) (candidates coloring) tstate0).
    assert (F : fold_left (traces_step g' k (rcs coloring)) (map rcand (candidates coloring)) tstate0 = rst st).
    { change (tstate0) with (rst tstate0) at 1. apply traces_fold_rc. }
    rewrite F. cbn [rst t_fail t_best]. destruct (t_fail st); [reflexivity|].
    rewrite filter_discrete_rcs.
    destruct (filter m_discrete (t_best st)) as [|d ds]; cbn [map].
    - rewrite map_map.
      rewrite (map_ext _ (fun b => option_map rcs (m_traces g k b))) by (intros; apply IH).
      rewrite <- (map_map (m_traces g k) (option_map rcs)), all_some_rc.
      destruct (all_some (map (m_traces g k) (t_best st))) as [leaves|]; cbn [option_map]; auto.
      apply pick_leaf_rc.
    - exact (pick_leaf_rc (d :: ds)).
  Qed.

  (* the canonical triples do not depend on the blank-node LABELS: a relabelled
     copy (same order of triples and of set iteration) gets literally the same *)
  Theorem canonical_triples_label_independent fuel :
    m_canonical_triples hashfunc n3 hexs decs tstr g' fuel = m_canonical_triples hashfunc n3 hexs decs tstr g fuel.
  Proof.
    unfold m_canonical_triples, Canon.final_coloring. cbv zeta.
    rewrite initial_color_rc, refine_rc.
    destruct (m_refine g fuel (m_initial_color g) (m_initial_color g)) as [cs|]; cbn [option_map]; [|reflexivity].
    rewrite m_discrete_rcs.
    destruct (m_discrete cs).
    - unfold rename_g. apply canon_all_rc.
    - rewrite traces_rc. destruct (m_traces g fuel cs); cbn [option_map]; [|reflexivity].
      unfold rename_g. apply canon_all_rc.
  Qed.
End E.

(* completeness on the class where refinement alone decides, for relabelled
   copies that keep the order of insertion / iteration *)
Theorem model_complete_discrete_sameorder
  (hashfunc : str -> N) (n3 : term -> str) (hexs : N -> str) (decs : nat -> str) (tstr : ctriple -> str)
  (f : N -> N) (g : graph) (fuel : nat) :
  (forall x y, f x = f y -> x = y) ->
  refine_decides hashfunc n3 hexs decs g fuel ->
  forall cts, m_canonical_triples hashfunc n3 hexs decs tstr g fuel = Some cts ->
  m_isomorphic hashfunc n3 hexs decs tstr fuel g (rename_g f g) = Some true.
Proof.
  intros Hf Hd cts Hc. unfold m_isomorphic, m_to_hash.
  rewrite (canonical_triples_label_independent_discrete hashfunc n3 hexs decs tstr f Hf g fuel Hd), Hc.
  now rewrite N.eqb_refl.
Qed.

Theorem model_complete_sameorder
  (hashfunc : str -> N) (n3 : term -> str) (hexs : N -> str) (decs : nat -> str) (tstr : ctriple -> str)
  (f : N -> N) (g : graph) (fuel : nat) :
  (forall x y, f x = f y -> x = y) ->
  forall cts, m_canonical_triples hashfunc n3 hexs decs tstr g fuel = Some cts ->
  m_isomorphic hashfunc n3 hexs decs tstr fuel g (rename_g f g) = Some true.
Proof.
  intros Hf cts Hc. unfold m_isomorphic, m_to_hash.
  rewrite (canonical_triples_label_independent hashfunc n3 hexs decs tstr f Hf g fuel), Hc.
  now rewrite N.eqb_refl.
Qed.
