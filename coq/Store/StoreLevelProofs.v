(* Store-level behaviour of Memory (context=None, contexts(), add_graph,
   remove_graph) and of SimpleMemory, against the quad set. *)
From Coq Require Import Arith Lia.
From RV Require Import Store.Model Store.IndexProofs Store.SimpleProofs Store.MemProofs Store.GraphProofs
                       Store.Iter Store.IterProofs Store.StoreLevel.

Local Notation Ts := triple_eqb_spec.
Local Notation Ks := ckey_eqb_spec.

Lemma holds_k_iff m k t : mem_holds_k m k t = true <-> leaf (m_spo m) t = true /\ In k (mem_ctxs m t).
Proof.
  unfold mem_holds_k. rewrite andb_true_iff, mem_leaf_eq. split; intros [H1 H2]; split; auto.
  - rewrite has_ctx_leaf in H2 by auto. now apply kmemb_In.
  - rewrite has_ctx_leaf by auto. now apply kmemb_In.
Qed.

Lemma holds_k_some m c t : mem_holds_k m (Some c) t = mem_holds m c t.
Proof. reflexivity. Qed.

(* the union view: a triple is in the default context iff it is stored iff some graph holds it *)
Lemma holds_k_none m t : MemInv m -> mem_holds_k m None t = leaf (m_spo m) t.
Proof.
  intros Hi. apply bool_iff. rewrite holds_k_iff. split; [tauto|]. intros Hl. split; auto.
  now destruct (mi_ctxs Hi t Hl) as (_ & H & _).
Qed.

Lemma leaf_some_graph m t : MemInv m -> (leaf (m_spo m) t = true <-> exists c, mem_holds m c t = true).
Proof.
  intros Hi. split.
  - intros Hl. destruct (mi_ctxs Hi t Hl) as (_ & _ & c & Hc). exists c. apply holds_iff. auto.
  - intros (c & Hc). now apply holds_iff in Hc.
Qed.

Theorem mem_triples_k_exact m k p :
  MemInv m ->
  NoDup (mem_triples_k m k p) /\
  forall t, In t (mem_triples_k m k p) <-> matches p t = true /\ mem_holds_k m k t = true.
Proof.
  intros Hi.
  assert (Hgen : NoDup (filter (fun t => mem_has_ctx m t k) (idx_triples (m_spo m) (m_pos m) (m_osp m) p)) /\
          forall t, In t (filter (fun t => mem_has_ctx m t k) (idx_triples (m_spo m) (m_pos m) (m_osp m) p))
                    <-> matches p t = true /\ mem_holds_k m k t = true).
  { destruct (idx_triples_exact p (mi_idx Hi)) as [Hn Hin]. split; [now apply filter_NoDup|].
    intros t. rewrite filter_In, Hin, holds_k_iff. split.
    - intros [[H1 H2] H3]. rewrite has_ctx_leaf in H3 by auto. apply kmemb_In in H3. auto.
    - intros [H1 [H2 H3]]. split; auto. rewrite has_ctx_leaf by auto. now apply kmemb_In. }
  destruct p as [[[s|] [pp|]] [o|]]; try exact Hgen.
  cbn [mem_triples_k]. split.
  - unfold pd_getd. destruct (pd_get ckey_eqb k (m_ct m)) as [l|] eqn:E; [|constructor].
    exact (mi_ct_sets Hi _ _ E).
  - intros t. rewrite (mi_ct Hi), holds_k_iff. destruct t as [[x y] z]. simpl. tauto.
Qed.

(* ---------- remove with context=None *)
Lemma rem_ctx_all m t k : m_all (mem_rem_ctx m t k) = m_all m.
Proof. reflexivity. Qed.

Lemma fold_rem_facts t0 l : forall m,
  (forall d, m_def m = Some d -> NoDup d) -> NoDup (mem_ctxs m t0) ->
  let m1 := fold_left (fun m k => mem_rem_ctx m t0 k) l m in
  m_def m1 = m_def m /\ m_spo m1 = m_spo m /\ m_pos m1 = m_pos m /\ m_osp m1 = m_osp m /\ m_all m1 = m_all m /\
  NoDup (mem_ctxs m1 t0) /\
  (forall k', In k' (mem_ctxs m1 t0) <-> In k' (mem_ctxs m t0) /\ ~ In k' l) /\
  (forall t, t <> t0 -> mem_ctxs m1 t = mem_ctxs m t) /\
  ((forall k x, pd_get ckey_eqb k (m_ct m) = Some x -> NoDup x) ->
   forall k x, pd_get ckey_eqb k (m_ct m1) = Some x -> NoDup x) /\
  (forall k' t, In t (pd_getd ckey_eqb k' (m_ct m1)) <->
                In t (pd_getd ckey_eqb k' (m_ct m)) /\ ~ (In k' l /\ t = t0)) /\
  (forall t d, pd_get triple_eqb t (m_tc m1) = Some d -> t = t0 \/ pd_get triple_eqb t (m_tc m) = Some d).
Proof.
  induction l as [|k r IH]; intros m Hdd Hnd; cbn [fold_left].
  - repeat (split; [solve [auto]|]). split; [intros k'; simpl; tauto|]. split; [auto|]. split; [auto|].
    split; [intros k' t; simpl; tauto|auto].
  - destruct (rem_ctx_facts m t0 k Hdd Hnd) as (D1 & S1 & P1 & O1 & N1 & I1 & T1 & Z1 & C1 & L1).
    set (m1 := mem_rem_ctx m t0 k) in *.
    assert (Hdd1 : forall d, m_def m1 = Some d -> NoDup d) by (intros d; rewrite D1; apply Hdd).
    destruct (IH m1 Hdd1 N1) as (D2 & S2 & P2 & O2 & A2 & N2 & I2 & T2 & Z2 & C2 & L2).
    split; [congruence|]. split; [congruence|]. split; [congruence|]. split; [congruence|].
    split; [rewrite A2; reflexivity|]. split; [exact N2|].
    split; [|split; [|split; [|split]]].
    + intros k'. rewrite I2, I1. simpl. intuition congruence.
    + intros t Hne. rewrite T2, T1; auto.
    + intros Hs. apply Z2, Z1, Hs.
    + intros k' t. rewrite C2, C1. simpl. split.
      * intros [[A B] C]. split; auto. intros [[E|E] F]; [apply B; split; [congruence|auto]|apply C; auto].
      * intros [A B]. split; [split; auto|]; intros [E F]; apply B; split; auto.
    + intros t d H. destruct (L2 t d H) as [?|H']; auto.
Qed.

Theorem mem_remove1_none_ok m t0 :
  MemInv m -> leaf (m_spo m) t0 = true ->
  MemInv (mem_remove1_none m t0) /\ m_all (mem_remove1_none m t0) = m_all m /\
  forall k t, mem_holds_k (mem_remove1_none m t0) k t = mem_holds_k m k t && negb (triple_eqb t t0).
Proof.
  intros Hi Hl0. destruct (mi_ctxs Hi t0 Hl0) as (Hnd0 & _ & _).
  unfold mem_remove1_none.
  destruct (fold_rem_facts t0 (mem_ctxs m t0) m (mi_def_nd Hi) Hnd0)
    as (D1 & S1 & P1 & O1 & A1 & N1 & I1 & T1 & Z1 & C1 & L1).
  set (m1 := fold_left (fun m k => mem_rem_ctx m t0 k) (mem_ctxs m t0) m) in *.
  assert (HL : mem_ctxs m1 t0 = []).
  { apply nil_of_noin. intros k Hk. apply I1 in Hk. tauto. }
  rewrite HL. cbn [memb length Nat.eqb]. rewrite HL. cbn [length Nat.eqb].
  assert (Hleaf : forall t, leaf (m_spo (mem_del_leaf m1 t0)) t = leaf (m_spo m) t && negb (triple_eqb t t0)).
  { intros t. rewrite del_leaf_leaf, S1. reflexivity. }
  assert (Hctx : forall t, t <> t0 -> mem_ctxs (mem_del_leaf m1 t0) t = mem_ctxs m t).
  { intros t Hne. rewrite del_leaf_ctxs, T1; auto. }
  assert (Hct : m_ct (mem_del_leaf m1 t0) = m_ct m1) by (destruct t0 as [[s p] o]; reflexivity).
  assert (Hdf : m_def (mem_del_leaf m1 t0) = m_def m) by (destruct t0 as [[s p] o]; cbn; congruence).
  assert (Hal : m_all (mem_del_leaf m1 t0) = m_all m) by (destruct t0 as [[s p] o]; cbn; congruence).
  split; [|split; [exact Hal|]].
  - constructor.
    + destruct t0 as [[s p] o]. cbn [mem_del_leaf m_spo m_pos m_osp]. rewrite S1, P1, O1.
      apply coherent_del, (mi_idx Hi).
    + intros t d. rewrite Hleaf. destruct t0 as [[s0 p0] o0]. cbn [mem_del_leaf m_tc].
      rewrite (pd_get_del Ts). destruct (Ts t (s0, p0, o0)) as [->|Hne]; [discriminate|].
      intros H. destruct (L1 t d H) as [?|H1']; [congruence|]. rewrite (mi_tc_leaf Hi t d H1'). reflexivity.
    + intros t. rewrite Hleaf, Hdf. intros H. apply andb_true_iff in H. apply (mi_def Hi t), H.
    + intros d. rewrite Hdf. apply (mi_def_nd Hi).
    + intros t. rewrite Hleaf. intros H. apply andb_true_iff in H. destruct H as [Hl Hne].
      apply negb_true_iff, teqb_neq in Hne. rewrite Hctx; auto. now apply (mi_ctxs Hi).
    + rewrite Hct. apply Z1, (mi_ct_sets Hi).
    + intros k t. rewrite Hct, C1, (mi_ct Hi), Hleaf. destruct (Ts t t0) as [->|Hne]; simpl.
      * rewrite andb_false_r. split; [|intros [H _]; discriminate]. intros [[_ Hk] H]. exfalso. apply H. auto.
      * rewrite andb_true_r, Hctx by auto. intuition congruence.
  - intros k t. apply bool_iff. rewrite andb_true_iff, negb_true_iff, !holds_k_iff, Hleaf.
    destruct (Ts t t0) as [->|Hne]; simpl.
    + rewrite andb_false_r. split; [intros [H _]; discriminate|intros [_ H]; discriminate].
    + rewrite andb_true_r, Hctx by auto. tauto.
Qed.

Lemma mem_fold_remove_none l : forall m,
  MemInv m -> NoDup l -> (forall t, In t l -> leaf (m_spo m) t = true) ->
  MemInv (fold_left mem_remove1_none l m) /\ m_all (fold_left mem_remove1_none l m) = m_all m /\
  forall k t, mem_holds_k (fold_left mem_remove1_none l m) k t = mem_holds_k m k t && negb (memb triple_eqb t l).
Proof.
  induction l as [|t0 r IH]; simpl; intros m Hi Hn Hh.
  - split; auto. split; auto. intros k t. now rewrite andb_true_r.
  - inversion Hn as [|? ? Hnin Hr]; subst.
    destruct (mem_remove1_none_ok m t0 Hi (Hh t0 (or_introl eq_refl))) as (Hi1 & Ha1 & Hh1).
    destruct (IH (mem_remove1_none m t0) Hi1 Hr) as (Hi2 & Ha2 & Hh2).
    { intros t Ht. pose proof (Hh1 None t) as E. rewrite !holds_k_none in E by auto. rewrite E, (Hh t (or_intror Ht)).
      simpl. destruct (Ts t t0) as [->|]; [tauto|reflexivity]. }
    split; auto. split; [congruence|]. intros k t. rewrite Hh2, Hh1.
    destruct (mem_holds_k m k t), (triple_eqb t t0), (memb triple_eqb t r); reflexivity.
Qed.

(* Memory.remove(pattern, context=None): every graph loses the matching triples *)
Theorem mem_remove_none_ok m p :
  MemInv m ->
  MemInv (mem_remove_none m p) /\ m_all (mem_remove_none m p) = m_all m /\
  forall k t, mem_holds_k (mem_remove_none m p) k t = mem_holds_k m k t && negb (matches p t).
Proof.
  intros Hi. destruct (mem_triples_k_exact m None p Hi) as [Hn Hin].
  destruct (mem_fold_remove_none (mem_triples_k m None p) m Hi Hn) as (Hi' & Ha' & Hh').
  { intros t Ht. apply Hin in Ht. destruct Ht as [_ Ht]. now rewrite holds_k_none in Ht. }
  split; auto. split; auto. intros k t. unfold mem_remove_none. rewrite Hh'.
  destruct (mem_holds_k m k t) eqn:E1; simpl; auto. f_equal. apply bool_iff. rewrite tmemb_In, Hin.
  assert (Hl : mem_holds_k m None t = true).
  { rewrite holds_k_none by auto. apply holds_k_iff in E1. tauto. }
  rewrite Hl. tauto.
Qed.

(* ---------- all_contexts *)
Lemma all_add m c t : m_all (mem_add m c t) = sadd N.eqb c (m_all m).
Proof. destruct t as [[s p] o]. unfold mem_add. destruct (idx_has s p o (m_spo m)); reflexivity. Qed.

Lemma all_remove1 c m t : m_all (mem_remove1 c m t) = m_all m.
Proof.
  unfold mem_remove1. destruct t as [[s p] o].
  repeat match goal with |- context [if ?b then _ else _] => destruct b end; reflexivity.
Qed.

Lemma all_remove m c p : m_all (mem_remove m c p) = m_all m.
Proof.
  unfold mem_remove.
  assert (H : forall l m0, m_all (fold_left (mem_remove1 c) l m0) = m_all m0).
  { induction l as [|t r IH]; simpl; intros m0; auto. now rewrite IH, all_remove1. }
  destruct (pd_get ckey_eqb (Some c) (m_ct (fold_left (mem_remove1 c) (mem_triples m c p) m))) as [[|x r]|];
    cbn [m_all]; apply H.
Qed.

Lemma MemInv_set_all m a : MemInv m -> MemInv (mem_set_all m a).
Proof. intros Hi. constructor; cbn; apply Hi. Qed.

(* ---------- the relation with the specification *)
Definition TRelM (m : mem) (s : tspec) : Prop :=
  MemInv m /\ HoldsRel m (ts_q s) /\ NoDup (ts_q s) /\ NoDup (m_all m) /\ forall c, In c (m_all m) <-> In c (ts_known s).

Definition TRelS (m : smem) (s : tspec) : Prop :=
  sm_inv m /\ (forall t, sm_holds m t = q_mem (t, 0%N) (ts_q s)) /\ NoDup (ts_q s)
  /\ (forall q, In q (ts_q s) -> snd q = 0%N) /\ ts_known s = [].

Definition TRel (st : store) (simple : bool) (s : tspec) : Prop :=
  match st with
  | SMem m => simple = false /\ TRelM m s
  | SSimple m => simple = true /\ TRelS m s
  end.

Lemma q_mem_remove_none x p S : q_mem x (q_remove p None S) = q_mem x S && negb (matches p (fst x)).
Proof.
  apply bool_iff. rewrite andb_true_iff, negb_true_iff, !q_mem_In, q_remove_In. unfold qsel.
  rewrite andb_true_r. tauto.
Qed.

Lemma nsadd_In x y l : In y (sadd N.eqb x l) <-> y = x \/ In y l.
Proof. apply sadd_In, N.eqb_spec. Qed.
Lemma nsrem_In x y l : In y (srem N.eqb x l) <-> In y l /\ y <> x.
Proof. apply srem_In, N.eqb_spec. Qed.

Lemma TRel_init simple : TRel (st_init simple) simple {| ts_q := []; ts_known := [] |}.
Proof.
  destruct simple; simpl.
  - split; auto. split; [apply sm_inv_empty|]. split; [intros [[x y] z]; reflexivity|].
    split; [constructor|split; [intros q []|reflexivity]].
  - split; auto. split; [apply MemInv_empty|split; [apply HoldsRel_empty|split; [constructor|split; [constructor|]]]].
    intros c. simpl. tauto.
Qed.

Lemma TRel_step st simple s o : TRel st simple s -> TRel (t_step st o) simple (tspec_step simple s o).
Proof.
  destruct st as [m|m]; simpl.
  - (* SimpleMemory *)
    intros [-> (Hi & Hh & Hn & Hz & Hk)].
    destruct o as [c t|[c|] p|c|c]; cbn [t_step tspec_step tkey TRel]; unfold TRelS; cbn [ts_q ts_known]; (split; [reflexivity|]).
    + split; [now apply sm_add_inv|split; [|split; [now apply q_add_NoDup|split; [|reflexivity]]]].
      * intros t'. rewrite sm_add_holds, q_mem_add, quad_eqb_pair, N.eqb_refl, andb_true_r, Hh. reflexivity.
      * intros q Hq. apply q_add_In in Hq. destruct Hq as [->|Hq]; auto.
    + destruct (sm_remove_ok m p Hi) as [H1 H2].
      split; [auto|split; [|split; [now apply q_remove_NoDup|split; [|exact Hk]]]].
      * intros t'. rewrite H2, q_mem_remove, Hh. cbn [fst snd]. now rewrite N.eqb_refl, andb_true_r.
      * intros q Hq. apply q_remove_In in Hq. apply Hz, Hq.
    + destruct (sm_remove_ok m p Hi) as [H1 H2].
      split; [auto|split; [|split; [now apply q_remove_NoDup|split; [|exact Hk]]]].
      * intros t'. rewrite H2, q_mem_remove_none, Hh. reflexivity.
      * intros q Hq. apply q_remove_In in Hq. apply Hz, Hq.
    + split; [auto|split; [auto|split; [auto|split; auto]]].
    + destruct s. split; [auto|split; [auto|split; [auto|split; auto]]].
  - (* Memory *)
    intros [-> (Hi & Hh & Hn & Hna & Hk)].
    destruct o as [c t|[c|] p|c|c]; cbn [t_step tspec_step tkey mem_remove_k TRel]; unfold TRelM; cbn [ts_q ts_known]; (split; [reflexivity|]).
    + split; [apply mem_add_ok, Hi|split; [now apply HoldsRel_add|split; [now apply q_add_NoDup|]]].
      rewrite all_add. split; [apply sadd_NoDup; [exact N.eqb_spec|auto]|].
      intros c'. rewrite !nsadd_In, Hk. tauto.
    + split; [apply mem_remove_ok, Hi|split; [now apply HoldsRel_remove|split; [now apply q_remove_NoDup|]]].
      rewrite all_remove. auto.
    + destruct (mem_remove_none_ok m p Hi) as (H1 & H2 & H3).
      split; [auto|split; [|split; [now apply q_remove_NoDup|rewrite H2; auto]]].
      intros c t. change (mem_holds (mem_remove_none m p) c t) with (mem_holds_k (mem_remove_none m p) (Some c) t).
      rewrite H3, q_mem_remove_none. cbn [fst]. now rewrite holds_k_some, Hh.
    + unfold mem_add_graph. split; [now apply MemInv_set_all|split; [exact Hh|split; [auto|]]]. cbn [mem_set_all m_all].
      split; [apply sadd_NoDup; [exact N.eqb_spec|auto]|]. intros c'. rewrite !nsadd_In, Hk. tauto.
    + unfold mem_remove_graph. pose proof (mem_remove_ok m c all_pat Hi) as [H1 H2].
      split; [now apply MemInv_set_all|split; [|split; [now apply q_remove_NoDup|]]].
      * intros c' t. change (mem_holds (mem_set_all (mem_remove m c all_pat) (srem N.eqb c (m_all (mem_remove m c all_pat)))) c' t)
          with (mem_holds (mem_remove m c all_pat) c' t). now apply HoldsRel_remove.
      * cbn [mem_set_all m_all]. rewrite all_remove. split; [now apply srem_NoDup|].
        intros c'. rewrite !nsrem_In, Hk. tauto.
Qed.

(* ---------- observations *)
Lemma sp_union_In S t : In t (sp_union S) <-> exists c, In (t, c) S.
Proof.
  unfold sp_union. rewrite (dedup_In triple_eqb Ts), in_map_iff. split.
  - intros ([t' c] & <- & H). exists c. exact H.
  - intros (c & H). exists (t, c). auto.
Qed.

Lemma sp_union_NoDup S : NoDup (sp_union S).
Proof. apply (dedup_NoDup triple_eqb Ts). Qed.

Lemma graphs_of_In S t c : In c (graphs_of S t) <-> In (t, c) S.
Proof.
  unfold graphs_of. rewrite (dedup_In N.eqb N.eqb_spec), in_map_iff. split.
  - intros ([t' c'] & <- & H). apply filter_In in H. destruct H as [H1 H2]. simpl in *.
    apply teqb_eq in H2. now subst.
  - intros H. exists (t, c). split; auto. apply filter_In. split; auto. simpl. apply teqb_refl.
Qed.

Lemma some_keys_In d c : In c (some_keys d) <-> In (Some c) d.
Proof.
  unfold some_keys. rewrite in_flat_map. split.
  - intros ([c'|] & H1 & H2); simpl in H2; [destruct H2 as [<-|[]]; auto|destruct H2].
  - intros H. exists (Some c). simpl. auto.
Qed.

Lemma some_keys_NoDup d : NoDup d -> NoDup (some_keys d).
Proof.
  induction d as [|k r IH]; intros H; [constructor|]. inversion H as [|? ? Hk Hr]; subst.
  destruct k as [c|]; [|exact (IH Hr)].
  change (NoDup (c :: some_keys r)). constructor; [|exact (IH Hr)].
  intros Hc. apply some_keys_In in Hc. auto.
Qed.

Lemma ts_content_NoDup simple S k : NoDup S -> NoDup (ts_content simple S k).
Proof. intros H. destruct k; simpl; [now apply sp_content_NoDup|apply sp_union_NoDup]. Qed.

Lemma content_holds m s k t :
  TRelM m s -> (mem_holds_k m k t = true <-> In t (ts_content false (ts_q s) k)).
Proof.
  intros (Hi & Hh & _). destruct k as [c|]; cbn [ts_content tkey].
  - rewrite holds_k_some, Hh, q_mem_In. symmetry. apply sp_content_In.
  - rewrite holds_k_none, (leaf_some_graph m t Hi), sp_union_In by auto.
    split; intros (c & H); exists c; [now rewrite <- q_mem_In, <- Hh|now rewrite Hh, q_mem_In].
Qed.

Lemma kobs_enum (l E : list triple) (f : pat -> list triple) probe :
  NoDup E -> enum_of (f all_pat) E -> (forall p, enum_of (f p) (filter (matches p) E)) ->
  forall ln, ln = N.of_nat (length (f all_pat)) ->
  kobs_ok E probe (f all_pat, ln, map f (masks probe)) = true.
Proof.
  intros HE Hall Hp ln ->. unfold kobs_ok. rewrite !andb_true_iff. split; [split|].
  - now apply tenum.
  - apply N.eqb_eq. f_equal. now apply enum_len.
  - rewrite all2_map. apply forallb_forall. intros p _. apply tenum, Hp.
Qed.

Lemma t_observe_ok c st s probe :
  TRel st (tc_simple c) s -> tobs1_ok c s probe (t_observe st (tc_keys c) probe) = true.
Proof.
  intros HR. unfold tobs1_ok, t_observe. apply andb_true_iff. split.
  - rewrite all2_map. apply forallb_forall. intros k _.
    destruct st as [m|m]; simpl in HR; destruct HR as [Es HR]; rewrite Es.
    + (* SimpleMemory *)
      destruct HR as (Hi & Hh & Hn & Hz & _).
      assert (HE : forall t, In t (ts_content true (ts_q s) k) <-> sm_holds m t = true).
      { intros t. rewrite Hh, q_mem_In. destruct k as [c'|]; cbn [ts_content tkey].
        - apply sp_content_In.
        - rewrite sp_union_In. split; [intros (c' & H); now rewrite <- (Hz _ H)|intros H; eauto]. }
      assert (Hp : forall p, enum_of (sm_triples m p) (filter (matches p) (ts_content true (ts_q s) k))).
      { intros p. destruct (sm_triples_exact m p Hi) as [H1 H2]. split; auto.
        intros t. rewrite H2, filter_In, HE. tauto. }
      cbn [t_triples t_len]. apply (kobs_enum [] _ (sm_triples m)); auto.
      * now apply ts_content_NoDup.
      * destruct (Hp all_pat) as [H1 H2]. split; auto. intros t. rewrite (H2 t), filter_In, matches_all. tauto.
    + (* Memory *)
      pose proof HR as (Hi & Hh & Hn & _).
      assert (Hp : forall p, enum_of (mem_triples_k m k p) (filter (matches p) (ts_content false (ts_q s) k))).
      { intros p. destruct (mem_triples_k_exact m k p Hi) as [H1 H2]. split; auto.
        intros t. rewrite H2, filter_In, (content_holds m s k t HR). tauto. }
      cbn [t_triples t_len]. apply (kobs_enum [] _ (mem_triples_k m k)); auto.
      * now apply ts_content_NoDup.
      * destruct (Hp all_pat) as [H1 H2]. split; auto. intros t. rewrite (H2 t), filter_In, matches_all. tauto.
  - destruct st as [m|m]; simpl in HR; destruct HR as [Es HR]; rewrite Es; [reflexivity|].
    destruct HR as (Hi & Hh & Hn & Hna & Hk). cbn [t_contexts t_contexts_of]. apply andb_true_iff. split.
    + apply (enum_ofb_spec N.eqb N.eqb_spec). split; auto.
    + apply (enum_ofb_spec N.eqb N.eqb_spec). unfold mem_contexts_of. rewrite mem_leaf_eq.
      destruct (leaf (m_spo m) probe) eqn:El.
      * split; [apply some_keys_NoDup; now destruct (mi_ctxs Hi probe El)|].
        intros c'. rewrite some_keys_In, graphs_of_In, <- q_mem_In, <- Hh, holds_iff. tauto.
      * split; [constructor|]. intros c'. rewrite graphs_of_In, <- q_mem_In, <- Hh, holds_iff. split; [intros []|].
        intros [H _]. congruence.
Qed.

(* THE TIE for the store-level suite *)
Theorem tspec_run_model c : forall ops st s,
  TRel st (tc_simple c) s -> tspec_run c s ops (t_run (tc_keys c) st ops) = true.
Proof.
  induction ops as [|[o probe] r IH]; intros st s HR; [reflexivity|].
  cbn [t_run tspec_run]. pose proof (TRel_step st (tc_simple c) s o HR) as HR'.
  apply andb_true_iff. split; [now apply t_observe_ok|now apply IH].
Qed.

Theorem tspec_ok_model c : tspec_ok c (tmodel_obs c) = true.
Proof. apply tspec_run_model, TRel_init. Qed.
