(* Small-step model of the generator SimpleMemory.triples((None, None, None)) - what
   `for t in graph` runs on a SimpleMemory store - as it is since 239260dc: three
   nested loops, each over a snapshot `list(d.keys())` taken when the loop starts,
   no test before a yield.  Definitions only. *)
From RV Require Export Store.Model Store.Iter.

Definition skeys2 (a : N) (i : idx) : list N := pd_keys (pd_getd N.eqb a i).

(* remaining subjects; current subject, its remaining predicates; current predicate,
   its remaining objects *)
Record sit := { si_ss : list N; si_s : N; si_ps : list N; si_p : N; si_os : list N }.

(* for p in <rest of the predicate snapshot>: for o in list(spo[s][p].keys()): first yield *)
Fixpoint si_next_p (spo : idx) (s : N) (ps : list N) : option (N * list N * N * list N) :=
  match ps with
  | [] => None
  | p :: r => match idx_l3 s p spo with
              | [] => si_next_p spo s r
              | o :: os => Some (p, r, o, os)
              end
  end.

(* for s in <rest of the subject snapshot>: for p in list(spo[s].keys()): ... *)
Fixpoint si_next_s (spo : idx) (ss : list N) : option (list N * N * N * list N * N * list N) :=
  match ss with
  | [] => None
  | s :: r => match si_next_p spo s (skeys2 s spo) with
              | Some (p, ps, o, os) => Some (r, s, p, ps, o, os)
              | None => si_next_s spo r
              end
  end.

Definition si_done : sit := {| si_ss := []; si_s := 0; si_ps := []; si_p := 0; si_os := [] |}.

(* one next() of a started generator, in the store state of that moment *)
Definition si_next (m : smem) (st : sit) : option triple * sit :=
  let spo := s_spo m in
  match si_os st with
  | o :: os => (Some (si_s st, si_p st, o),
                {| si_ss := si_ss st; si_s := si_s st; si_ps := si_ps st; si_p := si_p st; si_os := os |})
  | [] =>
      match si_next_p spo (si_s st) (si_ps st) with
      | Some (p, ps, o, os) =>
          (Some (si_s st, p, o), {| si_ss := si_ss st; si_s := si_s st; si_ps := ps; si_p := p; si_os := os |})
      | None =>
          match si_next_s spo (si_ss st) with
          | Some (ss, s, p, ps, o, os) =>
              (Some (s, p, o), {| si_ss := ss; si_s := s; si_ps := ps; si_p := p; si_os := os |})
          | None => (None, si_done)
          end
      end
  end.

(* the first next() takes the subject snapshot *)
Definition si_start (m : smem) : sit :=
  {| si_ss := pd_keys (s_spo m); si_s := 0; si_ps := []; si_p := 0; si_os := [] |}.

(* stepping through a sequence of store states, one next() per state *)
Fixpoint si_drive (ms : list smem) (st : sit) : list triple :=
  match ms with
  | [] => []
  | m :: r => match si_next m st with
              | (Some t, st') => t :: si_drive r st'
              | (None, _) => []
              end
  end.

(* what the generator would still yield if the store stayed as it is *)
Definition si_row (spo : idx) (s p : N) : list triple := map (fun o => (s, p, o)) (idx_l3 s p spo).
Definition si_rows (spo : idx) (s : N) (ps : list N) : list triple := flat_map (si_row spo s) ps.
Definition si_rem (spo : idx) (st : sit) : list triple :=
  map (fun o => (si_s st, si_p st, o)) (si_os st)
  ++ si_rows spo (si_s st) (si_ps st)
  ++ flat_map (fun s => si_rows spo s (skeys2 s spo)) (si_ss st).

(* the condition under which the loop variable takes the values of the list computed
   up front: no step of the loop body changes what is still to come *)
Fixpoint si_chain (m : smem) (ms : list smem) (st : sit) : Prop :=
  match ms with
  | [] => True
  | m' :: r => let st' := snd (si_next m st) in
               si_rem (s_spo m') st' = si_rem (s_spo m) st' /\ si_chain m' r st'
  end.

(* ---------- schedules for the correspondence check: one graph, iterators of shape (?,?,?) *)
Inductive siop :=
| SiAdd (t : triple)
| SiRemove (p : pat)
| SiOpen
| SiNext (i : nat)
| SiDrain (i : nat).

(* an iterator: not started yet, or its state *)
Definition sgen := option sit.

Definition sg_next (m : smem) (g : sgen) : option triple * sgen :=
  let st := match g with Some st => st | None => si_start m end in
  let '(r, st') := si_next m st in (r, Some st').

Definition sg_drain (m : smem) (g : sgen) : list triple * sgen :=
  let st := match g with Some st => st | None => si_start m end in
  (si_rem (s_spo m) st, Some si_done).

Definition siobs1 := (N * list triple * N)%type.   (* iterator, yields, 1 = StopIteration *)
Definition si_noobs : siobs1 := (999%N, [], 0%N).

Definition sis_step (m : smem) (its : list sgen) (o : siop) : smem * list sgen * siobs1 :=
  match o with
  | SiAdd t => (sm_add m t, its, si_noobs)
  | SiRemove p => (sm_remove m p, its, si_noobs)
  | SiOpen => (m, its ++ [None], si_noobs)
  | SiNext i =>
      match nth_error its i with
      | None => (m, its, si_noobs)
      | Some g => let '(r, g') := sg_next m g in
                  (m, set_nth i g' its,
                   (N.of_nat i, match r with Some t => [t] | None => [] end, match r with Some _ => 0%N | None => 1%N end))
      end
  | SiDrain i =>
      match nth_error its i with
      | None => (m, its, si_noobs)
      | Some g => let '(ys, g') := sg_drain m g in (m, set_nth i g' its, (N.of_nat i, ys, 1%N))
      end
  end.

Fixpoint sis_run (m : smem) (its : list sgen) (ops : list siop) : list siobs1 :=
  match ops with
  | [] => []
  | o :: r => let '(m', its', ob) := sis_step m its o in ob :: sis_run m' its' r
  end.

Record sicase := { sic_ops : list siop }.
Definition simodel_obs (c : sicase) : list siobs1 := sis_run sm_empty [] (sic_ops c).

Definition siobs1_eqb (a b : siobs1) : bool :=
  let '(a1, a2, a3) := a in let '(b1, b2, b3) := b in
  N.eqb a1 b1 && list_eqb triple_eqb a2 b2 && N.eqb a3 b3.
Definition siobs_eqb (a b : list siobs1) : bool := list_eqb siobs1_eqb a b.

(* no specification of its own: the suite ties the generator model to the code
   (exact yields, in order); the property-level statements are the theorems *)
Definition sispec_ok (c : sicase) (ob : list siobs1) : bool := true.
