(* Graph.transitive_objects / transitive_subjects: the recursion with its shared
   `remember` dict, as a depth-first walk over a successor function; it visits
   exactly the nodes reachable from the start (start included), each once. *)
From Coq Require Import Arith Lia Permutation.
From RV Require Export Base.ListSet.

Section DFS.
  Variable succ : N -> list N.      (* objects(x, p) resp. subjects(p, x), in yield order *)

  (* def walk(x): if x in remember: return; remember[x] = 1; yield x;
                  for y in succ(x): yield from walk(y)
     [seen] is `remember` in insertion order = the yields so far; the fuel bounds the
     recursion depth (Python: the interpreter's recursion limit) *)
  Fixpoint dfs (fuel : nat) (x : N) (seen : list N) : list N :=
    match fuel with
    | O => seen
    | S f => if memb N.eqb x seen then seen
             else fold_left (fun sn y => dfs f y sn) (succ x) (seen ++ [x])
    end.

  Inductive reach : N -> N -> Prop :=
  | reach_refl x : reach x x
  | reach_step x y z : In y (succ x) -> reach y z -> reach x z.

  Lemma nmemb_In x l : memb N.eqb x l = true <-> In x l.
  Proof. apply memb_In, N.eqb_spec. Qed.

  (* a finite universe closed under succ *)
  Variable U : list N.
  Hypothesis U_closed : forall u, In u U -> forall y, In y (succ u) -> In y U.

  Definition miss (seen : list N) : nat := length (filter (fun u => negb (memb N.eqb u seen)) U).

  Lemma filter_le {A} (g h : A -> bool) l :
    (forall u, g u = true -> h u = true) -> length (filter g l) <= length (filter h l).
  Proof.
    intros H. induction l as [|a r IH]; simpl; auto. destruct (g a) eqn:E.
    - rewrite (H a E). simpl. lia.
    - destruct (h a); simpl; lia.
  Qed.

  Lemma filter_len {A} (g : A -> bool) l : length (filter g l) <= length l.
  Proof. induction l as [|a r IH]; simpl; auto. destruct (g a); simpl; lia. Qed.

  Lemma filter_lt {A} (g h : A -> bool) l x :
    (forall u, g u = true -> h u = true) -> In x l -> g x = false -> h x = true ->
    length (filter g l) < length (filter h l).
  Proof.
    intros H. induction l as [|a r IH]; simpl; [tauto|]. intros [->|Hin] Hg Hh.
    - rewrite Hg, Hh. simpl. pose proof (filter_le g h r H). lia.
    - specialize (IH Hin Hg Hh). destruct (g a) eqn:E; [rewrite (H a E); simpl; lia|destruct (h a); simpl; lia].
  Qed.

  Lemma miss_mono seen seen' : (forall z, In z seen -> In z seen') -> miss seen' <= miss seen.
  Proof.
    intros H. apply filter_le. intros u Hu. apply negb_true_iff in Hu. apply negb_true_iff.
    destruct (memb N.eqb u seen) eqn:E; auto. apply nmemb_In, H, nmemb_In in E. congruence.
  Qed.

  Lemma miss_dec seen x : In x U -> ~ In x seen -> miss (seen ++ [x]) < miss seen.
  Proof.
    intros Hu Hx. apply filter_lt with (x := x); auto.
    - intros u H. apply negb_true_iff in H. apply negb_true_iff.
      destruct (memb N.eqb u seen) eqn:E; auto. apply nmemb_In in E.
      assert (In u (seen ++ [x])) by (apply in_app_iff; auto). apply nmemb_In in H0. congruence.
    - apply negb_false_iff, nmemb_In, in_app_iff. simpl; auto.
    - apply negb_true_iff. destruct (memb N.eqb x seen) eqn:E; auto. apply nmemb_In in E. tauto.
  Qed.

  Definition Pd (f : nat) : Prop := forall x seen,
    NoDup seen ->
    exists add, dfs f x seen = seen ++ add /\ NoDup (seen ++ add) /\ (forall z, In z add -> reach x z)
      /\ (In x U -> miss seen < f ->
          In x (seen ++ add) /\ forall y, In y add -> forall z, In z (succ y) -> In z (seen ++ add)).

  Lemma fold_ok f : Pd f -> forall l sn,
    NoDup sn ->
    exists add, fold_left (fun sn y => dfs f y sn) l sn = sn ++ add /\ NoDup (sn ++ add)
      /\ (forall z, In z add -> exists y, In y l /\ reach y z)
      /\ ((forall y, In y l -> In y U) -> miss sn < f ->
          (forall y, In y l -> In y (sn ++ add))
          /\ forall y, In y add -> forall z, In z (succ y) -> In z (sn ++ add)).
  Proof.
    intros HP. induction l as [|y r IH]; intros sn Hn; cbn [fold_left].
    - exists []. rewrite app_nil_r. split; [auto|split; [auto|split; [intros z []|]]]. intros _ _. split; [intros y []|intros y []].
    - destruct (HP y sn Hn) as (a1 & E1 & N1 & R1 & C1). rewrite E1.
      destruct (IH (sn ++ a1) N1) as (a2 & E2 & N2 & R2 & C2). rewrite E2, <- app_assoc.
      exists (a1 ++ a2). rewrite <- app_assoc in N2. split; [auto|split; [auto|split]].
      + intros z Hz. apply in_app_iff in Hz. destruct Hz as [Hz|Hz].
        * exists y. split; [simpl; auto|auto].
        * destruct (R2 z Hz) as (y' & Hy' & Hr). exists y'. split; [simpl; auto|auto].
      + intros HU Hm.
        destruct (C1 (HU y (or_introl eq_refl)) Hm) as [C1a C1b].
        assert (Hm2 : miss (sn ++ a1) < f).
        { eapply Nat.le_lt_trans; [apply miss_mono|exact Hm]. intros z Hz. apply in_app_iff. auto. }
        destruct (C2 (fun y' Hy' => HU y' (or_intror Hy')) Hm2) as [C2a C2b].
        rewrite <- app_assoc in C2a, C2b.
        assert (Hext : forall z, In z (sn ++ a1) -> In z (sn ++ a1 ++ a2)).
        { intros z Hz. rewrite app_assoc. apply in_app_iff. auto. }
        split.
        * intros y' [<-|Hy']; auto.
        * intros y' Hy' z Hz. apply in_app_iff in Hy'. destruct Hy' as [Hy'|Hy']; [apply Hext; eauto|eauto].
  Qed.

  Lemma dfs_ok : forall f, Pd f.
  Proof.
    induction f as [|f IH]; intros x seen Hn; cbn [dfs].
    - exists []. rewrite app_nil_r. split; [auto|split; [auto|split; [intros z []|]]]. intros _ H. lia.
    - destruct (memb N.eqb x seen) eqn:E.
      + exists []. rewrite app_nil_r. split; [auto|split; [auto|split; [intros z []|]]]. intros _ _.
        split; [now apply nmemb_In|intros y []].
      + assert (Hx : ~ In x seen) by (rewrite <- nmemb_In; congruence).
        assert (Hn1 : NoDup (seen ++ [x])) by (apply NoDup_app_single; auto).
        destruct (fold_ok f IH (succ x) (seen ++ [x]) Hn1) as (a & E1 & N1 & R1 & C1).
        rewrite E1, <- app_assoc. rewrite <- app_assoc in N1. cbn [app] in *.
        exists (x :: a). split; [auto|split; [auto|split]].
        * intros z [<-|Hz]; [constructor|]. destruct (R1 z Hz) as (y & Hy & Hr). econstructor; eauto.
        * intros HU Hm.
          assert (Hm1 : miss (seen ++ [x]) < f) by (pose proof (miss_dec seen x HU Hx); lia).
          destruct (C1 (U_closed x HU) Hm1) as [C1a C1b]. rewrite <- app_assoc in C1a, C1b. cbn [app] in *.
          split; [apply in_app_iff; simpl; auto|].
          intros y [<-|Hy] z Hz; eauto.
  Qed.

  (* the walk from x with an empty `remember`, given enough recursion depth: every
     node reachable from x (x included), and nothing else, each exactly once *)
  Theorem dfs_exact x fuel :
    In x U -> length U < fuel ->
    NoDup (dfs fuel x []) /\ forall z, In z (dfs fuel x []) <-> reach x z.
  Proof.
    intros HU Hf. destruct (dfs_ok fuel x [] (NoDup_nil _)) as (add & E & Hn & Hr & Hc).
    cbn [app] in *. rewrite E. split; auto. intros z. split; [apply Hr|].
    assert (Hm : miss [] < fuel).
    { unfold miss. eapply Nat.le_lt_trans; [apply filter_len|exact Hf]. }
    destruct (Hc HU Hm) as [Hx Hcl].
    assert (Hgen : forall a b, reach a b -> In a add -> In b add).
    { intros a b R0. induction R0 as [a|a y b Hy R0 IH]; auto. intros Ha. apply IH. exact (Hcl a Ha y Hy). }
    intros R. exact (Hgen x z R Hx).
  Qed.
End DFS.

(* Graph.transitiveClosure(func, arg, seen): yields every successor of every node it
   visits BEFORE testing whether that successor has been seen, so a node is yielded
   once per visited predecessor (and the start only if it lies on a cycle) *)
Section TC.
  Variable succ : N -> list N.      (* func(arg, graph), in yield order *)

  (* returns (yields, seen) *)
  Fixpoint tc (fuel : nat) (x : N) (seen : list N) : list N * list N :=
    match fuel with
    | O => ([], seen)
    | S f =>
        if memb N.eqb x seen then ([], seen)
        else fold_left (fun acc y => let '(ys, sn) := acc in
                                     let '(zs, sn') := tc f y sn in (ys ++ y :: zs, sn'))
                       (succ x) ([], seen ++ [x])
    end.

  (* the visited nodes are those of the depth-first walk, and what is yielded is, as a
     multiset, the successors of the nodes visited by this call *)
  Lemma tc_fold_spec f :
    (forall x seen, snd (tc f x seen) = dfs succ f x seen
                    /\ exists add, dfs succ f x seen = seen ++ add
                                   /\ Permutation (fst (tc f x seen)) (flat_map succ add)) ->
    forall l ys sn,
      let r := fold_left (fun acc y => let '(ys, sn) := acc in
                                       let '(zs, sn') := tc f y sn in (ys ++ y :: zs, sn')) l (ys, sn) in
      snd r = fold_left (fun sn y => dfs succ f y sn) l sn
      /\ exists add, snd r = sn ++ add
                     /\ Permutation (fst r) (ys ++ l ++ flat_map succ add).
  Proof.
    intros HP. induction l as [|y t IH]; intros ys sn; cbn [fold_left].
    - split; [reflexivity|]. exists []. rewrite !app_nil_r. cbn. split; [reflexivity|apply Permutation_refl].
    - destruct (HP y sn) as (E1 & a1 & E2 & P1). destruct (tc f y sn) as [zs sn'] eqn:Et. cbn [fst snd] in *.
      rewrite E2 in E1. subst sn'. rewrite E2.
      destruct (IH (ys ++ y :: zs) (sn ++ a1)) as (F1 & a2 & F2 & P2).
      split; [exact F1|]. exists (a1 ++ a2). rewrite F2, <- app_assoc. split; [reflexivity|].
      eapply perm_trans; [exact P2|]. rewrite flat_map_app, <- !app_assoc. cbn [app].
      apply Permutation_app_head. apply Permutation_cons; [reflexivity|].
      rewrite !app_assoc. apply Permutation_app_tail.
      eapply perm_trans; [apply Permutation_app_tail; exact P1|].
      apply Permutation_app_comm.
  Qed.

  Lemma tc_spec : forall f x seen,
    snd (tc f x seen) = dfs succ f x seen
    /\ exists add, dfs succ f x seen = seen ++ add
                   /\ Permutation (fst (tc f x seen)) (flat_map succ add).
  Proof.
    induction f as [|f IH]; intros x seen; cbn [tc dfs].
    - split; [reflexivity|]. exists []. rewrite app_nil_r. split; [reflexivity|constructor].
    - destruct (memb N.eqb x seen).
      + split; [reflexivity|]. exists []. rewrite app_nil_r. split; [reflexivity|constructor].
      + destruct (tc_fold_spec f IH (succ x) [] (seen ++ [x])) as (F1 & a & F2 & P).
        split; [exact F1|]. exists (x :: a). rewrite <- F1, F2, <- app_assoc. split; [reflexivity|].
        cbn [app flat_map] in *. exact P.
  Qed.

  (* transitiveClosure(func, x): the nodes yielded are exactly the successors of the nodes
     reachable from x, i.e. the nodes reachable in at least one step; each is yielded once
     per reachable predecessor edge (as a multiset: flat_map succ over the visited nodes) *)
  Theorem tc_exact (U : list N) x fuel :
    (forall u, In u U -> forall y, In y (succ u) -> In y U) -> In x U -> length U < fuel ->
    Permutation (fst (tc fuel x [])) (flat_map succ (dfs succ fuel x []))
    /\ forall z, In z (fst (tc fuel x [])) <-> exists y, reach succ x y /\ In z (succ y).
  Proof.
    intros HU Hx Hf. destruct (tc_spec fuel x []) as (_ & add & E & P). cbn [app] in E. rewrite E.
    split; [exact P|]. destruct (dfs_exact succ U HU x fuel Hx Hf) as [_ Hin]. rewrite E in Hin.
    intros z. split.
    - intros Hz. apply (Permutation_in _ P) in Hz. apply in_flat_map in Hz.
      destruct Hz as (y & Hy & Hz). exists y. split; [now apply Hin|auto].
    - intros (y & Hy & Hz). apply (Permutation_in _ (Permutation_sym P)).
      apply in_flat_map. exists y. split; [now apply Hin|auto].
  Qed.
End TC.
