(* SimpleMemory: the three indexes stay coherent, and triples(pattern) is a
   duplicate-free enumeration of exactly the matching stored triples. *)
From RV Require Import Store.Model Store.IndexProofs.

Definition sm_inv (m : smem) : Prop := coherent (s_spo m) (s_pos m) (s_osp m).
Definition sm_holds (m : smem) (t : triple) : bool := leaf (s_spo m) t.

Lemma teqb_eq a b : triple_eqb a b = true <-> a = b.
Proof. destruct (triple_eqb_spec a b); split; congruence. Qed.
Lemma teqb_refl a : triple_eqb a a = true.
Proof. now apply teqb_eq. Qed.

Lemma tmemb_In t l : memb triple_eqb t l = true <-> In t l.
Proof. apply memb_In, triple_eqb_spec. Qed.

Lemma sm_inv_empty : sm_inv sm_empty.
Proof. apply coherent_nil. Qed.

Lemma sm_add_inv m t : sm_inv m -> sm_inv (sm_add m t).
Proof. destruct t as [[s p] o]. apply coherent_add. Qed.

Lemma sm_add_holds m t t' : sm_holds (sm_add m t) t' = triple_eqb t' t || sm_holds m t'.
Proof. destruct t as [[s p] o]. apply leaf_add. Qed.

Lemma sm_del1_inv m t : sm_inv m -> sm_inv (sm_del1 m t).
Proof. destruct t as [[s p] o]. apply coherent_del. Qed.

Lemma sm_del1_holds m t t' : sm_holds (sm_del1 m t) t' = sm_holds m t' && negb (triple_eqb t' t).
Proof. destruct t as [[s p] o]. apply leaf_del. Qed.

Theorem sm_triples_exact m p :
  sm_inv m ->
  NoDup (sm_triples m p) /\
  forall t, In t (sm_triples m p) <-> matches p t = true /\ sm_holds m t = true.
Proof. apply idx_triples_exact. Qed.

Lemma sm_fold_del l : forall m,
  sm_inv m ->
  sm_inv (fold_left sm_del1 l m) /\
  forall t', sm_holds (fold_left sm_del1 l m) t' = sm_holds m t' && negb (memb triple_eqb t' l).
Proof.
  induction l as [|t r IH]; simpl; intros m Hi.
  - split; auto. intros t'. now rewrite andb_true_r.
  - destruct (IH (sm_del1 m t) (sm_del1_inv m t Hi)) as [H1 H2]. split; auto.
    intros t'. rewrite H2, sm_del1_holds, negb_orb, andb_assoc. reflexivity.
Qed.

Theorem sm_remove_ok m p :
  sm_inv m ->
  sm_inv (sm_remove m p) /\
  forall t', sm_holds (sm_remove m p) t' = sm_holds m t' && negb (matches p t').
Proof.
  intros Hi. unfold sm_remove. destruct (sm_fold_del (sm_triples m p) m Hi) as [H1 H2]. split; auto.
  intros t'. rewrite H2. destruct (sm_triples_exact m p Hi) as [_ Hin].
  destruct (sm_holds m t') eqn:Eh; simpl; auto. f_equal.
  destruct (memb triple_eqb t' (sm_triples m p)) eqn:Em.
  - apply tmemb_In in Em. apply Hin in Em. destruct Em as [-> _]. reflexivity.
  - destruct (matches p t') eqn:Ep; auto.
    assert (In t' (sm_triples m p)) by (apply Hin; auto).
    apply tmemb_In in H. congruence.
Qed.

Lemma sm_len_ok m : sm_len m = N.of_nat (length (sm_triples m all_pat)).
Proof. reflexivity. Qed.
