(* A CPython dict as far as the memory stores use it: an insertion-ordered
   association list.  [d[k] = v] on an existing key keeps the position,
   on a new key appends; [del d[k]] keeps the order of the others.
   Definitions only; lemmas are in PyDictFacts.v. *)
From RV Require Export Base.ListSet.
Set Implicit Arguments.

Section PD.
  Variables (K V : Type) (keqb : K -> K -> bool).

  Definition pydict := list (K * V).

  Fixpoint pd_get (k : K) (d : pydict) : option V :=
    match d with
    | [] => None
    | (k', v) :: r => if keqb k k' then Some v else pd_get k r
    end.

  Definition pd_mem (k : K) (d : pydict) : bool :=
    match pd_get k d with Some _ => true | None => false end.

  Fixpoint pd_set (k : K) (v : V) (d : pydict) : pydict :=
    match d with
    | [] => [(k, v)]
    | (k', v') :: r => if keqb k k' then (k', v) :: r else (k', v') :: pd_set k v r
    end.

  Definition pd_del (k : K) (d : pydict) : pydict :=
    filter (fun kv => negb (keqb k (fst kv))) d.

  Definition pd_keys (d : pydict) : list K := map fst d.
End PD.

Arguments pydict K V : clear implicits.

(* d.get(k, {}) for dict-valued (or set-valued) dicts *)
Definition pd_getd {K W : Type} (keqb : K -> K -> bool) (k : K) (d : pydict K (list W)) : list W :=
  match pd_get keqb k d with Some v => v | None => [] end.
