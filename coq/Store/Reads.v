(* The derived read API of rdflib/graph.py on top of Graph.triples:
   subjects / predicates / objects / subject_predicates / subject_objects /
   predicate_objects (unique=False/True), value(any=True/False),
   triples_choices (Graph.triples_choices -> Store.triples_choices fallback, which
   both in-memory stores inherit), observed on every graph at the end of a history,
   and the checker that states each of them as a function of the graph's SET of
   triples (with the exact duplicate behaviour).  Definitions only. *)
From RV Require Export Store.Model.

Definition t_s (t : triple) : term := fst (fst t).
Definition t_p (t : triple) : term := snd (fst t).
Definition t_o (t : triple) : term := snd t.
Definition t_sp (t : triple) : term * term := (t_s t, t_p t).
Definition t_so (t : triple) : term * term := (t_s t, t_o t).
Definition t_po (t : triple) : term * term := (t_p t, t_o t).

Definition pair_eqbN : term * term -> term * term -> bool := pair_eqb N.eqb N.eqb.

(* `if x not in seen: yield x; seen.add(x)` *)
Definition uniq {A} (eqb : A -> A -> bool) (u : bool) (l : list A) : list A :=
  if u then dedup eqb l else l.

Definition g_subjects (w : world) (g : handle) (pp po : option term) (u : bool) : list term :=
  uniq N.eqb u (map t_s (g_triples w g (None, pp, po))).
Definition g_predicates (w : world) (g : handle) (ps po : option term) (u : bool) : list term :=
  uniq N.eqb u (map t_p (g_triples w g (ps, None, po))).
Definition g_objects (w : world) (g : handle) (ps pp : option term) (u : bool) : list term :=
  uniq N.eqb u (map t_o (g_triples w g (ps, pp, None))).
Definition g_subject_predicates (w : world) (g : handle) (po : option term) (u : bool) : list (term * term) :=
  uniq pair_eqbN u (map t_sp (g_triples w g (None, None, po))).
Definition g_subject_objects (w : world) (g : handle) (pp : option term) (u : bool) : list (term * term) :=
  uniq pair_eqbN u (map t_so (g_triples w g (None, pp, None))).
Definition g_predicate_objects (w : world) (g : handle) (ps : option term) (u : bool) : list (term * term) :=
  uniq pair_eqbN u (map t_po (g_triples w g (ps, None, None))).

(* Graph.value(s, p, o, default=None, any): 0 = None, 1 = a term, 2 = UniquenessError *)
Definition vres := (N * term)%type.
Definition v_none : vres := (0, 0)%N.

(* retval = next(values) ...; if any is False: next(values) must raise StopIteration *)
Definition v_pick (any : bool) (l : list term) : vres :=
  match l with
  | [] => v_none
  | x :: r => if any then (1%N, x) else match r with [] => (1%N, x) | _ => (2%N, 0%N) end
  end.

(* fewer than two bound positions: returns None before looking at the graph.
   (All three bound is a misuse that raises UnboundLocalError; not observed.) *)
Definition g_value (w : world) (g : handle) (p : pat) (any : bool) : vres :=
  match p with
  | (Some s, Some pr, None) => v_pick any (g_objects w g (Some s) (Some pr) false)
  | (None, Some pr, Some o) => v_pick any (g_subjects w g (Some pr) (Some o) false)
  | (Some s, None, Some o) => v_pick any (g_predicates w g (Some s) (Some o) false)
  | _ => v_none
  end.

(* Store.triples_choices with a list in exactly one slot: an empty list is a
   wildcard, otherwise one triples() call per element, duplicates included *)
Inductive slot := SlS | SlP | SlO.

Definition set_slot (p : pat) (sl : slot) (x : option term) : pat :=
  let '(ps, pp, po) := p in
  match sl with SlS => (x, pp, po) | SlP => (ps, x, po) | SlO => (ps, pp, x) end.

Definition g_choices (w : world) (g : handle) (p : pat) (sl : slot) (L : list term) : list triple :=
  match L with
  | [] => g_triples w g (set_slot p sl None)
  | _ => flat_map (fun x => g_triples w g (set_slot p sl (Some x))) L
  end.

(* ---------- what is observed for one graph and one probe *)
Definition masks2 (a b : term) : list (option term * option term) :=
  [(None, None); (Some a, None); (None, Some b); (Some a, Some b)].
Definition masks1 (a : term) : list (option term) := [None; Some a].
Definition both {A} (f : bool -> A) : list A := [f false; f true].

(* the patterns value() is asked about: the three legal ones, then those with fewer bound positions *)
Definition value_pats (t : triple) : list pat :=
  let '(s, p, o) := t in
  [ (Some s, Some p, None); (None, Some p, Some o); (Some s, None, Some o);
    (Some s, None, None); (None, Some p, None); (None, None, Some o); (None, None, None) ].

(* (pattern for the other two slots, slot holding the list) *)
Definition choice_pats (t : triple) : list (pat * slot) :=
  let '(s, p, o) := t in
  [ ((Some s, Some p, None), SlO); ((None, Some p, None), SlO); ((None, Some p, Some o), SlS);
    ((None, None, None), SlS); ((Some s, None, Some o), SlP); ((None, None, None), SlP) ].

Definition probe := (triple * list term)%type.

Definition robs1 :=
  (list (list term) * list (list (term * term)) * list vres * list (list triple))%type.

Definition r_observe (w : world) (g : handle) (pr : probe) : robs1 :=
  let '(t, L) := pr in
  let '(s, p, o) := t in
  ( flat_map (fun m => both (g_subjects w g (fst m) (snd m))) (masks2 p o)
    ++ flat_map (fun m => both (g_predicates w g (fst m) (snd m))) (masks2 s o)
    ++ flat_map (fun m => both (g_objects w g (fst m) (snd m))) (masks2 s p),
    flat_map (fun m => both (g_subject_predicates w g m)) (masks1 o)
    ++ flat_map (fun m => both (g_subject_objects w g m)) (masks1 p)
    ++ flat_map (fun m => both (g_predicate_objects w g m)) (masks1 s),
    flat_map (fun q => [g_value w g q true; g_value w g q false]) (value_pats t),
    map (fun x => g_choices w g (fst x) (snd x) L) (choice_pats t) ).

Record rcase := { r_c : case; r_probes : list probe }.

(* insertion order of the dicts is reproduced by the model unless something was
   inserted while walking a Python set (+=, or the construction of an operator's
   result): only then may value(any=True) pick another of the matching terms *)
Definition ordered_op (o : gop) : bool :=
  match o with GIAdd _ _ | GBin _ _ _ => false | _ => true end.
Definition r_ordered (c : rcase) : bool := forallb (fun x => ordered_op (fst x)) (c_ops (r_c c)).

(* ordered?, per graph in play, per probe *)
Definition robs := (bool * list (list robs1))%type.

Definition r_final (c : rcase) : world := w_run (w_init (r_c c)) 2 (c_ops (r_c c)).

Definition rmodel_obs (c : rcase) : robs :=
  (r_ordered c, map (fun g => map (r_observe (r_final c) g) (r_probes c)) (c_handles (r_c c))).

(* ---------- comparison: multisets *)
Fixpoint cnt {A} (eqb : A -> A -> bool) (x : A) (l : list A) : nat :=
  match l with [] => 0 | y :: r => (if eqb x y then 1 else 0) + cnt eqb x r end.

Definition ms_eqb {A} (eqb : A -> A -> bool) (a b : list A) : bool :=
  Nat.eqb (length a) (length b) && forallb (fun x => Nat.eqb (cnt eqb x a) (cnt eqb x b)) a.

Definition vres_eqb (exact : bool) (a b : vres) : bool :=
  N.eqb (fst a) (fst b) && (negb exact || N.eqb (snd a) (snd b)).

Definition robs1_eqb (ordered : bool) (a b : robs1) : bool :=
  let '(a1, a2, a3, a4) := a in let '(b1, b2, b3, b4) := b in
  list_eqb (ms_eqb N.eqb) a1 b1 && list_eqb (ms_eqb pair_eqbN) a2 b2
  && list_eqb (vres_eqb ordered) a3 b3 && list_eqb (ms_eqb triple_eqb) a4 b4.

Definition robs_eqb (a b : robs) : bool :=
  Bool.eqb (fst a) (fst b) && list_eqb (list_eqb (robs1_eqb (fst a))) (snd a) (snd b).

(* ---------- specification: everything is a function of the set E of the graph *)
Definition sel (E : list triple) (p : pat) : list triple := filter (matches p) E.

(* a generator over projections: the multiset of the projections of the matching
   triples; with unique=True each projection once *)
Definition gen_ok {A} (eqb : A -> A -> bool) (f : triple -> A) (E : list triple) (p : pat) (u : bool)
           (l : list A) : bool :=
  if u then enum_ofb eqb l (dedup eqb (map f (sel E p))) else ms_eqb eqb l (map f (sel E p)).

Definition value_ok (vs : list term) (any : bool) (v : vres) : bool :=
  if any then
    match fst v with
    | 0%N => is_nil vs
    | 1%N => memb N.eqb (snd v) vs
    | _ => false
    end
  else
    match vs with
    | [] => N.eqb (fst v) 0
    | [y] => N.eqb (fst v) 1 && N.eqb (snd v) y
    | _ => N.eqb (fst v) 2
    end.

Definition value_set (E : list triple) (p : pat) : option (list term) :=
  match p with
  | (Some _, Some _, None) => Some (map t_o (sel E p))
  | (None, Some _, Some _) => Some (map t_s (sel E p))
  | (Some _, None, Some _) => Some (map t_p (sel E p))
  | _ => None
  end.

Definition value_ok_pat (E : list triple) (p : pat) (any : bool) (v : vres) : bool :=
  match value_set E p with
  | Some vs => value_ok vs any v
  | None => N.eqb (fst v) 0
  end.

Definition choices_set (E : list triple) (p : pat) (sl : slot) (L : list term) : list triple :=
  match L with
  | [] => sel E (set_slot p sl None)
  | _ => flat_map (fun x => sel E (set_slot p sl (Some x))) L
  end.

Definition robs1_ok (E : list triple) (pr : probe) (ob : robs1) : bool :=
  let '(t, L) := pr in
  let '(s, p, o) := t in
  let '(o1, o2, o3, o4) := ob in
  all2 (fun f l => f l)
       (flat_map (fun m => both (gen_ok N.eqb t_s E (None, fst m, snd m))) (masks2 p o)
        ++ flat_map (fun m => both (gen_ok N.eqb t_p E (fst m, None, snd m))) (masks2 s o)
        ++ flat_map (fun m => both (gen_ok N.eqb t_o E (fst m, snd m, None))) (masks2 s p)) o1
  && all2 (fun f l => f l)
       (flat_map (fun m => both (gen_ok pair_eqbN t_sp E (None, None, m))) (masks1 o)
        ++ flat_map (fun m => both (gen_ok pair_eqbN t_so E (None, m, None))) (masks1 p)
        ++ flat_map (fun m => both (gen_ok pair_eqbN t_po E (m, None, None))) (masks1 s)) o2
  && all2 (fun f v => f v)
       (flat_map (fun q => [value_ok_pat E q true; value_ok_pat E q false]) (value_pats t)) o3
  && all2 (fun x l => ms_eqb triple_eqb l (choices_set E (fst x) (snd x) L)) (choice_pats t) o4.

Definition rspec_ok (c : rcase) (ob : robs) : bool :=
  let S := s_run (r_c c) 2 [] (c_ops (r_c c)) in
  all2 (fun g per => all2 (robs1_ok (sp_content S (scid (r_c c) g))) (r_probes c) per)
       (c_handles (r_c c)) (snd ob).

Definition rwfb (c : rcase) : bool := wfb (r_c c).
