(* Open iterators: readings of the checker, the F10 witness on the model. *)
From Coq Require Import Arith Lia.
From RV Require Import Store.Model Store.IndexProofs Store.SimpleProofs Store.MemProofs Store.GraphProofs Store.Iter.

Lemma yields_ok_reading c p W ys :
  yields_ok (c, p, W) ys = true <-> forall t, In t ys -> matches p t = true /\ In t W.
Proof.
  unfold yields_ok. rewrite forallb_forall. split; intros H t Ht; specialize (H t Ht).
  - apply andb_true_iff in H. destruct H as [H1 H2]. split; auto. now apply tmemb_In.
  - apply andb_true_iff. destruct H as [H1 H2]. split; auto. now apply tmemb_In.
Qed.

(* the window only grows, and contains the graph's content after every mutation *)
Lemma widen_reading S c p W t :
  In t (snd (widen S (c, p, W))) <-> In t W \/ In (t, c) S.
Proof.
  simpl. rewrite tsunion_In, sp_content_In. tauto.
Qed.

(* the corpus witness of the former finding F10: g1 = {(1,3,1)}, g2 = {(1,3,2)}; an
   iterator over g1 with pattern (1,?,?) is opened and stepped once; (1,3,2) is removed
   from g2 (its only graph); before the repair the iterator then yielded (1,3,2) *)
Definition f10_witness : icase :=
  {| ic_ops := [SAdd 1 (1, 3, 1); SAdd 2 (1, 3, 2); SOpen 1 (Some 1, None, None); SNext 0;
                SRemove 2 (Some 1, Some 3, Some 2); SDrain 0]%N |}.

Lemma f10_witness_passes :
  ispec_ok f10_witness (imodel_obs f10_witness) = true
  /\ last (imodel_obs f10_witness) no_obs = (0, false, [], 1)%N.
Proof. vm_compute. auto. Qed.

(* historical behaviour: the unrepaired test reported a triple that is not in the
   store as a member of the graph of the default contexts *)
Lemma hist_has_ctx_refuted :
  exists m t c, MemInv m /\ mem_leaf m t = false /\ hist_has_ctx_live m t c = Some true
                /\ has_ctx_live m t c = Some false.
Proof.
  exists (mem_add mem_empty 1%N (1, 3, 1)%N), (1, 3, 2)%N, 1%N.
  split; [apply mem_add_ok, MemInv_empty|]. vm_compute. auto.
Qed.

(* ---------- no step of any schedule raises *)
(* before the first add ever (no default contexts yet) the store is blank *)
Definition Blank (m : mem) : Prop :=
  m_def m = None ->
  m_spo m = [] /\ m_pos m = [] /\ m_osp m = [] /\ forall k, pd_getd ckey_eqb k (m_ct m) = [].

(* ... and an iterator has nothing left to look at *)
Definition Quiet (m : mem) (it : iter) : Prop :=
  m_def m = None -> it_inner it = [] /\ it_outer it = [].

Lemma def_remove1 c m t : m_def (mem_remove1 c m t) = m_def m.
Proof.
  unfold mem_remove1. destruct t as [[s p] o].
  repeat match goal with |- context [if ?b then _ else _] => destruct b end; reflexivity.
Qed.

Lemma def_fold_remove c l : forall m, m_def (fold_left (mem_remove1 c) l m) = m_def m.
Proof. induction l as [|t r IH]; simpl; intros m; auto. now rewrite IH, def_remove1. Qed.

Lemma def_remove m c p : m_def (mem_remove m c p) = m_def m.
Proof.
  unfold mem_remove.
  destruct (pd_get ckey_eqb (Some c) (m_ct (fold_left (mem_remove1 c) (mem_triples m c p) m))) as [[|x r]|];
    cbn [m_def]; apply def_fold_remove.
Qed.

Lemma def_add m c t : m_def (mem_add m c t) <> None.
Proof.
  destruct t as [[s p] o]. unfold mem_add.
  destruct (idx_has s p o (m_spo m)); cbn [m_def mem_add_ctx]; destruct (m_def m); discriminate.
Qed.

Lemma idx_triples_nil p : idx_triples [] [] [] p = [].
Proof. destruct p as [[[s|] [pp|]] [o|]]; reflexivity. Qed.

Lemma blank_triples m c p : Blank m -> m_def m = None -> mem_triples m c p = [].
Proof.
  intros HB Hd. destruct (HB Hd) as (E1 & E2 & E3 & E4).
  unfold mem_triples. rewrite E1, E2, E3, idx_triples_nil, E4.
  destruct p as [[[s|] [pp|]] [o|]]; reflexivity.
Qed.

Lemma Blank_empty : Blank mem_empty.
Proof. intros _. repeat split. intros [k|]; reflexivity. Qed.

Lemma Blank_add m c t : Blank (mem_add m c t).
Proof. intros H. exfalso. exact (def_add m c t H). Qed.

Lemma Blank_remove m c p : Blank m -> Blank (mem_remove m c p).
Proof.
  intros HB Hd. rewrite def_remove in Hd. destruct (HB Hd) as (E1 & E2 & E3 & E4).
  unfold mem_remove. rewrite (blank_triples m c p HB Hd). cbn [fold_left].
  destruct (pd_get ckey_eqb (Some c) (m_ct m)) as [[|x r]|]; cbn [m_spo m_pos m_osp m_ct]; auto.
  repeat split; auto. intros k. rewrite (pd_getd_del _ ckey_eqb_spec). destruct (ckey_eqb k (Some c)); auto.
Qed.

Lemma scan_no_raise m c chk l : m_def m <> None -> it_scan m c chk l <> SRaise.
Proof.
  intros Hd. induction l as [|t r IH]; simpl; [discriminate|].
  destruct chk; [|discriminate]. unfold has_ctx_live.
  destruct (pd_get triple_eqb t (m_tc m)) as [d|].
  - destruct (memb ckey_eqb (Some c) d); [discriminate|exact IH].
  - destruct (mem_leaf m t); [|exact IH].
    destruct (m_def m) as [d|]; [|congruence]. destruct (memb ckey_eqb (Some c) d); [discriminate|exact IH].
Qed.

Lemma walk_no_raise m c k chk outer : m_def m <> None -> it_walk m c k chk outer <> WRaise.
Proof.
  intros Hd. induction outer as [|x r IH]; simpl; [discriminate|].
  pose proof (scan_no_raise m c chk (it_expand m k x) Hd).
  destruct (it_scan m c chk (it_expand m k x)); [discriminate|exact IH|congruence].
Qed.

Lemma start_blank m it : Blank m -> m_def m = None ->
  it_inner (it_start m it) = [] /\ it_outer (it_start m it) = [].
Proof.
  intros HB Hd. destruct (HB Hd) as (E1 & E2 & E3 & E4). unfold it_start, keys2. rewrite E1, E2, E3, E4.
  destruct (it_pat it) as [[[s|] [pp|]] [o|]]; split; reflexivity.
Qed.

Lemma next_no_raise m it :
  Blank m -> Quiet m it -> fst (it_next m it) <> NRaise /\ Quiet m (snd (it_next m it)).
Proof.
  intros HB HQ. unfold it_next. destruct (it_done it) eqn:Edone; [split; [discriminate|exact HQ]|].
  destruct (m_def m) as [d|] eqn:Ed.
  - assert (Hd : m_def m <> None) by congruence.
    set (it1 := if it_started it then it else it_start m it).
    pose proof (scan_no_raise m (it_cid it1) (it_check it1) (it_inner it1) Hd) as Hs.
    pose proof (walk_no_raise m (it_cid it1) (it_kind it1) (it_check it1) (it_outer it1) Hd) as Hw.
    destruct (it_scan m (it_cid it1) (it_check it1) (it_inner it1)); [| |congruence].
    + split; [discriminate|intros H; congruence].
    + destruct (it_walk m (it_cid it1) (it_kind it1) (it_check it1) (it_outer it1)); [| |congruence];
        (split; [discriminate|intros H; congruence]).
  - assert (Hq : it_inner (if it_started it then it else it_start m it) = []
                 /\ it_outer (if it_started it then it else it_start m it) = []).
    { destruct (it_started it); [now apply HQ|now apply start_blank]. }
    destruct Hq as [-> ->]. cbn [it_scan it_walk fst snd]. split; [discriminate|]. intros _. split; reflexivity.
Qed.

(* the rest of a loop run to its end: what is yielded was a candidate and passed the test *)
Lemma scan_all_spec m c chk l :
  (forall t, In t (fst (scan_all m c chk l)) -> In t l /\ (chk = true -> has_ctx_live m t c = Some true))
  /\ ((forall t, has_ctx_live m t c <> None) -> snd (scan_all m c chk l) = false).
Proof.
  induction l as [|u r [IH1 IH2]]; cbn [scan_all]; [split; [simpl; tauto|reflexivity]|].
  destruct chk.
  - destruct (has_ctx_live m u c) as [[|]|] eqn:E.
    + destruct (scan_all m c true r) as [ys e]. cbn [fst snd] in *. split; auto.
      intros t [Ht|Ht]; [subst t; split; [simpl; auto|intros _; exact E]|]. destruct (IH1 t Ht). split; [simpl; auto|auto].
    + split; auto. intros t Ht. destruct (IH1 t Ht). split; [simpl; auto|auto].
    + split; [simpl; tauto|]. intros H. exfalso. exact (H u E).
  - destruct (scan_all m c false r) as [ys e]. cbn [fst snd] in *. split; auto.
    intros t [Ht|Ht]; [subst t; split; [simpl; auto|discriminate]|]. destruct (IH1 t Ht). split; [simpl; auto|auto].
Qed.

Lemma walk_all_spec m c k chk outer :
  (forall t, In t (fst (walk_all m c k chk outer)) ->
             exists x, In t (it_expand m k x) /\ (chk = true -> has_ctx_live m t c = Some true))
  /\ ((forall t, has_ctx_live m t c <> None) -> snd (walk_all m c k chk outer) = false).
Proof.
  induction outer as [|x r [IH1 IH2]]; cbn [walk_all]; [split; [simpl; tauto|reflexivity]|].
  destruct (scan_all_spec m c chk (it_expand m k x)) as [S1 S2].
  destruct (scan_all m c chk (it_expand m k x)) as [ys e]. cbn [fst snd] in *.
  destruct e.
  - split; [|intros H; specialize (S2 H); discriminate]. intros t Ht. exists x. now apply S1.
  - destruct (walk_all m c k chk r) as [zs e']. cbn [fst snd] in *. split; auto.
    intros t Ht. apply in_app_iff in Ht. destruct Ht as [Ht|Ht]; [exists x; now apply S1|now apply IH1].
Qed.

Lemma live_total_def m c : m_def m <> None -> forall t, has_ctx_live m t c <> None.
Proof.
  intros Hd t. unfold has_ctx_live. destruct (pd_get triple_eqb t (m_tc m)); [discriminate|].
  destruct (mem_leaf m t); [|discriminate]. destruct (m_def m); [discriminate|congruence].
Qed.

Lemma drain_no_raise m it :
  Blank m -> Quiet m it ->
  snd (fst (it_drain m it)) <> 2%N /\ Quiet m (snd (it_drain m it)).
Proof.
  intros HB HQ. unfold it_drain. destruct (it_done it); [split; [discriminate|exact HQ]|].
  set (it1 := if it_started it then it else it_start m it).
  assert (HQ' : forall o i, Quiet m (it_set it1 true o i) \/ True) by auto.
  destruct (m_def m) as [d|] eqn:Ed.
  - assert (Hd : m_def m <> None) by congruence.
    pose proof (proj2 (scan_all_spec m (it_cid it1) (it_check it1) (it_inner it1)) (live_total_def m _ Hd)) as E1.
    pose proof (proj2 (walk_all_spec m (it_cid it1) (it_kind it1) (it_check it1) (it_outer it1)) (live_total_def m _ Hd)) as E2.
    destruct (scan_all m (it_cid it1) (it_check it1) (it_inner it1)) as [ys e]. cbn [snd] in E1. subst e.
    destruct (walk_all m (it_cid it1) (it_kind it1) (it_check it1) (it_outer it1)) as [zs e']. cbn [snd] in E2. subst e'.
    cbn [fst snd]. split; [discriminate|intros H; congruence].
  - assert (Hq : it_inner it1 = [] /\ it_outer it1 = []).
    { unfold it1. destruct (it_started it); [now apply HQ|now apply start_blank]. }
    destruct Hq as [-> ->]. cbn [scan_all walk_all fst snd app]. split; [discriminate|]. intros _. split; reflexivity.
Qed.

Lemma Forall_set_nth {A} (P : A -> Prop) n x l : Forall P l -> P x -> Forall P (set_nth n x l).
Proof.
  revert n. induction l as [|y r IH]; intros n Hl Hx; [destruct n; constructor|].
  inversion Hl; subst. destruct n; simpl; constructor; auto.
Qed.

Lemma Quiet_mono m m' it : (m_def m' = None -> m_def m = None) -> Quiet m it -> Quiet m' it.
Proof. intros H HQ Hd. apply HQ, H, Hd. Qed.

(* On the default store, whatever mutations are interleaved with the steps of
   whatever open iterators: no next() raises. *)
Theorem iter_no_raise : forall ops m its,
  Blank m -> Forall (Quiet m) its -> Forall (fun e => ob_st e <> 2%N) (i_run m its ops).
Proof.
  induction ops as [|o r IH]; intros m its HB HQ; cbn [i_run]; [constructor|].
  assert (Hno : ob_st no_obs <> 2%N) by discriminate.
  destruct o as [c t|c p|c t|c p|i|i]; cbn [i_step].
  - constructor; auto. apply IH; [apply Blank_add|].
    eapply Forall_impl; [|exact HQ]. intros it. apply Quiet_mono. intros H. exfalso. exact (def_add m c t H).
  - constructor; auto. apply IH; [now apply Blank_remove|].
    eapply Forall_impl; [|exact HQ]. intros it. apply Quiet_mono. now rewrite def_remove.
  - constructor; auto. apply IH; [apply Blank_add|].
    eapply Forall_impl; [|exact HQ]. intros it. apply Quiet_mono. intros H. exfalso.
    exact (def_add _ c t H).
  - constructor; auto. apply IH; auto. apply Forall_app. split; auto. constructor; [|constructor].
    intros _. split; reflexivity.
  - destruct (nth_error its i) as [it|] eqn:E; [|constructor; auto].
    assert (HQi : Quiet m it) by (rewrite Forall_forall in HQ; apply HQ; eapply nth_error_In; eauto).
    destruct (next_no_raise m it HB HQi) as [H1 H2].
    destruct (it_next m it) as [[t| |] it']; cbn [fst snd] in *; try congruence;
      (constructor; [discriminate|apply IH; auto; now apply Forall_set_nth]).
  - destruct (nth_error its i) as [it|] eqn:E; [|constructor; auto].
    assert (HQi : Quiet m it) by (rewrite Forall_forall in HQ; apply HQ; eapply nth_error_In; eauto).
    destruct (drain_no_raise m it HB HQi) as [H1 H2].
    destruct (it_drain m it) as [[ys st] it']. cbn [fst snd] in *.
    constructor; [exact H1|apply IH; auto; now apply Forall_set_nth].
Qed.

Corollary iter_no_raise_model c : Forall (fun e => ob_st e <> 2%N) (imodel_obs c).
Proof. apply iter_no_raise; [apply Blank_empty|constructor]. Qed.

(* ================================================================== *)
(* Soundness of open iterators, for every schedule                     *)

Definition HoldsRel (m : mem) (S : qset) : Prop := forall c t, mem_holds m c t = q_mem (t, c) S.

(* the loop structure an iterator is in agrees with its pattern *)
Definition kind_ok (p : pat) (chk : bool) (k : ikind) : Prop :=
  match p with
  | (None, None, None) => chk = false /\ k = KFlat
  | (Some s, None, Some o) => chk = true /\ k = KSo s o
  | (Some s, None, None) => chk = true /\ k = KSpo s
  | (None, Some pr, None) => chk = true /\ k = KPos pr
  | (None, None, Some o) => chk = true /\ k = KOsp o
  | _ => chk = true /\ k = KFlat
  end.

(* every candidate still to be examined matches the pattern (tested shapes) *)
Definition ItOK (it : iter) : Prop :=
  it_started it = true -> it_done it = false ->
  kind_ok (it_pat it) (it_check it) (it_kind it)
  /\ (it_check it = true -> Forall (fun t => matches (it_pat it) t = true) (it_inner it)).

(* ... or was in the graph when the copy was taken (the untested shape) *)
Definition ItWin (it : iter) (W : list triple) : Prop :=
  it_started it = true -> it_done it = false -> it_check it = false ->
  Forall (fun t => In t W) (it_inner it).

Definition ItRel (it : iter) (x : sit) : Prop :=
  let '(c, p, W) := x in it_cid it = c /\ it_pat it = p /\ ItOK it /\ ItWin it W.

(* the window contains the present content of the graph *)
Definition WOK (S : qset) (x : sit) : Prop :=
  let '(c, p, W) := x in forall t, In (t, c) S -> In t W.

Lemma live_holds m t c : MemInv m -> has_ctx_live m t c = Some true -> mem_holds m c t = true.
Proof.
  intros Hi. unfold has_ctx_live. destruct (pd_get triple_eqb t (m_tc m)) as [d|] eqn:E.
  - intros [= H]. apply holds_iff. split; [exact (mi_tc_leaf Hi t d E)|].
    unfold mem_ctxs. rewrite E. now apply kmemb_In.
  - destruct (mem_leaf m t) eqn:El; [|discriminate]. rewrite mem_leaf_eq in El.
    destruct (m_def m) as [d|] eqn:Ed; [|discriminate]. intros [= H].
    apply holds_iff. split; auto. unfold mem_ctxs. rewrite E, Ed. now apply kmemb_In.
Qed.

Lemma live_total m t c : MemInv m -> has_ctx_live m t c <> None.
Proof.
  intros Hi. unfold has_ctx_live. destruct (pd_get triple_eqb t (m_tc m)); [discriminate|].
  destruct (mem_leaf m t) eqn:El; [|discriminate]. rewrite mem_leaf_eq in El.
  pose proof (mi_def Hi t El). destruct (m_def m); [discriminate|congruence].
Qed.

Lemma scan_spec m c chk l t rest :
  it_scan m c chk l = SYield t rest ->
  In t l /\ (chk = true -> has_ctx_live m t c = Some true) /\ incl rest l.
Proof.
  induction l as [|u r IH]; simpl; [discriminate|].
  destruct chk.
  - destruct (has_ctx_live m u c) as [[|]|] eqn:E; [| |discriminate].
    + intros [= <- <-]. split; [auto|split; [auto|apply incl_tl, incl_refl]].
    + intros H. destruct (IH H) as (H1 & H2 & H3). split; [auto|split; [auto|now apply incl_tl]].
  - intros [= <- <-]. split; [auto|split; [discriminate|apply incl_tl, incl_refl]].
Qed.

Lemma scan_total m c chk l : MemInv m -> it_scan m c chk l <> SRaise.
Proof.
  intros Hi. induction l as [|u r IH]; simpl; [discriminate|].
  destruct chk; [|discriminate]. pose proof (live_total m u c Hi).
  destruct (has_ctx_live m u c) as [[|]|]; [discriminate|exact IH|congruence].
Qed.

Lemma walk_spec m c k chk outer t r inner :
  it_walk m c k chk outer = WYield t r inner ->
  exists x, In t (it_expand m k x) /\ (chk = true -> has_ctx_live m t c = Some true)
            /\ incl inner (it_expand m k x).
Proof.
  induction outer as [|x o IH]; simpl; [discriminate|].
  destruct (it_scan m c chk (it_expand m k x)) as [t' rest| |] eqn:E; [| |discriminate].
  - intros [= <- <- <-]. exists x. now apply scan_spec in E.
  - exact IH.
Qed.

Lemma walk_total m c k chk outer : MemInv m -> it_walk m c k chk outer <> WRaise.
Proof.
  intros Hi. induction outer as [|x o IH]; simpl; [discriminate|].
  pose proof (scan_total m c chk (it_expand m k x) Hi).
  destruct (it_scan m c chk (it_expand m k x)); [discriminate|exact IH|congruence].
Qed.

Lemma expand_matches m p k x t :
  kind_ok p true k -> In t (it_expand m k x) -> matches p t = true.
Proof.
  destruct p as [[[s|] [pr|]] [o|]]; simpl; intros [_ ->]; simpl;
    try tauto; try (destruct (idx_has _ _ _ _); simpl; [|tauto]);
    try (rewrite in_map_iff; intros (y & <- & _)); try (intros [<-|[]]);
    simpl; rewrite ?N.eqb_refl; reflexivity.
Qed.

Lemma expand_unchecked m p k x : kind_ok p false k -> it_expand m k x = [].
Proof. destruct p as [[[s|] [pr|]] [o|]]; simpl; intros [H ->]; try discriminate. reflexivity. Qed.

Lemma start_ok m S it c p W :
  MemInv m -> HoldsRel m S -> WOK S (c, p, W) -> it_cid it = c -> it_pat it = p ->
  ItRel (it_start m it) (c, p, W) /\ it_started (it_start m it) = true /\ it_done (it_start m it) = false.
Proof.
  intros Hi HR HW Hc Hp. unfold it_start. rewrite Hp, Hc.
  assert (Hwild : Forall (fun t => In t W) (pd_getd ckey_eqb (Some c) (m_ct m))).
  { apply Forall_forall. intros t Ht. apply (mi_ct Hi) in Ht. apply HW. apply q_mem_In. rewrite <- HR.
    now apply holds_iff. }
  unfold ItRel, ItOK, ItWin.
  destruct p as [[[s|] [pr|]] [o|]]; cbn [it_cid it_pat it_started it_done it_check it_kind it_inner];
    (split; [split; [reflexivity|split; [reflexivity|split]]|split; reflexivity]);
    try (intros _ _ H; discriminate H); try (intros _ _ _; exact Hwild);
    intros _ _; (split; [simpl; auto|]); try discriminate; intros _.
  - destruct (idx_has s pr o (m_spo m)); constructor; [|constructor]. simpl. now rewrite !N.eqb_refl.
  - apply Forall_forall. intros t Ht. apply in_map_iff in Ht. destruct Ht as (y & <- & _). simpl. now rewrite !N.eqb_refl.
  - constructor.
  - constructor.
  - apply Forall_forall. intros t Ht. apply in_map_iff in Ht. destruct Ht as (y & <- & _). simpl. now rewrite !N.eqb_refl.
  - constructor.
  - constructor.
Qed.

Lemma Forall_incl {A} (P : A -> Prop) l1 l2 : incl l1 l2 -> Forall P l2 -> Forall P l1.
Proof. intros Hi H. rewrite Forall_forall in *. auto. Qed.

(* One step.  A yielded triple matches the pattern and lies in the window; if the
   pattern is not (?,?,?) it is in the iterated graph in the CURRENT state. *)
Lemma next_sound m S it c p W :
  MemInv m -> HoldsRel m S -> ItRel it (c, p, W) -> WOK S (c, p, W) ->
  ItRel (snd (it_next m it)) (c, p, W) /\ fst (it_next m it) <> NRaise
  /\ forall t, fst (it_next m it) = NYield t ->
       matches p t = true /\ In t W /\ (is_wild p = false -> mem_holds m c t = true).
Proof.
  intros Hi HR HRel HW. unfold it_next.
  destruct (it_done it) eqn:Edone; [split; [exact HRel|split; [discriminate|intros t H; discriminate H]]|].
  set (it1 := if it_started it then it else it_start m it).
  assert (H1 : ItRel it1 (c, p, W) /\ it_started it1 = true /\ it_done it1 = false).
  { unfold it1. destruct (it_started it) eqn:Es; [auto|].
    destruct HRel as (Hc & Hp & _). now apply (start_ok m S). }
  destruct H1 as ((Hc & Hp & Hok & Hwin) & Hs1 & Hd1).
  destruct (Hok Hs1 Hd1) as [Hk Hm]. specialize (Hwin Hs1 Hd1).
  assert (Hholds : forall t, has_ctx_live m t c = Some true -> In t W /\ mem_holds m c t = true).
  { intros t Ht. pose proof (live_holds m t c Hi Ht) as Hh. split; auto. apply HW, q_mem_In. now rewrite <- HR. }
  assert (Hwildchk : is_wild p = false -> it_check it1 = true).
  { intros Hw. rewrite Hp in Hk. destruct p as [[[s|] [pr|]] [o|]]; simpl in *; try tauto; discriminate. }
  assert (Hset : forall d o i, ItOK (it_set it1 d o i) <->
            (d = false -> it_check it1 = true -> Forall (fun t => matches (it_pat it1) t = true) i)).
  { intros d o i. unfold ItOK, it_set. cbn [it_started it_done it_pat it_check it_kind it_inner]. split.
    - intros H Hd Hc'. now apply H.
    - intros H _ Hd. split; auto. }
  rewrite Hc in *. 
  pose proof (scan_total m c (it_check it1) (it_inner it1) Hi) as Hst.
  pose proof (walk_total m c (it_kind it1) (it_check it1) (it_outer it1) Hi) as Hwt.
  destruct (it_scan m c (it_check it1) (it_inner it1)) as [t rest| |] eqn:Escan; [| |congruence]; cbn [fst snd].
  - apply scan_spec in Escan. destruct Escan as (Hin & Hlive & Hincl).
    split; [|split; [discriminate|]].
    + unfold ItRel. split; [exact Hc|split; [exact Hp|split]].
      * apply Hset. intros _ Hchk. eapply Forall_incl; [exact Hincl|auto].
      * unfold ItWin, it_set. cbn [it_started it_done it_check it_inner]. intros _ _ Hchk.
        eapply Forall_incl; [exact Hincl|auto].
    + intros t' [= <-]. destruct (it_check it1) eqn:Echk.
      * destruct (Hholds t (Hlive eq_refl)) as [Hw Hh]. rewrite <- Hp.
        split; [|split; auto]. specialize (Hm eq_refl). rewrite Forall_forall in Hm. auto.
      * specialize (Hwin eq_refl). rewrite Forall_forall in Hwin. split; [|split; auto].
        -- rewrite Hp in Hk. destruct p as [[[s|] [pr|]] [o|]]; simpl in Hk; destruct Hk as [Hk _]; try discriminate.
           destruct t as [[x y] z]. reflexivity.
        -- intros Hw. specialize (Hwildchk Hw). discriminate.
  - destruct (it_walk m c (it_kind it1) (it_check it1) (it_outer it1)) as [t outer inner| |] eqn:Ewalk; [| |congruence]; cbn [fst snd].
    + apply walk_spec in Ewalk. destruct Ewalk as (x & Hin & Hlive & Hincl).
      destruct (it_check it1) eqn:Echk.
      * assert (Hmx : forall u, In u (it_expand m (it_kind it1) x) -> matches (it_pat it1) u = true).
        { intros u Hu. eapply expand_matches; eauto. }
        split; [|split; [discriminate|]].
        -- unfold ItRel. split; [exact Hc|split; [exact Hp|split]].
           ++ apply Hset. intros _ _. apply Forall_forall. intros u Hu. apply Hmx, Hincl, Hu.
           ++ unfold ItWin, it_set. cbn [it_started it_done it_check it_inner]. rewrite Echk. discriminate.
        -- intros t' [= <-]. destruct (Hholds t (Hlive eq_refl)) as [Hw Hh]. rewrite <- Hp. auto.
      * exfalso. rewrite (expand_unchecked m _ _ x Hk) in Hin. destruct Hin.
    + split; [|split; [discriminate|intros t H; discriminate H]].
      unfold ItRel. split; [exact Hc|split; [exact Hp|split]].
      * apply Hset. discriminate.
      * unfold ItWin, it_set. cbn [it_started it_done]. discriminate.
Qed.

(* ---------- mutations keep the relations *)
Lemma HoldsRel_empty : HoldsRel mem_empty [].
Proof. intros c t. now rewrite holds_empty. Qed.

Lemma HoldsRel_add m S c t0 : MemInv m -> HoldsRel m S -> HoldsRel (mem_add m c t0) (q_add (t0, c) S).
Proof.
  intros Hi HR c' t. rewrite (proj2 (mem_add_ok m c t0 Hi)), q_mem_add, quad_eqb_pair, HR.
  now rewrite (andb_comm (N.eqb c' c)).
Qed.

Lemma HoldsRel_remove m S c p : MemInv m -> HoldsRel m S -> HoldsRel (mem_remove m c p) (q_remove p (Some c) S).
Proof.
  intros Hi HR c' t. rewrite (proj2 (mem_remove_ok m c p Hi)), q_mem_remove, HR. cbn [fst snd].
  now rewrite (N.eqb_sym c c'), (andb_comm (matches p t)).
Qed.

Lemma mut_ok m S o :
  MemInv m -> HoldsRel m S -> is_mut o = true ->
  MemInv (fst (fst (i_step m [] o))) /\ HoldsRel (fst (fst (i_step m [] o))) (sp_mut S o).
Proof.
  intros Hi HR Hm. destruct o as [c t|c p|c t| | |]; try discriminate; cbn [i_step fst sp_mut].
  - split; [apply mem_add_ok, Hi|now apply HoldsRel_add].
  - split; [apply mem_remove_ok, Hi|now apply HoldsRel_remove].
  - unfold mem_set. pose proof (proj1 (mem_remove_ok m c (sp_pat t) Hi)) as Hi1. split; [apply mem_add_ok, Hi1|].
    apply HoldsRel_add; auto. now apply HoldsRel_remove.
Qed.

Lemma ItRel_widen S it x : ItRel it x -> ItRel it (widen S x).
Proof.
  destruct x as [[c p] W]. intros (H1 & H2 & H3 & H4). split; [auto|split; [auto|split; auto]].
  intros Hs Hd Hc. eapply Forall_impl; [|exact (H4 Hs Hd Hc)]. intros t Ht. cbv beta. apply tsunion_In. auto.
Qed.

Lemma WOK_widen S x : WOK S (widen S x).
Proof. destruct x as [[c p] W]. intros t Ht. apply tsunion_In. right. now apply sp_content_In. Qed.

(* ---------- lists of iterators *)
Lemma Forall2_nth {A B} (R : A -> B -> Prop) l m i :
  Forall2 R l m ->
  match nth_error l i with
  | Some a => exists b, nth_error m i = Some b /\ R a b
  | None => nth_error m i = None
  end.
Proof.
  intros H. revert i. induction H as [|a b l m Hab H IH]; intros [|i]; simpl; auto.
  - exists b. auto.
  - apply IH.
Qed.

Lemma Forall2_set_nth {A B} (R : A -> B -> Prop) l m i y b :
  Forall2 R l m -> nth_error m i = Some b -> R y b -> Forall2 R (set_nth i y l) m.
Proof.
  intros H. revert i. induction H as [|a b' l m Hab H IH]; intros [|i] Hn Hy; simpl in *; try discriminate.
  - injection Hn as ->. constructor; auto.
  - constructor; auto.
Qed.

Lemma Forall2_map_r {A B} (R : A -> B -> Prop) (f : B -> B) l m :
  (forall a b, R a b -> R a (f b)) -> Forall2 R l m -> Forall2 R l (map f m).
Proof. intros Hf H. induction H; simpl; constructor; auto. Qed.

(* list(it) *)
Lemma drain_sound m S it c p W :
  MemInv m -> HoldsRel m S -> ItRel it (c, p, W) -> WOK S (c, p, W) ->
  let r := it_drain m it in
  ItRel (snd r) (c, p, W) /\ (snd (fst r) = 1%N)
  /\ forall t, In t (fst (fst r)) -> matches p t = true /\ In t W.
Proof.
  intros Hi HR HRel HW. unfold it_drain.
  destruct (it_done it) eqn:Edone; [cbn; split; [exact HRel|split; [reflexivity|intros t []]]|].
  set (it1 := if it_started it then it else it_start m it).
  assert (H1 : ItRel it1 (c, p, W) /\ it_started it1 = true /\ it_done it1 = false).
  { unfold it1. destruct (it_started it) eqn:Es; [auto|].
    destruct HRel as (Hc & Hp & _). now apply (start_ok m S). }
  destruct H1 as ((Hc & Hp & Hok & Hwin) & Hs1 & Hd1).
  destruct (Hok Hs1 Hd1) as [Hk Hm]. specialize (Hwin Hs1 Hd1).
  assert (Hholds : forall t, has_ctx_live m t c = Some true -> In t W).
  { intros t Ht. pose proof (live_holds m t c Hi Ht) as Hh. apply HW, q_mem_In. now rewrite <- HR. }
  rewrite Hc in *.
  destruct (scan_all_spec m c (it_check it1) (it_inner it1)) as [S1 S2].
  destruct (walk_all_spec m c (it_kind it1) (it_check it1) (it_outer it1)) as [W1 W2].
  specialize (S2 (fun t => live_total m t c Hi)). specialize (W2 (fun t => live_total m t c Hi)).
  destruct (scan_all m c (it_check it1) (it_inner it1)) as [ys e]. cbn [fst snd] in *. subst e.
  destruct (walk_all m c (it_kind it1) (it_check it1) (it_outer it1)) as [zs e']. cbn [fst snd] in *. subst e'.
  split; [|split; [reflexivity|]].
  - split; [exact Hc|split; [exact Hp|split]].
    + unfold ItOK, it_set. cbn [it_started it_done]. discriminate.
    + unfold ItWin, it_set. cbn [it_started it_done]. discriminate.
  - intros t Ht. apply in_app_iff in Ht. destruct (it_check it1) eqn:Echk.
    + rewrite <- Hp. destruct Ht as [Ht|Ht].
      * destruct (S1 t Ht) as [Hin Hl]. split; [|apply Hholds; auto].
        specialize (Hm eq_refl). rewrite Forall_forall in Hm. auto.
      * destruct (W1 t Ht) as (x & Hin & Hl). split; [|apply Hholds; auto]. eapply expand_matches; eauto.
    + destruct Ht as [Ht|Ht].
      * destruct (S1 t Ht) as [Hin _]. specialize (Hwin eq_refl). rewrite Forall_forall in Hwin. split; auto.
        rewrite Hp in Hk. destruct p as [[[s|] [pr|]] [o|]]; simpl in Hk; destruct Hk as [Hk _]; try discriminate.
        destruct t as [[x y] z]. reflexivity.
      * destruct (W1 t Ht) as (x & Hin & _). rewrite (expand_unchecked m _ _ x Hk) in Hin. destruct Hin.
Qed.

(* Every schedule of mutations, opens, next() and list() on the default store:
   the iterator checker accepts what the model does. *)
Theorem iter_sound_run : forall ops m its S xs,
  MemInv m -> HoldsRel m S -> Forall2 ItRel its xs -> Forall (WOK S) xs ->
  ispec_run S xs ops (i_run m its ops) = true.
Proof.
  induction ops as [|o r IH]; intros m its S xs Hi HR HF HW; [reflexivity|].
  cbn [i_run].
  assert (Hmut : is_mut o = true ->
            let m' := fst (fst (i_step m [] o)) in
            ispec_run (sp_mut S o) (map (widen (sp_mut S o)) xs) r (i_run m' its r) = true).
  { intros Hm m'. destruct (mut_ok m S o Hi HR Hm) as [Hi' HR']. apply IH; auto.
    - apply Forall2_map_r; auto. intros a b. apply ItRel_widen.
    - apply Forall_forall. intros x Hx. apply in_map_iff in Hx. destruct Hx as (y & <- & _). apply WOK_widen. }
  destruct o as [c t|c p|c t|c p|i|i]; cbn [i_step ispec_run].
  - exact (Hmut eq_refl).
  - exact (Hmut eq_refl).
  - exact (Hmut eq_refl).
  - cbn. apply IH; auto.
    + apply Forall2_app; auto. constructor; [|constructor].
      split; [reflexivity|split; [reflexivity|split]]; intros H; discriminate H.
    + apply Forall_app. split; auto. constructor; [|constructor]. intros t Ht. now apply sp_content_In.
  - pose proof (Forall2_nth ItRel its xs i HF) as Hn.
    destruct (nth_error its i) as [it|] eqn:E.
    + destruct Hn as ([[c p] W] & Hx & HRel). rewrite Hx.
      assert (HWx : WOK S (c, p, W)) by (rewrite Forall_forall in HW; apply HW; eapply nth_error_In; eauto).
      destruct (next_sound m S it c p W Hi HR HRel HWx) as (N1 & N2 & N3).
      destruct (it_next m it) as [[t| |] it']; cbn [fst snd] in *; try congruence.
      * cbn [ispec_run ob_st ob_ys fst snd]. rewrite IH; auto; [|eapply Forall2_set_nth; eauto].
        destruct (N3 t eq_refl) as (A & B & _). cbn. rewrite A. apply tmemb_In in B. unfold teq. now rewrite B.
      * cbn. apply IH; auto. eapply Forall2_set_nth; eauto.
    + rewrite Hn. apply IH; auto.
  - pose proof (Forall2_nth ItRel its xs i HF) as Hn.
    destruct (nth_error its i) as [it|] eqn:E.
    + destruct Hn as ([[c p] W] & Hx & HRel). rewrite Hx.
      assert (HWx : WOK S (c, p, W)) by (rewrite Forall_forall in HW; apply HW; eapply nth_error_In; eauto).
      destruct (drain_sound m S it c p W Hi HR HRel HWx) as (D1 & D2 & D3).
      destruct (it_drain m it) as [[ys st] it']. cbn [fst snd] in *.
      cbn [ispec_run ob_st ob_ys fst snd]. rewrite IH; auto; [|eapply Forall2_set_nth; eauto].
      rewrite andb_true_r. apply andb_true_iff. split.
      * rewrite D2. reflexivity.
      * apply yields_ok_reading. exact D3.
    + rewrite Hn. apply IH; auto.
Qed.

Theorem ispec_ok_model c : ispec_ok c (imodel_obs c) = true.
Proof.
  unfold ispec_ok, imodel_obs. apply iter_sound_run; [apply MemInv_empty|apply HoldsRel_empty|constructor|constructor].
Qed.

(* ================================================================== *)
(* The same statement without the boolean checker                       *)

(* the mathematical store after a schedule prefix (opens and steps change nothing) *)
Definition s_state (S : qset) (ops : list sop) : qset := fold_left sp_mut ops S.

Fixpoint count_opens (ops : list sop) : nat :=
  match ops with
  | [] => 0
  | SOpen _ _ :: r => Datatypes.S (count_opens r)
  | _ :: r => count_opens r
  end.

(* specification state and iterator windows after a schedule prefix *)
Fixpoint sx_run (S : qset) (xs : list sit) (ops : list sop) : qset * list sit :=
  match ops with
  | [] => (S, xs)
  | o :: r =>
      match o with
      | SOpen c p => sx_run S (xs ++ [(c, p, sp_content S c)]) r
      | SNext _ | SDrain _ => sx_run S xs r
      | _ => sx_run (sp_mut S o) (map (widen (sp_mut S o)) xs) r
      end
  end.

Lemma sx_run_app a : forall S xs b,
  sx_run S xs (a ++ b) = sx_run (fst (sx_run S xs a)) (snd (sx_run S xs a)) b.
Proof. induction a as [|o r IH]; intros S xs b; [reflexivity|]. destruct o; cbn [app sx_run]; apply IH. Qed.

Lemma sx_run_state ops : forall S xs, fst (sx_run S xs ops) = s_state S ops.
Proof. induction ops as [|o r IH]; intros S xs; [reflexivity|]. destruct o; cbn [sx_run s_state fold_left]; apply IH. Qed.

Lemma sx_run_length ops : forall S xs, length (snd (sx_run S xs ops)) = length xs + count_opens ops.
Proof.
  induction ops as [|o r IH]; intros S xs; cbn [sx_run count_opens snd]; [lia|].
  destruct o; rewrite IH; rewrite ?map_length, ?app_length; simpl; lia.
Qed.

Lemma ispec_run_app a : forall S xs b ob,
  ispec_run S xs (a ++ b) ob = true ->
  ispec_run (fst (sx_run S xs a)) (snd (sx_run S xs a)) b (skipn (length a) ob) = true.
Proof.
  induction a as [|o r IH]; intros S xs b ob H; [exact H|].
  destruct ob as [|e ob]; [destruct o; discriminate H|].
  cbn [app ispec_run] in H. cbn [length skipn sx_run].
  destruct o as [c t|c p|c t|c p|i|i].
  - apply andb_true_iff in H. apply IH, H.
  - apply andb_true_iff in H. apply IH, H.
  - apply andb_true_iff in H. apply IH, H.
  - apply andb_true_iff in H. apply IH, H.
  - destruct (nth_error xs i); [apply andb_true_iff in H|]; apply IH, H.
  - destruct (nth_error xs i); [apply andb_true_iff in H|]; apply IH, H.
Qed.

Lemma i_run_length ops : forall m its, length (i_run m its ops) = length ops.
Proof.
  induction ops as [|o r IH]; intros m its; [reflexivity|]. cbn [i_run].
  destruct (i_step m its o) as [[m' its'] e]. simpl. now rewrite IH.
Qed.

Lemma skipn_last {A} (l : list A) n d : length l = Datatypes.S n -> skipn n l = [last l d].
Proof.
  revert l. induction n as [|n IH]; intros [|a [|b r]] H; try discriminate; try reflexivity.
  change (skipn (Datatypes.S n) (a :: b :: r)) with (skipn n (b :: r)). rewrite IH by (simpl in *; lia). reflexivity.
Qed.

(* the window of an iterator after more of the schedule: what it had, plus the
   content of its graph after every mutation since *)
Lemma window_grows mid : forall S xs i c p W0,
  nth_error xs i = Some (c, p, W0) ->
  exists W, nth_error (snd (sx_run S xs mid)) i = Some (c, p, W)
            /\ forall t, In t W -> In t W0 \/ exists mid1 mid2, mid = mid1 ++ mid2 /\ In (t, c) (s_state S mid1).
Proof.
  induction mid as [|o r IH]; intros S xs i c p W0 Hn.
  - exists W0. split; auto.
  - assert (Hmut : is_mut o = true ->
              exists W, nth_error (snd (sx_run (sp_mut S o) (map (widen (sp_mut S o)) xs) r)) i = Some (c, p, W)
                /\ forall t, In t W -> In t W0 \/ exists mid1 mid2, o :: r = mid1 ++ mid2 /\ In (t, c) (s_state S mid1)).
    { intros _. destruct (IH (sp_mut S o) (map (widen (sp_mut S o)) xs) i c p (sunion teq W0 (sp_content (sp_mut S o) c)))
        as (W & H1 & H2).
      { exact (map_nth_error (widen (sp_mut S o)) i xs Hn). }
      exists W. split; auto. intros t Ht. destruct (H2 t Ht) as [H|(m1 & m2 & -> & H)].
      - apply tsunion_In in H. destruct H as [H|H]; auto. right. exists [o], r. split; auto.
        now apply sp_content_In.
      - right. exists (o :: m1), m2. split; auto. }
    assert (Hsame : forall xs', nth_error xs' i = Some (c, p, W0) -> sp_mut S o = S ->
              exists W, nth_error (snd (sx_run S xs' r)) i = Some (c, p, W)
                /\ forall t, In t W -> In t W0 \/ exists mid1 mid2, o :: r = mid1 ++ mid2 /\ In (t, c) (s_state S mid1)).
    { intros xs' Hn' Hid. destruct (IH S xs' i c p W0 Hn') as (W & H1 & H2). exists W. split; auto.
      intros t Ht. destruct (H2 t Ht) as [H|(m1 & m2 & -> & H)]; auto.
      right. exists (o :: m1), m2. split; auto. unfold s_state. cbn [fold_left]. now rewrite Hid. }
    destruct o as [c' t'|c' p'|c' t'|c' p'|j|j]; cbn [sx_run].
    + exact (Hmut eq_refl).
    + exact (Hmut eq_refl).
    + exact (Hmut eq_refl).
    + apply Hsame; auto. rewrite nth_error_app1; auto. apply nth_error_Some. intros E. pose proof (eq_trans (eq_sym E) Hn) as X. discriminate X.
    + apply Hsame; auto.
    + apply Hsame; auto.
Qed.

(* For every schedule: consider any iterator (opened by [SOpen c p] after the prefix
   [pre]) and any later step [o] of it (next or list).  That step does not raise, and
   every triple it yields matches the pattern and was in graph [c] in the state after
   [pre ++ mid1] for some prefix [mid1] of the operations between the open and the
   step (mid1 = [] is the state at the open, mid1 = mid the state at the step). *)
Theorem iter_sound_explicit : forall pre c p mid o i,
  (o = SNext i \/ o = SDrain i) -> i = count_opens pre ->
  let e := last (imodel_obs {| ic_ops := pre ++ SOpen c p :: mid ++ [o] |}) no_obs in
  ob_st e <> 2%N
  /\ forall t, In t (ob_ys e) ->
       matches p t = true
       /\ exists mid1 mid2, mid = mid1 ++ mid2 /\ In (t, c) (s_state [] (pre ++ SOpen c p :: mid1)).
Proof.
  intros pre c p mid o i Ho Hi e.
  set (a := pre ++ SOpen c p :: mid).
  pose proof (ispec_ok_model {| ic_ops := a ++ [o] |}) as H.
  assert (Eops : pre ++ SOpen c p :: mid ++ [o] = a ++ [o]) by (unfold a; now rewrite <- app_assoc).
  unfold e. rewrite Eops. clear e.
  unfold ispec_ok in H. cbn [ic_ops] in H. apply ispec_run_app in H.
  set (ob := imodel_obs {| ic_ops := a ++ [o] |}) in *.
  assert (Hlen : length ob = Datatypes.S (length a)).
  { unfold ob, imodel_obs. cbn [ic_ops]. rewrite i_run_length, app_length. simpl. lia. }
  rewrite (skipn_last ob (length a) no_obs Hlen) in H.
  set (e := last ob no_obs) in *.
  (* the windows when the step is taken *)
  unfold a in H. rewrite sx_run_app in H. cbn [sx_run] in H.
  set (S1 := fst (sx_run [] [] pre)) in *. set (xs1 := snd (sx_run [] [] pre)) in *.
  assert (Hi1 : length xs1 = i) by (unfold xs1; rewrite sx_run_length; simpl; lia).
  destruct (window_grows mid S1 (xs1 ++ [(c, p, sp_content S1 c)]) i c p (sp_content S1 c)) as (W & HW1 & HW2).
  { rewrite nth_error_app2 by lia. rewrite Hi1, Nat.sub_diag. reflexivity. }
  assert (HS1 : S1 = s_state [] pre) by (unfold S1; apply sx_run_state).
  assert (Hst : forall m1, s_state [] (pre ++ SOpen c p :: m1) = s_state S1 m1).
  { intros m1. unfold s_state. rewrite fold_left_app. cbn [fold_left sp_mut]. now rewrite HS1. }
  assert (Hcore : negb (N.eqb (ob_st e) 2) && yields_ok (c, p, W) (ob_ys e) = true).
  { destruct Ho as [-> | ->]; cbn [ispec_run] in H; rewrite HW1 in H; now rewrite andb_true_r in H. }
  apply andb_true_iff in Hcore. destruct Hcore as [C1 C2]. split.
  - apply negb_true_iff in C1. now apply N.eqb_neq.
  - intros t Ht. destruct (proj1 (yields_ok_reading c p W (ob_ys e)) C2 t Ht) as [M Hw]. split; auto.
    destruct (HW2 t Hw) as [H0|(m1 & m2 & E & H1)].
    + exists [], mid. split; auto. rewrite Hst. now apply sp_content_In.
    + exists m1, m2. split; auto. now rewrite Hst.
Qed.

(* ================================================================== *)
(* Iterating a graph of the Memory store while the store is mutated: the values
   of the loop variable are the list computed up front.  This is the fact behind
   the models [g_iadd]/[g_isub]/[g_bin] (Model.v), which consume
   [g_triples w h all_pat]: `for t in other` over a Memory-backed graph walks a
   copy of the graph's triple set taken at the first next(), with no per-triple
   test, so adds and removals made between the steps cannot change what it yields. *)
Fixpoint drive (ms : list mem) (it : iter) : list triple :=
  match ms with
  | [] => []
  | m :: r => match it_next m it with
              | (NYield t, it') => t :: drive r it'
              | _ => []
              end
  end.

Lemma drive_wild : forall ms it,
  it_started it = true -> it_done it = false -> it_check it = false ->
  length ms = length (it_inner it) -> drive ms it = it_inner it.
Proof.
  induction ms as [|m r IH]; intros it Hs Hd Hc Hl.
  - destruct (it_inner it); [reflexivity|discriminate].
  - destruct (it_inner it) as [|t rest] eqn:Ei; [discriminate|].
    cbn [drive]. unfold it_next. rewrite Hd, Hs, Ei, Hc. cbn [it_scan]. f_equal.
    apply IH; auto; cbn; simpl in Hl; lia.
Qed.

(* the states after the first are arbitrary: whatever the loop body did to the store *)
Theorem memory_iteration_is_snapshot m0 c ms :
  length (m0 :: ms) = length (mem_triples m0 c all_pat) ->
  drive (m0 :: ms) (it_open c all_pat) = mem_triples m0 c all_pat.
Proof.
  intros Hl. cbn [drive]. unfold it_next. cbn [it_open it_done it_started].
  change (it_start m0 (it_open c all_pat)) with
    {| it_cid := c; it_pat := all_pat; it_started := true; it_done := false; it_check := false;
       it_kind := KFlat; it_outer := []; it_inner := mem_triples m0 c all_pat |}.
  cbn [it_cid it_check it_inner it_outer].
  destruct (mem_triples m0 c all_pat) as [|t rest] eqn:E; [discriminate|].
  cbn [it_scan]. f_equal. rewrite drive_wild; auto; simpl in Hl; cbn; lia.
Qed.

(* list(it) always ends with StopIteration: by construction there is no third outcome *)
Lemma drain_exhausts m S it c p W :
  MemInv m -> HoldsRel m S -> ItRel it (c, p, W) -> WOK S (c, p, W) -> snd (fst (it_drain m it)) = 1%N.
Proof. intros Hi HR HRel HW. now destruct (drain_sound m S it c p W Hi HR HRel HW) as (_ & H & _). Qed.
