(* Open iterators: readings of the checker, the F10 witness on the model. *)
From RV Require Import Store.Model Store.IndexProofs Store.SimpleProofs Store.MemProofs Store.GraphProofs Store.Iter.

Lemma yields_ok_reading c p W ys :
  yields_ok (c, p, W) ys = true <-> forall t, In t ys -> matches p t = true /\ In t W.
Proof.
  unfold yields_ok. rewrite forallb_forall. split; intros H t Ht; specialize (H t Ht).
  - apply andb_true_iff in H. destruct H as [H1 H2]. split; auto. now apply tmemb_In.
  - apply andb_true_iff. destruct H as [H1 H2]. split; auto. now apply tmemb_In.
Qed.

(* the window only grows, and contains the graph's content after every mutation *)
Lemma widen_reading S c p W t :
  In t (snd (widen S (c, p, W))) <-> In t W \/ In (t, c) S.
Proof.
  simpl. rewrite tsunion_In, sp_content_In. tauto.
Qed.

(* finding F10 on the faithful model: g1 = {(1,3,1)}, g2 = {(1,3,2)}; an iterator over
   g1 with pattern (1,?,?) is opened and stepped once; (1,3,2) is removed from g2
   (its only graph); the iterator then yields (1,3,2), which never was in g1 *)
Definition f10_witness : icase :=
  {| ic_ops := [SAdd 1 (1, 3, 1); SAdd 2 (1, 3, 2); SOpen 1 (Some 1, None, None); SNext 0;
                SRemove 2 (Some 1, Some 3, Some 2); SDrain 0]%N |}.

Lemma iter_sound_refuted :
  exists c, ikf c = 1%N /\ ispec_ok c (imodel_obs c) = false
            /\ last (imodel_obs c) no_obs = (0, false, [(1, 3, 2)], 1)%N.
Proof. exists f10_witness. vm_compute. auto. Qed.

(* ---------- no step of any schedule raises *)
(* before the first add ever (no default contexts yet) the store is blank *)
Definition Blank (m : mem) : Prop :=
  m_def m = None ->
  m_spo m = [] /\ m_pos m = [] /\ m_osp m = [] /\ forall k, pd_getd ckey_eqb k (m_ct m) = [].

(* ... and an iterator has nothing left to look at *)
Definition Quiet (m : mem) (it : iter) : Prop :=
  m_def m = None -> it_inner it = [] /\ it_outer it = [].

Lemma def_remove1 c m t : m_def (mem_remove1 c m t) = m_def m.
Proof.
  unfold mem_remove1. destruct t as [[s p] o].
  repeat match goal with |- context [if ?b then _ else _] => destruct b end; reflexivity.
Qed.

Lemma def_fold_remove c l : forall m, m_def (fold_left (mem_remove1 c) l m) = m_def m.
Proof. induction l as [|t r IH]; simpl; intros m; auto. now rewrite IH, def_remove1. Qed.

Lemma def_remove m c p : m_def (mem_remove m c p) = m_def m.
Proof.
  unfold mem_remove.
  destruct (pd_get ckey_eqb (Some c) (m_ct (fold_left (mem_remove1 c) (mem_triples m c p) m))) as [[|x r]|];
    cbn [m_def]; apply def_fold_remove.
Qed.

Lemma def_add m c t : m_def (mem_add m c t) <> None.
Proof.
  destruct t as [[s p] o]. unfold mem_add.
  destruct (idx_has s p o (m_spo m)); cbn [m_def mem_add_ctx]; destruct (m_def m); discriminate.
Qed.

Lemma idx_triples_nil p : idx_triples [] [] [] p = [].
Proof. destruct p as [[[s|] [pp|]] [o|]]; reflexivity. Qed.

Lemma blank_triples m c p : Blank m -> m_def m = None -> mem_triples m c p = [].
Proof.
  intros HB Hd. destruct (HB Hd) as (E1 & E2 & E3 & E4).
  unfold mem_triples. rewrite E1, E2, E3, idx_triples_nil, E4.
  destruct p as [[[s|] [pp|]] [o|]]; reflexivity.
Qed.

Lemma Blank_empty : Blank mem_empty.
Proof. intros _. repeat split. intros [k|]; reflexivity. Qed.

Lemma Blank_add m c t : Blank (mem_add m c t).
Proof. intros H. exfalso. exact (def_add m c t H). Qed.

Lemma Blank_remove m c p : Blank m -> Blank (mem_remove m c p).
Proof.
  intros HB Hd. rewrite def_remove in Hd. destruct (HB Hd) as (E1 & E2 & E3 & E4).
  unfold mem_remove. rewrite (blank_triples m c p HB Hd). cbn [fold_left].
  destruct (pd_get ckey_eqb (Some c) (m_ct m)) as [[|x r]|]; cbn [m_spo m_pos m_osp m_ct]; auto.
  repeat split; auto. intros k. rewrite (pd_getd_del _ ckey_eqb_spec). destruct (ckey_eqb k (Some c)); auto.
Qed.

Lemma scan_no_raise m c chk l : m_def m <> None -> it_scan m c chk l <> SRaise.
Proof.
  intros Hd. induction l as [|t r IH]; simpl; [discriminate|].
  destruct chk; [|discriminate]. unfold has_ctx_live.
  destruct (pd_get triple_eqb t (m_tc m)) as [d|].
  - destruct (memb ckey_eqb (Some c) d); [discriminate|exact IH].
  - destruct (m_def m) as [d|]; [|congruence]. destruct (memb ckey_eqb (Some c) d); [discriminate|exact IH].
Qed.

Lemma walk_no_raise m c k chk outer : m_def m <> None -> it_walk m c k chk outer <> WRaise.
Proof.
  intros Hd. induction outer as [|x r IH]; simpl; [discriminate|].
  pose proof (scan_no_raise m c chk (it_expand m k x) Hd).
  destruct (it_scan m c chk (it_expand m k x)); [discriminate|exact IH|congruence].
Qed.

Lemma start_blank m it : Blank m -> m_def m = None ->
  it_inner (it_start m it) = [] /\ it_outer (it_start m it) = [].
Proof.
  intros HB Hd. destruct (HB Hd) as (E1 & E2 & E3 & E4). unfold it_start, keys2. rewrite E1, E2, E3, E4.
  destruct (it_pat it) as [[[s|] [pp|]] [o|]]; split; reflexivity.
Qed.

Lemma next_no_raise m it :
  Blank m -> Quiet m it -> fst (it_next m it) <> NRaise /\ Quiet m (snd (it_next m it)).
Proof.
  intros HB HQ. unfold it_next. destruct (it_done it) eqn:Edone; [split; [discriminate|exact HQ]|].
  destruct (m_def m) as [d|] eqn:Ed.
  - assert (Hd : m_def m <> None) by congruence.
    set (it1 := if it_started it then it else it_start m it).
    pose proof (scan_no_raise m (it_cid it1) (it_check it1) (it_inner it1) Hd) as Hs.
    pose proof (walk_no_raise m (it_cid it1) (it_kind it1) (it_check it1) (it_outer it1) Hd) as Hw.
    destruct (it_scan m (it_cid it1) (it_check it1) (it_inner it1)); [| |congruence].
    + split; [discriminate|intros H; congruence].
    + destruct (it_walk m (it_cid it1) (it_kind it1) (it_check it1) (it_outer it1)); [| |congruence];
        (split; [discriminate|intros H; congruence]).
  - assert (Hq : it_inner (if it_started it then it else it_start m it) = []
                 /\ it_outer (if it_started it then it else it_start m it) = []).
    { destruct (it_started it); [now apply HQ|now apply start_blank]. }
    destruct Hq as [-> ->]. cbn [it_scan it_walk fst snd]. split; [discriminate|]. intros _. split; reflexivity.
Qed.

Lemma drain_no_raise fuel : forall m it acc,
  Blank m -> Quiet m it ->
  snd (fst (it_drain fuel m it acc)) <> 2%N /\ Quiet m (snd (it_drain fuel m it acc)).
Proof.
  induction fuel as [|f IH]; intros m it acc HB HQ; cbn [it_drain].
  - split; [discriminate|exact HQ].
  - destruct (next_no_raise m it HB HQ) as [H1 H2].
    destruct (it_next m it) as [[t| |] it']; cbn [fst snd] in *.
    + now apply IH.
    + split; [discriminate|exact H2].
    + congruence.
Qed.

Lemma Forall_set_nth {A} (P : A -> Prop) n x l : Forall P l -> P x -> Forall P (set_nth n x l).
Proof.
  revert n. induction l as [|y r IH]; intros n Hl Hx; [destruct n; constructor|].
  inversion Hl; subst. destruct n; simpl; constructor; auto.
Qed.

Lemma Quiet_mono m m' it : (m_def m' = None -> m_def m = None) -> Quiet m it -> Quiet m' it.
Proof. intros H HQ Hd. apply HQ, H, Hd. Qed.

(* On the default store, whatever mutations are interleaved with the steps of
   whatever open iterators: no next() raises. *)
Theorem iter_no_raise : forall ops m its,
  Blank m -> Forall (Quiet m) its -> Forall (fun e => ob_st e <> 2%N) (i_run m its ops).
Proof.
  induction ops as [|o r IH]; intros m its HB HQ; cbn [i_run]; [constructor|].
  assert (Hno : ob_st no_obs <> 2%N) by discriminate.
  destruct o as [c t|c p|c t|c p|i|i]; cbn [i_step].
  - constructor; auto. apply IH; [apply Blank_add|].
    eapply Forall_impl; [|exact HQ]. intros it. apply Quiet_mono. intros H. exfalso. exact (def_add m c t H).
  - constructor; auto. apply IH; [now apply Blank_remove|].
    eapply Forall_impl; [|exact HQ]. intros it. apply Quiet_mono. now rewrite def_remove.
  - constructor; auto. apply IH; [apply Blank_add|].
    eapply Forall_impl; [|exact HQ]. intros it. apply Quiet_mono. intros H. exfalso.
    exact (def_add _ c t H).
  - constructor; auto. apply IH; auto. apply Forall_app. split; auto. constructor; [|constructor].
    intros _. split; reflexivity.
  - destruct (nth_error its i) as [it|] eqn:E; [|constructor; auto].
    assert (HQi : Quiet m it) by (rewrite Forall_forall in HQ; apply HQ; eapply nth_error_In; eauto).
    destruct (next_no_raise m it HB HQi) as [H1 H2].
    destruct (it_next m it) as [[t| |] it']; cbn [fst snd] in *; try congruence;
      (constructor; [discriminate|apply IH; auto; now apply Forall_set_nth]).
  - destruct (nth_error its i) as [it|] eqn:E; [|constructor; auto].
    assert (HQi : Quiet m it) by (rewrite Forall_forall in HQ; apply HQ; eapply nth_error_In; eauto).
    destruct (drain_no_raise (drain_fuel m (if it_started it then it else it_start m it)) m it [] HB HQi) as [H1 H2].
    destruct (it_drain _ m it []) as [[ys st] it']. cbn [fst snd] in *.
    constructor; [exact H1|apply IH; auto; now apply Forall_set_nth].
Qed.

Corollary iter_no_raise_model c : Forall (fun e => ob_st e <> 2%N) (imodel_obs c).
Proof. apply iter_no_raise; [apply Blank_empty|constructor]. Qed.
