(* Graph.transitive_objects(subject, predicate) and transitive_subjects(predicate, object)
   on the graphs of a history: model, observation, checker (definitions), then the
   theorems that the yields are exactly the reflexive-transitive reachability set. *)
From Coq Require Import Arith Lia Permutation.
From RV Require Import Store.Model Store.IndexProofs Store.SimpleProofs Store.MemProofs Store.GraphProofs
                       Store.Reads Store.ReadsProofs.
From RV Require Export Store.Transitive.

(* for object in self.objects(x, predicate) / for subject in self.subjects(predicate, x) *)
Definition g_succ_o (w : world) (g : handle) (pp : option term) (x : term) : list term :=
  g_objects w g (Some x) pp false.
Definition g_succ_s (w : world) (g : handle) (pp : option term) (x : term) : list term :=
  g_subjects w g pp (Some x) false.

(* enough recursion depth for every graph: more than the number of its nodes *)
Definition g_depth (w : world) (g : handle) : nat := 3 + 2 * length (g_triples w g all_pat).

Definition g_transitive_objects (w : world) (g : handle) (x : term) (pp : option term) : list term :=
  dfs (g_succ_o w g pp) (g_depth w g) x [].
Definition g_transitive_subjects (w : world) (g : handle) (pp : option term) (x : term) : list term :=
  dfs (g_succ_s w g pp) (g_depth w g) x [].

(* transitiveClosure(lambda n, g: g.objects(n, p), x): what it yields *)
Definition g_tclosure (w : world) (g : handle) (x : term) (pp : option term) : list term :=
  fst (tc (g_succ_o w g pp) (g_depth w g) x []).

(* the same on the mathematical set E *)
Definition e_succ_o (E : list triple) (pp : option term) (x : term) : list term := map t_o (sel E (Some x, pp, None)).
Definition e_succ_s (E : list triple) (pp : option term) (x : term) : list term := map t_s (sel E (None, pp, Some x)).
Definition e_depth (E : list triple) : nat := 3 + 2 * length E.

(* ---------- case, observation, checker *)
Record trcase := { trc : case; tr_qs : list (term * option term) }.

(* per graph, per query (x, p): transitive_objects(x, p), transitive_subjects(p, x),
   transitiveClosure(objects-of-p, x) *)
Definition trobs := list (list (list term * list term * list term)).

Definition tr_final (c : trcase) : world := w_run (w_init (trc c)) 2 (c_ops (trc c)).

Definition trmodel_obs (c : trcase) : trobs :=
  map (fun g => map (fun q => (g_transitive_objects (tr_final c) g (fst q) (snd q),
                               g_transitive_subjects (tr_final c) g (snd q) (fst q),
                               g_tclosure (tr_final c) g (fst q) (snd q))) (tr_qs c))
      (c_handles (trc c)).

Definition nl_eqb (a b : list term) : bool := ms_eqb N.eqb a b.
Definition trobs_eqb (a b : trobs) : bool :=
  list_eqb (list_eqb (fun x y => nl_eqb (fst (fst x)) (fst (fst y)) && nl_eqb (snd (fst x)) (snd (fst y))
                                 && nl_eqb (snd x) (snd y))) a b.

Definition trspec_ok (c : trcase) (ob : trobs) : bool :=
  let S := s_run (trc c) 2 [] (c_ops (trc c)) in
  all2 (fun g per =>
          let E := sp_content S (scid (trc c) g) in
          all2 (fun q o => enum_ofb N.eqb (fst (fst o)) (dfs (e_succ_o E (snd q)) (e_depth E) (fst q) [])
                           && enum_ofb N.eqb (snd (fst o)) (dfs (e_succ_s E (snd q)) (e_depth E) (fst q) [])
                           (* every successor of every reachable node, with multiplicity *)
                           && ms_eqb N.eqb (snd o)
                                (flat_map (e_succ_o E (snd q)) (dfs (e_succ_o E (snd q)) (e_depth E) (fst q) [])))
               (tr_qs c) per)
       (c_handles (trc c)) ob.

Definition trwfb (c : trcase) : bool := wfb (trc c).

(* ---------- theorems *)
Lemma reach_ext (s1 s2 : N -> list N) :
  (forall x y, In y (s1 x) <-> In y (s2 x)) -> forall a b, reach s1 a b -> reach s2 a b.
Proof. intros H a b R. induction R as [x|x y z Hy R IH]; [constructor|]. econstructor; [apply H; eauto|auto]. Qed.

(* the nodes of a set of triples, plus the start *)
Definition e_nodes (E : list triple) (x : term) : list term := x :: map t_o E ++ map t_s E.

Lemma e_nodes_len E x : length (e_nodes E x) < e_depth E.
Proof. unfold e_nodes, e_depth. cbn [length]. rewrite app_length, !map_length. lia. Qed.

Lemma e_succ_o_nodes E pp x0 u y : In y (e_succ_o E pp u) -> In y (e_nodes E x0).
Proof.
  unfold e_succ_o, sel. intros H. apply in_map_iff in H. destruct H as (t & <- & Ht). apply filter_In in Ht.
  right. apply in_app_iff. left. apply in_map. tauto.
Qed.
Lemma e_succ_s_nodes E pp x0 u y : In y (e_succ_s E pp u) -> In y (e_nodes E x0).
Proof.
  unfold e_succ_s, sel. intros H. apply in_map_iff in H. destruct H as (t & <- & Ht). apply filter_In in Ht.
  right. apply in_app_iff. right. apply in_map. tauto.
Qed.

(* on the mathematical set: exactly the reachable nodes, each once *)
Theorem e_transitive_objects_exact E pp x :
  NoDup (dfs (e_succ_o E pp) (e_depth E) x [])
  /\ forall z, In z (dfs (e_succ_o E pp) (e_depth E) x []) <-> reach (e_succ_o E pp) x z.
Proof.
  apply (dfs_exact (e_succ_o E pp) (e_nodes E x)).
  - intros u _ y Hy. eapply e_succ_o_nodes; eauto.
  - simpl; auto.
  - apply e_nodes_len.
Qed.
Theorem e_transitive_subjects_exact E pp x :
  NoDup (dfs (e_succ_s E pp) (e_depth E) x [])
  /\ forall z, In z (dfs (e_succ_s E pp) (e_depth E) x []) <-> reach (e_succ_s E pp) x z.
Proof.
  apply (dfs_exact (e_succ_s E pp) (e_nodes E x)).
  - intros u _ y Hy. eapply e_succ_s_nodes; eauto.
  - simpl; auto.
  - apply e_nodes_len.
Qed.

Section OnGraph.
  Variables (c : case) (w : world) (S : qset) (g : handle).
  Hypothesis HR : Rel c w S.
  Let E := sp_content S (scid c g).

  Lemma g_succ_o_spec pp x y : In y (g_succ_o w g pp x) <-> In y (e_succ_o E pp x).
  Proof.
    unfold g_succ_o, g_objects, uniq, e_succ_o.
    pose proof (Permutation_map t_o (g_triples_perm c w S g (Some x, pp, None) HR)) as P.
    split; intros H; [eapply Permutation_in; eauto|eapply Permutation_in; [apply Permutation_sym|]; eauto].
  Qed.
  Lemma g_succ_s_spec pp x y : In y (g_succ_s w g pp x) <-> In y (e_succ_s E pp x).
  Proof.
    unfold g_succ_s, g_subjects, uniq, e_succ_s.
    pose proof (Permutation_map t_s (g_triples_perm c w S g (None, pp, Some x) HR)) as P.
    split; intros H; [eapply Permutation_in; eauto|eapply Permutation_in; [apply Permutation_sym|]; eauto].
  Qed.

  Lemma g_depth_eq : g_depth w g = e_depth E.
  Proof.
    unfold g_depth, e_depth. f_equal. f_equal. apply enum_len.
    - destruct (g_triples_enum g all_pat HR) as [Hn He]. split; auto. intros t.
      rewrite (He t), filter_In, matches_all. tauto.
    - apply sp_content_NoDup, (Rel_NoDup HR).
  Qed.

  (* transitive_objects(x, p) on any graph of any history: terminates (the depth used
     suffices on every graph, cycles included) and yields exactly the nodes reachable
     from x along p-edges of the graph's SET of triples (x included), each once *)
  Theorem g_transitive_objects_exact pp x :
    NoDup (g_transitive_objects w g x pp)
    /\ forall z, In z (g_transitive_objects w g x pp) <-> reach (e_succ_o E pp) x z.
  Proof.
    unfold g_transitive_objects. rewrite g_depth_eq.
    destruct (dfs_exact (g_succ_o w g pp) (e_nodes E x)) with (x := x) (fuel := e_depth E) as [Hn Hin].
    - intros u _ y Hy. apply g_succ_o_spec in Hy. eapply e_succ_o_nodes; eauto.
    - simpl; auto.
    - apply e_nodes_len.
    - split; auto. intros z. rewrite Hin. split; apply reach_ext; intros a b; [|symmetry]; apply g_succ_o_spec.
  Qed.

  Theorem g_transitive_subjects_exact pp x :
    NoDup (g_transitive_subjects w g pp x)
    /\ forall z, In z (g_transitive_subjects w g pp x) <-> reach (e_succ_s E pp) x z.
  Proof.
    unfold g_transitive_subjects. rewrite g_depth_eq.
    destruct (dfs_exact (g_succ_s w g pp) (e_nodes E x)) with (x := x) (fuel := e_depth E) as [Hn Hin].
    - intros u _ y Hy. apply g_succ_s_spec in Hy. eapply e_succ_s_nodes; eauto.
    - simpl; auto.
    - apply e_nodes_len.
    - split; auto. intros z. rewrite Hin. split; apply reach_ext; intros a b; [|symmetry]; apply g_succ_s_spec.
  Qed.
  Lemma g_succ_o_perm pp x : Permutation (g_succ_o w g pp x) (e_succ_o E pp x).
  Proof.
    unfold g_succ_o, g_objects, uniq, e_succ_o.
    exact (Permutation_map t_o (g_triples_perm c w S g (Some x, pp, None) HR)).
  Qed.

  (* transitiveClosure over the objects of p: as a multiset, the successors of every node
     reachable from x (so: every node reachable in at least one step, once per incoming
     edge from a reachable node) *)
  Theorem g_tclosure_exact pp x :
    Permutation (g_tclosure w g x pp)
                (flat_map (e_succ_o E pp) (dfs (e_succ_o E pp) (e_depth E) x []))
    /\ forall z, In z (g_tclosure w g x pp) <-> exists y, reach (e_succ_o E pp) x y /\ In z (e_succ_o E pp y).
  Proof.
    unfold g_tclosure. rewrite g_depth_eq.
    assert (HU : forall u, In u (e_nodes E x) -> forall y, In y (g_succ_o w g pp u) -> In y (e_nodes E x)).
    { intros u _ y Hy. apply g_succ_o_spec in Hy. eapply e_succ_o_nodes; eauto. }
    destruct (tc_exact (g_succ_o w g pp) (e_nodes E x) x (e_depth E) HU (or_introl eq_refl) (e_nodes_len E x)) as [P Hin].
    destruct (g_transitive_objects_exact pp x) as [Hn1 Hi1]. unfold g_transitive_objects in Hn1, Hi1. rewrite g_depth_eq in Hn1, Hi1.
    destruct (e_transitive_objects_exact E pp x) as [Hn2 Hi2].
    split.
    - eapply perm_trans; [exact P|]. eapply perm_trans; [apply perm_flat_map; intros y; apply g_succ_o_perm|].
      apply Permutation_flat_map. apply NoDup_Permutation; auto. intros z. now rewrite Hi1, Hi2.
    - intros z. rewrite Hin. split; intros (y & Hy & Hz); exists y.
      + split; [eapply reach_ext; [|exact Hy]; intros a b; apply g_succ_o_spec|now apply g_succ_o_spec].
      + split; [eapply reach_ext; [|exact Hy]; intros a b; symmetry; apply g_succ_o_spec|now apply g_succ_o_spec].
  Qed.
End OnGraph.

(* THE TIE for the transitive suite *)
Theorem trspec_ok_model c : trwfb c = true -> trspec_ok c (trmodel_obs c) = true.
Proof.
  intros Hwf. unfold trspec_ok, trmodel_obs, tr_final.
  assert (HR : Rel (trc c) (w_run (w_init (trc c)) 2 (c_ops (trc c))) (s_run (trc c) 2 [] (c_ops (trc c)))).
  { unfold trwfb in Hwf. apply history_refines.
    - now apply wfb_tok_ok.
    - unfold case_handles. apply incl_appr, incl_refl.
    - apply Rel_init.
    - lia.
    - apply Fresh_init.
    - unfold wfb in Hwf. apply andb_true_iff in Hwf. tauto. }
  rewrite all2_map. apply forallb_forall. intros g _.
  rewrite all2_map. apply forallb_forall. intros [x pp] _. cbn [fst snd].
  apply andb_true_iff. split; [apply andb_true_iff; split; apply (enum_ofb_spec N.eqb N.eqb_spec)|].
  - destruct (g_transitive_objects_exact (trc c) _ _ g HR pp x) as [Hn Hin].
    destruct (e_transitive_objects_exact (sp_content (s_run (trc c) 2 [] (c_ops (trc c))) (scid (trc c) g)) pp x) as [_ Hin'].
    split; auto. intros z. now rewrite Hin, Hin'.
  - destruct (g_transitive_subjects_exact (trc c) _ _ g HR pp x) as [Hn Hin].
    destruct (e_transitive_subjects_exact (sp_content (s_run (trc c) 2 [] (c_ops (trc c))) (scid (trc c) g)) pp x) as [_ Hin'].
    split; auto. intros z. now rewrite Hin, Hin'.
  - apply ms_eqb_perm. apply (g_tclosure_exact (trc c) _ _ g HR pp x).
Qed.
