(* Memory: the context layer (per-triple context dict with the default-contexts
   compression, per-context triple sets) refines the quad set. *)
From Coq Require Import Arith.
From RV Require Import Store.Model Store.IndexProofs Store.SimpleProofs.

Local Notation Ts := triple_eqb_spec.

Lemma ckey_eqb_spec : forall a b, reflect (a = b) (ckey_eqb a b).
Proof. apply opt_eqb_spec, N.eqb_spec. Qed.
Local Notation Ks := ckey_eqb_spec.

Lemma kmemb_In k d : memb ckey_eqb k d = true <-> In k d.
Proof. apply memb_In, Ks. Qed.
Lemma ksadd_In x y l : In y (sadd ckey_eqb x l) <-> y = x \/ In y l.
Proof. apply sadd_In, Ks. Qed.
Lemma ksadd_NoDup x l : NoDup l -> NoDup (sadd ckey_eqb x l).
Proof. apply sadd_NoDup, Ks. Qed.
Lemma ksrem_In x y l : In y (srem ckey_eqb x l) <-> In y l /\ y <> x.
Proof. apply srem_In, Ks. Qed.
Lemma ctxd_eqb_spec a b : ctxd_eqb a b = true <-> forall k, In k a <-> In k b.
Proof. apply seteqb_spec, Ks. Qed.
Lemma tsadd_In x y l : In y (sadd triple_eqb x l) <-> y = x \/ In y l.
Proof. apply sadd_In, Ts. Qed.
Lemma tsrem_In x y l : In y (srem triple_eqb x l) <-> In y l /\ y <> x.
Proof. apply srem_In, Ts. Qed.

Lemma teqb_neq a b : triple_eqb a b = false <-> a <> b.
Proof. destruct (Ts a b); split; congruence. Qed.

Definition ctxs_ok (d : ctxd) : Prop := NoDup d /\ In None d /\ exists c, In (Some c) d.

Record MemInv (m : mem) : Prop := {
  mi_idx : coherent (m_spo m) (m_pos m) (m_osp m);
  mi_tc_leaf : forall t d, pd_get triple_eqb t (m_tc m) = Some d -> leaf (m_spo m) t = true;
  mi_def : forall t, leaf (m_spo m) t = true -> m_def m <> None;
  mi_def_nd : forall d, m_def m = Some d -> NoDup d;
  mi_ctxs : forall t, leaf (m_spo m) t = true -> ctxs_ok (mem_ctxs m t);
  mi_ct_sets : forall k l, pd_get ckey_eqb k (m_ct m) = Some l -> NoDup l;
  mi_ct : forall k t, In t (pd_getd ckey_eqb k (m_ct m)) <-> leaf (m_spo m) t = true /\ In k (mem_ctxs m t)
}.

Arguments mi_idx {m}. Arguments mi_tc_leaf {m}. Arguments mi_def {m}. Arguments mi_def_nd {m}. Arguments mi_ctxs {m}.
Arguments mi_ct_sets {m}. Arguments mi_ct {m}.

Lemma mem_leaf_eq m t : mem_leaf m t = leaf (m_spo m) t.
Proof. destruct t as [[s p] o]. reflexivity. Qed.

Lemma MemInv_empty : MemInv mem_empty.
Proof.
  constructor; simpl.
  - apply coherent_nil.
  - discriminate.
  - intros [[s p] o]. discriminate.
  - discriminate.
  - intros [[s p] o]. discriminate.
  - intros [k|] l; simpl; [discriminate|]. intros [= <-]. constructor.
  - intros k [[s p] o]. split; [|intros [H _]; discriminate].
    unfold pd_getd. simpl. destruct (ckey_eqb k None); simpl; tauto.
Qed.

(* the repaired __triple_has_context agrees with tripleContexts.get(t, default) on stored triples *)
Lemma has_ctx_leaf m t k :
  leaf (m_spo m) t = true -> mem_has_ctx m t k = memb ckey_eqb k (mem_ctxs m t).
Proof.
  intros Hl. unfold mem_has_ctx, mem_ctxs. rewrite mem_leaf_eq, Hl.
  destruct (pd_get triple_eqb t (m_tc m)); reflexivity.
Qed.

Lemma holds_iff m c t : mem_holds m c t = true <-> leaf (m_spo m) t = true /\ In (Some c) (mem_ctxs m t).
Proof.
  unfold mem_holds. rewrite andb_true_iff, mem_leaf_eq. split; intros [H1 H2]; split; auto.
  - rewrite has_ctx_leaf in H2 by auto. now apply kmemb_In.
  - rewrite has_ctx_leaf by auto. now apply kmemb_In.
Qed.

(* ---------- the per-triple context entry after a store/compress step *)
Lemma ctxs_touch m m' t0 d :
  (forall t, pd_get triple_eqb t (m_tc m') =
             if triple_eqb t t0 then (if def_eqb d (m_def m') then None else Some d)
             else pd_get triple_eqb t (m_tc m)) ->
  (forall dd, m_def m' = Some dd -> NoDup dd) -> NoDup d ->
  (NoDup (mem_ctxs m' t0) /\ forall k, In k (mem_ctxs m' t0) <-> In k d)
  /\ (m_def m' = m_def m -> forall t, t <> t0 -> mem_ctxs m' t = mem_ctxs m t).
Proof.
  intros Htc Hdd Hd. split.
  - unfold mem_ctxs. rewrite Htc, teqb_refl. unfold def_eqb.
    destruct (m_def m') as [dd|] eqn:Ed.
    + destruct (ctxd_eqb d dd) eqn:E.
      * pose proof (proj1 (ctxd_eqb_spec _ _) E) as E'. split; [now apply Hdd|]. intros k. symmetry. apply E'.
      * split; auto. tauto.
    + split; auto. tauto.
  - intros Hdef t Hne. unfold mem_ctxs. rewrite Htc, Hdef.
    apply teqb_neq in Hne. now rewrite Hne.
Qed.

(* ---------- the per-context triple sets *)
Lemma ct_add_In k' t k t0 ct :
  In t (pd_getd ckey_eqb k' (ct_add k t0 ct)) <-> (k' = k /\ t = t0) \/ In t (pd_getd ckey_eqb k' ct).
Proof.
  unfold ct_add. rewrite (pd_getd_set _ Ks). destruct (Ks k' k) as [->|Hne].
  - rewrite tsadd_In. tauto.
  - split; [auto|intros [[H _]|H]; [congruence|auto]].
Qed.

Lemma ct_add_sets k t0 ct :
  (forall k l, pd_get ckey_eqb k ct = Some l -> NoDup l) ->
  forall k' l, pd_get ckey_eqb k' (ct_add k t0 ct) = Some l -> NoDup l.
Proof.
  intros H k' l. unfold ct_add. rewrite (pd_get_set Ks). destruct (ckey_eqb k' k); [|apply H].
  intros [= <-]. apply sadd_NoDup; [exact Ts|]. unfold pd_getd.
  destruct (pd_get ckey_eqb k ct) eqn:E; [eauto|constructor].
Qed.

Lemma ct_rem_In k' t k t0 ct :
  In t (pd_getd ckey_eqb k' (ct_rem k t0 ct)) <-> In t (pd_getd ckey_eqb k' ct) /\ ~ (k' = k /\ t = t0).
Proof.
  unfold ct_rem. destruct (pd_get ckey_eqb k ct) as [l|] eqn:E.
  - rewrite (pd_getd_set _ Ks). destruct (Ks k' k) as [->|Hne].
    + rewrite tsrem_In. unfold pd_getd. rewrite E. tauto.
    + tauto.
  - split; [|tauto]. intros H. split; auto. intros [-> ->]. unfold pd_getd in H. now rewrite E in H.
Qed.

Lemma ct_rem_sets k t0 ct :
  (forall k l, pd_get ckey_eqb k ct = Some l -> NoDup l) ->
  forall k' l, pd_get ckey_eqb k' (ct_rem k t0 ct) = Some l -> NoDup l.
Proof.
  intros H k' l. unfold ct_rem. destruct (pd_get ckey_eqb k ct) as [l0|] eqn:E; [|apply H].
  rewrite (pd_get_set Ks). destruct (ckey_eqb k' k); [|apply H].
  intros [= <-]. apply srem_NoDup. eauto.
Qed.

(* ---------- __add_triple_context *)
Lemma add_ctx_facts m t0 c :
  MemInv m ->
  let ex := leaf (m_spo m) t0 in
  let m1 := mem_add_ctx m t0 ex c in
  m_def m1 <> None /\ (forall d, m_def m1 = Some d -> NoDup d) /\
  NoDup (mem_ctxs m1 t0) /\
  (forall k, In k (mem_ctxs m1 t0) <-> k = Some c \/ k = None \/ (ex = true /\ In k (mem_ctxs m t0))) /\
  (forall t, t <> t0 -> leaf (m_spo m) t = true -> mem_ctxs m1 t = mem_ctxs m t) /\
  (forall k l, pd_get ckey_eqb k (m_ct m1) = Some l -> NoDup l) /\
  (forall k t, In t (pd_getd ckey_eqb k (m_ct m1)) <->
               (t = t0 /\ (k = Some c \/ k = None)) \/ In t (pd_getd ckey_eqb k (m_ct m))) /\
  (forall t d, pd_get triple_eqb t (m_tc m1) = Some d -> t = t0 \/ pd_get triple_eqb t (m_tc m) = Some d).
Proof.
  intros Hi ex m1.
  set (tcx := if ex then sadd ckey_eqb None (sadd ckey_eqb (Some c) (mem_ctxs m t0)) else [Some c; None]).
  set (def' := match m_def m with None => Some tcx | d => d end).
  assert (Hdef1 : m_def m1 = def') by reflexivity.
  assert (Htcx_nd : NoDup tcx).
  { unfold tcx. destruct ex eqn:Ex.
    - apply ksadd_NoDup, ksadd_NoDup. now destruct (mi_ctxs Hi t0 Ex).
    - repeat constructor; simpl; intuition discriminate. }
  assert (Htcx_in : forall k, In k tcx <-> k = Some c \/ k = None \/ (ex = true /\ In k (mem_ctxs m t0))).
  { intros k. unfold tcx. destruct ex.
    - rewrite !ksadd_In. intuition.
    - simpl. intuition congruence. }
  assert (Hdd : forall d, m_def m1 = Some d -> NoDup d).
  { intros d. rewrite Hdef1. unfold def'. destruct (m_def m) as [d0|] eqn:E.
    - intros [= <-]. now apply (mi_def_nd Hi).
    - intros [= <-]. exact Htcx_nd. }
  assert (Htc : forall t, pd_get triple_eqb t (m_tc m1) =
             if triple_eqb t t0 then (if def_eqb tcx (m_def m1) then None else Some tcx)
             else pd_get triple_eqb t (m_tc m)).
  { intros t. rewrite Hdef1. unfold m1, mem_add_ctx. cbn [m_tc]. fold tcx. fold def'.
    destruct (def_eqb tcx def').
    - rewrite (pd_get_del Ts), (pd_get_set Ts). destruct (triple_eqb t t0); auto.
    - rewrite (pd_get_set Ts). destruct (triple_eqb t t0); auto. }
  destruct (ctxs_touch m m1 t0 tcx Htc Hdd Htcx_nd) as [[Hnd Hin] Hoth].
  split; [|split; [|split; [|split; [|split; [|split; [|split]]]]]]; auto.
  - rewrite Hdef1. unfold def'. destruct (m_def m); discriminate.
  - intros k. rewrite Hin. apply Htcx_in.
  - intros t Hne Hl. apply Hoth; auto. rewrite Hdef1. unfold def'.
    pose proof (mi_def Hi t Hl). destruct (m_def m); congruence.
  - unfold m1, mem_add_ctx. cbn [m_ct]. apply ct_add_sets, ct_add_sets, (mi_ct_sets Hi).
  - intros k t. unfold m1, mem_add_ctx. cbn [m_ct]. rewrite !ct_add_In. intuition.
  - intros t d. rewrite Htc. destruct (Ts t t0) as [->|]; auto.
Qed.

Lemma bool_iff (a b : bool) : (a = true <-> b = true) -> a = b.
Proof. destruct a, b; intuition. Qed.

(* Memory.add: the graph gains the triple, every other graph is unchanged *)
Theorem mem_add_ok m c t0 :
  MemInv m ->
  MemInv (mem_add m c t0) /\
  forall c' t, mem_holds (mem_add m c t0) c' t = (N.eqb c' c && triple_eqb t t0) || mem_holds m c' t.
Proof.
  intros Hi. destruct (add_ctx_facts m t0 c Hi) as (F1 & F2 & F3 & F4 & F5 & F6 & F7 & F8).
  destruct t0 as [[s p] o]. set (t0 := (s, p, o)) in *.
  set (m' := mem_add m c t0).
  assert (Hleaf : forall t, leaf (m_spo m') t = triple_eqb t t0 || leaf (m_spo m) t).
  { intros t. unfold m', mem_add, t0. cbn [leaf] in *.
    destruct (idx_has s p o (m_spo m)) eqn:Ex; cbn [m_spo mem_add_ctx].
    - destruct (Ts t (s, p, o)) as [->|]; simpl; auto.
    - apply leaf_add. }
  assert (Hctxs : forall t, mem_ctxs m' t = mem_ctxs (mem_add_ctx m t0 (leaf (m_spo m) t0) c) t).
  { intros t. unfold m', mem_add, t0. cbn [leaf]. destruct (idx_has s p o (m_spo m)); reflexivity. }
  assert (Hct : m_ct m' = m_ct (mem_add_ctx m t0 (leaf (m_spo m) t0) c)).
  { unfold m', mem_add, t0. cbn [leaf]. destruct (idx_has s p o (m_spo m)); reflexivity. }
  assert (Htc' : m_tc m' = m_tc (mem_add_ctx m t0 (leaf (m_spo m) t0) c)).
  { unfold m', mem_add, t0. cbn [leaf]. destruct (idx_has s p o (m_spo m)); reflexivity. }
  assert (Hdef : m_def m' = m_def (mem_add_ctx m t0 (leaf (m_spo m) t0) c)).
  { unfold m', mem_add, t0. cbn [leaf]. destruct (idx_has s p o (m_spo m)); reflexivity. }
  assert (Hc0 : forall k, In k (mem_ctxs m' t0) <->
                 k = Some c \/ k = None \/ (leaf (m_spo m) t0 = true /\ In k (mem_ctxs m t0))).
  { intros k. rewrite Hctxs. apply F4. }
  assert (Hc1 : forall t, t <> t0 -> leaf (m_spo m) t = true -> mem_ctxs m' t = mem_ctxs m t).
  { intros t Hne Hl. rewrite Hctxs. now apply F5. }
  split.
  - constructor.
    + unfold m', mem_add, t0. destruct (idx_has s p o (m_spo m)); cbn [m_spo m_pos m_osp mem_add_ctx].
      * apply (mi_idx Hi).
      * apply coherent_add, (mi_idx Hi).
    + intros t d. rewrite Htc', Hleaf. intros H. destruct (F8 t d H) as [->|H'].
      * now rewrite teqb_refl.
      * rewrite (mi_tc_leaf Hi t d H'). apply orb_true_r.
    + intros t _. now rewrite Hdef.
    + intros d. rewrite Hdef. apply F2.
    + intros t. rewrite Hleaf. destruct (Ts t t0) as [->|Hne]; simpl.
      * intros _. split; [rewrite Hctxs; exact F3|]. split; [apply Hc0; auto|]. exists c. apply Hc0. auto.
      * intros Hl. rewrite Hc1; auto. now apply (mi_ctxs Hi).
    + rewrite Hct. exact F6.
    + intros k t. rewrite Hct, F7, Hleaf, (mi_ct Hi). destruct (Ts t t0) as [->|Hne]; simpl.
      * rewrite Hc0. intuition.
      * split.
        -- intros [[H _]|[Hl Hk]]; [congruence|]. split; auto. now rewrite Hc1.
        -- intros [Hl Hk]. right. split; auto. now rewrite <- Hc1.
  - intros c' t. apply bool_iff.
    rewrite orb_true_iff, andb_true_iff, !holds_iff, Hleaf, N.eqb_eq, teqb_eq.
    destruct (Ts t t0) as [->|Hne]; simpl.
    + rewrite Hc0. split.
      * intros [_ [[= ->]|[H|[Hl Hk]]]]; [auto|discriminate|auto].
      * intros [[-> _]|[Hl Hk]]; split; auto.
    + split.
      * intros [Hl Hk]. right. split; auto. now rewrite <- Hc1.
      * intros [[_ H]|[Hl Hk]]; [congruence|]. split; auto. now rewrite Hc1.
Qed.

(* ---------- __remove_triple_context *)
Lemma rem_ctx_facts m t0 k :
  (forall d, m_def m = Some d -> NoDup d) -> NoDup (mem_ctxs m t0) ->
  let m1 := mem_rem_ctx m t0 k in
  m_def m1 = m_def m /\ m_spo m1 = m_spo m /\ m_pos m1 = m_pos m /\ m_osp m1 = m_osp m /\
  NoDup (mem_ctxs m1 t0) /\
  (forall k', In k' (mem_ctxs m1 t0) <-> In k' (mem_ctxs m t0) /\ k' <> k) /\
  (forall t, t <> t0 -> mem_ctxs m1 t = mem_ctxs m t) /\
  ((forall k l, pd_get ckey_eqb k (m_ct m) = Some l -> NoDup l) ->
   forall k l, pd_get ckey_eqb k (m_ct m1) = Some l -> NoDup l) /\
  (forall k' t, In t (pd_getd ckey_eqb k' (m_ct m1)) <->
                In t (pd_getd ckey_eqb k' (m_ct m)) /\ ~ (k' = k /\ t = t0)) /\
  (forall t d, pd_get triple_eqb t (m_tc m1) = Some d -> t = t0 \/ pd_get triple_eqb t (m_tc m) = Some d).
Proof.
  intros Hdd Hnd m1.
  set (ctxs := srem ckey_eqb k (mem_ctxs m t0)).
  assert (Hc_nd : NoDup ctxs) by (apply srem_NoDup, Hnd).
  assert (Hdef : m_def m1 = m_def m) by reflexivity.
  assert (Htc : forall t, pd_get triple_eqb t (m_tc m1) =
             if triple_eqb t t0 then (if def_eqb ctxs (m_def m1) then None else Some ctxs)
             else pd_get triple_eqb t (m_tc m)).
  { intros t. rewrite Hdef. unfold m1, mem_rem_ctx. cbn [m_tc]. fold ctxs.
    destruct (def_eqb ctxs (m_def m)).
    - rewrite (pd_get_del Ts). destruct (triple_eqb t t0); auto.
    - rewrite (pd_get_set Ts). destruct (triple_eqb t t0); auto. }
  assert (Hdd1 : forall d, m_def m1 = Some d -> NoDup d) by (intros d; rewrite Hdef; apply Hdd).
  destruct (ctxs_touch m m1 t0 ctxs Htc Hdd1 Hc_nd) as [[H1 H2] H3].
  repeat (split; [solve [auto]|]).
  split; [|split; [|split; [|split]]].
  - intros k'. rewrite H2. apply ksrem_In.
  - intros t Hne. apply H3; auto.
  - intros Hs. unfold m1, mem_rem_ctx. cbn [m_ct]. now apply ct_rem_sets.
  - intros k' t. unfold m1, mem_rem_ctx. cbn [m_ct]. apply ct_rem_In.
  - intros t d. rewrite Htc. destruct (Ts t t0) as [->|]; auto.
Qed.

Lemma len1_inv {A} (l : list A) x : length l = 1 -> In x l -> l = [x].
Proof. destruct l as [|a [|b r]]; simpl; try discriminate. intros _ [->|[]]. reflexivity. Qed.

Lemma nil_of_noin {A} (l : list A) : (forall k, ~ In k l) -> l = [].
Proof. destruct l as [|a r]; auto. intros H. exfalso. apply (H a). simpl; auto. Qed.

Lemma other_elem {A} (l : list A) x :
  NoDup l -> In x l -> length l <> 1 -> exists y, In y l /\ y <> x.
Proof.
  intros Hn Hin Hl. destruct l as [|a [|b r]]; simpl in *; [tauto|congruence|].
  inversion Hn as [|? ? Ha Hr]; subst. destruct Hin as [->|Hin].
  - exists b. split; auto. intros ->. apply Ha. simpl; auto.
  - exists a. split; auto. intros ->. apply Ha. exact Hin.
Qed.

Lemma del_leaf_ctxs m t0 t : t <> t0 -> mem_ctxs (mem_del_leaf m t0) t = mem_ctxs m t.
Proof.
  intros Hne. destruct t0 as [[s p] o]. unfold mem_ctxs, mem_del_leaf. cbn [m_tc m_def].
  rewrite (pd_get_del Ts). apply teqb_neq in Hne. now rewrite Hne.
Qed.

Lemma del_leaf_leaf m t0 t : leaf (m_spo (mem_del_leaf m t0)) t = leaf (m_spo m) t && negb (triple_eqb t t0).
Proof. destruct t0 as [[s p] o]. unfold mem_del_leaf. cbn [m_spo]. apply leaf_del. Qed.


(* the loop body of Memory.remove: the graph loses the triple, nothing else changes *)
Theorem mem_remove1_ok m c t0 :
  MemInv m -> mem_holds m c t0 = true ->
  MemInv (mem_remove1 c m t0) /\
  forall c' t, mem_holds (mem_remove1 c m t0) c' t = mem_holds m c' t && negb (N.eqb c' c && triple_eqb t t0).
Proof.
  intros Hi Hh. pose proof (proj1 (holds_iff m c t0) Hh) as [Hl0 Hc0].
  destruct (mi_ctxs Hi t0 Hl0) as (Hnd0 & Hnone0 & _).
  assert (Hhc : memb ckey_eqb (Some c) (mem_ctxs m t0) = true) by (apply kmemb_In; exact Hc0).
  unfold mem_remove1. rewrite Hhc.
  set (m1 := mem_rem_ctx m t0 (Some c)).
  destruct (rem_ctx_facts m t0 (Some c) (mi_def_nd Hi) Hnd0) as (D1 & S1 & P1 & O1 & N1 & I1 & T1 & Z1 & C1 & L1).
  fold m1 in D1, S1, P1, O1, N1, I1, T1, Z1, C1, L1.
  assert (Hnone1 : In None (mem_ctxs m1 t0)) by (apply I1; split; [auto|discriminate]).
  rewrite (proj2 (kmemb_In _ _) Hnone1). cbn [andb].
  destruct (Nat.eqb_spec (length (mem_ctxs m1 t0)) 1) as [Hlen|Hlen].
  - (* the default entry is the only one left: the triple leaves the store *)
    pose proof (len1_inv _ _ Hlen Hnone1) as HL1.
    set (m2 := mem_rem_ctx m1 t0 None).
    assert (Hdd1 : forall d, m_def m1 = Some d -> NoDup d) by (intros d; rewrite D1; apply (mi_def_nd Hi)).
    destruct (rem_ctx_facts m1 t0 None Hdd1 N1) as (D2 & S2 & P2 & O2 & N2 & I2 & T2 & Z2 & C2 & L2).
    fold m2 in D2, S2, P2, O2, N2, I2, T2, Z2, C2, L2.
    assert (HL2 : mem_ctxs m2 t0 = []).
    { apply nil_of_noin. intros k Hk. apply I2 in Hk. destruct Hk as [Hk Hne]. rewrite HL1 in Hk.
      destruct Hk as [<-|[]]. congruence. }
    rewrite HL2. cbn [length Nat.eqb].
    assert (Honly : forall k, In k (mem_ctxs m t0) -> k = Some c \/ k = None).
    { intros k Hk. destruct (Ks k (Some c)) as [->|Hne]; auto. right.
      assert (H : In k (mem_ctxs m1 t0)) by (apply I1; auto). rewrite HL1 in H. destruct H as [<-|[]]. auto. }
    assert (Hleaf : forall t, leaf (m_spo (mem_del_leaf m2 t0)) t = leaf (m_spo m) t && negb (triple_eqb t t0)).
    { intros t. rewrite del_leaf_leaf, S2, S1. reflexivity. }
    assert (Hctx : forall t, t <> t0 -> mem_ctxs (mem_del_leaf m2 t0) t = mem_ctxs m t).
    { intros t Hne. rewrite del_leaf_ctxs, T2, T1; auto. }
    assert (Hct : m_ct (mem_del_leaf m2 t0) = m_ct m2) by (destruct t0 as [[s p] o]; reflexivity).
    assert (Hdf : m_def (mem_del_leaf m2 t0) = m_def m) by (destruct t0 as [[s p] o]; cbn; congruence).
    split.
    + constructor.
      * destruct t0 as [[s p] o]. cbn [mem_del_leaf m_spo m_pos m_osp]. rewrite S2, P2, O2, S1, P1, O1.
        apply coherent_del, (mi_idx Hi).
      * intros t d. rewrite Hleaf. destruct t0 as [[s0 p0] o0]. cbn [mem_del_leaf m_tc].
        rewrite (pd_get_del Ts). destruct (Ts t (s0, p0, o0)) as [->|Hne]; [discriminate|].
        intros H. destruct (L2 t d H) as [?|H2']; [congruence|]. destruct (L1 t d H2') as [?|H1']; [congruence|].
        rewrite (mi_tc_leaf Hi t d H1'). reflexivity.
      * intros t. rewrite Hleaf, Hdf. intros H. apply andb_true_iff in H. apply (mi_def Hi t), H.
      * intros d. rewrite Hdf. apply (mi_def_nd Hi).
      * intros t. rewrite Hleaf. intros H. apply andb_true_iff in H. destruct H as [Hl Hne].
        apply negb_true_iff, teqb_neq in Hne. rewrite Hctx; auto. now apply (mi_ctxs Hi).
      * rewrite Hct. apply Z2, Z1, (mi_ct_sets Hi).
      * intros k t. rewrite Hct, C2, C1, (mi_ct Hi), Hleaf. destruct (Ts t t0) as [->|Hne]; simpl.
        -- rewrite andb_false_r. split; [|intros [H _]; discriminate].
           intros [[[_ Hk] H1] H2]. exfalso. destruct (Honly k Hk) as [->| ->]; [apply H1|apply H2]; auto.
        -- rewrite andb_true_r, Hctx by auto. intuition congruence.
    + intros c' t. apply bool_iff. rewrite andb_true_iff, negb_true_iff, !holds_iff, Hleaf.
      destruct (Ts t t0) as [->|Hne]; simpl.
      * rewrite andb_false_r, andb_true_r. split; [intros [H _]; discriminate|].
        intros [[_ Hk] Hne]. destruct (Honly _ Hk) as [[= ->]|H]; [|discriminate].
        rewrite N.eqb_refl in Hne. discriminate.
      * rewrite !andb_true_r, andb_false_r, Hctx by auto. tauto.
  - (* other graphs still hold the triple *)
    assert (Hlen0 : length (mem_ctxs m1 t0) <> 0) by (destruct (mem_ctxs m1 t0); [destruct Hnone1|discriminate]).
    destruct (Nat.eqb_spec (length (mem_ctxs m1 t0)) 0) as [E|_]; [congruence|].
    destruct (other_elem _ None N1 Hnone1 Hlen) as (y & Hy & Hyn).
    split.
    + constructor.
      * rewrite S1, P1, O1. apply (mi_idx Hi).
      * intros t d H. rewrite S1. destruct (L1 t d H) as [->|H1']; [exact Hl0|exact (mi_tc_leaf Hi t d H1')].
      * intros t. rewrite S1, D1. apply (mi_def Hi).
      * intros d. rewrite D1. apply (mi_def_nd Hi).
      * intros t. rewrite S1. intros Hl. destruct (Ts t t0) as [->|Hne].
        -- split; [exact N1|split; [exact Hnone1|]]. destruct y as [c'|]; [exists c'; auto|congruence].
        -- rewrite T1 by auto. now apply (mi_ctxs Hi).
      * apply Z1, (mi_ct_sets Hi).
      * intros k t. rewrite C1, (mi_ct Hi), S1. destruct (Ts t t0) as [->|Hne].
        -- rewrite I1. intuition congruence.
        -- rewrite T1 by auto. intuition congruence.
    + intros c' t. apply bool_iff. rewrite andb_true_iff, negb_true_iff, !holds_iff, S1.
      destruct (Ts t t0) as [->|Hne]; simpl.
      * rewrite andb_true_r, I1, N.eqb_neq. intuition congruence.
      * rewrite andb_false_r, T1 by auto. tauto.
Qed.

Lemma mem_fold_remove c l : forall m,
  MemInv m -> NoDup l -> (forall t, In t l -> mem_holds m c t = true) ->
  MemInv (fold_left (mem_remove1 c) l m) /\
  forall c' t, mem_holds (fold_left (mem_remove1 c) l m) c' t =
               mem_holds m c' t && negb (N.eqb c' c && memb triple_eqb t l).
Proof.
  induction l as [|t0 r IH]; simpl; intros m Hi Hn Hh.
  - split; auto. intros c' t. now rewrite andb_false_r, andb_true_r.
  - inversion Hn as [|? ? Hnin Hr]; subst.
    destruct (mem_remove1_ok m c t0 Hi (Hh t0 (or_introl eq_refl))) as [Hi1 Hh1].
    destruct (IH (mem_remove1 c m t0) Hi1 Hr) as [Hi2 Hh2].
    { intros t Ht. rewrite Hh1, (Hh t (or_intror Ht)). simpl.
      destruct (Ts t t0) as [->|]; [tauto|]. now rewrite andb_false_r. }
    split; auto. intros c' t. rewrite Hh2, Hh1.
    destruct (mem_holds m c' t), (N.eqb c' c), (triple_eqb t t0), (memb triple_eqb t r); reflexivity.
Qed.

(* Memory.triples: for each of the 8 shapes, a duplicate-free enumeration of
   exactly the triples of the graph that match *)
Theorem mem_triples_exact m c p :
  MemInv m ->
  NoDup (mem_triples m c p) /\
  forall t, In t (mem_triples m c p) <-> matches p t = true /\ mem_holds m c t = true.
Proof.
  intros Hi.
  assert (Hgen : NoDup (filter (fun t => mem_has_ctx m t (Some c)) (idx_triples (m_spo m) (m_pos m) (m_osp m) p)) /\
          forall t, In t (filter (fun t => mem_has_ctx m t (Some c)) (idx_triples (m_spo m) (m_pos m) (m_osp m) p))
                    <-> matches p t = true /\ mem_holds m c t = true).
  { destruct (idx_triples_exact p (mi_idx Hi)) as [Hn Hin]. split; [now apply filter_NoDup|].
    intros t. rewrite filter_In, Hin, holds_iff. split.
    - intros [[H1 H2] H3]. rewrite has_ctx_leaf in H3 by auto. apply kmemb_In in H3. auto.
    - intros [H1 [H2 H3]]. split; auto. rewrite has_ctx_leaf by auto. now apply kmemb_In. }
  destruct p as [[[s|] [pp|]] [o|]]; try exact Hgen.
  cbn [mem_triples]. split.
  - unfold pd_getd. destruct (pd_get ckey_eqb (Some c) (m_ct m)) as [l|] eqn:E; [|constructor].
    exact (mi_ct_sets Hi _ _ E).
  - intros t. rewrite (mi_ct Hi), holds_iff. destruct t as [[x y] z]. simpl. tauto.
Qed.

Theorem mem_remove_ok m c p :
  MemInv m ->
  MemInv (mem_remove m c p) /\
  forall c' t, mem_holds (mem_remove m c p) c' t = mem_holds m c' t && negb (N.eqb c' c && matches p t).
Proof.
  intros Hi. destruct (mem_triples_exact m c p Hi) as [Hn Hin].
  destruct (mem_fold_remove c (mem_triples m c p) m Hi Hn) as [Hi' Hh'].
  { intros t Ht. now apply Hin in Ht. }
  unfold mem_remove. set (m' := fold_left (mem_remove1 c) (mem_triples m c p) m) in *.
  assert (Hh : forall c' t, mem_holds m' c' t = mem_holds m c' t && negb (N.eqb c' c && matches p t)).
  { intros c' t. rewrite Hh'. destruct (mem_holds m c' t) eqn:E1; simpl; auto.
    destruct (N.eqb_spec c' c) as [->|]; simpl; auto. f_equal.
    apply bool_iff. rewrite tmemb_In, Hin, E1. tauto. }
  destruct (pd_get ckey_eqb (Some c) (m_ct m')) as [[|x r]|] eqn:E; auto.
  split; [|exact Hh].
  constructor; cbn [m_spo m_pos m_osp m_def m_ct m_tc].
  - apply (mi_idx Hi').
  - apply (mi_tc_leaf Hi').
  - apply (mi_def Hi').
  - apply (mi_def_nd Hi').
  - apply (mi_ctxs Hi').
  - intros k l. rewrite (pd_get_del Ks). destruct (ckey_eqb k (Some c)); [discriminate|apply (mi_ct_sets Hi')].
  - intros k t. rewrite <- (mi_ct Hi' k t). rewrite (pd_getd_del _ Ks).
    destruct (Ks k (Some c)) as [->|]; [|tauto]. unfold pd_getd. rewrite E. tauto.
Qed.

Lemma mem_len_ok m c : mem_len m c = N.of_nat (length (mem_triples m c all_pat)).
Proof. reflexivity. Qed.
