(* Model of rdflib/plugins/stores/memory.py (SimpleMemory, Memory) and of the
   Graph layer of rdflib/graph.py that C01 talks about, plus the boolean
   specification checker over the mathematical quad set of Base/Quads.v.
   Definitions only; proofs are in the other files of this directory.

   Conventions (modelling assumptions are listed in notes/C01.md):
   - a Python dict is an insertion-ordered association list (PyDict.v); the inner
     dicts of the indexes are mutated in place in Python, which is a functional
     update along the path here;
   - the per-triple context dict {ctx_str|None: quoted} is a list of keys: the
     Graph layer always passes quoted=False, so every value is False, dict
     equality is equality of key sets and the skipQuoted filter is the identity;
   - a Python set (values of __contextTriples) is a duplicate-free list; its
     iteration order is hash order in Python, so every comparison of such an
     enumeration with the implementation is a set comparison;
   - `del d[k]` of an absent key (KeyError in Python) is a no-op here; the
     invariant theorems show it does not happen.
   The model follows the code after the repairs of findings F10 and F10b. *)
From RV Require Export Base.Quads Store.PyDict.

(* ------------------------------------------------------------------ *)
(* A three-level nested dict  i[a][b][c] = 1                           *)

Definition d1 := pydict N unit.
Definition d2 := pydict N d1.
Definition idx := pydict N d2.

Definition idx_has (a b c : N) (i : idx) : bool :=
  pd_mem N.eqb c (pd_getd N.eqb b (pd_getd N.eqb a i)).

(* try: x = i[a] except: x = i[a] = {} ; likewise for b ; x[c] = 1 *)
Definition idx_add (a b c : N) (i : idx) : idx :=
  let da := pd_getd N.eqb a i in
  let db := pd_getd N.eqb b da in
  pd_set N.eqb a (pd_set N.eqb b (pd_set N.eqb c tt db) da) i.

(* del i[a][b][c]  (inner dicts are never deleted, even when empty) *)
Definition idx_del (a b c : N) (i : idx) : idx :=
  match pd_get N.eqb a i with
  | None => i
  | Some da =>
      match pd_get N.eqb b da with
      | None => i
      | Some db => pd_set N.eqb a (pd_set N.eqb b (pd_del N.eqb c db) da) i
      end
  end.

(* for c in i[a][b].keys() *)
Definition idx_l3 (a b : N) (i : idx) : list N :=
  pd_keys (pd_getd N.eqb b (pd_getd N.eqb a i)).

(* for b in da.keys(): for c in da[b].keys() *)
Definition d2_pairs (da : d2) : list (N * N) :=
  flat_map (fun bd => map (fun c => (fst bd, c)) (pd_keys (snd bd))) da.

Definition idx_l2 (a : N) (i : idx) : list (N * N) := d2_pairs (pd_getd N.eqb a i).

(* for b in i[a].keys(): if c in i[a][b] *)
Definition idx_l2c (a c : N) (i : idx) : list N :=
  flat_map (fun bd => if pd_mem N.eqb c (snd bd) then [fst bd] else []) (pd_getd N.eqb a i).

(* for a in i.keys(): for b in i[a].keys(): for c in i[a][b].keys() *)
Definition idx_l1 (i : idx) : list (N * N * N) :=
  flat_map (fun ad => map (fun bc => (fst ad, fst bc, snd bc)) (d2_pairs (snd ad))) i.

(* The pattern dispatch shared by SimpleMemory.triples and Memory.triples
   (`!= ANY` resp. `is not None` tests in the same order): which index is
   walked for which shape, and in which nesting order. *)
Definition idx_triples (spo pos osp : idx) (p : pat) : list triple :=
  let '(ps, pp, po) := p in
  match ps with
  | Some s =>
      match pp with
      | Some pr =>
          match po with
          | Some o => if idx_has s pr o spo then [(s, pr, o)] else []
          | None => map (fun o => (s, pr, o)) (idx_l3 s pr spo)
          end
      | None =>
          match po with
          | Some o => map (fun pr => (s, pr, o)) (idx_l2c s o spo)
          | None => map (fun x => (s, fst x, snd x)) (idx_l2 s spo)
          end
      end
  | None =>
      match pp with
      | Some pr =>
          match po with
          | Some o => map (fun s => (s, pr, o)) (idx_l3 pr o pos)
          | None => map (fun x => (snd x, pr, fst x)) (idx_l2 pr pos)
          end
      | None =>
          match po with
          | Some o => map (fun x => (fst x, snd x, o)) (idx_l2 o osp)
          | None => idx_l1 spo
          end
      end
  end.

Definition all_pat : pat := (None, None, None).

(* ------------------------------------------------------------------ *)
(* SimpleMemory                                                        *)

Record smem := { s_spo : idx; s_pos : idx; s_osp : idx }.

Definition sm_empty : smem := {| s_spo := []; s_pos := []; s_osp := [] |}.

Definition sm_add (m : smem) (t : triple) : smem :=
  let '(s, p, o) := t in
  {| s_spo := idx_add s p o (s_spo m);
     s_pos := idx_add p o s (s_pos m);
     s_osp := idx_add o s p (s_osp m) |}.

Definition sm_triples (m : smem) (p : pat) : list triple :=
  idx_triples (s_spo m) (s_pos m) (s_osp m) p.

Definition sm_del1 (m : smem) (t : triple) : smem :=
  let '(s, p, o) := t in
  {| s_spo := idx_del s p o (s_spo m);
     s_pos := idx_del p o s (s_pos m);
     s_osp := idx_del o s p (s_osp m) |}.

(* for (s,p,o), c in list(self.triples(pattern)): del ... (the context is ignored) *)
Definition sm_remove (m : smem) (p : pat) : smem :=
  fold_left sm_del1 (sm_triples m p) m.

Definition sm_len (m : smem) : N := N.of_nat (length (sm_triples m all_pat)).

(* ------------------------------------------------------------------ *)
(* Memory                                                              *)

Definition ckey := option cid.                 (* __ctx_to_str(context), None = the store-wide default *)
Definition ckey_eqb : ckey -> ckey -> bool := opt_eqb N.eqb.
Definition ctxd := list ckey.                  (* dict {ctx: False}: its keys in insertion order *)
Definition ctxd_eqb (a b : ctxd) : bool := seteqb ckey_eqb a b.      (* dict == dict *)

Record mem := {
  m_spo : idx; m_pos : idx; m_osp : idx;
  m_tc : pydict triple ctxd;                   (* __tripleContexts *)
  m_ct : pydict ckey (list triple);            (* __contextTriples *)
  m_all : list cid;                            (* __all_contexts *)
  m_def : option ctxd                          (* __defaultContexts *)
}.

Definition mem_empty : mem :=
  {| m_spo := []; m_pos := []; m_osp := []; m_tc := []; m_ct := [(None, [])]; m_all := []; m_def := None |}.

Definition mem_leaf (m : mem) (t : triple) : bool :=
  let '(s, p, o) := t in idx_has s p o (m_spo m).

(* self.__tripleContexts.get(triple, self.__defaultContexts); a None default
   (empty store) is read as the empty dict *)
Definition mem_ctxs (m : mem) (t : triple) : ctxd :=
  match pd_get triple_eqb t (m_tc m) with
  | Some d => d
  | None => match m_def m with Some d => d | None => [] end
  end.

(* __triple_has_context (as repaired for finding F10): a triple without an entry
   of its own has the default contexts only while it is still indexed *)
Definition mem_has_ctx (m : mem) (t : triple) (k : ckey) : bool :=
  match pd_get triple_eqb t (m_tc m) with
  | Some d => memb ckey_eqb k d
  | None => if mem_leaf m t then memb ckey_eqb k (match m_def m with Some d => d | None => [] end) else false
  end.

(* the historical __triple_has_context: ctx in tripleContexts.get(t, defaultContexts) *)
Definition hist_has_ctx (m : mem) (t : triple) (k : ckey) : bool := memb ckey_eqb k (mem_ctxs m t).

(* what the property calls "t is in graph c" *)
Definition mem_holds (m : mem) (c : cid) (t : triple) : bool :=
  mem_leaf m t && mem_has_ctx m t (Some c).

(* self.__contextTriples[k].add(t), creating the set *)
Definition ct_add (k : ckey) (t : triple) (ct : pydict ckey (list triple)) :=
  pd_set ckey_eqb k (sadd triple_eqb t (pd_getd ckey_eqb k ct)) ct.

(* self.__contextTriples[k].remove(t) *)
Definition ct_rem (k : ckey) (t : triple) (ct : pydict ckey (list triple)) :=
  match pd_get ckey_eqb k ct with
  | Some l => pd_set ckey_eqb k (srem triple_eqb t l) ct
  | None => ct
  end.

Definition def_eqb (d : ctxd) (o : option ctxd) : bool :=
  match o with Some d' => ctxd_eqb d d' | None => false end.

(* __add_triple_context(triple, triple_exists, context, quoted=False) *)
Definition mem_add_ctx (m : mem) (t : triple) (ex : bool) (c : cid) : mem :=
  let k := Some c in
  let tcx := if ex then sadd ckey_eqb None (sadd ckey_eqb k (mem_ctxs m t)) else [k; None] in
  let tc1 := pd_set triple_eqb t tcx (m_tc m) in
  let ct2 := ct_add k t (ct_add None t (m_ct m)) in
  let def' := match m_def m with None => Some tcx | d => d end in
  let tc2 := if def_eqb tcx def' then pd_del triple_eqb t tc1 else tc1 in
  {| m_spo := m_spo m; m_pos := m_pos m; m_osp := m_osp m;
     m_tc := tc2; m_ct := ct2; m_all := m_all m; m_def := def' |}.

(* Memory.add(triple, context, quoted=False) *)
Definition mem_add (m : mem) (c : cid) (t : triple) : mem :=
  let '(s, p, o) := t in
  let ex := idx_has s p o (m_spo m) in
  let m1 := mem_add_ctx m t ex c in
  if ex then
    {| m_spo := m_spo m1; m_pos := m_pos m1; m_osp := m_osp m1;
       m_tc := m_tc m1; m_ct := m_ct m1; m_all := sadd N.eqb c (m_all m1); m_def := m_def m1 |}
  else
    {| m_spo := idx_add s p o (m_spo m1); m_pos := idx_add p o s (m_pos m1); m_osp := idx_add o s p (m_osp m1);
       m_tc := m_tc m1; m_ct := m_ct m1; m_all := sadd N.eqb c (m_all m1); m_def := m_def m1 |}.

(* __remove_triple_context(triple, ctx) *)
Definition mem_rem_ctx (m : mem) (t : triple) (k : ckey) : mem :=
  let ctxs := srem ckey_eqb k (mem_ctxs m t) in
  let tc' := if def_eqb ctxs (m_def m) then pd_del triple_eqb t (m_tc m)
             else pd_set triple_eqb t ctxs (m_tc m) in
  {| m_spo := m_spo m; m_pos := m_pos m; m_osp := m_osp m;
     m_tc := tc'; m_ct := ct_rem k t (m_ct m); m_all := m_all m; m_def := m_def m |}.

Definition mem_del_leaf (m : mem) (t : triple) : mem :=
  let '(s, p, o) := t in
  {| m_spo := idx_del s p o (m_spo m); m_pos := idx_del p o s (m_pos m); m_osp := idx_del o s p (m_osp m);
     m_tc := pd_del triple_eqb t (m_tc m); m_ct := m_ct m; m_all := m_all m; m_def := m_def m |}.

(* the body of the loop of Memory.remove for one triple, context given *)
Definition mem_remove1 (c : cid) (m : mem) (t : triple) : mem :=
  (* for ctx in self.__get_context_for_triple(triple): if req_ctx != ctx: continue; remove *)
  let m1 := if memb ckey_eqb (Some c) (mem_ctxs m t) then mem_rem_ctx m t (Some c) else m in
  let ctxs := mem_ctxs m1 t in
  let m2 := if memb ckey_eqb None ctxs && Nat.eqb (length ctxs) 1 then mem_rem_ctx m1 t None else m1 in
  if Nat.eqb (length (mem_ctxs m2 t)) 0 then mem_del_leaf m2 t else m2.

(* Memory.triples(pattern, context=graph) *)
Definition mem_triples (m : mem) (c : cid) (p : pat) : list triple :=
  match p with
  | (None, None, None) => pd_getd ckey_eqb (Some c) (m_ct m)
  | _ => filter (fun t => mem_has_ctx m t (Some c)) (idx_triples (m_spo m) (m_pos m) (m_osp m) p)
  end.

(* Memory.remove(pattern, context=graph).  The Python loop runs over the live
   generator; a removed triple is never revisited and removing one triple does
   not change the contexts of another, so the generator's output is the list
   computed up front (modelling assumption MA2, exercised by the harness). *)
Definition mem_remove (m : mem) (c : cid) (p : pat) : mem :=
  let m' := fold_left (mem_remove1 c) (mem_triples m c p) m in
  match pd_get ckey_eqb (Some c) (m_ct m') with
  | Some [] =>
      {| m_spo := m_spo m'; m_pos := m_pos m'; m_osp := m_osp m'; m_tc := m_tc m';
         m_ct := pd_del ckey_eqb (Some c) (m_ct m'); m_all := m_all m'; m_def := m_def m' |}
  | _ => m'
  end.

Definition mem_len (m : mem) (c : cid) : N := N.of_nat (length (pd_getd ckey_eqb (Some c) (m_ct m))).

(* ------------------------------------------------------------------ *)
(* A store of either class behind the Store interface the Graph uses  *)

Inductive store := SSimple (m : smem) | SMem (m : mem).

Definition st_simple (st : store) : bool := match st with SSimple _ => true | SMem _ => false end.

Definition st_add (st : store) (c : cid) (t : triple) : store :=
  match st with SSimple m => SSimple (sm_add m t) | SMem m => SMem (mem_add m c t) end.
Definition st_remove (st : store) (c : cid) (p : pat) : store :=
  match st with SSimple m => SSimple (sm_remove m p) | SMem m => SMem (mem_remove m c p) end.
Definition st_triples (st : store) (c : cid) (p : pat) : list triple :=
  match st with SSimple m => sm_triples m p | SMem m => mem_triples m c p end.
Definition st_len (st : store) (c : cid) : N :=
  match st with SSimple m => sm_len m | SMem m => mem_len m c end.
Definition st_holds (st : store) (c : cid) (t : triple) : bool :=
  match st with
  | SSimple m => let '(s, p, o) := t in idx_has s p o (s_spo m)
  | SMem m => mem_holds m c t
  end.

(* ------------------------------------------------------------------ *)
(* Graph objects over any number of stores                             *)

(* a Graph object: which store (0 and 1 are the stores of the case; 2, 3, ... are
   the new default stores that the binary operators create, in order), the
   store key of its identifier, and a token for the identity (`is`) of the
   identifier object *)
Definition handle := (nat * cid * N)%type.
Definition h_store (h : handle) : nat := fst (fst h).
Definition h_cid (h : handle) : cid := snd (fst h).
Definition h_tok (h : handle) : N := snd h.

Definition world := nat -> store.
Definition w_get (w : world) (b : nat) : store := w b.
Definition w_set (w : world) (b : nat) (s : store) : world :=
  fun b' => if Nat.eqb b' b then s else w b'.

Inductive binop := OAdd | OSub | OMul | OXor.

Inductive gop :=
| GAdd (g : handle) (t : triple)
| GAddN (g : handle) (qs : list (triple * handle))
| GRemove (g : handle) (p : pat)
| GSet (g : handle) (t : triple)
| GIAdd (g h : handle)
| GISub (g h : handle)
| GBin (o : binop) (g h : handle).

Definition g_triples (w : world) (g : handle) (p : pat) : list triple :=
  st_triples (w_get w (h_store g)) (h_cid g) p.
Definition g_len (w : world) (g : handle) : N := st_len (w_get w (h_store g)) (h_cid g).
(* Graph.__contains__: for _ in self.triples(pattern): return True *)
Definition is_nil {A} (l : list A) : bool := match l with [] => true | _ => false end.
Definition g_contains (w : world) (g : handle) (p : pat) : bool := negb (is_nil (g_triples w g p)).

Definition g_add (w : world) (g : handle) (t : triple) : world :=
  w_set w (h_store g) (st_add (w_get w (h_store g)) (h_cid g) t).
Definition g_remove (w : world) (g : handle) (p : pat) : world :=
  w_set w (h_store g) (st_remove (w_get w (h_store g)) (h_cid g) p).

(* Graph.addN keeps the quads whose graph's identifier *is* this graph's
   identifier; Store.addN then calls add(triple, that graph) on this graph's store *)
Definition g_addN (w : world) (g : handle) (qs : list (triple * handle)) : world :=
  fold_left (fun w q =>
               if N.eqb (h_tok (snd q)) (h_tok g)
               then w_set w (h_store g) (st_add (w_get w (h_store g)) (h_cid (snd q)) (fst q))
               else w) qs w.

Definition sp_pat (t : triple) : pat := let '(s, p, _) := t in (Some s, Some p, None).

Definition g_set (w : world) (g : handle) (t : triple) : world :=
  g_add (g_remove w g (sp_pat t)) g t.

(* self.addN((s, p, o, self) for s, p, o in other) *)
Definition g_iadd (w : world) (g h : handle) : world :=
  fold_left (fun w t => g_add w g t) (g_triples w h all_pat) w.

(* for triple in other: self.remove(triple).  Both stores snapshot the key lists
   (resp. the triple set) they walk, a removed triple is never revisited and
   removing one triple does not touch another: the generator's output is the
   list computed up front, also when both graphs live in the same store. *)
Definition g_isub (w : world) (g h : handle) : world :=
  fold_left (fun w t => g_remove w g (pat_of t)) (g_triples w h all_pat) w.

(* Before the repair of finding F10b SimpleMemory.triples walked the live dicts:
   with both graphs in one SimpleMemory store the step after the first removal
   raised RuntimeError ("dictionary changed size during iteration").  true = raised. *)
Definition g_isub_hist (w : world) (g h : handle) : world * bool :=
  if Nat.eqb (h_store g) (h_store h) && st_simple (w_get w (h_store g)) then
    match g_triples w h all_pat with
    | [] => (w, false)
    | t :: _ => (g_remove w g (pat_of t), true)
    end
  else (g_isub w g h, false).

(* the result of a binary operator is a new Graph() on a new default store *)
Definition fresh_cid : cid := 0%N.
Definition fresh_add (m : mem) (l : list triple) : mem := fold_left (fun m t => mem_add m fresh_cid t) l m.
Definition fresh_content (m : mem) : list triple := mem_triples m fresh_cid all_pat.

(* retval = type(self)() ...: the store of the result *)
Definition g_bin_mem (o : binop) (w : world) (g h : handle) : mem :=
  let lg := g_triples w g all_pat in
  let lh := g_triples w h all_pat in
  let sub la b := fresh_add mem_empty (filter (fun x => negb (g_contains w b (pat_of x))) la) in
  match o with
  | OAdd => fresh_add (fresh_add mem_empty lg) lh
  | OMul => fresh_add mem_empty (filter (fun x => g_contains w g (pat_of x)) lh)
  | OSub => sub lg h
  | OXor => fresh_add (fresh_add mem_empty (fresh_content (sub lg h))) (fresh_content (sub lh g))
  end.

Definition g_bin (o : binop) (w : world) (g h : handle) : list triple := fresh_content (g_bin_mem o w g h).

(* One operation: new world, "raised", content of the operator's result.  [nx] is
   the number of the next new store: the result of a binary operator is a graph
   (store nx, fresh_cid) that stays in play for the rest of the history. *)
Definition g_step (w : world) (nx : nat) (o : gop) : world * bool * list triple :=
  match o with
  | GAdd g t => (g_add w g t, false, [])
  | GAddN g qs => (g_addN w g qs, false, [])
  | GRemove g p => (g_remove w g p, false, [])
  | GSet g t => (g_set w g t, false, [])
  | GIAdd g h => (g_iadd w g h, false, [])
  | GISub g h => (g_isub w g h, false, [])
  | GBin b g h => let m := g_bin_mem b w g h in (w_set w nx (SMem m), false, fresh_content m)
  end.

Definition nx_next (o : gop) (nx : nat) : nat :=
  match o with GBin _ _ _ => Datatypes.S nx | _ => nx end.

(* ------------------------------------------------------------------ *)
(* Cases and observations                                              *)

(* the eight bound/unbound shapes of a probe triple *)
Definition masks (t : triple) : list pat :=
  let '(s, p, o) := t in
  [ (None, None, None); (Some s, None, None); (None, Some p, None); (None, None, Some o);
    (Some s, Some p, None); (Some s, None, Some o); (None, Some p, Some o); (Some s, Some p, Some o) ].

(* per graph: iteration, len, triples(pattern) and `pattern in g` for the 8 shapes *)
Definition hobs := (list triple * N * list (list triple) * list bool)%type.
(* per step: raised?, result of a binary operator, every graph in play *)
Definition sobs := (bool * list triple * list hobs)%type.
Definition obs := list sobs.

Record case := {
  c_simple0 : bool;                 (* store 0 is a SimpleMemory *)
  c_simple1 : bool;                 (* store 1 is a SimpleMemory *)
  c_handles : list handle;          (* the graphs observed after every step *)
  c_ops : list (gop * triple)       (* operation, probe triple *)
}.

Definition observe (w : world) (probe : triple) (g : handle) : hobs :=
  (g_triples w g all_pat, g_len w g,
   map (g_triples w g) (masks probe), map (g_contains w g) (masks probe)).

Fixpoint g_run (hs : list handle) (w : world) (nx : nat) (ops : list (gop * triple)) : obs :=
  match ops with
  | [] => []
  | (o, probe) :: r =>
      let '(w', raised, res) := g_step w nx o in
      (raised, res, map (observe w' probe) hs) :: g_run hs w' (nx_next o nx) r
  end.

Definition st_init (simple : bool) : store := if simple then SSimple sm_empty else SMem mem_empty.
Definition w_init (c : case) : world :=
  fun b => match b with
           | 0 => st_init (c_simple0 c)
           | 1 => st_init (c_simple1 c)
           | _ => SMem mem_empty       (* not yet created: observed as an empty graph *)
           end.

Definition model_obs (c : case) : obs := g_run (c_handles c) (w_init c) 2 (c_ops c).

(* observations are compared up to the order of every enumeration *)
Definition tl_eqb (a b : list triple) : bool :=
  Nat.eqb (length a) (length b) && seteqb triple_eqb a b && Bool.eqb (nodupb triple_eqb a) (nodupb triple_eqb b).

Definition hobs_eqb (a b : hobs) : bool :=
  let '(ai, al, ap, ac) := a in let '(bi, bl, bp, bc) := b in
  tl_eqb ai bi && N.eqb al bl && list_eqb tl_eqb ap bp && list_eqb Bool.eqb ac bc.

Definition sobs_eqb (a b : sobs) : bool :=
  let '(ar, ares, ah) := a in let '(br, bres, bh) := b in
  Bool.eqb ar br && tl_eqb ares bres && list_eqb hobs_eqb ah bh.

Definition obs_eqb (a b : obs) : bool := list_eqb sobs_eqb a b.

(* ------------------------------------------------------------------ *)
(* Specification: the quad set of Base/Quads.v                         *)

(* the name of a graph in the specification: a SimpleMemory store ignores the
   context, so it holds one graph; graphs of different stores are different *)
Definition store_simple (c : case) (b : nat) : bool :=
  match b with 0 => c_simple0 c | 1 => c_simple1 c | _ => false end.

(* an injective numbering of (store, graph) pairs: 2^store * (2 x + 1) *)
Fixpoint enc (b : nat) (x : N) : N :=
  match b with O => (2 * x + 1)%N | Datatypes.S b' => (2 * enc b' x)%N end.

Definition scid (c : case) (g : handle) : cid :=
  enc (h_store g) (if store_simple c (h_store g) then 0 else h_cid g + 1)%N.

Definition teq := triple_eqb.

(* the set a binary operator must return *)
Definition spec_bin (o : binop) (a b : list triple) : list triple :=
  match o with
  | OAdd => sunion teq a b
  | OSub => sdiff teq a b
  | OMul => sinter teq a b
  | OXor => sunion teq (sdiff teq a b) (sdiff teq b a)
  end.

Definition sp_content (S : qset) (k : cid) : list triple := q_triples all_pat k S.

Definition sp_add_all (k : cid) (l : list triple) (S : qset) : qset :=
  fold_left (fun S t => q_add (t, k) S) l S.
Definition sp_remove_all (k : cid) (l : list triple) (S : qset) : qset :=
  fold_left (fun S t => q_remove (pat_of t) (Some k) S) l S.

Definition spec_step (c : case) (nx : nat) (S : qset) (o : gop) : qset :=
  match o with
  | GAdd g t => q_add (t, scid c g) S
  | GAddN g qs =>
      sp_add_all (scid c g) (map fst (filter (fun q => N.eqb (h_tok (snd q)) (h_tok g)) qs)) S
  | GRemove g p => q_remove p (Some (scid c g)) S
  | GSet g t => q_add (t, scid c g) (q_remove (sp_pat t) (Some (scid c g)) S)
  | GIAdd g h => sp_add_all (scid c g) (sp_content S (scid c h)) S
  | GISub g h => sp_remove_all (scid c g) (sp_content S (scid c h)) S
  | GBin b g h =>
      (* a new graph, in nobody's store, holding exactly the set the operator denotes *)
      sp_add_all (scid c (nx, fresh_cid, 0%N)) (spec_bin b (sp_content S (scid c g)) (sp_content S (scid c h))) S
  end.

Fixpoint all2 {A B} (f : A -> B -> bool) (l : list A) (m : list B) : bool :=
  match l, m with
  | [], [] => true
  | x :: r, y :: s => f x y && all2 f r s
  | _, _ => false
  end.

(* what one graph must show when its mathematical content is E *)
Definition hobs_ok (E : list triple) (probe : triple) (ho : hobs) : bool :=
  let '(it, ln, ps, cs) := ho in
  enum_ofb teq it E
  && N.eqb ln (N.of_nat (length E))
  && all2 (fun p l => enum_ofb teq l (filter (matches p) E)) (masks probe) ps
  && all2 (fun p b => Bool.eqb b (negb (is_nil (filter (matches p) E)))) (masks probe) cs.

Definition sobs_ok (c : case) (S S' : qset) (o : gop) (probe : triple) (so : sobs) : bool :=
  let '(raised, res, hs) := so in
  negb raised
  && match o with
     | GBin b g h => enum_ofb teq res (spec_bin b (sp_content S (scid c g)) (sp_content S (scid c h)))
     | _ => is_nil res
     end
  && all2 (fun g ho => hobs_ok (sp_content S' (scid c g)) probe ho) (c_handles c) hs.

Fixpoint spec_run (c : case) (nx : nat) (S : qset) (ops : list (gop * triple)) (ob : obs) : bool :=
  match ops, ob with
  | [], [] => true
  | (o, probe) :: r, so :: ob' =>
      let S' := spec_step c nx S o in
      sobs_ok c S S' o probe so && spec_run c (nx_next o nx) S' r ob'
  | _, _ => false
  end.

Definition spec_ok (c : case) (ob : obs) : bool := spec_run c 2 [] (c_ops c) ob.

(* the world and the mathematical store after a whole history *)
Fixpoint w_run (w : world) (nx : nat) (ops : list (gop * triple)) : world :=
  match ops with [] => w | (o, _) :: r => w_run (fst (fst (g_step w nx o))) (nx_next o nx) r end.
Fixpoint s_run (c : case) (nx : nat) (S : qset) (ops : list (gop * triple)) : qset :=
  match ops with [] => S | (o, _) :: r => s_run c (nx_next o nx) (spec_step c nx S o) r end.

(* well-formed cases: graph objects sharing an identifier object have the same
   store key (same identifier) *)
Definition op_handles (o : gop) : list handle :=
  match o with
  | GAdd g _ | GRemove g _ | GSet g _ => [g]
  | GAddN g qs => g :: map snd qs
  | GIAdd g h | GISub g h | GBin _ g h => [g; h]
  end.

Definition case_handles (c : case) : list handle :=
  c_handles c ++ flat_map (fun ot => op_handles (fst ot)) (c_ops c).

(* ... and an operation only uses graphs that exist: stores 0, 1 and the results
   of earlier binary operators *)
Fixpoint scopedb (nx : nat) (ops : list (gop * triple)) : bool :=
  match ops with
  | [] => true
  | (o, _) :: r => forallb (fun g => Nat.ltb (h_store g) nx) (op_handles o) && scopedb (nx_next o nx) r
  end.

Definition wfb (c : case) : bool :=
  forallb (fun g => forallb (fun h => implb (N.eqb (h_tok g) (h_tok h)) (N.eqb (h_cid g) (h_cid h)))
                            (case_handles c)) (case_handles c)
  && scopedb 2 (c_ops c).
