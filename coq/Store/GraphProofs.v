(* The Graph layer over one or two stores refines the quad set: every
   observation the model makes after every operation of a history is accepted by
   the specification checker. *)
From Coq Require Import Arith.
From RV Require Import Store.Model Store.IndexProofs Store.SimpleProofs Store.MemProofs.

Local Notation Ts := triple_eqb_spec.
Local Notation Qs := quad_eqb_spec.

(* ---------- both store classes behind one interface *)
Definition st_inv (st : store) : Prop :=
  match st with SSimple m => sm_inv m | SMem m => MemInv m end.

Definition same_ctx (st : store) (c c' : cid) : bool := st_simple st || N.eqb c' c.

Lemma st_add_ok st c t0 :
  st_inv st ->
  st_inv (st_add st c t0) /\ st_simple (st_add st c t0) = st_simple st /\
  forall c' t, st_holds (st_add st c t0) c' t = (same_ctx st c c' && triple_eqb t t0) || st_holds st c' t.
Proof.
  destruct st as [m|m]; simpl; intros Hi.
  - split; [now apply sm_add_inv|split; [auto|]]. intros c' t. unfold same_ctx. simpl.
    destruct t as [[x y] z]. apply (sm_add_holds m t0 (x, y, z)).
  - destruct (mem_add_ok m c t0 Hi) as [H1 H2]. split; [auto|split; auto].
Qed.

Lemma st_remove_ok st c p :
  st_inv st ->
  st_inv (st_remove st c p) /\ st_simple (st_remove st c p) = st_simple st /\
  forall c' t, st_holds (st_remove st c p) c' t = st_holds st c' t && negb (same_ctx st c c' && matches p t).
Proof.
  destruct st as [m|m]; simpl; intros Hi.
  - destruct (sm_remove_ok m p Hi) as [H1 H2]. split; [auto|split; [auto|]]. intros c' t. unfold same_ctx. simpl.
    destruct t as [[x y] z]. apply (H2 (x, y, z)).
  - destruct (mem_remove_ok m c p Hi) as [H1 H2]. split; [auto|split; auto].
Qed.

Lemma st_triples_exact st c p :
  st_inv st ->
  NoDup (st_triples st c p) /\
  forall t, In t (st_triples st c p) <-> matches p t = true /\ st_holds st c t = true.
Proof.
  destruct st as [m|m]; simpl; intros Hi.
  - destruct (sm_triples_exact m p Hi) as [H1 H2]. split; [auto|]. intros [[x y] z]. apply (H2 (x, y, z)).
  - now apply mem_triples_exact.
Qed.

Lemma st_len_ok st c : st_len st c = N.of_nat (length (st_triples st c all_pat)).
Proof. destruct st; reflexivity. Qed.

Lemma matches_all t : matches all_pat t = true.
Proof. destruct t as [[x y] z]. reflexivity. Qed.

(* ---------- facts about the specification state *)
Lemma q_mem_add x q S : q_mem x (q_add q S) = quad_eqb x q || q_mem x S.
Proof.
  apply bool_iff. rewrite orb_true_iff, !q_mem_In, q_add_In.
  destruct (Qs x q); intuition congruence.
Qed.

Lemma q_mem_remove x p k S :
  q_mem x (q_remove p (Some k) S) = q_mem x S && negb (matches p (fst x) && N.eqb k (snd x)).
Proof.
  apply bool_iff. rewrite andb_true_iff, negb_true_iff, !q_mem_In, q_remove_In. unfold qsel. tauto.
Qed.

Lemma qsel_all t k k' : qsel all_pat (Some k) (t, k') = N.eqb k k'.
Proof. unfold qsel. cbn [fst snd]. now rewrite matches_all. Qed.

Lemma sp_content_In S k t : In t (sp_content S k) <-> In (t, k) S.
Proof.
  unfold sp_content, q_triples. rewrite in_map_iff. split.
  - intros ([t' k'] & <- & H). apply filter_In in H. destruct H as [H1 H2]. rewrite qsel_all in H2.
    apply N.eqb_eq in H2. now subst.
  - intros H. exists (t, k). split; auto. apply filter_In. split; auto. rewrite qsel_all. apply N.eqb_refl.
Qed.

Lemma sp_content_NoDup S k : NoDup S -> NoDup (sp_content S k).
Proof.
  intros H. unfold sp_content, q_triples. apply NoDup_map_inj; [|now apply filter_NoDup].
  intros [t1 k1] [t2 k2] H1 H2. cbn [fst]. intros ->. apply filter_In in H1, H2.
  destruct H1 as [_ H1], H2 as [_ H2]. rewrite qsel_all in H1, H2.
  apply N.eqb_eq in H1, H2. congruence.
Qed.

Lemma sp_add_all_ok k l : forall S,
  NoDup S ->
  NoDup (sp_add_all k l S) /\ forall x, In x (sp_add_all k l S) <-> In x S \/ (snd x = k /\ In (fst x) l).
Proof.
  induction l as [|t r IH]; simpl; intros S Hn.
  - split; auto. intros x. tauto.
  - destruct (IH (q_add (t, k) S) (q_add_NoDup _ _ Hn)) as [H1 H2]. split; auto.
    intros x. rewrite H2, q_add_In. destruct x as [t' k']. simpl. split.
    + intros [[[= -> ->]|H]|[H3 H4]]; auto.
    + intros [H|[-> [->|H]]]; auto.
Qed.

Lemma sp_remove_all_ok k l : forall S,
  NoDup S ->
  NoDup (sp_remove_all k l S) /\
  forall x, In x (sp_remove_all k l S) <-> In x S /\ ~ (snd x = k /\ In (fst x) l).
Proof.
  induction l as [|t r IH]; simpl; intros S Hn.
  - split; auto. intros x. tauto.
  - destruct (IH (q_remove (pat_of t) (Some k) S) (q_remove_NoDup _ _ _ Hn)) as [H1 H2]. split; auto.
    intros x. rewrite H2, q_remove_In. destruct x as [t' k']. unfold qsel. simpl.
    destruct (matches (pat_of t) t') eqn:Em.
    + apply matches_pat_of in Em. subst t'. destruct (N.eqb_spec k k') as [->|Hne]; simpl.
      * split; [intros [[_ H] _]; discriminate|]. intros [_ H]. exfalso. apply H. auto.
      * intuition congruence.
    + simpl. assert (t <> t') by (intros ->; assert (matches (pat_of t') t' = true) by (now apply matches_pat_of); congruence).
      intuition congruence.
Qed.

(* ---------- the simulation relation *)
Definition key (c : case) (b : nat) (k : cid) : cid := scid c (b, k, 0%N).

Lemma scid_key c g : scid c g = key c (h_store g) (h_cid g).
Proof. destruct g as [[b k] tok]. reflexivity. Qed.

Lemma enc_inj b : forall b' x x', enc b x = enc b' x' -> b = b' /\ x = x'.
Proof.
  induction b as [|b IH]; intros [|b'] x x'; cbn [enc]; intros E.
  - split; auto. lia.
  - exfalso. lia.
  - exfalso. lia.
  - assert (E' : enc b x = enc b' x') by lia. destruct (IH _ _ _ E') as [-> ->]. auto.
Qed.

Lemma key_eq c b k b' k' :
  N.eqb (key c b' k') (key c b k) = Nat.eqb b' b && (store_simple c b || N.eqb k' k).
Proof.
  unfold key, scid, h_store, h_cid. cbn [fst snd].
  destruct (Nat.eqb_spec b' b) as [->|Hb]; cbn [andb].
  - destruct (store_simple c b); cbn [orb]; [apply N.eqb_refl|].
    destruct (N.eqb_spec k' k) as [->|Hk]; [apply N.eqb_refl|].
    apply N.eqb_neq. intros E. apply enc_inj in E. lia.
  - apply N.eqb_neq. intros E. apply enc_inj in E. tauto.
Qed.

Definition Rel (c : case) (w : world) (S : qset) : Prop :=
  NoDup S /\ (forall b, st_inv (w_get w b)) /\ (forall b, st_simple (w_get w b) = store_simple c b) /\
  forall b k t, st_holds (w_get w b) k t = q_mem (t, key c b k) S.

Lemma w_get_set w b b' s : w_get (w_set w b s) b' = if Nat.eqb b' b then s else w_get w b'.
Proof. reflexivity. Qed.

Lemma Rel_seteq c w S1 S2 : Rel c w S1 -> NoDup S2 -> qseteq S1 S2 -> Rel c w S2.
Proof.
  intros (H1 & H2 & H3 & H4) Hn He. split; [auto|split; [auto|split; auto]].
  intros b k t. rewrite H4. apply bool_iff. rewrite !q_mem_In. apply He.
Qed.

Lemma quad_eqb_pair t k t0 k0 : quad_eqb (t, k) (t0, k0) = triple_eqb t t0 && N.eqb k k0.
Proof. reflexivity. Qed.

Lemma Rel_add c w S b k0 t0 :
  Rel c w S -> Rel c (w_set w b (st_add (w_get w b) k0 t0)) (q_add (t0, key c b k0) S).
Proof.
  intros (H1 & H2 & H3 & H4). destruct (st_add_ok (w_get w b) k0 t0 (H2 b)) as (A1 & A2 & A3).
  split; [now apply q_add_NoDup|split; [|split]].
  - intros b'. rewrite w_get_set. destruct (Nat.eqb_spec b' b) as [->|]; auto.
  - intros b'. rewrite w_get_set. destruct (Nat.eqb_spec b' b) as [->|]; auto. now rewrite A2.
  - intros b' k t. rewrite w_get_set, q_mem_add, quad_eqb_pair, key_eq, <- H4.
    destruct (Nat.eqb_spec b' b) as [->|]; simpl.
    + rewrite A3. unfold same_ctx. rewrite H3. rewrite (andb_comm (triple_eqb t t0)). reflexivity.
    + now rewrite andb_false_r.
Qed.

Lemma Rel_remove c w S b k0 p :
  Rel c w S -> Rel c (w_set w b (st_remove (w_get w b) k0 p)) (q_remove p (Some (key c b k0)) S).
Proof.
  intros (H1 & H2 & H3 & H4). destruct (st_remove_ok (w_get w b) k0 p (H2 b)) as (A1 & A2 & A3).
  split; [now apply q_remove_NoDup|split; [|split]].
  - intros b'. rewrite w_get_set. destruct (Nat.eqb_spec b' b) as [->|]; auto.
  - intros b'. rewrite w_get_set. destruct (Nat.eqb_spec b' b) as [->|]; auto. now rewrite A2.
  - intros b' k t. rewrite w_get_set, q_mem_remove, <- H4. cbn [fst snd].
    rewrite N.eqb_sym, key_eq.
    destruct (Nat.eqb_spec b' b) as [->|]; simpl.
    + rewrite A3. unfold same_ctx. rewrite H3. rewrite (andb_comm (matches p t)). reflexivity.
    + now rewrite andb_false_r, andb_true_r.
Qed.

Lemma Rel_init c : Rel c (w_init c) [].
Proof.
  split; [constructor|split; [|split]].
  - intros [|[|b]]; unfold w_get, w_init, st_init; [destruct (c_simple0 c)|destruct (c_simple1 c)|]; simpl;
      try apply sm_inv_empty; apply MemInv_empty.
  - intros [|[|b]]; unfold w_get, w_init, st_init, store_simple; [destruct (c_simple0 c)|destruct (c_simple1 c)|]; reflexivity.
  - intros [|[|b]] k [[x y] z]; unfold w_get, w_init, st_init; [destruct (c_simple0 c)|destruct (c_simple1 c)|]; reflexivity.
Qed.

(* what a graph shows is an enumeration of its mathematical content *)
Lemma g_triples_enum c w S g p :
  Rel c w S ->
  enum_of (g_triples w g p) (filter (matches p) (sp_content S (scid c g))).
Proof.
  intros (H1 & H2 & H3 & H4). unfold g_triples.
  destruct (st_triples_exact (w_get w (h_store g)) (h_cid g) p (H2 _)) as [Hn Hin].
  split; auto. intros t. rewrite Hin, filter_In, sp_content_In, H4, q_mem_In, scid_key. tauto.
Qed.

Arguments g_triples_enum {c w S}.
Arguments sp_content_NoDup {S} k.

Lemma g_triples_all c w S g t :
  Rel c w S -> (In t (g_triples w g all_pat) <-> In t (sp_content S (scid c g))).
Proof.
  intros HR. destruct (g_triples_enum g all_pat HR) as [_ H]. rewrite (H t), filter_In, matches_all. tauto.
Qed.

Arguments g_triples_all {c w S}.

(* ---------- the operations of the Graph layer *)
Lemma Rel_g_add c w S g t : Rel c w S -> Rel c (g_add w g t) (q_add (t, scid c g) S).
Proof. intros H. rewrite scid_key. now apply Rel_add. Qed.

Lemma Rel_g_remove c w S g p : Rel c w S -> Rel c (g_remove w g p) (q_remove p (Some (scid c g)) S).
Proof. intros H. rewrite scid_key. now apply Rel_remove. Qed.

Lemma Rel_addN c g qs :
  (forall q, In q qs -> h_tok (snd q) = h_tok g -> h_cid (snd q) = h_cid g) ->
  forall w S, Rel c w S ->
  Rel c (g_addN w g qs)
      (sp_add_all (scid c g) (map fst (filter (fun q => N.eqb (h_tok (snd q)) (h_tok g)) qs)) S).
Proof.
  unfold g_addN. induction qs as [|q r IH]; simpl; intros Hq w S HR; auto.
  destruct (N.eqb_spec (h_tok (snd q)) (h_tok g)) as [E|E]; simpl.
  - apply IH; auto. rewrite (Hq q (or_introl eq_refl) E), scid_key. now apply Rel_add.
  - apply IH; auto.
Qed.

Lemma Rel_add_list c g l : forall w S,
  Rel c w S -> Rel c (fold_left (fun w t => g_add w g t) l w) (sp_add_all (scid c g) l S).
Proof. induction l as [|t r IH]; simpl; intros w S HR; auto. apply IH. now apply Rel_g_add. Qed.

Lemma Rel_remove_list c g l : forall w S,
  Rel c w S -> Rel c (fold_left (fun w t => g_remove w g (pat_of t)) l w) (sp_remove_all (scid c g) l S).
Proof. induction l as [|t r IH]; simpl; intros w S HR; auto. apply IH. now apply Rel_g_remove. Qed.

Lemma Rel_NoDup c w S : Rel c w S -> NoDup S.
Proof. intros H. apply H. Qed.

Arguments Rel_NoDup {c w S}.

Lemma Rel_iadd c w S g h : Rel c w S -> Rel c (g_iadd w g h) (sp_add_all (scid c g) (sp_content S (scid c h)) S).
Proof.
  intros HR. unfold g_iadd.
  eapply Rel_seteq; [apply Rel_add_list, HR| |].
  - apply sp_add_all_ok, (Rel_NoDup HR).
  - intros x. destruct (sp_add_all_ok (scid c g) (g_triples w h all_pat) S (Rel_NoDup HR)) as [_ ->].
    destruct (sp_add_all_ok (scid c g) (sp_content S (scid c h)) S (Rel_NoDup HR)) as [_ ->].
    now rewrite (g_triples_all h (fst x) HR).
Qed.

Lemma Rel_isub_fold c w S g h :
  Rel c w S ->
  Rel c (fold_left (fun w t => g_remove w g (pat_of t)) (g_triples w h all_pat) w)
      (sp_remove_all (scid c g) (sp_content S (scid c h)) S).
Proof.
  intros HR.
  eapply Rel_seteq; [apply Rel_remove_list, HR| |].
  - apply sp_remove_all_ok, (Rel_NoDup HR).
  - intros x. destruct (sp_remove_all_ok (scid c g) (g_triples w h all_pat) S (Rel_NoDup HR)) as [_ ->].
    destruct (sp_remove_all_ok (scid c g) (sp_content S (scid c h)) S (Rel_NoDup HR)) as [_ ->].
    now rewrite (g_triples_all h (fst x) HR).
Qed.

(* ---------- observations *)
Lemma tenum l s : enum_ofb teq l s = true <-> enum_of l s.
Proof. apply enum_ofb_spec, Ts. Qed.

Lemma enum_len {A} (l E : list A) : enum_of l E -> NoDup E -> length l = length E.
Proof.
  intros [Hn He] HE. apply Nat.le_antisymm; apply NoDup_incl_length; auto; intros x Hx; now apply He.
Qed.

Lemma all2_map {A B} (f : A -> B -> bool) (g : A -> B) l :
  all2 f l (map g l) = forallb (fun x => f x (g x)) l.
Proof. induction l as [|x r IH]; simpl; auto. now rewrite IH. Qed.

Lemma is_nil_seteq {A} (l1 l2 : list A) : (forall t, In t l1 <-> In t l2) -> is_nil l1 = is_nil l2.
Proof.
  destruct l1 as [|a r], l2 as [|b s]; simpl; auto; intros H.
  - exfalso. apply (H b). auto.
  - exfalso. apply (H a). auto.
Qed.

Lemma observe_ok c w S probe g :
  Rel c w S -> hobs_ok (sp_content S (scid c g)) probe (observe w probe g) = true.
Proof.
  intros HR. unfold observe, hobs_ok.
  pose proof (sp_content_NoDup (scid c g) (Rel_NoDup HR)) as HE.
  assert (Hall : enum_of (g_triples w g all_pat) (sp_content S (scid c g))).
  { destruct (g_triples_enum g all_pat HR) as [Hn He]. split; auto. intros t.
    rewrite (He t), filter_In, matches_all. tauto. }
  rewrite !andb_true_iff. split; [split; [split|]|].
  - now apply tenum.
  - apply N.eqb_eq. unfold g_len. rewrite st_len_ok. f_equal. now apply enum_len.
  - rewrite all2_map. apply forallb_forall. intros p _. apply tenum. now apply g_triples_enum.
  - rewrite all2_map. apply forallb_forall. intros p _. unfold g_contains.
    destruct (g_triples_enum g p HR) as [_ He]. rewrite (is_nil_seteq _ _ He). apply Bool.eqb_reflx.
Qed.

(* ---------- binary operators: a new graph on a new default store *)
Lemma holds_empty c t : mem_holds mem_empty c t = false.
Proof. destruct t as [[x y] z]. reflexivity. Qed.

Lemma fresh_add_all l : forall m,
  MemInv m ->
  MemInv (fresh_add m l) /\
  forall c t, mem_holds (fresh_add m l) c t = mem_holds m c t || (N.eqb c fresh_cid && memb teq t l).
Proof.
  unfold fresh_add. induction l as [|t0 r IH]; simpl; intros m Hi.
  - split; auto. intros c t. now rewrite andb_false_r, orb_false_r.
  - destruct (mem_add_ok m fresh_cid t0 Hi) as [H1 H2]. destruct (IH _ H1) as [H3 H4]. split; auto.
    intros c t. rewrite H4, H2. unfold teq.
    destruct (N.eqb c fresh_cid), (triple_eqb t t0), (mem_holds m c t); reflexivity.
Qed.

Lemma fresh_add_ok l : forall m,
  MemInv m ->
  MemInv (fresh_add m l) /\
  forall t, mem_holds (fresh_add m l) fresh_cid t = mem_holds m fresh_cid t || memb teq t l.
Proof.
  intros m Hi. destruct (fresh_add_all l m Hi) as [H1 H2]. split; auto. intros t. now rewrite H2, N.eqb_refl.
Qed.

Lemma fresh_two l1 l2 :
  NoDup (fresh_content (fresh_add (fresh_add mem_empty l1) l2)) /\
  forall t, In t (fresh_content (fresh_add (fresh_add mem_empty l1) l2)) <-> In t l1 \/ In t l2.
Proof.
  destruct (fresh_add_ok l1 mem_empty MemInv_empty) as [H1 H2].
  destruct (fresh_add_ok l2 _ H1) as [H3 H4].
  destruct (mem_triples_exact _ fresh_cid all_pat H3) as [Hn Hin]. split; auto.
  intros t. unfold fresh_content. rewrite Hin, matches_all, H4, H2, holds_empty. simpl.
  rewrite orb_true_iff. unfold teq. rewrite !tmemb_In. tauto.
Qed.

Lemma fresh_one l :
  NoDup (fresh_content (fresh_add mem_empty l)) /\
  forall t, In t (fresh_content (fresh_add mem_empty l)) <-> In t l.
Proof.
  destruct (fresh_two l []) as [H1 H2]. simpl in *. split; auto. intros t. rewrite H2. simpl. tauto.
Qed.

Lemma g_contains_spec c w S g x :
  Rel c w S -> (g_contains w g (pat_of x) = true <-> In x (sp_content S (scid c g))).
Proof.
  intros HR. unfold g_contains. destruct (g_triples_enum g (pat_of x) HR) as [_ He].
  rewrite (is_nil_seteq _ _ He), negb_true_iff. split.
  - intros H. destruct (filter (matches (pat_of x)) (sp_content S (scid c g))) as [|y r] eqn:E; [discriminate|].
    assert (Hy : In y (filter (matches (pat_of x)) (sp_content S (scid c g)))) by (rewrite E; simpl; auto).
    apply filter_In in Hy. destruct Hy as [Hy1 Hy2]. apply matches_pat_of in Hy2. now subst.
  - intros H. assert (Hx : In x (filter (matches (pat_of x)) (sp_content S (scid c g)))).
    { apply filter_In. split; auto. now apply matches_pat_of. }
    destruct (filter (matches (pat_of x)) (sp_content S (scid c g))); [destruct Hx|reflexivity].
Qed.

Arguments g_contains_spec {c w S}.

Lemma tsdiff_In x l1 l2 : In x (sdiff teq l1 l2) <-> In x l1 /\ ~ In x l2.
Proof. apply sdiff_In, Ts. Qed.
Lemma tsunion_In x l1 l2 : In x (sunion teq l1 l2) <-> In x l1 \/ In x l2.
Proof. apply sunion_In, Ts. Qed.
Lemma tsinter_In x l1 l2 : In x (sinter teq l1 l2) <-> In x l1 /\ In x l2.
Proof. apply sinter_In, Ts. Qed.

Lemma g_bin_ok c w S b g h :
  Rel c w S ->
  enum_of (g_bin b w g h) (spec_bin b (sp_content S (scid c g)) (sp_content S (scid c h))).
Proof.
  intros HR.
  pose proof (fun t => g_triples_all g t HR) as Hg. pose proof (fun t => g_triples_all h t HR) as Hh.
  assert (Hsub : forall a b' t,
            In t (filter (fun x => negb (g_contains w b' (pat_of x))) (g_triples w a all_pat)) <->
            In t (sdiff teq (sp_content S (scid c a)) (sp_content S (scid c b')))).
  { intros a b' t. rewrite filter_In, tsdiff_In, negb_true_iff, (g_triples_all a t HR).
    rewrite <- (g_contains_spec b' t HR). destruct (g_contains w b' (pat_of t)); intuition congruence. }
  unfold g_bin, g_bin_mem, spec_bin. destruct b.
  - destruct (fresh_two (g_triples w g all_pat) (g_triples w h all_pat)) as [Hn Hin]. split; auto.
    intros t. rewrite Hin, tsunion_In, (Hg t), (Hh t). tauto.
  - destruct (fresh_one (filter (fun x => negb (g_contains w h (pat_of x))) (g_triples w g all_pat))) as [Hn Hin].
    split; auto. intros t. rewrite Hin. apply Hsub.
  - destruct (fresh_one (filter (fun x => g_contains w g (pat_of x)) (g_triples w h all_pat))) as [Hn Hin].
    split; auto. intros t. rewrite Hin, filter_In, tsinter_In, (Hh t), (g_contains_spec g t HR). tauto.
  - match goal with |- enum_of (fresh_content (fresh_add (fresh_add mem_empty ?l1) ?l2)) _ =>
      destruct (fresh_two l1 l2) as [Hn Hin] end.
    split; auto. intros t. rewrite Hin, tsunion_In.
    destruct (fresh_one (filter (fun x => negb (g_contains w h (pat_of x))) (g_triples w g all_pat))) as [_ ->].
    destruct (fresh_one (filter (fun x => negb (g_contains w g (pat_of x))) (g_triples w h all_pat))) as [_ ->].
    rewrite !Hsub. tauto.
Qed.

(* ---------- the result of a binary operator is a new graph in a new store *)
Definition Fresh (w : world) (nx : nat) : Prop := forall b, nx <= b -> w_get w b = SMem mem_empty.

Lemma Fresh_init c : Fresh (w_init c) 2.
Proof. intros [|[|b]] Hb; try lia. reflexivity. Qed.

Lemma fresh_add_inv l m : MemInv m -> MemInv (fresh_add m l).
Proof. intros H. apply fresh_add_all, H. Qed.

Lemma fresh_add_other l m k t : MemInv m -> k <> fresh_cid -> mem_holds (fresh_add m l) k t = mem_holds m k t.
Proof.
  intros Hi Hk. rewrite (proj2 (fresh_add_all l m Hi)). apply N.eqb_neq in Hk. rewrite Hk. apply orb_false_r.
Qed.

Lemma g_bin_mem_inv b w g h : MemInv (g_bin_mem b w g h).
Proof. unfold g_bin_mem. destruct b; repeat apply fresh_add_inv; apply MemInv_empty. Qed.

Lemma g_bin_mem_other b w g h k t : k <> fresh_cid -> mem_holds (g_bin_mem b w g h) k t = false.
Proof.
  intros Hk. unfold g_bin_mem.
  destruct b; repeat (rewrite fresh_add_other; [|repeat apply fresh_add_inv; apply MemInv_empty|exact Hk]);
    apply holds_empty.
Qed.

Lemma store_simple_new c nx : 2 <= nx -> store_simple c nx = false.
Proof. destruct nx as [|[|n]]; try lia. reflexivity. Qed.

Lemma Rel_bin c w S nx b g h :
  Rel c w S -> 2 <= nx -> Fresh w nx ->
  Rel c (w_set w nx (SMem (g_bin_mem b w g h)))
      (sp_add_all (scid c (nx, fresh_cid, 0%N)) (spec_bin b (sp_content S (scid c g)) (sp_content S (scid c h))) S).
Proof.
  intros HR Hnx HF. pose proof HR as (H1 & H2 & H3 & H4).
  pose proof (g_bin_ok c w S b g h HR) as [Hn He].
  destruct (sp_add_all_ok (scid c (nx, fresh_cid, 0%N))
              (spec_bin b (sp_content S (scid c g)) (sp_content S (scid c h))) S H1) as [A1 A2].
  pose proof (store_simple_new c nx Hnx) as Hs.
  split; [exact A1|split; [|split]].
  - intros b'. rewrite w_get_set. destruct (Nat.eqb_spec b' nx) as [->|]; auto. apply g_bin_mem_inv.
  - intros b'. rewrite w_get_set. destruct (Nat.eqb_spec b' nx) as [->|]; auto.
  - intros b' k t. rewrite w_get_set. apply bool_iff. rewrite q_mem_In, A2. cbn [fst snd].
    change (scid c (nx, fresh_cid, 0%N)) with (key c nx fresh_cid).
    rewrite <- (N.eqb_eq (key c b' k)), key_eq, Hs. cbn [orb].
    destruct (Nat.eqb_spec b' nx) as [->|Hne]; cbn [andb st_holds].
    + assert (Hold : q_mem (t, key c nx k) S = false).
      { rewrite <- H4, (HF nx (le_n _)). apply holds_empty. }
      rewrite <- q_mem_In, Hold. destruct (N.eqb_spec k fresh_cid) as [->|Hk].
      * destruct (mem_triples_exact _ fresh_cid all_pat (g_bin_mem_inv b w g h)) as [_ Hin].
        rewrite <- (He t). unfold g_bin, fresh_content. rewrite Hin, matches_all. intuition congruence.
      * rewrite (g_bin_mem_other b w g h k t Hk). intuition congruence.
    + rewrite H4, q_mem_In. intuition congruence.
Qed.

(* operations change the store of their graph only *)
Lemma g_add_other w g t b : b <> h_store g -> w_get (g_add w g t) b = w_get w b.
Proof. intros H. unfold g_add. rewrite w_get_set. now destruct (Nat.eqb_spec b (h_store g)). Qed.
Lemma g_remove_other w g p b : b <> h_store g -> w_get (g_remove w g p) b = w_get w b.
Proof. intros H. unfold g_remove. rewrite w_get_set. now destruct (Nat.eqb_spec b (h_store g)). Qed.
Lemma fold_add_other g b l : forall w, b <> h_store g -> w_get (fold_left (fun w t => g_add w g t) l w) b = w_get w b.
Proof. induction l as [|t r IH]; simpl; intros w H; auto. rewrite IH by auto. now apply g_add_other. Qed.
Lemma fold_remove_other g b l : forall w,
  b <> h_store g -> w_get (fold_left (fun w t => g_remove w g (pat_of t)) l w) b = w_get w b.
Proof. induction l as [|t r IH]; simpl; intros w H; auto. rewrite IH by auto. now apply g_remove_other. Qed.
Lemma g_addN_other g b qs : forall w, b <> h_store g -> w_get (g_addN w g qs) b = w_get w b.
Proof.
  unfold g_addN. induction qs as [|q r IH]; simpl; intros w H; auto. rewrite IH by auto.
  destruct (N.eqb (h_tok (snd q)) (h_tok g)); auto. rewrite w_get_set. now destruct (Nat.eqb_spec b (h_store g)).
Qed.

(* ---------- one step, then whole histories *)
Definition tok_ok (c : case) : Prop :=
  forall g h, In g (case_handles c) -> In h (case_handles c) -> h_tok g = h_tok h -> h_cid g = h_cid h.

Lemma wfb_tok_ok c : wfb c = true -> tok_ok c.
Proof.
  unfold wfb. intros H. apply andb_true_iff in H. destruct H as [H _]. intros g h Hg Hh E.
  rewrite forallb_forall in H. specialize (H g Hg).
  rewrite forallb_forall in H. specialize (H h Hh). apply N.eqb_eq in E. rewrite E in H. simpl in H.
  now apply N.eqb_eq.
Qed.

Lemma Rel_isub c w S g h :
  Rel c w S -> Rel c (g_isub w g h) (sp_remove_all (scid c g) (sp_content S (scid c h)) S).
Proof. apply Rel_isub_fold. Qed.

Definition in_scope (nx : nat) (o : gop) : Prop := forall g, In g (op_handles o) -> h_store g < nx.

Lemma g_step_ok c w nx S o :
  tok_ok c -> incl (op_handles o) (case_handles c) -> Rel c w S ->
  2 <= nx -> Fresh w nx -> in_scope nx o ->
  Rel c (fst (fst (g_step w nx o))) (spec_step c nx S o) /\ snd (fst (g_step w nx o)) = false /\
  Fresh (fst (fst (g_step w nx o))) (nx_next o nx) /\
  match o with
  | GBin b g h => enum_of (snd (g_step w nx o)) (spec_bin b (sp_content S (scid c g)) (sp_content S (scid c h)))
  | _ => snd (g_step w nx o) = []
  end.
Proof.
  intros Htok Hinc HR Hnx HF Hsc.
  assert (Hg : forall g, In g (op_handles o) -> forall b, nx <= b -> b <> h_store g).
  { intros g Hin b Hb. specialize (Hsc g Hin). lia. }
  destruct o as [g t|g qs|g p|g t|g h|g h|b g h]; cbn [g_step fst snd spec_step nx_next].
  - split; [now apply Rel_g_add|split; [auto|split; [|auto]]].
    intros b Hb. rewrite g_add_other; auto. apply (Hg g); simpl; auto.
  - split; [|split; [auto|split; [|auto]]].
    + apply Rel_addN; auto. intros q Hq E. apply Htok; auto; apply Hinc; simpl; auto. right. now apply in_map.
    + intros b Hb. rewrite g_addN_other; auto. apply (Hg g); simpl; auto.
  - split; [now apply Rel_g_remove|split; [auto|split; [|auto]]].
    intros b Hb. rewrite g_remove_other; auto. apply (Hg g); simpl; auto.
  - split; [|split; [auto|split; [|auto]]].
    + unfold g_set. now apply Rel_g_add, Rel_g_remove.
    + intros b Hb. unfold g_set. rewrite g_add_other, g_remove_other; auto; apply (Hg g); simpl; auto.
  - split; [now apply Rel_iadd|split; [auto|split; [|auto]]].
    intros b Hb. unfold g_iadd. rewrite fold_add_other; auto. apply (Hg g); simpl; auto.
  - split; [now apply Rel_isub|split; [auto|split; [|auto]]].
    intros b Hb. unfold g_isub. rewrite fold_remove_other; auto. apply (Hg g); simpl; auto.
  - split; [now apply Rel_bin|split; [auto|split]].
    + intros b' Hb. rewrite w_get_set. destruct (Nat.eqb_spec b' nx); [lia|]. apply HF. lia.
    + now apply g_bin_ok.
Qed.

Lemma scopedb_cons nx o pr r :
  scopedb nx ((o, pr) :: r) = true -> in_scope nx o /\ scopedb (nx_next o nx) r = true.
Proof.
  cbn [scopedb]. intros H. apply andb_true_iff in H. destruct H as [H1 H2]. split; auto.
  intros g Hg. rewrite forallb_forall in H1. specialize (H1 g Hg). now apply Nat.ltb_lt.
Qed.

Lemma nx_next_ge o nx : 2 <= nx -> 2 <= nx_next o nx.
Proof. destruct o; simpl; lia. Qed.

Theorem spec_run_model c : tok_ok c -> forall ops w nx S,
  incl (flat_map (fun ot => op_handles (fst ot)) ops) (case_handles c) ->
  Rel c w S -> 2 <= nx -> Fresh w nx -> scopedb nx ops = true ->
  spec_run c nx S ops (g_run (c_handles c) w nx ops) = true.
Proof.
  intros Htok. induction ops as [|[o probe] r IH]; intros w nx S Hinc HR Hnx HF Hsc; [reflexivity|].
  cbn [flat_map fst] in Hinc. apply incl_app_inv in Hinc. destruct Hinc as [Hi1 Hi2].
  apply scopedb_cons in Hsc. destruct Hsc as [Hs1 Hs2].
  destruct (g_step_ok c w nx S o Htok Hi1 HR Hnx HF Hs1) as (R1 & R2 & RF & R3).
  cbn [g_run]. destruct (g_step w nx o) as [[w' raised] res] eqn:E. cbn [fst snd] in R1, R2, RF, R3.
  cbn [spec_run]. apply andb_true_iff. split; [|apply IH; auto; now apply nx_next_ge].
  unfold sobs_ok. rewrite !andb_true_iff. split; [split|].
  - now rewrite R2.
  - destruct o; try (now rewrite R3). now apply tenum.
  - rewrite all2_map. apply forallb_forall. intros g _. now apply observe_ok.
Qed.

(* the checker that judges the implementation accepts the model on every well-formed case *)
Theorem spec_ok_model c : wfb c = true -> spec_ok c (model_obs c) = true.
Proof.
  intros Hwf. unfold spec_ok, model_obs. apply spec_run_model; auto.
  - now apply wfb_tok_ok.
  - unfold case_handles. apply incl_appr, incl_refl.
  - apply Rel_init.
  - apply Fresh_init.
  - unfold wfb in Hwf. apply andb_true_iff in Hwf. tauto.
Qed.

(* ---------- the property as a statement about whole histories *)

Theorem history_refines c : tok_ok c -> forall ops w nx S,
  incl (flat_map (fun ot => op_handles (fst ot)) ops) (case_handles c) ->
  Rel c w S -> 2 <= nx -> Fresh w nx -> scopedb nx ops = true ->
  Rel c (w_run w nx ops) (s_run c nx S ops).
Proof.
  intros Htok. induction ops as [|[o probe] r IH]; intros w nx S Hinc HR Hnx HF Hsc; [exact HR|].
  cbn [flat_map fst] in Hinc. apply incl_app_inv in Hinc. destruct Hinc as [Hi1 Hi2].
  apply scopedb_cons in Hsc. destruct Hsc as [Hs1 Hs2].
  destruct (g_step_ok c w nx S o Htok Hi1 HR Hnx HF Hs1) as (R1 & _ & RF & _). cbn [w_run s_run].
  apply IH; auto. now apply nx_next_ge.
Qed.

(* after any history every graph of every store - the results of the binary
   operators included - is exactly the set the mathematical history prescribes,
   under every pattern *)
Theorem history_exact c ops :
  wfb c = true -> c_ops c = ops ->
  forall g p,
    enum_of (g_triples (w_run (w_init c) 2 ops) g p)
            (filter (matches p) (sp_content (s_run c 2 [] ops) (scid c g))).
Proof.
  intros Hwf <- g p. apply g_triples_enum.
  apply history_refines; auto.
  - now apply wfb_tok_ok.
  - unfold case_handles. apply incl_appr, incl_refl.
  - apply Rel_init.
  - apply Fresh_init.
  - unfold wfb in Hwf. apply andb_true_iff in Hwf. tauto.
Qed.

(* ---------- what the boolean checker says, in Prop *)
Lemma all2_Forall2 {A B} (f : A -> B -> bool) l m :
  all2 f l m = true <-> Forall2 (fun x y => f x y = true) l m.
Proof.
  revert m. induction l as [|x r IH]; intros [|y s]; simpl; split; intros H;
    try discriminate; try constructor; try (inversion H; fail).
  - apply andb_true_iff in H. tauto.
  - apply IH. apply andb_true_iff in H. tauto.
  - inversion H; subst. apply andb_true_iff. split; auto. now apply IH.
Qed.

Lemma Forall2_impl {A B} (P Q : A -> B -> Prop) l m :
  (forall x y, P x y -> Q x y) -> Forall2 P l m -> Forall2 Q l m.
Proof. intros H F. induction F; constructor; auto. Qed.

Lemma hobs_ok_reading E probe it ln ps cs :
  hobs_ok E probe (it, ln, ps, cs) = true ->
  enum_of it E /\ ln = N.of_nat (length E)
  /\ Forall2 (fun p l => enum_of l (filter (matches p) E)) (masks probe) ps
  /\ Forall2 (fun p b => b = true <-> exists t, In t E /\ matches p t = true) (masks probe) cs.
Proof.
  unfold hobs_ok. rewrite !andb_true_iff. intros [[[H1 H2] H3] H4].
  split; [now apply tenum|split; [now apply N.eqb_eq|split]].
  - apply all2_Forall2 in H3. eapply Forall2_impl; [|exact H3]. intros p l. apply tenum.
  - apply all2_Forall2 in H4. eapply Forall2_impl; [|exact H4]. intros p b Hb. cbv beta in Hb.
    apply Bool.eqb_prop in Hb. subst b. rewrite negb_true_iff. split.
    + intros Hn. destruct (filter (matches p) E) as [|t r] eqn:Ef; [discriminate|].
      exists t. apply filter_In. rewrite Ef. simpl; auto.
    + intros (t & Ht1 & Ht2). assert (Hin : In t (filter (matches p) E)) by (apply filter_In; auto).
      destruct (filter (matches p) E); [destruct Hin|reflexivity].
Qed.

Lemma sobs_ok_reading c S S' o probe raised res hs :
  sobs_ok c S S' o probe (raised, res, hs) = true ->
  raised = false
  /\ match o with
     | GBin b g h => enum_of res (spec_bin b (sp_content S (scid c g)) (sp_content S (scid c h)))
     | _ => res = []
     end
  /\ Forall2 (fun g ho => hobs_ok (sp_content S' (scid c g)) probe ho = true) (c_handles c) hs.
Proof.
  unfold sobs_ok. rewrite !andb_true_iff. intros [[H1 H2] H3].
  split; [now apply negb_true_iff|split; [|now apply all2_Forall2]].
  destruct o; try (destruct res; [reflexivity|discriminate]). now apply tenum.
Qed.

Lemma spec_bin_reading o a b t :
  In t (spec_bin o a b) <->
  match o with
  | OAdd => In t a \/ In t b
  | OSub => In t a /\ ~ In t b
  | OMul => In t a /\ In t b
  | OXor => (In t a /\ ~ In t b) \/ (In t b /\ ~ In t a)
  end.
Proof.
  destruct o; simpl.
  - apply tsunion_In.
  - apply tsdiff_In.
  - apply tsinter_In.
  - now rewrite tsunion_In, !tsdiff_In.
Qed.

(* the corpus witness of the former finding F10b: `g -= g` on a SimpleMemory store *)
Definition f10b_witness : case :=
  {| c_simple0 := true; c_simple1 := true; c_handles := [(0%nat, 1%N, 1%N)];
     c_ops := [(GAdd (0%nat, 1%N, 1%N) (1, 3, 5)%N, (1, 3, 5)%N);
               (GAdd (0%nat, 1%N, 1%N) (2, 3, 5)%N, (1, 3, 5)%N);
               (GISub (0%nat, 1%N, 1%N) (0%nat, 1%N, 1%N), (1, 3, 5)%N)] |}.

(* historical behaviour (before the repair): the step after the first removal raised
   and one triple only was removed; the repaired model empties the graph *)
Lemma hist_simple_isub_alias_refuted :
  let g := (0%nat, 1%N, 1%N) in
  let w := g_add (g_add (w_init f10b_witness) g (1, 3, 5)%N) g (2, 3, 5)%N in
  snd (g_isub_hist w g g) = true /\ g_triples (fst (g_isub_hist w g g)) g all_pat = [(2, 3, 5)%N]
  /\ g_triples (g_isub w g g) g all_pat = [].
Proof. vm_compute. auto. Qed.
