(* Facts about PyDict and the three-level index, proved once and instantiated
   for spo / pos / osp by permuting the arguments. *)
From RV Require Import Store.Model.
Set Implicit Arguments.

(* ---------- lists *)
Lemma NoDup_app_intro {A} (l1 l2 : list A) :
  NoDup l1 -> NoDup l2 -> (forall x, In x l1 -> In x l2 -> False) -> NoDup (l1 ++ l2).
Proof.
  induction l1 as [|x r IH]; simpl; intros H1 H2 Hd; auto.
  inversion H1; subst. constructor.
  - rewrite in_app_iff. intros [H|H]; [tauto|]. eapply Hd; eauto.
  - apply IH; auto. intros y Hy. apply Hd. auto.
Qed.

Lemma NoDup_map_inj {A B} (f : A -> B) l :
  (forall x y, In x l -> In y l -> f x = f y -> x = y) -> NoDup l -> NoDup (map f l).
Proof.
  induction l as [|x r IH]; simpl; intros Hi Hn; [constructor|].
  inversion Hn; subst. constructor.
  - rewrite in_map_iff. intros (y & Hy & Hin). assert (y = x) by (apply Hi; auto). subst. tauto.
  - apply IH; auto.
Qed.

Lemma NoDup_flat_map_tag {A B T} (tag : A -> T) (tagB : B -> T) (f : A -> list B) l :
  NoDup (map tag l) -> (forall x, In x l -> NoDup (f x)) ->
  (forall x y, In x l -> In y (f x) -> tagB y = tag x) -> NoDup (flat_map f l).
Proof.
  induction l as [|x r IH]; simpl; intros Hn Hf Ht; [constructor|].
  inversion Hn; subst. apply NoDup_app_intro.
  - apply Hf; auto.
  - apply IH; auto.
  - intros y Hy1 Hy2. apply in_flat_map in Hy2. destruct Hy2 as (x' & Hx' & Hy2).
    assert (E1 : tagB y = tag x) by (apply Ht; auto).
    assert (E2 : tagB y = tag x') by (apply Ht; auto).
    apply H1. rewrite <- E1, E2. now apply in_map.
Qed.

Lemma NoDup_map_fst_inv {A B} (l : list (A * B)) : NoDup (map fst l) -> NoDup l.
Proof.
  induction l as [|x r IH]; simpl; intros H; [constructor|]. inversion H; subst.
  constructor; auto. intros Hin. apply H2. now apply in_map.
Qed.

(* ---------- dicts *)
Section PDF.
  Variables (K V : Type) (keqb : K -> K -> bool).
  Hypothesis keqb_spec : forall x y, reflect (x = y) (keqb x y).
  Implicit Types (d : pydict K V) (k : K).

  Lemma pd_get_set k' k v d :
    pd_get keqb k' (pd_set keqb k v d) = if keqb k' k then Some v else pd_get keqb k' d.
  Proof.
    induction d as [|[k0 v0] r IH]; simpl.
    - destruct (keqb k' k); auto.
    - destruct (keqb_spec k k0) as [->|Hne]; simpl.
      + destruct (keqb k' k0); auto.
      + destruct (keqb_spec k' k0) as [->|Hne'].
        * destruct (keqb_spec k0 k); [congruence|auto].
        * apply IH.
  Qed.

  Lemma pd_get_del k' k d :
    pd_get keqb k' (pd_del keqb k d) = if keqb k' k then None else pd_get keqb k' d.
  Proof.
    induction d as [|[k0 v0] r IH]; simpl.
    - destruct (keqb k' k); auto.
    - destruct (keqb_spec k k0) as [->|Hne]; simpl.
      + rewrite IH. destruct (keqb_spec k' k0); auto.
      + rewrite IH. destruct (keqb_spec k' k0) as [->|Hne'].
        * destruct (keqb_spec k0 k); [congruence|auto].
        * auto.
  Qed.

  Lemma pd_mem_set k' k v d : pd_mem keqb k' (pd_set keqb k v d) = keqb k' k || pd_mem keqb k' d.
  Proof. unfold pd_mem. rewrite pd_get_set. destruct (keqb k' k); auto. Qed.

  Lemma pd_mem_del k' k d : pd_mem keqb k' (pd_del keqb k d) = negb (keqb k' k) && pd_mem keqb k' d.
  Proof. unfold pd_mem. rewrite pd_get_del. destruct (keqb k' k); auto. Qed.

  Lemma pd_keys_In k d : In k (pd_keys d) <-> pd_mem keqb k d = true.
  Proof.
    unfold pd_mem. induction d as [|[k0 v0] r IH]; simpl; [split; [tauto|discriminate]|].
    destruct (keqb_spec k k0) as [->|Hne].
    - split; auto.
    - rewrite IH. split; [intros [H|H]; [congruence|auto]|auto].
  Qed.

  Lemma pd_get_In k v d : pd_get keqb k d = Some v -> In (k, v) d.
  Proof.
    induction d as [|[k0 v0] r IH]; simpl; [discriminate|].
    destruct (keqb_spec k k0) as [->|Hne]; [intros [= ->]; auto|auto].
  Qed.

  Lemma pd_In_get k v d : NoDup (pd_keys d) -> In (k, v) d -> pd_get keqb k d = Some v.
  Proof.
    induction d as [|[k0 v0] r IH]; simpl; intros Hn Hin; [tauto|].
    inversion Hn; subst. destruct Hin as [[= -> ->]|Hin].
    - destruct (keqb_spec k k); congruence.
    - destruct (keqb_spec k k0) as [->|Hne]; [|auto].
      exfalso. apply H1. change k0 with (fst (k0, v)). now apply in_map.
  Qed.

  Lemma pd_keys_set k v d :
    pd_keys (pd_set keqb k v d) = if pd_mem keqb k d then pd_keys d else pd_keys d ++ [k].
  Proof.
    unfold pd_mem. induction d as [|[k0 v0] r IH]; simpl; auto.
    destruct (keqb_spec k k0) as [->|Hne]; simpl; auto.
    rewrite IH. destruct (pd_get keqb k r); auto.
  Qed.

  Lemma pd_set_NoDup k v d : NoDup (pd_keys d) -> NoDup (pd_keys (pd_set keqb k v d)).
  Proof.
    intros H. rewrite pd_keys_set. destruct (pd_mem keqb k d) eqn:E; auto.
    apply NoDup_app_single; auto. rewrite pd_keys_In. congruence.
  Qed.

  Lemma pd_keys_del k d : pd_keys (pd_del keqb k d) = filter (fun x => negb (keqb k x)) (pd_keys d).
  Proof.
    induction d as [|[k0 v0] r IH]; simpl; auto.
    destruct (keqb k k0); simpl; rewrite IH; auto.
  Qed.

  Lemma pd_del_NoDup k d : NoDup (pd_keys d) -> NoDup (pd_keys (pd_del keqb k d)).
  Proof. intros H. rewrite pd_keys_del. now apply filter_NoDup. Qed.
End PDF.
Arguments pd_get_set {K V keqb} keqb_spec.
Arguments pd_get_del {K V keqb} keqb_spec.
Arguments pd_mem_set {K V keqb} keqb_spec.
Arguments pd_mem_del {K V keqb} keqb_spec.
Arguments pd_keys_In {K V keqb} keqb_spec.
Arguments pd_get_In {K V keqb} keqb_spec.
Arguments pd_In_get {K V keqb} keqb_spec.
Arguments pd_keys_set {K V keqb} keqb_spec.
Arguments pd_set_NoDup {K V keqb} keqb_spec.

Lemma pd_getd_set {K W} (keqb : K -> K -> bool) (Hs : forall x y, reflect (x = y) (keqb x y))
      k' k (v : list W) d :
  pd_getd keqb k' (pd_set keqb k v d) = if keqb k' k then v else pd_getd keqb k' d.
Proof. unfold pd_getd. rewrite pd_get_set by auto. destruct (keqb k' k); auto. Qed.

Lemma pd_getd_del {K W} (keqb : K -> K -> bool) (Hs : forall x y, reflect (x = y) (keqb x y))
      k' k (d : pydict K (list W)) :
  pd_getd keqb k' (pd_del keqb k d) = if keqb k' k then [] else pd_getd keqb k' d.
Proof. unfold pd_getd. rewrite pd_get_del by auto. destruct (keqb k' k); auto. Qed.

(* ---------- the index *)
Definition wf1 (db : d1) : Prop := NoDup (pd_keys db).
Definition wf2 (da : d2) : Prop :=
  NoDup (pd_keys da) /\ forall b db, pd_get N.eqb b da = Some db -> wf1 db.
Definition wf3 (i : idx) : Prop :=
  NoDup (pd_keys i) /\ forall a da, pd_get N.eqb a i = Some da -> wf2 da.

Local Notation Ns := N.eqb_spec.

(* destruct the first dict lookup of the goal, whatever its implicit value type *)
Ltac dget E :=
  match goal with |- context [@pd_get ?K ?V ?e ?k ?d] => destruct (@pd_get K V e k d) eqn:E end.

Lemma wf2_nil : wf2 [].
Proof. split; [constructor|]. simpl. discriminate. Qed.
Lemma wf3_nil : wf3 [].
Proof. split; [constructor|]. simpl. discriminate. Qed.

Lemma wf2_getd a i : wf3 i -> wf2 (pd_getd N.eqb a i).
Proof.
  intros [_ H]. unfold pd_getd. dget E; [exact (H _ _ E)|apply wf2_nil].
Qed.

Lemma wf1_getd b da : wf2 da -> wf1 (pd_getd N.eqb b da).
Proof.
  intros [_ H]. unfold pd_getd. dget E; [exact (H _ _ E)|constructor].
Qed.

Lemma wf2_set b db da : wf2 da -> wf1 db -> wf2 (pd_set N.eqb b db da).
Proof.
  intros [H1 H2] Hdb. split; [now apply (pd_set_NoDup Ns)|].
  intros b' db'. rewrite (pd_get_set Ns). destruct (N.eqb b' b); [intros [= <-]; auto|eauto].
Qed.

Lemma wf3_set a da i : wf3 i -> wf2 da -> wf3 (pd_set N.eqb a da i).
Proof.
  intros [H1 H2] Hda. split; [now apply (pd_set_NoDup Ns)|].
  intros a' da'. rewrite (pd_get_set Ns). destruct (N.eqb a' a); [intros [= <-]; auto|eauto].
Qed.

Lemma idx_add_wf a b c i : wf3 i -> wf3 (idx_add a b c i).
Proof.
  intros H. unfold idx_add. apply wf3_set; auto. apply wf2_set; [now apply wf2_getd|].
  apply (pd_set_NoDup Ns). apply wf1_getd. now apply wf2_getd.
Qed.

Lemma idx_del_wf a b c i : wf3 i -> wf3 (idx_del a b c i).
Proof.
  intros H. unfold idx_del. destruct (pd_get N.eqb a i) as [da|] eqn:Ea; auto.
  destruct (pd_get N.eqb b da) as [db|] eqn:Eb; auto.
  assert (Hda : wf2 da) by (destruct H as [_ H]; eauto).
  apply wf3_set; auto. apply wf2_set; auto.
  apply pd_del_NoDup. destruct Hda as [_ Hda]. exact (Hda _ _ Eb).
Qed.

Lemma getd3_set k' k (v : d2) (i : idx) :
  pd_getd N.eqb k' (pd_set N.eqb k v i) = if N.eqb k' k then v else pd_getd N.eqb k' i.
Proof. apply (pd_getd_set _ Ns). Qed.
Lemma getd2_set k' k (v : d1) (da : d2) :
  pd_getd N.eqb k' (pd_set N.eqb k v da) = if N.eqb k' k then v else pd_getd N.eqb k' da.
Proof. apply (pd_getd_set _ Ns). Qed.

Lemma getd3_some a (i : idx) da : pd_get N.eqb a i = Some da -> pd_getd N.eqb a i = da.
Proof. intros H. exact (f_equal (fun o => match o with Some v => v | None => [] end) H). Qed.
Lemma getd3_none a (i : idx) : pd_get N.eqb a i = None -> pd_getd N.eqb a i = [].
Proof. intros H. exact (f_equal (fun o => match o with Some v => v | None => [] end) H). Qed.
Lemma getd2_some b (da : d2) db : pd_get N.eqb b da = Some db -> pd_getd N.eqb b da = db.
Proof. intros H. exact (f_equal (fun o => match o with Some v => v | None => [] end) H). Qed.
Lemma getd2_none b (da : d2) : pd_get N.eqb b da = None -> pd_getd N.eqb b da = [].
Proof. intros H. exact (f_equal (fun o => match o with Some v => v | None => [] end) H). Qed.

Definition k3_eqb (x y z a b c : N) : bool := N.eqb x a && N.eqb y b && N.eqb z c.

Lemma idx_has_add x y z a b c i :
  idx_has x y z (idx_add a b c i) = k3_eqb x y z a b c || idx_has x y z i.
Proof.
  unfold idx_has, idx_add, k3_eqb. cbv zeta. rewrite getd3_set.
  destruct (N.eqb_spec x a) as [->|Hx]; simpl; auto.
  rewrite getd2_set. destruct (N.eqb_spec y b) as [->|Hy]; simpl; auto.
  now rewrite (pd_mem_set Ns).
Qed.

Lemma idx_has_del x y z a b c i :
  idx_has x y z (idx_del a b c i) = idx_has x y z i && negb (k3_eqb x y z a b c).
Proof.
  unfold idx_del, k3_eqb.
  destruct (pd_get N.eqb a i) as [da|] eqn:Ea.
  - destruct (pd_get N.eqb b da) as [db|] eqn:Eb.
    + unfold idx_has. rewrite getd3_set.
      destruct (N.eqb_spec x a) as [->|Hx]; simpl; [|now rewrite andb_true_r].
      rewrite getd2_set. rewrite (getd3_some _ _ Ea).
      destruct (N.eqb_spec y b) as [->|Hy]; simpl; [|now rewrite andb_true_r].
      rewrite (getd2_some _ _ Eb). rewrite (pd_mem_del Ns). apply andb_comm.
    + destruct (N.eqb_spec x a) as [->|Hx]; simpl; [|now rewrite andb_true_r].
      destruct (N.eqb_spec y b) as [->|Hy]; simpl; [|now rewrite andb_true_r].
      unfold idx_has. rewrite (getd3_some _ _ Ea), (getd2_none _ _ Eb). reflexivity.
  - destruct (N.eqb_spec x a) as [->|Hx]; simpl; [|now rewrite andb_true_r].
    unfold idx_has. rewrite (getd3_none _ _ Ea). reflexivity.
Qed.

(* ---------- enumerations *)
Lemma idx_l3_In a b c i : In c (idx_l3 a b i) <-> idx_has a b c i = true.
Proof. unfold idx_l3, idx_has. apply pd_keys_In. exact Ns. Qed.

Lemma idx_l3_NoDup a b i : wf3 i -> NoDup (idx_l3 a b i).
Proof. intros H. apply wf1_getd, wf2_getd, H. Qed.

Lemma d2_pairs_In b c da :
  wf2 da -> (In (b, c) (d2_pairs da) <-> pd_mem N.eqb c (pd_getd N.eqb b da) = true).
Proof.
  intros [Hn Hw]. unfold d2_pairs. rewrite in_flat_map. split.
  - intros ([b' db] & Hin & H). simpl in H. apply in_map_iff in H. destruct H as (c' & [= <- <-] & Hc).
    apply (pd_In_get Ns) in Hin; auto. rewrite (getd2_some _ _ Hin). now apply (pd_keys_In Ns).
  - intros H. destruct (pd_get N.eqb b da) as [db|] eqn:E;
      [rewrite (getd2_some _ _ E) in H|rewrite (getd2_none _ _ E) in H; discriminate].
    exists (b, db). split; [now apply (pd_get_In Ns)|]. simpl. apply in_map. now apply (pd_keys_In Ns).
Qed.

Lemma d2_pairs_NoDup da : wf2 da -> NoDup (d2_pairs da).
Proof.
  intros [Hn Hw]. unfold d2_pairs.
  apply NoDup_flat_map_tag with (tag := fst) (tagB := fst); auto.
  - intros [b db] Hin. simpl. apply NoDup_map_inj; [intros x y _ _ [=]; auto|].
    apply (Hw b). apply (pd_In_get Ns); auto.
  - intros [b db] y _ Hy. simpl in *. apply in_map_iff in Hy. destruct Hy as (c & <- & _). reflexivity.
Qed.

Lemma idx_l2_In a b c i : wf3 i -> (In (b, c) (idx_l2 a i) <-> idx_has a b c i = true).
Proof. intros H. unfold idx_l2, idx_has. apply d2_pairs_In. now apply wf2_getd. Qed.

Lemma idx_l2_NoDup a i : wf3 i -> NoDup (idx_l2 a i).
Proof. intros H. apply d2_pairs_NoDup. now apply wf2_getd. Qed.

Lemma idx_l2c_In a b c i : wf3 i -> (In b (idx_l2c a c i) <-> idx_has a b c i = true).
Proof.
  intros H. pose proof (wf2_getd a H) as [Hn Hw]. unfold idx_l2c, idx_has.
  rewrite in_flat_map. split.
  - intros ([b' db] & Hin & Hb). simpl in Hb.
    destruct (pd_mem N.eqb c db) eqn:E; [|destruct Hb]. destruct Hb as [<-|[]].
    apply (pd_In_get Ns) in Hin; auto. now rewrite (getd2_some _ _ Hin).
  - intros Hm.
    destruct (pd_get N.eqb b (pd_getd N.eqb a i)) as [db|] eqn:E;
      [rewrite (getd2_some _ _ E) in Hm|rewrite (getd2_none _ _ E) in Hm; discriminate].
    exists (b, db). split; [now apply (pd_get_In Ns)|]. simpl. rewrite Hm. simpl. auto.
Qed.

Lemma idx_l2c_NoDup a c i : wf3 i -> NoDup (idx_l2c a c i).
Proof.
  intros H. pose proof (wf2_getd a H) as [Hn Hw]. unfold idx_l2c.
  apply NoDup_flat_map_tag with (tag := fst) (tagB := fun x => x); auto.
  - intros [b db] _. simpl. destruct (pd_mem N.eqb c db); repeat constructor. simpl; tauto.
  - intros [b db] y _ Hy. simpl in *. destruct (pd_mem N.eqb c db); [destruct Hy as [<-|[]]; auto|destruct Hy].
Qed.

Lemma idx_l1_In a b c i : wf3 i -> (In (a, b, c) (idx_l1 i) <-> idx_has a b c i = true).
Proof.
  intros [Hn Hw]. unfold idx_l1, idx_has. rewrite in_flat_map. split.
  - intros ([a' da] & Hin & H). simpl in H. apply in_map_iff in H.
    destruct H as ([b' c'] & [= <- <- <-] & Hbc).
    apply (pd_In_get Ns) in Hin; auto. rewrite (getd3_some _ _ Hin).
    apply d2_pairs_In; eauto.
  - intros H. destruct (pd_get N.eqb a i) as [da|] eqn:E;
      [rewrite (getd3_some _ _ E) in H|rewrite (getd3_none _ _ E) in H; discriminate].
    exists (a, da). split; [now apply (pd_get_In Ns)|]. simpl.
    apply in_map_iff. exists (b, c). split; auto. apply d2_pairs_In; eauto.
Qed.

Lemma idx_l1_NoDup i : wf3 i -> NoDup (idx_l1 i).
Proof.
  intros [Hn Hw]. unfold idx_l1.
  apply NoDup_flat_map_tag with (tag := fst) (tagB := fun x => fst (fst x)); auto.
  - intros [a da] Hin. simpl. apply NoDup_map_inj.
    + intros [x1 x2] [y1 y2] _ _ [=]. congruence.
    + apply d2_pairs_NoDup. apply (Hw a). apply (pd_In_get Ns); auto.
  - intros [a da] y _ Hy. simpl in *. apply in_map_iff in Hy. destruct Hy as (bc & <- & _). reflexivity.
Qed.

(* ---------- the three indexes of a store and the pattern dispatch *)
Definition coherent (spo pos osp : idx) : Prop :=
  wf3 spo /\ wf3 pos /\ wf3 osp /\
  forall s p o, idx_has p o s pos = idx_has s p o spo /\ idx_has o s p osp = idx_has s p o spo.

Definition leaf (spo : idx) (t : triple) : bool := let '(s, p, o) := t in idx_has s p o spo.

Lemma coherent_nil : coherent [] [] [].
Proof. split; [|split; [|split]]; try apply wf3_nil. intros s p o. split; reflexivity. Qed.

Lemma coherent_add spo pos osp s p o :
  coherent spo pos osp ->
  coherent (idx_add s p o spo) (idx_add p o s pos) (idx_add o s p osp).
Proof.
  intros (H1 & H2 & H3 & Hc). split; [|split; [|split]]; try now apply idx_add_wf.
  intros s0 p0 o0. rewrite !idx_has_add. destruct (Hc s0 p0 o0) as [-> ->]. unfold k3_eqb.
  split; f_equal; destruct (N.eqb p0 p), (N.eqb o0 o), (N.eqb s0 s); auto.
Qed.

Lemma coherent_del spo pos osp s p o :
  coherent spo pos osp ->
  coherent (idx_del s p o spo) (idx_del p o s pos) (idx_del o s p osp).
Proof.
  intros (H1 & H2 & H3 & Hc). split; [|split; [|split]]; try now apply idx_del_wf.
  intros s0 p0 o0. rewrite !idx_has_del. destruct (Hc s0 p0 o0) as [-> ->]. unfold k3_eqb.
  split; f_equal; destruct (N.eqb p0 p), (N.eqb o0 o), (N.eqb s0 s); auto.
Qed.

Lemma leaf_add spo s p o t :
  leaf (idx_add s p o spo) t = triple_eqb t (s, p, o) || leaf spo t.
Proof.
  destruct t as [[x y] z]. unfold leaf. rewrite idx_has_add. f_equal.
Qed.

Lemma leaf_del spo s p o t :
  leaf (idx_del s p o spo) t = leaf spo t && negb (triple_eqb t (s, p, o)).
Proof.
  destruct t as [[x y] z]. unfold leaf. rewrite idx_has_del. f_equal.
Qed.

(* Every one of the eight shapes enumerates, without repetition, exactly the
   stored triples that match the pattern. *)
Theorem idx_triples_exact spo pos osp pt :
  coherent spo pos osp ->
  NoDup (idx_triples spo pos osp pt) /\
  forall t, In t (idx_triples spo pos osp pt) <-> matches pt t = true /\ leaf spo t = true.
Proof.
  intros (H1 & H2 & H3 & Hc).
  destruct pt as [[[s|] [p|]] [o|]]; cbn [idx_triples].
  - (* s p o *)
    split.
    + destruct (idx_has s p o spo); repeat constructor. simpl; tauto.
    + intros [[x y] z]. simpl. rewrite !andb_true_iff, !N.eqb_eq.
      destruct (idx_has s p o spo) eqn:E; simpl.
      * split; [intros [[= <- <- <-]|[]]; auto|intros [[[-> ->] ->] _]; auto].
      * split; [tauto|intros [[[-> ->] ->] H]; congruence].
  - (* s p _ *)
    split.
    + apply NoDup_map_inj; [intros x y _ _ [=]; auto|now apply idx_l3_NoDup].
    + intros [[x y] z]. rewrite in_map_iff. simpl. rewrite !andb_true_iff, !N.eqb_eq. split.
      * intros (c & [= <- <- <-] & Hc'). apply idx_l3_In in Hc'. auto.
      * intros [[[-> ->] _] H]. exists z. split; auto. now apply idx_l3_In.
  - (* s _ o *)
    split.
    + apply NoDup_map_inj; [intros x y _ _ [=]; auto|now apply idx_l2c_NoDup].
    + intros [[x y] z]. rewrite in_map_iff. simpl. rewrite !andb_true_iff, !N.eqb_eq. split.
      * intros (b & [= <- <- <-] & Hb). apply idx_l2c_In in Hb; auto.
      * intros [[[-> _] ->] H]. exists y. split; auto. now apply idx_l2c_In.
  - (* s _ _ *)
    split.
    + apply NoDup_map_inj; [intros [x1 x2] [y1 y2] _ _ [=]; congruence|now apply idx_l2_NoDup].
    + intros [[x y] z]. rewrite in_map_iff. simpl. rewrite !andb_true_iff, !N.eqb_eq. split.
      * intros ([b c] & [= <- <- <-] & Hb). apply idx_l2_In in Hb; auto.
      * intros [[[-> _] _] H]. exists (y, z). split; auto. now apply idx_l2_In.
  - (* _ p o *)
    split.
    + apply NoDup_map_inj; [intros x y _ _ [=]; auto|now apply idx_l3_NoDup].
    + intros [[x y] z]. rewrite in_map_iff. simpl. rewrite !andb_true_iff, !N.eqb_eq. split.
      * intros (c & [= <- <- <-] & Hc'). apply idx_l3_In in Hc'. destruct (Hc c p o) as [E _]. rewrite <- E. auto.
      * intros [[-> ->] H]. exists x. split; auto. apply idx_l3_In. now destruct (Hc x y z) as [-> _].
  - (* _ p _ *)
    split.
    + apply NoDup_map_inj; [intros [x1 x2] [y1 y2] _ _ [=]; congruence|now apply idx_l2_NoDup].
    + intros [[x y] z]. rewrite in_map_iff. simpl. rewrite !andb_true_iff, !N.eqb_eq. split.
      * intros ([b c] & [= <- <- <-] & Hb). apply idx_l2_In in Hb; auto. simpl.
        destruct (Hc c p b) as [E _]. rewrite <- E. auto.
      * intros [[-> _] H]. exists (z, x). split; auto. apply idx_l2_In; auto. now destruct (Hc x y z) as [-> _].
  - (* _ _ o *)
    split.
    + apply NoDup_map_inj; [intros [x1 x2] [y1 y2] _ _ [=]; congruence|now apply idx_l2_NoDup].
    + intros [[x y] z]. rewrite in_map_iff. simpl. rewrite ?andb_true_iff, !N.eqb_eq. split.
      * intros ([b c] & [= <- <- <-] & Hb). apply idx_l2_In in Hb; auto. simpl.
        destruct (Hc b c o) as [_ E]. rewrite <- E. auto.
      * intros [-> H]. exists (x, y). split; auto. apply idx_l2_In; auto. now destruct (Hc x y z) as [_ ->].
  - (* _ _ _ *)
    split; [now apply idx_l1_NoDup|].
    intros [[x y] z]. rewrite idx_l1_In by auto. simpl. tauto.
Qed.
