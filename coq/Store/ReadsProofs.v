(* The derived read API is a function of the graph's set of triples. *)
From Coq Require Import Arith Permutation.
From RV Require Import Store.Model Store.IndexProofs Store.SimpleProofs Store.MemProofs Store.GraphProofs Store.Reads.

Local Notation Ts := triple_eqb_spec.

Lemma pair_eqbN_spec : forall a b, reflect (a = b) (pair_eqbN a b).
Proof. apply pair_eqb_spec; apply N.eqb_spec. Qed.

(* ---------- multisets *)
Lemma cnt_perm {A} (eqb : A -> A -> bool) x a b : Permutation a b -> cnt eqb x a = cnt eqb x b.
Proof. intros P. induction P; simpl; try lia. Qed.

Lemma ms_eqb_perm {A} (eqb : A -> A -> bool) a b : Permutation a b -> ms_eqb eqb a b = true.
Proof.
  intros P. unfold ms_eqb. rewrite (Permutation_length P), Nat.eqb_refl. simpl.
  apply forallb_forall. intros x _. rewrite (cnt_perm eqb x a b P). apply Nat.eqb_refl.
Qed.

(* what the multiset comparison says *)
Lemma ms_eqb_reading {A} (eqb : A -> A -> bool) a b :
  ms_eqb eqb a b = true -> length a = length b /\ forall x, In x a -> cnt eqb x a = cnt eqb x b.
Proof.
  unfold ms_eqb. intros H. apply andb_true_iff in H. destruct H as [H1 H2]. split; [now apply Nat.eqb_eq|].
  intros x Hx. rewrite forallb_forall in H2. now apply Nat.eqb_eq, H2.
Qed.

Lemma enum_perm {A} (l E : list A) : enum_of l E -> NoDup E -> Permutation l E.
Proof. intros [Hn He] HE. apply NoDup_Permutation; auto. Qed.

Lemma perm_flat_map {A B} (f g : A -> list B) l :
  (forall x, Permutation (f x) (g x)) -> Permutation (flat_map f l) (flat_map g l).
Proof. intros H. induction l as [|x r IH]; simpl; auto. now apply Permutation_app. Qed.

(* ---------- the triples of a graph, as a permutation of the selected part of its set *)
Lemma g_triples_perm c w S g p :
  Rel c w S -> Permutation (g_triples w g p) (sel (sp_content S (scid c g)) p).
Proof.
  intros HR. apply enum_perm; [now apply g_triples_enum|].
  apply filter_NoDup, sp_content_NoDup, (Rel_NoDup HR).
Qed.

Section Gen.
  Variables (A : Type) (eqb : A -> A -> bool).
  Hypothesis eqb_spec : forall x y, reflect (x = y) (eqb x y).

  Lemma gen_model (f : triple -> A) c w S g p u :
    Rel c w S ->
    gen_ok eqb f (sp_content S (scid c g)) p u (uniq eqb u (map f (g_triples w g p))) = true.
  Proof.
    intros HR. pose proof (Permutation_map f (g_triples_perm c w S g p HR)) as P.
    unfold gen_ok, uniq. destruct u; [|now apply ms_eqb_perm].
    apply (enum_ofb_spec eqb eqb_spec). split; [apply (dedup_NoDup eqb eqb_spec)|].
    intros x. rewrite !(dedup_In eqb eqb_spec). split; intros H.
    - eapply Permutation_in; eauto.
    - eapply Permutation_in; [apply Permutation_sym|]; eauto.
  Qed.
End Gen.

(* ---------- value *)
Lemma pick_ok any l vs : Permutation l vs -> value_ok vs any (v_pick any l) = true.
Proof.
  intros P. unfold value_ok, v_pick. destruct any.
  - destruct l as [|x r]; simpl.
    + apply Permutation_nil in P. now subst.
    + apply (memb_In N.eqb N.eqb_spec). eapply Permutation_in; eauto. simpl; auto.
  - destruct l as [|x [|y r]].
    + apply Permutation_nil in P. now subst.
    + apply Permutation_length_1_inv in P. subst. simpl. now rewrite N.eqb_refl.
    + pose proof (Permutation_length P) as HL. destruct vs as [|a [|b r']]; simpl in HL; try discriminate.
      reflexivity.
Qed.

Lemma value_model c w S g q any :
  Rel c w S -> value_ok_pat (sp_content S (scid c g)) q any (g_value w g q any) = true.
Proof.
  intros HR. unfold value_ok_pat, value_set, g_value.
  destruct q as [[[s|] [pr|]] [o|]]; try reflexivity; apply pick_ok;
    unfold g_objects, g_subjects, g_predicates, uniq; apply Permutation_map; now apply g_triples_perm.
Qed.

(* ---------- triples_choices *)
Lemma choices_model c w S g p sl L :
  Rel c w S ->
  ms_eqb triple_eqb (g_choices w g p sl L) (choices_set (sp_content S (scid c g)) p sl L) = true.
Proof.
  intros HR. apply ms_eqb_perm. unfold g_choices, choices_set. destruct L as [|x r].
  - now apply g_triples_perm.
  - apply perm_flat_map. intros y. now apply g_triples_perm.
Qed.

(* ---------- everything observed for one graph and one probe *)
Lemma r_observe_ok c w S g pr :
  Rel c w S -> robs1_ok (sp_content S (scid c g)) pr (r_observe w g pr) = true.
Proof.
  intros HR. destruct pr as [[[s p] o] L]. unfold robs1_ok, r_observe.
  cbn [masks2 masks1 both flat_map app fst snd value_pats choice_pats map all2].
  unfold g_subjects, g_predicates, g_objects, g_subject_predicates, g_subject_objects, g_predicate_objects.
  rewrite !(gen_model _ N.eqb N.eqb_spec) by exact HR.
  rewrite !(gen_model _ pair_eqbN pair_eqbN_spec) by exact HR.
  rewrite !value_model by exact HR.
  rewrite !choices_model by exact HR.
  reflexivity.
Qed.

(* THE TIE for the reads suite *)
Theorem rspec_ok_model c : rwfb c = true -> rspec_ok c (rmodel_obs c) = true.
Proof.
  intros Hwf. unfold rspec_ok, rmodel_obs, r_final. cbn [snd].
  assert (HR : Rel (r_c c) (w_run (w_init (r_c c)) 2 (c_ops (r_c c))) (s_run (r_c c) 2 [] (c_ops (r_c c)))).
  { unfold rwfb in Hwf. apply history_refines.
    - now apply wfb_tok_ok.
    - unfold case_handles. apply incl_appr, incl_refl.
    - apply Rel_init.
    - lia.
    - apply Fresh_init.
    - unfold wfb in Hwf. apply andb_true_iff in Hwf. tauto. }
  rewrite all2_map. apply forallb_forall. intros g _.
  rewrite all2_map. apply forallb_forall. intros pr _. now apply r_observe_ok.
Qed.

(* ---------- Prop-level statements *)
Section GenExact.
  Variables (A : Type) (eqb : A -> A -> bool).
  Hypothesis eqb_spec : forall x y, reflect (x = y) (eqb x y).

  (* unique=False: one projection per matching triple of the set (as a multiset);
     unique=True: every projection of a matching triple exactly once *)
  Lemma gen_exact (f : triple -> A) c w S g p :
    Rel c w S ->
    let E := sp_content S (scid c g) in
    Permutation (uniq eqb false (map f (g_triples w g p))) (map f (sel E p))
    /\ NoDup (uniq eqb true (map f (g_triples w g p)))
    /\ forall x, In x (uniq eqb true (map f (g_triples w g p))) <->
                 exists t, In t E /\ matches p t = true /\ f t = x.
  Proof.
    intros HR E. pose proof (Permutation_map f (g_triples_perm c w S g p HR)) as P. fold E in P.
    split; [exact P|split; [apply (dedup_NoDup eqb eqb_spec)|]].
    intros x. unfold uniq. rewrite (dedup_In eqb eqb_spec). split.
    - intros H. apply (Permutation_in _ P) in H. apply in_map_iff in H. destruct H as (t & <- & Ht).
      apply filter_In in Ht. exists t. tauto.
    - intros (t & H1 & H2 & <-). apply (Permutation_in _ (Permutation_sym P)). apply in_map.
      apply filter_In. auto.
  Qed.
End GenExact.

Lemma value_ok_reading vs any v :
  value_ok vs any v = true ->
  if any then (fst v = 0%N /\ vs = []) \/ (fst v = 1%N /\ In (snd v) vs)
  else match vs with
       | [] => fst v = 0%N
       | [y] => fst v = 1%N /\ snd v = y
       | _ => fst v = 2%N
       end.
Proof.
  unfold value_ok. destruct any.
  - destruct (fst v) as [|[p|p|]] eqn:E; try discriminate.
    + intros H. left. split; auto. destruct vs; [auto|discriminate].
    + intros H. right. split; auto. now apply (memb_In N.eqb N.eqb_spec).
  - destruct vs as [|y [|z r]]; intros H.
    + now apply N.eqb_eq.
    + apply andb_true_iff in H. destruct H as [H1 H2]. split; now apply N.eqb_eq.
    + now apply N.eqb_eq.
Qed.

Lemma choices_exact c w S g p sl L :
  Rel c w S -> Permutation (g_choices w g p sl L) (choices_set (sp_content S (scid c g)) p sl L).
Proof.
  intros HR. unfold g_choices, choices_set. destruct L as [|x r].
  - now apply g_triples_perm.
  - apply perm_flat_map. intros y. now apply g_triples_perm.
Qed.
