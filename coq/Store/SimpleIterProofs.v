(* `for t in graph` on a SimpleMemory store while the store is mutated. *)
From Coq Require Import Arith Lia.
From RV Require Import Store.Model Store.IndexProofs Store.SimpleProofs Store.Iter Store.SimpleIter.

Lemma next_p_spec spo s ps :
  si_rows spo s ps =
  match si_next_p spo s ps with
  | Some (p, r, o, os) => (s, p, o) :: map (fun o => (s, p, o)) os ++ si_rows spo s r
  | None => []
  end.
Proof.
  induction ps as [|p r IH]; [reflexivity|]. cbn [si_rows flat_map si_next_p]. unfold si_row at 1.
  destruct (idx_l3 s p spo) as [|o os]; [exact IH|reflexivity].
Qed.

Lemma next_s_spec spo ss :
  flat_map (fun s => si_rows spo s (skeys2 s spo)) ss =
  match si_next_s spo ss with
  | Some (r, s, p, ps, o, os) =>
      (s, p, o) :: map (fun o => (s, p, o)) os ++ si_rows spo s ps
      ++ flat_map (fun s => si_rows spo s (skeys2 s spo)) r
  | None => []
  end.
Proof.
  induction ss as [|s r IH]; [reflexivity|]. cbn [flat_map si_next_s].
  rewrite (next_p_spec spo s (skeys2 s spo)).
  destruct (si_next_p spo s (skeys2 s spo)) as [[[[p ps] o] os]|]; [|exact IH].
  cbn [app]. now rewrite <- app_assoc.
Qed.

(* one step in state m consumes the head of what is still to come in state m *)
Lemma next_rem m st :
  si_rem (s_spo m) st =
  match fst (si_next m st) with
  | Some t => t :: si_rem (s_spo m) (snd (si_next m st))
  | None => []
  end.
Proof.
  unfold si_rem, si_next. destruct (si_os st) as [|o os]; [|reflexivity]. cbn [map app].
  rewrite (next_p_spec (s_spo m) (si_s st) (si_ps st)).
  destruct (si_next_p (s_spo m) (si_s st) (si_ps st)) as [[[[p ps] o] os]|].
  - cbn [fst snd si_s si_p si_os si_ps si_ss app]. now rewrite <- app_assoc.
  - cbn [app]. rewrite (next_s_spec (s_spo m) (si_ss st)).
    destruct (si_next_s (s_spo m) (si_ss st)) as [[[[[[ss s] p] ps] o] os]|]; reflexivity.
Qed.

(* THE CONDITION: if no step of the loop body changes what is still to come, the
   loop variable takes exactly the values of the list computed up front *)
Theorem drive_chain : forall ms m st,
  si_chain m ms st -> length (m :: ms) = length (si_rem (s_spo m) st) ->
  si_drive (m :: ms) st = si_rem (s_spo m) st.
Proof.
  induction ms as [|m' r IH]; intros m st Hc Hl; cbn [si_drive].
  - rewrite (next_rem m st) in *. destruct (si_next m st) as [[t|] st']; cbn [fst snd] in *; [|discriminate].
    destruct (si_rem (s_spo m) st'); [reflexivity|discriminate].
  - rewrite (next_rem m st) in *. destruct Hc as [Hp Hc].
    destruct (si_next m st) as [[t|] st']; cbn [fst snd] in *; [|discriminate].
    f_equal. rewrite <- Hp. apply IH; auto. rewrite Hp. simpl in Hl. simpl. lia.
Qed.

(* the store does not change while the loop runs (the other graph lives in another
   store; or the body re-adds triples that are already there) *)
Lemma chain_const m n st : si_chain m (repeat m n) st.
Proof. revert st. induction n as [|n IH]; intros st; cbn; auto. Qed.

(* ---------- the first next(): what is to come is the list computed up front *)
Lemma flat_map_ext_in {A B} (f g : A -> list B) l :
  (forall x, In x l -> f x = g x) -> flat_map f l = flat_map g l.
Proof.
  induction l as [|x r IH]; intros H; simpl; auto. rewrite (H x) by (simpl; auto). f_equal. apply IH.
  intros y Hy. apply H. simpl; auto.
Qed.

Lemma d2_rows (s : N) (da : d2) :
  NoDup (pd_keys da) ->
  map (fun bc => (s, fst bc, snd bc)) (d2_pairs da)
  = flat_map (fun p => map (fun o => (s, p, o)) (pd_keys (pd_getd N.eqb p da))) (pd_keys da).
Proof.
  induction da as [|[b db] r IH]; intros Hn; [reflexivity|]. inversion Hn as [|? ? Hb Hr]; subst.
  unfold d2_pairs in *. cbn [flat_map pd_keys map fst snd]. rewrite map_app, map_map. cbn [fst snd].
  f_equal.
  - unfold pd_getd. cbn [pd_get]. now rewrite N.eqb_refl.
  - rewrite (IH Hr). apply flat_map_ext_in. intros p Hp. unfold pd_getd. cbn [pd_get].
    destruct (N.eqb_spec p b) as [->|]; [tauto|reflexivity].
Qed.

Lemma start_is_list m : wf3 (s_spo m) -> si_rem (s_spo m) (si_start m) = idx_l1 (s_spo m).
Proof.
  intros [Hn Hw]. unfold si_rem, si_start. cbn [si_os si_ps si_ss si_s si_p map app si_rows flat_map].
  unfold idx_l1.
  (* every lookup by a key of the snapshot finds the entry the walk over the dict visits *)
  assert (H : forall (i : idx), NoDup (pd_keys i) -> (forall a da, pd_get N.eqb a i = Some da -> wf2 da) ->
            forall spo, (forall a da, In (a, da) i -> pd_getd N.eqb a spo = da) ->
            flat_map (fun s => si_rows spo s (skeys2 s spo)) (pd_keys i)
            = flat_map (fun ad => map (fun bc => (fst ad, fst bc, snd bc)) (d2_pairs (snd ad))) i).
  { induction i as [|[a da] r IH]; intros Hn' Hw' spo Hl; [reflexivity|]. inversion Hn' as [|? ? Ha Hr]; subst.
    cbn [flat_map pd_keys map fst snd]. f_equal.
    - assert (Hda : wf2 da) by (apply (Hw' a); cbn; now rewrite N.eqb_refl).
      rewrite (d2_rows a da (proj1 Hda)). unfold si_rows, skeys2, si_row, idx_l3.
      rewrite (Hl a da) by (simpl; auto). reflexivity.
    - apply IH; auto.
      + intros a' da' H'. apply (Hw' a'). cbn. destruct (N.eqb_spec a' a) as [->|]; auto.
        exfalso. apply Ha. apply pd_get_In in H'; [|exact N.eqb_spec]. change a with (fst (a, da')). now apply in_map.
      + intros a' da' Hin. apply Hl. simpl; auto. }
  apply H; auto. intros a da Hin. apply getd3_some. apply (pd_In_get N.eqb_spec); auto.
Qed.

(* `for t in g` with the store unchanged during the loop: exactly the list computed up front *)
Theorem simple_iteration_const m n :
  sm_inv m -> S n = length (sm_triples m all_pat) ->
  si_drive (repeat m (S n)) (si_start m) = sm_triples m all_pat.
Proof.
  intros (H1 & _) Hl. change (sm_triples m all_pat) with (idx_l1 (s_spo m)) in *.
  rewrite <- (start_is_list m H1) in *. cbn [repeat]. apply drive_chain; [apply chain_const|].
  simpl. rewrite repeat_length. exact Hl.
Qed.

(* The unconditional statement is FALSE for SimpleMemory (unlike Memory, which copies
   the whole triple set at the first next()): the snapshots of the inner key lists
   are taken later, so a triple added meanwhile to a bucket not yet reached is yielded
   although it is not in the list computed up front. *)
Lemma simple_iteration_snapshot_refuted :
  exists m0 m1, sm_inv m0 /\
    In (2, 3, 6)%N (si_drive [m0; m1; m1] (si_start m0)) /\ ~ In (2, 3, 6)%N (sm_triples m0 all_pat).
Proof.
  exists (sm_add (sm_add sm_empty (1, 3, 5)%N) (2, 3, 5)%N).
  exists (sm_add (sm_add (sm_add sm_empty (1, 3, 5)%N) (2, 3, 5)%N) (2, 3, 6)%N).
  split; [apply sm_add_inv, sm_add_inv, sm_inv_empty|]. vm_compute. split; [tauto|].
  intros [H|[H|[]]]; discriminate H.
Qed.

(* ---------- `g -= g` (or two graphs of one SimpleMemory store): the body removes the
   triple just yielded from the store being walked - the F10b region *)
Definition si_J (st : sit) : Prop :=
  NoDup (si_ss st) /\ NoDup (si_ps st)
  /\ (si_os st <> [] \/ si_ps st <> [] -> ~ In (si_s st) (si_ss st))
  /\ (si_os st <> [] -> ~ In (si_p st) (si_ps st)).

Definition si_K (st : sit) : Prop :=
  NoDup (si_ss st) /\ NoDup (si_ps st) /\ ~ In (si_s st) (si_ss st) /\ ~ In (si_p st) (si_ps st).

Lemma K_J st : si_K st -> si_J st.
Proof. intros (A & B & C & D). split; [auto|split; [auto|split; auto]]. Qed.

Lemma next_p_fresh spo s ps p r o os :
  NoDup ps -> si_next_p spo s ps = Some (p, r, o, os) -> NoDup r /\ ~ In p r.
Proof.
  induction ps as [|q t IH]; cbn [si_next_p]; [discriminate|]. intros Hn. inversion Hn; subst.
  destruct (idx_l3 s q spo); [auto|]. intros [= <- <- <- <-]. auto.
Qed.

Lemma next_s_fresh spo ss r s p ps o os :
  wf3 spo -> NoDup ss -> si_next_s spo ss = Some (r, s, p, ps, o, os) ->
  NoDup r /\ ~ In s r /\ NoDup ps /\ ~ In p ps.
Proof.
  intros Hw. induction ss as [|q t IH]; cbn [si_next_s]; [discriminate|]. intros Hn. inversion Hn; subst.
  destruct (si_next_p spo q (skeys2 q spo)) as [[[[p' ps'] o'] os']|] eqn:E; [|auto].
  intros [= <- <- <- <- <- <-]. split; [auto|split; [auto|]].
  eapply next_p_fresh; [|exact E]. apply (wf2_getd q Hw).
Qed.

Lemma step_K m st t st' :
  wf3 (s_spo m) -> si_J st -> si_next m st = (Some t, st') ->
  si_K st' /\ fst (fst t) = si_s st' /\ snd (fst t) = si_p st'.
Proof.
  intros Hw (J1 & J2 & J3 & J4). unfold si_next.
  destruct (si_os st) as [|o os] eqn:Eo.
  - destruct (si_next_p (s_spo m) (si_s st) (si_ps st)) as [[[[p ps] o] os]|] eqn:Ep.
    + intros [= <- <-]. cbn. destruct (next_p_fresh _ _ _ _ _ _ _ J2 Ep) as [A B].
      split; [|auto]. split; [auto|split; [auto|split; [|auto]]]. apply J3. right.
      intros E. rewrite E in Ep. discriminate.
    + destruct (si_next_s (s_spo m) (si_ss st)) as [[[[[[ss s] p] ps] o] os]|] eqn:Es; [|discriminate].
      intros [= <- <-]. cbn. destruct (next_s_fresh _ _ _ _ _ _ _ _ Hw J1 Es) as (A & B & C & D). split; [|auto].
      split; [auto|split; auto].
  - intros [= <- <-]. cbn. split; [|auto]. split; [auto|split; [auto|split]].
    + apply J3. left. discriminate.
    + apply J4. discriminate.
Qed.

Lemma idx_l3_del_other a b c a' b' i :
  (a', b') <> (a, b) -> idx_l3 a' b' (idx_del a b c i) = idx_l3 a' b' i.
Proof.
  intros Hne. unfold idx_l3, idx_del.
  destruct (pd_get N.eqb a i) as [da|] eqn:Ea; [|reflexivity].
  destruct (pd_get N.eqb b da) as [db|] eqn:Eb; [|reflexivity].
  rewrite getd3_set. destruct (N.eqb_spec a' a) as [->|]; [|reflexivity].
  rewrite getd2_set, (getd3_some _ _ Ea). destruct (N.eqb_spec b' b) as [->|]; [congruence|reflexivity].
Qed.

Lemma skeys2_del_other a b c a' i : a' <> a -> skeys2 a' (idx_del a b c i) = skeys2 a' i.
Proof.
  intros Hne. unfold skeys2, idx_del.
  destruct (pd_get N.eqb a i) as [da|] eqn:Ea; [|reflexivity].
  destruct (pd_get N.eqb b da) as [db|] eqn:Eb; [|reflexivity].
  rewrite getd3_set. destruct (N.eqb_spec a' a); [congruence|reflexivity].
Qed.

(* removing the triple just yielded does not change what is still to come *)
Lemma rem_del spo st o :
  si_K st -> si_rem (idx_del (si_s st) (si_p st) o spo) st = si_rem spo st.
Proof.
  intros (K1 & K2 & K3 & K4). unfold si_rem. f_equal. f_equal.
  - unfold si_rows. apply flat_map_ext_in. intros p' Hp. unfold si_row.
    rewrite idx_l3_del_other; [reflexivity|]. intros [= E]. congruence.
  - apply flat_map_ext_in. intros s' Hs.
    assert (Hne : s' <> si_s st) by congruence.
    rewrite skeys2_del_other by auto. unfold si_rows. apply flat_map_ext_in. intros p' _. unfold si_row.
    rewrite idx_l3_del_other; [reflexivity|]. intros [= E]. congruence.
Qed.

(* the interleaved loop of Graph.__isub__ on one SimpleMemory store *)
Fixpoint si_isub (fuel : nat) (m : smem) (st : sit) : list triple * smem :=
  match fuel with
  | O => ([], m)
  | S f => match si_next m st with
           | (Some t, st') => let '(ys, m') := si_isub f (sm_del1 m t) st' in (t :: ys, m')
           | (None, _) => ([], m)
           end
  end.

Lemma si_isub_rem : forall fuel m st,
  sm_inv m -> si_J st -> length (si_rem (s_spo m) st) < fuel ->
  fst (si_isub fuel m st) = si_rem (s_spo m) st.
Proof.
  induction fuel as [|f IH]; intros m st Hi HJ Hl; [lia|]. cbn [si_isub].
  rewrite (next_rem m st) in *. destruct (si_next m st) as [[t|] st'] eqn:E; cbn [fst snd] in *; [|reflexivity].
  destruct (step_K m st t st' (proj1 Hi) HJ E) as (HK & E1 & E2).
  assert (Hrem : si_rem (s_spo (sm_del1 m t)) st' = si_rem (s_spo m) st').
  { destruct t as [[s p] o]. cbn in E1, E2. subst s p. cbn [sm_del1 s_spo]. now apply rem_del. }
  specialize (IH (sm_del1 m t) st' (sm_del1_inv m t Hi) (K_J _ HK)).
  destruct (si_isub f (sm_del1 m t) st') as [ys m']. cbn [fst] in *. f_equal.
  rewrite <- Hrem. apply IH. rewrite Hrem. simpl in Hl. lia.
Qed.

(* `g -= g`: although every step removes from the dicts being walked, the loop variable
   takes exactly the values of the list computed up front (and never more: the
   generator is exhausted after them) *)
Theorem simple_isub_interleaved m fuel :
  sm_inv m -> length (sm_triples m all_pat) < fuel ->
  fst (si_isub fuel m (si_start m)) = sm_triples m all_pat.
Proof.
  intros Hi Hl. change (sm_triples m all_pat) with (idx_l1 (s_spo m)) in *.
  rewrite <- (start_is_list m (proj1 Hi)) in *. apply si_isub_rem; auto.
  unfold si_J, si_start. cbn. destruct Hi as ((Hn & _) & _). split; [auto|split; [constructor|split; [intros [H|H]; congruence|congruence]]].
Qed.

(* ---------- `g += g` (or two graphs of one SimpleMemory store): the body re-adds the
   triple just yielded, which leaves every dict as it is *)
Lemma pd_set_same {K V} (keqb : K -> K -> bool) k (v : V) d :
  (forall x y, reflect (x = y) (keqb x y)) -> pd_get keqb k d = Some v -> pd_set keqb k v d = d.
Proof.
  intros Hs. induction d as [|[k0 v0] r IH]; simpl; [discriminate|].
  destruct (Hs k k0) as [->|Hne]; [intros [= ->]; reflexivity|]. intros H. now rewrite IH.
Qed.

Lemma idx_add_present a b c i : idx_has a b c i = true -> idx_add a b c i = i.
Proof.
  unfold idx_has, idx_add. intros H.
  destruct (pd_get N.eqb a i) as [da|] eqn:Ea; [rewrite (getd3_some _ _ Ea) in *|rewrite (getd3_none _ _ Ea) in H; discriminate].
  destruct (pd_get N.eqb b da) as [db|] eqn:Eb; [rewrite (getd2_some _ _ Eb) in *|rewrite (getd2_none _ _ Eb) in H; discriminate].
  unfold pd_mem in H. destruct (pd_get N.eqb c db) as [[]|] eqn:Ec; [|discriminate].
  rewrite (pd_set_same N.eqb c tt db N.eqb_spec Ec).
  etransitivity; [|exact (pd_set_same N.eqb a da i N.eqb_spec Ea)]. f_equal.
  exact (pd_set_same N.eqb b db da N.eqb_spec Eb).
Qed.

Lemma sm_add_present m t : sm_inv m -> sm_holds m t = true -> sm_add m t = m.
Proof.
  intros (_ & _ & _ & Hc) Hh. destruct t as [[s p] o]. unfold sm_holds, leaf in Hh. destruct (Hc s p o) as [H1 H2].
  unfold sm_add. rewrite (idx_add_present s p o _ Hh), (idx_add_present p o s _), (idx_add_present o s p _) by congruence.
  destruct m; reflexivity.
Qed.

(* the interleaved loop of Graph.__iadd__ on one SimpleMemory store *)
Fixpoint si_iadd (fuel : nat) (m : smem) (st : sit) : list triple * smem :=
  match fuel with
  | O => ([], m)
  | S f => match si_next m st with
           | (Some t, st') => let '(ys, m') := si_iadd f (sm_add m t) st' in (t :: ys, m')
           | (None, _) => ([], m)
           end
  end.

Lemma si_iadd_rem : forall fuel m st,
  sm_inv m -> (forall t, In t (si_rem (s_spo m) st) -> sm_holds m t = true) ->
  length (si_rem (s_spo m) st) < fuel ->
  si_iadd fuel m st = (si_rem (s_spo m) st, m).
Proof.
  induction fuel as [|f IH]; intros m st Hi Hh Hl; [lia|]. cbn [si_iadd].
  rewrite (next_rem m st) in *. destruct (si_next m st) as [[t|] st'] eqn:E; cbn [fst snd] in *; [|reflexivity].
  rewrite (sm_add_present m t Hi (Hh t (or_introl eq_refl))).
  rewrite IH; [reflexivity|exact Hi| |simpl in Hl; lia]. intros t0 Ht0. apply Hh. simpl; auto.
Qed.

(* `g += g`: the loop variable takes exactly the values of the list computed up front
   and the store is unchanged *)
Theorem simple_iadd_interleaved m fuel :
  sm_inv m -> length (sm_triples m all_pat) < fuel ->
  si_iadd fuel m (si_start m) = (sm_triples m all_pat, m).
Proof.
  intros Hi Hl. change (sm_triples m all_pat) with (idx_l1 (s_spo m)) in *.
  rewrite <- (start_is_list m (proj1 Hi)) in *. apply si_iadd_rem; auto.
  intros t Ht. rewrite (start_is_list m (proj1 Hi)) in Ht.
  destruct t as [[s p] o]. now apply idx_l1_In in Ht; [|apply Hi].
Qed.
