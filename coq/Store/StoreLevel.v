(* The Memory store driven directly through the Store interface, as
   ConjunctiveGraph/Dataset do: triples / remove / __len__ with context=None (the
   store-wide union), contexts(), contexts(triple), add_graph, remove_graph; and
   the SimpleMemory store through the same calls (it ignores every context).
   Definitions only; the Graph-level functions of Model.v are the instances
   [Some c] of the context-generic functions here. *)
From RV Require Export Store.Model.

(* Memory.triples(pattern, context) for context = a graph or None *)
Definition mem_triples_k (m : mem) (k : ckey) (p : pat) : list triple :=
  match p with
  | (None, None, None) => pd_getd ckey_eqb k (m_ct m)
  | _ => filter (fun t => mem_has_ctx m t k) (idx_triples (m_spo m) (m_pos m) (m_osp m) p)
  end.

Definition mem_holds_k (m : mem) (k : ckey) (t : triple) : bool := mem_leaf m t && mem_has_ctx m t k.

Definition mem_len_k (m : mem) (k : ckey) : N := N.of_nat (length (pd_getd ckey_eqb k (m_ct m))).

(* the loop body of Memory.remove for context=None: every context of the triple
   goes (the loop walks the key view of the dict it started with; each
   __remove_triple_context installs a copy), then the leaf *)
Definition mem_remove1_none (m : mem) (t : triple) : mem :=
  let m1 := fold_left (fun m k => mem_rem_ctx m t k) (mem_ctxs m t) m in
  let m2 := if memb ckey_eqb None (mem_ctxs m1 t) then mem_rem_ctx m1 t None else m1 in
  if Nat.eqb (length (mem_ctxs m2 t)) 0 then mem_del_leaf m2 t else m2.

(* Memory.remove(pattern, context=None): no emptied per-context set is deleted *)
Definition mem_remove_none (m : mem) (p : pat) : mem :=
  fold_left mem_remove1_none (mem_triples_k m None p) m.

Definition mem_remove_k (m : mem) (k : ckey) (p : pat) : mem :=
  match k with Some c => mem_remove m c p | None => mem_remove_none m p end.

(* contexts(): list(self.__all_contexts) *)
Definition mem_contexts (m : mem) : list cid := m_all m.

(* contexts(triple): the non-None contexts of a stored triple *)
Definition some_keys (d : ctxd) : list cid :=
  flat_map (fun k => match k with Some c => [c] | None => [] end) d.
Definition mem_contexts_of (m : mem) (t : triple) : list cid :=
  if mem_leaf m t then some_keys (mem_ctxs m t) else [].

Definition mem_set_all (m : mem) (a : list cid) : mem :=
  {| m_spo := m_spo m; m_pos := m_pos m; m_osp := m_osp m; m_tc := m_tc m; m_ct := m_ct m;
     m_all := a; m_def := m_def m |}.

Definition mem_add_graph (m : mem) (c : cid) : mem := mem_set_all m (sadd N.eqb c (m_all m)).
Definition mem_remove_graph (m : mem) (c : cid) : mem :=
  let m' := mem_remove m c all_pat in mem_set_all m' (srem N.eqb c (m_all m')).

(* ---------- both store classes *)
Inductive top :=
| TAdd (c : cid) (t : triple)
| TRemove (k : ckey) (p : pat)
| TAddGraph (c : cid)
| TRemoveGraph (c : cid).

(* SimpleMemory: add_graph / remove_graph raise (not graph aware): not generated *)
Definition t_step (st : store) (o : top) : store :=
  match st, o with
  | SMem m, TAdd c t => SMem (mem_add m c t)
  | SMem m, TRemove k p => SMem (mem_remove_k m k p)
  | SMem m, TAddGraph c => SMem (mem_add_graph m c)
  | SMem m, TRemoveGraph c => SMem (mem_remove_graph m c)
  | SSimple m, TAdd _ t => SSimple (sm_add m t)
  | SSimple m, TRemove _ p => SSimple (sm_remove m p)
  | SSimple m, _ => SSimple m
  end.

Definition t_triples (st : store) (k : ckey) (p : pat) : list triple :=
  match st with SMem m => mem_triples_k m k p | SSimple m => sm_triples m p end.
Definition t_len (st : store) (k : ckey) : N :=
  match st with SMem m => mem_len_k m k | SSimple m => sm_len m end.
Definition t_contexts (st : store) : list cid :=
  match st with SMem m => mem_contexts m | SSimple _ => [] end.
Definition t_contexts_of (st : store) (t : triple) : list cid :=
  match st with SMem m => mem_contexts_of m t | SSimple _ => [] end.

(* per context key: triples(all), len, triples for the 8 shapes of the probe *)
Definition kobs := (list triple * N * list (list triple))%type.
(* per step: per key in play; contexts(); contexts(probe) *)
Definition tobs1 := (list kobs * list cid * list cid)%type.
Definition tobs := list tobs1.

Record tcase := {
  tc_simple : bool;
  tc_keys : list ckey;              (* the contexts observed after every step *)
  tc_ops : list (top * triple)      (* operation, probe triple *)
}.

Definition t_observe (st : store) (keys : list ckey) (probe : triple) : tobs1 :=
  (map (fun k => (t_triples st k all_pat, t_len st k, map (t_triples st k) (masks probe))) keys,
   t_contexts st, t_contexts_of st probe).

Fixpoint t_run (keys : list ckey) (st : store) (ops : list (top * triple)) : tobs :=
  match ops with
  | [] => []
  | (o, probe) :: r => let st' := t_step st o in t_observe st' keys probe :: t_run keys st' r
  end.

Definition tmodel_obs (c : tcase) : tobs := t_run (tc_keys c) (st_init (tc_simple c)) (tc_ops c).

Definition cl_eqb (a b : list cid) : bool :=
  Nat.eqb (length a) (length b) && seteqb N.eqb a b && Bool.eqb (nodupb N.eqb a) (nodupb N.eqb b).

Definition kobs_eqb (a b : kobs) : bool :=
  let '(a1, a2, a3) := a in let '(b1, b2, b3) := b in
  tl_eqb a1 b1 && N.eqb a2 b2 && list_eqb tl_eqb a3 b3.

Definition tobs1_eqb (a b : tobs1) : bool :=
  let '(a1, a2, a3) := a in let '(b1, b2, b3) := b in
  list_eqb kobs_eqb a1 b1 && cl_eqb a2 b2 && cl_eqb a3 b3.

Definition tobs_eqb (a b : tobs) : bool := list_eqb tobs1_eqb a b.

(* ---------- specification: the quad set, and the set of graphs the store knows *)
Record tspec := { ts_q : qset; ts_known : list cid }.

(* a SimpleMemory store is one graph whatever context is named *)
Definition tkey (simple : bool) (c : cid) : cid := if simple then 0%N else c.

Definition tspec_step (simple : bool) (s : tspec) (o : top) : tspec :=
  match o with
  | TAdd c t => {| ts_q := q_add (t, tkey simple c) (ts_q s);
                   ts_known := if simple then [] else sadd N.eqb c (ts_known s) |}
  | TRemove (Some c) p => {| ts_q := q_remove p (Some (tkey simple c)) (ts_q s); ts_known := ts_known s |}
  | TRemove None p => {| ts_q := q_remove p None (ts_q s); ts_known := ts_known s |}
  | TAddGraph c => {| ts_q := ts_q s; ts_known := if simple then [] else sadd N.eqb c (ts_known s) |}
  | TRemoveGraph c =>
      if simple then s
      else {| ts_q := q_remove all_pat (Some c) (ts_q s); ts_known := srem N.eqb c (ts_known s) |}
  end.

(* the triples of context k: of graph c, or (None) of any graph *)
Definition sp_union (S : qset) : list triple := dedup triple_eqb (map fst S).
Definition ts_content (simple : bool) (S : qset) (k : ckey) : list triple :=
  match k with
  | Some c => sp_content S (tkey simple c)
  | None => sp_union S
  end.

Definition graphs_of (S : qset) (t : triple) : list cid :=
  dedup N.eqb (map snd (filter (fun q => triple_eqb (fst q) t) S)).

Definition kobs_ok (E : list triple) (probe : triple) (ko : kobs) : bool :=
  let '(it, ln, ps) := ko in
  enum_ofb teq it E && N.eqb ln (N.of_nat (length E))
  && all2 (fun p l => enum_ofb teq l (filter (matches p) E)) (masks probe) ps.

Definition tobs1_ok (c : tcase) (s : tspec) (probe : triple) (ob : tobs1) : bool :=
  let '(ks, ctxs, ctxs_of) := ob in
  all2 (fun k ko => kobs_ok (ts_content (tc_simple c) (ts_q s) k) probe ko) (tc_keys c) ks
  && (if tc_simple c then is_nil ctxs && is_nil ctxs_of
      else enum_ofb N.eqb ctxs (ts_known s) && enum_ofb N.eqb ctxs_of (graphs_of (ts_q s) probe)).

Fixpoint tspec_run (c : tcase) (s : tspec) (ops : list (top * triple)) (ob : tobs) : bool :=
  match ops, ob with
  | [], [] => true
  | (o, probe) :: r, e :: ob' =>
      let s' := tspec_step (tc_simple c) s o in
      tobs1_ok c s' probe e && tspec_run c s' r ob'
  | _, _ => false
  end.

Definition tspec_ok (c : tcase) (ob : tobs) : bool :=
  tspec_run c {| ts_q := []; ts_known := [] |} (tc_ops c) ob.

(* add_graph / remove_graph are not generated for the SimpleMemory store (they raise) *)
Definition twfb (c : tcase) : bool :=
  negb (tc_simple c)
  || forallb (fun x => match fst x with TAddGraph _ | TRemoveGraph _ => false | _ => true end) (tc_ops c).
