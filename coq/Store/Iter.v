(* Small-step model of the generator Memory.triples (as reached through
   Graph.triples) stepped between mutations of the same store, and the
   specification checker for open iterators: no step raises, and a yielded
   triple matches the pattern and was in the iterated graph at some moment
   between the creation of the iterator and the yield.  Definitions only.
   The model follows Memory.__triple_has_context as repaired for finding F10.

   A generator frame holds references to inner dicts and snapshotted key lists
   (`list(d.keys())`, `set.copy()`).  Inner dicts are never replaced, so a
   lookup by path in the current state is the same thing (assumption MA1).
   The body of a Python generator starts at the first next(). *)
From RV Require Export Store.Model.

Inductive ikind :=
| KFlat                       (* no outer loop (left) *)
| KSpo (s : N)                (* for p in list(spo[s]): for o in list(spo[s][p]) *)
| KPos (p : N)                (* for o in list(pos[p]): for s in list(pos[p][o]) *)
| KOsp (o : N)                (* for s in list(osp[o]): for p in list(osp[o][s]) *)
| KSo (s o : N).              (* for p in list(spo[s]): if o in spo[s][p] *)

Record iter := {
  it_cid : cid; it_pat : pat;
  it_started : bool; it_done : bool;
  it_check : bool;            (* __triple_has_context tested before each yield *)
  it_kind : ikind;
  it_outer : list N;          (* rest of the snapshotted outer key list *)
  it_inner : list triple      (* rest of the snapshotted inner key list, as candidate triples *)
}.

Definition it_open (c : cid) (p : pat) : iter :=
  {| it_cid := c; it_pat := p; it_started := false; it_done := false; it_check := true;
     it_kind := KFlat; it_outer := []; it_inner := [] |}.

Definition keys2 (a : N) (i : idx) : list N := pd_keys (pd_getd N.eqb a i).

(* first next(): dispatch on the pattern, take the first snapshot *)
Definition it_start (m : mem) (it : iter) : iter :=
  let c := it_cid it in
  let mk chk k outer inner :=
    {| it_cid := c; it_pat := it_pat it; it_started := true; it_done := false; it_check := chk;
       it_kind := k; it_outer := outer; it_inner := inner |} in
  match it_pat it with
  | (None, None, None) => mk false KFlat [] (pd_getd ckey_eqb (Some c) (m_ct m))
  | (Some s, Some p, Some o) => mk true KFlat [] (if idx_has s p o (m_spo m) then [(s, p, o)] else [])
  | (Some s, Some p, None) => mk true KFlat [] (map (fun o => (s, p, o)) (idx_l3 s p (m_spo m)))
  | (Some s, None, Some o) => mk true (KSo s o) (keys2 s (m_spo m)) []
  | (Some s, None, None) => mk true (KSpo s) (keys2 s (m_spo m)) []
  | (None, Some p, Some o) => mk true KFlat [] (map (fun s => (s, p, o)) (idx_l3 p o (m_pos m)))
  | (None, Some p, None) => mk true (KPos p) (keys2 p (m_pos m)) []
  | (None, None, Some o) => mk true (KOsp o) (keys2 o (m_osp m)) []
  end.

(* the outer loop reaches key x: snapshot of the inner key list, now *)
Definition it_expand (m : mem) (k : ikind) (x : N) : list triple :=
  match k with
  | KFlat => []
  | KSpo s => map (fun o => (s, x, o)) (idx_l3 s x (m_spo m))
  | KPos p => map (fun s => (s, p, x)) (idx_l3 p x (m_pos m))
  | KOsp o => map (fun p => (x, p, o)) (idx_l3 o x (m_osp m))
  | KSo s o => if idx_has s x o (m_spo m) then [(s, x, o)] else []
  end.

(* __triple_has_context(triple, ctx) as repaired for finding F10: own entry, else
   (only if the triple is still indexed) the default contexts; None = TypeError
   (`ctx in None`, default contexts not yet set) *)
Definition has_ctx_live (m : mem) (t : triple) (c : cid) : option bool :=
  match pd_get triple_eqb t (m_tc m) with
  | Some d => Some (memb ckey_eqb (Some c) d)
  | None =>
      if mem_leaf m t then
        match m_def m with Some d => Some (memb ckey_eqb (Some c) d) | None => None end
      else Some false
  end.

(* the historical test: ctx in tripleContexts.get(triple, defaultContexts) *)
Definition hist_has_ctx_live (m : mem) (t : triple) (c : cid) : option bool :=
  match pd_get triple_eqb t (m_tc m) with
  | Some d => Some (memb ckey_eqb (Some c) d)
  | None => match m_def m with Some d => Some (memb ckey_eqb (Some c) d) | None => None end
  end.

Inductive sres := SYield (t : triple) (rest : list triple) | SNone | SRaise.

Fixpoint it_scan (m : mem) (c : cid) (chk : bool) (l : list triple) : sres :=
  match l with
  | [] => SNone
  | t :: r =>
      if chk then
        match has_ctx_live m t c with
        | None => SRaise
        | Some true => SYield t r
        | Some false => it_scan m c chk r
        end
      else SYield t r
  end.

Inductive wres := WYield (t : triple) (outer : list N) (inner : list triple) | WDone | WRaise.

Fixpoint it_walk (m : mem) (c : cid) (k : ikind) (chk : bool) (outer : list N) : wres :=
  match outer with
  | [] => WDone
  | x :: r =>
      match it_scan m c chk (it_expand m k x) with
      | SYield t rest => WYield t r rest
      | SNone => it_walk m c k chk r
      | SRaise => WRaise
      end
  end.

Inductive nres := NYield (t : triple) | NDone | NRaise.

Definition it_set (it : iter) (done : bool) (outer : list N) (inner : list triple) : iter :=
  {| it_cid := it_cid it; it_pat := it_pat it; it_started := true; it_done := done; it_check := it_check it;
     it_kind := it_kind it; it_outer := outer; it_inner := inner |}.

Definition it_next (m : mem) (it0 : iter) : nres * iter :=
  if it_done it0 then (NDone, it0) else
  let it := if it_started it0 then it0 else it_start m it0 in
  match it_scan m (it_cid it) (it_check it) (it_inner it) with
  | SYield t rest => (NYield t, it_set it false (it_outer it) rest)
  | SRaise => (NRaise, it_set it true [] [])
  | SNone =>
      match it_walk m (it_cid it) (it_kind it) (it_check it) (it_outer it) with
      | WYield t outer inner => (NYield t, it_set it false outer inner)
      | WDone => (NDone, it_set it true [] [])
      | WRaise => (NRaise, it_set it true [] [])
      end
  end.

(* list(it): the generator body run to its end, no mutation in between.
   The rest of a loop over candidates: what it yields, and whether it raised. *)
Fixpoint scan_all (m : mem) (c : cid) (chk : bool) (l : list triple) : list triple * bool :=
  match l with
  | [] => ([], false)
  | t :: r =>
      if chk then
        match has_ctx_live m t c with
        | None => ([], true)
        | Some true => let '(ys, e) := scan_all m c chk r in (t :: ys, e)
        | Some false => scan_all m c chk r
        end
      else let '(ys, e) := scan_all m c chk r in (t :: ys, e)
  end.

Fixpoint walk_all (m : mem) (c : cid) (k : ikind) (chk : bool) (outer : list N) : list triple * bool :=
  match outer with
  | [] => ([], false)
  | x :: r =>
      let '(ys, e) := scan_all m c chk (it_expand m k x) in
      if e then (ys, true) else let '(zs, e') := walk_all m c k chk r in (ys ++ zs, e')
  end.

(* status 1 = exhausted (StopIteration), 2 = raised; defined by structural recursion
   over the snapshots, so there is no fuel and no third outcome *)
Definition it_drain (m : mem) (it0 : iter) : list triple * N * iter :=
  if it_done it0 then ([], 1%N, it0) else
  let it := if it_started it0 then it0 else it_start m it0 in
  let '(ys, e) := scan_all m (it_cid it) (it_check it) (it_inner it) in
  if e then (ys, 2%N, it_set it true [] []) else
  let '(zs, e') := walk_all m (it_cid it) (it_kind it) (it_check it) (it_outer it) in
  (ys ++ zs, if e' then 2%N else 1%N, it_set it true [] []).

(* ---------- schedules *)
Inductive sop :=
| SAdd (c : cid) (t : triple)
| SRemove (c : cid) (p : pat)
| SSet (c : cid) (t : triple)
| SOpen (c : cid) (p : pat)
| SNext (i : nat)
| SDrain (i : nat).

Definition is_wild (p : pat) : bool :=
  match p with (None, None, None) => true | _ => false end.

(* per step: iterator number, iterates a set copy (hash order)?, yields, status
   (0 yielded / nothing to report, 1 StopIteration, 2 raised) *)
Definition iobs1 := (N * bool * list triple * N)%type.
Definition iobs := list iobs1.

Definition no_obs : iobs1 := (999%N, false, [], 0%N).

Fixpoint set_nth {A} (n : nat) (x : A) (l : list A) : list A :=
  match l, n with
  | [], _ => []
  | _ :: r, O => x :: r
  | y :: r, S k => y :: set_nth k x r
  end.

Definition mem_set (m : mem) (c : cid) (t : triple) : mem := mem_add (mem_remove m c (sp_pat t)) c t.

Definition i_step (m : mem) (its : list iter) (o : sop) : mem * list iter * iobs1 :=
  match o with
  | SAdd c t => (mem_add m c t, its, no_obs)
  | SRemove c p => (mem_remove m c p, its, no_obs)
  | SSet c t => (mem_set m c t, its, no_obs)
  | SOpen c p => (m, its ++ [it_open c p], no_obs)
  | SNext i =>
      match nth_error its i with
      | None => (m, its, no_obs)
      | Some it =>
          match it_next m it with
          | (NYield t, it') => (m, set_nth i it' its, (N.of_nat i, is_wild (it_pat it), [t], 0%N))
          | (NDone, it') => (m, set_nth i it' its, (N.of_nat i, is_wild (it_pat it), [], 1%N))
          | (NRaise, it') => (m, set_nth i it' its, (N.of_nat i, is_wild (it_pat it), [], 2%N))
          end
      end
  | SDrain i =>
      match nth_error its i with
      | None => (m, its, no_obs)
      | Some it =>
          let '(ys, st, it') := it_drain m it in
          (m, set_nth i it' its, (N.of_nat i, is_wild (it_pat it), ys, st))
      end
  end.

Fixpoint i_run (m : mem) (its : list iter) (ops : list sop) : iobs :=
  match ops with
  | [] => []
  | o :: r => let '(m', its', ob) := i_step m its o in ob :: i_run m' its' r
  end.

Record icase := { ic_ops : list sop }.

Definition imodel_obs (c : icase) : iobs := i_run mem_empty [] (ic_ops c).

(* comparison with the implementation: step by step, except that an iterator
   over a set copy is compared by everything it yielded during the schedule *)
Definition ob_id (e : iobs1) : N := fst (fst (fst e)).
Definition ob_wild (e : iobs1) : bool := snd (fst (fst e)).
Definition ob_ys (e : iobs1) : list triple := snd (fst e).
Definition ob_st (e : iobs1) : N := snd e.

Definition agg (i : N) (l : iobs) : list triple :=
  flat_map (fun e => if N.eqb (ob_id e) i then ob_ys e else []) l.

Definition iobs1_eqb (a b : iobs1) : bool :=
  N.eqb (ob_id a) (ob_id b) && Bool.eqb (ob_wild a) (ob_wild b) && N.eqb (ob_st a) (ob_st b)
  && (if ob_wild a then Nat.eqb (length (ob_ys a)) (length (ob_ys b)) else list_eqb triple_eqb (ob_ys a) (ob_ys b)).

Definition iobs_eqb (a b : iobs) : bool :=
  list_eqb iobs1_eqb a b
  && forallb (fun e => negb (ob_wild e) || tl_eqb (agg (ob_id e) a) (agg (ob_id e) b)) a.

(* ---------- specification *)
Definition sp_mut (S : qset) (o : sop) : qset :=
  match o with
  | SAdd c t => q_add (t, c) S
  | SRemove c p => q_remove p (Some c) S
  | SSet c t => q_add (t, c) (q_remove (sp_pat t) (Some c) S)
  | _ => S
  end.

(* an open iterator in the specification: graph, pattern, and the window: every
   triple that was in the graph at some moment since the iterator was created *)
Definition sit := (cid * pat * list triple)%type.

Definition widen (S : qset) (x : sit) : sit :=
  let '(c, p, W) := x in (c, p, sunion teq W (sp_content S c)).

Definition is_mut (o : sop) : bool :=
  match o with SAdd _ _ | SRemove _ _ | SSet _ _ => true | _ => false end.

Definition yields_ok (x : sit) (ys : list triple) : bool :=
  let '(c, p, W) := x in forallb (fun t => matches p t && memb teq t W) ys.

Fixpoint ispec_run (S : qset) (its : list sit) (ops : list sop) (ob : iobs) : bool :=
  match ops, ob with
  | [], [] => true
  | o :: r, e :: ob' =>
      match o with
      | SOpen c p => negb (N.eqb (ob_st e) 2) && ispec_run S (its ++ [(c, p, sp_content S c)]) r ob'
      | SNext i | SDrain i =>
          match nth_error its i with
          | None => ispec_run S its r ob'
          | Some x => negb (N.eqb (ob_st e) 2) && yields_ok x (ob_ys e) && ispec_run S its r ob'
          end
      | _ => let S' := sp_mut S o in negb (N.eqb (ob_st e) 2) && ispec_run S' (map (widen S') its) r ob'
      end
  | _, _ => false
  end.

Definition ispec_ok (c : icase) (ob : iobs) : bool := ispec_run [] [] (ic_ops c) ob.
