(* Model of rdflib/plugins/sparql/update.py over a dataset = quad set + set of
   graph names the store knows (Memory.__all_contexts), cid 0 = the default
   graph of the front end.  Statement by statement for evalInsertData,
   evalDeleteData, evalDeleteWhere, evalModify (as repaired by the fix of F5:
   all deletions of all solutions, then all insertions), evalClear, evalDrop,
   evalAdd, evalMove, evalCopy, _graphAll, _graphOrDefault, _fillTemplate and
   the loop of evalUpdate (first failure aborts, SILENT swallows).  The WHERE
   clause of an operation enters as its solution list (a field of the
   operation).  No proofs in this file. *)
From RV Require Export Base.Quads.
Local Open Scope N_scope.

(* ------------------------------------------------------------------ *)
(* Front ends and the object that ctx.graph is                          *)

Inductive fe :=
| FGraph (k : cid)   (* a plain Graph named k over the shared store: ctx.dataset raises *)
| FCG                (* ConjunctiveGraph *)
| FDS.               (* Dataset *)

(* a graph object an evaluator holds: a context graph of the store, or the
   ConjunctiveGraph/Dataset object itself (ctx.graph when
   SPARQL_DEFAULT_GRAPH_UNION is on) *)
Inductive gref := GCtx (c : cid) | GSelf.

Record env := { e_fe : fe; e_union : bool;
                e_lits : list term;      (* term ids that are literals *)
                e_bnodes : list term }.  (* term ids (< 1000) that are blank nodes *)

Record dstate := { quads : qset; known : list cid }.

Inductive res := Ok (s : dstate) | Raise (s : dstate).

Definition bind (r : res) (f : dstate -> res) : res :=
  match r with Ok s => f s | Raise s => Raise s end.

Definition has_dataset (e : env) : bool :=
  match e_fe e with FGraph _ => false | _ => true end.

(* QueryContext.__init__ *)
Definition ctx_graph (e : env) : gref :=
  match e_fe e with
  | FGraph k => GCtx k
  | _ => if e_union e then GSelf else GCtx 0
  end.

(* ------------------------------------------------------------------ *)
(* Store primitives (Memory.add / remove / remove_graph through Graph)  *)

Definition add_quad (q : quad) (s : dstate) : dstate :=
  {| quads := q_add q (quads s); known := sadd N.eqb (snd q) (known s) |}.

Definition add_triples (c : cid) (ts : list triple) (s : dstate) : dstate :=
  fold_left (fun s t => add_quad (t, c) s) ts s.

Definition ctxopt (g : gref) : option cid :=
  match g with GCtx c => Some c | GSelf => None end.

(* Graph.remove(t) / ConjunctiveGraph.remove(t): a triple given to the
   ConjunctiveGraph/Dataset object is removed from every context *)
Definition del1 (g : gref) (t : triple) (s : dstate) : dstate :=
  {| quads := q_remove (pat_of t) (ctxopt g) (quads s); known := known s |}.

(* g -= ts  (Graph.__isub__) *)
Definition g_isub (g : gref) (ts : list triple) (s : dstate) : dstate :=
  fold_left (fun s t => del1 g t s) ts s.

(* g.remove((None, None, None)) *)
Definition g_clear (g : gref) (s : dstate) : dstate :=
  {| quads := q_remove (None, None, None) (ctxopt g) (quads s); known := known s |}.

(* g += ts for a list of triples: Graph.__iadd__ -> addN; ConjunctiveGraph
   adds to its default context; Dataset.__iadd__ unpacks 4-tuples and raises
   ValueError on the first triple *)
Definition g_iadd (e : env) (g : gref) (ts : list triple) (s : dstate) : res :=
  match g with
  | GCtx c => Ok (add_triples c ts s)
  | GSelf =>
      match e_fe e with
      | FDS => match ts with [] => Ok s | _ => Raise s end
      | _ => Ok (add_triples 0 ts s)
      end
  end.

(* iterating a graph object: a context graph yields its triples, the
   ConjunctiveGraph yields the union, the Dataset yields quads (None) *)
Definition g_iter (e : env) (g : gref) (s : dstate) : option (list triple) :=
  match g with
  | GCtx c => Some (q_triples (None, None, None) c (quads s))
  | GSelf =>
      match e_fe e with
      | FDS => None
      | _ => Some (dedup triple_eqb (map fst (quads s)))
      end
  end.

(* dst += src for two graph objects *)
Definition g_iadd_from (e : env) (dst src : gref) (s : dstate) : res :=
  match g_iter e src s with
  | Some ts => g_iadd e dst ts s
  | None => match quads s with [] => Ok s | _ => Raise s end
  end.

(* store.remove_graph(g): the Dataset object's own identifier is a private
   blank node, so nothing is removed for it *)
Definition forget (c : cid) (s : dstate) : dstate :=
  {| quads := quads s; known := srem N.eqb c (known s) |}.

Definition remove_graph (e : env) (g : gref) (s : dstate) : dstate :=
  match g with
  | GCtx c => forget c (g_clear (GCtx c) s)
  | GSelf =>
      match e_fe e with
      | FDS => s
      | _ => forget 0 (g_clear (GCtx 0) s)
      end
  end.

(* g.identifier; None = the Dataset object's private blank node *)
Definition ident (e : env) (g : gref) : option cid :=
  match g with
  | GCtx c => Some c
  | GSelf => match e_fe e with FDS => None | _ => Some 0 end
  end.

Definition same_ident (e : env) (a b : gref) : bool :=
  match a, b with
  | GSelf, GSelf => true
  | _, _ => match ident e a, ident e b with
            | Some x, Some y => N.eqb x y
            | _, _ => false
            end
  end.

(* ctx.dataset.contexts(): Dataset.contexts appends the default graph *)
Definition contexts (e : env) (s : dstate) : list cid :=
  match e_fe e with
  | FDS => if memb N.eqb 0 (known s) then known s else known s ++ [0]
  | _ => known s
  end.

(* ------------------------------------------------------------------ *)
(* Requests                                                             *)

Inductive gspec := GDefault | GNamed | GAll | GIri (c : cid).
Inductive gd := DDefault | DIri (c : cid).

Inductive tpos := PConst (t : term) | PVar (v : N) | PBnode (x : N).
Definition tpat := (tpos * tpos * tpos)%type.
Inductive gterm := TGConst (c : cid) | TGVar (v : N).
Record tmpl := { t_triples : list tpat; t_quads : list (gterm * list tpat) }.

Definition sol := list (N * term).

Inductive uop :=
| InsertData (ts : list triple) (qs : list (cid * list triple))
| DeleteData (ts : list triple) (qs : list (cid * list triple))
| DeleteWhere (t : tmpl) (omega : list sol)
| Modify (w : option cid) (using_default using_named : bool)
         (del ins : option tmpl) (omega : list sol)
| Clear (silent : bool) (g : gspec)
| Drop (silent : bool) (g : gspec)
| Add (silent : bool) (src dst : gd)
| Move (silent : bool) (src dst : gd)
| Copy (silent : bool) (src dst : gd).

(* ------------------------------------------------------------------ *)
(* _fillTemplate                                                        *)

Definition lookup (v : N) (mu : sol) : option term :=
  match find (fun p => N.eqb (fst p) v) mu with Some p => Some (snd p) | None => None end.

Definition inst_pos (fr : N -> term) (mu : sol) (p : tpos) : option term :=
  match p with
  | PConst t => Some t
  | PVar v => lookup v mu
  | PBnode x => Some (fr x)
  end.

Definition inst_tpat (fr : N -> term) (mu : sol) (tp : tpat) : option triple :=
  let '(a, b, c) := tp in
  match inst_pos fr mu a, inst_pos fr mu b, inst_pos fr mu c with
  | Some x, Some y, Some z => Some (x, y, z)
  | _, _, _ => None
  end.

Definition fill (fr : N -> term) (mu : sol) (ts : list tpat) : list triple :=
  flat_map (fun tp => match inst_tpat fr mu tp with Some t => [t] | None => [] end) ts.

(* the explicit supply of fresh blank nodes: one name per (operation index,
   solution index, template block, template label); BNode() in the code *)
Definition FRESH : N := 1000.
Definition fresh (k i j x : N) : term :=
  FRESH + k * 16777216 + i * 65536 + j * 256 + x.

Fixpoint enum_from {A} (n : N) (l : list A) : list (N * A) :=
  match l with [] => [] | x :: r => (n, x) :: enum_from (N.succ n) r end.

(* blocks of a template: the triples outside GRAPH (block 0), then the GRAPH
   blocks in dictionary order *)
Definition blocks (tm : tmpl) : list (option gterm * list tpat) :=
  (None, t_triples tm) :: map (fun p => (Some (fst p), snd p)) (t_quads tm).

(* graph names travel in solutions as term ids 100 + cid *)
Definition GBASE : N := 100.
Definition cid_of_term (v : term) : cid := v - GBASE.
(* ctx.dataset.get_context(None) mints a graph named by a new blank node; the
   harness maps every unknown graph name to this id *)
Definition FRESHG : cid := 900.

(* the graph a template block writes to; None = nothing can happen there:
   removing from the graph that get_context(None) has just minted *)
Definition m_target (ins : bool) (dg : cid) (mu : sol) (g : option gterm) : option cid :=
  match g with
  | None => Some dg
  | Some (TGConst c) => Some c
  | Some (TGVar v) =>
      match lookup v mu with
      | Some t => Some (cid_of_term t)
      | None => if ins then Some FRESHG else None
      end
  end.

Definition m_quads (ins : bool) (k i : N) (dg : cid) (tm : tmpl) (mu : sol) : list quad :=
  flat_map (fun jb => match m_target ins dg mu (fst (snd jb)) with
                      | Some c => map (fun t => (t, c)) (fill (fresh k i (fst jb)) mu (snd (snd jb)))
                      | None => []
                      end)
           (enum_from 0 (blocks tm)).

Definition m_all (ins : bool) (k : N) (dg : cid) (tm : option tmpl) (omega : list sol) : list quad :=
  match tm with
  | None => []
  | Some t => flat_map (fun im => m_quads ins k (fst im) dg t (snd im)) (enum_from 0 omega)
  end.

Definition del_quads (l : list quad) (s : dstate) : dstate :=
  fold_left (fun s q => del1 (GCtx (snd q)) (fst q) s) l s.
Definition add_quads (l : list quad) (s : dstate) : dstate :=
  fold_left (fun s q => add_quad q s) l s.

(* ------------------------------------------------------------------ *)
(* Evaluators                                                           *)

Definition add_blocks (qs : list (cid * list triple)) (s : dstate) : dstate :=
  fold_left (fun s b => add_triples (fst b) (snd b) s) qs s.
Definition sub_blocks (qs : list (cid * list triple)) (s : dstate) : dstate :=
  fold_left (fun s b => g_isub (GCtx (fst b)) (snd b) s) qs s.

Definition is_nil {A} (l : list A) : bool := match l with [] => true | _ => false end.

Definition evalInsertData (e : env) ts qs (s : dstate) : res :=
  bind (g_iadd e (ctx_graph e) ts s) (fun s1 =>
    if is_nil qs then Ok s1
    else if has_dataset e then Ok (add_blocks qs s1) else Raise s1).

Definition evalDeleteData (e : env) ts qs (s : dstate) : res :=
  let s1 := g_isub (ctx_graph e) ts s in
  if is_nil qs then Ok s1
  else if has_dataset e then Ok (sub_blocks qs s1) else Raise s1.

Definition has_gvar (tm : tmpl) : bool :=
  existsb (fun b => match fst b with TGVar _ => true | _ => false end) (t_quads tm).

(* per solution: g -= fill(triples); for each GRAPH block cg -= fill(block) *)
Definition dw_one (e : env) (k : N) (tm : tmpl) (s : dstate) (im : N * sol) : dstate :=
  let mu := snd im in
  let s1 := g_isub (ctx_graph e) (fill (fresh k (fst im) 0) mu (t_triples tm)) s in
  fold_left (fun s jb => match m_target false 0 mu (Some (fst (snd jb))) with
                         | Some c => g_isub (GCtx c) (fill (fresh k (fst im) (fst jb)) mu (snd (snd jb))) s
                         | None => s
                         end)
            (enum_from 1 (t_quads tm)) s1.

Definition evalDeleteWhere (e : env) (k : N) (tm : tmpl) (omega : list sol) (s : dstate) : res :=
  if negb (is_nil (t_quads tm)) && negb (has_dataset e) then Raise s
  else
    (* a GRAPH block named by a variable is matched against
       get_context(Variable), an empty graph: the join has no solutions *)
    let om := if has_gvar tm then [] else omega in
    Ok (fold_left (dw_one e k tm) (enum_from 0 om) s).

Definition tm_has_quads (tm : option tmpl) : bool :=
  match tm with Some t => negb (is_nil (t_quads t)) | None => false end.

Definition evalModify (e : env) (k : N) (w : option cid) (ud : bool)
           (del ins : option tmpl) (omega : list sol) (s : dstate) : res :=
  if negb (has_dataset e) then
    if ud then Raise s                     (* ctx.load needs the dataset *)
    else match w with Some _ => Raise s    (* WITH needs the dataset *)
    | None =>
      let dg := match ctx_graph e with GCtx c => c | GSelf => 0 end in
      match omega with
      | [] => Ok s
      | mu :: _ =>
        if tm_has_quads del then
          (* first solution: dg -= triples, then ctx.dataset raises *)
          match del with
          | Some d => Raise (g_isub (GCtx dg) (fill (fresh k 0 0) mu (t_triples d)) s)
          | None => Raise s
          end
        else
          let s1 := del_quads (m_all false k dg del omega) s in
          if tm_has_quads ins then
            match ins with
            | Some t => Raise (add_triples dg (fill (fresh k 0 0) mu (t_triples t)) s1)
            | None => Raise s1
            end
          else Ok (add_quads (m_all true k dg ins omega) s1)
      end
    end
  else
    let dg := match w with
              | Some c => c
              | None => match ctx_graph e with GCtx c => c | GSelf => 0 end
              end in
    Ok (add_quads (m_all true k dg ins omega) (del_quads (m_all false k dg del omega) s)).

(* _graphAll; None = ctx.dataset raised *)
Definition graph_all (e : env) (g : gspec) (s : dstate) : option (list gref) :=
  match g with
  | GDefault => Some [ctx_graph e]
  | GNamed =>
      if has_dataset e then
        Some (map GCtx (filter (fun c => negb (same_ident e (GCtx c) (ctx_graph e))) (contexts e s)))
      else None
  | GAll => if has_dataset e then Some (map GCtx (contexts e s)) else None
  | GIri c => if has_dataset e then Some [GCtx c] else None
  end.

Definition evalClear (e : env) (g : gspec) (s : dstate) : res :=
  match graph_all e g s with
  | Some gs => Ok (fold_left (fun s g => g_clear g s) gs s)
  | None => Raise s
  end.

Definition evalDrop (e : env) (g : gspec) (s : dstate) : res :=
  if has_dataset e then
    match graph_all e g s with
    | Some gs => Ok (fold_left (fun s g => remove_graph e g s) gs s)
    | None => Raise s
    end
  else Raise s.

(* _graphOrDefault *)
Definition graph_or_default (e : env) (g : gd) : option gref :=
  match g with
  | DDefault => Some (ctx_graph e)
  | DIri c => if has_dataset e then Some (GCtx c) else None
  end.

Definition evalAdd (e : env) (src dst : gd) (s : dstate) : res :=
  match graph_or_default e src, graph_or_default e dst with
  | Some sg, Some dg =>
      if same_ident e sg dg then Ok s else g_iadd_from e dg sg s
  | _, _ => Raise s
  end.

Definition evalCopy (e : env) (src dst : gd) (s : dstate) : res :=
  match graph_or_default e src, graph_or_default e dst with
  | Some sg, Some dg =>
      if same_ident e sg dg then Ok s else g_iadd_from e dg sg (g_clear dg s)
  | _, _ => Raise s
  end.

Definition evalMove (e : env) (src dst : gd) (s : dstate) : res :=
  match graph_or_default e src, graph_or_default e dst with
  | Some sg, Some dg =>
      if same_ident e sg dg then Ok s
      else bind (g_iadd_from e dg sg (g_clear dg s)) (fun s1 => Ok (remove_graph e sg s1))
  | _, _ => Raise s
  end.

Definition silence (silent : bool) (r : res) : res :=
  match r with Raise s => if silent then Ok s else Raise s | _ => r end.

Definition eval_op (e : env) (k : N) (o : uop) (s : dstate) : res :=
  match o with
  | InsertData ts qs => evalInsertData e ts qs s
  | DeleteData ts qs => evalDeleteData e ts qs s
  | DeleteWhere tm om => evalDeleteWhere e k tm om s
  | Modify w ud _ d i om => evalModify e k w ud d i om s
  | Clear sl g => silence sl (evalClear e g s)
  | Drop sl g => silence sl (evalDrop e g s)
  | Add sl a b => silence sl (evalAdd e a b s)
  | Move sl a b => silence sl (evalMove e a b s)
  | Copy sl a b => silence sl (evalCopy e a b s)
  end.

(* evalUpdate: operations in order, the first failure aborts the rest *)
Fixpoint eval_from (e : env) (k : N) (ops : list uop) (s : dstate) : res :=
  match ops with
  | [] => Ok s
  | o :: r => bind (eval_op e k o s) (eval_from e (N.succ k) r)
  end.

(* ------------------------------------------------------------------ *)
(* The historical evalModify loop (before the fix of F5): per solution,
   delete then insert.  Kept for the refutation witness only.           *)

Definition modify_prefix_one (k : N) (dg : cid) (del ins : option tmpl)
           (s : dstate) (im : N * sol) : dstate :=
  let d := match del with Some t => m_quads false k (fst im) dg t (snd im) | None => [] end in
  let i := match ins with Some t => m_quads true k (fst im) dg t (snd im) | None => [] end in
  add_quads i (del_quads d s).

Definition evalModify_prefix (k : N) (dg : cid) (del ins : option tmpl)
           (omega : list sol) (s : dstate) : dstate :=
  fold_left (modify_prefix_one k dg del ins) (enum_from 0 omega) s.

(* ------------------------------------------------------------------ *)
(* Specification: SPARQL 1.1 Update section 3 as transformers of the quad
   set (a graph that is absent is the empty graph).                     *)

Definition qdiff (a b : qset) : qset := filter (fun q => negb (q_mem q b)) a.
Definition in_graph (c : cid) (q : quad) : bool := N.eqb (snd q) c.
Definition graph_of (c : cid) (a : qset) : list triple := map fst (filter (in_graph c) a).
Definition drop_graph (c : cid) (a : qset) : qset := filter (fun q => negb (in_graph c q)) a.
Definition to_graph (c : cid) (ts : list triple) : qset := map (fun t => (t, c)) ts.

(* the default graph of the Graph Store the front end exposes *)
Definition dflt (e : env) : cid := match e_fe e with FGraph k => k | _ => 0 end.

Definition is_lit (e : env) (t : term) : bool := memb N.eqb t (e_lits e).
Definition is_bn (e : env) (t : term) : bool := memb N.eqb t (e_bnodes e) || (FRESH <=? t).
Definition legal (e : env) (t : triple) : bool :=
  let '(s, p, _) := t in
  negb (is_lit e s) && negb (is_lit e p) && negb (is_bn e p).

(* one fresh node per (operation, solution, label): the label's name in the
   first block that mentions it *)
Definition pos_label (p : tpos) (x : N) : bool :=
  match p with PBnode y => N.eqb x y | _ => false end.
Definition tpat_label (tp : tpat) (x : N) : bool :=
  let '(a, b, c) := tp in pos_label a x || pos_label b x || pos_label c x.
Definition block_has (x : N) (b : option gterm * list tpat) : bool :=
  existsb (fun tp => tpat_label tp x) (snd b).
Definition first_block (tm : tmpl) (x : N) : N :=
  match find (fun jb => block_has x (snd jb)) (enum_from 0 (blocks tm)) with
  | Some jb => fst jb
  | None => 0
  end.
Definition sfresh (k i : N) (tm : tmpl) (x : N) : term := fresh k i (first_block tm x) x.

(* quads a template denotes under one solution; [skip] = drop illegal triples
   (insertions); unbound variables and unbound graph names always drop *)
Definition s_target (dg : cid) (mu : sol) (g : option gterm) : option cid :=
  match g with
  | None => Some dg
  | Some (TGConst c) => Some c
  | Some (TGVar v) => match lookup v mu with Some t => Some (cid_of_term t) | None => None end
  end.

Definition s_quads (e : env) (skip : bool) (k i : N) (dg : cid) (tm : tmpl) (mu : sol) : list quad :=
  flat_map (fun b =>
              match s_target dg mu (fst b) with
              | Some c => to_graph c (filter (fun t => negb skip || legal e t)
                                             (fill (sfresh k i tm) mu (snd b)))
              | None => []
              end)
           (blocks tm).

Definition s_all (e : env) (skip : bool) (k : N) (dg : cid) (tm : option tmpl)
           (omega : list sol) : list quad :=
  match tm with
  | None => []
  | Some t => flat_map (fun im => s_quads e skip k (fst im) dg t (snd im)) (enum_from 0 omega)
  end.

Definition data_quads (d : cid) ts (qs : list (cid * list triple)) : list quad :=
  to_graph d ts ++ flat_map (fun b => to_graph (fst b) (snd b)) qs.

Definition gd_cid (e : env) (g : gd) : cid :=
  match g with DDefault => dflt e | DIri c => c end.

Definition spec_clear (e : env) (g : gspec) (a : qset) : qset :=
  match g with
  | GDefault => drop_graph (dflt e) a
  | GNamed => filter (in_graph (dflt e)) a
  | GAll => []
  | GIri c => drop_graph c a
  end.

Definition spec_op (e : env) (k : N) (o : uop) (a : qset) : qset :=
  match o with
  | InsertData ts qs => a ++ data_quads (dflt e) ts qs
  | DeleteData ts qs => qdiff a (data_quads (dflt e) ts qs)
  | DeleteWhere tm om => qdiff a (s_all e false k (dflt e) (Some tm) om)
  | Modify w _ _ d i om =>
      let dg := match w with Some c => c | None => dflt e end in
      qdiff a (s_all e false k dg d om) ++ s_all e true k dg i om
  | Clear _ g | Drop _ g => spec_clear e g a
  | Add _ sg dg =>
      let s := gd_cid e sg in let d := gd_cid e dg in
      if N.eqb s d then a else a ++ to_graph d (graph_of s a)
  | Copy _ sg dg =>
      let s := gd_cid e sg in let d := gd_cid e dg in
      if N.eqb s d then a else drop_graph d a ++ to_graph d (graph_of s a)
  | Move _ sg dg =>
      let s := gd_cid e sg in let d := gd_cid e dg in
      if N.eqb s d then a else drop_graph s (drop_graph d a ++ to_graph d (graph_of s a))
  end.

Fixpoint spec_from (e : env) (k : N) (ops : list uop) (a : qset) : qset :=
  match ops with
  | [] => a
  | o :: r => spec_from e (N.succ k) r (spec_op e k o a)
  end.

(* a plain Graph is a Graph Store with one graph; requests that address named
   graphs are outside the property's domain there *)
Definition needs_dataset (o : uop) : bool :=
  match o with
  | InsertData _ qs | DeleteData _ qs => negb (is_nil qs)
  | DeleteWhere tm _ => negb (is_nil (t_quads tm))
  | Modify w ud un d i _ =>
      match w with Some _ => true | None => false end || ud || un
      || tm_has_quads d || tm_has_quads i
  | Clear _ g | Drop _ g => match g with GDefault => false | _ => true end
  | Add _ a b | Move _ a b | Copy _ a b =>
      match a, b with DDefault, DDefault => false | _, _ => true end
  end.

Definition in_scope (e : env) (ops : list uop) : bool :=
  has_dataset e || forallb (fun o => negb (needs_dataset o)) ops.

(* ------------------------------------------------------------------ *)
(* Equality of quad sets up to a renaming of the fresh blank nodes      *)

Definition is_fresh (t : term) : bool := FRESH <=? t.

Definition triple_terms (t : triple) : list term := let '(a, b, c) := t in [a; b; c].
Definition fresh_of (a : qset) : list term :=
  dedup N.eqb (filter is_fresh (flat_map (fun q => triple_terms (fst q)) a)).

Fixpoint ren (m : list (term * term)) (t : term) : term :=
  match m with
  | [] => t
  | (x, y) :: r => if N.eqb t x then y else ren r t
  end.
Definition ren_triple m (t : triple) : triple :=
  let '(a, b, c) := t in (ren m a, ren m b, ren m c).
Definition ren_quads m (a : qset) : qset := map (fun q => (ren_triple m (fst q), snd q)) a.

(* pruning (does not affect what a successful search means): after x is
   assigned, every quad of [a] that mentions x and whose fresh nodes are all
   assigned must already be in [b] *)
Definition mentions (x : term) (q : quad) : bool :=
  let '(a, b, c) := fst q in N.eqb a x || N.eqb b x || N.eqb c x.
Definition assigned (m : list (term * term)) (t : term) : bool :=
  negb (is_fresh t) || existsb (fun p => N.eqb (fst p) t) m.
Definition all_assigned (m : list (term * term)) (q : quad) : bool :=
  forallb (assigned m) (triple_terms (fst q)).
Definition ren_quad m (q : quad) : quad := (ren_triple m (fst q), snd q).
Definition partial_ok (a b : qset) (m : list (term * term)) (x : term) : bool :=
  forallb (fun q => negb (mentions x q && all_assigned m q) || q_mem (ren_quad m q) b) a.

(* (written with if-then-else: the virtual machine evaluates both arguments of
   && and ||) *)
Fixpoint iso_search (a b : qset) (xs ys : list term) (m : list (term * term)) : bool :=
  match xs with
  | [] => qseteqb (ren_quads m a) b
  | x :: r =>
      (fix try (cands : list term) : bool :=
         match cands with
         | [] => false
         | y :: rest =>
             if (if partial_ok a b ((x, y) :: m) x
                 then iso_search a b r (srem N.eqb y ys) ((x, y) :: m) else false)
             then true else try rest
         end) ys
  end.

(* necessary conditions checked first: same number of fresh nodes, same number
   of distinct quads, the quads of [a] without fresh nodes are in [b] *)
Definition iso_eqb (a b : qset) : bool :=
  if Nat.eqb (length (fresh_of a)) (length (fresh_of b)) then
    if Nat.eqb (length (dedup quad_eqb a)) (length (dedup quad_eqb b)) then
      if forallb (fun q => negb (all_assigned [] q) || q_mem q b) a then
        iso_search a b (fresh_of a) (fresh_of b) []
      else false
    else false
  else false.

(* ------------------------------------------------------------------ *)
(* Known-finding triggers                                               *)

Definition self_mode (e : env) : bool := has_dataset e && e_union e.
Definition is_ds (e : env) : bool := match e_fe e with FDS => true | _ => false end.

Definition labels_of (ts : list tpat) : list N :=
  flat_map (fun tp => let '(a, b, c) := tp in
              flat_map (fun p => match p with PBnode x => [x] | _ => [] end) [a; b; c]) ts.

(* F10d: a label used in two different blocks of one template *)
Definition shared_label (tm : tmpl) : bool :=
  existsb (fun jb =>
             existsb (fun x => negb (N.eqb (first_block tm x) (fst jb))) (labels_of (snd (snd jb))))
          (enum_from 0 (blocks tm)).

(* F10c: some instantiated insertion is not a legal RDF triple *)
Definition illegal_insert (e : env) (k : N) (tm : tmpl) (omega : list sol) : bool :=
  existsb (fun im => negb (forallb (fun q => legal e (fst q)) (m_quads true k (fst im) 0 tm (snd im))))
          (enum_from 0 omega).

(* F10e: a GRAPH ?g block with ?g unbound that still produces triples *)
Definition unbound_graph (k : N) (tm : tmpl) (omega : list sol) : bool :=
  existsb (fun im =>
     existsb (fun jb => match fst (snd jb) with
                        | Some (TGVar v) =>
                            match lookup v (snd im) with
                            | None => negb (is_nil (fill (fresh k (fst im) (fst jb)) (snd im) (snd (snd jb))))
                            | Some _ => false
                            end
                        | _ => false
                        end)
             (enum_from 0 (blocks tm)))
    (enum_from 0 omega).

(* F10h: evalDeleteWhere consumes evalBGP(ctx, u.triples) lazily while it
   deletes; with two or more triple patterns outside GRAPH and two or more
   solutions the pattern is no longer matched against the state before the
   operation (the model, which takes the solution list of that state, is not
   faithful in this region) *)
Definition lazy_region (tm : tmpl) (om : list sol) : bool :=
  match t_triples tm, om with
  | _ :: _ :: _, _ :: _ :: _ => true
  | _, _ => false
  end.

Definition opt_tm (f : tmpl -> bool) (t : option tmpl) : bool :=
  match t with Some x => f x | None => false end.

Definition op_kf (e : env) (k : N) (o : uop) : N :=
  match o with
  | InsertData ts _ => if self_mode e && is_ds e && negb (is_nil ts) then 2 else 0
  | DeleteData ts _ => if self_mode e && negb (is_nil ts) then 1 else 0
  | DeleteWhere tm om =>
      if has_gvar tm && negb (is_nil om) then 6
      else if self_mode e && negb (is_nil (t_triples tm)) && negb (is_nil om) then 1
      else if lazy_region tm om then 8 else 0
  | Modify _ _ _ d i om =>
      if opt_tm (fun t => illegal_insert e k t om) i then 3
      else if opt_tm (fun t => shared_label t && negb (is_nil om)) i then 4
      else if opt_tm (fun t => unbound_graph k t om) i then 5
      else 0
  | Clear _ g =>
      if self_mode e then
        match g with GDefault => 1 | GNamed => if is_ds e then 2 else 0 | _ => 0 end
      else 0
  | Drop _ g =>
      if negb (has_dataset e) then match g with GDefault => 7 | _ => 0 end
      else if self_mode e && is_ds e then
        match g with GDefault | GNamed => 2 | _ => 0 end
      else 0
  | Add _ a b =>
      if self_mode e then
        match a, b with
        | DDefault, DIri _ => if is_ds e then 2 else 1
        | DIri _, DDefault => if is_ds e then 2 else 0
        | _, _ => 0
        end
      else 0
  | Move _ a b | Copy _ a b =>
      if self_mode e then
        match a, b with
        | DDefault, DIri _ | DIri _, DDefault => if is_ds e then 2 else 1
        | _, _ => 0
        end
      else 0
  end.

Fixpoint kf_from (e : env) (k : N) (ops : list uop) : N :=
  match ops with
  | [] => 0
  | o :: r => match op_kf e k o with 0 => kf_from e (N.succ k) r | n => n end
  end.

(* ------------------------------------------------------------------ *)
(* Entry points used by the correspondence check                        *)

Record case := { c_env : env; c_quads : qset; c_known : list cid; c_ops : list uop }.

(* final quads, known named graphs, did the request raise *)
Definition obs := (qset * list cid * bool)%type.

Definition init_state (c : case) : dstate := {| quads := c_quads c; known := c_known c |}.

Definition named_only (l : list cid) : list cid := filter (fun c => negb (N.eqb c 0)) l.

Definition model_obs (c : case) : obs :=
  match eval_from (c_env c) 0 (c_ops c) (init_state c) with
  | Ok s => (quads s, named_only (known s), false)
  | Raise s => (quads s, named_only (known s), true)
  end.

Definition obs_eqb (a b : obs) : bool :=
  let '(qa, ka, ra) := a in let '(qb, kb, rb) := b in
  if Bool.eqb ra rb then if seteqb N.eqb ka kb then iso_eqb qa qb else false else false.

Definition spec_ok (c : case) (o : obs) : bool :=
  let '(q, kn, raised) := o in
  if in_scope (c_env c) (c_ops c) then
    if raised then false
    else if forallb (fun x => N.eqb (snd x) 0 || memb N.eqb (snd x) kn) q
    then iso_eqb q (spec_from (c_env c) 0 (c_ops c) (c_quads c))
    else false
  else true.

Definition kf (c : case) : N := kf_from (c_env c) 0 (c_ops c).
