(* Model of rdflib/plugins/sparql/update.py (as repaired by the "fix:" commits
   for F5, F10a, F10b, F10c, F10d, F10e, F10g, F10h) over a dataset = quad set
   + set of graph names the store knows (Memory.__all_contexts), cid 0 = the
   default graph of the front end.  Statement by statement for evalInsertData,
   evalDeleteData, evalDeleteWhere (over list(res)), evalModify (all deletions
   of all solutions, then all insertions; _legal; one bnodeMap per solution;
   unbound graph names skipped), evalClear, evalDrop (plain Graph: evalClear),
   evalAdd, evalMove, evalCopy, _defaultGraph, _graphAll, _graphOrDefault,
   _fillTemplate and the loop of evalUpdate (first failure aborts, SILENT
   swallows).  The WHERE clause of an operation enters as its solution list
   (a field of the operation).  No proofs in this file. *)
From RV Require Export Base.Quads.
(* the model of evaluate.py (evalPart, top-down) and the bottom-up algebra of
   property C04, used for WHERE clauses that are evaluated inside this model *)
From RV Require Sparql.EvalTD.
Local Open Scope N_scope.

(* ------------------------------------------------------------------ *)
(* Front ends                                                           *)

Inductive fe :=
| FGraph (k : cid)   (* a plain Graph named k over the shared store: ctx.dataset raises *)
| FCG                (* ConjunctiveGraph *)
| FDS.               (* Dataset *)

(* e_union = SPARQL_DEFAULT_GRAPH_UNION: it decides what WHERE reads outside
   GRAPH (i.e. the solution lists, which are inputs here); since the repair
   of F10a/F10b no evaluator's write depends on it *)
Record env := { e_fe : fe; e_union : bool;
                e_lits : list term;      (* term ids that are literals *)
                e_bnodes : list term }.  (* term ids (< 1000) that are blank nodes *)

Record dstate := { quads : qset; known : list cid }.

Inductive res := Ok (s : dstate) | Raise (s : dstate).

Definition bind (r : res) (f : dstate -> res) : res :=
  match r with Ok s => f s | Raise s => Raise s end.

Definition has_dataset (e : env) : bool :=
  match e_fe e with FGraph _ => false | _ => true end.

(* _defaultGraph(ctx): ctx.graph when it is exactly a Graph (plain Graph front
   end; default context when the switch is off), else dataset.default_context:
   in every case the real default graph of the front end *)
Definition dflt (e : env) : cid := match e_fe e with FGraph k => k | _ => 0 end.

(* ------------------------------------------------------------------ *)
(* Store primitives (Memory.add / remove / remove_graph through Graph)  *)

Definition add_quad (q : quad) (s : dstate) : dstate :=
  {| quads := q_add q (quads s); known := sadd N.eqb (snd q) (known s) |}.

(* g += ts for a context graph (Graph.__iadd__ -> addN -> store.add) *)
Definition add_triples (c : cid) (ts : list triple) (s : dstate) : dstate :=
  fold_left (fun s t => add_quad (t, c) s) ts s.

(* Graph.remove(t) on a context graph *)
Definition del1 (c : cid) (t : triple) (s : dstate) : dstate :=
  {| quads := q_remove (pat_of t) (Some c) (quads s); known := known s |}.

(* g -= ts  (Graph.__isub__) *)
Definition g_isub (c : cid) (ts : list triple) (s : dstate) : dstate :=
  fold_left (fun s t => del1 c t s) ts s.

(* g.remove((None, None, None)) *)
Definition g_clear (c : cid) (s : dstate) : dstate :=
  {| quads := q_remove (None, None, None) (Some c) (quads s); known := known s |}.

(* dst += src for two context graphs: the triples of src are a snapshot *)
Definition g_iadd_from (dst src : cid) (s : dstate) : dstate :=
  add_triples dst (q_triples (None, None, None) src (quads s)) s.

(* store.remove_graph(g) *)
Definition forget (c : cid) (s : dstate) : dstate :=
  {| quads := quads s; known := srem N.eqb c (known s) |}.
Definition remove_graph (c : cid) (s : dstate) : dstate := forget c (g_clear c s).

(* ctx.dataset.contexts(): Dataset.contexts appends the default graph *)
Definition contexts (e : env) (s : dstate) : list cid :=
  match e_fe e with
  | FDS => if memb N.eqb 0 (known s) then known s else known s ++ [0]
  | _ => known s
  end.

(* ------------------------------------------------------------------ *)
(* Requests                                                             *)

Inductive gspec := GDefault | GNamed | GAll | GIri (c : cid).
Inductive gd := DDefault | DIri (c : cid).

Inductive tpos := PConst (t : term) | PVar (v : N) | PBnode (x : N).
Definition tpat := (tpos * tpos * tpos)%type.
Inductive gterm := TGConst (c : cid) | TGVar (v : N).
Record tmpl := { t_triples : list tpat; t_quads : list (gterm * list tpat) }.

Definition sol := list (N * term).

Inductive uop :=
| InsertData (ts : list triple) (qs : list (cid * list triple))
| DeleteData (ts : list triple) (qs : list (cid * list triple))
| DeleteWhere (t : tmpl) (omega : list sol)
| Modify (w : option cid) (using_default using_named : bool)
         (del ins : option tmpl) (omega : list sol)
| DeleteWhereW (t : tmpl)                             (* solutions computed by the model *)
| ModifyW (w : option cid) (usingd usingn : list cid)
          (del ins : option tmpl) (where_ : Sparql.Algebra.alg)   (* WHERE evaluated by the model *)
| Clear (silent : bool) (g : gspec)
| Drop (silent : bool) (g : gspec)
| Add (silent : bool) (src dst : gd)
| Move (silent : bool) (src dst : gd)
| Copy (silent : bool) (src dst : gd)
| Create (silent : bool) (c : cid).

(* ------------------------------------------------------------------ *)
(* _fillTemplate, _legal                                                *)

Definition lookup (v : N) (mu : sol) : option term :=
  match find (fun p => N.eqb (fst p) v) mu with Some p => Some (snd p) | None => None end.

Definition inst_pos (fr : N -> term) (mu : sol) (p : tpos) : option term :=
  match p with
  | PConst t => Some t
  | PVar v => lookup v mu
  | PBnode x => Some (fr x)
  end.

Definition inst_tpat (fr : N -> term) (mu : sol) (tp : tpat) : option triple :=
  let '(a, b, c) := tp in
  match inst_pos fr mu a, inst_pos fr mu b, inst_pos fr mu c with
  | Some x, Some y, Some z => Some (x, y, z)
  | _, _, _ => None
  end.

Definition fill (fr : N -> term) (mu : sol) (ts : list tpat) : list triple :=
  flat_map (fun tp => match inst_tpat fr mu tp with Some t => [t] | None => [] end) ts.

(* the explicit supply of fresh blank nodes: one name per (operation index,
   solution index, template label) - evalModify's bnodeMap lives for one
   solution and is shared by all blocks of the INSERT template; BNode() *)
Definition FRESH : N := 1000.
Definition fresh (k i x : N) : term := FRESH + k * 16777216 + i * 65536 + x.

Definition is_lit (e : env) (t : term) : bool := memb N.eqb t (e_lits e).
Definition is_bn (e : env) (t : term) : bool := memb N.eqb t (e_bnodes e) || (FRESH <=? t).
(* _legal: subject an IRI or blank node, predicate an IRI *)
Definition legal (e : env) (t : triple) : bool :=
  let '(s, p, _) := t in
  negb (is_lit e s) && negb (is_lit e p) && negb (is_bn e p).

Fixpoint enum_from {A} (n : N) (l : list A) : list (N * A) :=
  match l with [] => [] | x :: r => (n, x) :: enum_from (N.succ n) r end.

(* blocks of a template: the triples outside GRAPH, then the GRAPH blocks in
   dictionary order *)
Definition blocks (tm : tmpl) : list (option gterm * list tpat) :=
  (None, t_triples tm) :: map (fun p => (Some (fst p), snd p)) (t_quads tm).

(* graph names travel in solutions as term ids 100 + cid *)
Definition GBASE : N := 100.
Definition cid_of_term (v : term) : cid := v - GBASE.

(* the graph a template block addresses under a solution; None = the graph
   name is an unbound variable: "continue" *)
Definition m_target (dg : cid) (mu : sol) (g : option gterm) : option cid :=
  match g with
  | None => Some dg
  | Some (TGConst c) => Some c
  | Some (TGVar v) => match lookup v mu with Some t => Some (cid_of_term t) | None => None end
  end.

(* the quads one solution deletes (ins = false) or inserts (ins = true) *)
Definition m_quads (e : env) (ins : bool) (k i : N) (dg : cid) (tm : tmpl) (mu : sol) : list quad :=
  flat_map (fun b => match m_target dg mu (fst b) with
                     | Some c =>
                         let ts := fill (fresh k i) mu (snd b) in
                         map (fun t => (t, c)) (if ins then filter (legal e) ts else ts)
                     | None => []
                     end)
           (blocks tm).

Definition m_all (e : env) (ins : bool) (k : N) (dg : cid) (tm : option tmpl) (omega : list sol) : list quad :=
  match tm with
  | None => []
  | Some t => flat_map (fun im => m_quads e ins k (fst im) dg t (snd im)) (enum_from 0 omega)
  end.

Definition del_quads (l : list quad) (s : dstate) : dstate :=
  fold_left (fun s q => del1 (snd q) (fst q) s) l s.
Definition add_quads (l : list quad) (s : dstate) : dstate :=
  fold_left (fun s q => add_quad q s) l s.

(* ------------------------------------------------------------------ *)
(* Evaluators                                                           *)

Definition add_blocks (qs : list (cid * list triple)) (s : dstate) : dstate :=
  fold_left (fun s b => add_triples (fst b) (snd b) s) qs s.
Definition sub_blocks (qs : list (cid * list triple)) (s : dstate) : dstate :=
  fold_left (fun s b => g_isub (fst b) (snd b) s) qs s.

Definition is_nil {A} (l : list A) : bool := match l with [] => true | _ => false end.

Definition evalInsertData (e : env) ts qs (s : dstate) : res :=
  let s1 := add_triples (dflt e) ts s in
  if is_nil qs then Ok s1
  else if has_dataset e then Ok (add_blocks qs s1) else Raise s1.

Definition evalDeleteData (e : env) ts qs (s : dstate) : res :=
  let s1 := g_isub (dflt e) ts s in
  if is_nil qs then Ok s1
  else if has_dataset e then Ok (sub_blocks qs s1) else Raise s1.

Definition has_gvar (tm : tmpl) : bool :=
  existsb (fun b => match fst b with TGVar _ => true | _ => false end) (t_quads tm).

(* per solution: g -= fill(triples); for each GRAPH block cg -= fill(block) *)
Definition dw_one (e : env) (k : N) (tm : tmpl) (s : dstate) (im : N * sol) : dstate :=
  let mu := snd im in
  let s1 := g_isub (dflt e) (fill (fresh k (fst im)) mu (t_triples tm)) s in
  fold_left (fun s b => match m_target 0 mu (Some (fst b)) with
                        | Some c => g_isub c (fill (fresh k (fst im)) mu (snd b)) s
                        | None => s
                        end)
            (t_quads tm) s1.

Definition evalDeleteWhere (e : env) (k : N) (tm : tmpl) (omega : list sol) (s : dstate) : res :=
  if negb (is_nil (t_quads tm)) && negb (has_dataset e) then Raise s
  else
    Ok (fold_left (dw_one e k tm) (enum_from 0 omega) s).

Definition tm_has_quads (tm : option tmpl) : bool :=
  match tm with Some t => negb (is_nil (t_quads t)) | None => false end.

(* through a plain Graph a GRAPH block whose name is bound makes ctx.dataset
   raise, after the triples outside GRAPH of that solution have been processed *)
Fixpoint nd_loop (f : N -> sol -> dstate -> dstate) (blocked : sol -> bool)
         (l : list (N * sol)) (s : dstate) : res :=
  match l with
  | [] => Ok s
  | im :: r => let s1 := f (fst im) (snd im) s in
               if blocked (snd im) then Raise s1 else nd_loop f blocked r s1
  end.

Definition nd_blocked (tm : tmpl) (mu : sol) : bool :=
  existsb (fun b => match m_target 0 mu (Some (fst b)) with Some _ => true | None => false end) (t_quads tm).

Definition nd_modify (e : env) (k : N) (dg : cid) (del ins : option tmpl) (omega : list sol) (s : dstate) : res :=
  let l := enum_from 0 omega in
  bind (match del with
        | Some d => nd_loop (fun i mu s => g_isub dg (fill (fresh k i) mu (t_triples d)) s) (nd_blocked d) l s
        | None => Ok s
        end)
       (fun s1 => match ins with
                  | Some t => nd_loop (fun i mu s => add_triples dg (filter (legal e) (fill (fresh k i) mu (t_triples t))) s)
                                      (nd_blocked t) l s1
                  | None => Ok s1
                  end).

Definition evalModify (e : env) (k : N) (w : option cid) (ud : bool)
           (del ins : option tmpl) (omega : list sol) (s : dstate) : res :=
  if negb (has_dataset e) then
    if ud then Raise s                     (* USING / USING NAMED: QueryContext(ctx.dataset, ...) *)
    else match w with
         | Some _ => Raise s               (* WITH needs the dataset *)
         | None =>
             if tm_has_quads del || tm_has_quads ins then nd_modify e k (dflt e) del ins omega s
             else Ok (add_quads (m_all e true k (dflt e) ins omega)
                                (del_quads (m_all e false k (dflt e) del omega) s))
         end
  else
    (* dg = ctx.graph if type(ctx.graph) is Graph else default_context; WITH
       pushes its graph also when USING / USING NAMED is present *)
    let dg := match w with Some c => c | None => dflt e end in
    Ok (add_quads (m_all e true k dg ins omega) (del_quads (m_all e false k dg del omega) s)).

(* ------------------------------------------------------------------ *)
(* the WHERE clause evaluated inside the model                          *)

Definition graph_at (c : cid) (a : qset) : Sparql.Algebra.graph := q_triples (None, None, None) c a.
(* the named graphs: every graph other than the default graph that holds a quad
   (a known graph without triples has no solution for a non-empty group) *)
Definition named_of (a : qset) : list cid :=
  filter (fun c => negb (N.eqb c 0)) (dedup N.eqb (map snd a)).
Definition gname (c : cid) : term := GBASE + c.
Definition named_graphs (cs : list cid) (a : qset) : list (term * Sparql.Algebra.graph) :=
  map (fun c => (gname c, graph_at c a)) cs.
Definition union_graph (a : qset) : Sparql.Algebra.graph := dedup triple_eqb (map fst a).
(* USING <a> USING <b>: ctx.load copies the graphs into one scratch Graph *)
Definition merge_graphs (cs : list cid) (a : qset) : Sparql.Algebra.graph :=
  dedup triple_eqb (flat_map (fun c => graph_at c a) cs).

(* ctx.graph as QueryContext.__init__ sets it *)
Definition ctx_active (e : env) (a : qset) : Sparql.Algebra.graph :=
  match e_fe e with
  | FGraph k => graph_at k a
  | FCG => if e_union e then union_graph a else graph_at 0 a
  | FDS => graph_at 0 a     (* the Dataset object reads its default graph: default_union is False *)
  end.

(* the dataset evalModify evaluates WHERE on (after the repair of F10i): under
   USING / USING NAMED it is QueryContext(dataset, datasetClause=u.using) - the
   active graph is a scratch Graph holding the USING graphs, the named graphs are
   copies of the USING NAMED graphs in a fresh Dataset; otherwise ctx itself, with
   the WITH graph pushed *)
Definition m_active (e : env) (w : option cid) (ud un : list cid) (a : qset) : Sparql.Algebra.graph :=
  match ud, un with
  | [], [] => match w with Some c => graph_at c a | None => ctx_active e a end
  | _, _ => merge_graphs ud a
  end.

Definition m_named (ud un : list cid) (a : qset) : list cid :=
  match ud, un with
  | [], [] => named_of a
  | _, _ => filter (fun c => memb N.eqb c un) (named_of a)
  end.

Definition m_ds (e : env) (w : option cid) (ud un : list cid) (a : qset) : Sparql.Algebra.dataset :=
  {| Sparql.Algebra.ds_default := m_active e w ud un a;
     Sparql.Algebra.ds_named := if has_dataset e then named_graphs (m_named ud un a) a else [] |}.

Definition m_omega (e : env) (w : option cid) (ud un : list cid) (p : Sparql.Algebra.alg) (a : qset) : list sol :=
  Sparql.EvalTD.eval_td (m_ds e w ud un a) (m_active e w ud un a) [] p.

(* DELETE WHERE: its quad pattern is pattern and template.  evalDeleteWhere (after the
   repair of F10f): res = evalBGP(ctx, u.triples); for every GRAPH block
   res = _join(res, list(evalPart(ctx, Graph(term=g, p=BGP(block))))) *)
Definition conv_pos (p : tpos) : Sparql.Algebra.tv :=
  match p with
  | PConst t => Sparql.Algebra.Tm t
  | PVar v => Sparql.Algebra.Vr v
  | PBnode x => Sparql.Algebra.Tm 0      (* not in the grammar of DELETE WHERE *)
  end.
Definition conv_tpat (tp : tpat) : Sparql.Algebra.tpat :=
  let '(x, y, z) := tp in (conv_pos x, conv_pos y, conv_pos z).
Definition conv_gterm (g : gterm) : Sparql.Algebra.tv :=
  match g with TGConst c => Sparql.Algebra.Tm (gname c) | TGVar v => Sparql.Algebra.Vr v end.
Definition block_alg (b : gterm * list tpat) : Sparql.Algebra.alg :=
  Sparql.Algebra.Graph (conv_gterm (fst b)) (Sparql.Algebra.BGP (map conv_tpat (snd b))).

Definition dw_omega (e : env) (tm : tmpl) (a : qset) : list sol :=
  let g := ctx_active e a in
  let ds := m_ds e None [] [] a in
  fold_left (fun res b => Sparql.Algebra.join_lists res (Sparql.EvalTD.eval_td ds g [] (block_alg b)))
            (t_quads tm)
            (Sparql.EvalTD.eval_bgp g [] (map conv_tpat (t_triples tm))).

Fixpoint uses_graph (p : Sparql.Algebra.alg) : bool :=
  match p with
  | Sparql.Algebra.BGP _ | Sparql.Algebra.Values _ => false
  | Sparql.Algebra.Join _ a b | Sparql.Algebra.Union a b | Sparql.Algebra.Minus a b | Sparql.Algebra.LeftJoin _ a b _ => uses_graph a || uses_graph b
  | Sparql.Algebra.Filter _ _ _ q | Sparql.Algebra.Extend _ q _ _ | Sparql.Algebra.Project q _ | Sparql.Algebra.Distinct q | Sparql.Algebra.Slice _ q => uses_graph q
  | Sparql.Algebra.Graph _ _ => true
  end.

(* _graphAll; None = ctx.dataset raised *)
Definition graph_all (e : env) (g : gspec) (s : dstate) : option (list cid) :=
  match g with
  | GDefault => Some [dflt e]
  | GNamed =>
      if has_dataset e then Some (filter (fun c => negb (N.eqb c 0)) (contexts e s)) else None
  | GAll => if has_dataset e then Some (contexts e s) else None
  | GIri c => if has_dataset e then Some [c] else None
  end.

Definition evalClear (e : env) (g : gspec) (s : dstate) : res :=
  match graph_all e g s with
  | Some gs => Ok (fold_left (fun s c => g_clear c s) gs s)
  | None => Raise s
  end.

(* Memory is graph_aware; a plain Graph has no dataset: evalClear *)
Definition evalDrop (e : env) (g : gspec) (s : dstate) : res :=
  if has_dataset e then
    match graph_all e g s with
    | Some gs => Ok (fold_left (fun s c => remove_graph c s) gs s)
    | None => Raise s
    end
  else evalClear e g s.

(* _graphOrDefault *)
Definition graph_or_default (e : env) (g : gd) : option cid :=
  match g with
  | DDefault => Some (dflt e)
  | DIri c => if has_dataset e then Some c else None
  end.

Definition evalAdd (e : env) (src dst : gd) (s : dstate) : res :=
  match graph_or_default e src, graph_or_default e dst with
  | Some sg, Some dg => if N.eqb sg dg then Ok s else Ok (g_iadd_from dg sg s)
  | _, _ => Raise s
  end.

Definition evalCopy (e : env) (src dst : gd) (s : dstate) : res :=
  match graph_or_default e src, graph_or_default e dst with
  | Some sg, Some dg => if N.eqb sg dg then Ok s else Ok (g_iadd_from dg sg (g_clear dg s))
  | _, _ => Raise s
  end.

Definition evalMove (e : env) (src dst : gd) (s : dstate) : res :=
  match graph_or_default e src, graph_or_default e dst with
  | Some sg, Some dg =>
      if N.eqb sg dg then Ok s else Ok (remove_graph sg (g_iadd_from dg sg (g_clear dg s)))
  | _, _ => Raise s
  end.

Definition silence (silent : bool) (r : res) : res :=
  match r with Raise s => if silent then Ok s else Raise s | _ => r end.

Definition eval_op (e : env) (k : N) (o : uop) (s : dstate) : res :=
  match o with
  | InsertData ts qs => evalInsertData e ts qs s
  | DeleteData ts qs => evalDeleteData e ts qs s
  | DeleteWhere tm om => evalDeleteWhere e k tm om s
  | DeleteWhereW tm => evalDeleteWhere e k tm (dw_omega e tm (quads s)) s
  (* the solution SEQUENCE is applied as it is: after the repair of F10l the hash join on top of
     u.where keeps the multiplicities of its right operand *)
  | Modify w ud un d i om => evalModify e k w (ud || un) d i om s
  | ModifyW w ud un d i p =>
      (* evalGraph raises without a dataset, when list(res) is forced: before any write *)
      if negb (has_dataset e) && uses_graph p then Raise s
      else evalModify e k w (negb (is_nil ud) || negb (is_nil un)) d i (m_omega e w ud un p (quads s)) s
  | Clear sl g => silence sl (evalClear e g s)
  | Drop sl g => silence sl (evalDrop e g s)
  | Add sl a b => silence sl (evalAdd e a b s)
  | Move sl a b => silence sl (evalMove e a b s)
  | Copy sl a b => silence sl (evalCopy e a b s)
  (* evalCreate: ctx.dataset (raises for a plain Graph), "already exists" for a
     graph with triples, else "Create not implemented!": it always raises *)
  | Create sl c => silence sl (Raise s)
  end.

(* evalUpdate: operations in order, the first failure aborts the rest *)
Fixpoint eval_from (e : env) (k : N) (ops : list uop) (s : dstate) : res :=
  match ops with
  | [] => Ok s
  | o :: r => bind (eval_op e k o s) (eval_from e (N.succ k) r)
  end.

(* ------------------------------------------------------------------ *)
(* Historical definitions, kept for refutation witnesses only           *)

(* evalModify before the fix of F5: per solution, delete then insert *)
Definition modify_prefix_one (e : env) (k : N) (dg : cid) (del ins : option tmpl)
           (s : dstate) (im : N * sol) : dstate :=
  let d := match del with Some t => m_quads e false k (fst im) dg t (snd im) | None => [] end in
  let i := match ins with Some t => m_quads e true k (fst im) dg t (snd im) | None => [] end in
  add_quads i (del_quads d s).

Definition evalModify_prefix (e : env) (k : N) (dg : cid) (del ins : option tmpl)
           (omega : list sol) (s : dstate) : dstate :=
  fold_left (modify_prefix_one e k dg del ins) (enum_from 0 omega) s.

(* DELETE DATA of a triple outside GRAPH before the fix of F10a, switch on:
   ConjunctiveGraph.remove(triple) addresses every context *)
Definition deldata_prefix_union (ts : list triple) (s : dstate) : dstate :=
  fold_left (fun s t => {| quads := q_remove (pat_of t) None (quads s); known := known s |}) ts s.

(* ------------------------------------------------------------------ *)
(* Specification: SPARQL 1.1 Update section 3 as transformers of the quad
   set (a graph that is absent is the empty graph).                     *)

Definition qdiff (a b : qset) : qset := filter (fun q => negb (q_mem q b)) a.
Definition in_graph (c : cid) (q : quad) : bool := N.eqb (snd q) c.
Definition graph_of (c : cid) (a : qset) : list triple := map fst (filter (in_graph c) a).
Definition drop_graph (c : cid) (a : qset) : qset := filter (fun q => negb (in_graph c q)) a.
Definition to_graph (c : cid) (ts : list triple) : qset := map (fun t => (t, c)) ts.

(* [dflt e] is the default graph of the Graph Store the front end exposes;
   [legal] the RDF well-formedness of a triple; both defined above *)

(* one fresh node per (operation, solution, label) *)
Definition sfresh (k i : N) (x : N) : term := fresh k i x.

(* quads a template denotes under one solution; [skip] = drop illegal triples
   (insertions); unbound variables and unbound graph names always drop *)
Definition s_target (dg : cid) (mu : sol) (g : option gterm) : option cid :=
  match g with
  | None => Some dg
  | Some (TGConst c) => Some c
  | Some (TGVar v) => match lookup v mu with Some t => Some (cid_of_term t) | None => None end
  end.

Definition s_quads (e : env) (skip : bool) (k i : N) (dg : cid) (tm : tmpl) (mu : sol) : list quad :=
  flat_map (fun b =>
              match s_target dg mu (fst b) with
              | Some c => to_graph c (filter (fun t => negb skip || legal e t)
                                             (fill (sfresh k i) mu (snd b)))
              | None => []
              end)
           (blocks tm).

Definition s_all (e : env) (skip : bool) (k : N) (dg : cid) (tm : option tmpl)
           (omega : list sol) : list quad :=
  match tm with
  | None => []
  | Some t => flat_map (fun im => s_quads e skip k (fst im) dg t (snd im)) (enum_from 0 omega)
  end.

Definition data_quads (d : cid) ts (qs : list (cid * list triple)) : list quad :=
  to_graph d ts ++ flat_map (fun b => to_graph (fst b) (snd b)) qs.

Definition gd_cid (e : env) (g : gd) : cid :=
  match g with DDefault => dflt e | DIri c => c end.

Definition spec_clear (e : env) (g : gspec) (a : qset) : qset :=
  match g with
  | GDefault => drop_graph (dflt e) a
  | GNamed => filter (in_graph (dflt e)) a
  | GAll => []
  | GIri c => drop_graph c a
  end.

(* the query dataset of SPARQL 1.1 Update 3.1.3: without USING / USING NAMED the
   Graph Store's own dataset: default graph = the WITH graph if given, else the
   store's default graph - for a ConjunctiveGraph the union of all graphs when
   the switch is on, for a Dataset(default_union=False) its real default graph
   (the store's own configuration decides what its default graph is), for a
   plain Graph the graph itself; with them: default
   graph = merge of the USING graphs (empty if none), named graphs = the USING
   NAMED graphs *)
Definition s_active (e : env) (w : option cid) (ud un : list cid) (a : qset) : Sparql.Algebra.graph :=
  match ud, un with
  | [], [] => match w with
              | Some c => graph_at c a
              | None => ctx_active e a
              end
  | _, _ => merge_graphs ud a
  end.
Definition s_named (e : env) (ud un : list cid) (a : qset) : list cid :=
  if has_dataset e then
    match ud, un with
    | [], [] => named_of a
    | _, _ => filter (fun c => memb N.eqb c un) (named_of a)
    end
  else [].
Definition s_omega (e : env) (w : option cid) (ud un : list cid) (p : Sparql.Algebra.alg) (a : qset) : list sol :=
  Sparql.EvalBU.eval_bu {| Sparql.Algebra.ds_default := s_active e w ud un a; Sparql.Algebra.ds_named := named_graphs (s_named e ud un a) a |}
             (s_active e w ud un a) p.

(* DELETE WHERE: the pattern is the join of its blocks *)
Definition dw_alg (tm : tmpl) : Sparql.Algebra.alg :=
  fold_left (fun acc b => Sparql.Algebra.Join false acc (block_alg b)) (t_quads tm)
            (Sparql.Algebra.BGP (map conv_tpat (t_triples tm))).

Definition spec_op (e : env) (k : N) (o : uop) (a : qset) : qset :=
  match o with
  | InsertData ts qs => a ++ data_quads (dflt e) ts qs
  | DeleteData ts qs => qdiff a (data_quads (dflt e) ts qs)
  | DeleteWhere tm om => qdiff a (s_all e false k (dflt e) (Some tm) om)
  | DeleteWhereW tm =>
      qdiff a (s_all e false k (dflt e) (Some tm) (s_omega e None [] [] (dw_alg tm) (dedup quad_eqb a)))
  | Modify w _ _ d i om =>
      let dg := match w with Some c => c | None => dflt e end in
      qdiff a (s_all e false k dg d om) ++ s_all e true k dg i om
  | ModifyW w ud un d i p =>
      let dg := match w with Some c => c | None => dflt e end in
      (* the store is a set of quads: the list is normalised before it is read *)
      let om := s_omega e w ud un p (dedup quad_eqb a) in
      qdiff a (s_all e false k dg d om) ++ s_all e true k dg i om
  | Clear _ g | Drop _ g => spec_clear e g a
  | Add _ sg dg =>
      let s := gd_cid e sg in let d := gd_cid e dg in
      if N.eqb s d then a else a ++ to_graph d (graph_of s a)
  | Copy _ sg dg =>
      let s := gd_cid e sg in let d := gd_cid e dg in
      if N.eqb s d then a else drop_graph d a ++ to_graph d (graph_of s a)
  | Move _ sg dg =>
      let s := gd_cid e sg in let d := gd_cid e dg in
      if N.eqb s d then a else drop_graph s (drop_graph d a ++ to_graph d (graph_of s a))
  | Create _ _ => a          (* an empty graph more or less: no quad changes *)
  end.

Fixpoint spec_from (e : env) (k : N) (ops : list uop) (a : qset) : qset :=
  match ops with
  | [] => a
  | o :: r => spec_from e (N.succ k) r (spec_op e k o a)
  end.

(* a plain Graph is a Graph Store with one graph; requests that address named
   graphs are outside the property's domain there *)
Definition needs_dataset (o : uop) : bool :=
  match o with
  | InsertData _ qs | DeleteData _ qs => negb (is_nil qs)
  | DeleteWhere tm _ | DeleteWhereW tm => negb (is_nil (t_quads tm))
  | Modify w ud un d i _ =>
      match w with Some _ => true | None => false end || ud || un
      || tm_has_quads d || tm_has_quads i
  | ModifyW w ud un d i p =>
      match w with Some _ => true | None => false end || negb (is_nil ud) || negb (is_nil un)
      || tm_has_quads d || tm_has_quads i || uses_graph p
  | Clear _ g | Drop _ g => match g with GDefault => false | _ => true end
  | Add _ a b | Move _ a b | Copy _ a b =>
      match a, b with DDefault, DDefault => false | _, _ => true end
  | Create _ _ => true
  end.

(* CREATE without SILENT always fails in rdflib ("Create not implemented!");
   the specification here has no failing operations: such requests are judged
   for model = implementation only *)
Definition hard_create (o : uop) : bool := match o with Create false _ => true | _ => false end.

Definition in_scope (e : env) (ops : list uop) : bool :=
  (has_dataset e || forallb (fun o => negb (needs_dataset o)) ops)
  && forallb (fun o => negb (hard_create o)) ops.

(* ------------------------------------------------------------------ *)
(* Equality of quad sets up to a renaming of the fresh blank nodes      *)

Definition is_fresh (t : term) : bool := FRESH <=? t.

Definition triple_terms (t : triple) : list term := let '(a, b, c) := t in [a; b; c].
Definition fresh_of (a : qset) : list term :=
  dedup N.eqb (filter is_fresh (flat_map (fun q => triple_terms (fst q)) a)).

Fixpoint ren (m : list (term * term)) (t : term) : term :=
  match m with
  | [] => t
  | (x, y) :: r => if N.eqb t x then y else ren r t
  end.
Definition ren_triple m (t : triple) : triple :=
  let '(a, b, c) := t in (ren m a, ren m b, ren m c).
Definition ren_quads m (a : qset) : qset := map (fun q => (ren_triple m (fst q), snd q)) a.

(* pruning (does not affect what a successful search means): after x is
   assigned, every quad of [a] that mentions x and whose fresh nodes are all
   assigned must already be in [b] *)
Definition mentions (x : term) (q : quad) : bool :=
  let '(a, b, c) := fst q in N.eqb a x || N.eqb b x || N.eqb c x.
Definition assigned (m : list (term * term)) (t : term) : bool :=
  negb (is_fresh t) || existsb (fun p => N.eqb (fst p) t) m.
Definition all_assigned (m : list (term * term)) (q : quad) : bool :=
  forallb (assigned m) (triple_terms (fst q)).
Definition ren_quad m (q : quad) : quad := (ren_triple m (fst q), snd q).
Definition partial_ok (a b : qset) (m : list (term * term)) (x : term) : bool :=
  forallb (fun q => negb (mentions x q && all_assigned m q) || q_mem (ren_quad m q) b) a.

(* (written with if-then-else: the virtual machine evaluates both arguments of
   && and ||) *)
Fixpoint iso_search (a b : qset) (xs ys : list term) (m : list (term * term)) : bool :=
  match xs with
  | [] => qseteqb (ren_quads m a) b
  | x :: r =>
      (fix try (cands : list term) : bool :=
         match cands with
         | [] => false
         | y :: rest =>
             if (if partial_ok a b ((x, y) :: m) x
                 then iso_search a b r (srem N.eqb y ys) ((x, y) :: m) else false)
             then true else try rest
         end) ys
  end.

(* necessary conditions checked first: same number of fresh nodes, same number
   of distinct quads, the quads of [a] without fresh nodes are in [b] *)
Definition iso_eqb (a b : qset) : bool :=
  if Nat.eqb (length (fresh_of a)) (length (fresh_of b)) then
    if Nat.eqb (length (dedup quad_eqb a)) (length (dedup quad_eqb b)) then
      if forallb (fun q => negb (all_assigned [] q) || q_mem q b) a then
        iso_search a b (fresh_of a) (fresh_of b) []
      else false
    else false
  else false.

(* ------------------------------------------------------------------ *)
(* Known-finding trigger                                                *)

(* no known finding is left: F5, F10a-i and F10l are repaired in /repo, F10j was
   decided not to be one *)
Definition op_kf (e : env) (k : N) (o : uop) : N := 0.

Fixpoint kf_from (e : env) (k : N) (ops : list uop) : N :=
  match ops with
  | [] => 0
  | o :: r => match op_kf e k o with 0 => kf_from e (N.succ k) r | n => n end
  end.

(* ------------------------------------------------------------------ *)
(* Entry points used by the correspondence check                        *)

Record case := { c_env : env; c_quads : qset; c_known : list cid; c_ops : list uop }.

(* final quads, known named graphs, did the request raise *)
Definition obs := (qset * list cid * bool)%type.

Definition init_state (c : case) : dstate := {| quads := c_quads c; known := c_known c |}.

Definition named_only (l : list cid) : list cid := filter (fun c => negb (N.eqb c 0)) l.

Definition model_obs (c : case) : obs :=
  match eval_from (c_env c) 0 (c_ops c) (init_state c) with
  | Ok s => (quads s, named_only (known s), false)
  | Raise s => (quads s, named_only (known s), true)
  end.

Definition obs_eqb (a b : obs) : bool :=
  let '(qa, ka, ra) := a in let '(qb, kb, rb) := b in
  if Bool.eqb ra rb then if seteqb N.eqb ka kb then iso_eqb qa qb else false else false.

Definition spec_ok (c : case) (o : obs) : bool :=
  let '(q, kn, raised) := o in
  if in_scope (c_env c) (c_ops c) then
    if raised then false
    else if forallb (fun x => N.eqb (snd x) 0 || memb N.eqb (snd x) kn) q
    then iso_eqb q (spec_from (c_env c) 0 (c_ops c) (c_quads c))
    else false
  else true.

Definition kf (c : case) : N := kf_from (c_env c) 0 (c_ops c).
