(* The solutions of a WHERE pattern of the fragment (BGP / Join / Union / GRAPH)
   do not depend, as a multiset, on the order in which a store lists its quads:
   the bottom-up value is invariant under permutation of the default graph, of
   every named graph, and of the list of named graphs.  With it the prescribed
   solutions over two lists that are the same duplicate-free set of quads are
   permutations of each other. *)
From Coq Require Import Arith Permutation.
From RV Require Import Update.Model Update.Proofs Update.Ops Update.Where.
From RV Require Sparql.Agreement Sparql.SolLemmas Sparql.StoreIndep.
Local Open Scope N_scope.

(* ---- basic graph patterns ---- *)
Lemma bgp_ext_perm_graph g g' : Permutation g g' -> forall ts c,
  Permutation (Sparql.EvalBU.bgp_ext g c ts) (Sparql.EvalBU.bgp_ext g' c ts).
Proof.
  intros P. induction ts as [|tp r IH]; intros c; simpl; [apply Permutation_refl|].
  apply Permutation_trans with
    (flat_map (fun tr => match Sparql.EvalBU.ext c tp tr with
                         | Some c' => Sparql.EvalBU.bgp_ext g' c' r
                         | None => []
                         end) g).
  - apply RV.Sparql.SolLemmas.flat_map_perm_pointwise. intros tr _.
    destruct (Sparql.EvalBU.ext c tp tr); [apply IH|apply Permutation_refl].
  - apply Permutation_flat_map. exact P.
Qed.

(* ---- named graphs: same names in the same order, graphs permuted ---- *)
Definition nm_rel (nm nm' : list (term * Sparql.Algebra.graph)) : Prop :=
  Forall2 (fun x y => fst x = fst y /\ Permutation (snd x) (snd y)) nm nm'.

Lemma nm_rel_exists nm nm' t : nm_rel nm nm' ->
  existsb (fun ng : N * Sparql.Algebra.graph => N.eqb (fst ng) t) nm
  = existsb (fun ng : N * Sparql.Algebra.graph => N.eqb (fst ng) t) nm'.
Proof.
  induction 1 as [|[n g] [n' g'] l l' [E _] _ IH]; simpl; auto. simpl in E. subst n'. rewrite IH. reflexivity.
Qed.

Lemma nm_rel_named nm nm' t : nm_rel nm nm' ->
  Permutation (Sparql.Algebra.named_graph nm t) (Sparql.Algebra.named_graph nm' t).
Proof.
  induction 1 as [|[n g] [n' g'] l l' [E P] _ IH]; simpl; [apply Permutation_refl|].
  simpl in E. subst n'. destruct (N.eqb n t); auto.
Qed.

Lemma eval_bu_perm_graphs p : walg p = true -> forall dd dd' nm nm' g g',
  nm_rel nm nm' -> Permutation g g' ->
  Permutation
    (Sparql.EvalBU.eval_bu {| Sparql.Algebra.ds_default := dd; Sparql.Algebra.ds_named := nm |} g p)
    (Sparql.EvalBU.eval_bu {| Sparql.Algebra.ds_default := dd'; Sparql.Algebra.ds_named := nm' |} g' p).
Proof.
  induction p; simpl; try discriminate; intros W dd dd' nm nm' g0 g0' R P.
  - apply bgp_ext_perm_graph. exact P.
  - apply andb_true_iff in W. destruct W as [W1 W2].
    eapply Permutation_trans; [apply RV.Sparql.Proofs.join_lists_perm_l; apply (IHp1 W1 dd dd' nm nm' g0 g0' R P)|].
    apply Sparql.Agreement.join_lists_perm_r. apply (IHp2 W2 dd dd' nm nm' g0 g0' R P).
  - apply andb_true_iff in W. destruct W as [W1 W2]. apply Permutation_app; [apply IHp1|apply IHp2]; auto.
  - destruct g as [t|v].
    + rewrite (nm_rel_exists nm nm' t R).
      destruct (existsb (fun ng : N * Sparql.Algebra.graph => N.eqb (fst ng) t) nm'); [|apply Permutation_refl].
      apply IHp; auto. apply nm_rel_named. exact R.
    + (* every named graph in turn *)
      assert (G : forall l l', nm_rel l l' ->
        Permutation
          (flat_map (fun ng => Sparql.Algebra.join_lists
             (Sparql.EvalBU.eval_bu {| Sparql.Algebra.ds_default := dd; Sparql.Algebra.ds_named := nm |} (snd ng) p)
             [[(v, fst ng)]]) l)
          (flat_map (fun ng => Sparql.Algebra.join_lists
             (Sparql.EvalBU.eval_bu {| Sparql.Algebra.ds_default := dd'; Sparql.Algebra.ds_named := nm' |} (snd ng) p)
             [[(v, fst ng)]]) l')).
      { induction 1 as [|[n0 gr] [n1 gr'] l l' [E Pg] _ IHl]; simpl; [apply Permutation_refl|].
        apply Permutation_app; [|exact IHl]. simpl in E, Pg. subst n1.
        apply RV.Sparql.Proofs.join_lists_perm_l. apply IHp; auto. }
      apply G. exact R.
Qed.

(* ---- the list of named graphs permuted (names without repetition) ---- *)
Lemma named_graph_perm nm nm' t : NoDup (map fst nm) -> Permutation nm nm' ->
  Sparql.Algebra.named_graph nm t = Sparql.Algebra.named_graph nm' t.
Proof.
  intros N P. revert N. induction P as [|[n g] l l' P IH|[n g] [m h] l|l l' l'' P1 IH1 P2 IH2]; intros N; simpl; auto.
  - inversion N; subst. rewrite IH; auto.
  - inversion N as [|? ? N1 N2]; subst. simpl in N1.
    destruct (N.eqb_spec m t), (N.eqb_spec n t); auto. subst. exfalso. apply N1. left. reflexivity.
  - rewrite IH1 by auto. apply IH2. eapply Permutation_NoDup; [apply Permutation_map; exact P1|exact N].
Qed.

Lemma eval_bu_perm_named p : walg p = true -> forall dd nm nm' g,
  NoDup (map fst nm) -> Permutation nm nm' ->
  Permutation
    (Sparql.EvalBU.eval_bu {| Sparql.Algebra.ds_default := dd; Sparql.Algebra.ds_named := nm |} g p)
    (Sparql.EvalBU.eval_bu {| Sparql.Algebra.ds_default := dd; Sparql.Algebra.ds_named := nm' |} g p).
Proof.
  induction p; simpl; try discriminate; intros W dd nm nm' g0 Nn P.
  - apply Permutation_refl.
  - apply andb_true_iff in W. destruct W as [W1 W2].
    eapply Permutation_trans; [apply RV.Sparql.Proofs.join_lists_perm_l; apply (IHp1 W1 dd nm nm' g0 Nn P)|].
    apply Sparql.Agreement.join_lists_perm_r. apply (IHp2 W2 dd nm nm' g0 Nn P).
  - apply andb_true_iff in W. destruct W as [W1 W2]. apply Permutation_app; [apply IHp1|apply IHp2]; auto.
  - destruct g as [t|v].
    + rewrite (RV.Sparql.StoreIndep.existsb_perm _ nm nm' P), (named_graph_perm nm nm' t Nn P).
      match goal with |- Permutation (if ?b then _ else _) (if ?b' then _ else _) =>
        change b' with b; destruct b end; [|apply Permutation_refl].
      apply IHp; auto.
    + eapply Permutation_trans.
      * apply RV.Sparql.SolLemmas.flat_map_perm_pointwise. intros ng _.
        apply RV.Sparql.Proofs.join_lists_perm_l. apply (IHp W dd nm nm' (snd ng) Nn P).
      * apply Permutation_flat_map. exact P.
Qed.

(* ---- two lists that are the same duplicate-free set of quads ---- *)
Lemma NoDup_seteq_perm {A} (l l' : list A) : NoDup l -> NoDup l' -> (forall x, In x l <-> In x l') -> Permutation l l'.
Proof. intros. apply NoDup_Permutation; auto. Qed.

Lemma graph_at_perm c a a' : NoDup a -> NoDup a' -> qseteq a a' -> Permutation (graph_at c a) (graph_at c a').
Proof.
  intros N N' E. apply NoDup_seteq_perm; auto using graph_at_NoDup.
  intros t. rewrite !graph_at_In. apply E.
Qed.

Lemma union_graph_perm a a' : qseteq a a' -> Permutation (union_graph a) (union_graph a').
Proof.
  intros E. unfold union_graph. apply NoDup_seteq_perm; try apply (dedup_NoDup triple_eqb triple_eqb_spec).
  intros t. rewrite !(dedup_In triple_eqb triple_eqb_spec), !in_map_iff.
  split; intros [q [H1 H2]]; exists q; split; auto; apply E; auto.
Qed.

Lemma merge_graphs_perm cs a a' : qseteq a a' -> Permutation (merge_graphs cs a) (merge_graphs cs a').
Proof.
  intros E. unfold merge_graphs. apply NoDup_seteq_perm; try apply (dedup_NoDup triple_eqb triple_eqb_spec).
  intros t. rewrite !(dedup_In triple_eqb triple_eqb_spec), !in_flat_map.
  split; intros [c [H1 H2]]; exists c; split; auto; apply graph_at_In; apply graph_at_In in H2; apply E; auto.
Qed.

Lemma s_active_perm e w ud un a a' : NoDup a -> NoDup a' -> qseteq a a' ->
  Permutation (s_active e w ud un a) (s_active e w ud un a').
Proof.
  intros N N' E. unfold s_active, ctx_active.
  destruct ud, un; auto using merge_graphs_perm.
  destruct w; [apply graph_at_perm; auto|].
  destruct (e_fe e); try destruct (e_union e); auto using graph_at_perm, union_graph_perm.
Qed.

Lemma named_of_perm a a' : qseteq a a' -> Permutation (named_of a) (named_of a').
Proof.
  intros E. apply NoDup_seteq_perm; auto using named_of_NoDup.
  intros c. unfold named_of. rewrite !filter_In, !(dedup_In N.eqb N.eqb_spec), !in_map_iff.
  split; intros [[q [H1 H2]] H3]; (split; [exists q; split; auto; apply E; auto|auto]).
Qed.

Lemma s_named_perm e ud un a a' : qseteq a a' -> Permutation (s_named e ud un a) (s_named e ud un a').
Proof.
  intros E. unfold s_named. destruct (has_dataset e); [|apply Permutation_refl].
  destruct ud, un; auto using named_of_perm; apply NoDup_seteq_perm;
    try (apply filter_NoDup; apply named_of_NoDup);
    intros x0; rewrite !filter_In; pose proof (Permutation_in x0 (named_of_perm a a' E));
    pose proof (Permutation_in x0 (Permutation_sym (named_of_perm a a' E))); tauto.
Qed.

Lemma s_named_NoDup e ud un a : NoDup (s_named e ud un a).
Proof.
  unfold s_named. destruct (has_dataset e); [|constructor].
  destruct ud, un; auto using named_of_NoDup; apply filter_NoDup; apply named_of_NoDup.
Qed.

Lemma nm_rel_named_graphs cs a a' : NoDup a -> NoDup a' -> qseteq a a' ->
  nm_rel (named_graphs cs a) (named_graphs cs a').
Proof.
  intros N N' E. unfold nm_rel, named_graphs. induction cs as [|c r IH]; simpl; constructor; auto.
  simpl. split; auto. apply graph_at_perm; auto.
Qed.

(* the prescribed solutions over the same set of quads, listed in two ways *)
Theorem s_omega_perm e w ud un p a a' : walg p = true -> NoDup a -> NoDup a' -> qseteq a a' ->
  Permutation (s_omega e w ud un p a) (s_omega e w ud un p a').
Proof.
  intros W N N' E. unfold s_omega.
  eapply Permutation_trans.
  - apply (eval_bu_perm_graphs p W _ (s_active e w ud un a') _ (named_graphs (s_named e ud un a) a')
             _ (s_active e w ud un a')); [apply nm_rel_named_graphs; auto|apply s_active_perm; auto].
  - apply eval_bu_perm_named; auto.
    + rewrite named_graphs_names. apply NoDup_map_gname. apply s_named_NoDup.
    + unfold named_graphs. apply Permutation_map. apply s_named_perm. exact E.
Qed.
