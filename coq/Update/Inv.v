(* Store invariants along a request: no duplicate quad, no term that is one of
   C04's two boolean ids - what C04's push-down theorem asks of the dataset a
   model-computed WHERE is evaluated on. *)
From Coq Require Import Arith Permutation.
From RV Require Import Update.Model Update.Proofs Update.Ops Update.Where Update.Perm.
From RV Require Sparql.Agreement.
Local Open Scope N_scope.

(* ---- no duplicate quad ---- *)
Lemma NoDup_add_quads l : forall s, NoDup (quads s) -> NoDup (quads (add_quads l s)).
Proof.
  unfold add_quads. induction l as [|q r IH]; intros s H; simpl; auto.
  apply IH. simpl. apply q_add_NoDup. exact H.
Qed.

Lemma NoDup_del_quads l : forall s, NoDup (quads s) -> NoDup (quads (del_quads l s)).
Proof.
  unfold del_quads. induction l as [|q r IH]; intros s H; simpl; auto.
  apply IH. simpl. apply q_remove_NoDup. exact H.
Qed.

Lemma NoDup_clear c s : NoDup (quads s) -> NoDup (quads (g_clear c s)).
Proof. intros H. simpl. apply q_remove_NoDup. exact H. Qed.

Lemma NoDup_fold_clear l : forall s, NoDup (quads s) -> NoDup (quads (fold_left (fun s c => g_clear c s) l s)).
Proof. induction l as [|c r IH]; intros s H; simpl; auto. apply IH, NoDup_clear, H. Qed.

Lemma NoDup_fold_drop l : forall s, NoDup (quads s) -> NoDup (quads (fold_left (fun s c => remove_graph c s) l s)).
Proof.
  induction l as [|c r IH]; intros s H; simpl; auto. apply IH. unfold remove_graph, forget. simpl.
  apply q_remove_NoDup. exact H.
Qed.

Lemma NoDup_iadd_from y x s : NoDup (quads s) -> NoDup (quads (g_iadd_from y x s)).
Proof. intros H. unfold g_iadd_from. rewrite add_triples_eq. apply NoDup_add_quads. exact H. Qed.

Lemma NoDup_evalModify e k w u d i om s s' : NoDup (quads s) ->
  (has_dataset e = true \/ (tm_has_quads d = false /\ tm_has_quads i = false)) ->
  evalModify e k w u d i om s = Ok s' -> NoDup (quads s').
Proof.
  intros H Hd. unfold evalModify. destruct (has_dataset e); simpl.
  - intros [= <-]. apply NoDup_add_quads, NoDup_del_quads, H.
  - destruct Hd as [Hd|[H1 H2]]; [discriminate|]. destruct u; [discriminate|]. destruct w; [discriminate|].
    rewrite H1, H2. simpl. intros [= <-]. apply NoDup_add_quads, NoDup_del_quads, H.
Qed.

Theorem NoDup_step e k o s s' : scope e o -> NoDup (quads s) -> eval_op e k o s = Ok s' -> NoDup (quads s').
Proof.
  intros Hs H. destruct o as [ts qs|ts qs|tm om|w ud un d i om|tm|w ud un d i p|sl g|sl g|sl x y|sl x y|sl x y|sl c]; simpl.
  - unfold evalInsertData. intros E.
    assert (X : NoDup (quads (add_blocks qs (add_triples (dflt e) ts s)))).
    { rewrite add_blocks_eq, add_triples_eq. apply NoDup_add_quads, NoDup_add_quads, H. }
    destruct (is_nil qs) eqn:Q; [apply is_nil_true in Q; subst; injection E as <-; exact X|].
    destruct (has_dataset e); [injection E as <-; exact X|discriminate].
  - unfold evalDeleteData. intros E.
    assert (X : NoDup (quads (sub_blocks qs (g_isub (dflt e) ts s)))).
    { rewrite sub_blocks_eq, g_isub_eq. apply NoDup_del_quads, NoDup_del_quads, H. }
    destruct (is_nil qs) eqn:Q; [apply is_nil_true in Q; subst; injection E as <-; exact X|].
    destruct (has_dataset e); [injection E as <-; exact X|discriminate].
  - unfold evalDeleteWhere. destruct (negb (is_nil (t_quads tm)) && negb (has_dataset e)); [discriminate|].
    intros [= <-]. rewrite dw_fold_eq. apply NoDup_del_quads, H.
  - apply NoDup_evalModify; auto. destruct Hs as [Hs|Hs]; [left; auto|right]. simpl in Hs.
    apply orb_false_iff in Hs. destruct Hs as [Hs Hi]. apply orb_false_iff in Hs. destruct Hs as [_ Hd]. auto.
  - unfold evalDeleteWhere. destruct (negb (is_nil (t_quads tm)) && negb (has_dataset e)); [discriminate|].
    intros [= <-]. rewrite dw_fold_eq. apply NoDup_del_quads, H.
  - destruct (negb (has_dataset e) && uses_graph p); [discriminate|].
    apply NoDup_evalModify; auto. destruct Hs as [Hs|Hs]; [left; auto|right]. simpl in Hs.
    apply orb_false_iff in Hs. destruct Hs as [Hs _].
    apply orb_false_iff in Hs. destruct Hs as [Hs Hi]. apply orb_false_iff in Hs. destruct Hs as [_ Hd]. auto.
  - unfold evalClear. destruct (graph_all e g s); [|destruct sl; simpl; intros [= <-]; exact H].
    simpl. intros [= <-]. apply NoDup_fold_clear, H.
  - unfold evalDrop, evalClear. destruct (has_dataset e);
      (destruct (graph_all e g s); [|destruct sl; simpl; intros [= <-]; exact H]); simpl; intros [= <-].
    + apply NoDup_fold_drop, H.
    + apply NoDup_fold_clear, H.
  - unfold evalAdd. destruct (graph_or_default e x), (graph_or_default e y);
      try (destruct sl; simpl; intros [= <-]; exact H).
    destruct (N.eqb c c0); simpl; intros [= <-]; auto using NoDup_iadd_from.
  - unfold evalMove. destruct (graph_or_default e x), (graph_or_default e y);
      try (destruct sl; simpl; intros [= <-]; exact H).
    destruct (N.eqb c c0); simpl; intros [= <-]; auto.
    unfold remove_graph, forget. simpl. apply q_remove_NoDup.
    apply (NoDup_iadd_from c0 c (g_clear c0 s)). apply NoDup_clear, H.
  - unfold evalCopy. destruct (graph_or_default e x), (graph_or_default e y);
      try (destruct sl; simpl; intros [= <-]; exact H).
    destruct (N.eqb c c0); simpl; intros [= <-]; auto. apply NoDup_iadd_from, NoDup_clear, H.
  - destruct sl; simpl; [intros [= <-]; exact H|discriminate].
Qed.

(* ---- no boolean id: carried over set equality from the specification side ---- *)
Definition nbt (t : term) : Prop := Sparql.Findings.nb t = true.

Lemma terms_nb_seteq a b : qseteq a b -> terms_nb a -> terms_nb b.
Proof. intros E H q Hq. apply H. apply E. exact Hq. Qed.

Lemma lookup_eq v mu : lookup v mu = Sparql.Algebra.lookup v mu.
Proof.
  unfold lookup. induction mu as [|[w t] r IH]; simpl; auto.
  rewrite (N.eqb_sym w v). destruct (N.eqb v w); auto.
Qed.

(* what an operation brings in: constants, given bound values - none a boolean id *)
Definition sol_nb (mu : sol) : Prop := forall v t, lookup v mu = Some t -> nbt t.
Definition pos_nb (p : tpos) : Prop := match p with PConst t => nbt t | _ => True end.
Definition tmpl_nb (tm : option tmpl) : Prop :=
  match tm with
  | Some t => forall b, In b (blocks t) -> forall tp, In tp (snd b) ->
                let '(x, y, z) := tp in pos_nb x /\ pos_nb y /\ pos_nb z
  | None => True
  end.
Definition triples_nb (ts : list triple) : Prop := forall t, In t ts -> forall x, In x (triple_terms t) -> nbt x.
Definition op_nb (o : uop) : Prop :=
  match o with
  | InsertData ts qs => triples_nb ts /\ forall b, In b qs -> triples_nb (snd b)
  | Modify _ _ _ _ i om => tmpl_nb i /\ forall mu, In mu om -> sol_nb mu
  | ModifyW _ _ _ _ i _ => tmpl_nb i
  | _ => True
  end.

Lemma fresh_nb k i x : nbt (fresh k i x).
Proof. apply nb_ge22. unfold fresh, FRESH. lia. Qed.

Lemma fill_nb k i mu ts t :
  (forall tp, In tp ts -> let '(x, y, z) := tp in pos_nb x /\ pos_nb y /\ pos_nb z) -> sol_nb mu ->
  In t (fill (fresh k i) mu ts) -> forall x, In x (triple_terms t) -> nbt x.
Proof.
  intros Hts Hmu Ht x Hx. unfold fill in Ht. apply in_flat_map in Ht.
  destruct Ht as [[[pa pb] pc] [Htp Ht]]. specialize (Hts _ Htp). simpl in Hts. destruct Hts as [Ha [Hb Hc]].
  assert (P : forall p u, pos_nb p -> inst_pos (fresh k i) mu p = Some u -> nbt u).
  { intros p u Hp. destruct p; simpl in *.
    - intros [= <-]; exact Hp.
    - apply Hmu.
    - intros [= <-]; apply fresh_nb. }
  unfold inst_tpat in Ht.
  destruct (inst_pos (fresh k i) mu pa) eqn:Ea; [|destruct Ht].
  destruct (inst_pos (fresh k i) mu pb) eqn:Eb; [|destruct Ht].
  destruct (inst_pos (fresh k i) mu pc) eqn:Ec; [|destruct Ht].
  destruct Ht as [<-|[]]. simpl in Hx. destruct Hx as [<-|[<-|[<-|[]]]]; eauto.
Qed.

Lemma s_all_nb e k dg tm om : tmpl_nb tm -> (forall mu, In mu om -> sol_nb mu) ->
  forall q, In q (s_all e true k dg tm om) -> forall x, In x (triple_terms (fst q)) -> nbt x.
Proof.
  intros Ht Ho q Hq x Hx. destruct tm as [t|]; [|destruct Hq]. simpl in Hq.
  apply in_flat_map in Hq. destruct Hq as [im [Him Hq]]. unfold s_quads in Hq.
  apply in_flat_map in Hq. destruct Hq as [b [Hb Hq]].
  destruct (s_target dg (snd im) (fst b)); [|destruct Hq]. apply to_graph_In in Hq. destruct Hq as [Hq _].
  apply filter_In in Hq. destruct Hq as [Hq _].
  eapply (fill_nb k (fst im) (snd im) (snd b)); eauto.
  - intros tp Htp. apply (Ht b Hb tp Htp).
  - apply Ho. eapply enum_from_snd; eauto.
Qed.

Lemma bool_vars_walg p : walg p = true -> Sparql.Findings.bool_vars p = [].
Proof.
  induction p; simpl; try discriminate; intros W; auto.
  - apply andb_true_iff in W. rewrite IHp1, IHp2; tauto.
  - apply andb_true_iff in W. rewrite IHp1, IHp2; tauto.
Qed.

(* the computed solutions bind variables to terms of the store or to graph names *)
Lemma s_omega_nb e w ud un p a : walg p = true -> (forall names, Sparql.Agreement.frag names [] p = true) ->
  NoDup a -> terms_nb a -> forall mu, In mu (s_omega e w ud un p a) -> sol_nb mu.
Proof.
  intros W F Hn Hb mu Hmu v t L. rewrite lookup_eq in L. unfold s_omega in Hmu.
  assert (G : Sparql.Agreement.gok (s_active e w ud un a)).
  { change (s_active e w ud un a) with (m_active e w ud un a). apply gok_m_active; auto. }
  pose proof (Sparql.Fragment.bu_typed _ p (Sparql.Agreement.frag_shape [] p [] (F []))
                (ds_nb_named (s_named e ud un a) a (s_active e w ud un a) Hb)
                (s_active e w ud un a) mu (proj2 G) Hmu v t L) as T.
  rewrite (bool_vars_walg p W) in T. destruct T as [T|[]]. exact T.
Qed.

Theorem spec_nb e k o a : op_nb o ->
  match o with ModifyW _ _ _ _ _ p => walg p = true /\ (forall names, Sparql.Agreement.frag names [] p = true) | _ => True end ->
  terms_nb a -> terms_nb (spec_op e k o a).
Proof.
  intros Ho Hw Ha.
  destruct o as [ts qs|ts qs|tm om|w ud un d i om|tm|w ud un d i p|sl g|sl g|sl x y|sl x y|sl x y|sl c]; simpl;
    intros q Hq t Ht.
  - apply in_app_iff in Hq. destruct Hq as [Hq|Hq]; [eapply Ha; eauto|].
    destruct Ho as [B1 B2]. unfold data_quads in Hq. apply in_app_iff in Hq. destruct Hq as [Hq|Hq].
    + apply to_graph_In in Hq. destruct Hq as [Hq _]. apply (B1 _ Hq _ Ht).
    + apply in_flat_map in Hq. destruct Hq as [b [Hb Hq]]. apply to_graph_In in Hq. destruct Hq as [Hq _].
      apply (B2 _ Hb _ Hq _ Ht).
  - apply qdiff_In in Hq. eapply Ha; [apply Hq|eauto].
  - apply qdiff_In in Hq. eapply Ha; [apply Hq|eauto].
  - apply in_app_iff in Hq. destruct Hq as [Hq|Hq]; [apply qdiff_In in Hq; eapply Ha; [apply Hq|eauto]|].
    destruct Ho as [Bt Bo]. eapply s_all_nb; eauto.
  - apply qdiff_In in Hq. eapply Ha; [apply Hq|eauto].
  - apply in_app_iff in Hq. destruct Hq as [Hq|Hq]; [apply qdiff_In in Hq; eapply Ha; [apply Hq|eauto]|].
    destruct Hw as [W F]. eapply s_all_nb; eauto. apply s_omega_nb; auto.
    + apply (dedup_NoDup quad_eqb quad_eqb_spec).
    + intros q0 Hq0. apply Ha. apply (dedup_In quad_eqb quad_eqb_spec). exact Hq0.
  - apply spec_clear_In in Hq. eapply Ha; [apply Hq|eauto].
  - apply spec_clear_In in Hq. eapply Ha; [apply Hq|eauto].
  - destruct (N.eqb _ _); [eapply Ha; eauto|]. apply in_app_iff in Hq. destruct Hq as [Hq|Hq]; [eapply Ha; eauto|].
    apply to_graph_In in Hq. destruct Hq as [Hq _]. apply graph_of_In in Hq. eapply (Ha _ Hq). exact Ht.
  - destruct (N.eqb _ _); [eapply Ha; eauto|]. apply drop_graph_In in Hq. destruct Hq as [Hq _].
    apply in_app_iff in Hq. destruct Hq as [Hq|Hq]; [apply drop_graph_In in Hq; eapply Ha; [apply Hq|eauto]|].
    apply to_graph_In in Hq. destruct Hq as [Hq _]. apply graph_of_In in Hq. eapply (Ha _ Hq). exact Ht.
  - destruct (N.eqb _ _); [eapply Ha; eauto|].
    apply in_app_iff in Hq. destruct Hq as [Hq|Hq]; [apply drop_graph_In in Hq; eapply Ha; [apply Hq|eauto]|].
    apply to_graph_In in Hq. destruct Hq as [Hq _]. apply graph_of_In in Hq. eapply (Ha _ Hq). exact Ht.
  - eapply Ha; eauto.
Qed.
