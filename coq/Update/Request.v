(* A model-computed WHERE at ANY position of a request: the model's own store is
   threaded through the request; the specification works on its own list of
   quads, the same set - the prescribed solutions do not depend on the listing
   (Perm.v), and the store stays duplicate-free and free of C04's boolean ids
   (Inv.v). *)
From Coq Require Import Arith Permutation.
From RV Require Import Update.Model Update.Proofs Update.Ops Update.Where Update.Seq Update.Perm Update.Inv.
Local Open Scope N_scope.

Lemma dedup_perm_seteq a b : NoDup a -> qseteq a b -> Permutation a (dedup quad_eqb b) /\ qseteq a (dedup quad_eqb b).
Proof.
  intros N E.
  assert (E' : qseteq a (dedup quad_eqb b)).
  { intros q. rewrite (dedup_In quad_eqb quad_eqb_spec). apply E. }
  split; auto. apply NoDup_Permutation; auto. apply (dedup_NoDup quad_eqb quad_eqb_spec).
Qed.

(* ModifyW against any listing of the store *)
Theorem step_where_any e k s a w ud un d i p : where_ok p -> store_ok (quads s) -> kinv s ->
  qseteq (quads s) a ->
  scope e (ModifyW w ud un d i p) -> tmpl_nolabel d = true -> tmpl_nolabel i = true ->
  step_ok e k (ModifyW w ud un d i p) s a.
Proof.
  intros Hw Hst Hk Ha Hs Ld Li.
  destruct (step_where e k s w ud un d i p Hw Hst Hk Hs eq_refl Ld Li) as [s' [E [Q I]]].
  exists s'. split; [exact E|split; [|exact I]].
  destruct Hst as [Hn Hb]. destruct Hw as [W F].
  assert (P : Permutation (s_omega e w ud un p (dedup quad_eqb (quads s))) (s_omega e w ud un p (dedup quad_eqb a))).
  { apply s_omega_perm; auto; try apply (dedup_NoDup quad_eqb quad_eqb_spec).
    intros q. rewrite !(dedup_In quad_eqb quad_eqb_spec). apply Ha. }
  intros q. rewrite (Q q). simpl. rewrite !in_app_iff, !qdiff_In.
  rewrite (s_all_perm e false k _ d _ _ q Ld P), (s_all_perm e true k _ i _ _ q Li P), (Ha q). tauto.
Qed.

Lemma walg_dw_alg tm : walg (dw_alg tm) = true.
Proof.
  unfold dw_alg. generalize (Sparql.Algebra.BGP (map conv_tpat (t_triples tm))) (eq_refl : walg (Sparql.Algebra.BGP (map conv_tpat (t_triples tm))) = true).
  induction (t_quads tm) as [|b r IH]; intros acc Hacc; simpl; auto.
  apply IH. simpl. rewrite Hacc. reflexivity.
Qed.

Theorem step_delete_where_any e k s a tm : store_ok (quads s) -> kinv s -> qseteq (quads s) a ->
  scope e (DeleteWhereW tm) -> tmpl_nolabel (Some tm) = true ->
  step_ok e k (DeleteWhereW tm) s a.
Proof.
  intros Hst Hk Ha Hs Hl.
  destruct (step_delete_where e k s tm Hst Hk Hs Hl) as [s' [E [Q I]]].
  exists s'. split; [exact E|split; [|exact I]]. destruct Hst as [Hn Hb].
  assert (P : Permutation (s_omega e None [] [] (dw_alg tm) (dedup quad_eqb (quads s)))
                          (s_omega e None [] [] (dw_alg tm) (dedup quad_eqb a))).
  { apply s_omega_perm; auto using walg_dw_alg; try apply (dedup_NoDup quad_eqb quad_eqb_spec).
    intros q. rewrite !(dedup_In quad_eqb quad_eqb_spec). apply Ha. }
  intros q. rewrite (Q q). unfold spec_op. rewrite !qdiff_In.
  rewrite (s_all_perm e false k _ (Some tm) _ _ q Hl P), (Ha q). tauto.
Qed.

(* THE FRAGMENT of the request-level theorem, per operation (any position): a
   computed WHERE is in BGP / Join / Union / GRAPH accepted by C04's [frag] and
   its templates carry no blank-node label; no CREATE without SILENT; constants
   and given bound values are not C04's boolean ids *)
Definition op_ok (o : uop) : Prop := op_where_wf o /\ op_nb o.

Lemma op_where_scope_create o : op_where_wf o -> no_where o = false ->
  (exists tm, o = DeleteWhereW tm) \/ (exists w ud un d i p, o = ModifyW w ud un d i p).
Proof.
  intros H N. destruct o as [| | | |tm|w ud un d i p| | | | | |[|] c]; try discriminate; [left|right|destruct H]; eauto 10.
Qed.

Theorem request_any e ops : forall k s a,
  has_dataset e = true \/ forallb (fun o => negb (needs_dataset o)) ops = true ->
  Forall op_ok ops -> kinv s -> store_ok (quads s) -> qseteq (quads s) a ->
  exists s', eval_from e k ops s = Ok s' /\ qseteq (quads s') (spec_from e k ops a) /\ kinv s'.
Proof.
  induction ops as [|o r IH]; intros k s a Hd Hok Hk Hst Ha.
  - exists s. simpl. auto.
  - inversion Hok as [|? ? [Ow On] Hr]; subst.
    assert (Hd1 : scope e o).
    { destruct Hd as [Hd|Hd]; [left; auto|]. simpl in Hd. apply andb_true_iff in Hd. right. apply negb_true_iff. tauto. }
    assert (Hd2 : has_dataset e = true \/ forallb (fun o => negb (needs_dataset o)) r = true).
    { destruct Hd as [Hd|Hd]; auto. simpl in Hd. apply andb_true_iff in Hd. tauto. }
    assert (Step : step_ok e k o s a).
    { destruct (no_where o) eqn:No.
      - apply step_correct; auto.
      - destruct (op_where_scope_create o Ow No) as [[tm ->]|[w [ud [un [d [i [p ->]]]]]]].
        + apply step_delete_where_any; auto.
        + destruct Ow as [Hw [Ld Li]]. apply step_where_any; auto. }
    destruct Step as [s1 [E1 [Q1 I1]]].
    assert (St1 : store_ok (quads s1)).
    { destruct Hst as [Hn Hb]. split; [eapply NoDup_step; eauto|].
      apply (terms_nb_seteq (spec_op e k o a)); [intros q; symmetry; apply Q1|].
      apply spec_nb; auto.
      - destruct o; try exact I. destruct Ow as [[W F] _]. auto.
      - apply (terms_nb_seteq (quads s)); auto. }
    destruct (IH (N.succ k) s1 (spec_op e k o a) Hd2 Hr I1 St1 Q1) as [s2 [E2 [Q2 I2]]].
    exists s2. simpl. rewrite E1. simpl. auto.
Qed.

(* the fragment for a case: every operation in it, duplicate-free store without boolean ids *)
Definition in_model_where_any (c : case) : Prop := Forall op_ok (c_ops c) /\ store_ok (c_quads c).

Theorem spec_ok_model_any c : wf c -> in_model_where_any c -> spec_ok c (model_obs c) = true.
Proof.
  intros W [Fo St]. unfold spec_ok, model_obs.
  destruct (in_scope (c_env c) (c_ops c)) eqn:Hs.
  2:{ destruct (eval_from _ _ _ _); reflexivity. }
  unfold in_scope in Hs. apply andb_true_iff in Hs. destruct Hs as [Hs _]. apply orb_true_iff in Hs.
  destruct (request_any (c_env c) (c_ops c) 0 (init_state c) (c_quads c) Hs Fo W St) as [s' [E [Q I]]].
  { intros q; simpl; tauto. }
  rewrite E.
  assert (F : forallb (fun x => N.eqb (snd x) 0 || memb N.eqb (snd x) (named_only (known s'))) (quads s') = true).
  { apply forallb_forall. intros q Hq. destruct (N.eqb_spec (snd q) 0); simpl; auto.
    apply (memb_In N.eqb N.eqb_spec). apply named_only_In. split; auto. }
  rewrite F. apply iso_eqb_seteq. exact Q.
Qed.
