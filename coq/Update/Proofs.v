(* Lemmas about the store primitives of Update/Model.v and about equality of
   quad sets up to renaming of fresh blank nodes. *)
From Coq Require Import Arith.
From RV Require Import Update.Model.
Local Open Scope N_scope.

Lemma N_eqb_refl' (x : N) : N.eqb x x = true.
Proof. apply N.eqb_refl. Qed.

(* ------------------------------------------------------------------ *)
(* store primitives                                                     *)

Lemma add_quads_In l : forall s q, In q (quads (add_quads l s)) <-> In q l \/ In q (quads s).
Proof.
  unfold add_quads. induction l as [|x r IH]; intros s q; simpl; [tauto|].
  rewrite IH. unfold add_quad at 1; simpl. rewrite q_add_In. intuition.
Qed.

Lemma add_quads_known l : forall s c, In c (known (add_quads l s)) <-> In c (map snd l) \/ In c (known s).
Proof.
  unfold add_quads. induction l as [|x r IH]; intros s c; simpl; [tauto|].
  rewrite IH. unfold add_quad at 1; simpl. rewrite (sadd_In N.eqb N.eqb_spec). intuition.
Qed.

Lemma add_triples_eq c ts s : add_triples c ts s = add_quads (to_graph c ts) s.
Proof.
  unfold add_triples, add_quads, to_graph. revert s. induction ts as [|t r IH]; intros s; simpl; auto.
Qed.

Lemma to_graph_In c ts q : In q (to_graph c ts) <-> In (fst q) ts /\ snd q = c.
Proof.
  unfold to_graph. rewrite in_map_iff. split.
  - intros [t [<- H]]. simpl. auto.
  - intros [H1 H2]. exists (fst q). destruct q; simpl in *; subst; auto.
Qed.

Lemma del1_In c t s q :
  In q (quads (del1 c t s)) <-> In q (quads s) /\ ~ (fst q = t /\ snd q = c).
Proof.
  unfold del1; simpl. rewrite q_remove_In. unfold qsel.
  assert (M : matches (pat_of t) (fst q) = true <-> t = fst q) by apply matches_pat_of.
  destruct (matches (pat_of t) (fst q)) eqn:E; simpl.
  - assert (t = fst q) by (apply M; auto).
    rewrite N.eqb_neq. split; intros [H1 H2]; split; auto.
    intros [_ H3]. congruence.
  - split; intros [H1 H2]; split; auto. intros [H3 _]. assert (false = true); [|discriminate].
    apply M. auto.
Qed.

Lemma del_quads_In l : forall s q, In q (quads (del_quads l s)) <-> In q (quads s) /\ ~ In q l.
Proof.
  unfold del_quads. induction l as [|x r IH]; intros s q; simpl; [tauto|].
  rewrite IH, del1_In. simpl. split.
  - intros [[H1 H2] H3]. split; auto. intros [->|H]; auto.
  - intros [H1 H2]. split; [split; auto|tauto]. intros [H3 H4]. apply H2. left.
    destruct x, q; simpl in *; congruence.
Qed.

Lemma del_quads_known l : forall s, known (del_quads l s) = known s.
Proof. unfold del_quads. induction l as [|x r IH]; intros s; simpl; auto. rewrite IH. reflexivity. Qed.

Lemma g_isub_eq c ts s : g_isub c ts s = del_quads (to_graph c ts) s.
Proof.
  unfold g_isub, del_quads, to_graph. revert s. induction ts as [|t r IH]; intros s; simpl; auto.
Qed.

Lemma del_quads_app l1 l2 s : del_quads (l1 ++ l2) s = del_quads l2 (del_quads l1 s).
Proof. unfold del_quads. apply fold_left_app. Qed.

Lemma add_quads_app l1 l2 s : add_quads (l1 ++ l2) s = add_quads l2 (add_quads l1 s).
Proof. unfold add_quads. apply fold_left_app. Qed.

Lemma g_clear_In c s q : In q (quads (g_clear c s)) <-> In q (quads s) /\ snd q <> c.
Proof.
  unfold g_clear; simpl. rewrite q_remove_In. unfold qsel; simpl.
  destruct (fst q) as [[x y] z]. simpl. rewrite N.eqb_neq.
  split; intros [H1 H2]; split; auto; congruence.
Qed.

Lemma qdiff_In a b q : In q (qdiff a b) <-> In q a /\ ~ In q b.
Proof.
  unfold qdiff. rewrite filter_In, negb_true_iff.
  assert (M := q_mem_In q b). destruct (q_mem q b); split; intros [H1 H2]; split; auto; try congruence.
  - exfalso. apply H2. apply M. reflexivity.
  - intros H3. apply M in H3. discriminate.
Qed.

Lemma drop_graph_In c a q : In q (drop_graph c a) <-> In q a /\ snd q <> c.
Proof.
  unfold drop_graph, in_graph. rewrite filter_In, negb_true_iff, N.eqb_neq. tauto.
Qed.

Lemma graph_of_In c a t : In t (graph_of c a) <-> In (t, c) a.
Proof.
  unfold graph_of, in_graph. rewrite in_map_iff. split.
  - intros [q [<- H]]. apply filter_In in H. destruct H as [H1 H2]. apply N.eqb_eq in H2.
    destruct q; simpl in *; subst; auto.
  - intros H. exists (t, c). split; auto. apply filter_In. split; auto. apply N.eqb_refl.
Qed.

Lemma q_triples_all_In c a t : In t (q_triples (None, None, None) c a) <-> In (t, c) a.
Proof.
  unfold q_triples, qsel. rewrite in_map_iff. split.
  - intros [q [<- H]]. apply filter_In in H. destruct H as [H1 H2]. simpl in H2.
    destruct (fst q) as [[x y] z] eqn:E. simpl in H2. apply N.eqb_eq in H2.
    destruct q; simpl in *; subst; auto.
  - intros H. exists (t, c). split; auto. apply filter_In. split; auto. simpl.
    destruct t as [[x y] z]. simpl. apply N.eqb_refl.
Qed.

(* every quad's graph is known to the store *)
Definition kinv (s : dstate) : Prop := forall q, In q (quads s) -> In (snd q) (known s).

Lemma kinv_add_quads l s : kinv s -> kinv (add_quads l s).
Proof.
  intros H q. rewrite add_quads_In, add_quads_known. intros [Hq|Hq]; [left; apply in_map; auto|right; auto].
Qed.

Lemma kinv_del_quads l s : kinv s -> kinv (del_quads l s).
Proof. intros H q. rewrite del_quads_In, del_quads_known. intros [Hq _]. auto. Qed.

Lemma kinv_clear c s : kinv s -> kinv (g_clear c s).
Proof. intros H q Hq. apply g_clear_In in Hq. simpl. apply H. tauto. Qed.

Lemma kinv_remove_graph c s : kinv s -> kinv (remove_graph c s).
Proof.
  intros H q Hq. unfold remove_graph, forget in *; simpl in *. change (In q (quads (g_clear c s))) in Hq.
  apply g_clear_In in Hq. apply (srem_In N.eqb N.eqb_spec). split; [apply H|]; tauto.
Qed.

(* ------------------------------------------------------------------ *)
(* equality up to renaming: what a successful search means, and that it
   succeeds on equal sets                                               *)

Lemma iso_search_sound a b : forall xs ys m,
  iso_search a b xs ys m = true -> exists m', qseteq (ren_quads m' a) b.
Proof.
  induction xs as [|x r IH]; intros ys m H; simpl in H.
  - exists m. apply qseteqb_spec. exact H.
  - revert H. generalize ys at 2. intros cands. induction cands as [|y rest IHc]; intros H; [discriminate|].
    destruct (partial_ok a b ((x, y) :: m) x); [|apply IHc; exact H].
    destruct (iso_search a b r (srem N.eqb y ys) ((x, y) :: m)) eqn:E; [|apply IHc; exact H].
    eapply IH; eauto.
Qed.

Theorem iso_eqb_sound a b : iso_eqb a b = true -> exists m, qseteq (ren_quads m a) b.
Proof.
  unfold iso_eqb. intros H.
  destruct (Nat.eqb _ _); [|discriminate]. destruct (Nat.eqb _ _); [|discriminate].
  destruct (forallb _ a); [|discriminate]. eapply iso_search_sound; eauto.
Qed.

(* identity renamings *)
Definition idmap (m : list (term * term)) : Prop := forall p, In p m -> fst p = snd p.

Lemma ren_id m t : idmap m -> ren m t = t.
Proof.
  induction m as [|[x y] r IH]; intros H; simpl; auto.
  destruct (N.eqb_spec t x).
  - subst. symmetry. apply (H (x, y)). left; auto.
  - apply IH. intros p Hp. apply H. right; auto.
Qed.

Lemma ren_quads_id m a : idmap m -> ren_quads m a = a.
Proof.
  intros H. unfold ren_quads. rewrite <- (map_id a) at 2. apply map_ext. intros [[[x y] z] c]. simpl.
  rewrite !ren_id; auto.
Qed.

Lemma ren_quad_id m q : idmap m -> ren_quad m q = q.
Proof. intros H. destruct q as [[[x y] z] c]. unfold ren_quad. simpl. rewrite !ren_id; auto. Qed.

Lemma partial_ok_id a b m x : idmap m -> qseteq a b -> partial_ok a b m x = true.
Proof.
  intros Hm Hab. unfold partial_ok. apply forallb_forall. intros q Hq.
  rewrite ren_quad_id; auto. apply orb_true_iff. right. apply q_mem_In. apply Hab. auto.
Qed.

Lemma srem_notin (x : N) l : ~ In x l -> srem N.eqb x l = l.
Proof.
  unfold srem. induction l as [|y r IH]; simpl; auto. intros H.
  destruct (N.eqb_spec x y); simpl; [exfalso; apply H; auto|]. f_equal. apply IH. tauto.
Qed.

Lemma iso_search_id a b : qseteq a b -> forall xs ys m,
  idmap m -> NoDup xs -> incl xs ys -> iso_search a b xs ys m = true.
Proof.
  intros Hab. induction xs as [|x r IH]; intros ys m Hm Hn Hi; simpl.
  - rewrite ren_quads_id; auto. apply qseteqb_spec. auto.
  - assert (Hx : In x ys) by (apply Hi; left; auto).
    assert (Hstep : (if partial_ok a b ((x, x) :: m) x
                     then iso_search a b r (srem N.eqb x ys) ((x, x) :: m) else false) = true).
    { assert (Hm' : idmap ((x, x) :: m)) by (intros p [<-|Hp]; auto).
      rewrite partial_ok_id; auto. apply IH; auto.
      - inversion Hn; auto.
      - intros z Hz. apply (srem_In N.eqb N.eqb_spec). split; [apply Hi; right; auto|].
        inversion Hn; subst. intros ->. tauto. }
    revert Hx. generalize ys at 1 3. intros cands. (* occurrences: In x ys, the argument of the loop *) induction cands as [|y rest IHc]; intros Hx; [destruct Hx|].
    destruct Hx as [->|Hx].
    + rewrite Hstep. reflexivity.
    + destruct (if partial_ok a b ((x, y) :: m) x then _ else false); auto.
Qed.

Lemma seteq_filter {A} (f : A -> bool) (l1 l2 : list A) : seteq l1 l2 -> seteq (filter f l1) (filter f l2).
Proof. intros H x. rewrite !filter_In. rewrite (H x). tauto. Qed.

Lemma NoDup_seteq_length {A} (l1 l2 : list A) : NoDup l1 -> NoDup l2 -> seteq l1 l2 -> length l1 = length l2.
Proof.
  intros H1 H2 H.
  assert (length l1 <= length l2)%nat by (apply NoDup_incl_length; auto; intros x Hx; apply H; auto).
  assert (length l2 <= length l1)%nat by (apply NoDup_incl_length; auto; intros x Hx; apply H; auto).
  lia.
Qed.

Lemma fresh_of_seteq a b : qseteq a b -> seteq (fresh_of a) (fresh_of b).
Proof.
  intros H x. unfold fresh_of. rewrite !(dedup_In N.eqb N.eqb_spec), !filter_In, !in_flat_map.
  split; intros [[q [Hq Ht]] Hf]; (split; [exists q; split; auto; apply H; auto|auto]).
Qed.

Theorem iso_eqb_seteq a b : qseteq a b -> iso_eqb a b = true.
Proof.
  intros H. unfold iso_eqb.
  assert (E1 : length (fresh_of a) = length (fresh_of b)).
  { apply NoDup_seteq_length; try apply (dedup_NoDup N.eqb N.eqb_spec). apply fresh_of_seteq; auto. }
  rewrite E1, Nat.eqb_refl.
  assert (E2 : length (dedup quad_eqb a) = length (dedup quad_eqb b)).
  { apply NoDup_seteq_length; try apply (dedup_NoDup quad_eqb quad_eqb_spec).
    intros x. rewrite !(dedup_In quad_eqb quad_eqb_spec). apply H. }
  rewrite E2, Nat.eqb_refl.
  assert (E3 : forallb (fun q => negb (all_assigned [] q) || q_mem q b) a = true).
  { apply forallb_forall. intros q Hq. apply orb_true_iff. right. apply q_mem_In. apply H; auto. }
  rewrite E3. apply iso_search_id; auto.
  - intros p [].
  - apply (dedup_NoDup N.eqb N.eqb_spec).
  - intros x Hx. apply fresh_of_seteq in H. apply H. auto.
Qed.

Lemma iso_eqb_refl a : iso_eqb a a = true.
Proof. apply iso_eqb_seteq. intros x; tauto. Qed.
