(* The request level: every operation outside the known-finding regions is its
   section-3 transformer, operations compose in order, the checker accepts the
   model; untouched graphs, fresh blank nodes, the historical loop. *)
From Coq Require Import Arith.
From RV Require Import Update.Model Update.Proofs Update.Ops.
Local Open Scope N_scope.

(* with the switch on, outside the regions of F10a/F10b the evaluators behave
   as with the switch off *)
Definition off (e : env) : env :=
  {| e_fe := e_fe e; e_union := false; e_lits := e_lits e; e_bnodes := e_bnodes e |}.

Lemma off_plain e : has_dataset e = true -> plain (off e).
Proof. destruct e as [[k| |] u l b]; simpl; try discriminate; reflexivity. Qed.

Lemma graph_plain e : has_dataset e = false -> plain e.
Proof. destruct e as [[k| |] u l b]; simpl; try discriminate; reflexivity. Qed.

Lemma noff_plain e : e_union e = false -> plain e.
Proof. destruct e as [[k| |] u l b]; simpl; intros ->; reflexivity. Qed.

Lemma spec_op_off e k o a : spec_op (off e) k o a = spec_op e k o a.
Proof. reflexivity. Qed.

Lemma fold_dw_off e k tm l : t_triples tm = [] -> forall s,
  fold_left (dw_one e k tm) l s = fold_left (dw_one (off e) k tm) l s.
Proof.
  intros Ht. apply fold_left_ext'. intros s im _. unfold dw_one. rewrite Ht. reflexivity.
Qed.

Lemma dw_off e k tm om s : has_dataset e = true -> e_union e = true ->
  op_kf e k (DeleteWhere tm om) = 0 ->
  eval_op e k (DeleteWhere tm om) s = eval_op (off e) k (DeleteWhere tm om) s
  /\ op_kf (off e) k (DeleteWhere tm om) = 0.
Proof.
  intros Hd Hu Hk.
  assert (Hdo : has_dataset (off e) = true) by (destruct e as [[k0| |] u l b]; auto).
  unfold op_kf, self_mode in *. rewrite Hd, Hu in Hk. rewrite Hdo.
  change (e_union (off e)) with false. split.
  - unfold eval_op, evalDeleteWhere. rewrite Hd, Hdo. simpl negb. rewrite andb_false_r.
    destruct (has_gvar tm) eqn:Hg; [reflexivity|]. simpl in Hk.
    destruct om as [|mu om']; [reflexivity|]. simpl in Hk.
    destruct (t_triples tm) eqn:Ht; [|discriminate]. f_equal. apply fold_dw_off; auto.
  - destruct (has_gvar tm && negb (is_nil om)); [discriminate|].
    destruct (lazy_region tm om); [|reflexivity].
    exfalso. revert Hk.
    match goal with |- (if ?c then _ else _) = _ -> _ => destruct c end; discriminate.
Qed.

Lemma eval_op_off e k o s : has_dataset e = true -> op_kf e k o = 0 ->
  eval_op e k o s = eval_op (off e) k o s /\ op_kf (off e) k o = 0.
Proof.
  intros Hd Hk. destruct e as [f u li bn]. destruct u; [|split; [reflexivity|exact Hk]].
  destruct f as [k0| |]; [discriminate| |].
  - (* ConjunctiveGraph *)
    destruct o as [ts qs|ts qs|tm om|w ud un d i om|sl g|sl g|sl x y|sl x y|sl x y]; cbn in Hk.
    + split; reflexivity.
    + destruct ts; [split; reflexivity|discriminate].
    + apply dw_off; auto.
    + split; [reflexivity|exact Hk].
    + destruct g; try discriminate; split; reflexivity.
    + destruct g; split; reflexivity.
    + destruct x, y; try discriminate; split; reflexivity.
    + destruct x, y; try discriminate; split; reflexivity.
    + destruct x, y; try discriminate; split; reflexivity.
  - (* Dataset *)
    destruct o as [ts qs|ts qs|tm om|w ud un d i om|sl g|sl g|sl x y|sl x y|sl x y]; cbn in Hk.
    + destruct ts; [split; reflexivity|discriminate].
    + destruct ts; [split; reflexivity|discriminate].
    + apply dw_off; auto.
    + split; [reflexivity|exact Hk].
    + destruct g; try discriminate; split; reflexivity.
    + destruct g; try discriminate; split; reflexivity.
    + destruct x, y; try discriminate; split; reflexivity.
    + destruct x, y; try discriminate; split; reflexivity.
    + destruct x, y; try discriminate; split; reflexivity.
Qed.

Lemma step_plain e k o s a : plain e ->
  has_dataset e = true \/ needs_dataset o = false ->
  op_kf e k o = 0 -> op_wf o = true -> kinv s -> qseteq (quads s) a -> step_ok e k o s a.
Proof.
  intros Hp Hd Hkf Hwf Hk Ha.
  destruct o as [ts qs|ts qs|tm om|w ud un d i om|sl g|sl g|sl x y|sl x y|sl x y].
  - apply insert_data_ok; auto.
  - apply delete_data_ok; auto.
  - apply delete_where_ok; auto.
  - apply modify_ok; auto.
  - apply clear_ok; auto.
  - destruct (has_dataset e) eqn:Hds; [apply drop_ok; auto|].
    destruct Hd as [Hd|Hd]; [discriminate|]. simpl in Hkf. rewrite Hds in Hkf. simpl in Hkf.
    destruct g; simpl in Hd; discriminate.
  - apply add_ok; auto.
  - apply move_ok; auto.
  - apply copy_ok; auto.
Qed.

(* one operation, outside the known-finding regions, is its transformer *)
Theorem step_correct e k o s a :
  has_dataset e = true \/ needs_dataset o = false ->
  op_kf e k o = 0 -> op_wf o = true -> kinv s -> qseteq (quads s) a -> step_ok e k o s a.
Proof.
  intros Hd Hkf Hwf Hk Ha.
  destruct (has_dataset e) eqn:Hds.
  - destruct (eval_op_off e k o s Hds Hkf) as [E1 E2].
    unfold step_ok. rewrite E1, <- spec_op_off. apply step_plain; auto.
    apply off_plain; auto.
  - apply step_plain; auto; [apply graph_plain; auto|].
    destruct Hd as [Hd|Hd]; [discriminate|right; exact Hd].
Qed.

Lemma kf_from_cons e k o r : kf_from e k (o :: r) = 0 -> op_kf e k o = 0 /\ kf_from e (N.succ k) r = 0.
Proof. simpl. destruct (op_kf e k o); auto. discriminate. Qed.

(* a request: the operations in order *)
Theorem sequence_correct e ops : forall k s a,
  has_dataset e = true \/ forallb (fun o => negb (needs_dataset o)) ops = true ->
  kf_from e k ops = 0 -> forallb op_wf ops = true -> kinv s -> qseteq (quads s) a ->
  exists s', eval_from e k ops s = Ok s' /\ qseteq (quads s') (spec_from e k ops a) /\ kinv s'.
Proof.
  induction ops as [|o r IH]; intros k s a Hd Hkf Hwf Hk Ha.
  - exists s. simpl. auto.
  - apply kf_from_cons in Hkf. destruct Hkf as [K1 K2]. simpl in Hwf. apply andb_true_iff in Hwf.
    destruct Hwf as [W1 W2].
    assert (Hd1 : has_dataset e = true \/ needs_dataset o = false).
    { destruct Hd as [Hd|Hd]; auto. simpl in Hd. apply andb_true_iff in Hd. right. apply negb_true_iff. tauto. }
    assert (Hd2 : has_dataset e = true \/ forallb (fun o => negb (needs_dataset o)) r = true).
    { destruct Hd as [Hd|Hd]; auto. simpl in Hd. apply andb_true_iff in Hd. tauto. }
    destruct (step_correct e k o s a Hd1 K1 W1 Hk Ha) as [s1 [E1 [Q1 I1]]].
    destruct (IH (N.succ k) s1 (spec_op e k o a) Hd2 K2 W2 I1 Q1) as [s2 [E2 [Q2 I2]]].
    exists s2. simpl. rewrite E1. simpl. auto.
Qed.

Lemma named_only_In l c : In c (named_only l) <-> In c l /\ c <> 0.
Proof. unfold named_only. rewrite filter_In, negb_true_iff, N.eqb_neq. tauto. Qed.

Theorem spec_ok_model c : wf c -> kf c = 0 -> spec_ok c (model_obs c) = true.
Proof.
  intros [W1 W2] Hkf. unfold spec_ok, model_obs.
  destruct (in_scope (c_env c) (c_ops c)) eqn:Hs.
  2:{ destruct (eval_from _ _ _ _); reflexivity. }
  unfold in_scope in Hs. apply orb_true_iff in Hs.
  destruct (sequence_correct (c_env c) (c_ops c) 0 (init_state c) (c_quads c)) as [s' [E [Q I]]]; auto.
  { intros q; simpl; tauto. }
  rewrite E.
  assert (F : forallb (fun x => N.eqb (snd x) 0 || memb N.eqb (snd x) (named_only (known s'))) (quads s') = true).
  { apply forallb_forall. intros q Hq. destruct (N.eqb_spec (snd q) 0); simpl; auto.
    apply (memb_In N.eqb N.eqb_spec). apply named_only_In. split; auto. }
  rewrite F. apply iso_eqb_seteq. exact Q.
Qed.

(* ------------------------------------------------------------------ *)
(* graphs an operation does not name stay equal                         *)

Definition op_graphs (e : env) (o : uop) (c : cid) : Prop :=
  match o with
  | InsertData ts qs | DeleteData ts qs => c = dflt e \/ In c (map fst qs)
  | DeleteWhere tm om => exists i mu, In (c) (map snd (s_quads e false 0 i (dflt e) tm mu))
  | Modify w _ _ d i om => True
  | Clear _ g | Drop _ g =>
      match g with GDefault => c = dflt e | GNamed => c <> dflt e | GAll => True | GIri x => c = x end
  | Add _ _ y => c = gd_cid e y
  | Copy _ _ y => c = gd_cid e y
  | Move _ x y => c = gd_cid e x \/ c = gd_cid e y
  end.

Lemma spec_untouched_data e k o a c :
  match o with Modify _ _ _ _ _ _ | DeleteWhere _ _ => False | _ => True end ->
  ~ op_graphs e o c -> forall t, In (t, c) (spec_op e k o a) <-> In (t, c) a.
Proof.
  intros Hk Hn t. destruct o as [ts qs|ts qs|tm om|w ud un d i om|sl g|sl g|sl x y|sl x y|sl x y];
    simpl in *; try tauto.
  - rewrite in_app_iff. unfold data_quads. rewrite in_app_iff, to_graph_In, in_flat_map. simpl.
    split; [|tauto]. intros [H|[[_ H]|[b [Hb H]]]]; auto; exfalso; apply Hn; auto.
    right. apply to_graph_In in H. simpl in H. destruct H as [_ H]. subst c. apply in_map. auto.
  - rewrite qdiff_In. unfold data_quads. rewrite in_app_iff, to_graph_In, in_flat_map. simpl.
    split; [tauto|]. intros H. split; auto. intros [[_ H1]|[b [Hb H1]]]; apply Hn; auto.
    right. apply to_graph_In in H1. simpl in H1. destruct H1 as [_ H1]. subst c. apply in_map. auto.
  - rewrite spec_clear_In. simpl. destruct g; tauto.
  - rewrite spec_clear_In. simpl. destruct g; tauto.
  - destruct (N.eqb _ _); [tauto|]. rewrite in_app_iff, to_graph_In. simpl. tauto.
  - destruct (N.eqb _ _); [tauto|]. rewrite drop_graph_In, in_app_iff, drop_graph_In, to_graph_In. simpl. tauto.
  - destruct (N.eqb _ _); [tauto|]. rewrite in_app_iff, drop_graph_In, to_graph_In. simpl. tauto.
Qed.

(* DELETE/INSERT..WHERE and DELETE WHERE: a graph that no instantiated
   template quad names keeps its triples *)
Lemma spec_untouched_modify e k w ud un d i om a c :
  let dg := match w with Some x => x | None => dflt e end in
  ~ In c (map snd (s_all e false k dg d om)) -> ~ In c (map snd (s_all e true k dg i om)) ->
  forall t, In (t, c) (spec_op e k (Modify w ud un d i om) a) <-> In (t, c) a.
Proof.
  intros dg H1 H2 t. simpl. fold dg. rewrite in_app_iff, qdiff_In. split.
  - intros [[H _]|H]; auto. exfalso. apply H2. apply (in_map snd) in H. exact H.
  - intros H. left. split; auto. intros H3. apply H1. apply (in_map snd) in H3. exact H3.
Qed.

(* ------------------------------------------------------------------ *)
(* fresh blank nodes                                                    *)

Lemma fresh_inj k i j x k' i' j' x' :
  i < 256 -> j < 256 -> x < 256 -> i' < 256 -> j' < 256 -> x' < 256 ->
  fresh k i j x = fresh k' i' j' x' -> k = k' /\ i = i' /\ j = j' /\ x = x'.
Proof. unfold fresh, FRESH. intros. lia. Qed.

Lemma fresh_ge k i j x : FRESH <= fresh k i j x.
Proof. unfold fresh, FRESH. lia. Qed.

Lemma fresh_window k i j x : i < 256 -> j < 256 -> x < 256 ->
  FRESH + k * 16777216 <= fresh k i j x < FRESH + (k + 1) * 16777216.
Proof. unfold fresh, FRESH. intros. lia. Qed.

(* ------------------------------------------------------------------ *)
(* the historical loop (per solution: delete, then insert) is refuted   *)

Definition swap_del : tmpl := {| t_triples := [(PVar 1, PVar 2, PVar 3)]; t_quads := [] |}.
Definition swap_ins : tmpl := {| t_triples := [(PVar 3, PVar 2, PVar 1)]; t_quads := [] |}.
Definition swap_omega : list sol := [[(1, 1); (2, 3); (3, 2)]; [(1, 2); (2, 3); (3, 1)]].
Definition swap_env : env := {| e_fe := FDS; e_union := false; e_lits := []; e_bnodes := [] |}.
Definition swap_init : dstate := {| quads := [((1, 3, 2), 0); ((2, 3, 1), 0)]; known := [0] |}.

Lemma modify_prefix_refuted :
  qseteqb (quads (evalModify_prefix 0 0 (Some swap_del) (Some swap_ins) swap_omega swap_init))
          (spec_op swap_env 0 (Modify None false false (Some swap_del) (Some swap_ins) swap_omega)
                   (quads swap_init)) = false
  /\ qseteqb (spec_op swap_env 0 (Modify None false false (Some swap_del) (Some swap_ins) swap_omega)
                      (quads swap_init)) (quads swap_init) = true.
Proof. split; vm_compute; reflexivity. Qed.

(* ------------------------------------------------------------------ *)
(* Prop-level readings, one per operation                               *)

Lemma data_quads_In d ts qs q :
  In q (data_quads d ts qs) <->
  (snd q = d /\ In (fst q) ts) \/ exists b, In b qs /\ snd q = fst b /\ In (fst q) (snd b).
Proof.
  unfold data_quads. rewrite in_app_iff, to_graph_In, in_flat_map. split.
  - intros [[H1 H2]|[b [Hb H]]]; [left; auto|right]. apply to_graph_In in H. exists b. tauto.
  - intros [[H1 H2]|[b [Hb [H1 H2]]]]; [left; auto|right]. exists b. split; auto. apply to_graph_In. auto.
Qed.

Definition scope (e : env) (o : uop) : Prop := has_dataset e = true \/ needs_dataset o = false.

Section Readings.
  Variables (e : env) (k : N) (s : dstate) (a : qset).
  Hypothesis Hk : kinv s.
  Hypothesis Ha : qseteq (quads s) a.

  Lemma insert_data_reading ts qs : scope e (InsertData ts qs) -> op_kf e k (InsertData ts qs) = 0 ->
    exists s', eval_op e k (InsertData ts qs) s = Ok s' /\ kinv s' /\
      forall q, In q (quads s') <-> In q a \/ In q (data_quads (dflt e) ts qs).
  Proof.
    intros Hs Hf. destruct (step_correct e k _ s a Hs Hf eq_refl Hk Ha) as [s' [E [Q I]]].
    exists s'. split; [|split]; auto. intros q. rewrite (Q q). simpl. apply in_app_iff.
  Qed.

  Lemma delete_data_reading ts qs : scope e (DeleteData ts qs) -> op_kf e k (DeleteData ts qs) = 0 ->
    exists s', eval_op e k (DeleteData ts qs) s = Ok s' /\ kinv s' /\
      forall q, In q (quads s') <-> In q a /\ ~ In q (data_quads (dflt e) ts qs).
  Proof.
    intros Hs Hf. destruct (step_correct e k _ s a Hs Hf eq_refl Hk Ha) as [s' [E [Q I]]].
    exists s'. split; [|split]; auto. intros q. rewrite (Q q). simpl. apply qdiff_In.
  Qed.

  Lemma delete_where_reading tm om : scope e (DeleteWhere tm om) -> op_kf e k (DeleteWhere tm om) = 0 ->
    no_bnode tm = true ->
    exists s', eval_op e k (DeleteWhere tm om) s = Ok s' /\ kinv s' /\
      forall q, In q (quads s') <-> In q a /\ ~ In q (s_all e false k (dflt e) (Some tm) om).
  Proof.
    intros Hs Hf Hn. destruct (step_correct e k _ s a Hs Hf Hn Hk Ha) as [s' [E [Q I]]].
    exists s'. split; [|split]; auto. intros q. rewrite (Q q). simpl. apply qdiff_In.
  Qed.

  (* D' = (D \ U_mu del(mu)) U U_mu ins(mu), every deletion before any insertion *)
  Lemma modify_reading w ud un d i om :
    scope e (Modify w ud un d i om) -> op_kf e k (Modify w ud un d i om) = 0 ->
    op_wf (Modify w ud un d i om) = true ->
    let dg := match w with Some c => c | None => dflt e end in
    exists s', eval_op e k (Modify w ud un d i om) s = Ok s' /\ kinv s' /\
      forall q, In q (quads s') <->
        (In q a /\ ~ In q (s_all e false k dg d om)) \/ In q (s_all e true k dg i om).
  Proof.
    intros Hs Hf Hw dg. destruct (step_correct e k _ s a Hs Hf Hw Hk Ha) as [s' [E [Q I]]].
    exists s'. split; [|split]; auto. intros q. rewrite (Q q). simpl. fold dg.
    rewrite in_app_iff, qdiff_In. tauto.
  Qed.

  Lemma clear_reading sl g : scope e (Clear sl g) -> op_kf e k (Clear sl g) = 0 ->
    exists s', eval_op e k (Clear sl g) s = Ok s' /\ kinv s' /\
      forall q, In q (quads s') <->
        In q a /\ ~ match g with
                    | GDefault => snd q = dflt e
                    | GNamed => snd q <> dflt e
                    | GAll => True
                    | GIri c => snd q = c
                    end.
  Proof.
    intros Hs Hf. destruct (step_correct e k _ s a Hs Hf eq_refl Hk Ha) as [s' [E [Q I]]].
    exists s'. split; [|split]; auto. intros q. rewrite (Q q). simpl. apply spec_clear_In.
  Qed.

  Lemma drop_reading sl g : scope e (Drop sl g) -> op_kf e k (Drop sl g) = 0 ->
    exists s', eval_op e k (Drop sl g) s = Ok s' /\ kinv s' /\
      forall q, In q (quads s') <->
        In q a /\ ~ match g with
                    | GDefault => snd q = dflt e
                    | GNamed => snd q <> dflt e
                    | GAll => True
                    | GIri c => snd q = c
                    end.
  Proof.
    intros Hs Hf. destruct (step_correct e k _ s a Hs Hf eq_refl Hk Ha) as [s' [E [Q I]]].
    exists s'. split; [|split]; auto. intros q. rewrite (Q q). simpl. apply spec_clear_In.
  Qed.

  Lemma add_reading sl x y : scope e (Add sl x y) -> op_kf e k (Add sl x y) = 0 ->
    exists s', eval_op e k (Add sl x y) s = Ok s' /\ kinv s' /\
      forall q, In q (quads s') <->
        In q a \/ (gd_cid e x <> gd_cid e y /\ snd q = gd_cid e y /\ In (fst q, gd_cid e x) a).
  Proof.
    intros Hs Hf. destruct (step_correct e k _ s a Hs Hf eq_refl Hk Ha) as [s' [E [Q I]]].
    exists s'. split; [|split]; auto. intros q. rewrite (Q q). simpl.
    destruct (N.eqb_spec (gd_cid e x) (gd_cid e y)); [tauto|].
    rewrite in_app_iff, to_graph_In, graph_of_In. tauto.
  Qed.

  Lemma copy_reading sl x y : scope e (Copy sl x y) -> op_kf e k (Copy sl x y) = 0 ->
    exists s', eval_op e k (Copy sl x y) s = Ok s' /\ kinv s' /\
      forall q, In q (quads s') <->
        if N.eqb (gd_cid e x) (gd_cid e y) then In q a
        else (In q a /\ snd q <> gd_cid e y) \/ (snd q = gd_cid e y /\ In (fst q, gd_cid e x) a).
  Proof.
    intros Hs Hf. destruct (step_correct e k _ s a Hs Hf eq_refl Hk Ha) as [s' [E [Q I]]].
    exists s'. split; [|split]; auto. intros q. rewrite (Q q). simpl.
    destruct (N.eqb (gd_cid e x) (gd_cid e y)); [tauto|].
    rewrite in_app_iff, drop_graph_In, to_graph_In, graph_of_In. tauto.
  Qed.

  Lemma move_reading sl x y : scope e (Move sl x y) -> op_kf e k (Move sl x y) = 0 ->
    exists s', eval_op e k (Move sl x y) s = Ok s' /\ kinv s' /\
      forall q, In q (quads s') <->
        if N.eqb (gd_cid e x) (gd_cid e y) then In q a
        else snd q <> gd_cid e x /\
             ((In q a /\ snd q <> gd_cid e y) \/ (snd q = gd_cid e y /\ In (fst q, gd_cid e x) a)).
  Proof.
    intros Hs Hf. destruct (step_correct e k _ s a Hs Hf eq_refl Hk Ha) as [s' [E [Q I]]].
    exists s'. split; [|split]; auto. intros q. rewrite (Q q). simpl.
    destruct (N.eqb (gd_cid e x) (gd_cid e y)); [tauto|].
    rewrite drop_graph_In, in_app_iff, drop_graph_In, to_graph_In, graph_of_In. tauto.
  Qed.
End Readings.

(* what the checker means *)
Lemma spec_ok_reading c q kn raised :
  in_scope (c_env c) (c_ops c) = true -> spec_ok c (q, kn, raised) = true ->
  raised = false
  /\ (forall x, In x q -> snd x = 0 \/ In (snd x) kn)
  /\ exists m, qseteq (ren_quads m q) (spec_from (c_env c) 0 (c_ops c) (c_quads c)).
Proof.
  unfold spec_ok. intros -> H. destruct raised; [discriminate|].
  destruct (forallb (fun x : triple * N => (snd x =? 0) || memb N.eqb (snd x) kn) q) eqn:F; [|discriminate].
  split; auto. split.
  - intros x Hx. rewrite forallb_forall in F. apply F in Hx. apply orb_true_iff in Hx.
    destruct Hx as [Hx|Hx]; [left; apply N.eqb_eq; auto|right; apply (memb_In N.eqb N.eqb_spec); auto].
  - apply iso_eqb_sound. exact H.
Qed.

(* template blank nodes: one node per (operation, solution, label) in the
   specification, new with respect to a store whose terms are older *)
Lemma sfresh_inj k i tm x k' i' tm' x' :
  i < 256 -> x < 256 -> i' < 256 -> x' < 256 ->
  first_block tm x < 256 -> first_block tm' x' < 256 ->
  sfresh k i tm x = sfresh k' i' tm' x' -> k = k' /\ i = i' /\ x = x'.
Proof.
  unfold sfresh. intros. apply fresh_inj in H5; auto. tauto.
Qed.

Lemma inst_pos_bnode fr mu x : inst_pos fr mu (PBnode x) = Some (fr x).
Proof. reflexivity. Qed.
