(* The request level: every operation (outside the region of F10f) is its
   section-3 transformer, operations compose in order, the checker accepts the
   model; untouched graphs, fresh blank nodes, the historical definitions. *)
From Coq Require Import Arith.
From Coq Require Import Permutation.
From RV Require Import Update.Model Update.Proofs Update.Ops Update.Where.
Local Open Scope N_scope.

(* one operation is its transformer: every front end, both settings of the switch *)
(* operations whose WHERE solutions are given (everything but ModifyW) and that
   can succeed (everything but CREATE without SILENT) *)
Definition no_where (o : uop) : bool :=
  match o with DeleteWhereW _ | ModifyW _ _ _ _ _ _ | Create false _ => false | _ => true end.

Theorem step_correct e k o s a : no_where o = true ->
  scope e o -> op_kf e k o = 0 -> kinv s -> qseteq (quads s) a -> step_ok e k o s a.
Proof.
  intros Hnw Hd Hkf Hk Ha.
  destruct o as [ts qs|ts qs|tm om|w ud un d i om|tm|w ud un d i p|sl g|sl g|sl x y|sl x y|sl x y|sl c].
  - apply insert_data_ok; auto.
  - apply delete_data_ok; auto.
  - apply delete_where_ok; auto.
  - apply modify_ok; auto.
  - discriminate.
  - discriminate.
  - apply clear_ok; auto.
  - apply drop_ok; auto.
  - apply add_ok; auto.
  - apply move_ok; auto.
  - apply copy_ok; auto.
  - destruct sl; [|discriminate]. exists s. simpl. auto.
Qed.

Lemma step_correct2 e k o s a : scope e o -> no_where o = true ->
  op_kf e k o = 0 -> kinv s -> qseteq (quads s) a -> step_ok e k o s a.
Proof. intros. apply step_correct; auto. Qed.

(* the switch is irrelevant to every write: it only enters through the
   solutions of a WHERE clause (ModifyW evaluates its own) *)
Lemma eval_op_union e u k o s : no_where o = true ->
  eval_op {| e_fe := e_fe e; e_union := u; e_lits := e_lits e; e_bnodes := e_bnodes e |} k o s = eval_op e k o s.
Proof. destruct o; try discriminate; reflexivity. Qed.

Lemma kf_from_cons e k o r : kf_from e k (o :: r) = 0 -> op_kf e k o = 0 /\ kf_from e (N.succ k) r = 0.
Proof. intros H. split; [reflexivity|exact H]. Qed.

(* a request: the operations in order *)
Theorem sequence_correct e ops : forall k s a,
  has_dataset e = true \/ forallb (fun o => negb (needs_dataset o)) ops = true ->
  forallb no_where ops = true ->
  kf_from e k ops = 0 -> kinv s -> qseteq (quads s) a ->
  exists s', eval_from e k ops s = Ok s' /\ qseteq (quads s') (spec_from e k ops a) /\ kinv s'.
Proof.
  induction ops as [|o r IH]; intros k s a Hd Hnw Hkf Hk Ha.
  - exists s. simpl. auto.
  - apply kf_from_cons in Hkf. destruct Hkf as [K1 K2].
    simpl in Hnw. apply andb_true_iff in Hnw. destruct Hnw as [N1 N2].
    assert (Hd1 : scope e o).
    { destruct Hd as [Hd|Hd]; [left; auto|]. simpl in Hd. apply andb_true_iff in Hd. right. apply negb_true_iff. tauto. }
    assert (Hd2 : has_dataset e = true \/ forallb (fun o => negb (needs_dataset o)) r = true).
    { destruct Hd as [Hd|Hd]; auto. simpl in Hd. apply andb_true_iff in Hd. tauto. }
    destruct (step_correct e k o s a N1 Hd1 K1 Hk Ha) as [s1 [E1 [Q1 I1]]].
    destruct (IH (N.succ k) s1 (spec_op e k o a) Hd2 N2 K2 I1 Q1) as [s2 [E2 [Q2 I2]]].
    exists s2. simpl. rewrite E1. simpl. auto.
Qed.

(* ------------------------------------------------------------------ *)
(* DELETE/INSERT ... WHERE with the WHERE clause evaluated by the model  *)

Definition pos_nolabel (p : tpos) : bool := match p with PBnode _ => false | _ => true end.
Definition tpat_nolabel (tp : tpat) : bool :=
  let '(x, y, z) := tp in pos_nolabel x && pos_nolabel y && pos_nolabel z.
Definition tmpl_nolabel (tm : option tmpl) : bool :=
  match tm with
  | Some t => forallb (fun b => forallb tpat_nolabel (snd b)) (blocks t)
  | None => true
  end.

Lemma inst_pos_nolabel fr fr' mu p : pos_nolabel p = true -> inst_pos fr mu p = inst_pos fr' mu p.
Proof. destruct p; simpl; auto; discriminate. Qed.

Lemma fill_nolabel fr fr' mu ts : forallb tpat_nolabel ts = true -> fill fr mu ts = fill fr' mu ts.
Proof.
  intros H. unfold fill. apply flat_map_ext'. intros [[x y] z] Hin.
  rewrite forallb_forall in H. specialize (H _ Hin). simpl in H.
  apply andb_true_iff in H. destruct H as [H Hz]. apply andb_true_iff in H. destruct H as [Hx Hy].
  unfold inst_tpat. rewrite (inst_pos_nolabel fr fr' mu x Hx), (inst_pos_nolabel fr fr' mu y Hy),
    (inst_pos_nolabel fr fr' mu z Hz). reflexivity.
Qed.

Lemma s_quads_nolabel e sk k i i' dg tm mu : tmpl_nolabel (Some tm) = true ->
  s_quads e sk k i dg tm mu = s_quads e sk k i' dg tm mu.
Proof.
  intros H. unfold s_quads. apply flat_map_ext'. intros b Hb. unfold tmpl_nolabel in H. rewrite forallb_forall in H.
  destruct (s_target dg mu (fst b)); auto.
  rewrite (fill_nolabel (sfresh k i) (sfresh k i') mu (snd b)); auto.
Qed.

Lemma s_all_nolabel_In e sk k dg tm om q : tmpl_nolabel tm = true ->
  In q (s_all e sk k dg tm om) <->
  exists t mu, tm = Some t /\ In mu om /\ In q (s_quads e sk k 0 dg t mu).
Proof.
  intros H. destruct tm as [t|]; simpl.
  - rewrite in_flat_map. split.
    + intros [im [Him Hq]]. exists t, (snd im). split; auto. split; [eapply enum_from_snd; eauto|].
      rewrite (s_quads_nolabel e sk k 0 (fst im)); auto.
    + intros [t' [mu [[= <-] [Hmu Hq]]]].
      assert (X : forall n, exists im, In im (enum_from n om) /\ snd im = mu).
      { clear - Hmu. induction om as [|x r IH]; [destruct Hmu|]. intros n. destruct Hmu as [->|Hmu].
        - exists (n, mu). split; [left; auto|auto].
        - destruct (IH Hmu (N.succ n)) as [im [H1 H2]]. exists im. split; [right; auto|auto]. }
      destruct (X 0) as [im [H1 H2]]. exists im. split; auto. subst mu.
      rewrite (s_quads_nolabel e sk k (fst im) 0); auto.
  - split; [tauto|]. intros [t [mu [E _]]]. discriminate.
Qed.

Lemma s_all_perm e sk k dg tm om om' q : tmpl_nolabel tm = true -> Permutation om om' ->
  In q (s_all e sk k dg tm om) <-> In q (s_all e sk k dg tm om').
Proof.
  intros H P. rewrite !s_all_nolabel_In by auto.
  split; intros [t [mu [E [Hmu Hq]]]]; exists t, mu; split; auto; split; auto.
  - eapply Permutation_in; eauto.
  - eapply Permutation_in; [apply Permutation_sym|]; eauto.
Qed.

(* what makes a ModifyW operation fall under the theorems: the pattern is in the
   fragment (BGP, Join, Union, GRAPH over them; accepted by C04's [frag]) *)
Definition where_ok (p : Sparql.Algebra.alg) : Prop := walg p = true /\ forall names, Sparql.Agreement.frag names [] p = true.

(* store hypotheses of C04's theorem: duplicate-free, no term is one of C04's
   two boolean literals (ids 20, 21 - unused by this property's numbering) *)
Definition store_ok (a : qset) : Prop := NoDup a /\ terms_nb a.

(* T2: end to end.  The operation succeeds; the store afterwards is the 3.1.3
   result for an enumeration [om] of the solution multiset of the WHERE pattern
   over the prescribed query dataset, all solutions computed on the state
   before the operation, deletions before insertions (the enumeration only
   decides which fresh node a template label gets in which solution). *)
Theorem modify_where e k s w ud un d i p : where_ok p -> store_ok (quads s) -> kinv s ->
  scope e (ModifyW w ud un d i p) -> op_kf e k (ModifyW w ud un d i p) = 0 ->
  let dg := match w with Some c => c | None => dflt e end in
  exists s' om, eval_op e k (ModifyW w ud un d i p) s = Ok s' /\ kinv s'
    /\ Permutation om (s_omega e w ud un p (quads s))
    /\ forall q, In q (quads s') <->
         (In q (quads s) /\ ~ In q (s_all e false k dg d om)) \/ In q (s_all e true k dg i om).
Proof.
  intros [W F] [Hn Hb] Hk Hs Hkf dg.
  pose proof (where_solutions e w ud un p (quads s) F Hn Hb) as P.
  set (om := m_omega e w ud un p (quads s)) in *.
  assert (Hs' : has_dataset e = true \/
                (w = None /\ negb (is_nil ud) || negb (is_nil un) = false
                 /\ tm_has_quads d = false /\ tm_has_quads i = false)).
  { destruct Hs as [Hs|Hs]; [left; auto|right]. simpl in Hs.
    repeat (apply orb_false_iff in Hs; destruct Hs as [Hs ?]).
    destruct w; [discriminate|]. repeat split; auto. apply orb_false_iff. auto. }
  destruct (evalModify_ok e k w (negb (is_nil ud) || negb (is_nil un)) d i om s (quads s) Hs' Hk)
    as [s' [E [Q I]]]; [intros q; tauto|].
  exists s', om. split; [|split; [auto|split; [auto|]]].
  - simpl. fold om.
    assert (X : negb (has_dataset e) && uses_graph p = false).
    { destruct Hs as [Hs|Hs]; [rewrite Hs; reflexivity|]. simpl in Hs.
      apply orb_false_iff in Hs. destruct Hs as [_ Hs]. rewrite Hs. apply andb_false_r. }
    rewrite X. exact E.
  - intros q. rewrite (Q q). simpl. fold dg. rewrite in_app_iff, qdiff_In. tauto.
Qed.

(* without blank-node labels in the templates the enumeration is immaterial:
   the operation is exactly its transformer *)
Theorem step_where e k s w ud un d i p : where_ok p -> store_ok (quads s) -> kinv s ->
  scope e (ModifyW w ud un d i p) -> op_kf e k (ModifyW w ud un d i p) = 0 ->
  tmpl_nolabel d = true -> tmpl_nolabel i = true ->
  step_ok e k (ModifyW w ud un d i p) s (quads s).
Proof.
  intros Hw Hst Hk Hs Hkf Ld Li.
  destruct (modify_where e k s w ud un d i p Hw Hst Hk Hs Hkf) as [s' [om [E [I [P Q]]]]].
  exists s'. split; [auto|split; [|auto]].
  intros q. rewrite (Q q). simpl. rewrite (dedup_id quad_eqb quad_eqb_spec (quads s)) by apply Hst.
  rewrite in_app_iff, qdiff_In.
  rewrite (s_all_perm e false k _ d om _ q Ld P), (s_all_perm e true k _ i om _ q Li P). tauto.
Qed.

(* DELETE WHERE with the solutions computed by the model (evalBGP, evalPart over
   Graph nodes, _join): exactly the transformer whose solutions are those of the
   quad pattern, read as a group graph pattern, over the store's dataset *)
Theorem step_delete_where e k s tm : store_ok (quads s) -> kinv s ->
  scope e (DeleteWhereW tm) -> tmpl_nolabel (Some tm) = true ->
  step_ok e k (DeleteWhereW tm) s (quads s).
Proof.
  intros [Hn Hb] Hk Hs Hl.
  destruct (delete_where_ok e k tm (dw_omega e tm (quads s)) s (quads s) Hs Hk) as [s' [E [Q I]]];
    [intros q; tauto|].
  exists s'. split; [exact E|split; [|exact I]].
  intros q. rewrite (Q q). simpl. rewrite (dedup_id quad_eqb quad_eqb_spec (quads s)) by exact Hn.
  rewrite !qdiff_In.
  rewrite (s_all_perm e false k (dflt e) (Some tm) _ _ q Hl (dw_solutions e tm (quads s) Hn Hb)). tauto.
Qed.

(* well-formed cases: every graph that holds a quad is known to the store (Memory.add) *)
Definition wf (c : case) : Prop := forall q, In q (c_quads c) -> In (snd q) (c_known c).

(* THE FRAGMENT of the request-level theorems (not a well-formedness condition):
   an operation whose solutions the model computes (ModifyW, DeleteWhereW) occurs
   only as the FIRST operation of the request - there the store is the case's quad
   list itself -, its WHERE pattern is in the fragment BGP / Join / Union / GRAPH
   accepted by C04's [frag], its templates carry no blank-node label, the store has
   no duplicate quad and none of C04's two boolean ids; no CREATE without SILENT.
   Outside it: the single-step theorems (any position, any template) and conformance. *)
Definition op_where_wf (o : uop) : Prop :=
  match o with
  | ModifyW _ _ _ d i p => where_ok p /\ tmpl_nolabel d = true /\ tmpl_nolabel i = true
  | DeleteWhereW tm => tmpl_nolabel (Some tm) = true
  | Create false _ => False
  | _ => True
  end.

Definition in_model_where (c : case) : Prop :=
  match c_ops c with
  | [] => True
  | o :: r => op_where_wf o /\ (no_where o = false -> store_ok (c_quads c)) /\ forallb no_where r = true
  end.

Lemma named_only_In l c : In c (named_only l) <-> In c l /\ c <> 0.
Proof. unfold named_only. rewrite filter_In, negb_true_iff, N.eqb_neq. tauto. Qed.

Theorem request_correct c : wf c -> in_model_where c -> kf c = 0 ->
  has_dataset (c_env c) = true \/ forallb (fun o => negb (needs_dataset o)) (c_ops c) = true ->
  exists s', eval_from (c_env c) 0 (c_ops c) (init_state c) = Ok s'
    /\ qseteq (quads s') (spec_from (c_env c) 0 (c_ops c) (c_quads c)) /\ kinv s'.
Proof.
  intros W1 W2 Hkf Hd. unfold kf in Hkf. unfold in_model_where in W2.
  assert (K0 : kinv (init_state c)) by exact W1.
  destruct (c_ops c) as [|o r] eqn:Eo.
  - exists (init_state c). simpl. split; auto. split; auto. intros q; tauto.
  - destruct W2 as [Ow [Os Nr]].
    destruct (no_where o) eqn:No.
    + apply sequence_correct; auto; [simpl; rewrite No, Nr; reflexivity|intros q; simpl; tauto].
    + assert (First : exists s1, eval_op (c_env c) 0 o (init_state c) = Ok s1
                 /\ qseteq (quads s1) (spec_op (c_env c) 0 o (c_quads c)) /\ kinv s1
                 /\ op_kf (c_env c) 0 o = 0 /\ kf_from (c_env c) (N.succ 0) r = 0).
      { apply kf_from_cons in Hkf. destruct Hkf as [K1 K2].
        assert (Hs : scope (c_env c) o).
        { destruct Hd as [Hd|Hd]; [left; auto|right]. simpl in Hd. apply andb_true_iff in Hd.
          apply negb_true_iff. tauto. }
        destruct o as [| | | |tm0|w usingd usingn del ins where_| | | | | |[|] c0]; try discriminate; [| |destruct Ow].
        - destruct (step_delete_where (c_env c) 0 (init_state c) tm0 (Os eq_refl) K0 Hs Ow) as [s1 H1].
          exists s1. tauto.
        - destruct Ow as [Hw [Ld Li]].
          destruct (step_where (c_env c) 0 (init_state c) w usingd usingn del ins where_ Hw (Os eq_refl) K0 Hs K1 Ld Li)
            as [s1 H1]. exists s1. tauto. }
      destruct First as [s1 [E1 [Q1 [I1 [K1 K2]]]]].
      assert (Hd2 : has_dataset (c_env c) = true \/ forallb (fun o => negb (needs_dataset o)) r = true).
      { destruct Hd as [Hd|Hd]; auto. simpl in Hd. apply andb_true_iff in Hd. tauto. }
      destruct (sequence_correct (c_env c) r (N.succ 0) s1 _ Hd2 Nr K2 I1 Q1) as [s2 [E2 [Q2 I2]]].
      exists s2. split; [|split; auto].
      change (eval_from (c_env c) 0 (o :: r) (init_state c))
        with (bind (eval_op (c_env c) 0 o (init_state c)) (eval_from (c_env c) (N.succ 0) r)).
      rewrite E1. exact E2.
Qed.

Theorem spec_ok_model c : wf c -> in_model_where c -> kf c = 0 -> spec_ok c (model_obs c) = true.
Proof.
  intros W Wm Hkf. unfold spec_ok, model_obs.
  destruct (in_scope (c_env c) (c_ops c)) eqn:Hs.
  2:{ destruct (eval_from _ _ _ _); reflexivity. }
  unfold in_scope in Hs. apply andb_true_iff in Hs. destruct Hs as [Hs _]. apply orb_true_iff in Hs.
  destruct (request_correct c W Wm Hkf Hs) as [s' [E [Q I]]].
  rewrite E.
  assert (F : forallb (fun x => N.eqb (snd x) 0 || memb N.eqb (snd x) (named_only (known s'))) (quads s') = true).
  { apply forallb_forall. intros q Hq. destruct (N.eqb_spec (snd q) 0); simpl; auto.
    apply (memb_In N.eqb N.eqb_spec). apply named_only_In. split; auto. }
  rewrite F. apply iso_eqb_seteq. exact Q.
Qed.

(* ------------------------------------------------------------------ *)
(* graphs an operation does not name stay equal                         *)

Definition op_graphs (e : env) (o : uop) (c : cid) : Prop :=
  match o with
  | InsertData ts qs | DeleteData ts qs => c = dflt e \/ In c (map fst qs)
  | DeleteWhere tm om => exists i mu, In (c) (map snd (s_quads e false 0 i (dflt e) tm mu))
  | Modify w _ _ d i om => True
  | DeleteWhereW _ => True
  | ModifyW _ _ _ _ _ _ => True
  | Create _ _ => False
  | Clear _ g | Drop _ g =>
      match g with GDefault => c = dflt e | GNamed => c <> dflt e | GAll => True | GIri x => c = x end
  | Add _ _ y => c = gd_cid e y
  | Copy _ _ y => c = gd_cid e y
  | Move _ x y => c = gd_cid e x \/ c = gd_cid e y
  end.

Lemma spec_untouched_data e k o a c :
  match o with Modify _ _ _ _ _ _ | ModifyW _ _ _ _ _ _ | DeleteWhere _ _ | DeleteWhereW _ => False | _ => True end ->
  ~ op_graphs e o c -> forall t, In (t, c) (spec_op e k o a) <-> In (t, c) a.
Proof.
  intros Hk Hn t. destruct o as [ts qs|ts qs|tm om|w ud un d i om|tm|w ud un d i p|sl g|sl g|sl x y|sl x y|sl x y|sl c0];
    simpl in *; try tauto.
  - rewrite in_app_iff. unfold data_quads. rewrite in_app_iff, to_graph_In, in_flat_map. simpl.
    split; [|tauto]. intros [H|[[_ H]|[b [Hb H]]]]; auto; exfalso; apply Hn; auto.
    right. apply to_graph_In in H. simpl in H. destruct H as [_ H]. subst c. apply in_map. auto.
  - rewrite qdiff_In. unfold data_quads. rewrite in_app_iff, to_graph_In, in_flat_map. simpl.
    split; [tauto|]. intros H. split; auto. intros [[_ H1]|[b [Hb H1]]]; apply Hn; auto.
    right. apply to_graph_In in H1. simpl in H1. destruct H1 as [_ H1]. subst c. apply in_map. auto.
  - rewrite spec_clear_In. simpl. destruct g; tauto.
  - rewrite spec_clear_In. simpl. destruct g; tauto.
  - destruct (N.eqb _ _); [tauto|]. rewrite in_app_iff, to_graph_In. simpl. tauto.
  - destruct (N.eqb _ _); [tauto|]. rewrite drop_graph_In, in_app_iff, drop_graph_In, to_graph_In. simpl. tauto.
  - destruct (N.eqb _ _); [tauto|]. rewrite in_app_iff, drop_graph_In, to_graph_In. simpl. tauto.
Qed.

(* DELETE/INSERT..WHERE and DELETE WHERE: a graph that no instantiated
   template quad names keeps its triples *)
Lemma spec_untouched_modify e k w ud un d i om a c :
  let dg := match w with Some x => x | None => dflt e end in
  ~ In c (map snd (s_all e false k dg d om)) -> ~ In c (map snd (s_all e true k dg i om)) ->
  forall t, In (t, c) (spec_op e k (Modify w ud un d i om) a) <-> In (t, c) a.
Proof.
  intros dg H1 H2 t. simpl. fold dg. rewrite in_app_iff, qdiff_In. split.
  - intros [[H _]|H]; auto. exfalso. apply H2. apply (in_map snd) in H. exact H.
  - intros H. left. split; auto. intros H3. apply H1. apply (in_map snd) in H3. exact H3.
Qed.

Lemma data_quads_In' d ts qs q :
  In q (data_quads d ts qs) ->
  (snd q = d /\ In (fst q) ts) \/ exists b, In b qs /\ snd q = fst b /\ In (fst q) (snd b).
Proof.
  unfold data_quads. rewrite in_app_iff, to_graph_In, in_flat_map.
  intros [[H1 H2]|[b [Hb H]]]; [left; auto|right]. apply to_graph_In in H. exists b. tauto.
Qed.

(* ------------------------------------------------------------------ *)
(* fresh blank nodes                                                    *)

Definition window (k : N) : N := FRESH + k * 16777216.

Lemma fresh_inj k i x k' i' x' :
  i < 256 -> x < 65536 -> i' < 256 -> x' < 65536 ->
  fresh k i x = fresh k' i' x' -> k = k' /\ i = i' /\ x = x'.
Proof. unfold fresh, FRESH. intros. lia. Qed.

Lemma fresh_window k i x : i < 256 -> x < 65536 -> window k <= fresh k i x < window (k + 1).
Proof. unfold fresh, window, FRESH. intros. lia. Qed.

(* every term of the store is below n: the supply hypothesis for the
   operation whose window starts at n (BNode() returns a node not in use) *)
Definition older (n : N) (a : qset) : Prop :=
  forall q, In q a -> forall t, In t (triple_terms (fst q)) -> t < n.

Definition triples_bounded (n : N) (ts : list triple) : Prop :=
  forall t, In t ts -> forall x, In x (triple_terms t) -> x < n.
Definition pos_bounded (n : N) (p : tpos) : Prop :=
  match p with PConst t => t < n | PVar _ => True | PBnode x => x < 65536 end.
Definition tmpl_bounded (n : N) (tm : tmpl) : Prop :=
  forall b, In b (blocks tm) -> forall tp, In tp (snd b) ->
    let '(x, y, z) := tp in pos_bounded n x /\ pos_bounded n y /\ pos_bounded n z.
Definition omega_bounded (n : N) (om : list sol) : Prop :=
  N.of_nat (length om) <= 256 /\ forall mu, In mu om -> forall p, In p mu -> snd p < n.
(* constants and bound values of the k-th operation are terms in use before it *)
Definition op_bounded (n : N) (o : uop) : Prop :=
  match o with
  | InsertData ts qs => triples_bounded n ts /\ forall b, In b qs -> triples_bounded n (snd b)
  | Modify _ _ _ _ (Some i) om => tmpl_bounded n i /\ omega_bounded n om
  | ModifyW _ _ _ _ _ _ => False   (* not covered: the bound values are computed *)
  | _ => True
  end.

(* template blank nodes: new with respect to every term of D, one node per
   (solution, label), different labels and different solutions differ *)
Theorem fresh_bnodes k a : older (window k) a -> forall i x, i < 256 -> x < 65536 ->
  (forall q, In q a -> ~ In (fresh k i x) (triple_terms (fst q)))
  /\ forall i' x', i' < 256 -> x' < 65536 -> fresh k i x = fresh k i' x' -> i = i' /\ x = x'.
Proof.
  intros Ho i x Hi Hx. split.
  - intros q Hq Hin. apply (Ho q Hq) in Hin. destruct (fresh_window k i x Hi Hx) as [H1 _].
    apply (N.lt_irrefl (fresh k i x)). eapply N.lt_le_trans; eauto.
  - intros i' x' Hi' Hx' E. apply fresh_inj in E; auto. tauto.
Qed.

Lemma enum_from_bound {A} (l : list A) : forall n im, In im (enum_from n l) ->
  n <= fst im < n + N.of_nat (length l).
Proof.
  induction l as [|y r IH]; intros n im; simpl; [tauto|].
  intros [<-|H]; simpl; [lia|]. apply IH in H. lia.
Qed.

Lemma lookup_In v mu t : lookup v mu = Some t -> exists p, In p mu /\ snd p = t.
Proof.
  unfold lookup. destruct (find _ mu) eqn:E; [|discriminate]. intros [= <-].
  apply find_some in E. exists p. tauto.
Qed.

Lemma window_mono k : window k <= window (k + 1).
Proof. unfold window. lia. Qed.

Lemma inst_pos_bound k i mu p t :
  pos_bounded (window k) p -> (forall q, In q mu -> snd q < window k) -> i < 256 ->
  inst_pos (fresh k i) mu p = Some t -> t < window (k + 1).
Proof.
  intros Hp Hmu Hi. pose proof (window_mono k). destruct p as [c|v|x]; cbn [inst_pos pos_bounded] in *.
  - intros [= <-]. eapply N.lt_le_trans; eauto.
  - intros E. apply lookup_In in E. destruct E as [q [Hq <-]]. apply Hmu in Hq. eapply N.lt_le_trans; eauto.
  - intros [= <-]. destruct (fresh_window k i x Hi Hp) as [_ H2]. exact H2.
Qed.

Lemma fill_bound k i mu ts t :
  (forall tp, In tp ts -> let '(x, y, z) := tp in
     pos_bounded (window k) x /\ pos_bounded (window k) y /\ pos_bounded (window k) z) ->
  (forall q, In q mu -> snd q < window k) -> i < 256 ->
  In t (fill (fresh k i) mu ts) -> forall x, In x (triple_terms t) -> x < window (k + 1).
Proof.
  intros Hts Hmu Hi Ht x Hx. unfold fill in Ht. apply in_flat_map in Ht.
  destruct Ht as [[[pa pb] pc] [Htp Ht]]. specialize (Hts _ Htp). simpl in Hts.
  destruct Hts as [Ha [Hb Hc]]. unfold inst_tpat in Ht.
  destruct (inst_pos (fresh k i) mu pa) eqn:Ea; [|destruct Ht].
  destruct (inst_pos (fresh k i) mu pb) eqn:Eb; [|destruct Ht].
  destruct (inst_pos (fresh k i) mu pc) eqn:Ec; [|destruct Ht].
  destruct Ht as [<-|[]]. simpl in Hx.
  destruct Hx as [<-|[<-|[<-|[]]]];
    [eapply (inst_pos_bound k i mu pa)|eapply (inst_pos_bound k i mu pb)|eapply (inst_pos_bound k i mu pc)]; eauto.
Qed.

Lemma older_mono n m a : n <= m -> older n a -> older m a.
Proof. intros H Ho q Hq t Ht. specialize (Ho q Hq t Ht). eapply N.lt_le_trans; eauto. Qed.

(* the supply hypothesis is kept by every operation: after the k-th operation
   every term of the store is below the window of operation k+1 *)
Theorem older_step e k o a : op_bounded (window k) o -> older (window k) a ->
  older (window (k + 1)) (spec_op e k o a).
Proof.
  intros Hb Ho. pose proof (window_mono k) as Hm.
  assert (Ho' : older (window (k + 1)) a) by (eapply older_mono; eauto).
  destruct o as [ts qs|ts qs|tm om|w ud un d i om|tm|w ud un d i p|sl g|sl g|sl x y|sl x y|sl x y|sl c0]; simpl;
    intros q Hq t Ht; try (destruct Hb; fail).
  - apply in_app_iff in Hq. destruct Hq as [Hq|Hq]; [eapply Ho'; eauto|].
    destruct Hb as [B1 B2]. apply data_quads_In' in Hq.
    destruct Hq as [[_ Hq]|[b [Hb' [_ Hq]]]].
    + eapply N.lt_le_trans; [apply (B1 _ Hq _ Ht)|exact Hm].
    + eapply N.lt_le_trans; [apply (B2 _ Hb' _ Hq _ Ht)|exact Hm].
  - apply qdiff_In in Hq. eapply Ho'; [apply Hq|eauto].
  - apply qdiff_In in Hq. eapply Ho'; [apply Hq|eauto].
  - apply in_app_iff in Hq. destruct Hq as [Hq|Hq]; [apply qdiff_In in Hq; eapply Ho'; [apply Hq|eauto]|].
    destruct i as [tm|]; [|destruct Hq]. destruct Hb as [Bt [Bl Bo]].
    simpl in Hq. apply in_flat_map in Hq. destruct Hq as [im [Him Hq]].
    unfold s_quads in Hq. apply in_flat_map in Hq. destruct Hq as [b [Hb' Hq]].
    destruct (s_target _ _ _); [|destruct Hq]. apply to_graph_In in Hq. destruct Hq as [Hq _].
    apply filter_In in Hq. destruct Hq as [Hq _].
    apply enum_from_bound in Him as Hi. assert (Hmu : In (snd im) om) by (eapply enum_from_snd; eauto).
    eapply (fill_bound k (fst im) (snd im) (snd b)); eauto; [intros tp Htp; apply (Bt b Hb' tp Htp)|lia].
  - apply qdiff_In in Hq. eapply Ho'; [apply Hq|eauto].
  - apply spec_clear_In in Hq. eapply Ho'; [apply Hq|eauto].
  - apply spec_clear_In in Hq. eapply Ho'; [apply Hq|eauto].
  - destruct (N.eqb _ _); [eapply Ho'; eauto|]. apply in_app_iff in Hq. destruct Hq as [Hq|Hq]; [eapply Ho'; eauto|].
    apply to_graph_In in Hq. destruct Hq as [Hq _]. apply graph_of_In in Hq. eapply (Ho' _ Hq). exact Ht.
  - destruct (N.eqb _ _); [eapply Ho'; eauto|]. apply drop_graph_In in Hq. destruct Hq as [Hq _].
    apply in_app_iff in Hq. destruct Hq as [Hq|Hq]; [apply drop_graph_In in Hq; eapply Ho'; [apply Hq|eauto]|].
    apply to_graph_In in Hq. destruct Hq as [Hq _]. apply graph_of_In in Hq. eapply (Ho' _ Hq). exact Ht.
  - destruct (N.eqb _ _); [eapply Ho'; eauto|].
    apply in_app_iff in Hq. destruct Hq as [Hq|Hq]; [apply drop_graph_In in Hq; eapply Ho'; [apply Hq|eauto]|].
    apply to_graph_In in Hq. destruct Hq as [Hq _]. apply graph_of_In in Hq. eapply (Ho' _ Hq). exact Ht.
  - eapply Ho'; eauto.
Qed.

(* ------------------------------------------------------------------ *)
(* the historical definitions are refuted                               *)

Definition swap_del : tmpl := {| t_triples := [(PVar 1, PVar 2, PVar 3)]; t_quads := [] |}.
Definition swap_ins : tmpl := {| t_triples := [(PVar 3, PVar 2, PVar 1)]; t_quads := [] |}.
Definition swap_omega : list sol := [[(1, 1); (2, 3); (3, 2)]; [(1, 2); (2, 3); (3, 1)]].
Definition swap_env : env := {| e_fe := FDS; e_union := false; e_lits := []; e_bnodes := [] |}.
Definition swap_init : dstate := {| quads := [((1, 3, 2), 0); ((2, 3, 1), 0)]; known := [0] |}.

(* before the fix of F5: per solution delete-then-insert *)
Lemma modify_prefix_refuted :
  qseteqb (quads (evalModify_prefix swap_env 0 0 (Some swap_del) (Some swap_ins) swap_omega swap_init))
          (spec_op swap_env 0 (Modify None false false (Some swap_del) (Some swap_ins) swap_omega)
                   (quads swap_init)) = false
  /\ qseteqb (spec_op swap_env 0 (Modify None false false (Some swap_del) (Some swap_ins) swap_omega)
                      (quads swap_init)) (quads swap_init) = true.
Proof. split; vm_compute; reflexivity. Qed.

(* before the fix of F10a, switch on: DELETE DATA { 1 3 2 } also hit graph 1 *)
Lemma deldata_prefix_union_refuted :
  let s := {| quads := [((1, 3, 2), 0); ((1, 3, 2), 1)]; known := [0; 1] |} in
  qseteqb (quads (deldata_prefix_union [(1, 3, 2)] s))
          (spec_op swap_env 0 (DeleteData [(1, 3, 2)] []) (quads s)) = false.
Proof. vm_compute; reflexivity. Qed.

(* ------------------------------------------------------------------ *)
(* Prop-level readings, one per operation                               *)

Lemma data_quads_In d ts qs q :
  In q (data_quads d ts qs) <->
  (snd q = d /\ In (fst q) ts) \/ exists b, In b qs /\ snd q = fst b /\ In (fst q) (snd b).
Proof.
  unfold data_quads. rewrite in_app_iff, to_graph_In, in_flat_map. split.
  - intros [[H1 H2]|[b [Hb H]]]; [left; auto|right]. apply to_graph_In in H. exists b. tauto.
  - intros [[H1 H2]|[b [Hb [H1 H2]]]]; [left; auto|right]. exists b. split; auto. apply to_graph_In. auto.
Qed.

Section Readings.
  Variables (e : env) (k : N) (s : dstate) (a : qset).
  Hypothesis Hk : kinv s.
  Hypothesis Ha : qseteq (quads s) a.

  Lemma insert_data_reading ts qs : scope e (InsertData ts qs) -> op_kf e k (InsertData ts qs) = 0 ->
    exists s', eval_op e k (InsertData ts qs) s = Ok s' /\ kinv s' /\
      forall q, In q (quads s') <-> In q a \/ In q (data_quads (dflt e) ts qs).
  Proof.
    intros Hs Hf. destruct (step_correct2 e k _ s a Hs eq_refl Hf Hk Ha) as [s' [E [Q I]]].
    exists s'. split; [|split]; auto. intros q. rewrite (Q q). simpl. apply in_app_iff.
  Qed.

  Lemma delete_data_reading ts qs : scope e (DeleteData ts qs) -> op_kf e k (DeleteData ts qs) = 0 ->
    exists s', eval_op e k (DeleteData ts qs) s = Ok s' /\ kinv s' /\
      forall q, In q (quads s') <-> In q a /\ ~ In q (data_quads (dflt e) ts qs).
  Proof.
    intros Hs Hf. destruct (step_correct2 e k _ s a Hs eq_refl Hf Hk Ha) as [s' [E [Q I]]].
    exists s'. split; [|split]; auto. intros q. rewrite (Q q). simpl. apply qdiff_In.
  Qed.

  Lemma delete_where_reading tm om : scope e (DeleteWhere tm om) -> op_kf e k (DeleteWhere tm om) = 0 ->
    exists s', eval_op e k (DeleteWhere tm om) s = Ok s' /\ kinv s' /\
      forall q, In q (quads s') <-> In q a /\ ~ In q (s_all e false k (dflt e) (Some tm) om).
  Proof.
    intros Hs Hf. destruct (step_correct2 e k _ s a Hs eq_refl Hf Hk Ha) as [s' [E [Q I]]].
    exists s'. split; [|split]; auto. intros q. rewrite (Q q). simpl. apply qdiff_In.
  Qed.

  (* D' = (D \ U_mu del(mu)) U U_mu ins(mu), every deletion before any insertion *)
  Lemma modify_reading w ud un d i om :
    scope e (Modify w ud un d i om) -> op_kf e k (Modify w ud un d i om) = 0 ->
    let dg := match w with Some c => c | None => dflt e end in
    exists s', eval_op e k (Modify w ud un d i om) s = Ok s' /\ kinv s' /\
      forall q, In q (quads s') <->
        (In q a /\ ~ In q (s_all e false k dg d om)) \/ In q (s_all e true k dg i om).
  Proof.
    intros Hs Hf dg. destruct (step_correct2 e k _ s a Hs eq_refl Hf Hk Ha) as [s' [E [Q I]]].
    exists s'. split; [|split]; auto. intros q. rewrite (Q q). simpl. fold dg.
    rewrite in_app_iff, qdiff_In. tauto.
  Qed.

  Lemma clear_reading sl g : scope e (Clear sl g) -> op_kf e k (Clear sl g) = 0 ->
    exists s', eval_op e k (Clear sl g) s = Ok s' /\ kinv s' /\
      forall q, In q (quads s') <->
        In q a /\ ~ match g with
                    | GDefault => snd q = dflt e
                    | GNamed => snd q <> dflt e
                    | GAll => True
                    | GIri c => snd q = c
                    end.
  Proof.
    intros Hs Hf. destruct (step_correct2 e k _ s a Hs eq_refl Hf Hk Ha) as [s' [E [Q I]]].
    exists s'. split; [|split]; auto. intros q. rewrite (Q q). simpl. apply spec_clear_In.
  Qed.

  Lemma drop_reading sl g : scope e (Drop sl g) -> op_kf e k (Drop sl g) = 0 ->
    exists s', eval_op e k (Drop sl g) s = Ok s' /\ kinv s' /\
      forall q, In q (quads s') <->
        In q a /\ ~ match g with
                    | GDefault => snd q = dflt e
                    | GNamed => snd q <> dflt e
                    | GAll => True
                    | GIri c => snd q = c
                    end.
  Proof.
    intros Hs Hf. destruct (step_correct2 e k _ s a Hs eq_refl Hf Hk Ha) as [s' [E [Q I]]].
    exists s'. split; [|split]; auto. intros q. rewrite (Q q). simpl. apply spec_clear_In.
  Qed.

  Lemma add_reading sl x y : scope e (Add sl x y) -> op_kf e k (Add sl x y) = 0 ->
    exists s', eval_op e k (Add sl x y) s = Ok s' /\ kinv s' /\
      forall q, In q (quads s') <->
        In q a \/ (gd_cid e x <> gd_cid e y /\ snd q = gd_cid e y /\ In (fst q, gd_cid e x) a).
  Proof.
    intros Hs Hf. destruct (step_correct2 e k _ s a Hs eq_refl Hf Hk Ha) as [s' [E [Q I]]].
    exists s'. split; [|split]; auto. intros q. rewrite (Q q). simpl.
    destruct (N.eqb_spec (gd_cid e x) (gd_cid e y)); [tauto|].
    rewrite in_app_iff, to_graph_In, graph_of_In. tauto.
  Qed.

  Lemma copy_reading sl x y : scope e (Copy sl x y) -> op_kf e k (Copy sl x y) = 0 ->
    exists s', eval_op e k (Copy sl x y) s = Ok s' /\ kinv s' /\
      forall q, In q (quads s') <->
        if N.eqb (gd_cid e x) (gd_cid e y) then In q a
        else (In q a /\ snd q <> gd_cid e y) \/ (snd q = gd_cid e y /\ In (fst q, gd_cid e x) a).
  Proof.
    intros Hs Hf. destruct (step_correct2 e k _ s a Hs eq_refl Hf Hk Ha) as [s' [E [Q I]]].
    exists s'. split; [|split]; auto. intros q. rewrite (Q q). simpl.
    destruct (N.eqb (gd_cid e x) (gd_cid e y)); [tauto|].
    rewrite in_app_iff, drop_graph_In, to_graph_In, graph_of_In. tauto.
  Qed.

  Lemma move_reading sl x y : scope e (Move sl x y) -> op_kf e k (Move sl x y) = 0 ->
    exists s', eval_op e k (Move sl x y) s = Ok s' /\ kinv s' /\
      forall q, In q (quads s') <->
        if N.eqb (gd_cid e x) (gd_cid e y) then In q a
        else snd q <> gd_cid e x /\
             ((In q a /\ snd q <> gd_cid e y) \/ (snd q = gd_cid e y /\ In (fst q, gd_cid e x) a)).
  Proof.
    intros Hs Hf. destruct (step_correct2 e k _ s a Hs eq_refl Hf Hk Ha) as [s' [E [Q I]]].
    exists s'. split; [|split]; auto. intros q. rewrite (Q q). simpl.
    destruct (N.eqb (gd_cid e x) (gd_cid e y)); [tauto|].
    rewrite drop_graph_In, in_app_iff, drop_graph_In, to_graph_In, graph_of_In. tauto.
  Qed.
End Readings.

(* what the checker means *)
Lemma spec_ok_reading c q kn raised :
  in_scope (c_env c) (c_ops c) = true -> spec_ok c (q, kn, raised) = true ->
  raised = false
  /\ (forall x, In x q -> snd x = 0 \/ In (snd x) kn)
  /\ exists m, qseteq (ren_quads m q) (spec_from (c_env c) 0 (c_ops c) (c_quads c)).
Proof.
  unfold spec_ok. intros -> H. destruct raised; [discriminate|].
  destruct (forallb (fun x : triple * N => (snd x =? 0) || memb N.eqb (snd x) kn) q) eqn:F; [|discriminate].
  split; auto. split.
  - intros x Hx. rewrite forallb_forall in F. apply F in Hx. apply orb_true_iff in Hx.
    destruct Hx as [Hx|Hx]; [left; apply N.eqb_eq; auto|right; apply (memb_In N.eqb N.eqb_spec); auto].
  - apply iso_eqb_sound. exact H.
Qed.


Lemma no_trigger e k o : op_kf e k o = 0.
Proof. reflexivity. Qed.

Lemma kf_from_zero e ops : forall n, kf_from e n ops = 0.
Proof. induction ops as [|o r IH]; intros n; simpl; auto. Qed.

(* requests all of whose solution lists are given: only well-formedness is assumed *)
Theorem spec_ok_model_given c : wf c -> forallb no_where (c_ops c) = true -> spec_ok c (model_obs c) = true.
Proof.
  intros W N. apply spec_ok_model; auto; [|apply kf_from_zero].
  unfold in_model_where. destruct (c_ops c) as [|o r]; auto.
  simpl in N. apply andb_true_iff in N. destruct N as [N1 N2].
  split; [|split; [intros H; congruence|exact N2]].
  destruct o as [| | | | | | | | | | |[|] ?]; try exact I; discriminate.
Qed.
