(* Every evaluator of Update/Model.v against the section-3 transformer, and
   the sequencing of a request. *)
From Coq Require Import Arith.
From RV Require Import Update.Model Update.Proofs.
Local Open Scope N_scope.

(* ------------------------------------------------------------------ *)
(* generic list facts                                                   *)

Lemma fold_left_ext' {A B} (f g : A -> B -> A) l : (forall a b, In b l -> f a b = g a b) ->
  forall s, fold_left f l s = fold_left g l s.
Proof.
  induction l as [|x r IH]; intros H s; simpl; auto.
  rewrite H by (left; auto). apply IH. intros a b Hb. apply H. right; auto.
Qed.

Lemma flat_map_ext' {A B} (f g : A -> list B) l : (forall a, In a l -> f a = g a) ->
  flat_map f l = flat_map g l.
Proof.
  induction l as [|x r IH]; intros H; simpl; auto.
  rewrite H by (left; auto). f_equal. apply IH. intros a Ha. apply H. right; auto.
Qed.

Lemma flat_map_enum {A B} (f : N * A -> list B) (g : A -> list B) l : forall n,
  (forall jb, In jb (enum_from n l) -> f jb = g (snd jb)) ->
  flat_map f (enum_from n l) = flat_map g l.
Proof.
  induction l as [|x r IH]; intros n H; simpl; auto.
  rewrite (H (n, x)) by (left; auto). simpl. f_equal. apply IH. intros jb Hjb. apply H. right; auto.
Qed.

Lemma enum_from_map {A B} (f : A -> B) l : forall n,
  enum_from n (map f l) = map (fun p => (fst p, f (snd p))) (enum_from n l).
Proof. induction l as [|x r IH]; intros n; simpl; auto. f_equal. apply IH. Qed.

Lemma enum_from_snd {A} (l : list A) : forall n jb, In jb (enum_from n l) -> In (snd jb) l.
Proof.
  induction l as [|x r IH]; intros n jb; simpl; [tauto|].
  intros [<-|H]; [left; auto|right; eapply IH; eauto].
Qed.

Lemma filter_all {A} (f : A -> bool) l : (forall x, In x l -> f x = true) -> filter f l = l.
Proof.
  induction l as [|x r IH]; intros H; simpl; auto.
  rewrite H by (left; auto). f_equal. apply IH. intros y Hy. apply H. right; auto.
Qed.

Lemma is_nil_true {A} (l : list A) : is_nil l = true -> l = [].
Proof. destruct l; simpl; congruence. Qed.

(* ------------------------------------------------------------------ *)
(* templates: the model's instantiation is the specification's          *)

Lemma m_target_eq dg mu g : m_target dg mu g = s_target dg mu g.
Proof. reflexivity. Qed.

Lemma m_quads_eq e ins k i dg tm mu : m_quads e ins k i dg tm mu = s_quads e ins k i dg tm mu.
Proof.
  unfold m_quads, s_quads. apply flat_map_ext'. intros [g ts] _. simpl.
  rewrite m_target_eq. destruct (s_target dg mu g); auto. unfold to_graph, sfresh.
  destruct ins; simpl; [reflexivity|]. rewrite filter_all by (intros; reflexivity). reflexivity.
Qed.

Lemma m_all_eq e ins k dg tm om : m_all e ins k dg tm om = s_all e ins k dg tm om.
Proof.
  destruct tm as [t|]; simpl; auto. apply flat_map_ext'. intros im _. apply m_quads_eq.
Qed.

(* ------------------------------------------------------------------ *)
(* the evaluators                                                       *)

Lemma add_blocks_eq qs : forall s,
  add_blocks qs s = add_quads (flat_map (fun b => to_graph (fst b) (snd b)) qs) s.
Proof.
  unfold add_blocks. induction qs as [|b r IH]; intros s; simpl; auto.
  rewrite add_quads_app, <- add_triples_eq. apply IH.
Qed.

Lemma sub_blocks_eq qs : forall s,
  sub_blocks qs s = del_quads (flat_map (fun b => to_graph (fst b) (snd b)) qs) s.
Proof.
  unfold sub_blocks. induction qs as [|b r IH]; intros s; simpl; auto.
  rewrite del_quads_app, <- g_isub_eq. apply IH.
Qed.

(* the front end has named graphs, or the operation needs none *)
Definition scope (e : env) (o : uop) : Prop := has_dataset e = true \/ needs_dataset o = false.

Definition step_ok (e : env) (k : N) (o : uop) (s : dstate) (a : qset) : Prop :=
  exists s', eval_op e k o s = Ok s' /\ qseteq (quads s') (spec_op e k o a) /\ kinv s'.

Lemma insert_data_ok e k ts qs s a : scope e (InsertData ts qs) ->
  kinv s -> qseteq (quads s) a -> step_ok e k (InsertData ts qs) s a.
Proof.
  intros Hd Hk Ha. unfold step_ok. simpl. unfold evalInsertData.
  exists (add_blocks qs (add_triples (dflt e) ts s)). split; [|split].
  - destruct Hd as [Hd|Hd]; [rewrite Hd; destruct (is_nil qs) eqn:E; auto|].
    + apply is_nil_true in E. subst. reflexivity.
    + simpl in Hd. apply negb_false_iff in Hd. rewrite Hd. apply is_nil_true in Hd. subst. reflexivity.
  - intros q. rewrite add_blocks_eq, add_triples_eq, !add_quads_In, in_app_iff. unfold data_quads.
    rewrite in_app_iff, (Ha q). tauto.
  - rewrite add_blocks_eq, add_triples_eq. apply kinv_add_quads, kinv_add_quads. auto.
Qed.

Lemma delete_data_ok e k ts qs s a : scope e (DeleteData ts qs) ->
  kinv s -> qseteq (quads s) a -> step_ok e k (DeleteData ts qs) s a.
Proof.
  intros Hd Hk Ha. unfold step_ok. simpl. unfold evalDeleteData.
  exists (sub_blocks qs (g_isub (dflt e) ts s)). split; [|split].
  - destruct Hd as [Hd|Hd]; [rewrite Hd; destruct (is_nil qs) eqn:E; auto|].
    + apply is_nil_true in E. subst. reflexivity.
    + simpl in Hd. apply negb_false_iff in Hd. rewrite Hd. apply is_nil_true in Hd. subst. reflexivity.
  - intros q. rewrite sub_blocks_eq, g_isub_eq, !del_quads_In, qdiff_In. unfold data_quads.
    rewrite in_app_iff, (Ha q). tauto.
  - rewrite sub_blocks_eq, g_isub_eq. apply kinv_del_quads, kinv_del_quads. auto.
Qed.

Lemma g_isub_eq' c ts s : g_isub c ts s = del_quads (map (fun t => (t, c)) ts) s.
Proof. apply g_isub_eq. Qed.

(* DELETE WHERE: the loop is the deletion of the template's quads *)
Lemma dw_one_eq e k tm s im :
  dw_one e k tm s im = del_quads (m_quads e false k (fst im) (dflt e) tm (snd im)) s.
Proof.
  unfold dw_one, m_quads, blocks. simpl.
  rewrite del_quads_app, <- g_isub_eq'.
  generalize (g_isub (dflt e) (fill (fresh k (fst im)) (snd im) (t_triples tm)) s).
  induction (t_quads tm) as [|b r IH]; intros s0; simpl; auto.
  rewrite del_quads_app. rewrite <- IH. f_equal.
  destruct b as [[c|v] ts]; simpl.
  - rewrite g_isub_eq'. reflexivity.
  - destruct (lookup v (snd im)); [rewrite g_isub_eq'|]; reflexivity.
Qed.

Lemma dw_fold_eq e k tm : forall om n s,
  fold_left (dw_one e k tm) (enum_from n om) s =
  del_quads (flat_map (fun im => m_quads e false k (fst im) (dflt e) tm (snd im)) (enum_from n om)) s.
Proof.
  induction om as [|mu r IH]; intros n s; simpl; auto.
  rewrite del_quads_app. rewrite dw_one_eq. simpl. apply IH.
Qed.

Lemma delete_where_ok e k tm om s a : scope e (DeleteWhere tm om) ->
  kinv s -> qseteq (quads s) a -> step_ok e k (DeleteWhere tm om) s a.
Proof.
  intros Hd Hk Ha. unfold step_ok. simpl. unfold evalDeleteWhere.
  assert (E1 : negb (is_nil (t_quads tm)) && negb (has_dataset e) = false).
  { destruct Hd as [Hd|Hd]; [rewrite Hd; apply andb_false_r|]. simpl in Hd. rewrite Hd. reflexivity. }
  rewrite E1.
  exists (del_quads (m_all e false k (dflt e) (Some tm) om) s). split; [|split].
  - f_equal. simpl. apply dw_fold_eq.
  - intros q. rewrite del_quads_In, qdiff_In, (Ha q), m_all_eq. tauto.
  - apply kinv_del_quads. auto.
Qed.

(* evalModify with a given solution list *)
Lemma evalModify_ok e k w u d i om s a :
  (has_dataset e = true \/ (w = None /\ u = false /\ tm_has_quads d = false /\ tm_has_quads i = false)) ->
  kinv s -> qseteq (quads s) a ->
  let dg := match w with Some c => c | None => dflt e end in
  exists s', evalModify e k w u d i om s = Ok s'
    /\ qseteq (quads s') (qdiff a (s_all e false k dg d om) ++ s_all e true k dg i om) /\ kinv s'.
Proof.
  intros Hd Hk Ha dg.
  exists (add_quads (m_all e true k dg i om) (del_quads (m_all e false k dg d om) s)). split; [|split].
  - unfold evalModify. destruct (has_dataset e) eqn:Hds; simpl.
    + reflexivity.
    + destruct Hd as [Hd|[-> [-> [Hdq Hi]]]]; [discriminate|]. subst dg. rewrite Hdq, Hi. reflexivity.
  - intros q. rewrite add_quads_In, del_quads_In, in_app_iff, qdiff_In, (Ha q), !m_all_eq. tauto.
  - apply kinv_add_quads, kinv_del_quads. auto.
Qed.

Lemma modify_ok e k w ud un d i om s a : scope e (Modify w ud un d i om) ->
  kinv s -> qseteq (quads s) a -> step_ok e k (Modify w ud un d i om) s a.
Proof.
  intros Hd Hk Ha. unfold scope in Hd. unfold step_ok. simpl.
  apply evalModify_ok; auto.
  destruct Hd as [Hd|Hd]; [left; auto|right]. simpl in Hd.
  apply orb_false_iff in Hd. destruct Hd as [Hd Hi]. apply orb_false_iff in Hd. destruct Hd as [Hd Hdq].
  apply orb_false_iff in Hd. destruct Hd as [Hd Hun]. apply orb_false_iff in Hd. destruct Hd as [Hw Hud].
  destruct w; [discriminate|]. rewrite Hud, Hun. auto.
Qed.

(* graph management *)
Lemma clear_list_In l : forall s q,
  In q (quads (fold_left (fun s c => g_clear c s) l s)) <-> In q (quads s) /\ ~ In (snd q) l.
Proof.
  induction l as [|c r IH]; intros s q; simpl; [tauto|].
  rewrite IH, g_clear_In. intuition.
Qed.

Lemma clear_list_known l : forall s, known (fold_left (fun s c => g_clear c s) l s) = known s.
Proof. induction l as [|c r IH]; intros s; simpl; auto. rewrite IH. reflexivity. Qed.

Lemma drop_list_In l : forall s q,
  In q (quads (fold_left (fun s c => remove_graph c s) l s)) <-> In q (quads s) /\ ~ In (snd q) l.
Proof.
  induction l as [|c r IH]; intros s q; simpl; [tauto|].
  rewrite IH. unfold remove_graph, forget; simpl. change (In q (quads (g_clear c s)) /\ ~ In (snd q) r <->
    In q (quads s) /\ ~ (c = snd q \/ In (snd q) r)). rewrite g_clear_In. intuition.
Qed.

Lemma drop_list_kinv l : forall s, kinv s -> kinv (fold_left (fun s c => remove_graph c s) l s).
Proof. induction l as [|c r IH]; intros s H; simpl; auto. apply IH. apply kinv_remove_graph. auto. Qed.

Lemma contexts_known e s c : In c (known s) -> In c (contexts e s).
Proof.
  unfold contexts. destruct (e_fe e); auto. destruct (memb N.eqb 0 (known s)); auto.
  intros H. apply in_or_app. auto.
Qed.

Lemma dflt_dataset e : has_dataset e = true -> dflt e = 0.
Proof. destruct e as [[k| |] u l b]; simpl; auto; discriminate. Qed.

(* the graphs a CLEAR/DROP addresses, as a list of graph ids L with:
   a quad survives iff its graph is not in L *)
Lemma graph_all_spec e g s : has_dataset e = true \/ g = GDefault -> kinv s ->
  exists l, graph_all e g s = Some l /\
    forall q, In q (quads s) -> (In (snd q) l <->
      match g with
      | GDefault => snd q = dflt e
      | GNamed => snd q <> dflt e
      | GAll => True
      | GIri c => snd q = c
      end).
Proof.
  intros Hd Hk. unfold graph_all.
  destruct g as [| | |c].
  - exists [dflt e]. split; auto. intros q _. simpl. intuition.
  - destruct Hd as [Hd|Hd]; [|discriminate]. rewrite Hd, (dflt_dataset e Hd).
    eexists. split; [reflexivity|]. intros q Hq. rewrite filter_In, negb_true_iff, N.eqb_neq.
    split; [tauto|]. intros H. split; auto. apply contexts_known. apply Hk. auto.
  - destruct Hd as [Hd|Hd]; [|discriminate]. rewrite Hd.
    eexists. split; [reflexivity|]. intros q Hq. split; auto. intros _. apply contexts_known. apply Hk. auto.
  - destruct Hd as [Hd|Hd]; [|discriminate]. rewrite Hd. exists [c]. split; auto.
    intros q _. simpl. intuition.
Qed.

Lemma spec_clear_In e g a q :
  In q (spec_clear e g a) <->
  In q a /\ ~ match g with
            | GDefault => snd q = dflt e
            | GNamed => snd q <> dflt e
            | GAll => True
            | GIri c => snd q = c
            end.
Proof.
  destruct g as [| | |c]; simpl.
  - apply drop_graph_In.
  - unfold in_graph. rewrite filter_In, N.eqb_eq. split; intros [H1 H2]; split; auto.
    destruct (N.eq_dec (snd q) (dflt e)); tauto.
  - tauto.
  - apply drop_graph_In.
Qed.

Lemma clear_scope e sl g : scope e (Clear sl g) -> has_dataset e = true \/ g = GDefault.
Proof. intros [H|H]; auto. right. destruct g; simpl in *; auto; discriminate. Qed.

Lemma evalClear_ok e g s a : has_dataset e = true \/ g = GDefault ->
  kinv s -> qseteq (quads s) a ->
  exists s', evalClear e g s = Ok s' /\ qseteq (quads s') (spec_clear e g a) /\ kinv s'.
Proof.
  intros Hd Hk Ha. unfold evalClear.
  destruct (graph_all_spec e g s Hd Hk) as [l [El Hl]].
  rewrite El. eexists. split; [reflexivity|split].
  - intros q. rewrite clear_list_In, spec_clear_In, <- (Ha q). split; intros [H1 H2]; split; auto.
    + rewrite <- (Hl q H1). auto.
    + rewrite (Hl q H1). auto.
  - intros q Hq. rewrite clear_list_known. apply clear_list_In in Hq. apply Hk. tauto.
Qed.

Lemma clear_ok e k sl g s a : scope e (Clear sl g) ->
  kinv s -> qseteq (quads s) a -> step_ok e k (Clear sl g) s a.
Proof.
  intros Hd Hk Ha. unfold step_ok. simpl.
  destruct (evalClear_ok e g s a (clear_scope e sl g Hd) Hk Ha) as [s' [E H]].
  exists s'. rewrite E. simpl. auto.
Qed.

Lemma drop_ok e k sl g s a : scope e (Drop sl g) ->
  kinv s -> qseteq (quads s) a -> step_ok e k (Drop sl g) s a.
Proof.
  intros Hd Hk Ha. unfold step_ok. simpl. unfold evalDrop.
  assert (Hd' : has_dataset e = true \/ g = GDefault) by (apply (clear_scope e sl); exact Hd).
  destruct (has_dataset e) eqn:Hds.
  - assert (Hx : has_dataset e = true \/ g = GDefault) by (left; exact Hds).
    destruct (graph_all_spec e g s Hx Hk) as [l [El Hl]].
    rewrite El. simpl. eexists. split; [reflexivity|split].
    + intros q. rewrite drop_list_In, spec_clear_In, <- (Ha q). split; intros [H1 H2]; split; auto.
      * rewrite <- (Hl q H1). auto.
      * rewrite (Hl q H1). auto.
    + apply drop_list_kinv. auto.
  - (* a plain Graph: DROP is CLEAR *)
    assert (Hx : has_dataset e = true \/ g = GDefault) by (destruct Hd' as [H|H]; [discriminate|right; exact H]).
    destruct (evalClear_ok e g s a Hx Hk Ha) as [s' [E H]].
    exists s'. rewrite E. simpl. auto.
Qed.

Lemma god_spec e g : has_dataset e = true \/ g = DDefault ->
  graph_or_default e g = Some (gd_cid e g).
Proof.
  intros Hd. destruct g as [|c]; simpl; auto.
  destruct Hd as [Hd|Hd]; [rewrite Hd; auto|discriminate].
Qed.

Lemma iadd_from_In y x s q :
  In q (quads (g_iadd_from y x s)) <-> (snd q = y /\ In (fst q, x) (quads s)) \/ In q (quads s).
Proof.
  unfold g_iadd_from. rewrite add_triples_eq, add_quads_In, to_graph_In, q_triples_all_In. tauto.
Qed.

Lemma kinv_iadd_from y x s : kinv s -> kinv (g_iadd_from y x s).
Proof. intros H. unfold g_iadd_from. rewrite add_triples_eq. apply kinv_add_quads. auto. Qed.

Lemma gd_scope e sl a b : scope e (Add sl a b) ->
  (has_dataset e = true \/ a = DDefault) /\ (has_dataset e = true \/ b = DDefault).
Proof.
  intros [H|H]; auto. destruct a, b; simpl in H; try discriminate. auto.
Qed.

Lemma add_ok e k sl x y s a : scope e (Add sl x y) ->
  kinv s -> qseteq (quads s) a -> step_ok e k (Add sl x y) s a.
Proof.
  intros Hd Hk Ha. destruct (gd_scope e sl x y Hd) as [Hx Hy].
  unfold step_ok. simpl. unfold evalAdd. rewrite !god_spec by auto.
  destruct (N.eqb (gd_cid e x) (gd_cid e y)) eqn:E.
  - exists s. simpl. auto.
  - simpl. eexists. split; [reflexivity|split].
    + intros q. rewrite iadd_from_In, in_app_iff, to_graph_In, graph_of_In, (Ha q).
      rewrite <- (Ha (fst q, gd_cid e x)). tauto.
    + apply kinv_iadd_from. auto.
Qed.

Lemma copy_ok e k sl x y s a : scope e (Copy sl x y) ->
  kinv s -> qseteq (quads s) a -> step_ok e k (Copy sl x y) s a.
Proof.
  intros Hd Hk Ha. destruct (gd_scope e sl x y Hd) as [Hx Hy].
  unfold step_ok. simpl. unfold evalCopy. rewrite !god_spec by auto.
  destruct (N.eqb_spec (gd_cid e x) (gd_cid e y)) as [E|E].
  - exists s. simpl. auto.
  - simpl. eexists. split; [reflexivity|split].
    + intros q. rewrite iadd_from_In, in_app_iff, to_graph_In, graph_of_In.
      rewrite !g_clear_In, drop_graph_In, (Ha q). simpl. rewrite <- (Ha (fst q, gd_cid e x)). tauto.
    + apply kinv_iadd_from, kinv_clear. auto.
Qed.

Lemma move_ok e k sl x y s a : scope e (Move sl x y) ->
  kinv s -> qseteq (quads s) a -> step_ok e k (Move sl x y) s a.
Proof.
  intros Hd Hk Ha. destruct (gd_scope e sl x y Hd) as [Hx Hy].
  unfold step_ok. simpl. unfold evalMove. rewrite !god_spec by auto.
  destruct (N.eqb_spec (gd_cid e x) (gd_cid e y)) as [E|E].
  - exists s. simpl. auto.
  - simpl. eexists. split; [reflexivity|split].
    + intros q. unfold remove_graph.
      match goal with |- In q (quads (forget ?c ?s0)) <-> _ => change (quads (forget c s0)) with (quads s0) end.
      rewrite g_clear_In, drop_graph_In, iadd_from_In, in_app_iff, to_graph_In, graph_of_In.
      rewrite !g_clear_In, drop_graph_In, (Ha q). simpl. rewrite <- (Ha (fst q, gd_cid e x)). tauto.
    + apply kinv_remove_graph, kinv_iadd_from, kinv_clear. auto.
Qed.
