(* Every evaluator of Update/Model.v against the section-3 transformer, and
   the sequencing of a request. *)
From Coq Require Import Arith.
From RV Require Import Update.Model Update.Proofs.
Local Open Scope N_scope.

(* ------------------------------------------------------------------ *)
(* well-formed cases: what the grammar and the store guarantee          *)

(* DELETE templates and DELETE WHERE contain no blank nodes (grammar) *)
Definition no_bnode (tm : tmpl) : bool :=
  forallb (fun b => is_nil (labels_of (snd b))) (blocks tm).
Definition op_wf (o : uop) : bool :=
  match o with
  | DeleteWhere tm _ => no_bnode tm
  | Modify _ _ _ (Some d) _ _ => no_bnode d
  | _ => true
  end.
(* every graph that holds a quad is known to the store (Memory.add) *)
Definition wf (c : case) : Prop :=
  (forall q, In q (c_quads c) -> In (snd q) (c_known c)) /\ forallb op_wf (c_ops c) = true.

(* ------------------------------------------------------------------ *)
(* generic list facts                                                   *)

Lemma fold_left_ext' {A B} (f g : A -> B -> A) l : (forall a b, In b l -> f a b = g a b) ->
  forall s, fold_left f l s = fold_left g l s.
Proof.
  induction l as [|x r IH]; intros H s; simpl; auto.
  rewrite H by (left; auto). apply IH. intros a b Hb. apply H. right; auto.
Qed.

Lemma flat_map_ext' {A B} (f g : A -> list B) l : (forall a, In a l -> f a = g a) ->
  flat_map f l = flat_map g l.
Proof.
  induction l as [|x r IH]; intros H; simpl; auto.
  rewrite H by (left; auto). f_equal. apply IH. intros a Ha. apply H. right; auto.
Qed.

Lemma flat_map_enum {A B} (f : N * A -> list B) (g : A -> list B) l : forall n,
  (forall jb, In jb (enum_from n l) -> f jb = g (snd jb)) ->
  flat_map f (enum_from n l) = flat_map g l.
Proof.
  induction l as [|x r IH]; intros n H; simpl; auto.
  rewrite (H (n, x)) by (left; auto). simpl. f_equal. apply IH. intros jb Hjb. apply H. right; auto.
Qed.

Lemma enum_from_map {A B} (f : A -> B) l : forall n,
  enum_from n (map f l) = map (fun p => (fst p, f (snd p))) (enum_from n l).
Proof. induction l as [|x r IH]; intros n; simpl; auto. f_equal. apply IH. Qed.

Lemma enum_from_snd {A} (l : list A) : forall n jb, In jb (enum_from n l) -> In (snd jb) l.
Proof.
  induction l as [|x r IH]; intros n jb; simpl; [tauto|].
  intros [<-|H]; [left; auto|right; eapply IH; eauto].
Qed.

Lemma filter_all {A} (f : A -> bool) l : (forall x, In x l -> f x = true) -> filter f l = l.
Proof.
  induction l as [|x r IH]; intros H; simpl; auto.
  rewrite H by (left; auto). f_equal. apply IH. intros y Hy. apply H. right; auto.
Qed.

Lemma is_nil_true {A} (l : list A) : is_nil l = true -> l = [].
Proof. destruct l; simpl; congruence. Qed.

(* ------------------------------------------------------------------ *)
(* templates: the model's instantiation is the specification's          *)

Lemma inst_pos_ext fr fr' mu p :
  (forall x, pos_label p x = true -> fr x = fr' x) -> inst_pos fr mu p = inst_pos fr' mu p.
Proof.
  destruct p as [t|v|x]; simpl; auto. intros H. rewrite (H x); auto. apply N.eqb_refl.
Qed.

Lemma fill_ext fr fr' mu ts :
  (forall x, In x (labels_of ts) -> fr x = fr' x) -> fill fr mu ts = fill fr' mu ts.
Proof.
  intros H. unfold fill. apply flat_map_ext'. intros [[a b] c] Htp.
  assert (E : inst_tpat fr mu (a, b, c) = inst_tpat fr' mu (a, b, c)).
  { unfold inst_tpat.
    assert (L : forall p, In p [a; b; c] -> inst_pos fr mu p = inst_pos fr' mu p).
    { intros p Hp. apply inst_pos_ext. intros x Hx. apply H. unfold labels_of. apply in_flat_map.
      exists (a, b, c). split; auto. apply in_flat_map. exists p. split; auto.
      destruct p as [t|v|y]; simpl in *; try discriminate. apply N.eqb_eq in Hx. left; auto. }
    rewrite (L a), (L b), (L c); simpl; auto. }
  rewrite E. reflexivity.
Qed.

Lemma labels_nil_fill fr fr' mu ts : labels_of ts = [] -> fill fr mu ts = fill fr' mu ts.
Proof. intros H. apply fill_ext. rewrite H. intros x []. Qed.

Lemma blocks_enum_In tm jb : In jb (enum_from 0 (blocks tm)) -> In (snd jb) (blocks tm).
Proof. apply enum_from_snd. Qed.

(* deletions: no labels, nothing skipped *)
Lemma m_quads_del e k i dg tm mu : no_bnode tm = true ->
  m_quads false k i dg tm mu = s_quads e false k i dg tm mu.
Proof.
  intros Hn. unfold m_quads, s_quads. apply flat_map_enum. intros [j [g ts]] Hjb. simpl.
  assert (Hl : labels_of ts = []).
  { apply is_nil_true. unfold no_bnode in Hn. rewrite forallb_forall in Hn.
    apply (Hn (g, ts)). apply (blocks_enum_In tm (j, (g, ts))). exact Hjb. }
  assert (Ht : m_target false dg mu g = s_target dg mu g).
  { destruct g as [[c|v]|]; simpl; auto; try (destruct (lookup v mu); auto). }
  rewrite Ht. destruct (s_target dg mu g); auto.
  rewrite filter_all by (intros; reflexivity). unfold to_graph.
  rewrite (labels_nil_fill (fresh k i j) (sfresh k i tm) mu ts Hl). reflexivity.
Qed.

Lemma m_all_del e k dg tm om : opt_tm (fun t => negb (no_bnode t)) tm = false ->
  m_all false k dg tm om = s_all e false k dg tm om.
Proof.
  destruct tm as [t|]; simpl; auto. intros H. apply negb_false_iff in H.
  apply flat_map_ext'. intros im _. apply m_quads_del. exact H.
Qed.

(* insertions, outside the regions of F10c, F10d, F10e *)
Lemma existsb_false {A} (f : A -> bool) l x : existsb f l = false -> In x l -> f x = false.
Proof.
  intros H Hx. destruct (f x) eqn:E; auto. assert (existsb f l = true); [|congruence].
  apply existsb_exists. exists x. auto.
Qed.

Lemma m_quads_ins e k i dg tm mu :
  forallb (fun q => legal e (fst q)) (m_quads true k i 0 tm mu) = true ->
  shared_label tm = false ->
  existsb (fun jb => match fst (snd jb) with
                     | Some (TGVar v) =>
                         match lookup v mu with
                         | None => negb (is_nil (fill (fresh k i (fst jb)) mu (snd (snd jb))))
                         | Some _ => false
                         end
                     | _ => false
                     end) (enum_from 0 (blocks tm)) = false ->
  m_quads true k i dg tm mu = s_quads e true k i dg tm mu.
Proof.
  intros Hleg Hsh Hub. unfold m_quads, s_quads. apply flat_map_enum. intros [j [g ts]] Hjb. simpl.
  assert (Hf : fill (fresh k i j) mu ts = fill (sfresh k i tm) mu ts).
  { apply fill_ext. intros x Hx. unfold sfresh. f_equal.
    unfold shared_label in Hsh. apply (existsb_false _ _ _ Hsh) in Hjb. simpl in Hjb.
    apply (existsb_false _ _ _ Hjb) in Hx. apply negb_false_iff, N.eqb_eq in Hx. auto. }
  assert (Hl : forall t, In t (fill (fresh k i j) mu ts) -> legal e t = true).
  { intros t Ht. rewrite forallb_forall in Hleg.
    destruct (m_target true 0 mu g) as [c|] eqn:Et.
    - apply (Hleg (t, c)). unfold m_quads. apply in_flat_map. exists (j, (g, ts)). split; auto.
      simpl. rewrite Et. apply in_map_iff. exists t. auto.
    - destruct g as [[c|v]|]; simpl in Et; try discriminate. destruct (lookup v mu); discriminate. }
  destruct g as [[c|v]|]; simpl.
  - rewrite <- Hf. rewrite filter_all; auto.
  - destruct (lookup v mu) eqn:El.
    + rewrite <- Hf. rewrite filter_all; auto.
    + apply (existsb_false _ _ _ Hub) in Hjb. simpl in Hjb. rewrite El in Hjb.
      apply negb_false_iff, is_nil_true in Hjb. rewrite Hjb. reflexivity.
  - rewrite <- Hf. rewrite filter_all; auto.
Qed.

Lemma m_all_ins e k dg tm om :
  opt_tm (fun t => illegal_insert e k t om) tm = false ->
  opt_tm (fun t => shared_label t && negb (is_nil om)) tm = false ->
  opt_tm (fun t => unbound_graph k t om) tm = false ->
  m_all true k dg tm om = s_all e true k dg tm om.
Proof.
  destruct tm as [t|]; simpl; auto. intros H1 H2 H3.
  destruct om as [|mu0 om']; [reflexivity|].
  rewrite andb_true_r in H2.
  apply flat_map_ext'. intros im Him. apply m_quads_ins; auto.
  - apply (existsb_false _ _ _ H1) in Him. apply negb_false_iff in Him. exact Him.
  - apply (existsb_false _ _ _ H3) in Him. exact Him.
Qed.

(* ------------------------------------------------------------------ *)
(* the evaluators in the mode where ctx.graph is the default graph      *)

Definition plain (e : env) : Prop := ctx_graph e = GCtx (dflt e).

Lemma add_blocks_eq qs : forall s,
  add_blocks qs s = add_quads (flat_map (fun b => to_graph (fst b) (snd b)) qs) s.
Proof.
  unfold add_blocks. induction qs as [|b r IH]; intros s; simpl; auto.
  rewrite add_quads_app, <- add_triples_eq. apply IH.
Qed.

Lemma sub_blocks_eq qs : forall s,
  sub_blocks qs s = del_quads (flat_map (fun b => to_graph (fst b) (snd b)) qs) s.
Proof.
  unfold sub_blocks. induction qs as [|b r IH]; intros s; simpl; auto.
  rewrite del_quads_app, <- g_isub_eq. apply IH.
Qed.

Definition step_ok (e : env) (k : N) (o : uop) (s : dstate) (a : qset) : Prop :=
  exists s', eval_op e k o s = Ok s' /\ qseteq (quads s') (spec_op e k o a) /\ kinv s'.

Lemma insert_data_ok e k ts qs s a : plain e ->
  has_dataset e = true \/ needs_dataset (InsertData ts qs) = false ->
  kinv s -> qseteq (quads s) a -> step_ok e k (InsertData ts qs) s a.
Proof.
  intros Hp Hd Hk Ha. unfold step_ok. simpl. unfold evalInsertData. rewrite Hp. simpl.
  exists (add_blocks qs (add_triples (dflt e) ts s)). split; [|split].
  - destruct Hd as [Hd|Hd]; [rewrite Hd; destruct (is_nil qs) eqn:E; auto|].
    + apply is_nil_true in E. subst. reflexivity.
    + simpl in Hd. apply negb_false_iff in Hd. rewrite Hd. apply is_nil_true in Hd. subst. reflexivity.
  - intros q. rewrite add_blocks_eq, add_triples_eq, !add_quads_In, in_app_iff. unfold data_quads.
    rewrite in_app_iff, (Ha q). tauto.
  - rewrite add_blocks_eq, add_triples_eq. apply kinv_add_quads, kinv_add_quads. auto.
Qed.

Lemma delete_data_ok e k ts qs s a : plain e ->
  has_dataset e = true \/ needs_dataset (DeleteData ts qs) = false ->
  kinv s -> qseteq (quads s) a -> step_ok e k (DeleteData ts qs) s a.
Proof.
  intros Hp Hd Hk Ha. unfold step_ok. simpl. unfold evalDeleteData. rewrite Hp.
  exists (sub_blocks qs (g_isub (GCtx (dflt e)) ts s)). split; [|split].
  - destruct Hd as [Hd|Hd]; [rewrite Hd; destruct (is_nil qs) eqn:E; auto|].
    + apply is_nil_true in E. subst. reflexivity.
    + simpl in Hd. apply negb_false_iff in Hd. rewrite Hd. apply is_nil_true in Hd. subst. reflexivity.
  - intros q. rewrite sub_blocks_eq, g_isub_eq, !del_quads_In, qdiff_In. unfold data_quads.
    rewrite in_app_iff, (Ha q). tauto.
  - rewrite sub_blocks_eq, g_isub_eq. apply kinv_del_quads, kinv_del_quads. auto.
Qed.

Lemma g_isub_eq' c ts s : g_isub (GCtx c) ts s = del_quads (map (fun t => (t, c)) ts) s.
Proof. apply g_isub_eq. Qed.

(* DELETE WHERE: the loop is the deletion of the template's quads *)
Lemma dw_one_eq e k tm s im : plain e -> has_gvar tm = false ->
  dw_one e k tm s im = del_quads (m_quads false k (fst im) (dflt e) tm (snd im)) s.
Proof.
  intros Hp Hg. unfold dw_one, m_quads, blocks. rewrite Hp. simpl.
  rewrite del_quads_app, <- g_isub_eq'.
  generalize (g_isub (GCtx (dflt e)) (fill (fresh k (fst im) 0) (snd im) (t_triples tm)) s).
  unfold has_gvar in Hg. revert Hg. change (N.succ 0) with 1. generalize 1.
  induction (t_quads tm) as [|b r IH]; intros n Hg s0; simpl; auto.
  simpl in Hg. apply orb_false_iff in Hg. destruct Hg as [Hb Hr].
  rewrite del_quads_app. rewrite <- IH by auto. f_equal.
  destruct b as [[c|v] ts]; simpl in *; [|discriminate].
  rewrite g_isub_eq'. reflexivity.
Qed.

Lemma dw_fold_eq e k tm : plain e -> has_gvar tm = false -> forall om n s,
  fold_left (dw_one e k tm) (enum_from n om) s =
  del_quads (flat_map (fun im => m_quads false k (fst im) (dflt e) tm (snd im)) (enum_from n om)) s.
Proof.
  intros Hp Hg. induction om as [|mu r IH]; intros n s; simpl; auto.
  rewrite del_quads_app. rewrite dw_one_eq by auto. simpl. apply IH.
Qed.

Lemma delete_where_ok e k tm om s a : plain e ->
  has_dataset e = true \/ needs_dataset (DeleteWhere tm om) = false ->
  op_kf e k (DeleteWhere tm om) = 0 -> no_bnode tm = true ->
  kinv s -> qseteq (quads s) a -> step_ok e k (DeleteWhere tm om) s a.
Proof.
  intros Hp Hd Hkf Hn Hk Ha. unfold step_ok. simpl. unfold evalDeleteWhere.
  assert (E1 : negb (is_nil (t_quads tm)) && negb (has_dataset e) = false).
  { destruct Hd as [Hd|Hd]; [rewrite Hd; apply andb_false_r|]. simpl in Hd. rewrite Hd. reflexivity. }
  rewrite E1. simpl in Hkf.
  destruct (has_gvar tm) eqn:Hg.
  - (* then omega is empty *)
    destruct om as [|mu om']; [|simpl in Hkf; discriminate].
    exists s. split; [reflexivity|split; auto].
    intros q. rewrite qdiff_In. simpl. rewrite (Ha q). tauto.
  - exists (del_quads (m_all false k (dflt e) (Some tm) om) s). split; [|split].
    + f_equal. simpl. apply dw_fold_eq; auto.
    + intros q. rewrite del_quads_In, qdiff_In, (Ha q).
      rewrite (m_all_del e) by (simpl; rewrite Hn; reflexivity). tauto.
    + apply kinv_del_quads. auto.
Qed.

Lemma modify_ok e k w ud un d i om s a : plain e ->
  has_dataset e = true \/ needs_dataset (Modify w ud un d i om) = false ->
  op_kf e k (Modify w ud un d i om) = 0 -> op_wf (Modify w ud un d i om) = true ->
  kinv s -> qseteq (quads s) a -> step_ok e k (Modify w ud un d i om) s a.
Proof.
  intros Hp Hd Hkf Hwf Hk Ha. unfold step_ok. simpl.
  set (dg := match w with Some c => c | None => dflt e end).
  exists (add_quads (m_all true k dg i om) (del_quads (m_all false k dg d om) s)). split; [|split].
  - unfold evalModify. rewrite Hp. destruct (has_dataset e) eqn:Hds; simpl.
    + reflexivity.
    + destruct Hd as [Hd|Hd]; [discriminate|]. simpl in Hd.
      apply orb_false_iff in Hd. destruct Hd as [Hd Hi]. apply orb_false_iff in Hd. destruct Hd as [Hd Hdq].
      apply orb_false_iff in Hd. destruct Hd as [Hd Hun]. apply orb_false_iff in Hd. destruct Hd as [Hw Hud].
      rewrite Hud. destruct w; [discriminate|]. subst dg.
      destruct om as [|mu om']; [destruct d, i; reflexivity|].
      rewrite Hdq, Hi. reflexivity.
  - simpl in Hkf.
    destruct (opt_tm (fun t => illegal_insert e k t om) i) eqn:K1; [discriminate|].
    destruct (opt_tm (fun t => shared_label t && negb (is_nil om)) i) eqn:K2; [discriminate|].
    destruct (opt_tm (fun t => unbound_graph k t om) i) eqn:K3; [discriminate|].
    intros q. rewrite add_quads_In, del_quads_In, in_app_iff, qdiff_In, (Ha q).
    rewrite (m_all_ins e) by auto.
    rewrite (m_all_del e); [tauto|]. destruct d; simpl in *; auto. rewrite Hwf. reflexivity.
  - apply kinv_add_quads, kinv_del_quads. auto.
Qed.

(* graph management *)
Lemma clear_list_In l : forall s q,
  In q (quads (fold_left (fun s g => g_clear g s) (map GCtx l) s)) <-> In q (quads s) /\ ~ In (snd q) l.
Proof.
  induction l as [|c r IH]; intros s q; simpl; [tauto|].
  rewrite IH, g_clear_In. intuition.
Qed.

Lemma clear_list_known l : forall s, known (fold_left (fun s g => g_clear g s) (map GCtx l) s) = known s.
Proof. induction l as [|c r IH]; intros s; simpl; auto. rewrite IH. reflexivity. Qed.

Lemma drop_list_In e l : forall s q,
  In q (quads (fold_left (fun s g => remove_graph e g s) (map GCtx l) s)) <-> In q (quads s) /\ ~ In (snd q) l.
Proof.
  induction l as [|c r IH]; intros s q; simpl; [tauto|].
  rewrite IH. unfold forget; simpl. change (In q (quads (g_clear (GCtx c) s)) /\ ~ In (snd q) r <->
    In q (quads s) /\ ~ (c = snd q \/ In (snd q) r)). rewrite g_clear_In. intuition.
Qed.

Lemma drop_list_kinv e l : forall s, kinv s -> kinv (fold_left (fun s g => remove_graph e g s) (map GCtx l) s).
Proof. induction l as [|c r IH]; intros s H; simpl; auto. apply IH. apply kinv_remove_graph. auto. Qed.

Lemma contexts_known e s c : In c (known s) -> In c (contexts e s).
Proof.
  unfold contexts. destruct (e_fe e); auto. destruct (memb N.eqb 0 (known s)); auto.
  intros H. apply in_or_app. auto.
Qed.

Lemma same_ident_ctx e x y : same_ident e (GCtx x) (GCtx y) = N.eqb x y.
Proof. reflexivity. Qed.

(* the graphs a CLEAR/DROP addresses, as a list of graph ids L with:
   a quad survives iff its graph is not in L *)
Lemma graph_all_plain e g s : plain e -> has_dataset e = true \/ g = GDefault -> kinv s ->
  exists l, graph_all e g s = Some (map GCtx l) /\
    forall q, In q (quads s) -> (In (snd q) l <->
      match g with
      | GDefault => snd q = dflt e
      | GNamed => snd q <> dflt e
      | GAll => True
      | GIri c => snd q = c
      end).
Proof.
  intros Hp Hd Hk. unfold graph_all. rewrite Hp.
  destruct g as [| | |c].
  - exists [dflt e]. split; auto. intros q _. simpl. intuition.
  - destruct Hd as [Hd|Hd]; [|discriminate]. rewrite Hd.
    eexists. split; [reflexivity|]. intros q Hq. rewrite filter_In, negb_true_iff, same_ident_ctx, N.eqb_neq.
    split; [tauto|]. intros H. split; auto. apply contexts_known. apply Hk. auto.
  - destruct Hd as [Hd|Hd]; [|discriminate]. rewrite Hd.
    eexists. split; [reflexivity|]. intros q Hq. split; auto. intros _. apply contexts_known. apply Hk. auto.
  - destruct Hd as [Hd|Hd]; [|discriminate]. rewrite Hd. exists [c]. split; auto.
    intros q _. simpl. intuition.
Qed.

Lemma spec_clear_In e g a q :
  In q (spec_clear e g a) <->
  In q a /\ ~ match g with
            | GDefault => snd q = dflt e
            | GNamed => snd q <> dflt e
            | GAll => True
            | GIri c => snd q = c
            end.
Proof.
  destruct g as [| | |c]; simpl.
  - apply drop_graph_In.
  - unfold in_graph. rewrite filter_In, N.eqb_eq. split; intros [H1 H2]; split; auto.
    destruct (N.eq_dec (snd q) (dflt e)); tauto.
  - tauto.
  - apply drop_graph_In.
Qed.

Lemma clear_ok e k sl g s a : plain e ->
  has_dataset e = true \/ needs_dataset (Clear sl g) = false ->
  kinv s -> qseteq (quads s) a -> step_ok e k (Clear sl g) s a.
Proof.
  intros Hp Hd Hk Ha. unfold step_ok. simpl. unfold evalClear.
  destruct (graph_all_plain e g s Hp) as [l [El Hl]]; auto.
  { destruct Hd; auto. right. destruct g; simpl in *; auto; discriminate. }
  rewrite El. simpl. eexists. split; [reflexivity|split].
  - intros q. rewrite clear_list_In, spec_clear_In, <- (Ha q). split; intros [H1 H2]; split; auto.
    + rewrite <- (Hl q H1). auto.
    + rewrite (Hl q H1). auto.
  - intros q Hq. rewrite clear_list_known. apply clear_list_In in Hq. apply Hk. tauto.
Qed.

Lemma drop_ok e k sl g s a : plain e -> has_dataset e = true ->
  kinv s -> qseteq (quads s) a -> step_ok e k (Drop sl g) s a.
Proof.
  intros Hp Hd Hk Ha. unfold step_ok. simpl. unfold evalDrop. rewrite Hd.
  destruct (graph_all_plain e g s Hp) as [l [El Hl]]; auto.
  rewrite El. simpl. eexists. split; [reflexivity|split].
  - intros q. rewrite drop_list_In, spec_clear_In, <- (Ha q). split; intros [H1 H2]; split; auto.
    + rewrite <- (Hl q H1). auto.
    + rewrite (Hl q H1). auto.
  - apply drop_list_kinv. auto.
Qed.

Lemma god_plain e g : plain e -> has_dataset e = true \/ g = DDefault ->
  graph_or_default e g = Some (GCtx (gd_cid e g)).
Proof.
  intros Hp Hd. destruct g as [|c]; simpl; [rewrite Hp; auto|].
  destruct Hd as [Hd|Hd]; [rewrite Hd; auto|discriminate].
Qed.

Lemma iadd_from_ctx e x y s :
  g_iadd_from e (GCtx y) (GCtx x) s = Ok (add_quads (to_graph y (q_triples (None, None, None) x (quads s))) s).
Proof. unfold g_iadd_from. simpl. rewrite add_triples_eq. reflexivity. Qed.

Lemma gd_scope e a b : has_dataset e = true \/ needs_dataset (Add false a b) = false ->
  (has_dataset e = true \/ a = DDefault) /\ (has_dataset e = true \/ b = DDefault).
Proof.
  intros [H|H]; auto. destruct a, b; simpl in H; try discriminate. auto.
Qed.

Lemma add_ok e k sl x y s a : plain e ->
  has_dataset e = true \/ needs_dataset (Add sl x y) = false ->
  kinv s -> qseteq (quads s) a -> step_ok e k (Add sl x y) s a.
Proof.
  intros Hp Hd Hk Ha. destruct (gd_scope e x y Hd) as [Hx Hy].
  unfold step_ok. simpl. unfold evalAdd. rewrite !god_plain by auto. rewrite same_ident_ctx.
  destruct (N.eqb (gd_cid e x) (gd_cid e y)) eqn:E.
  - exists s. simpl. auto.
  - rewrite iadd_from_ctx. simpl. eexists. split; [reflexivity|split].
    + intros q. rewrite add_quads_In, in_app_iff, !to_graph_In, q_triples_all_In, graph_of_In, (Ha q).
      rewrite <- (Ha (fst q, gd_cid e x)). tauto.
    + apply kinv_add_quads. auto.
Qed.

Lemma copy_ok e k sl x y s a : plain e ->
  has_dataset e = true \/ needs_dataset (Copy sl x y) = false ->
  kinv s -> qseteq (quads s) a -> step_ok e k (Copy sl x y) s a.
Proof.
  intros Hp Hd Hk Ha. destruct (gd_scope e x y Hd) as [Hx Hy].
  unfold step_ok. simpl. unfold evalCopy. rewrite !god_plain by auto. rewrite same_ident_ctx.
  destruct (N.eqb_spec (gd_cid e x) (gd_cid e y)) as [E|E].
  - exists s. simpl. auto.
  - set (s1 := g_clear (GCtx (gd_cid e y)) s). rewrite iadd_from_ctx. eexists. split; [reflexivity|split].
    + intros q. rewrite add_quads_In, in_app_iff, !to_graph_In, q_triples_all_In, graph_of_In.
      unfold s1. rewrite !g_clear_In, drop_graph_In, (Ha q). simpl. rewrite <- (Ha (fst q, gd_cid e x)). tauto.
    + apply kinv_add_quads, kinv_clear. auto.
Qed.

Lemma move_ok e k sl x y s a : plain e ->
  has_dataset e = true \/ needs_dataset (Move sl x y) = false ->
  kinv s -> qseteq (quads s) a -> step_ok e k (Move sl x y) s a.
Proof.
  intros Hp Hd Hk Ha. destruct (gd_scope e x y Hd) as [Hx Hy].
  unfold step_ok. simpl. unfold evalMove. rewrite !god_plain by auto. rewrite same_ident_ctx.
  destruct (N.eqb_spec (gd_cid e x) (gd_cid e y)) as [E|E].
  - exists s. simpl. auto.
  - set (s1 := g_clear (GCtx (gd_cid e y)) s). rewrite iadd_from_ctx.
    set (s2 := add_quads (to_graph (gd_cid e y) (q_triples (None, None, None) (gd_cid e x) (quads s1))) s1).
    exists (forget (gd_cid e x) (g_clear (GCtx (gd_cid e x)) s2)). split; [reflexivity|split].
    + intros q. change (quads (forget (gd_cid e x) (g_clear (GCtx (gd_cid e x)) s2)))
        with (quads (g_clear (GCtx (gd_cid e x)) s2)).
      rewrite g_clear_In, drop_graph_In. unfold s2.
      rewrite add_quads_In, in_app_iff, !to_graph_In, q_triples_all_In, graph_of_In.
      unfold s1. rewrite !g_clear_In, drop_graph_In, (Ha q). simpl. rewrite <- (Ha (fst q, gd_cid e x)). tauto.
    + apply kinv_remove_graph. unfold s2. apply kinv_add_quads. unfold s1. apply kinv_clear. auto.
Qed.
