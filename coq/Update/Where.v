(* WHERE clauses evaluated inside the model: the solutions evalModify computes
   (the top-down evaluator of property C04 over the dataset evalModify builds)
   are a permutation of the solutions SPARQL 1.1 Update 3.1.3 prescribes (the
   bottom-up algebra over the prescribed query dataset), outside the regions of
   F10i and F10j.  Uses C04's push-down theorem with the empty context. *)
From Coq Require Import Arith Permutation.
From RV Require Import Update.Model Update.Proofs Update.Ops.
From RV Require Sparql.Agreement Sparql.Main.
Local Open Scope N_scope.


(* ------------------------------------------------------------------ *)
(* the store as a C04 dataset: duplicate-free graphs, no boolean terms  *)

Definition terms_nb (a : qset) : Prop :=
  forall q, In q a -> forall t, In t (triple_terms (fst q)) -> Sparql.Findings.nb t = true.

Lemma nb_ge22 t : 22 <= t -> Sparql.Findings.nb t = true.
Proof.
  intros H. unfold Sparql.Findings.nb, Sparql.Algebra.kind_of.
  destruct (N.ltb_spec t 10); [lia|]. destruct (N.ltb_spec t 20); [lia|].
  destruct (N.eqb_spec t 20); [lia|]. destruct (N.eqb_spec t 21); [lia|]. reflexivity.
Qed.

Lemma graph_at_In c a t : In t (graph_at c a) <-> In (t, c) a.
Proof. apply q_triples_all_In. Qed.

Lemma graph_at_NoDup c a : NoDup a -> NoDup (graph_at c a).
Proof.
  unfold graph_at, q_triples. induction a as [|[t d] r IH]; intros H; simpl; [constructor|].
  inversion H; subst. unfold qsel at 1. simpl. destruct t as [[x y] z]. simpl.
  destruct (N.eqb_spec c d); [|apply IH; auto].
  subst. simpl. constructor; [|apply IH; auto].
  intros Hin. apply (q_triples_all_In d r (x, y, z)) in Hin. auto.
Qed.

Lemma graph_nb_of (g : Sparql.Algebra.graph) :
  (forall t, In t g -> forall x, In x (triple_terms t) -> Sparql.Findings.nb x = true) -> Sparql.Fragment.graph_nb g = true.
Proof.
  intros H. unfold Sparql.Fragment.graph_nb. apply forallb_forall. intros [[x y] z] Ht.
  rewrite (H _ Ht x), (H _ Ht y), (H _ Ht z); simpl; auto.
Qed.

Lemma graph_at_nb c a : terms_nb a -> Sparql.Fragment.graph_nb (graph_at c a) = true.
Proof.
  intros H. apply graph_nb_of. intros t Ht x Hx. apply graph_at_In in Ht. apply (H _ Ht). exact Hx.
Qed.

Lemma gok_graph_at c a : NoDup a -> terms_nb a -> Sparql.Agreement.gok (graph_at c a).
Proof. intros H1 H2. split; [apply graph_at_NoDup; auto|apply graph_at_nb; auto]. Qed.

Lemma gok_union a : terms_nb a -> Sparql.Agreement.gok (union_graph a).
Proof.
  intros H. split; [apply (dedup_NoDup triple_eqb triple_eqb_spec)|].
  apply graph_nb_of. intros t Ht x Hx. unfold union_graph in Ht. rewrite (dedup_In triple_eqb triple_eqb_spec) in Ht.
  apply in_map_iff in Ht. destruct Ht as [q [<- Hq]]. apply (H _ Hq). exact Hx.
Qed.

Lemma gok_merge cs a : terms_nb a -> Sparql.Agreement.gok (merge_graphs cs a).
Proof.
  intros H. split; [apply (dedup_NoDup triple_eqb triple_eqb_spec)|].
  apply graph_nb_of. intros t Ht x Hx. unfold merge_graphs in Ht. rewrite (dedup_In triple_eqb triple_eqb_spec) in Ht.
  apply in_flat_map in Ht. destruct Ht as [c [_ Ht]]. apply graph_at_In in Ht. apply (H _ Ht). exact Hx.
Qed.

Lemma gok_nil : Sparql.Agreement.gok [].
Proof. split; [constructor|reflexivity]. Qed.

Lemma gok_ctx_active0 e a : NoDup a -> terms_nb a -> Sparql.Agreement.gok (ctx_active e a).
Proof.
  intros H1 H2. unfold ctx_active.
  destruct (e_fe e); try destruct (e_union e); auto using gok_graph_at, gok_union.
Qed.

Lemma gok_m_active e w ud un a : NoDup a -> terms_nb a -> Sparql.Agreement.gok (m_active e w ud un a).
Proof.
  intros H1 H2. unfold m_active.
  destruct ud, un; try (apply gok_merge; auto).
  destruct w; [apply gok_graph_at|apply gok_ctx_active0]; auto.
Qed.

Lemma gname_inj c d : gname c = gname d -> c = d.
Proof. unfold gname, GBASE. lia. Qed.

Lemma named_graphs_names cs a : map fst (named_graphs cs a) = map gname cs.
Proof. unfold named_graphs. rewrite map_map. reflexivity. Qed.

Lemma NoDup_map_gname cs : NoDup cs -> NoDup (map gname cs).
Proof.
  induction cs as [|c r IH]; intros H; simpl; [constructor|]. inversion H; subst.
  constructor; auto. intros Hin. apply in_map_iff in Hin. destruct Hin as [d [E Hd]].
  apply gname_inj in E. subst. auto.
Qed.

Lemma named_of_NoDup a : NoDup (named_of a).
Proof. unfold named_of. apply filter_NoDup. apply (dedup_NoDup N.eqb N.eqb_spec). Qed.

Lemma graphs_nodup_named cs a dd : NoDup cs -> NoDup a ->
  Sparql.Agreement.graphs_nodup {| Sparql.Algebra.ds_default := dd; Sparql.Algebra.ds_named := named_graphs cs a |}.
Proof.
  intros H1 H2. split; simpl.
  - rewrite named_graphs_names. apply NoDup_map_gname. auto.
  - intros ng Hng. unfold named_graphs in Hng. apply in_map_iff in Hng. destruct Hng as [c [<- _]].
    simpl. apply graph_at_NoDup. auto.
Qed.

Lemma ds_nb_named cs a dd : terms_nb a ->
  Sparql.Fragment.ds_nb {| Sparql.Algebra.ds_default := dd; Sparql.Algebra.ds_named := named_graphs cs a |}.
Proof.
  intros H ng Hng. simpl in Hng. unfold named_graphs in Hng. apply in_map_iff in Hng.
  destruct Hng as [c [<- _]]. simpl. split; [apply nb_ge22; unfold gname, GBASE; lia|apply graph_at_nb; auto].
Qed.

Lemma dedup_acc_id {A} (eqb : A -> A -> bool) (sp : forall x y, reflect (x = y) (eqb x y)) (l : list A) :
  forall acc, NoDup (acc ++ l) -> dedup_acc eqb acc l = acc ++ l.
Proof.
  induction l as [|x r IH]; intros acc H; simpl; [rewrite app_nil_r; reflexivity|].
  assert (Hx : ~ In x acc).
  { intros Hin. apply NoDup_remove_2 in H. apply H. apply in_or_app. left. exact Hin. }
  unfold sadd. destruct (memb eqb x acc) eqn:E; [apply (memb_In eqb sp) in E; contradiction|].
  rewrite IH; rewrite <- app_assoc; simpl; auto.
Qed.

Lemma dedup_id {A} (eqb : A -> A -> bool) (sp : forall x y, reflect (x = y) (eqb x y)) (l : list A) :
  NoDup l -> dedup eqb l = l.
Proof. intros H. unfold dedup. apply (dedup_acc_id eqb sp l []). exact H. Qed.

(* ------------------------------------------------------------------ *)
(* the fragment of WHERE clauses handled here, and what a pattern reads  *)

Fixpoint walg (p : Sparql.Algebra.alg) : bool :=
  match p with
  | Sparql.Algebra.BGP _ => true
  | Sparql.Algebra.Join _ a b | Sparql.Algebra.Union a b => walg a && walg b
  | Sparql.Algebra.Graph _ q => walg q
  | _ => false
  end.

(* the dataset evalModify evaluates WHERE on is the prescribed one *)
Lemma spec_model_bu e w ud un p a :
  Sparql.EvalBU.eval_bu (m_ds e w ud un a) (m_active e w ud un a) p = s_omega e w ud un p a.
Proof.
  unfold s_omega, m_ds, s_named, m_named, m_active, s_active.
  destruct (has_dataset e); destruct ud, un; reflexivity.
Qed.

(* T1: the solutions evalModify computes are, as a multiset, the solutions of
   the WHERE pattern over the prescribed query dataset *)
Theorem where_solutions e w ud un p a :
  (forall names, Sparql.Agreement.frag names [] p = true) ->
  NoDup a -> terms_nb a ->
  Permutation (m_omega e w ud un p a) (s_omega e w ud un p a).
Proof.
  intros F Hn Hb. rewrite <- (spec_model_bu e w ud un p a).
  unfold m_omega.
  assert (Gn : Sparql.Agreement.graphs_nodup (m_ds e w ud un a)).
  { unfold m_ds. destruct (has_dataset e); [apply graphs_nodup_named; auto; unfold m_named; destruct ud, un; auto using named_of_NoDup, filter_NoDup|].
    split; simpl; [constructor|intros ng []]. }
  assert (Nb : Sparql.Fragment.ds_nb (m_ds e w ud un a)).
  { unfold m_ds. destruct (has_dataset e); [apply ds_nb_named; auto|]. intros ng []. }
  pose proof (Sparql.Agreement.pushdown (m_ds e w ud un a) Gn Nb p [] (F _) (m_active e w ud un a) []
                (gok_m_active e w ud un a Hn Hb) eq_refl) as P.
  rewrite Sparql.Main.join_ctx_nil in P.
  - apply P. intros v Hv. simpl in Hv. congruence.
  - apply Sparql.Fragment.bu_wf. apply (Sparql.Agreement.frag_shape [] p [] (F [])).
Qed.

(* ------------------------------------------------------------------ *)
(* DELETE WHERE: the solutions evalDeleteWhere computes (evalBGP for the triples
   outside GRAPH, evalPart of a Graph node per block, _join) are the solutions of
   the quad pattern read as a group graph pattern over the store's dataset *)

Lemma m_ds_own e a :
  m_ds e None [] [] a
  = {| Sparql.Algebra.ds_default := ctx_active e a;
       Sparql.Algebra.ds_named := named_graphs (s_named e [] [] a) a |}.
Proof. unfold m_ds, s_named, m_active. destruct (has_dataset e); reflexivity. Qed.

Lemma gok_ctx_active e a : NoDup a -> terms_nb a -> Sparql.Agreement.gok (ctx_active e a).
Proof. intros. apply (gok_m_active e None [] [] a); auto. Qed.

Theorem dw_solutions e tm a : NoDup a -> terms_nb a ->
  Permutation (dw_omega e tm a) (s_omega e None [] [] (dw_alg tm) a).
Proof.
  intros Hn Hb. unfold dw_omega, s_omega, dw_alg. rewrite m_ds_own.
  change (s_active e None [] [] a) with (ctx_active e a).
  set (ds := {| Sparql.Algebra.ds_default := ctx_active e a;
                Sparql.Algebra.ds_named := named_graphs (s_named e [] [] a) a |}).
  set (g := ctx_active e a).
  assert (Gn : Sparql.Agreement.graphs_nodup ds).
  { unfold ds, s_named. destruct (has_dataset e); [apply graphs_nodup_named; auto using named_of_NoDup|].
    split; simpl; [constructor|intros ng []]. }
  assert (Nb : Sparql.Fragment.ds_nb ds).
  { unfold ds. apply ds_nb_named; auto. }
  assert (Gk : Sparql.Agreement.gok g) by (apply gok_ctx_active; auto).
  assert (Step : forall blocks res acc,
            Permutation res (Sparql.EvalBU.eval_bu ds g acc) ->
            Permutation
              (fold_left (fun r b => Sparql.Algebra.join_lists r (Sparql.EvalTD.eval_td ds g [] (block_alg b))) blocks res)
              (Sparql.EvalBU.eval_bu ds g
                 (fold_left (fun ac b => Sparql.Algebra.Join false ac (block_alg b)) blocks acc))).
  { induction blocks as [|b r IH]; intros res acc P; simpl; [exact P|].
    apply IH. simpl.
    assert (Pb : Permutation (Sparql.EvalTD.eval_td ds g [] (block_alg b)) (Sparql.EvalBU.eval_bu ds g (block_alg b))).
    { pose proof (Sparql.Agreement.pushdown ds Gn Nb (block_alg b) [] eq_refl g [] Gk eq_refl) as P0.
      rewrite Sparql.Main.join_ctx_nil in P0.
      - apply P0. intros v Hv. simpl in Hv. congruence.
      - apply Sparql.Fragment.bu_wf. reflexivity. }
    eapply Permutation_trans; [apply RV.Sparql.Proofs.join_lists_perm_l; exact P|].
    apply Sparql.Agreement.join_lists_perm_r. exact Pb. }
  apply Step. simpl. rewrite RV.Sparql.BgpProofs.eval_bgp_ext. apply Permutation_refl.
Qed.
