(* Model of evaluate.evalBGP for a basic graph pattern whose triple patterns have
   IRI or path predicates: the patterns are evaluated in the given order, the
   bindings made by earlier patterns (and the initial bindings) are substituted
   into the ends of later ones, binding a variable twice raises AlreadyBound
   (solution skipped) unless the values agree.  No proofs in this file. *)
From RV Require Export Paths.Model.

Inductive tend := EV (v : N) | EC (t : term).       (* variable / constant term *)
Definition tpat := (tend * path * tend)%type.
Definition binding := list (N * term).              (* QueryContext bindings, newest first *)

Fixpoint lookup (b : binding) (v : N) : option term :=
  match b with
  | [] => None
  | (w, t) :: r => if N.eqb v w then Some t else lookup r v
  end.

(* ctx[x] *)
Definition resolve (b : binding) (e : tend) : option term :=
  match e with EC t => Some t | EV v => lookup b v end.

(* c[x] = value : AlreadyBound (None) when bound to another value *)
Definition bset (b : binding) (e : tend) (t : term) : option binding :=
  match e with
  | EC _ => Some b
  | EV v => match lookup b v with
            | Some t' => if N.eqb t' t then Some b else None
            | None => Some ((v, t) :: b)
            end
  end.

Fixpoint bgp_eval (g : graph) (n : nat) (b : binding) (ps : list tpat) : res (list binding) :=
  match ps with
  | [] => Ok [b]                                           (* yield ctx.solution() *)
  | (s, p, o) :: r =>
      let rs := resolve b s in
      let ro := resolve b o in
      bind (eval g n p rs ro) (fun prs =>
        rconcat (map (fun so : pr =>
          match (match rs with None => bset b s (fst so) | Some _ => Some b end) with
          | None => Ok []
          | Some b1 =>
              match (match ro with None => bset b1 o (snd so) | Some _ => Some b1 end) with
              | None => Ok []                              (* except AlreadyBound: continue *)
              | Some b2 => bgp_eval g n b2 r
              end
          end) prs))
  end.

(* ------------------------------------------------------------------ *)
(* correspondence suite: solutions as multisets of maps *)
Record bcase := { b_g : graph; b_init : binding; b_pats : list tpat }.
Definition bobs := res (list binding).

Definition bmodel_obs (c : bcase) : bobs := bgp_eval (b_g c) (fuel (b_g c)) (b_init c) (b_pats c).

Definition bind_eqb (a b : binding) : bool :=
  forallb (fun vt : N * term => match lookup b (fst vt) with Some t => N.eqb t (snd vt) | None => false end) a
  && forallb (fun vt : N * term => match lookup a (fst vt) with Some t => N.eqb t (snd vt) | None => false end) b.

Definition bcount (x : binding) (l : list binding) : nat := length (filter (bind_eqb x) l).
Definition bbag_eqb (a b : list binding) : bool :=
  forallb (fun x => Nat.eqb (bcount x a) (bcount x b)) (a ++ b).

Definition bobs_eqb (a b : bobs) : bool :=
  match a, b with
  | Ok x, Ok y => bbag_eqb x y
  | OutOfFuel, OutOfFuel | Raised, Raised => true
  | _, _ => false
  end.

(* checker (computed, independent of the evaluators): every observed solution extends
   the initial bindings and satisfies every pattern ([expected] with both ends given),
   and every assignment of the pattern variables over the universe that does so - and
   respects the "both ends unbound: graph nodes only" rule of the pattern's turn - is observed *)
Definition pvars (ps : list tpat) : list N :=
  dedup N.eqb (flat_map (fun sp : tpat =>
    let '(s, _, o) := sp in
    (match s with EV v => [v] | _ => [] end) ++ (match o with EV v => [v] | _ => [] end)) ps).

Definition pconsts (ps : list tpat) : list term :=
  flat_map (fun sp : tpat =>
    let '(s, _, o) := sp in
    (match s with EC t => [t] | _ => [] end) ++ (match o with EC t => [t] | _ => [] end)) ps.

Definition buniverse (c : bcase) : list term :=
  dedup N.eqb (map snd (b_init c) ++ pconsts (b_pats c) ++ nodes (b_g c)).

Fixpoint assignments (vs : list N) (U : list term) (b : binding) : list binding :=
  match vs with
  | [] => [b]
  | v :: r => match lookup b v with
              | Some _ => assignments r U b
              | None => flat_map (fun t => assignments r U ((v, t) :: b)) U
              end
  end.

(* does the total assignment mu satisfy the patterns when they are evaluated in this order
   starting from the bindings b?  [rels] are the patterns' relations over the universe,
   computed once *)
Fixpoint sat_b (g : graph) (mu b : binding) (ps : list (tpat * list pr)) : bool :=
  match ps with
  | [] => true
  | ((s, p, o), rel) :: r =>
      match resolve mu s, resolve mu o with
      | Some x, Some y =>
          memb pr_eqb (x, y) rel && ends_okb g (resolve b s) (resolve b o) (x, y)
          && (let b1 := match resolve b s with None => match s with EV v => (v, x) :: b | _ => b end | Some _ => b end in
              let b2 := match resolve b1 o with None => match o with EV v => (v, y) :: b1 | _ => b1 end | Some _ => b1 end in
              sat_b g mu b2 r)
      | _, _ => false
      end
  end.

Definition bexpected (c : bcase) : list binding :=
  let U := buniverse c in
  let rels := map (fun sp : tpat => (sp, rel_set U (b_g c) (snd (fst sp)))) (b_pats c) in
  filter (fun mu => sat_b (b_g c) mu (b_init c) rels)
         (assignments (pvars (b_pats c)) U (b_init c)).

Definition bsubset (a b : list binding) : bool := forallb (fun x => existsb (bind_eqb x) b) a.

Definition bspec_ok (c : bcase) (o : bobs) : bool :=
  match o with
  | Ok l => bsubset l (bexpected c) && bsubset (bexpected c) l
  | _ => false
  end.

Fixpoint pats_kf (ps : list tpat) : N :=
  match ps with
  | [] => 0
  | (_, p, _) :: r => if has_ninv p || has_empty_neg p then 4 else pats_kf r
  end.
Definition bkf (c : bcase) : N := pats_kf (b_pats c).     (* SPARQL route: F4e *)
