(* Property-path evaluation: the induction over the path, duplicate-freeness of
   closures, and the tie between the model and the specification checker. *)
From Coq Require Import PeanoNat.
From RV Require Import Paths.Model Paths.Basics Paths.Eval Paths.Spec.


Lemma forallb_Forall {A} (p : A -> bool) l : forallb p l = true <-> Forall (fun a => p a = true) l.
Proof. rewrite forallb_forall, Forall_forall. tauto. Qed.

Lemma existsb_false {A} (p : A -> bool) l : existsb p l = false <-> forall a, In a l -> p a = false.
Proof.
  split.
  - intros H a Ha. destruct (p a) eqn:E; auto.
    assert (existsb p l = true) by (apply existsb_exists; eauto). congruence.
  - intros H. destruct (existsb p l) eqn:E; auto. apply existsb_exists in E.
    destruct E as (a & Ha & Hp). rewrite (H a Ha) in Hp. discriminate.
Qed.

Definition enum_set_ok (g : graph) (En : enum) : Prop :=
  forall pt t, In t (En pt) <-> In t g /\ matches pt t = true.

Lemma std_enum_ok g : enum_set_ok g (std_enum g).
Proof. intros pt t. unfold std_enum, triples_of. apply filter_In. Qed.

Section M.
Variable g : graph.
Variable En : enum.
Hypothesis HE : enum_set_ok g En.
Variable n : nat.
Hypothesis Hn : fuel g <= n.

Lemma neg_nobad_of l : wfp (Neg l) = true -> neg_nobad l.
Proof.
  simpl. rewrite forallb_forall. intros Hw a Ha ->. specialize (Hw _ Ha). discriminate.
Qed.

(* every evaluator computes the code's relation [impl_rel], for every binding of the
   ends, every well-formed path (inverse members of negated sets included) and
   every enumeration order of the store *)
Theorem evalE_spec p : wfp p = true ->
  ev_spec g (evalE En g n p) (impl_rel g p).
Proof.
  induction p as [q|a IH|l IH|l IH|a m IH|l] using path_ind2; intros Hw.
  - apply ev_iri_spec; auto.
  - simpl. apply ev_inv_spec. apply IH; auto.
  - simpl in Hw. rewrite andb_true_iff, negb_true_iff, forallb_forall in Hw. destruct Hw as [Hne Hw].
    apply (ev_seq_spec g (fun a => evalE En g n a) (fun a => impl_rel g a)).
    + intros a. apply impl_rel_RN.
    + destruct l; [discriminate|congruence].
    + rewrite Forall_forall in IH |- *. intros a Ha. apply IH; auto.
  - simpl in Hw. rewrite forallb_forall in Hw.
    apply (ev_alt_spec g (fun a => evalE En g n a) (fun a => impl_rel g a)).
    rewrite Forall_forall in IH |- *. intros a Ha. apply IH; auto.
  - simpl. apply ev_mul_spec; auto.
    + apply (enum_all_nodes g En HE).
    + apply impl_rel_RN.
  - apply (ev_neg_spec g En HE). apply neg_nobad_of; auto.
Qed.

End M.

Lemma ev_spec_ext g f R S : req R S -> ev_spec g f R -> ev_spec g f S.
Proof.
  intros H Hs s o. destruct (Hs s o) as (l & Hl & Hin). exists l. split; auto.
  intros x y. rewrite Hin, (H x y). tauto.
Qed.

Theorem eval_spec g n p : fuel g <= n -> wfp p = true -> has_ninv p = false ->
  ev_spec g (eval g n p) (path_rel g p).
Proof.
  intros Hn Hw Hi. eapply ev_spec_ext; [apply impl_rel_eq; auto|].
  apply evalE_spec; auto. apply std_enum_ok.
Qed.

(* ---------------------------------------------------------------- closures have no duplicates *)
Lemma NoDup_map_swap l : NoDup l -> NoDup (map swap l).
Proof.
  induction 1 as [|[a b] l Hn _ IH]; simpl; constructor; auto.
  rewrite in_map_iff. intros ([c d] & Heq & Hin). unfold swap in Heq. simpl in Heq.
  injection Heq as -> ->. auto.
Qed.

Lemma mul_pre_NoDup z s o : NoDup (mul_pre z s o).
Proof.
  unfold mul_pre. destruct z; [|constructor].
  destruct s as [a|], o as [b|]; try destruct (N.eqb a b); repeat constructor; simpl; tauto.
Qed.

(* unconditional: whatever the inner evaluators do, the [done] filter (which holds
   the zero-length pair from the start) lets no pair through twice *)
Lemma dup_freeE En g n p : forall s o l,
  closure_top p = true -> evalE En g n p s o = Ok l -> NoDup l.
Proof.
  induction p as [q|a IH|l0|l0|a IH m|l0]; intros s o l Hc He; try discriminate.
  - simpl in *. unfold ev_inv in He.
    destruct (evalE En g n a o s) as [l1| |] eqn:E; try discriminate.
    simpl in He. injection He as <-. apply NoDup_map_swap. eapply IH; eauto.
  - cbn [evalE] in He. unfold ev_mul in He.
    destruct (mul_raw (En (None, None, None)) n (evalE En g n a) m s o) as [r| |]; try discriminate.
    simpl in He. injection He as <-.
    apply (dedup_acc_NoDup pr_eqb pr_eqb_spec). apply mul_pre_NoDup.
Qed.

Lemma dup_free g n p : forall s o l,
  closure_top p = true -> eval g n p s o = Ok l -> NoDup l.
Proof. apply dup_freeE. Qed.

(* ---------------------------------------------------------------- the tie *)
Lemma xlate_id p : has_ninv p = false -> xlate p = p.
Proof.
  induction p as [q|a IH|l IH|l IH|a m IH|l] using path_ind2; simpl; intros H; auto.
  - rewrite IH; auto.
  - f_equal. rewrite existsb_false in H. rewrite Forall_forall in IH.
    rewrite <- (map_id l) at 2. apply map_ext_in. intros a Ha. apply IH; auto.
  - f_equal. rewrite existsb_false in H. rewrite Forall_forall in IH.
    rewrite <- (map_id l) at 2. apply map_ext_in. intros a Ha. apply IH; auto.
  - rewrite IH; auto.
  - f_equal. rewrite negb_false_iff, is_nil_true in H.
    rewrite <- (map_id l) at 2. apply map_ext_in. intros a Ha. destruct a as [q|q|]; auto.
    exfalso. assert (Hq : In q (neg_iv l)) by (unfold neg_iv; rewrite in_flat_map; exists (NInv q); simpl; auto).
    rewrite H in Hq. destruct Hq.
Qed.

Record kf0 (c : case) : Prop := {
  k_sparql : c_sparql c = true -> has_empty_neg (c_path c) = false;
  k_ninv : has_ninv (c_path c) = false }.

Lemma kf_zero c : kf c = 0%N -> kf0 c.
Proof.
  unfold kf. destruct (has_ninv (c_path c)) eqn:E1.
  - destruct (c_sparql c); simpl; discriminate.
  - destruct (c_sparql c) eqn:E0, (has_empty_neg (c_path c)) eqn:E2; simpl; try discriminate;
      intros _; constructor; auto; congruence.
Qed.

Lemma model_obs_eval c : kf0 c ->
  model_obs c = eval (c_g c) (fuel (c_g c)) (c_path c) (c_s c) (c_o c).
Proof.
  intros [H1 H2]. unfold model_obs. destruct (c_sparql c); auto.
  rewrite H1, xlate_id; auto.
Qed.

Theorem sound_complete g p s o :
  wfp p = true -> has_ninv p = false ->
  exists l, eval g (fuel g) p s o = Ok l
            /\ forall x y, In (x, y) l <-> path_rel g p x y /\ ends_ok g s o x y.
Proof. intros Hw Hi. exact (eval_spec g (fuel g) p (le_n _) Hw Hi s o). Qed.

(* the pinned semantics: what the code computes for EVERY well-formed path, inverse
   members of negated sets included - in particular it terminates *)
Theorem impl_sound_complete g p s o :
  wfp p = true ->
  exists l, eval g (fuel g) p s o = Ok l
            /\ forall x y, In (x, y) l <-> impl_rel g p x y /\ ends_ok g s o x y.
Proof. intros Hw. exact (evalE_spec g (std_enum g) (std_enum_ok g) (fuel g) (le_n _) p Hw s o). Qed.

Theorem spec_ok_model c : wf c -> kf c = 0%N -> spec_ok c (model_obs c) = true.
Proof.
  intros Hw Hk. apply kf_zero in Hk. rewrite model_obs_eval by auto.
  destruct Hk as [H1 H2]. unfold wf in Hw.
  destruct (sound_complete (c_g c) (c_path c) (c_s c) (c_o c) Hw H2) as (l & Hl & Hin).
  rewrite Hl. unfold spec_ok. apply andb_true_iff. split.
  - apply (seteqb_spec pr_eqb pr_eqb_spec). intros [x y]. rewrite Hin, expected_spec. tauto.
  - destruct (closure_top (c_path c)) eqn:Ec; auto.
    apply (nodupb_spec pr_eqb pr_eqb_spec). eapply dup_free; eauto.
Qed.

(* what the checker's verdict means *)
Theorem spec_ok_reading c l :
  spec_ok c (Ok l) = true <->
  (forall x y, In (x, y) l <-> path_rel (c_g c) (c_path c) x y /\ ends_ok (c_g c) (c_s c) (c_o c) x y)
  /\ (closure_top (c_path c) = true -> NoDup l).
Proof.
  unfold spec_ok. rewrite andb_true_iff, (seteqb_spec pr_eqb pr_eqb_spec). split.
  - intros [H1 H2]. split.
    + intros x y. rewrite (H1 (x, y)). apply expected_spec.
    + intros Hc. rewrite Hc in H2. apply (nodupb_spec pr_eqb pr_eqb_spec). auto.
  - intros [H1 H2]. split.
    + intros [x y]. rewrite H1. symmetry. apply expected_spec.
    + destruct (closure_top (c_path c)); auto. apply (nodupb_spec pr_eqb pr_eqb_spec). auto.
Qed.

Lemma spec_ok_not_ok c : spec_ok c OutOfFuel = false /\ spec_ok c Raised = false.
Proof. split; reflexivity. Qed.

(* zero-length matches on a bound term, whether or not it occurs in the graph *)
Lemma zero_length g n a m x l :
  mod_zero m = true ->
  (eval g n (Mul a m) (Some x) None = Ok l \/ eval g n (Mul a m) None (Some x) = Ok l
   \/ eval g n (Mul a m) (Some x) (Some x) = Ok l) ->
  In (x, x) l.
Proof.
  intros Hz H. unfold eval in H. cbn [evalE] in H. unfold ev_mul in H. rewrite Hz in H.
  destruct H as [H|[H|H]];
    match type of H with rmap _ ?r = _ => destruct r; try discriminate end;
    simpl in H; rewrite ?N.eqb_refl in H; injection H as <-;
    apply (dedup_acc_In pr_eqb pr_eqb_spec); left; simpl; auto.
Qed.

(* ---------------------------------------------------------------- the historical code *)
(* before the F4d fix: p3*/q4*/p3* backwards from a term that is not in the (empty) graph *)
Lemma hist_seq_bw_refuted :
  let g : graph := [] in
  let l := [ev_mul g 1 (ev_iri (std_enum g) 3%N) ZeroOrMore; ev_mul g 1 (ev_iri (std_enum g) 4%N) ZeroOrMore;
            ev_mul g 1 (ev_iri (std_enum g) 3%N) ZeroOrMore] in
  hist_seq_bw l None (Some 1%N) = Ok [] /\ seq_bw l None (Some 1%N) = Ok [(1, 1)]%N.
Proof. vm_compute. split; reflexivity. Qed.

(* before the F4b fix: p* from a node on a 2-cycle *)
Lemma hist_ev_mul_refuted :
  let g : graph := [(1, 3, 2); (2, 3, 1)]%N in
  hist_ev_mul g (fuel g) (ev_iri (std_enum g) 3%N) ZeroOrMore (Some 1%N) None = Ok [(1, 1); (1, 2); (1, 1)]%N
  /\ ev_mul g (fuel g) (ev_iri (std_enum g) 3%N) ZeroOrMore (Some 1%N) None = Ok [(1, 1); (1, 2)]%N.
Proof. vm_compute. split; reflexivity. Qed.

(* ---------------------------------------------------------------- histories *)
Theorem h_spec_model steps : forall g,
  h_wf steps = true -> h_kf g steps = 0%N -> h_spec g steps (h_run g steps) = true.
Proof.
  induction steps as [|st r IH]; intros g Hw Hk; [reflexivity|].
  destruct st as [p s o sp|t|t]; simpl in *; auto.
  apply andb_true_iff in Hw. destruct Hw as [Hp Hr].
  destruct (N.eqb_spec (kf (hc g p s o sp)) 0) as [Hz|Hz]; [|contradiction].
  apply andb_true_iff. split; [apply spec_ok_model; auto|auto].
Qed.

(* every evaluation of an accepted history is answered from the graph as it is at that moment *)
Theorem h_spec_reading steps : forall g os,
  h_spec g steps os = true ->
  forall pre p s o sp post, steps = pre ++ HEval p s o sp :: post ->
  let g' := fold_left (fun g st => match st with HAdd t => g_add t g | HDel t => g_del t g | _ => g end) pre g in
  exists ob, spec_ok (hc g' p s o sp) ob = true /\ In ob os.
Proof.
  induction steps as [|st r IH]; intros g os H pre p s o sp post Heq.
  - destruct pre; discriminate.
  - destruct pre as [|st' pre]; simpl in Heq; injection Heq as -> ->.
    + simpl in *. destruct os as [|ob os']; [discriminate|].
      apply andb_true_iff in H. destruct H as [H _]. exists ob. simpl; auto.
    + destruct st' as [p' s' o' sp'|t|t]; simpl in H |- *.
      * destruct os as [|ob os']; [discriminate|]. apply andb_true_iff in H. destruct H as [_ H].
        destruct (IH g os' H pre p s o sp post eq_refl) as (ob' & ? & ?). exists ob'. simpl; auto.
      * exact (IH _ os H pre p s o sp post eq_refl).
      * exact (IH _ os H pre p s o sp post eq_refl).
Qed.

(* ---------------------------------------------------------------- ?x path ?x *)
Theorem spec_ok_same_model c : wf_same c -> kf c = 0%N -> spec_ok_same c (model_obs_same c) = true.
Proof.
  intros (Hw & Hs & Ho) Hk. apply kf_zero in Hk. unfold model_obs_same. rewrite model_obs_eval by auto.
  destruct Hk as [H1 H2]. unfold wf in Hw. rewrite Hs, Ho.
  destruct (sound_complete (c_g c) (c_path c) None None Hw H2) as (l & Hl & Hin).
  rewrite Hl. simpl. apply (seteqb_spec pr_eqb pr_eqb_spec). intros [x y].
  rewrite !filter_In, Hin, expected_spec. tauto.
Qed.

Theorem spec_ok_same_reading c l :
  spec_ok_same c (Ok l) = true <->
  forall x y, In (x, y) l <-> x = y /\ path_rel (c_g c) (c_path c) x x /\ In x (nodes (c_g c)).
Proof.
  unfold spec_ok_same. rewrite (seteqb_spec pr_eqb pr_eqb_spec).
  assert (H : forall x y, In (x, y) (filter diag (expected (c_g c) (c_path c) None None))
                          <-> x = y /\ path_rel (c_g c) (c_path c) x x /\ In x (nodes (c_g c))).
  { intros x y. rewrite filter_In, expected_spec. unfold diag. simpl. rewrite N.eqb_eq.
    split; [intros [[Hr [Hx Hy]] ->]; auto|intros (-> & Hr & Hx); auto]. }
  split.
  - intros Hs x y. rewrite (Hs (x, y)). apply H.
  - intros Hs [x y]. rewrite Hs. symmetry. apply H.
Qed.

(* positional reading: the observation judged for an evaluation step is the one AT the
   step's position among the evaluations *)
Fixpoint n_evals (steps : list hstep) : nat :=
  match steps with
  | [] => 0
  | HEval _ _ _ _ :: r => S (n_evals r)
  | _ :: r => n_evals r
  end.

Theorem h_spec_reading_pos steps : forall g os,
  h_spec g steps os = true ->
  length os = n_evals steps /\
  forall pre p s o sp post, steps = pre ++ HEval p s o sp :: post ->
  let g' := fold_left (fun g st => match st with HAdd t => g_add t g | HDel t => g_del t g | _ => g end) pre g in
  exists ob, nth_error os (n_evals pre) = Some ob /\ spec_ok (hc g' p s o sp) ob = true.
Proof.
  induction steps as [|st r IH]; intros g os H.
  - simpl in H. destruct os; [|discriminate]. split; auto. intros pre p s o sp post Heq. destruct pre; discriminate.
  - destruct st as [p' s' o' sp'|t|t]; simpl in H.
    + destruct os as [|ob os']; [discriminate|]. apply andb_true_iff in H. destruct H as [H0 H].
      destruct (IH g os' H) as [Hlen Hpos]. split; [simpl; congruence|].
      intros pre p s o sp post Heq. destruct pre as [|st' pre]; simpl in Heq; inversion Heq; subst.
      * exists ob. simpl. auto.
      * simpl. apply (Hpos pre p s o sp post eq_refl).
    + destruct (IH _ os H) as [Hlen Hpos]. split; [simpl; auto|].
      intros pre p s o sp post Heq. destruct pre as [|st' pre]; simpl in Heq; inversion Heq; subst.
      simpl. apply (Hpos pre p s o sp post eq_refl).
    + destruct (IH _ os H) as [Hlen Hpos]. split; [simpl; auto|].
      intros pre p s o sp post Heq. destruct pre as [|st' pre]; simpl in Heq; inversion Heq; subst.
      simpl. apply (Hpos pre p s o sp post eq_refl).
Qed.
