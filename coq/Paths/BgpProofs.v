(* evalBGP with path patterns: the solutions are exactly the bindings built pattern by
   pattern from the patterns' relations; every solution satisfies every pattern (join
   soundness); when the initial bindings and the constants are nodes of the graph,
   every binding that satisfies all patterns is found, in every order of the patterns. *)
From Coq Require Import Permutation.
From RV Require Import Paths.Model Paths.Basics Paths.Eval Paths.Spec Paths.Main Paths.BgpModel.

Definition step_s (b : binding) (s : tend) (x : term) : option binding :=
  match resolve b s with None => bset b s x | Some _ => Some b end.

(* the solutions of the patterns in this order, relationally *)
Fixpoint sat (g : graph) (b : binding) (ps : list tpat) (mu : binding) : Prop :=
  match ps with
  | [] => mu = b
  | (s, p, o) :: r =>
      exists x y b1 b2,
        path_rel g p x y /\ ends_ok g (resolve b s) (resolve b o) x y
        /\ step_s b s x = Some b1
        /\ (match resolve b o with None => bset b1 o y | Some _ => Some b1 end) = Some b2
        /\ sat g b2 r mu
  end.

Definition okpat (sp : tpat) : Prop := wfp (snd (fst sp)) = true /\ has_ninv (snd (fst sp)) = false.

Theorem bgp_eval_sat g ps : Forall okpat ps -> forall b,
  exists l, bgp_eval g (fuel g) b ps = Ok l /\ forall mu, In mu l <-> sat g b ps mu.
Proof.
  induction 1 as [|[[s p] o] r [Hw Hi] _ IH]; intros b.
  - exists [b]. split; [reflexivity|]. intros mu. simpl. split; [intros [<-|[]]; auto|intros ->; auto].
  - simpl in Hw, Hi. cbn [bgp_eval].
    destruct (sound_complete g p (resolve b s) (resolve b o) Hw Hi) as (prs & Hprs & Hin).
    rewrite Hprs. cbn [bind].
    set (h := fun so : pr =>
          match (match resolve b s with None => bset b s (fst so) | Some _ => Some b end) with
          | None => Ok []
          | Some b1 =>
              match (match resolve b o with None => bset b1 o (snd so) | Some _ => Some b1 end) with
              | None => Ok []
              | Some b2 => bgp_eval g (fuel g) b2 r
              end
          end).
    destruct (rconcat_spec h prs) as (l & Hl & Hlin).
    { intros so _. unfold h. destruct (match resolve b s with None => _ | Some _ => _ end) as [b1|]; [|eauto].
      destruct (match resolve b o with None => _ | Some _ => _ end) as [b2|]; [|eauto].
      destruct (IH b2) as (l0 & ? & _). eauto. }
    exists l. split; [exact Hl|]. intros mu. rewrite Hlin. cbn [sat]. unfold step_s. split.
    + intros ([x y] & l0 & Hxy & Hh & Hmu). unfold h in Hh. cbn [fst snd] in Hh.
      destruct (match resolve b s with None => bset b s x | Some _ => Some b end) as [b1|] eqn:E1;
        [|injection Hh as <-; destruct Hmu].
      destruct (match resolve b o with None => bset b1 o y | Some _ => Some b1 end) as [b2|] eqn:E2;
        [|injection Hh as <-; destruct Hmu].
      destruct (IH b2) as (l1 & Hl1 & Hl1in). rewrite Hl1 in Hh. injection Hh as <-.
      apply Hin in Hxy. destruct Hxy. exists x, y, b1, b2. repeat split; auto. apply Hl1in; auto.
    + intros (x & y & b1 & b2 & Hr & He & E1 & E2 & Hs).
      destruct (IH b2) as (l1 & Hl1 & Hl1in).
      exists (x, y), l1. split; [apply Hin; auto|]. split; [|apply Hl1in; auto].
      unfold h. cbn [fst snd]. rewrite E1, E2. exact Hl1.
Qed.

(* ---------------------------------------------------------------- join reading *)
Definition agree (b mu : binding) : Prop := forall v t, lookup b v = Some t -> lookup mu v = Some t.

Definition pat_ok (g : graph) (mu : binding) (sp : tpat) : Prop :=
  let '(s, p, o) := sp in
  exists x y, resolve mu s = Some x /\ resolve mu o = Some y /\ path_rel g p x y.

Lemma agree_refl b : agree b b.
Proof. intros v t H; exact H. Qed.

Lemma agree_trans a b c : agree a b -> agree b c -> agree a c.
Proof. intros H1 H2 v t H. auto. Qed.

Lemma bset_agree b e t b' : bset b e t = Some b' -> agree b b' /\ resolve b' e = Some t \/ (exists c, e = EC c /\ b' = b).
Proof.
  destruct e as [v|c]; simpl; [|intros [= <-]; right; eauto].
  destruct (lookup b v) as [t'|] eqn:E.
  - destruct (N.eqb_spec t' t); [|discriminate]. intros [= <-]. left. split; [apply agree_refl|congruence].
  - intros [= <-]. left. split.
    + intros w u Hw. simpl. destruct (N.eqb_spec w v); [congruence|auto].
    + simpl. rewrite N.eqb_refl. reflexivity.
Qed.

Lemma agree_resolve b mu e t : agree b mu -> resolve b e = Some t -> resolve mu e = Some t.
Proof. destruct e; simpl; auto. Qed.

(* one step: the new bindings extend the old ones and give the ends the values x, y *)
Lemma step_facts g b s o x y b1 b2 :
  ends_ok g (resolve b s) (resolve b o) x y ->
  step_s b s x = Some b1 ->
  (match resolve b o with None => bset b1 o y | Some _ => Some b1 end) = Some b2 ->
  agree b b2 /\ resolve b2 s = Some x /\ resolve b2 o = Some y.
Proof.
  unfold step_s. intros He E1 E2.
  assert (H1 : agree b b1 /\ resolve b1 s = Some x).
  { destruct (resolve b s) as [a|] eqn:Es.
    - injection E1 as <-. split; [apply agree_refl|]. rewrite Es. f_equal.
      destruct (resolve b o); simpl in He; [destruct He|]; congruence.
    - destruct (bset_agree _ _ _ _ E1) as [[? ?]|(c & -> & _)]; auto. discriminate. }
  destruct H1 as [Ha1 Hs1].
  assert (H2 : agree b1 b2 /\ resolve b2 o = Some y).
  { destruct (resolve b o) as [a|] eqn:Eo.
    - injection E2 as <-. split; [apply agree_refl|]. apply (agree_resolve b b1 o a Ha1) in Eo as Eo'. rewrite Eo'. f_equal.
      destruct (resolve b s); simpl in He; [destruct He|]; congruence.
    - destruct (bset_agree _ _ _ _ E2) as [[? ?]|(c & -> & _)]; auto. discriminate. }
  destruct H2 as [Ha2 Ho2]. split; [eapply agree_trans; eauto|]. split; auto.
  eapply agree_resolve; eauto.
Qed.

(* every solution extends the initial bindings and satisfies every pattern *)
Theorem sat_sound g ps : forall b mu, sat g b ps mu -> agree b mu /\ Forall (pat_ok g mu) ps.
Proof.
  induction ps as [|[[s p] o] r IH]; intros b mu H.
  - simpl in H. subst. split; [apply agree_refl|constructor].
  - cbn [sat] in H. destruct H as (x & y & b1 & b2 & Hr & He & E1 & E2 & Hs).
    destruct (step_facts g b s o x y b1 b2 He E1 E2) as (Ha & Hxs & Hyo).
    destruct (IH b2 mu Hs) as [Ha2 Hall]. split; [eapply agree_trans; eauto|].
    constructor; auto. exists x, y. repeat split; auto; eapply agree_resolve; eauto.
Qed.

(* ---------------------------------------------------------------- completeness, order independence *)
Definition vals_nodes (g : graph) (b : binding) : Prop := forall v t, lookup b v = Some t -> In t (nodes g).
Definition end_node (g : graph) (e : tend) : Prop := match e with EC t => In t (nodes g) | EV _ => True end.
Definition consts_nodes (g : graph) (sp : tpat) : Prop := end_node g (fst (fst sp)) /\ end_node g (snd sp).

Lemma resolve_node g mu e x : vals_nodes g mu -> end_node g e -> resolve mu e = Some x -> In x (nodes g).
Proof. destruct e; simpl; intros Hv He H; [eapply Hv; eauto|congruence]. Qed.

Theorem sat_complete_partial g ps : forall b mu,
  agree b mu -> Forall (pat_ok g mu) ps -> vals_nodes g mu -> Forall (consts_nodes g) ps ->
  exists mu', sat g b ps mu' /\ agree mu' mu.
Proof.
  induction ps as [|[[s p] o] r IH]; intros b mu Ha Hall Hv Hc.
  - exists b. split; [reflexivity|auto].
  - inversion Hall as [|? ? Hp0 Hall']; subst. simpl in Hp0. destruct Hp0 as (x & y & Hsx & Hoy & Hr).
    inversion Hc as [|? ? [Hcs Hco] Hc']; subst. simpl in Hcs, Hco.
    assert (Hxn : In x (nodes g)) by (apply (resolve_node g mu s x Hv Hcs Hsx)).
    assert (Hyn : In y (nodes g)) by (apply (resolve_node g mu o y Hv Hco Hoy)).
    assert (He : ends_ok g (resolve b s) (resolve b o) x y).
    { destruct (resolve b s) as [a|] eqn:Es, (resolve b o) as [c|] eqn:Eo; simpl; auto.
      - apply (agree_resolve b mu s a Ha) in Es. apply (agree_resolve b mu o c Ha) in Eo. split; congruence.
      - apply (agree_resolve b mu s a Ha) in Es. congruence.
      - apply (agree_resolve b mu o c Ha) in Eo. congruence. }
    (* the bindings after the step are still below mu *)
    assert (Hb1 : exists b1, step_s b s x = Some b1 /\ agree b1 mu).
    { unfold step_s. destruct (resolve b s) as [a|] eqn:Es; [eauto|].
      destruct s as [v|c]; [|discriminate]. simpl in Es |- *. rewrite Es.
      eexists; split; [reflexivity|]. intros w u Hw. simpl in Hw. destruct (N.eqb_spec w v); [|auto].
      subst. simpl in Hsx. congruence. }
    destruct Hb1 as (b1 & E1 & Ha1).
    assert (Hb2 : exists b2, (match resolve b o with None => bset b1 o y | Some _ => Some b1 end) = Some b2 /\ agree b2 mu).
    { destruct (resolve b o) as [c|] eqn:Eo; [eauto|].
      destruct o as [w|c]; [|discriminate]. simpl. simpl in Hoy.
      destruct (lookup b1 w) as [t'|] eqn:Ew.
      - apply Ha1 in Ew. assert (t' = y) by congruence. subst. rewrite N.eqb_refl. eauto.
      - eexists; split; [reflexivity|]. intros u t Hu. simpl in Hu. destruct (N.eqb_spec u w); [|auto].
        subst. congruence. }
    destruct Hb2 as (b2 & E2 & Ha2).
    destruct (IH b2 mu Ha2 Hall' Hv Hc') as (mu' & Hs & Hm).
    exists mu'. split; auto. cbn [sat]. exists x, y, b1, b2. repeat split; auto.
Qed.

(* the values of a solution are nodes when the initial bindings and the constants are *)
Lemma sat_vals_nodes g ps : forall b mu,
  sat g b ps mu -> vals_nodes g b -> Forall (consts_nodes g) ps -> vals_nodes g mu.
Proof.
  induction ps as [|[[s p] o] r IH]; intros b mu H Hv Hc.
  - simpl in H. subst. auto.
  - cbn [sat] in H. destruct H as (x & y & b1 & b2 & Hr & He & E1 & E2 & Hs).
    inversion Hc as [|? ? [Hcs Hco] Hc']; subst. simpl in Hcs, Hco.
    assert (Hxy : In x (nodes g) /\ In y (nodes g)).
    { assert (Hsn : forall a0, resolve b s = Some a0 -> In a0 (nodes g))
        by (intros a0 H0; exact (resolve_node g b s a0 Hv Hcs H0)).
      assert (Hon : forall a0, resolve b o = Some a0 -> In a0 (nodes g))
        by (intros a0 H0; exact (resolve_node g b o a0 Hv Hco H0)).
      destruct (path_rel_RN g p x y Hr) as [Heq|?]; auto.
      assert (Hone : In x (nodes g) \/ In y (nodes g)).
      { destruct (resolve b s) as [a|], (resolve b o) as [c|]; simpl in He.
        - destruct He as [-> _]. left. apply Hsn; reflexivity.
        - subst x. left. apply Hsn; reflexivity.
        - subst y. right. apply Hon; reflexivity.
        - tauto. }
      subst y. tauto. }
    destruct Hxy as [Hx Hy].
    assert (Hv1 : vals_nodes g b1).
    { unfold step_s in E1. destruct (resolve b s); [injection E1 as <-; auto|].
      destruct s as [v|c]; simpl in E1; [|injection E1 as <-; auto].
      destruct (lookup b v) as [t'|]; [destruct (N.eqb t' x); [injection E1 as <-; auto|discriminate]|].
      injection E1 as <-. intros w u Hw. simpl in Hw. destruct (N.eqb w v); [congruence|eauto]. }
    assert (Hv2 : vals_nodes g b2).
    { destruct (resolve b o); [injection E2 as <-; auto|].
      destruct o as [v|c]; simpl in E2; [|injection E2 as <-; auto].
      destruct (lookup b1 v) as [t'|]; [destruct (N.eqb t' y); [injection E2 as <-; auto|discriminate]|].
      injection E2 as <-. intros w u Hw. simpl in Hw. destruct (N.eqb w v); [congruence|eauto]. }
    eapply IH; eauto.
Qed.

(* any other order of the patterns finds the same solution (as far as it binds variables) *)
Theorem sat_order_partial g ps ps' b mu :
  Permutation ps ps' -> vals_nodes g b -> Forall (consts_nodes g) ps ->
  sat g b ps mu -> exists mu', sat g b ps' mu' /\ agree mu' mu.
Proof.
  intros Hp Hv Hc Hs. destruct (sat_sound g ps b mu Hs) as [Ha Hall].
  apply sat_complete_partial; auto.
  - eapply Permutation_Forall; eauto.
  - eapply sat_vals_nodes; eauto.
  - eapply Permutation_Forall; eauto.
Qed.

(* the corner that makes the order matter: a constant outside the graph reaches a
   both-ends-variable closure through a zero-length match *)
Lemma sat_order_refuted :
  let g : graph := [(1, 3, 2)]%N in
  let p1 : tpat := (EC 12%N, Mul (Iri 4%N) ZeroOrMore, EV 1%N) in
  let p2 : tpat := (EV 1%N, Mul (Iri 3%N) ZeroOrMore, EV 2%N) in
  bgp_eval g (fuel g) [] [p1; p2] = Ok [[(2, 12); (1, 12)]%N]
  /\ bgp_eval g (fuel g) [] [p2; p1] = Ok [].
Proof. vm_compute. split; reflexivity. Qed.

(* headline: for every order ps' of the patterns the evaluation succeeds, every solution
   extends the initial bindings and satisfies every pattern of the BGP with its
   section 18.4 relation, and every binding over graph nodes that does so is found
   (up to variables it binds beyond the patterns') *)
Theorem bgp_with_paths g ps ps' b :
  Permutation ps ps' -> Forall okpat ps -> vals_nodes g b -> Forall (consts_nodes g) ps ->
  exists l, bgp_eval g (fuel g) b ps' = Ok l
    /\ (forall mu, In mu l -> agree b mu /\ Forall (pat_ok g mu) ps)
    /\ (forall mu, agree b mu -> Forall (pat_ok g mu) ps -> vals_nodes g mu ->
          exists mu', In mu' l /\ agree mu' mu).
Proof.
  intros Hp Hok Hv Hc.
  assert (Hok' : Forall okpat ps') by (eapply Permutation_Forall; eauto).
  assert (Hc' : Forall (consts_nodes g) ps') by (eapply Permutation_Forall; eauto).
  destruct (bgp_eval_sat g ps' Hok' b) as (l & Hl & Hin). exists l. split; auto. split.
  - intros mu Hmu. apply Hin in Hmu. destruct (sat_sound g ps' b mu Hmu) as [Ha Hall]. split; auto.
    eapply Permutation_Forall; [apply Permutation_sym; eauto|auto].
  - intros mu Ha Hall Hvm.
    destruct (sat_complete_partial g ps' b mu Ha) as (mu' & Hs & Hm); auto.
    + eapply Permutation_Forall; eauto.
    + exists mu'. split; auto. apply Hin; auto.
Qed.
